import TinsModel.Checksum.Walk.StepL2
import TinsModel.Checksum.Verify
/-
  One layer of the induction behind `length_fields`: UDP and TCP (length / data offset, options, checksum with the
  pseudo header of the enclosing IPv4 / IPv6 layer).
-/
namespace Tins.Ck.Ser
open Tins.Ck Tins.Ck.Dissect Tins.Ck.Spec

/-- the enclosing layer of a stack, when there is one, is well formed (address widths) -/
def parentWf (p : Option Layer) : Prop :=
  match p with
  | some q => wf q = true
  | none => True

/-! ### option lists: what `write_option` emits is the TLV encoding the dissector expects, padded to 32 bits -/

theorem encTlv2_eq_write (opts : List (Nat × Bytes)) :
    encTlv2 opts (fun t => decide (t ≤ 1)) = writeTlvOpts opts := by
  induction opts with
  | nil => rfl
  | cons o r ih =>
    obtain ⟨t, d⟩ := o
    rw [writeTlvOpts_cons]
    simp only [encTlv2, List.foldr_cons] at ih ⊢
    rw [ih]
    by_cases h : t ≤ 1
    · have h' : ¬ t > 1 := by omega
      simp only [h, decide_true, if_true, h', if_false, ofNat_eq_b8]
    · have h' : t > 1 := by omega
      simp only [h, decide_false, Bool.false_eq_true, if_false, h', if_true, ofNat_eq_b8]

theorem optsOK_written (opts : List (Nat × Bytes)) (n : Nat) (hn : (writeTlvOpts opts).length = n) :
    optsOK (writeTlvOpts opts ++ zeros (pad4 n - n)) opts (fun t => decide (t ≤ 1)) = true := by
  unfold optsOK
  simp only [encTlv2_eq_write, hn]
  rw [← hn, List.take_left', List.drop_left' rfl, hn]
  · simp only [beq_self_eq_true, allZero_zeros, Bool.and_self, Bool.true_and, beq_iff_eq, List.length_append,
      length_zeros, hn]
    unfold pad4 Dissect.pad; split <;> omega
  · rfl

/-! ### the checksum tails patch two octets of the fixed header and nothing else -/

theorem be16At_ne_zero_of (A : Bytes) (h7 : 7 < A.length) (h : ¬ (A[6]? = some 0 ∧ A[7]? = some 0)) : be16At A 6 ≠ 0 := by
  intro hz
  apply h
  unfold be16At u8 at hz
  have e6 : A[6]? = some A[6] := List.getElem?_eq_getElem (by omega)
  have e7 : A[7]? = some A[7] := List.getElem?_eq_getElem (by omega)
  simp only [List.getD_eq_getElem?_getD, e6, e7, Option.getD_some] at hz
  have a : A[6].toNat = 0 := by omega
  have b : A[7].toNat = 0 := by omega
  rw [e6, e7]
  exact ⟨congrArg some (UInt8.toNat.inj a), congrArg some (UInt8.toNat.inj b)⟩

theorem udpTail_be16 (par : Parent) (buf : Bytes) (s i : Nat) (h : i + 1 < 6) :
    be16At (udpTail par buf s) i = be16At buf i := by
  cases par with
  | other => rfl
  | ip4 a b => simp only [udpTail]; exact be16At_poke16_ne _ _ _ _ (by omega)
  | ip6 a b => simp only [udpTail]; exact be16At_poke16_ne _ _ _ _ (by omega)

theorem udpTail_drop (par : Parent) (X inner : Bytes) (s : Nat) (h : X.length = 8) :
    (udpTail par (X ++ inner) s).drop 8 = inner := by
  rw [udpTail_split _ _ _ _ (by omega)]
  exact drop_append_len _ _ _ (by rw [length_take_of_le _ _ (by rw [length_udpTail]; simp)]; exact h)

theorem step_udp (sp dp : Nat) (rest : List Layer) (p : Option Layer) (k : Nat)
    (hr : inRange (.udp sp dp) = true) (hall : rest.all wf = true) (hp : parentWf p)
    (hsz : size (.udp sp dp :: rest) ≤ 65535)
    (ih : Acc rest (some (.udp sp dp)) 0) : Acc (.udp sp dp :: rest) p k := by
  unfold Acc at ih ⊢
  simp only [inRange, Bool.and_eq_true, decide_eq_true_eq] at hr
  have hin := serialize_length rest (some (.udp sp dp)) hall
  rw [show walkPar (some (Layer.udp sp dp)) = .other from rfl] at ih
  simp only [zeros_zero, List.append_nil] at ih
  simp only [size, headerSize, trailerSize] at hsz
  have hgetD : (if rest.isEmpty = true then none else some (size rest)).getD 0 = size rest := by
    cases rest <;> simp [size]
  simp only [serialize, write, headerSize, trailerSize, hgetD, hin, Nat.add_zero]
  generalize hF : w16 sp ++ w16 dp ++ w16 (8 + size rest) ++ [0, 0] = F
  have hFl : F.length = 8 := by rw [← hF]; rfl
  have hbl : (F ++ serialize rest (some (.udp sp dp))).length = 8 + size rest := by simp [hFl, hin]
  have hlen : (udpTail (walkPar p) (F ++ serialize rest (some (.udp sp dp))) (8 + size rest)).length = 8 + size rest := by
    rw [length_udpTail, hbl]
  have hres : zeros k = (udpTail (walkPar p) (F ++ serialize rest (some (.udp sp dp))) (8 + size rest) ++ zeros k).drop
      (8 + size rest) := (drop_append_len _ _ _ hlen).symm
  conv => rhs; rw [hres]
  apply walk_udp_intro
  · rw [List.length_append, hlen]; omega
  · rw [be16At_append_lt _ _ _ (by omega), udpTail_be16 _ _ _ _ (by omega), be16At_append_lt _ _ _ (by omega), ← hF]
    simp only [List.append_assoc, be16At_w16_skip, be16At_w16']; omega
  · omega
  · rw [List.length_append, hlen]; omega
  · rw [be16At_append_lt _ _ _ (by omega), udpTail_be16 _ _ _ _ (by omega), be16At_append_lt _ _ _ (by omega), ← hF]
    simp only [List.append_assoc, be16At_w16']; omega
  · rw [be16At_append_lt _ _ _ (by omega), udpTail_be16 _ _ _ _ (by omega), be16At_append_lt _ _ _ (by omega), ← hF]
    simp only [List.append_assoc, be16At_w16_skip, be16At_w16']; omega
  · -- the checksum: never transmitted as zero, and it verifies with the pseudo header
    have h0 : (F ++ serialize rest (some (.udp sp dp)))[6]? = some 0 := by rw [← hF]; simp [w16]
    have h1 : (F ++ serialize rest (some (.udp sp dp)))[7]? = some 0 := by rw [← hF]; simp [w16]
    have hnz : walkPar p ≠ .other → be16At (udpTail (walkPar p) (F ++ serialize rest (some (.udp sp dp)))
        (8 + size rest) ++ zeros k) 6 ≠ 0 := by
      intro hne
      rw [be16At_append_lt _ _ _ (by omega)]
      exact be16At_ne_zero_of _ (by omega) (Verify.udp_zero _ hne _ _ (by omega))
    cases hpar : walkPar p with
    | other => trivial
    | ip4 s d =>
      have hw : s.length = 4 ∧ d.length = 4 := by
        cases p with
        | none => simp [walkPar] at hpar
        | some q =>
          cases q <;> simp only [walkPar, parentOf, reduceCtorEq] at hpar
          obtain ⟨rfl, rfl⟩ := hpar
          simp only [parentWf, wf, Bool.and_eq_true, beq_iff_eq] at hp; exact ⟨hp.1.1, hp.1.2⟩
      rw [hpar] at hnz
      refine ⟨hnz (by simp), ?_⟩
      rw [take_append_len _ _ _ (by rw [← hpar]; exact hlen)]
      have := Verify.udp_checksum_verifies_ip4 s d (F ++ serialize rest (some (.udp sp dp))) hw.1 hw.2 (by omega) h0 h1
      rw [hbl] at this; exact this
    | ip6 s d =>
      have hw : s.length = 16 ∧ d.length = 16 := by
        cases p with
        | none => simp [walkPar] at hpar
        | some q =>
          cases q <;> simp only [walkPar, parentOf, reduceCtorEq] at hpar
          obtain ⟨rfl, rfl⟩ := hpar
          simp only [parentWf, wf, Bool.and_eq_true, beq_iff_eq] at hp; exact ⟨hp.1, hp.2⟩
      rw [hpar] at hnz
      refine ⟨hnz (by simp), ?_⟩
      rw [take_append_len _ _ _ (by rw [← hpar]; exact hlen)]
      have := Verify.udp_checksum_verifies_ip6 s d (F ++ serialize rest (some (.udp sp dp))) hw.1 hw.2 (by omega) h0 h1
      rw [hbl] at this; exact this
  · unfold slice
    rw [take_append_len _ _ _ hlen, udpTail_drop _ _ _ _ hFl]; exact ih

theorem tcpTail_u8 (par : Parent) (buf : Bytes) (s i : Nat) (h1 : i ≠ 16) (h2 : i ≠ 17) :
    u8 (tcpTail par buf s) i = u8 buf i := by
  cases par with
  | other => rfl
  | ip4 a b => simp only [tcpTail]; exact u8_poke16_ne _ _ _ _ h1 (by omega)
  | ip6 a b => simp only [tcpTail]; exact u8_poke16_ne _ _ _ _ h1 (by omega)

theorem tcpTail_be16 (par : Parent) (buf : Bytes) (s i : Nat) (h : i + 1 < 16 ∨ 17 < i) :
    be16At (tcpTail par buf s) i = be16At buf i := by
  unfold be16At; rw [tcpTail_u8 _ _ _ _ (by omega) (by omega), tcpTail_u8 _ _ _ _ (by omega) (by omega)]

theorem tcpTail_be32 (par : Parent) (buf : Bytes) (s i : Nat) (h : i + 3 < 16) :
    be32At (tcpTail par buf s) i = be32At buf i := by
  unfold be32At; rw [tcpTail_be16 _ _ _ _ (by omega), tcpTail_be16 _ _ _ _ (by omega)]

theorem step_tcp (sp dp seq ack flags win urg : Nat) (opts : List (Nat × Bytes)) (rest : List Layer) (p : Option Layer)
    (k : Nat) (hwf : wf (.tcp sp dp seq ack flags win urg opts) = true)
    (hr : inRange (.tcp sp dp seq ack flags win urg opts) = true) (hall : rest.all wf = true) (hp : parentWf p)
    (hsz : size (.tcp sp dp seq ack flags win urg opts :: rest) ≤ 65535)
    (hk : walkPar p = .other ∨ k = 0)
    (ih : Acc rest (some (.tcp sp dp seq ack flags win urg opts)) k) :
    Acc (.tcp sp dp seq ack flags win urg opts :: rest) p k := by
  unfold Acc at ih ⊢
  simp only [inRange, Bool.and_eq_true, decide_eq_true_eq] at hr
  obtain ⟨⟨⟨⟨⟨⟨⟨⟨r1, r2⟩, r3⟩, r4⟩, r5⟩, r6⟩, r7⟩, _⟩, r9⟩ := hr
  simp only [wf] at hwf
  have hin := serialize_length rest (some (.tcp sp dp seq ack flags win urg opts)) hall
  rw [show walkPar (some (Layer.tcp sp dp seq ack flags win urg opts)) = .other from rfl] at ih
  have hol := length_writeTlvOpts_tcp opts hwf
  have hp4 := pad4_ge (tcpOptSize opts)
  have hp4m := pad4_mod (tcpOptSize opts)
  have hp40 : pad4 (tcpOptSize opts) ≤ 40 := by unfold pad4; split <;> omega
  simp only [size, headerSize, trailerSize] at hsz
  simp only [serialize, write, headerSize, trailerSize, hin, Nat.add_zero, List.append_assoc]
  generalize hF : (w16 sp ++ (w16 dp ++ (w32 seq ++ (w32 ack ++ ([b8 ((20 + pad4 (tcpOptSize opts)) / 4 % 16 * 16 + flags / 256 % 16), b8 flags]
      ++ (w16 win ++ ([0, 0] ++ w16 urg))))))) = F
  have hFl : F.length = 20 := by rw [← hF]; rfl
  generalize hO : writeTlvOpts opts ++ zeros (pad4 (tcpOptSize opts) - tcpOptSize opts) = O
  have hOl : O.length = pad4 (tcpOptSize opts) := by rw [← hO]; simp [hol]; omega
  have hbuf : (w16 sp ++ (w16 dp ++ (w32 seq ++ (w32 ack ++ ([b8 ((20 + pad4 (tcpOptSize opts)) / 4 % 16 * 16 + flags / 256 % 16), b8 flags]
      ++ (w16 win ++ ([0, 0] ++ (w16 urg ++ (writeTlvOpts opts ++ (zeros (pad4 (tcpOptSize opts) - tcpOptSize opts)
        ++ serialize rest (some (.tcp sp dp seq ack flags win urg opts)))))))))))) = F ++ (O ++ serialize rest (some (.tcp sp dp seq ack flags win urg opts))) := by
    rw [← hF, ← hO]; simp only [List.append_assoc]
  rw [hbuf]
  generalize hI : serialize rest (some (.tcp sp dp seq ack flags win urg opts)) = I at *
  have hbl : (F ++ (O ++ I)).length = 20 + pad4 (tcpOptSize opts) + size rest := by simp [hFl, hOl, hin]; omega
  have hsplit := tcpTail_split (walkPar p) F (O ++ I) (20 + pad4 (tcpOptSize opts) + size rest) (by omega)
  generalize hF' : (tcpTail (walkPar p) (F ++ (O ++ I)) (20 + pad4 (tcpOptSize opts) + size rest)).take F.length = F' at hsplit
  have hF'l : F'.length = 20 := by
    rw [← hF', length_take_of_le _ _ (by rw [length_tcpTail, hbl]; omega)]; exact hFl
  -- the fixed header read through the checksum patch
  have rd8 : ∀ i, i < 20 → i ≠ 16 → i ≠ 17 →
      u8 (tcpTail (walkPar p) (F ++ (O ++ I)) (20 + pad4 (tcpOptSize opts) + size rest) ++ zeros k) i = u8 F i := by
    intro i h1 h2 h3
    rw [u8_append_left _ _ _ (by rw [length_tcpTail, hbl]; omega), tcpTail_u8 _ _ _ _ h2 h3, u8_append_left _ _ _ (by omega)]
  have rd16 : ∀ i, i + 1 < 16 ∨ (17 < i ∧ i + 1 < 20) →
      be16At (tcpTail (walkPar p) (F ++ (O ++ I)) (20 + pad4 (tcpOptSize opts) + size rest) ++ zeros k) i = be16At F i := by
    intro i h
    unfold be16At; rw [rd8 _ (by omega) (by omega) (by omega), rd8 _ (by omega) (by omega) (by omega)]
  have rd32 : ∀ i, i + 3 < 16 →
      be32At (tcpTail (walkPar p) (F ++ (O ++ I)) (20 + pad4 (tcpOptSize opts) + size rest) ++ zeros k) i = be32At F i := by
    intro i h
    unfold be32At; rw [rd16 _ (by omega), rd16 _ (by omega)]
  apply walk_tcp_intro (hl := 20 + pad4 (tcpOptSize opts))
  · rw [List.length_append, length_tcpTail, hbl]; omega
  · rw [rd8 12 (by omega) (by omega) (by omega), ← hF]
    simp only [u8_w16, u8_w32, List.cons_append, List.nil_append, u8_cons_zero, b8_toNat]; omega
  · omega
  · rw [List.length_append, length_tcpTail, hbl]; omega
  · rw [rd16 0 (by omega), ← hF, be16At_w16']; omega
  · rw [rd16 2 (by omega), ← hF]; simp only [be16At_w16_skip, be16At_w16']; omega
  · rw [rd32 4 (by omega), ← hF]; simp only [be32At_w16_skip]; exact be32At_w32 _ _ r3
  · rw [rd32 8 (by omega), ← hF]; simp only [be32At_w16_skip, be32At_w32_skip]; exact be32At_w32 _ _ r4
  · rw [rd8 12 (by omega) (by omega) (by omega), rd8 13 (by omega) (by omega) (by omega), ← hF]
    simp only [u8_w16, u8_w32, List.cons_append, List.nil_append, u8_cons_zero, u8_cons_succ, b8_toNat]; omega
  · rw [rd16 14 (by omega), ← hF]
    simp only [be16At_w16_skip, be16At_w32_skip, List.cons_append, List.nil_append, be16At_cons, be16At_w16']; omega
  · rw [rd16 18 (by omega), ← hF]
    simp only [be16At_w16_skip, be16At_w32_skip, List.cons_append, List.nil_append, be16At_cons]
    rw [show w16 urg = w16 urg ++ [] by simp, be16At_w16']; omega
  · rw [hsplit, List.append_assoc, List.append_assoc, slice_mid _ _ _ 20 _ hF'l (by omega), ← hO]
    exact optsOK_written opts _ hol
  · -- the checksum verifies with the pseudo header of the enclosing IP layer (nothing follows the segment there)
    have h0 : (F ++ (O ++ I))[16]? = some 0 := by rw [← hF]; simp [w16, w32]
    have h1 : (F ++ (O ++ I))[17]? = some 0 := by rw [← hF]; simp [w16, w32]
    cases hpar : walkPar p with
    | other => trivial
    | ip4 s d =>
      have hk0 : k = 0 := by rcases hk with h | h; (· rw [hpar] at h; cases h); exact h
      subst hk0
      have hw : s.length = 4 ∧ d.length = 4 := by
        cases p with
        | none => simp [walkPar] at hpar
        | some q =>
          cases q <;> simp only [walkPar, parentOf, reduceCtorEq] at hpar
          obtain ⟨rfl, rfl⟩ := hpar
          simp only [parentWf, wf, Bool.and_eq_true, beq_iff_eq] at hp; exact ⟨hp.1.1, hp.1.2⟩
      simp only [zeros_zero, List.append_nil, length_tcpTail]
      have := Verify.tcp_checksum_verifies_ip4 s d (F ++ (O ++ I)) hw.1 hw.2 (by omega) h0 h1
      rw [hbl] at this ⊢; exact this
    | ip6 s d =>
      have hk0 : k = 0 := by rcases hk with h | h; (· rw [hpar] at h; cases h); exact h
      subst hk0
      have hw : s.length = 16 ∧ d.length = 16 := by
        cases p with
        | none => simp [walkPar] at hpar
        | some q =>
          cases q <;> simp only [walkPar, parentOf, reduceCtorEq] at hpar
          obtain ⟨rfl, rfl⟩ := hpar
          simp only [parentWf, wf, Bool.and_eq_true, beq_iff_eq] at hp; exact ⟨hp.1, hp.2⟩
      simp only [zeros_zero, List.append_nil, length_tcpTail]
      have := Verify.tcp_checksum_verifies_ip6 s d (F ++ (O ++ I)) hw.1 hw.2 (by omega) h0 h1
      rw [hbl] at this ⊢; exact this
  · rw [hsplit, List.append_assoc, List.append_assoc, ← List.append_assoc F' O, drop_append_len _ _ _ (by simp [hF'l, hOl])]
    exact ih

end Tins.Ck.Ser
