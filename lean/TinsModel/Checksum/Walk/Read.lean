import TinsModel.Checksum.Walk.Defs
/-
  Reading back, with the readers of the RFC dissector, what the serialisation model wrote: list surgery (`drop` / `take` /
  `slice` of `header ++ inner ++ trailer`) and the big-endian / little-endian field readers on explicit header bytes.
-/
namespace Tins.Ck.Ser
open Tins.Ck Tins.Ck.Dissect

theorem drop_append_len (A B : Bytes) (n : Nat) (h : A.length = n) : (A ++ B).drop n = B := by
  subst h; simp
theorem take_append_len (A B : Bytes) (n : Nat) (h : A.length = n) : (A ++ B).take n = A := by
  subst h; simp
theorem slice_zero (A B : Bytes) (n : Nat) (h : A.length = n) : slice (A ++ B) 0 n = A := by
  subst h; simp [slice]
theorem slice_mid (A B C : Bytes) (lo hi : Nat) (h1 : A.length = lo) (h2 : lo + B.length = hi) :
    slice (A ++ (B ++ C)) lo hi = B := by
  subst h1; subst h2
  unfold slice
  rw [← List.append_assoc, List.take_left' (by simp), List.drop_left' rfl]
theorem slice_to_end (A B : Bytes) (lo hi : Nat) (h1 : A.length = lo) (h2 : lo + B.length = hi) :
    slice (A ++ B) lo hi = B := by
  have := slice_mid A B [] lo hi h1 h2; simpa using this

theorem allZero_zeros (n : Nat) : allZero (zeros n) = true := by simp [allZero, zeros]
theorem allZero_nil : allZero [] = true := rfl

theorem u8_lt (b : Bytes) (i : Nat) : u8 b i < 256 := by unfold u8; exact UInt8.toNat_lt _

theorem be16At_append_lt (a b : Bytes) (i : Nat) (h : i + 1 < a.length) : be16At (a ++ b) i = be16At a i := by
  unfold be16At; rw [u8_append_left _ _ _ (by omega), u8_append_left _ _ _ (by omega)]
theorem be32At_append_lt (a b : Bytes) (i : Nat) (h : i + 3 < a.length) : be32At (a ++ b) i = be32At a i := by
  unfold be32At; rw [be16At_append_lt _ _ _ (by omega), be16At_append_lt _ _ _ (by omega)]

theorem be16At_zero_cons (x y : UInt8) (r : Bytes) : be16At (x :: y :: r) 0 = x.toNat * 256 + y.toNat := rfl
theorem be32At_cons (x : UInt8) (r : Bytes) (i : Nat) : be32At (x :: r) (i + 1) = be32At r i := by
  unfold be32At; rw [be16At_cons, show i + 1 + 2 = (i + 2) + 1 by omega, be16At_cons]
theorem be32At_w32 (v : Nat) (r : Bytes) (h : v < 4294967296) : be32At (w32 v ++ r) 0 = v := by
  simp only [w32, be32At, be16At, List.cons_append, List.nil_append, u8_cons_zero, u8_cons_succ, b8_toNat]; omega
theorem le32At_w32le (v : Nat) (r : Bytes) (h : v < 4294967296) : le32At (w32le v ++ r) 0 = v := by
  simp only [w32le, le32At, le16At, List.cons_append, List.nil_append, u8_cons_zero, u8_cons_succ, b8_toNat]; omega
theorem le32At_append_right (a b : Bytes) (i : Nat) : le32At (a ++ b) (a.length + i) = le32At b i := by
  unfold le32At le16At
  rw [u8_append_right, show a.length + i + 1 = a.length + (i + 1) by omega, u8_append_right,
    show a.length + i + 2 = a.length + (i + 2) by omega, u8_append_right,
    show a.length + (i + 2) + 1 = a.length + (i + 2 + 1) by omega, u8_append_right]

/-! peeling the fixed-width writers off the front of a buffer -/
theorem drop_w16 (v m : Nat) (X : Bytes) : (w16 v ++ X).drop (m + 2) = X.drop m := rfl
theorem drop_w32 (v m : Nat) (X : Bytes) : (w32 v ++ X).drop (m + 4) = X.drop m := rfl
theorem drop_w32le (v m : Nat) (X : Bytes) : (w32le v ++ X).drop (m + 4) = X.drop m := rfl
theorem drop_len_add (A X : Bytes) (n m : Nat) (h : A.length = n) : (A ++ X).drop (m + n) = X.drop m := by
  subst h; rw [Nat.add_comm, List.drop_append]; simp
theorem u8_w16 (v i : Nat) (X : Bytes) : u8 (w16 v ++ X) (i + 2) = u8 X i := by simp [w16, u8_cons_succ]
theorem u8_w32 (v i : Nat) (X : Bytes) : u8 (w32 v ++ X) (i + 4) = u8 X i := by simp [w32, u8_cons_succ]
theorem be16At_w16_skip (v i : Nat) (X : Bytes) : be16At (w16 v ++ X) (i + 2) = be16At X i := by
  simp [w16, be16At_cons]
theorem be16At_w32_skip (v i : Nat) (X : Bytes) : be16At (w32 v ++ X) (i + 4) = be16At X i := by
  simp [w32, be16At_cons]
theorem be32At_w16_skip (v i : Nat) (X : Bytes) : be32At (w16 v ++ X) (i + 2) = be32At X i := by
  simp [w16, be32At_cons]
theorem be32At_w32_skip (v i : Nat) (X : Bytes) : be32At (w32 v ++ X) (i + 4) = be32At X i := by
  simp [w32, be32At_cons]
theorem u8_len_add (A X : Bytes) (n i : Nat) (h : A.length = n) : u8 (A ++ X) (i + n) = u8 X i := by
  subst h; rw [Nat.add_comm]; exact u8_append_right A X i
theorem be16At_len_add (A X : Bytes) (n i : Nat) (h : A.length = n) : be16At (A ++ X) (i + n) = be16At X i := by
  subst h; rw [Nat.add_comm]; exact be16At_append_right A X i

theorem ofNat_eq_b8 (v : Nat) : UInt8.ofNat v = b8 v := by
  unfold b8; apply UInt8.toNat.inj; simp


end Tins.Ck.Ser
