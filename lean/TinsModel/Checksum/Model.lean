/-
  Code-shaped model of the Internet-checksum code of libtins (little-endian host branch):

  * `Utils::sum_range`, `Utils::do_checksum`, `generic_pseudoheader_checksum`
    (src/utils/checksum_utils.cpp),
  * the fold / complement / patch-back tails of `IP::write_serialization` (src/ip.cpp),
    `TCP::write_serialization` (src/tcp.cpp), `UDP::write_serialization` (src/udp.cpp),
    `ICMP::write_serialization` (src/icmp.cpp), `ICMPv6::write_serialization` (src/icmpv6.cpp),
    `ICMPExtensionsStructure::serialize` (src/icmp_extension.cpp).

  Numbers are `Nat` with the wrap the C++ type performs made explicit (`wrap32`, `wrap16`).
  A buffer is a `List UInt8`; a `uint16_t` store into the buffer is `poke16` (little-endian host).
-/
namespace Tins.Ck

abbrev Bytes := List UInt8

/-- `uint32_t` wrap -/
def wrap32 (x : Nat) : Nat := x % 4294967296
/-- `uint16_t` wrap (conversion of a wider unsigned value to `uint16_t`) -/
def wrap16 (x : Nat) : Nat := x % 65536
/-- `~x` on a `uint32_t` -/
def not32 (x : Nat) : Nat := 4294967295 - x % 4294967296
/-- `Endian::host_to_be<uint16_t>` on a little-endian host (`__builtin_bswap16`), argument `< 2^16` -/
def bswap16 (x : Nat) : Nat := (x % 256) * 256 + x / 256 % 256
/-- `Endian::host_to_be<uint32_t>` on a little-endian host, argument `< 2^32` -/
def bswap32 (x : Nat) : Nat :=
  (x % 256) * 16777216 + (x / 256 % 256) * 65536 + (x / 65536 % 256) * 256 + x / 16777216 % 256

/-- `while (checksum >> 16) checksum = (checksum & 0xffff) + (checksum >> 16);` with explicit fuel -/
def foldLoop : Nat → Nat → Nat
  | 0, c => c
  | fuel + 1, c => if c / 65536 ≠ 0 then foldLoop fuel (c % 65536 + c / 65536) else c

/-- the fold loop on a `uint32_t`: two rounds always suffice (`fold32_lt`), fuel 4 is given -/
def fold32 (c : Nat) : Nat := foldLoop 4 c

/-- `while (ptr < last) { memcpy(&buffer, ptr, 2); checksum += buffer; ptr += 2; }`
    on an even-length range: little-endian 16-bit loads, `uint32_t` accumulator -/
def sumWords : Bytes → Nat → Nat
  | b0 :: b1 :: r, acc => sumWords r (wrap32 (acc + (b0.toNat + 256 * b1.toNat)))
  | _, acc => acc

/-- `Utils::sum_range(start, end)` -/
def sumRange (bs : Bytes) : Nat :=
  let odd := bs.length % 2 == 1                                  -- ((end - start) & 1) == 1
  let body := if odd then bs.dropLast else bs                     -- last = end - 1
  let padding := if odd then (bs.getLast?.getD 0).toNat else 0    -- host_to_le<uint16_t>(*(end - 1))
  let checksum := sumWords body 0
  let checksum := wrap32 (checksum + padding)
  wrap16 (fold32 checksum)                                        -- return type uint16_t

/-- `Utils::do_checksum(start, end)` -/
def doChecksum (bs : Bytes) : Nat := bswap32 (sumRange bs)

/-- `stream.write(Endian::host_to_be<uint16_t>(v))` : the two bytes that reach the buffer -/
def be16 (v : Nat) : Bytes := [UInt8.ofNat (v / 256 % 256), UInt8.ofNat (v % 256)]

/-- `generic_pseudoheader_checksum`: buffer = src ++ dst ++ be(flag) ++ be(len), summed as host
    (little-endian) 16-bit words into a `uint32_t`, not folded.  `len`, `flag` are `uint16_t` parameters. -/
def pseudoSum (src dst : Bytes) (len flag : Nat) : Nat :=
  sumWords (src ++ dst ++ be16 (wrap16 flag) ++ be16 (wrap16 len)) 0

/-- `*(uint16_t*)(buffer + off) = v` / `memcpy(buffer + off, &v, 2)` on a little-endian host -/
def poke16 (buf : Bytes) (off v : Nat) : Bytes :=
  (buf.set off (UInt8.ofNat (v % 256))).set (off + 1) (UInt8.ofNat (v / 256 % 256))

/-- what `tins_cast<IP*>(parent_pdu())` / `tins_cast<IPv6*>(parent_pdu())` see -/
inductive Parent where
  | ip4 (src dst : Bytes)
  | ip6 (src dst : Bytes)
  | other
deriving Repr, DecidableEq

/-- tail of `IP::write_serialization`: `hlen` = `stream.pointer() - buffer` after the padded options -/
def ipTail (buf : Bytes) (hlen : Nat) : Bytes :=
  let check := doChecksum (buf.take hlen)
  let check := fold32 check
  let field := bswap16 (wrap16 (not32 check))       -- checksum(~check): uint16_t parameter, host_to_be
  poke16 buf 10 field                               -- ((ip_header*)buffer)->check = header_.check

/-- tail of `TCP::write_serialization`; `size` = `size()` passed as the `uint16_t len` parameter -/
def tcpTail (p : Parent) (buf : Bytes) (size : Nat) : Bytes :=
  match p with
  | .other => buf
  | .ip4 s d | .ip6 s d =>
    let check := wrap32 (pseudoSum s d size 6 + sumRange buf)
    let check := fold32 check
    -- checksum(Endian::host_to_be<uint16_t>(~check)) : truncate, swap, and the setter swaps again
    poke16 buf 16 (bswap16 (bswap16 (wrap16 (not32 check))))

/-- tail of `UDP::write_serialization` -/
def udpTail (p : Parent) (buf : Bytes) (size : Nat) : Bytes :=
  match p with
  | .other => buf
  | .ip4 s d | .ip6 s d =>
    let checksum := wrap32 (pseudoSum s d size 17 + sumRange buf)
    let checksum := fold32 checksum
    let check := wrap16 (not32 checksum)            -- header_.check = ~checksum
    let check := if check = 0 then 65535 else check -- "If checksum is 0, it has to be set to 0xffff"
    poke16 buf 6 check

/-- tail of `ICMP::write_serialization`: `header_.check = ~Utils::sum_range(buffer, buffer + total_sz)` -/
def icmpTail (buf : Bytes) : Bytes :=
  poke16 buf 2 (wrap16 (not32 (sumRange buf)))

/-- tail of `ICMPv6::write_serialization` (only when the parent is IPv6) -/
def icmp6Tail (p : Parent) (buf : Bytes) (size : Nat) : Bytes :=
  match p with
  | .ip6 s d =>
    let checksum := wrap32 (pseudoSum s d size 58 + sumRange buf)
    let checksum := fold32 checksum
    poke16 buf 2 (not32 checksum % 65536)           -- ~checksum & 0xffff
  | _ => buf

/-- tail of `ICMPExtensionsStructure::serialize`; `buf` is the structure (`size()` bytes), checksum bytes 0 -/
def extTail (buf : Bytes) : Bytes :=
  poke16 buf 2 (wrap16 (not32 (sumRange buf)))

end Tins.Ck
