import TinsModel.Checksum.Packet
import TinsModel.Checksum.Crc
import TinsModel.Gen.TagsC05
/-
  Code-shaped model of `PDU::serialize` (src/pdu.cpp) and of the `header_size` / `trailer_size` /
  `write_serialization` members of the classes C05 is anchored in, for stacks built through the API:

    EthernetII (src/ethernetII.cpp), Dot1Q (src/dot1q.cpp), IP (src/ip.cpp), IPv6 (src/ipv6.cpp), TCP (src/tcp.cpp),
    UDP (src/udp.cpp), ICMP (src/icmp.cpp) + ICMPExtensionsStructure (src/icmp_extension.cpp), ICMPv6 (src/icmpv6.cpp,
    the message types without type-specific bodies), RawPDU, PPPoE (src/pppoe.cpp), MPLS (src/mpls.cpp),
    Dot3 (src/dot3.cpp), SNAP (src/snap.cpp), SLL (src/sll.cpp), Loopback (src/loopback.cpp), IPSecAH / IPSecESP
    (src/ipsec.cpp), LLC (src/llc.cpp, the `LLC(dsap, ssap)` object: information format, two zero control octets),
    RC4EAPOL (src/eapol.cpp), RadioTap (src/radiotap.cpp, the default-constructed object with or without the FCS flag).

  `PDU::serialize(buffer, total_sz)` first serialises the inner PDU at `buffer + header_size()` and then calls
  `write_serialization`, which writes the header (and trailer) around it and computes checksums over the bytes
  that are already there.  The model follows that order: `serialize` produces the inner bytes first and hands
  them to `write` of the outer layer.  Class -> tag tables come from `Gen/TagsC05.lean` (regenerated from
  src/detail/pdu_helpers.cpp on every run).  Little-endian host.
-/
namespace Tins.Ck.Ser
open Tins.Ck Tins.Gen

def zeros (n : Nat) : Bytes := List.replicate n 0
def b8 (v : Nat) : UInt8 := UInt8.ofNat (v % 256)
/-- `Endian::host_to_be<uint16_t>(v)` as it lands in the buffer (`v` is converted to `uint16_t` first) -/
def w16 (v : Nat) : Bytes := [b8 (v / 256), b8 v]
def w32 (v : Nat) : Bytes := [b8 (v / 16777216), b8 (v / 65536), b8 (v / 256), b8 v]
/-- host (little-endian) 32-bit store -/
def w32le (v : Nat) : Bytes := [b8 v, b8 (v / 256), b8 (v / 65536), b8 (v / 16777216)]

def pad4 (n : Nat) : Nat := if n % 4 = 0 then n else n - n % 4 + 4          -- IP/TCP::pad_options_size
def lookupTag (t : List (String × Nat)) (k : String) : Option Nat := (t.find? (·.1 == k)).map (·.2)

/-- `Internals::pdu_flag_to_ether_type(pdu_type())`, `Constants::Ethernet::UNKNOWN` (0) when the class has no tag -/
def flagToEther (l : Layer) : Nat := (lookupTag TagsC05.flagToEther l.kind).getD TagsC05.ethUNKNOWN

/-- `Internals::pdu_to_ether_type(pdu)`: PPPoE is tagged by its stage (code 0 = session) -/
def pduToEther (l : Layer) : Nat :=
  match l with
  | .pppoe code .. => if code = 0 then TagsC05.ethPPPOES else TagsC05.ethPPPOED
  | l => flagToEther l

/-- `Internals::pdu_flag_to_ip_type(pdu_type())`, 0xff when the class has no protocol number -/
def flagToIp (l : Layer) : Nat := (lookupTag TagsC05.flagToIp l.kind).getD 0xff

/-! ### sizes -/

/-- `options_payload_` of the default-constructed `RadioTap` (channel 1 / 0xa0, flags, tsft 0, dbm_signal -50, rx_flags 0,
    antenna 0 — `RadioTap::RadioTap()`), with `flags(FrameFlags(0))` applied on top when `fcs` is off: the present word
    (TSFT, FLAGS, CHANNEL, DBM_SIGNAL, ANTENNA, RX_FLAGS), then the fields at their natural alignment -/
def radiotapPayload (fcs : Bool) : Bytes :=
  [0x2b, 0x48, 0, 0,  0, 0, 0, 0, 0, 0, 0, 0,  (if fcs then 0x10 else 0), 0,  0x6c, 0x09, 0xa0, 0x00,  0xce, 0,  0, 0]

/-- `RadioTap::trailer_size()`: `skip_to_field(FLAGS)` finds the FLAGS field (present bit 1) after the present word and
    the 8-octet TSFT (present bit 0); `(flags_value & FCS) != 0` → `sizeof(uint32_t)` -/
def radiotapTrailer (payload : Bytes) : Nat :=
  let present := (payload.getD 0 0).toNat
  if present / 2 % 2 = 1 then
    let off := if present % 2 = 1 then 4 + 8 else 4
    if (payload.getD off 0).toNat / 16 % 2 = 1 then 4 else 0
  else 0

def ipOptSize (opts : List (Nat × Bytes)) : Nat :=        -- IP::calculate_options_size
  -- `!is_single_byte_option`: copied != 0 || op_class != CONTROL || number > NOOP (fix KF-C02-Ip-1: same test as the writer)
  opts.foldl (fun acc (t, d) => acc + 1 + (if t / 128 % 2 ≠ 0 ∨ t / 32 % 4 ≠ 0 ∨ t % 32 > 1 then 1 + d.length else 0)) 0

def tcpOptSize (opts : List (Nat × Bytes)) : Nat :=       -- TCP::calculate_options_size (every kind > NOP has a length octet)
  opts.foldl (fun acc (t, d) => acc + 1 + (if t > 1 then 1 + d.length else 0)) 0

def ip6ExtPad (d : Bytes) : Nat :=                        -- IPv6::get_padding_size
  let p := (d.length + 2) % 8
  if p = 0 then 0 else 8 - p

def ip6ExtSize (exts : List (Nat × Bytes)) : Nat :=       -- IPv6::calculate_headers_size
  exts.foldl (fun acc (_, d) => acc + (d.length + 2) + ip6ExtPad d) 0

def extStructSize (exts : List (Nat × Nat × Bytes)) : Nat :=   -- ICMPExtensionsStructure::size
  4 + exts.foldl (fun acc (_, _, p) => acc + 4 + p.length) 0

/-- `header_size()` -/
def headerSize : Layer → Nat
  | .eth .. => 14
  | .dot1q .. => 4
  | .ip _ _ _ _ _ _ _ _ opts => 20 + pad4 (ipOptSize opts)
  | .ip6 _ _ _ _ _ _ exts => 40 + ip6ExtSize exts
  | .tcp _ _ _ _ _ _ _ opts => 20 + pad4 (tcpOptSize opts)
  | .udp .. => 8
  | .icmp type .. => 8 + (if type = 13 ∨ type = 14 then 12 else if type = 17 ∨ type = 18 then 4 else 0)
  | .icmp6 .. => 8
  | .raw d => d.length
  | .pppoe _ _ _ tags => 6 + (tags.foldl (fun acc (_, d) => (acc + d.length + 4) % 65536) 0)   -- uint16_t tags_size_
  | .mpls .. => 4
  | .dot3 .. => 14
  | .snap .. => 8
  | .loop .. => 4
  | .sll .. => 16
  | .ah _ _ icv _ => 12 + icv.length
  | .esp .. => 8
  | .llc .. => 3 + 1                                        -- sizeof(header_) + control_field_length_ (INFORMATION: 2)
  | .eapol _ key => 5 + 43 + key.length                     -- sizeof(eapol_header) + sizeof(rc4_eapol_header) + key_.size()
  | .radiotap fcs => 4 + (radiotapPayload fcs).length      -- sizeof(header_) + options_payload_.size()
  | .opaque .. => 0

/-- `Internals::get_padded_icmp_inner_pdu_size(inner_pdu(), alignment)` -/
def paddedInner (inner : Option Nat) (align : Nat) : Nat :=
  match inner with
  | none => 0
  | some sz => if sz % align = 0 then sz else sz - sz % align + align

/-- `trailer_size()`; `inner` = `inner_pdu()->size()` when there is an inner PDU -/
def trailerSize (l : Layer) (inner : Option Nat) : Nat :=
  match l with
  | .eth .. =>
    -- int32_t padding = 60 - sizeof(header_); if (inner_pdu()) { padding -= inner->size(); padding = max(padding, 0); }
    match inner with
    | none => TagsC05.ethMinFrame - 14
    | some sz => (TagsC05.ethMinFrame - 14) - sz
  | .dot1q _ _ _ _ padf =>
    if padf then
      let total := 4 + inner.getD 0
      if total > TagsC05.dot1qMin then 0 else TagsC05.dot1qMin - total
    else 0
  | .icmp _ _ _ _ _ _ _ _ exts =>
    if exts.isEmpty then 0 else
      extStructSize exts + (match inner with
        | none => 0
        | some sz => (if paddedInner inner 4 > 128 then paddedInner inner 4 else 128) - sz)
  | .icmp6 _ _ _ _ _ exts =>
    if exts.isEmpty then 0 else
      extStructSize exts + (match inner with
        | none => 0
        | some sz => (if paddedInner inner 8 > 128 then paddedInner inner 8 else 128) - sz)
  | .radiotap fcs => radiotapTrailer (radiotapPayload fcs)
  | _ => 0

/-- `PDU::size()` of the stack -/
def size : List Layer → Nat
  | [] => 0
  | l :: rest => headerSize l + size rest + trailerSize l (if rest.isEmpty then none else some (size rest))

/-! ### option / extension writers -/

def writeTlvOpts (opts : List (Nat × Bytes)) : Bytes :=   -- IP::write_option / TCP::write_option (length not spoofed)
  opts.foldr (fun (t, d) acc => if t > 1 then b8 t :: b8 (d.length + 2) :: (d ++ acc) else b8 t :: acc) []

/-- `ICMPExtensionsStructure::serialize` (version 2, reserved 0) with the checksum patched in -/
def writeExtStruct (exts : List (Nat × Nat × Bytes)) : Bytes :=
  let body := exts.foldr (fun (c, t, p) acc => w16 (4 + p.length) ++ [b8 c, b8 t] ++ p ++ acc) []
  extTail ([0x20, 0x00, 0, 0] ++ body)

/-- is the stack one whose sizes libtins computes consistently (outside: C02 findings, not modelled here) -/
def optsModelled : Layer → Bool
  | .ip _ _ _ _ _ _ _ _ opts => opts.all (fun (t, d) => t ≠ 0x80 ∧ t ≠ 0x81 ∧ (t > 1 ∨ d.isEmpty)) && ipOptSize opts ≤ 40
  | .tcp _ _ _ _ _ _ _ opts => opts.all (fun (t, d) => if t ≤ 1 then d.isEmpty else (!d.isEmpty || t = 4))
  | _ => true

def kindModelled : Layer → Bool
  | .opaque .. => false
  | _ => true

def parentOf : Layer → Parent
  | .ip _ _ _ _ _ _ src dst _ => .ip4 src dst
  | .ip6 _ _ _ _ src dst _ => .ip6 src dst
  | _ => .other

/-- what the `tins_cast<const IP*>(parent_pdu())` / `tins_cast<const IPv6*>(parent_pdu())` of the checksum tails see for the
    enclosing layer `p` (it is also the parent the RFC dissector hands to the first layer of the carried stack) -/
def walkPar (p : Option Layer) : Parent :=
  match p with
  | some q => parentOf q
  | none => .other

/-- the next-header octet in front of a (rest of a) chain of extension headers: the type of its first header, `last` when
    the chain is empty — what the fixed header and every extension header carry -/
def nextOf (es : List (Nat × Bytes)) (last : Nat) : Nat :=
  match es with
  | [] => last
  | (t, _) :: _ => t

/-- the next-header values written into the IPv6 extension chain: header X carries the type of header X+1 and the
    last one the tag of the inner PDU (`set_last_next_header`) -/
def ip6Chain (exts : List (Nat × Bytes)) (last : Nat) : List (Nat × Bytes) :=
  match exts with
  | [] => []
  | [(_, d)] => [(last, d)]
  | (_, d) :: (t', d') :: r => (t', d) :: ip6Chain ((t', d') :: r) last

def writeIp6Ext (nextAndData : Nat × Bytes) : Bytes :=     -- IPv6::write_header
  let (nxt, d) := nextAndData
  let len := ((d.length + 2 + ip6ExtPad d) / 8 - 1) % 256
  b8 nxt :: b8 len :: (d ++ zeros (ip6ExtPad d))

/-! ### `write_serialization` -/

/-- the octet `ICMP::write_serialization` leaves in the RFC 4884 length position (`user` = what the object holds there: the
    low octet of the identifier, or 1 after `use_length_field(true)`): for the extensible types, when the field is in use
    or the original datagram is longer than 128 octets, the padded size of the inner PDU in 32-bit words (at least 128
    octets when an extension structure follows), stored in an 8-bit field -/
def icmpLengthOctet (type : Nat) (lenflag : Bool) (user : Nat) (innerSz : Option Nat) (exts : List (Nat × Nat × Bytes)) : Nat :=
  let allowed := type = 3 ∨ type = 11 ∨ type = 12                   -- are_extensions_allowed()
  let b5 := if lenflag then 1 else user                             -- use_length_field(true) stores 1 in the length octet
  let lengthValue := paddedInner innerSz 4
  if allowed ∧ (b5 ≠ 0 ∨ lengthValue > 128) then
    (if lengthValue ≠ 0 then (if !exts.isEmpty then (if lengthValue > 128 then lengthValue else 128) else lengthValue)
     else 0) / 4 % 256
  else b5

/-- the same octet of `ICMPv6::write_serialization` (types 1 and 3, 64-bit words) -/
def icmp6LengthOctet (type : Nat) (lenflag : Bool) (user : Nat) (innerSz : Option Nat) (exts : List (Nat × Nat × Bytes)) : Nat :=
  let allowed := type = 1 ∨ type = 3
  let b4 := if lenflag then 1 else user
  let lengthValue := paddedInner innerSz 8
  if allowed ∧ (b4 ≠ 0 ∨ lengthValue > 128) then
    (if lengthValue > 0 ∧ !exts.isEmpty then (if lengthValue > 128 then lengthValue else 128) else lengthValue) / 8 % 256
  else b4

/-- what ICMP / ICMPv6 write behind the inner PDU when there are extensions: zero padding of the original datagram to 128
    octets or its own padded size (`unit` = 4 / 8), then the extension structure -/
def rfc4884Tail (unit : Nat) (innerSz : Option Nat) (exts : List (Nat × Nat × Bytes)) : Bytes :=
  if exts.isEmpty then [] else
    (match innerSz with
      | none => []
      | some sz => zeros ((if paddedInner innerSz unit > 128 then paddedInner innerSz unit else 128) - sz))
    ++ writeExtStruct exts

/-- the protocol octet `IP::write_serialization` stores: the number of the inner PDU's class when it has one -/
def ipProtoField (proto : Nat) (rest : List Layer) : Nat :=
  match rest.head? with
  | none => 0
  | some n => if flagToIp n ≠ 0xff then flagToIp n else proto

/-- the next-header value of the last header of the IPv6 chain (`set_last_next_header`) -/
def ip6LastNextHeader (nh : Nat) (rest : List Layer) : Nat :=
  match rest.head? with
  | none => 59                                                      -- NO_NEXT_HEADER: nothing follows
  | some n => if flagToIp n ≠ 0xff then flagToIp n else nh

/-- the `payload_type` `EthernetII::write_serialization` stores: PPPoE by its stage, two 802.1Q tags as 802.1ad, otherwise
    the table of `pdu_flag_to_ether_type`; the user's value when the class has no EtherType -/
def ethPayloadType (type : Nat) (rest : List Layer) : Nat :=
  match rest.head? with
  | none => TagsC05.ethUNKNOWN                                     -- payload_type(Constants::Ethernet::UNKNOWN)
  | some n =>
    let f := match n with
      | .pppoe code .. => if code = 0 then TagsC05.ethPPPOES else TagsC05.ethPPPOED
      | .dot1q .. => (match (rest.drop 1).head? with
          | some (.dot1q ..) => TagsC05.ethQINQ
          | _ => flagToEther n)
      | n => flagToEther n
    if f ≠ TagsC05.ethUNKNOWN then f else type

/-- `write_serialization(buffer, total_sz)` of layer `l`: `inner` are the bytes the inner PDU has already written at
    `buffer + header_size()`, `rest` the inner stack, `parent` the enclosing layer.  Returns the whole buffer. -/
def write (l : Layer) (rest : List Layer) (inner : Bytes) (parent : Option Layer) : Bytes :=
  let nxt := rest.head?
  let innerSz : Option Nat := if rest.isEmpty then none else some (size rest)
  let trl := trailerSize l innerSz
  let totalSz := headerSize l + inner.length + trl
  match l with
  | .eth dst src type =>
    let flag := ethPayloadType type rest
    dst ++ src ++ w16 flag ++ inner ++ zeros trl
  | .dot1q prio cfi id type _ =>
    let flag := match nxt with
      | none => 0
      | some n => if pduToEther n ≠ TagsC05.ethUNKNOWN then pduToEther n else type
    [b8 (prio % 8 * 32 + cfi % 2 * 16 + id % 4096 / 256), b8 (id % 256)] ++ w16 flag ++ inner ++ zeros trl
  | .ip tos id flags fragoff ttl proto src dst opts =>
    let proto := ipProtoField proto rest
    let hs := headerSize l
    let hdr := [b8 (4 * 16 + hs / 4 % 16), b8 tos] ++ w16 totalSz ++ w16 id ++ w16 (flags % 8 * 8192 + fragoff % 8192)
      ++ [b8 ttl, b8 proto, 0, 0] ++ src ++ dst
    let o := writeTlvOpts opts
    ipTail (hdr ++ o ++ zeros (pad4 (ipOptSize opts) - ipOptSize opts) ++ inner) hs
  | .ip6 tc flow hop nh src dst exts =>
    let lastNh := ip6LastNextHeader nh rest
    let first := nextOf exts lastNh
    [b8 (6 * 16 + tc / 16 % 16), b8 (tc % 16 * 16 + flow / 65536 % 16), b8 (flow / 256), b8 flow]
      ++ w16 (totalSz - 40) ++ [b8 first, b8 hop] ++ src ++ dst
      ++ ((ip6Chain exts lastNh).map writeIp6Ext).flatten ++ inner
  | .tcp sp dp seq ack flags win urg opts =>
    let osz := tcpOptSize opts
    let doff := (20 + pad4 osz) / 4 % 16                               -- 4-bit bit-field
    let hdr := w16 sp ++ w16 dp ++ w32 seq ++ w32 ack ++ [b8 (doff * 16 + flags / 256 % 16), b8 flags]
      ++ w16 win ++ [0, 0] ++ w16 urg
    let buf := hdr ++ writeTlvOpts opts ++ zeros (pad4 osz - osz) ++ inner
    tcpTail (walkPar parent) buf totalSz
  | .udp sp dp =>
    let buf := w16 sp ++ w16 dp ++ w16 (8 + (innerSz.getD 0)) ++ [0, 0] ++ inner
    udpTail (walkPar parent) buf totalSz
  | .icmp type code id seq a b c lenflag exts =>
    let b5 := icmpLengthOctet type lenflag (id % 256) innerSz exts
    let hdr := [b8 type, b8 code, 0, 0, b8 (id / 256), b8 b5] ++ w16 seq
    let extra := if type = 13 ∨ type = 14 then w32 a ++ w32 b ++ w32 c
      else if type = 17 ∨ type = 18 then w32 a else []
    icmpTail (hdr ++ extra ++ inner ++ rfc4884Tail 4 innerSz exts)
  | .icmp6 type code id seq lenflag exts =>
    let b4 := icmp6LengthOctet type lenflag (id / 256 % 256) innerSz exts
    let hdr := [b8 type, b8 code, 0, 0, b8 b4, b8 id] ++ w16 seq
    icmp6Tail (walkPar parent) (hdr ++ inner ++ rfc4884Tail 8 innerSz exts) totalSz
  | .raw d => d ++ inner
  | .pppoe code sess _ tags =>
    let tagsSize := headerSize l - 6
    -- `if (tags_size_ > 0 || inner_pdu()) payload_length(total_sz - sizeof(header_)); else payload_length(0);`
    let plen := if tagsSize > 0 ∨ !rest.isEmpty then totalSz - 6 else 0
    [0x11, b8 code] ++ w16 sess ++ w16 plen
      ++ tags.foldr (fun (t, d) acc => w16 t ++ w16 d.length ++ d ++ acc) [] ++ inner
  | .mpls label exp bos ttl =>
    let nextIsMpls := match nxt with | some (.mpls ..) => true | _ => false
    let s := if parent.isSome && !nextIsMpls then 1 else bos % 2
    [b8 (label / 4096), b8 (label / 16), b8 (label % 16 * 16 + exp % 8 * 2 + s), b8 ttl] ++ inner
  | .dot3 dst src => dst ++ src ++ w16 (totalSz - 14) ++ inner
  | .snap control oui type =>
    -- the tag is overwritten only when the inner PDU maps to a known EtherType (fix KF-C03-L2-1)
    let t := match nxt with
      | none => type
      | some n => if pduToEther n != 0 then pduToEther n else type
    [0xAA, 0xAA, b8 control] ++ [b8 (oui / 65536), b8 (oui / 256), b8 oui] ++ w16 t ++ inner
  | .loop family =>
    let f := match nxt.map Layer.kind with
      | some "ip" => 2 | some "ip6" => 10 | some "llc" => 26 | _ => family
    w32le f ++ inner
  | .sll ptype lltype lllen addr proto =>
    -- the protocol is overwritten only when the inner PDU maps to a known EtherType (fix KF-C03-L2-2)
    let p := match nxt with
      | none => proto
      | some n => if pduToEther n != 0 then pduToEther n else proto
    w16 ptype ++ w16 lltype ++ w16 lllen ++ addr ++ w16 p ++ inner
  | .ah spi seq icv nh =>
    -- the next header is overwritten only when the inner PDU maps to a known protocol (fix KF-C03-Ip-3)
    let nh := match nxt with
      | none => nh
      | some n => if flagToIp n ≠ 0xff then flagToIp n else nh
    [b8 nh, b8 ((12 + icv.length) / 4 - 2), 0, 0] ++ w32 spi ++ w32 seq ++ icv ++ inner
  | .esp spi seq => w32 spi ++ w32 seq ++ inner
  | .llc dsap ssap => [b8 dsap, b8 ssap] ++ [0, 0] ++ inner          -- header_, control_field.info (zero-initialised)
  | .eapol keylen key =>
    -- EAPOL::write_serialization: length(total_sz - 4); version 1, packet type 3 (key), descriptor type RC4 (1);
    -- RC4EAPOL::write_body: key_length is the size of the key when there is one
    let kl := if key.isEmpty then keylen else key.length
    [1, 3] ++ w16 (totalSz - 4) ++ [1] ++ w16 kl ++ zeros 8 ++ zeros 16 ++ [0] ++ zeros 16 ++ key ++ inner
  | .radiotap fcs =>
    let payload := radiotapPayload fcs
    let hs := headerSize l
    let hdr := [0, 0, b8 hs, b8 (hs / 256)] ++ payload                  -- it_len = host_to_le<uint16_t>(header_size())
    -- `if (trailer_size() > 0 && inner_pdu())` the CRC-32 of the inner bytes, little-endian; the buffer is zero otherwise
    if trl > 0 ∧ !rest.isEmpty then hdr ++ inner ++ w32le (crc32 inner).toNat else hdr ++ inner ++ zeros trl
  | .opaque .. => inner

/-- `PDU::serialize(buffer, total_sz)`: the inner PDU first, then this layer's `write_serialization` -/
def serialize : List Layer → Option Layer → Bytes
  | [], _ => []
  | l :: rest, parent => write l rest (serialize rest (some l)) parent

/-- what the harness prints: bytes and, per layer, `header_size():trailer_size()` -/
def layerSizes : List Layer → List (String × Nat × Nat)
  | [] => []
  | l :: rest => (l.kind, headerSize l, trailerSize l (if rest.isEmpty then none else some (size rest))) :: layerSizes rest

/-- `TCP::write_serialization` throws `serialization_error` when the data offset does not fit its 4 bits -/
def tcpThrows : Layer → Bool
  | .tcp _ _ _ _ _ _ _ opts => (20 + pad4 (tcpOptSize opts)) / 4 > 15
  | _ => false

inductive Out where
  | ok (bytes : Bytes) (sizes : List (String × Nat × Nat))
  | throw (exc : String)
  | unmodelled

def serializeTop (ls : List Layer) : Out :=
  if ls.isEmpty || !ls.all kindModelled || !ls.all optsModelled then .unmodelled
  else if ls.any tcpThrows then .throw "serialization_error"
  else .ok (serialize ls none) (layerSizes ls)

end Tins.Ck.Ser
