import TinsModel.Checksum.Packet
namespace Tins.Ck.Ser
def serializeTop (_ls : List Layer) : Option (Bytes × List (String × Nat × Nat)) := none
end Tins.Ck.Ser
