import TinsModel.Checksum.Spec
import TinsModel.Checksum.Crc
import TinsModel.Checksum.Packet
/-
  An independent byte-level dissector, written from the RFCs / IEEE documents (not from libtins), used as the
  oracle for C05 on the bytes the implementation serialises:

    Ethernet II / 802.1Q / 802.1ad (IEEE 802.3, 802.1Q), IPv4 (RFC 791), IPv6 + extension headers (RFC 8200),
    TCP (RFC 793), UDP (RFC 768), ICMP (RFC 792, RFC 4884), ICMPv6 (RFC 4443, RFC 4884), PPPoE (RFC 2516),
    MPLS (RFC 3032), 802.3 + 802.2 LLC / SNAP (IEEE 802.2, RFC 1042), BSD loopback (DLT_NULL), Linux cooked
    capture (DLT_LINUX_SLL), AH (RFC 4302), ESP (RFC 4303), EAPOL (IEEE 802.1X), RadioTap (it_len, FCS flag, FCS).

  `walk` follows the layer stack that was *built* (the description the generator produced) through the bytes:
  every header is located only from the bytes (header-length / length fields of the outer headers), so a wrong
  derived field makes a later comparison fail: every layer checks its next-protocol tag against the layer that
  follows (when that layer has a registered tag), its length fields against the bytes they govern, its checksum
  under RFC 1071 with the RFC pseudo header, the values set through the API, and hands the bytes it does not own
  back to the enclosing layer, which must account for them as its trailer (Ethernet / 802.1Q zero padding,
  RFC 4884 padding, RadioTap FCS) — anything else is a violation.
-/
namespace Tins.Ck.Dissect
open Tins.Ck Tins.Ck.Spec

abbrev R := Except String

def u8 (b : Bytes) (i : Nat) : Nat := (b.getD i 0).toNat
def be16At (b : Bytes) (i : Nat) : Nat := u8 b i * 256 + u8 b (i + 1)
def be32At (b : Bytes) (i : Nat) : Nat := be16At b i * 65536 + be16At b (i + 2)
def le16At (b : Bytes) (i : Nat) : Nat := u8 b i + 256 * u8 b (i + 1)
def le32At (b : Bytes) (i : Nat) : Nat := le16At b i + 65536 * le16At b (i + 2)
def slice (b : Bytes) (lo hi : Nat) : Bytes := (b.take hi).drop lo
def allZero (b : Bytes) : Bool := b.all (· == 0)
def pad (n m : Nat) : Nat := (n + m - 1) / m * m

def need (c : Bool) (msg : String) : R Unit := if c then pure () else throw msg

/-- EtherType registered for a layer (IEEE registry); `nxt` is the layer after it (802.1ad outer tag, PPPoE stage) -/
def etherTypeOf (l : Layer) (nxt : Option Layer) : Option Nat :=
  match l with
  | .ip .. => some 0x0800
  | .ip6 .. => some 0x86DD
  | .dot1q .. => match nxt with
    | some (.dot1q ..) => some 0x88A8      -- service tag followed by a customer tag (802.1ad)
    | _ => some 0x8100
  | .pppoe code .. => some (if code = 0 then 0x8864 else 0x8863)   -- RFC 2516: session / discovery stage
  | .mpls .. => some 0x8847
  | .eapol .. => some 0x888E
  | .opaque "ip" .. => some 0x0800
  | .opaque "ip6" .. => some 0x86DD
  | .opaque "arp" .. => some 0x0806
  | .opaque "mpls" .. => some 0x8847
  | _ => none

/-- inside an 802.1Q tag the inner tag keeps 0x8100 -/
def etherTypeInTag (l : Layer) : Option Nat :=
  match l with
  | .dot1q .. => some 0x8100
  | l => etherTypeOf l none

/-- IANA protocol numbers -/
def ipProtoOf (l : Layer) : Option Nat :=
  match l.kind with
  | "ip" => some 4 | "ip6" => some 41 | "tcp" => some 6 | "udp" => some 17 | "icmp" => some 1
  | "icmp6" => some 58 | "ah" => some 51 | "esp" => some 50
  | _ => none

def checkTag (what : String) (got : Nat) (want : Option Nat) : R Unit :=
  match want with
  | some w => need (got == w) s!"{what}.tag got={got} want={w}"
  | none => pure ()

/-- option / extension lists as they must appear on the wire: type, length (of the whole option), data -/
def encTlv2 (opts : List (Nat × Bytes)) (single : Nat → Bool) : Bytes :=
  opts.foldr (fun (t, d) acc =>
    if single t then UInt8.ofNat t :: acc
    else UInt8.ofNat t :: UInt8.ofNat (d.length + 2) :: (d ++ acc)) []

def optsOK (got : Bytes) (opts : List (Nat × Bytes)) (single : Nat → Bool) : Bool :=
  let e := encTlv2 opts single
  got.take e.length == e && allZero (got.drop e.length) && got.length == pad e.length 4

/-- RFC 4884 extension structure: version 2, checksum, objects (length, class, c-type, payload) -/
def extObjects (fuel : Nat) (b : Bytes) : Option (List (Nat × Nat × Bytes)) :=
  match fuel with
  | 0 => none
  | fuel + 1 =>
    if b.isEmpty then some [] else
    if b.length < 4 then none else
    let len := be16At b 0
    if len < 4 || len > b.length then none else
    (extObjects fuel (b.drop len)).map (fun r => (u8 b 2, u8 b 3, slice b 4 len) :: r)

def checkExtStruct (who : String) (e : Bytes) (strict : Bool) (exts : List (Nat × Nat × Bytes)) : R Unit := do
  need (e.length ≥ 4) s!"{who}.ext-short"
  need (u8 e 0 / 16 == 2) s!"{who}.ext-version"
  need (verifies e) s!"{who}.ext-checksum"
  match extObjects (e.length + 1) (e.drop 4) with
  | none => throw s!"{who}.ext-objects-length"
  | some objs => need (!strict || objs == exts) s!"{who}.ext-objects"

def fieldEq (strict : Bool) (what : String) (got want : Nat) : R Unit :=
  need (!strict || got == want) s!"{what} got={got} want={want}"

def bytesEq (strict : Bool) (what : String) (got want : Bytes) : R Unit :=
  need (!strict || got == want) s!"{what} mismatch"

/-- position of the RadioTap flags field when present (bit 1), after the optional TSFT (bit 0, 8 bytes, aligned 8) -/
def radiotapFlags (b : Bytes) : Option Nat :=
  let rec words (fuel i : Nat) : Nat :=
    match fuel with
    | 0 => i
    | fuel + 1 => if le32At b i / 2147483648 % 2 == 1 then words fuel (i + 4) else i + 4
  let present := le32At b 4
  let off := words 8 4
  if present / 2 % 2 == 0 then none else
  let off := if present % 2 == 1 then pad off 8 + 8 else off
  some (u8 b off)

/-- walk the built stack through the bytes.  Returns the bytes the stack does not own (handed to the parent). -/
def walk (strict : Bool) : List Layer → Bytes → Parent → R Bytes
  | [], b, _ => pure b
  | l :: rest, b, par =>
    let nxt := rest.head?
    match l with
    | .eth dst src _ => do
      need (b.length ≥ 14) "eth.short"
      bytesEq strict "eth.dst" (slice b 0 6) dst
      bytesEq strict "eth.src" (slice b 6 12) src
      if let some n := nxt then checkTag "eth" (be16At b 12) (etherTypeOf n (rest.drop 1).head?)
      let t ← walk strict rest (b.drop 14) .other
      need (allZero t) "eth.padding-nonzero"
      let frame := b.length - t.length
      need (t.length == (if frame < 60 then 60 - frame else 0)) s!"eth.min60 frame={frame} pad={t.length}"
      pure []
    | .dot1q prio cfi id _ padf => do
      need (b.length ≥ 4) "dot1q.short"
      fieldEq strict "dot1q.prio" (u8 b 0 / 32) prio
      fieldEq strict "dot1q.cfi" (u8 b 0 / 16 % 2) cfi
      fieldEq strict "dot1q.id" (u8 b 0 % 16 * 256 + u8 b 1) id
      if let some n := nxt then checkTag "dot1q" (be16At b 2) (etherTypeInTag n)
      let t ← walk strict rest (b.drop 4) .other
      if padf then
        need (allZero t) "dot1q.padding-nonzero"
        let sz := b.length - t.length
        need (t.length == (if sz < 50 then 50 - sz else 0)) s!"dot1q.min50 size={sz} pad={t.length}"
        pure []
      else pure t
    | .ip tos id flags fragoff ttl _ src dst opts => do
      need (b.length ≥ 20) "ip.short"
      need (!strict || u8 b 0 / 16 == 4) "ip.version"
      let hl := u8 b 0 % 16 * 4
      let tot := be16At b 2
      need (hl ≥ 20 && hl ≤ b.length) s!"ip.ihl hl={hl}"
      need (tot ≥ hl && tot ≤ b.length) s!"ip.totlen tot={tot} have={b.length}"
      need (verifies (b.take hl)) "ip.checksum"
      fieldEq strict "ip.tos" (u8 b 1) tos
      fieldEq strict "ip.id" (be16At b 4) id
      fieldEq strict "ip.frag" (be16At b 6) (flags * 8192 + fragoff)
      fieldEq strict "ip.ttl" (u8 b 8) ttl
      bytesEq strict "ip.src" (slice b 12 16) src
      bytesEq strict "ip.dst" (slice b 16 20) dst
      need (!strict || optsOK (slice b 20 hl) opts (fun t => t ≤ 1)) s!"ip.ihl-options hl={hl}"
      if let some n := nxt then checkTag "ip" (u8 b 9) (ipProtoOf n)
      let t ← walk strict rest (slice b hl tot) (.ip4 (slice b 12 16) (slice b 16 20))
      need t.isEmpty s!"ip.totlen-excess tot={tot} excess={t.length}"
      pure (b.drop tot)
    | .ip6 tc flow hop hdrHint src dst exts => do
      need (b.length ≥ 40) "ip6.short"
      need (!strict || u8 b 0 / 16 == 6) "ip6.version"
      let plen := be16At b 4
      need (40 + plen ≤ b.length) s!"ip6.plen plen={plen} have={b.length - 40}"
      fieldEq strict "ip6.tc" (u8 b 0 % 16 * 16 + u8 b 1 / 16) tc
      fieldEq strict "ip6.flow" (u8 b 1 % 16 * 65536 + be16At b 2) flow
      fieldEq strict "ip6.hop" (u8 b 7) hop
      bytesEq strict "ip6.src" (slice b 8 24) src
      bytesEq strict "ip6.dst" (slice b 24 40) dst
      -- extension header chain (RFC 8200 §4): next header, hdr ext len in 8-octet units not counting the first 8
      let body := slice b 40 (40 + plen)
      let rec chain (es : List (Nat × Bytes)) (nh off : Nat) : R (Nat × Nat) :=
        match es with
        | [] => pure (nh, off)
        | (t, d) :: es' => do
          need (nh == t) s!"ip6.ext-tag got={nh} want={t}"
          need (off + 8 ≤ body.length) "ip6.ext-short"
          let sz := (u8 body (off + 1) + 1) * 8
          need (off + sz ≤ body.length) s!"ip6.ext-len sz={sz}"
          need (sz == pad (d.length + 2) 8) s!"ip6.ext-len sz={sz} data={d.length}"
          need (slice body (off + 2) (off + 2 + d.length) == d) "ip6.ext-data"
          need (allZero (slice body (off + 2 + d.length) (off + sz))) "ip6.ext-padding"
          chain es' (u8 body off) (off + sz)
      -- parsed packets (non-strict): the extension area is `hdrHint - 40` octets (libtins' reported header size)
      let rec chainN (fuel nh off target : Nat) : R (Nat × Nat) :=
        match fuel with
        | 0 => throw "ip6.ext-chain"
        | fuel + 1 =>
          if off ≥ target then pure (nh, off) else do
            need (off + 8 ≤ body.length) "ip6.ext-short"
            chainN fuel (u8 body off) (off + (u8 body (off + 1) + 1) * 8) target
      let (nh, off) ← if strict then chain exts (u8 b 6) 0 else chainN 64 (u8 b 6) 0 (hdrHint - 40)
      need (strict || off == hdrHint - 40) s!"ip6.ext-len total={off} reported={hdrHint - 40}"
      if let some n := nxt then checkTag "ip6" nh (ipProtoOf n)
      let t ← walk strict rest (body.drop off) (.ip6 (slice b 8 24) (slice b 24 40))
      need t.isEmpty s!"ip6.plen-excess plen={plen} excess={t.length}"
      pure (b.drop (40 + plen))
    | .tcp sp dp seq ack flags win urg opts => do
      need (b.length ≥ 20) "tcp.short"
      let hl := u8 b 12 / 16 * 4
      need (hl ≥ 20 && hl ≤ b.length) s!"tcp.doff hl={hl}"
      fieldEq strict "tcp.sport" (be16At b 0) sp
      fieldEq strict "tcp.dport" (be16At b 2) dp
      fieldEq strict "tcp.seq" (be32At b 4) seq
      fieldEq strict "tcp.ack" (be32At b 8) ack
      fieldEq strict "tcp.flags" (u8 b 12 % 16 * 256 + u8 b 13) flags
      fieldEq strict "tcp.win" (be16At b 14) win
      fieldEq strict "tcp.urg" (be16At b 18) urg
      need (!strict || optsOK (slice b 20 hl) opts (fun t => t ≤ 1)) s!"tcp.doff-options hl={hl}"
      match par with
      | .ip4 s d => need (verifies (pseudo4 s d 6 b.length ++ b)) "tcp.checksum"
      | .ip6 s d => need (verifies (pseudo6 s d 6 b.length ++ b)) "tcp.checksum"
      | .other => pure ()
      walk strict rest (b.drop hl) .other
    | .udp sp dp => do
      need (b.length ≥ 8) "udp.short"
      let len := be16At b 4
      need (len ≥ 8 && len ≤ b.length) s!"udp.length len={len} have={b.length}"
      fieldEq strict "udp.sport" (be16At b 0) sp
      fieldEq strict "udp.dport" (be16At b 2) dp
      match par with
      | .ip4 s d =>
        need (be16At b 6 != 0) "udp.checksum-zero"
        need (verifies (pseudo4 s d 17 len ++ b.take len)) "udp.checksum"
      | .ip6 s d =>
        need (be16At b 6 != 0) "udp.checksum-zero"
        need (verifies (pseudo6 s d 17 len ++ b.take len)) "udp.checksum"
      | .other => pure ()
      let t ← walk strict rest (slice b 8 len) .other
      need t.isEmpty s!"udp.length-excess len={len} excess={t.length}"
      pure (b.drop len)
    | .icmp type code id seq a bb c _ exts => do
      need (b.length ≥ 8) "icmp.short"
      need (verifies b) "icmp.checksum"
      fieldEq strict "icmp.type" (u8 b 0) type
      fieldEq strict "icmp.code" (u8 b 1) code
      let type := u8 b 0
      let rfc4884 := type == 3 || type == 11 || type == 12
      let hl := if type == 13 || type == 14 then 20 else if type == 17 || type == 18 then 12 else 8
      need (b.length ≥ hl) "icmp.short"
      if !rfc4884 then
        fieldEq strict "icmp.id" (be16At b 4) id
        fieldEq strict "icmp.seq" (be16At b 6) seq
      if type == 13 || type == 14 then
        fieldEq strict "icmp.ts-orig" (be32At b 8) a
        fieldEq strict "icmp.ts-recv" (be32At b 12) bb
        fieldEq strict "icmp.ts-xmit" (be32At b 16) c
      if type == 17 || type == 18 then fieldEq strict "icmp.mask" (be32At b 8) a
      let payload := b.drop hl
      let lf := if rfc4884 then u8 b 5 else 0
      if !exts.isEmpty then
        -- RFC 4884 §4: original datagram zero padded to ≥ 128 octets and a 32-bit boundary, then the structure
        let cut := if lf != 0 then lf * 4 else 128
        need (cut ≥ 128) s!"icmp.rfc4884-min128 length={lf}"
        need (cut + 4 ≤ payload.length) s!"icmp.rfc4884-length length={lf} have={payload.length}"
        let t ← walk strict rest (payload.take cut) .other
        need (allZero t) "icmp.rfc4884-padding-nonzero"
        checkExtStruct "icmp" (payload.drop cut) strict exts
      else if lf != 0 then
        need (lf * 4 == payload.length) s!"icmp.rfc4884-length length={lf} have={payload.length}"
        let t ← walk strict rest payload .other
        need (allZero t && t.length < 4) "icmp.rfc4884-padding"
      else
        let t ← walk strict rest payload .other
        need t.isEmpty s!"icmp.trailing excess={t.length}"
      pure []
    | .icmp6 type code id seq _ exts => do
      need (b.length ≥ 8) "icmp6.short"
      match par with
      | .ip6 s d => need (verifies (pseudo6 s d 58 b.length ++ b)) "icmp6.checksum"
      | _ => pure ()
      fieldEq strict "icmp6.type" (u8 b 0) type
      fieldEq strict "icmp6.code" (u8 b 1) code
      let type := u8 b 0
      let rfc4884 := type == 1 || type == 3
      if !rfc4884 then
        fieldEq strict "icmp6.id" (be16At b 4) id
        fieldEq strict "icmp6.seq" (be16At b 6) seq
      let payload := b.drop 8
      let lf := if rfc4884 then u8 b 4 else 0
      if !exts.isEmpty then
        let cut := if lf != 0 then lf * 8 else 128
        need (cut ≥ 128) s!"icmp6.rfc4884-min128 length={lf}"
        need (cut + 4 ≤ payload.length) s!"icmp6.rfc4884-length length={lf} have={payload.length}"
        let t ← walk strict rest (payload.take cut) .other
        need (allZero t) "icmp6.rfc4884-padding-nonzero"
        checkExtStruct "icmp6" (payload.drop cut) strict exts
      else if lf != 0 then
        need (lf * 8 == payload.length) s!"icmp6.rfc4884-length length={lf} have={payload.length}"
        let t ← walk strict rest payload .other
        need (allZero t && t.length < 8) "icmp6.rfc4884-padding"
      else
        let t ← walk strict rest payload .other
        need t.isEmpty s!"icmp6.trailing excess={t.length}"
      pure []
    | .raw data => do
      need (b.length ≥ data.length) s!"raw.short have={b.length} want={data.length}"
      need (b.take data.length == data) "raw.mismatch"
      walk strict rest (b.drop data.length) .other
    | .opaque "raw" n _ => do
      need (b.length ≥ n) s!"raw.short have={b.length} want={n}"
      walk strict rest (b.drop n) .other
    | .pppoe code sess _ tags => do
      need (b.length ≥ 6) "pppoe.short"
      need (u8 b 0 == 0x11) "pppoe.vertype"
      fieldEq strict "pppoe.code" (u8 b 1) code
      fieldEq strict "pppoe.session" (be16At b 2) sess
      let plen := be16At b 4
      need (6 + plen ≤ b.length) s!"pppoe.length plen={plen} have={b.length - 6}"
      let payload := slice b 6 (6 + plen)
      if code == 0 && strict then
        let t ← walk strict rest payload .other
        need t.isEmpty s!"pppoe.length-excess plen={plen} excess={t.length}"
      else
        let want := tags.foldr (fun (t, d) acc =>
          UInt8.ofNat (t / 256) :: UInt8.ofNat (t % 256) :: UInt8.ofNat (d.length / 256) ::
            UInt8.ofNat (d.length % 256) :: (d ++ acc)) []
        need (!strict || payload == want) s!"pppoe.length-tags plen={plen} want={want.length}"
      pure (b.drop (6 + plen))
    | .mpls label exp _ ttl => do
      need (b.length ≥ 4) "mpls.short"
      fieldEq strict "mpls.label" (u8 b 0 * 4096 + u8 b 1 * 16 + u8 b 2 / 16) label
      fieldEq strict "mpls.exp" (u8 b 2 / 2 % 8) exp
      fieldEq strict "mpls.ttl" (u8 b 3) ttl
      let s := u8 b 2 % 2
      -- RFC 3032 §2.1: S is set for the last entry of the stack and clear for all others
      match nxt with
      | some (.mpls ..) => need (s == 0) "mpls.bottom-of-stack set-before-mpls"
      | some _ => need (s == 1) "mpls.bottom-of-stack clear-before-payload"
      | none => pure ()
      walk strict rest (b.drop 4) .other
    | .dot3 dst src => do
      need (b.length ≥ 14) "dot3.short"
      bytesEq strict "dot3.dst" (slice b 0 6) dst
      bytesEq strict "dot3.src" (slice b 6 12) src
      let len := be16At b 12
      need (14 + len ≤ b.length) s!"dot3.length len={len} have={b.length - 14}"
      let t ← walk strict rest (slice b 14 (14 + len)) .other
      need t.isEmpty s!"dot3.length-excess len={len} excess={t.length}"
      need (b.length == 14 + len) s!"dot3.length len={len} have={b.length - 14}"
      pure []
    | .snap control oui _ => do
      need (b.length ≥ 8) "snap.short"
      need (u8 b 0 == 0xAA && u8 b 1 == 0xAA) "snap.sap"
      fieldEq strict "snap.control" (u8 b 2) control
      fieldEq strict "snap.oui" (u8 b 3 * 65536 + be16At b 4) oui
      -- (a VLAN tag is named by 0x8100 here also when a second tag follows: 0x88A8 is what EthernetII derives)
      if let some n := nxt then checkTag "snap" (be16At b 6) (etherTypeOf n none)
      walk strict rest (b.drop 8) .other
    | .llc dsap ssap => do
      need (b.length ≥ 3) "llc.short"
      fieldEq strict "llc.dsap" (u8 b 0) dsap
      fieldEq strict "llc.ssap" (u8 b 1) ssap
      let hl := if u8 b 2 % 4 == 3 then 3 else 4      -- U format: 1 control octet, I / S formats: 2
      need (b.length ≥ hl) "llc.short"
      walk strict rest (b.drop hl) .other
    | .loop _ => do
      need (b.length ≥ 4) "loop.short"
      -- DLT_NULL: host byte order (little-endian here) address family; Linux numbering
      let fam := le32At b 0
      match nxt.map Layer.kind with
      | some "ip" => need (fam == 2) s!"loop.tag got={fam} want=2"
      | some "ip6" => need (fam == 10) s!"loop.tag got={fam} want=10"
      | some "llc" => need (fam == 26) s!"loop.tag got={fam} want=26"
      | _ => pure ()
      walk strict rest (b.drop 4) .other
    | .sll ptype lltype lllen addr _ => do
      need (b.length ≥ 16) "sll.short"
      fieldEq strict "sll.ptype" (be16At b 0) ptype
      fieldEq strict "sll.lltype" (be16At b 2) lltype
      fieldEq strict "sll.lllen" (be16At b 4) lllen
      bytesEq strict "sll.addr" (slice b 6 14) addr
      if let some n := nxt then checkTag "sll" (be16At b 14) (etherTypeOf n none)
      walk strict rest (b.drop 16) .other
    | .ah spi seq icv _ => do
      need (b.length ≥ 12) "ah.short"
      let hl := (u8 b 1 + 2) * 4                       -- RFC 4302 §2.2
      need (hl ≥ 12 && hl ≤ b.length) s!"ah.length hl={hl}"
      fieldEq strict "ah.spi" (be32At b 4) spi
      fieldEq strict "ah.seq" (be32At b 8) seq
      need (!strict || slice b 12 hl == icv) s!"ah.length-icv hl={hl} icv={icv.length}"
      if let some n := nxt then checkTag "ah" (u8 b 0) (ipProtoOf n)
      walk strict rest (b.drop hl) .other     -- not "directly inside" IP: libtins fills no checksum here
    | .esp spi seq => do
      need (b.length ≥ 8) "esp.short"
      fieldEq strict "esp.spi" (be32At b 0) spi
      fieldEq strict "esp.seq" (be32At b 4) seq
      walk strict rest (b.drop 8) .other
    | .radiotap fcs => do
      need (b.length ≥ 8) "radiotap.short"
      need (!strict || u8 b 0 == 0) "radiotap.version"
      let itlen := le16At b 2
      need (itlen ≥ 8 && itlen ≤ b.length) s!"radiotap.it_len {itlen}"
      let flagged := match radiotapFlags b with
        | some f => f / 16 % 2 == 1
        | none => false
      need (flagged == fcs) "radiotap.fcs-flag"
      let payload := b.drop itlen
      if fcs then
        need (payload.length ≥ 4) "radiotap.fcs-short"
        let frame := payload.take (payload.length - 4)
        let t ← walk strict rest frame .other
        need t.isEmpty s!"radiotap.it_len-excess excess={t.length}"
        need (le32At payload (payload.length - 4) == (Tins.Ck.Spec.crcBitwise frame).toNat) "radiotap.fcs"
      else
        let t ← walk strict rest payload .other
        need t.isEmpty s!"radiotap.it_len-excess excess={t.length}"
      pure []
    | .eapol keylen key => do
      need (b.length ≥ 4) "eapol.short"
      let len := be16At b 2
      need (4 + len ≤ b.length) s!"eapol.length len={len} have={b.length - 4}"
      -- RC4 key descriptor (IEEE 802.1X-2001 §7.6): type, key length, replay counter 8, IV 16, index, signature 16, key;
      -- the packet body length covers the descriptor and whatever the stack carries behind the key
      need (!strict || len ≥ 44 + key.length) s!"eapol.length len={len} key={key.length}"
      -- the key length field is derived from the key when there is one
      fieldEq strict "eapol.keylen" (be16At b 5) (if key.isEmpty then keylen else key.length)
      need (!strict || slice b 48 (48 + key.length) == key) "eapol.key"
      let t ← walk strict rest (slice b (48 + key.length) (4 + len)) .other
      need t.isEmpty s!"eapol.length-excess len={len} excess={t.length}"
      pure (b.drop (4 + len))
    | .opaque _ hdr trl => do
      -- a layer known only by the sizes libtins reports: header, then the inner layers, then its trailer
      need (b.length ≥ hdr + trl) "opaque.short"
      if trl == 0 then walk strict rest (b.drop hdr) .other
      else
        let t ← walk strict rest (slice b hdr (b.length - trl)) .other
        need t.isEmpty s!"opaque.trailing excess={t.length}"
        pure []

/-- entry point: the whole frame must be owned by the stack -/
def check (strict : Bool) (ls : List Layer) (b : Bytes) : R Unit := do
  let t ← walk strict ls b .other
  need t.isEmpty s!"frame.trailing excess={t.length}"

end Tins.Ck.Dissect
