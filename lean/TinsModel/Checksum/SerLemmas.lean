import TinsModel.Checksum.Serialize
import TinsModel.Checksum.Dissect
import TinsModel.Checksum.Lemmas
/-
  Lemmas about the serialisation model: every layer writes exactly header + inner + trailer octets
  (`write_length`, `serialize_length`), and the checksum tails only touch the two checksum octets.
-/
namespace Tins.Ck.Ser
open Tins.Ck Tins.Gen

/-- well-formedness of a description: address widths as the C++ types fix them, option lists inside the region
    where `calculate_options_size` and `write_option` agree (outside: C02 findings) -/
def wf : Layer → Bool
  | .eth dst src _ => dst.length == 6 && src.length == 6
  | .dot3 dst src => dst.length == 6 && src.length == 6
  | .ip _ _ _ _ _ _ src dst opts =>
    src.length == 4 && dst.length == 4 && opts.all (fun (t, d) => t < 256 && t != 0x80 && t != 0x81 && (t > 1 || d.isEmpty))
  | .ip6 _ _ _ _ src dst _ => src.length == 16 && dst.length == 16
  | .tcp _ _ _ _ _ _ _ opts => opts.all (fun (t, d) => if t ≤ 1 then d.isEmpty else (!d.isEmpty || t == 4))
  | .sll _ _ _ addr _ => addr.length == 8
  | .pppoe _ _ _ tags => decide ((tags.map (fun e => e.2.length + 4)).sum < 65536)
  | .opaque .. => false
  | _ => true

/-- the FLAGS field of the default `RadioTap` object decides the trailer: 4 octets of FCS iff the FCS flag is on -/
theorem radiotapTrailer_default (fcs : Bool) : radiotapTrailer (radiotapPayload fcs) = if fcs then 4 else 0 := by
  cases fcs <;> decide

theorem length_radiotapPayload (fcs : Bool) : (radiotapPayload fcs).length = 22 := rfl

@[simp] theorem length_zeros (n : Nat) : (zeros n).length = n := by simp [zeros]
@[simp] theorem length_w16 (v : Nat) : (w16 v).length = 2 := rfl
@[simp] theorem length_w32 (v : Nat) : (w32 v).length = 4 := rfl
@[simp] theorem length_w32le (v : Nat) : (w32le v).length = 4 := rfl

theorem length_ipTail (buf : Bytes) (h : Nat) : (ipTail buf h).length = buf.length := by
  simp [ipTail, length_poke16]
theorem length_tcpTail (p : Parent) (buf : Bytes) (s : Nat) : (tcpTail p buf s).length = buf.length := by
  cases p <;> simp [tcpTail, length_poke16]
theorem length_udpTail (p : Parent) (buf : Bytes) (s : Nat) : (udpTail p buf s).length = buf.length := by
  cases p <;> simp [udpTail, length_poke16]
theorem length_icmpTail (buf : Bytes) : (icmpTail buf).length = buf.length := by
  simp [icmpTail, length_poke16]
theorem length_icmp6Tail (p : Parent) (buf : Bytes) (s : Nat) : (icmp6Tail p buf s).length = buf.length := by
  cases p <;> simp [icmp6Tail, length_poke16]
theorem length_extTail (buf : Bytes) : (extTail buf).length = buf.length := by
  simp [extTail, length_poke16]

/-! ### option writers produce `calculate_options_size` octets -/

theorem ip_opt_cond (t : Nat) (h : t < 256) (h80 : t ≠ 0x80) (h81 : t ≠ 0x81) :
    (t / 128 % 2 ≠ 0 ∨ t / 32 % 4 ≠ 0 ∨ t % 32 > 1) ↔ t > 1 := by omega

theorem writeTlvOpts_cons (t : Nat) (d : Bytes) (r : List (Nat × Bytes)) :
    writeTlvOpts ((t, d) :: r) =
      if t > 1 then b8 t :: b8 (d.length + 2) :: (d ++ writeTlvOpts r) else b8 t :: writeTlvOpts r := rfl

theorem ipOptSize_aux (opts : List (Nat × Bytes))
    (h : opts.all (fun (t, d) => t < 256 && t != 0x80 && t != 0x81 && (t > 1 || d.isEmpty)) = true) (a : Nat) :
    opts.foldl (fun acc (t, d) => acc + 1 + (if t / 128 % 2 ≠ 0 ∨ t / 32 % 4 ≠ 0 ∨ t % 32 > 1 then 1 + d.length else 0)) a
      = a + (writeTlvOpts opts).length := by
  induction opts generalizing a with
  | nil => rfl
  | cons o r ih =>
    obtain ⟨t, d⟩ := o
    simp only [List.all_cons, Bool.and_eq_true] at h
    obtain ⟨⟨⟨⟨h256, h80⟩, h81⟩, _⟩, hr⟩ := h
    simp only [List.foldl_cons]
    rw [ih hr, writeTlvOpts_cons]
    have c := ip_opt_cond t (by simpa using h256) (by simpa using h80) (by simpa using h81)
    by_cases ht : t > 1
    · have : (t / 128 % 2 ≠ 0 ∨ t / 32 % 4 ≠ 0 ∨ t % 32 > 1) := c.mpr ht
      simp only [ht, this, if_true, List.length_cons, List.length_append]; omega
    · have : ¬ (t / 128 % 2 ≠ 0 ∨ t / 32 % 4 ≠ 0 ∨ t % 32 > 1) := fun x => ht (c.mp x)
      simp only [ht, this, if_false, List.length_cons]; omega

theorem length_writeTlvOpts_ip (opts : List (Nat × Bytes))
    (h : opts.all (fun (t, d) => t < 256 && t != 0x80 && t != 0x81 && (t > 1 || d.isEmpty)) = true) :
    (writeTlvOpts opts).length = ipOptSize opts := by
  unfold ipOptSize; rw [ipOptSize_aux opts h 0]; omega

theorem tcpOptSize_aux (opts : List (Nat × Bytes))
    (_h : opts.all (fun (t, d) => if t ≤ 1 then d.isEmpty else (!d.isEmpty || t == 4)) = true) (a : Nat) :
    opts.foldl (fun acc (t, d) => acc + 1 + (if t > 1 then 1 + d.length else 0)) a
      = a + (writeTlvOpts opts).length := by
  clear _h
  induction opts generalizing a with
  | nil => rfl
  | cons o r ih =>
    obtain ⟨t, d⟩ := o
    simp only [List.foldl_cons]
    rw [ih, writeTlvOpts_cons]
    by_cases ht : t > 1
    · simp only [ht, if_true, List.length_cons, List.length_append]; omega
    · simp only [ht, if_false, List.length_cons]; omega

theorem length_writeTlvOpts_tcp (opts : List (Nat × Bytes))
    (h : opts.all (fun (t, d) => if t ≤ 1 then d.isEmpty else (!d.isEmpty || t == 4)) = true) :
    (writeTlvOpts opts).length = tcpOptSize opts := by
  unfold tcpOptSize; rw [tcpOptSize_aux opts h 0]; omega

theorem pad4_ge (n : Nat) : n ≤ pad4 n := by unfold pad4; split <;> omega
theorem pad4_mod (n : Nat) : pad4 n % 4 = 0 := by unfold pad4; split <;> omega

/-! ### IPv6 extension chain -/

theorem ip6ExtSize_aux (exts : List (Nat × Bytes)) (a : Nat) :
    exts.foldl (fun acc (_, d) => acc + (d.length + 2) + ip6ExtPad d) a
      = a + (exts.map (fun e => e.2.length + 2 + ip6ExtPad e.2)).sum := by
  induction exts generalizing a with
  | nil => simp
  | cons e r ih => obtain ⟨t, d⟩ := e; simp only [List.foldl_cons, List.map_cons, List.sum_cons]; rw [ih]; omega

theorem length_writeIp6Ext (e : Nat × Bytes) : (writeIp6Ext e).length = e.2.length + 2 + ip6ExtPad e.2 := by
  obtain ⟨t, d⟩ := e; simp [writeIp6Ext]; omega

theorem ip6Chain_data (exts : List (Nat × Bytes)) (last : Nat) :
    (ip6Chain exts last).map (·.2) = exts.map (·.2) := by
  induction exts with
  | nil => rfl
  | cons e r ih =>
    obtain ⟨t, d⟩ := e
    cases r with
    | nil => rfl
    | cons e' r' => obtain ⟨t', d'⟩ := e'; simp only [ip6Chain, List.map_cons] at ih ⊢; rw [ih]

theorem length_ip6_exts (exts : List (Nat × Bytes)) (last : Nat) :
    (((ip6Chain exts last).map writeIp6Ext).flatten).length = ip6ExtSize exts := by
  unfold ip6ExtSize
  rw [ip6ExtSize_aux exts 0, List.length_flatten, List.map_map]
  have h : (List.map (List.length ∘ writeIp6Ext) (ip6Chain exts last))
      = ((ip6Chain exts last).map (·.2)).map (fun d => d.length + 2 + ip6ExtPad d) := by
    rw [List.map_map]; apply List.map_congr_left; intro e _; simp [length_writeIp6Ext]
  rw [h, ip6Chain_data, List.map_map]
  simp only [Nat.zero_add]
  rfl

/-! ### the ICMP extension structure -/

theorem extStructSize_aux (exts : List (Nat × Nat × Bytes)) (a : Nat) :
    exts.foldl (fun acc (_, _, p) => acc + 4 + p.length) a
      = a + (exts.foldr (fun (c, t, p) acc => w16 (4 + p.length) ++ [b8 c, b8 t] ++ p ++ acc) []).length := by
  induction exts generalizing a with
  | nil => rfl
  | cons e r ih =>
    obtain ⟨c, t, p⟩ := e
    simp only [List.foldl_cons, List.foldr_cons]; rw [ih]
    simp only [List.length_append, length_w16, List.length_cons, List.length_nil]; omega

theorem length_writeExtStruct (exts : List (Nat × Nat × Bytes)) :
    (writeExtStruct exts).length = extStructSize exts := by
  unfold writeExtStruct extStructSize
  rw [extStructSize_aux exts 0]
  simp only []
  rw [length_extTail, List.length_append]
  simp only [List.length_cons, List.length_nil]; omega

theorem length_rfc4884Tail_icmp (type code id seq a b c : Nat) (lf : Bool) (isz : Option Nat)
    (exts : List (Nat × Nat × Bytes)) :
    (rfc4884Tail 4 isz exts).length = trailerSize (.icmp type code id seq a b c lf exts) isz := by
  unfold rfc4884Tail trailerSize
  by_cases he : exts.isEmpty = true
  · simp [he]
  · simp only [he, Bool.false_eq_true, if_false, List.length_append, length_writeExtStruct]
    cases isz <;> simp <;> omega

theorem length_rfc4884Tail_icmp6 (type code id seq : Nat) (lf : Bool) (isz : Option Nat)
    (exts : List (Nat × Nat × Bytes)) :
    (rfc4884Tail 8 isz exts).length = trailerSize (.icmp6 type code id seq lf exts) isz := by
  unfold rfc4884Tail trailerSize
  by_cases he : exts.isEmpty = true
  · simp [he]
  · simp only [he, Bool.false_eq_true, if_false, List.length_append, length_writeExtStruct]
    cases isz <;> simp <;> omega

theorem pppoe_tags_aux (tags : List (Nat × Bytes)) :
    (tags.foldr (fun (t, d) acc => w16 t ++ w16 d.length ++ d ++ acc) []).length
      = (tags.map (fun e => e.2.length + 4)).sum := by
  induction tags with
  | nil => rfl
  | cons e r ih =>
    obtain ⟨t, d⟩ := e
    simp only [List.foldr_cons, List.map_cons, List.sum_cons, List.length_append, length_w16, ih]; omega

theorem pppoe_size_aux (tags : List (Nat × Bytes)) (a : Nat)
    (h : a + (tags.map (fun e => e.2.length + 4)).sum < 65536) :
    tags.foldl (fun acc (_, d) => (acc + d.length + 4) % 65536) a = a + (tags.map (fun e => e.2.length + 4)).sum := by
  induction tags generalizing a with
  | nil => simp
  | cons e r ih =>
    obtain ⟨t, d⟩ := e
    simp only [List.foldl_cons, List.map_cons, List.sum_cons] at h ⊢
    have e1 : (a + d.length + 4) % 65536 = a + d.length + 4 := by omega
    rw [e1, ih (a + d.length + 4) (by omega)]; omega

/-- **every `write_serialization` of the model writes exactly header + inner + trailer octets** -/
theorem write_length (l : Layer) (rest : List Layer) (inner : Bytes) (parent : Option Layer) (hwf : wf l = true) :
    (write l rest inner parent).length
      = headerSize l + inner.length + trailerSize l (if rest.isEmpty then none else some (size rest)) := by
  cases l with
  | eth dst src type =>
    simp only [wf, Bool.and_eq_true, beq_iff_eq] at hwf
    simp only [write, headerSize, List.length_append, length_w16, length_zeros, hwf.1, hwf.2]
  | dot1q prio cfi id type padf =>
    simp only [write, headerSize, List.length_append, length_w16, length_zeros, List.length_cons, List.length_nil]
  | ip tos id flags fragoff ttl proto src dst opts =>
    simp only [wf, Bool.and_eq_true, beq_iff_eq] at hwf
    simp only [write, headerSize, trailerSize, length_ipTail, List.length_append, length_w16, length_zeros,
      List.length_cons, List.length_nil, hwf.1.1, hwf.1.2, length_writeTlvOpts_ip opts hwf.2]
    have := pad4_ge (ipOptSize opts); omega
  | ip6 tc flow hop nh src dst exts =>
    simp only [wf, Bool.and_eq_true, beq_iff_eq] at hwf
    simp only [write, headerSize, trailerSize, List.length_append, length_w16, List.length_cons, List.length_nil,
      hwf.1, hwf.2, length_ip6_exts]; omega
  | tcp sp dp seq ack flags win urg opts =>
    simp only [wf] at hwf
    simp only [write, headerSize, trailerSize, length_tcpTail, List.length_append, length_w16, length_w32, length_zeros,
      List.length_cons, List.length_nil, length_writeTlvOpts_tcp opts hwf]
    have := pad4_ge (tcpOptSize opts); omega
  | udp sp dp =>
    simp only [write, headerSize, trailerSize, length_udpTail, List.length_append, length_w16,
      List.length_cons, List.length_nil]; omega
  | icmp type code id seq a b c lenflag exts =>
    simp only [write, headerSize, length_icmpTail, List.length_append, length_w16,
      List.length_cons, List.length_nil, length_rfc4884Tail_icmp type code id seq a b c lenflag]
    split <;> (try split) <;> simp <;> omega
  | icmp6 type code id seq lenflag exts =>
    simp only [write, headerSize, length_icmp6Tail, List.length_append, length_w16,
      List.length_cons, List.length_nil, length_rfc4884Tail_icmp6 type code id seq lenflag]
  | raw d => simp [write, headerSize, trailerSize]
  | pppoe code sess plen tags =>
    simp only [wf, decide_eq_true_eq] at hwf
    simp only [write, headerSize, trailerSize, List.length_append, length_w16, List.length_cons, List.length_nil,
      pppoe_tags_aux, pppoe_size_aux tags 0 (by omega)]; omega
  | mpls label exp bos ttl => simp [write, headerSize, trailerSize]; omega
  | dot3 dst src =>
    simp only [wf, Bool.and_eq_true, beq_iff_eq] at hwf
    simp [write, headerSize, trailerSize, hwf.1, hwf.2]; omega
  | snap control oui type => simp [write, headerSize, trailerSize]; omega
  | loop family => simp [write, headerSize, trailerSize]
  | sll ptype lltype lllen addr proto =>
    simp only [wf, beq_iff_eq] at hwf
    simp [write, headerSize, trailerSize, hwf]; omega
  | ah spi seq icv nh => simp [write, headerSize, trailerSize]; omega
  | esp spi seq => simp [write, headerSize, trailerSize]; omega
  | llc _ _ => simp [write, headerSize, trailerSize]; omega
  | radiotap fcs =>
    simp only [write, headerSize, trailerSize, radiotapTrailer_default, length_radiotapPayload]
    cases fcs <;> cases rest <;> simp [length_radiotapPayload] <;> omega
  | eapol _ _ => simp [write, headerSize, trailerSize]; omega
  | «opaque» _ _ _ => simp [wf] at hwf

/-- the model of `PDU::serialize` is size-exact: it writes `PDU::size()` octets -/
theorem serialize_length (ls : List Layer) (parent : Option Layer) (h : ls.all wf = true) :
    (serialize ls parent).length = size ls := by
  induction ls generalizing parent with
  | nil => rfl
  | cons l rest ih =>
    simp only [List.all_cons, Bool.and_eq_true] at h
    simp only [serialize, size]
    rw [write_length l rest _ parent h.1, ih (some l) h.2]

/-! ### reading back what was written -/

theorem u8_cons_zero (x : UInt8) (r : Bytes) : Dissect.u8 (x :: r) 0 = x.toNat := rfl
theorem u8_cons_succ (x : UInt8) (r : Bytes) (i : Nat) : Dissect.u8 (x :: r) (i + 1) = Dissect.u8 r i := by
  simp [Dissect.u8]

theorem b8_toNat (v : Nat) : (b8 v).toNat = v % 256 := by
  unfold b8; rw [toNat_ofNat_lt _ (by omega)]

theorem be16At_w16 (v : Nat) (r : Bytes) (h : v < 65536) : Dissect.be16At (w16 v ++ r) 0 = v := by
  simp only [w16, Dissect.be16At, List.cons_append, List.nil_append, u8_cons_zero, u8_cons_succ, b8_toNat]; omega

theorem u8_append_left (a b : Bytes) (i : Nat) (h : i < a.length) : Dissect.u8 (a ++ b) i = Dissect.u8 a i := by
  simp [Dissect.u8, List.getD_eq_getElem?_getD, List.getElem?_append_left h]

theorem u8_append_right (a b : Bytes) (i : Nat) : Dissect.u8 (a ++ b) (a.length + i) = Dissect.u8 b i := by
  simp [Dissect.u8, List.getD_eq_getElem?_getD, List.getElem?_append_right]

theorem u8_poke16_ne (buf : Bytes) (off v i : Nat) (h1 : i ≠ off) (h2 : i ≠ off + 1) :
    Dissect.u8 (poke16 buf off v) i = Dissect.u8 buf i := by
  simp only [Dissect.u8, poke16, List.getD_eq_getElem?_getD]
  rw [List.getElem?_set_ne (by omega), List.getElem?_set_ne (by omega)]

theorem be16At_poke16_ne (buf : Bytes) (off v i : Nat) (h : i + 1 < off ∨ off + 1 < i) :
    Dissect.be16At (poke16 buf off v) i = Dissect.be16At buf i := by
  unfold Dissect.be16At
  rw [u8_poke16_ne _ _ _ _ (by omega) (by omega), u8_poke16_ne _ _ _ _ (by omega) (by omega)]

theorem be16At_cons (x : UInt8) (r : Bytes) (i : Nat) : Dissect.be16At (x :: r) (i + 1) = Dissect.be16At r i := by
  simp [Dissect.be16At, u8_cons_succ]

theorem be16At_append_right (a b : Bytes) (i : Nat) :
    Dissect.be16At (a ++ b) (a.length + i) = Dissect.be16At b i := by
  unfold Dissect.be16At
  rw [u8_append_right, show a.length + i + 1 = a.length + (i + 1) by omega, u8_append_right]

theorem be16At_w16' (v : Nat) (r : Bytes) : Dissect.be16At (w16 v ++ r) 0 = v % 65536 := by
  simp only [w16, Dissect.be16At, List.cons_append, List.nil_append, u8_cons_zero, u8_cons_succ, b8_toNat]; omega

theorem be16At_at_len (a b : Bytes) (n : Nat) (h : a.length = n) : Dissect.be16At (a ++ b) n = Dissect.be16At b 0 := by
  subst h; exact be16At_append_right a b 0

theorem u8_at_len (a b : Bytes) (n i : Nat) (h : a.length = n) : Dissect.u8 (a ++ b) (n + i) = Dissect.u8 b i := by
  subst h; exact u8_append_right a b i

/-! ### every layer writes its header in front of, and its trailer behind, the untouched inner bytes -/

theorem poke16_append (a b : Bytes) (off v : Nat) (h : off + 1 < a.length) :
    poke16 (a ++ b) off v = poke16 a off v ++ b := by
  unfold poke16
  rw [List.set_append_left _ _ (by omega), List.set_append_left _ _ (by simp; omega)]

theorem take_poke16_append (a b : Bytes) (off v : Nat) (h : off + 1 < a.length) :
    (poke16 (a ++ b) off v).take a.length = poke16 a off v := by
  rw [poke16_append _ _ _ _ h]
  have : a.length = (poke16 a off v).length := (length_poke16 a off v).symm
  rw [this, List.take_left']; rfl

theorem tcpTail_split (par : Parent) (X inner : Bytes) (sz : Nat) (h : 17 < X.length) :
    tcpTail par (X ++ inner) sz = (tcpTail par (X ++ inner) sz).take X.length ++ inner := by
  cases par with
  | other => simp [tcpTail]
  | ip4 s d => simp only [tcpTail]; rw [take_poke16_append _ _ _ _ (by omega), poke16_append _ _ _ _ (by omega)]
  | ip6 s d => simp only [tcpTail]; rw [take_poke16_append _ _ _ _ (by omega), poke16_append _ _ _ _ (by omega)]

theorem udpTail_split (par : Parent) (X inner : Bytes) (sz : Nat) (h : 7 < X.length) :
    udpTail par (X ++ inner) sz = (udpTail par (X ++ inner) sz).take X.length ++ inner := by
  cases par with
  | other => simp [udpTail]
  | ip4 s d => simp only [udpTail]; rw [take_poke16_append _ _ _ _ (by omega), poke16_append _ _ _ _ (by omega)]
  | ip6 s d => simp only [udpTail]; rw [take_poke16_append _ _ _ _ (by omega), poke16_append _ _ _ _ (by omega)]

theorem icmp6Tail_split (par : Parent) (X rest' : Bytes) (sz : Nat) (h : 3 < X.length) :
    icmp6Tail par (X ++ rest') sz = (icmp6Tail par (X ++ rest') sz).take X.length ++ rest' := by
  cases par with
  | other => simp [icmp6Tail]
  | ip4 s d => simp [icmp6Tail]
  | ip6 s d => simp only [icmp6Tail]; rw [take_poke16_append _ _ _ _ (by omega), poke16_append _ _ _ _ (by omega)]

theorem length_take_of_le (l : Bytes) (n : Nat) (h : n ≤ l.length) : (l.take n).length = n := by
  simp [List.length_take]; omega

/-- `write_serialization` leaves the inner PDU's bytes where `PDU::serialize` put them: right after `header_size()`
    octets of its own (checksum patches land inside the header) -/
theorem write_frame (l : Layer) (rest : List Layer) (inner : Bytes) (parent : Option Layer) (hwf : wf l = true) :
    ∃ H T : Bytes, H.length = headerSize l ∧ write l rest inner parent = H ++ inner ++ T := by
  cases l with
  | eth dst src type =>
    simp only [wf, Bool.and_eq_true, beq_iff_eq] at hwf
    refine ⟨?H1, ?T1, ?h1x1, ?h2x1⟩
    case h2x1 => simp only [write]; rfl
    case h1x1 => simp [headerSize, hwf.1, hwf.2]
  | dot1q prio cfi id type padf =>
    refine ⟨?H2, ?T2, ?h1x2, ?h2x2⟩
    case h2x2 => simp only [write]; rfl
    case h1x2 => simp [headerSize]
  | ip tos id flags fragoff ttl proto src dst opts =>
    simp only [wf, Bool.and_eq_true, beq_iff_eq] at hwf
    have hp := pad4_ge (ipOptSize opts)
    simp only [write, ipTail]
    rw [poke16_append _ _ _ _ (by simp [hwf.1.1, hwf.1.2]; omega)]
    refine ⟨?H3, [], ?h1x3, ?h2x3⟩
    case h2x3 => rw [List.append_nil]
    case h1x3 =>
    simp only [length_poke16, headerSize, List.length_append, List.length_cons, List.length_nil, length_w16,
      length_zeros, hwf.1.1, hwf.1.2, length_writeTlvOpts_ip opts hwf.2]; omega
  | ip6 tc flow hop nh src dst exts =>
    simp only [wf, Bool.and_eq_true, beq_iff_eq] at hwf
    refine ⟨?H4, [], ?h1x4, ?h2x4⟩
    case h2x4 => simp only [write, List.append_nil]; rfl
    case h1x4 => simp only [headerSize, List.length_append, List.length_cons, List.length_nil, length_w16, hwf.1, hwf.2,
        length_ip6_exts]
  | tcp sp dp seq ack flags win urg opts =>
    simp only [wf] at hwf
    have hp := pad4_ge (tcpOptSize opts)
    simp only [write]
    have hlen : (w16 sp ++ w16 dp ++ w32 seq ++ w32 ack ++ [b8 ((20 + pad4 (tcpOptSize opts)) / 4 % 16 * 16 + flags / 256 % 16), b8 flags]
        ++ w16 win ++ [0, 0] ++ w16 urg ++ writeTlvOpts opts ++ zeros (pad4 (tcpOptSize opts) - tcpOptSize opts)).length
        = headerSize (.tcp sp dp seq ack flags win urg opts) := by
      simp only [headerSize, List.length_append, List.length_cons, List.length_nil, length_w16, length_w32,
        length_zeros, length_writeTlvOpts_tcp opts hwf]; omega
    rw [tcpTail_split _ _ _ _ (by rw [hlen]; simp only [headerSize]; omega)]
    refine ⟨?H5, [], ?h1x5, ?h2x5⟩
    case h2x5 => rw [List.append_nil]
    case h1x5 => rw [length_take_of_le _ _ (by rw [length_tcpTail]; simp), hlen]
  | udp sp dp =>
    simp only [write]
    rw [udpTail_split _ _ _ _ (by simp)]
    refine ⟨?H6, [], ?h1x6, ?h2x6⟩
    case h2x6 => rw [List.append_nil]
    case h1x6 => rw [length_take_of_le _ _ (by rw [length_udpTail]; simp; omega)]; simp [headerSize]
  | icmp type code id seq a b c lenflag exts =>
    simp only [write, icmpTail]
    rw [List.append_assoc (_ ++ _) inner, poke16_append _ _ _ _ (by simp)]
    refine ⟨?H7, ?T7, ?h1x7, ?h2x7⟩
    case h2x7 => rw [← List.append_assoc]
    case h1x7 =>
    simp only [length_poke16, headerSize, List.length_append, List.length_cons, List.length_nil, length_w16]
    split <;> (try split) <;> simp <;> omega
  | icmp6 type code id seq lenflag exts =>
    simp only [write]
    rw [List.append_assoc _ inner, icmp6Tail_split _ _ _ _ (by simp)]
    refine ⟨?H8, ?T8, ?h1x8, ?h2x8⟩
    case h2x8 => rw [← List.append_assoc]
    case h1x8 => rw [length_take_of_le _ _ (by rw [length_icmp6Tail]; simp)]; simp [headerSize]
  | raw d => exact ⟨d, [], rfl, by simp [write]⟩
  | pppoe code sess plen tags =>
    simp only [wf, decide_eq_true_eq] at hwf
    refine ⟨?H10, [], ?h1x10, ?h2x10⟩
    case h2x10 => simp only [write, List.append_nil]; rfl
    case h1x10 => simp only [headerSize, List.length_append, length_w16, List.length_cons, List.length_nil,
        pppoe_tags_aux, pppoe_size_aux tags 0 (by omega)]; omega
  | mpls label exp bos ttl =>
    refine ⟨?H11, [], ?h1x11, ?h2x11⟩
    case h2x11 => simp only [write, List.append_nil]; rfl
    case h1x11 => simp [headerSize]
  | dot3 dst src =>
    simp only [wf, Bool.and_eq_true, beq_iff_eq] at hwf
    refine ⟨?H12, [], ?h1x12, ?h2x12⟩
    case h2x12 => simp only [write, List.append_nil]; rfl
    case h1x12 => simp [headerSize, hwf.1, hwf.2]
  | snap control oui type =>
    refine ⟨?H13, [], ?h1x13, ?h2x13⟩
    case h2x13 => simp only [write, List.append_nil]; rfl
    case h1x13 => simp [headerSize]
  | loop family =>
    refine ⟨?H14, [], ?h1x14, ?h2x14⟩
    case h2x14 => simp only [write, List.append_nil]; rfl
    case h1x14 => simp [headerSize]
  | sll ptype lltype lllen addr proto =>
    simp only [wf, beq_iff_eq] at hwf
    refine ⟨?H15, [], ?h1x15, ?h2x15⟩
    case h2x15 => simp only [write, List.append_nil]; rfl
    case h1x15 => simp [headerSize, hwf]
  | ah spi seq icv nh =>
    refine ⟨?H16, [], ?h1x16, ?h2x16⟩
    case h2x16 => simp only [write, List.append_nil]; rfl
    case h1x16 => simp [headerSize]; omega
  | esp spi seq =>
    refine ⟨?H17, [], ?h1x17, ?h2x17⟩
    case h2x17 => simp only [write, List.append_nil]; rfl
    case h1x17 => simp [headerSize]
  | llc _ _ =>
    refine ⟨?H18, [], ?h1x18, ?h2x18⟩
    case h2x18 => simp only [write, List.append_nil]; rfl
    case h1x18 => simp [headerSize]
  | radiotap fcs =>
    simp only [write, headerSize]
    generalize (trailerSize (Layer.radiotap fcs) _) = tr
    by_cases h : tr > 0 ∧ (!rest.isEmpty) = true
    · rw [if_pos h]; exact ⟨_, _, by simp [radiotapPayload], rfl⟩
    · rw [if_neg h]; exact ⟨_, _, by simp [radiotapPayload], rfl⟩
  | eapol _ _ =>
    refine ⟨?H21, [], ?h1x21, ?h2x21⟩
    case h2x21 => simp only [write, List.append_nil]; rfl
    case h1x21 => simp [headerSize]; omega
  | «opaque» _ _ _ => simp [wf] at hwf

/-- parent seen by the first layer of `tail` when `pre` is in front of it -/
def parentAfter (pre : List Layer) (p : Option Layer) : Option Layer :=
  match pre.getLast? with
  | some l => some l
  | none => p

/-- **in situ**: the serialisation of a stack contains, at offset Σ header sizes of the enclosing layers, exactly the
    serialisation of the inner stack with its enclosing layer as parent -/
theorem serialize_in_situ (pre tail : List Layer) (p : Option Layer) (hwf : pre.all wf = true) :
    ∃ A B : Bytes, A.length = (pre.map headerSize).sum ∧
      serialize (pre ++ tail) p = A ++ serialize tail (parentAfter pre p) ++ B := by
  induction pre generalizing p with
  | nil => exact ⟨[], [], rfl, by simp [parentAfter]⟩
  | cons l r ih =>
    simp only [List.all_cons, Bool.and_eq_true] at hwf
    obtain ⟨A, B, hA, hs⟩ := ih (some l) hwf.2
    obtain ⟨H, T, hH, hw⟩ := write_frame l (r ++ tail) (serialize (r ++ tail) (some l)) p hwf.1
    refine ⟨H ++ A, B ++ T, by simp [hH, hA], ?_⟩
    simp only [List.cons_append, serialize]
    rw [hw, hs]
    have hp : parentAfter (l :: r) p = parentAfter r (some l) := by
      cases r with
      | nil => rfl
      | cons x xs =>
        simp only [parentAfter, List.getLast?_cons_cons]
        cases hh : (x :: xs).getLast? with
        | none => simp at hh
        | some y => rfl
    rw [hp]; simp only [List.append_assoc]

end Tins.Ck.Ser
