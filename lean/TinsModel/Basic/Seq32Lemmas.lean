import TinsModel.Basic.Seq32
/- RFC 1982 comparison transported to absolute positions. -/
namespace Tins

theorem wrap32_lt (x : Nat) : wrap32 x < 4294967296 := by unfold wrap32; omega

/-- Two absolute positions less than 2^31 apart compare, after wrapping, as they do absolutely. -/
theorem seqCompare_abs (x y : Nat) (h : x < y + 2147483648) (h' : y < x + 2147483648) :
    seqCompare (wrap32 x) (wrap32 y) = if x = y then 0 else if x < y then -1 else 1 := by
  unfold seqCompare wrap32
  split <;> split <;> (try split) <;> (try split) <;> (try split) <;> omega

theorem sub32_abs (x y : Nat) (h : y ≤ x) (h' : x < y + 4294967296) :
    sub32 (wrap32 x) (wrap32 y) = x - y := by
  unfold sub32 wrap32; omega

end Tins
