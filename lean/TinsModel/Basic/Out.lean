import TinsModel.Basic.Seq32
/-
  The fault-explicit result monad used by every byte-level model.
  `throw e`  = the C++ throws the libtins exception `e`;
  `fault s`  = the C++ would touch memory outside the object it was handed (raw site `s`): undefined behaviour.
  A safety theorem is `∀ input, ¬ (f input).isFault`.
-/
namespace Tins

/-- mirrors include/tins/exceptions.h (the kinds that can occur on the modelled paths) plus `stdOther` -/
inductive Exc
  | malformedPacket | dnsPointerLoops | dnsPointerOOB
  | serializationError | optionNotFound | malformedOption | pduNotFound | fieldNotPresent
  | invalidAddress | optionPayloadTooLarge | invalidDomainName | invalidOptionValue
  | pduNotSerializable | badTinsCast | stdOther
deriving Repr, DecidableEq, BEq

/-- `dns_decompression_pointer_*` derive from `malformed_packet` -/
def Exc.isMalformed : Exc → Bool
  | .malformedPacket | .dnsPointerLoops | .dnsPointerOOB => true
  | _ => false

def Exc.isTins : Exc → Bool
  | .stdOther => false
  | _ => true

def Exc.name : Exc → String
  | .malformedPacket => "malformed_packet" | .dnsPointerLoops => "dns_decompression_pointer_loops"
  | .dnsPointerOOB => "dns_decompression_pointer_out_of_bounds"
  | .serializationError => "serialization_error" | .optionNotFound => "option_not_found"
  | .malformedOption => "malformed_option" | .pduNotFound => "pdu_not_found"
  | .fieldNotPresent => "field_not_present" | .invalidAddress => "invalid_address"
  | .optionPayloadTooLarge => "option_payload_too_large" | .invalidDomainName => "invalid_domain_name"
  | .invalidOptionValue => "invalid_option_value" | .pduNotSerializable => "pdu_not_serializable"
  | .badTinsCast => "bad_tins_cast" | .stdOther => "std"

inductive Out (α : Type) where
  | ok (a : α)
  | throw (e : Exc)
  | fault (site : String)
deriving Repr

namespace Out

def bind {α β} (x : Out α) (f : α → Out β) : Out β :=
  match x with
  | ok a => f a
  | throw e => throw e
  | fault s => fault s

instance : Monad Out where
  pure := ok
  bind := bind

def isFault {α} : Out α → Bool
  | fault _ => true
  | _ => false

def isOk {α} : Out α → Bool
  | ok _ => true
  | _ => false

/-- `try { x } catch (malformed_packet&) { h }` -/
def catchMalformed {α} (x : Out α) (h : Out α) : Out α :=
  match x with
  | throw e => if e.isMalformed then h else throw e
  | r => r

@[simp] theorem bind_ok {α β} (a : α) (f : α → Out β) : (ok a >>= f) = f a := rfl
@[simp] theorem bind_throw {α β} (e : Exc) (f : α → Out β) : ((throw e : Out α) >>= f) = throw e := rfl
@[simp] theorem bind_fault {α β} (s : String) (f : α → Out β) : ((fault s : Out α) >>= f) = fault s := rfl
@[simp] theorem pure_eq {α} (a : α) : (pure a : Out α) = ok a := rfl

theorem bind_isFault {α β} (x : Out α) (f : α → Out β)
    (hx : x.isFault = false) (hf : ∀ a, x = ok a → (f a).isFault = false) : (x >>= f).isFault = false := by
  cases x with
  | ok a => exact hf a rfl
  | throw e => rfl
  | fault s => simp [isFault] at hx

end Out

/-- raw read `buf[i]` / `*(ptr + i)` with no check in the C++ -/
def rd (site : String) (buf : Bytes) (i : Nat) : Out UInt8 :=
  match buf[i]? with
  | some b => .ok b
  | none => .fault site

/-- raw `memcpy(dst, buf + i, n)` with no check -/
def rdN (site : String) (buf : Bytes) (i n : Nat) : Out Bytes :=
  if i + n ≤ buf.length then .ok ((buf.drop i).take n) else .fault site

end Tins
