import TinsModel.Basic.Cursor
import TinsModel.Basic.OutCursor
/- big-endian and little-endian integer codecs are inverse to each other (every width, every value) -/
namespace Tins

theorem beNat_append_singleton (bs : Bytes) (b : UInt8) :
    Cursor.beNat (bs ++ [b]) = Cursor.beNat bs * 256 + b.toNat := by
  simp [Cursor.beNat, List.foldl_append]

theorem UInt8_ofNat_toNat_mod (v : Nat) : (UInt8.ofNat (v % 256)).toNat = v % 256 := by
  simp [UInt8.toNat_ofNat']

/-- `read_be<T>(write_be<T>(v)) = v mod 2^(8·sizeof T)` -/
theorem beNat_beBytes (n v : Nat) : Cursor.beNat (OutCursor.beBytes n v) = v % 256 ^ n := by
  induction n generalizing v with
  | zero => simp [OutCursor.beBytes, Cursor.beNat, Nat.mod_one]
  | succ n ih =>
    rw [OutCursor.beBytes, beNat_append_singleton, ih, UInt8_ofNat_toNat_mod, Nat.pow_succ]
    rw [Nat.mul_comm (256 ^ n) 256, Nat.mod_mul, Nat.mul_comm, Nat.add_comm]

theorem leNat_leBytes (n v : Nat) : Cursor.leNat (OutCursor.leBytes n v) = v % 256 ^ n := by
  induction n generalizing v with
  | zero => simp [OutCursor.leBytes, Cursor.leNat, Nat.mod_one]
  | succ n ih =>
    simp only [OutCursor.leBytes, Cursor.leNat, List.foldr_cons]
    have := ih (v / 256)
    simp only [Cursor.leNat] at this
    rw [this, UInt8_ofNat_toNat_mod, Nat.pow_succ]
    rw [Nat.mul_comm (256 ^ n) 256, Nat.mod_mul, Nat.mul_comm, Nat.add_comm]

end Tins
