import TinsModel.Basic.Out
/-
  `Memory::OutputMemoryStream` (include/tins/memory_helpers.h).
  `done` — bytes already behind the pointer; `rest` — bytes physically available from the pointer to the
  end of the destination buffer; `size` — the stream's `size_`.  The final buffer is `done ++ rest`.
-/
namespace Tins

structure OutCursor where
  done : Bytes
  rest : Bytes
  size : Nat
deriving Repr

namespace OutCursor

/-- `OutputMemoryStream(buffer, total_sz)` over a region of exactly `total_sz` bytes -/
def ofRegion (r : Bytes) : OutCursor := ⟨[], r, r.length⟩

def Inv (o : OutCursor) : Prop := o.size ≤ o.rest.length

def buffer (o : OutCursor) : Bytes := o.done ++ o.rest

/-- `write(ptr, len)` / `write<T>` / `write_be<T>` (the caller passes the already byte-ordered bytes) -/
def write (o : OutCursor) (bs : Bytes) : Out OutCursor :=
  if o.size < bs.length then .throw .serializationError
  else if o.rest.length < bs.length then .fault "OutputMemoryStream::write"
  else .ok ⟨o.done ++ bs, o.rest.drop bs.length, o.size - bs.length⟩

/-- `skip(n)` (throws `malformed_packet`, as the header does) -/
def skip (o : OutCursor) (n : Nat) : Out OutCursor :=
  if n > o.size then .throw .malformedPacket
  else .ok ⟨o.done ++ o.rest.take n, o.rest.drop n, o.size - n⟩

/-- `fill(n, value)` -/
def fill (o : OutCursor) (n : Nat) (v : UInt8) : Out OutCursor :=
  if o.size < n then .throw .serializationError
  else if o.rest.length < n then .fault "OutputMemoryStream::fill"
  else .ok ⟨o.done ++ List.replicate n v, o.rest.drop n, o.size - n⟩

/-- big-endian encoding of `v` on `n` bytes (value truncated to the width, as the C++ integer type does) -/
def beBytes : Nat → Nat → Bytes
  | 0, _ => []
  | n + 1, v => beBytes n (v / 256) ++ [UInt8.ofNat (v % 256)]

def leBytes : Nat → Nat → Bytes
  | 0, _ => []
  | n + 1, v => UInt8.ofNat (v % 256) :: leBytes n (v / 256)

def writeBE (o : OutCursor) (n v : Nat) : Out OutCursor := o.write (beBytes n v)
def writeLE (o : OutCursor) (n v : Nat) : Out OutCursor := o.write (leBytes n v)

@[simp] theorem beBytes_length (n v : Nat) : (beBytes n v).length = n := by
  induction n generalizing v with
  | zero => rfl
  | succ n ih => simp [beBytes, ih]

@[simp] theorem leBytes_length (n v : Nat) : (leBytes n v).length = n := by
  induction n generalizing v with
  | zero => rfl
  | succ n ih => simp [leBytes, ih]

theorem write_spec (o : OutCursor) (bs : Bytes) (h : o.Inv) :
    (∃ o', o.write bs = .ok o' ∧ o'.Inv ∧ o'.buffer.length = o.buffer.length ∧ o'.done = o.done ++ bs
        ∧ o'.size = o.size - bs.length ∧ bs.length ≤ o.size ∧ o'.rest = o.rest.drop bs.length)
    ∨ (o.write bs = .throw .serializationError ∧ o.size < bs.length) := by
  unfold write
  by_cases h1 : o.size < bs.length
  · right; simp [h1]
  · left
    have h2 : ¬ o.rest.length < bs.length := by simp only [Inv] at h; omega
    refine ⟨⟨o.done ++ bs, o.rest.drop bs.length, o.size - bs.length⟩, by simp [h1, h2], ?_, ?_, rfl, rfl, by omega, rfl⟩
    · simp only [Inv, List.length_drop] at *; omega
    · simp only [buffer, List.length_append, List.length_drop, Inv] at *; omega

end OutCursor
end Tins
