import TinsModel.Basic.Out
/-
  `Memory::InputMemoryStream` (include/tins/memory_helpers.h), operation for operation.

  `mem`  — the bytes that physically exist from the stream's current pointer to the end of the caller's
           buffer (what may be touched without leaving the buffer);
  `size` — the stream's `size_` field (what the stream believes is left).
  The stream is memory-safe exactly as long as `size ≤ mem.length` (`Cursor.Inv`); `size(new_size)` performs
  no check in the C++, so the model lets it break the invariant and reads then `fault`.
-/
namespace Tins

structure Cursor where
  mem : Bytes
  size : Nat
deriving Repr

namespace Cursor

/-- `InputMemoryStream(buffer, total_sz)` on a caller buffer of exactly `total_sz` bytes -/
def ofBytes (b : Bytes) : Cursor := ⟨b, b.length⟩

def Inv (c : Cursor) : Prop := c.size ≤ c.mem.length

def canRead (c : Cursor) (n : Nat) : Bool := n ≤ c.size

/-- `skip(size)` -/
def skip (c : Cursor) (n : Nat) : Out Cursor :=
  if n > c.size then .throw .malformedPacket
  else .ok ⟨c.mem.drop n, c.size - n⟩

/-- `read(void*, n)` / `read<T>()` with `sizeof(T) = n` / `read(vector&, n)` -/
def read (c : Cursor) (n : Nat) : Out (Bytes × Cursor) :=
  if !c.canRead n then .throw .malformedPacket
  else if c.mem.length < n then .fault "InputMemoryStream::read"
  else .ok (c.mem.take n, ⟨c.mem.drop n, c.size - n⟩)

/-- `pointer()` followed by a raw read of `n` bytes at offset `i` -/
def peek (site : String) (c : Cursor) (i n : Nat) : Out Bytes := rdN site c.mem i n

/-- `size(new_size)`: unchecked -/
def setSize (c : Cursor) (m : Nat) : Cursor := ⟨c.mem, m⟩

def toBool (c : Cursor) : Bool := c.size > 0

/-- big-endian value of a byte string -/
def beNat (bs : Bytes) : Nat := bs.foldl (fun acc b => acc * 256 + b.toNat) 0
/-- little-endian value of a byte string -/
def leNat (bs : Bytes) : Nat := bs.foldr (fun b acc => acc * 256 + b.toNat) 0

def readBE (c : Cursor) (n : Nat) : Out (Nat × Cursor) := do
  let (bs, c') ← c.read n
  pure (beNat bs, c')

def readLE (c : Cursor) (n : Nat) : Out (Nat × Cursor) := do
  let (bs, c') ← c.read n
  pure (leNat bs, c')

def readU8 (c : Cursor) : Out (Nat × Cursor) := c.readBE 1

end Cursor

/-- the operations a parser can apply to a stream, as data (for the all-sequences safety theorem) -/
inductive CursorOp
  | read (n : Nat)
  | skip (n : Nat)
  | shrink (m : Nat)          -- `size(m)` at a call site that has established `m ≤ size()`
  | peek (i n : Nat)          -- raw access through `pointer()` guarded by `i + n ≤ size()`

namespace Cursor

/-- one operation; `none` = an exception left the parser (always `malformed_packet`, see `step_exc`) -/
def step (c : Cursor) : CursorOp → Out Cursor
  | .read n => do let (_, c') ← c.read n; pure c'
  | .skip n => c.skip n
  | .shrink m => if m ≤ c.size then .ok (c.setSize m) else .throw .malformedPacket
  | .peek i n => if i + n ≤ c.size then (do let _ ← c.peek "pointer()" i n; pure c) else .throw .malformedPacket

def run (c : Cursor) : List CursorOp → Out Cursor
  | [] => .ok c
  | op :: ops => c.step op >>= fun c' => run c' ops

end Cursor
end Tins
