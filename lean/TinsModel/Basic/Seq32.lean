/-
  32-bit sequence-number arithmetic as the C++ performs it (uint32_t wrap made explicit)
  and `Internals::seq_compare` (src/detail/sequence_number_helpers.cpp), statement for statement.
-/
namespace Tins

abbrev Bytes := List UInt8

/-- `uint32_t` wrap. -/
def wrap32 (x : Nat) : Nat := x % 4294967296

/-- `a - b` in `uint32_t` arithmetic for `a b < 2^32`. -/
def sub32 (a b : Nat) : Nat := (a + 4294967296 - b) % 4294967296

/-- `Internals::seq_compare(seq1, seq2)`; -1 / 0 / 1. -/
def seqCompare (a b : Nat) : Int :=
  if a = b then 0
  else if a < b then (if b - a < 2147483648 then -1 else 1)
  else (if a - b > 2147483648 then -1 else 1)

end Tins
