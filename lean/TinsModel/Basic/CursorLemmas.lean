import TinsModel.Basic.Cursor
/- Safety of `InputMemoryStream`: under `Inv` no operation faults, `Inv` is preserved, only
   `malformed_packet` is thrown — for every finite sequence of operations. -/
namespace Tins.Cursor

theorem ofBytes_inv (b : Bytes) : (ofBytes b).Inv := by simp [ofBytes, Inv]

theorem skip_spec (c : Cursor) (n : Nat) (h : c.Inv) :
    (∃ c', c.skip n = .ok c' ∧ c'.Inv ∧ c'.size = c.size - n ∧ n ≤ c.size) ∨ (c.skip n = .throw .malformedPacket ∧ c.size < n) := by
  unfold skip
  by_cases hn : n > c.size
  · right; simp [hn]
  · left
    refine ⟨⟨c.mem.drop n, c.size - n⟩, by simp [hn], ?_, rfl, by omega⟩
    simp only [Inv, List.length_drop] at *; omega

theorem read_spec (c : Cursor) (n : Nat) (h : c.Inv) :
    (∃ bs c', c.read n = .ok (bs, c') ∧ c'.Inv ∧ bs.length = n ∧ c'.size = c.size - n ∧ n ≤ c.size
        ∧ bs = c.mem.take n ∧ c'.mem = c.mem.drop n)
    ∨ (c.read n = .throw .malformedPacket ∧ c.size < n) := by
  unfold read canRead
  by_cases hn : n ≤ c.size
  · left
    have hm : ¬ c.mem.length < n := by simp only [Inv] at h; omega
    refine ⟨c.mem.take n, ⟨c.mem.drop n, c.size - n⟩, by simp [hn, hm], ?_, ?_, rfl, hn, rfl, rfl⟩
    · simp only [Inv, List.length_drop] at *; omega
    · simp only [Inv] at h; simp only [List.length_take]; omega
  · right; simp [hn]; omega

theorem peek_noFault (site : String) (c : Cursor) (i n : Nat) (h : c.Inv) (hg : i + n ≤ c.size) :
    ∃ bs, c.peek site i n = .ok bs ∧ bs.length = n := by
  unfold peek rdN
  have : i + n ≤ c.mem.length := by simp [Inv] at h; omega
  simp [this]; omega

theorem step_spec (c : Cursor) (op : CursorOp) (h : c.Inv) :
    (∃ c', c.step op = .ok c' ∧ c'.Inv ∧ c'.size ≤ c.size) ∨ c.step op = .throw .malformedPacket := by
  cases op with
  | read n =>
    rcases read_spec c n h with ⟨bs, c', he, hi, _, hs, _, _⟩ | ⟨he, _⟩
    · left; exact ⟨c', by simp [step, he], hi, by omega⟩
    · right; simp [step, he]
  | skip n =>
    rcases skip_spec c n h with ⟨c', he, hi, hs, _⟩ | ⟨he, _⟩
    · left; exact ⟨c', by simp [step, he], hi, by omega⟩
    · right; simp [step, he]
  | shrink m =>
    by_cases hm : m ≤ c.size
    · left; refine ⟨c.setSize m, by simp [step, hm], ?_, ?_⟩ <;> simp [setSize, Inv] at * <;> omega
    · right; simp [step, hm]
  | peek i n =>
    by_cases hg : i + n ≤ c.size
    · left
      rcases peek_noFault "pointer()" c i n h hg with ⟨bs, he, _⟩
      exact ⟨c, by simp [step, hg, he], h, by omega⟩
    · right; simp [step, hg]

/-- **cursor_safe**: from a stream over the caller's buffer, every finite sequence of stream operations
    (reads, skips, guarded shrinks, guarded raw peeks) ends in `ok` with the invariant intact or throws
    `malformed_packet` — it never touches a byte outside the buffer and throws nothing else. -/
theorem run_safe (ops : List CursorOp) (c : Cursor) (h : c.Inv) :
    (∃ c', c.run ops = .ok c' ∧ c'.Inv ∧ c'.size ≤ c.size) ∨ c.run ops = .throw .malformedPacket := by
  induction ops generalizing c with
  | nil => left; exact ⟨c, rfl, h, by omega⟩
  | cons op ops ih =>
    rcases step_spec c op h with ⟨c1, he, hi, hs⟩ | he
    · rcases ih c1 hi with ⟨c2, he2, hi2, hs2⟩ | he2
      · left; exact ⟨c2, by simp [run, he, he2], hi2, by omega⟩
      · right; simp [run, he, he2]
    · right; simp [run, he]

end Tins.Cursor
