import TinsModel.Basic.CodecLemmas
import TinsModel.Wire.L2.Theorems
import TinsModel.Wire.Ip.Theorems
import TinsModel.Wire.Ip6.Theorems
import TinsModel.Wire.Icmp.Theorems
import TinsModel.Wire.Transport.Theorems
import TinsModel.Wire.App.Theorems
import TinsModel.Wire.Wifi.Theorems
import TinsModel.Wire.Chain.Examples
import TinsModel.Wire.Chain.FixExamples
/-
  Property C03 — re-serializing a parsed packet preserves it.  Generic codec facts here; the per-class
  `*_reparse` theorems live in TinsModel/Wire/<Family>/Theorems.lean.
-/
namespace Tins.Props.C03
open Tins

/-- every big-endian field written with `write_be<T>` is read back by `read_be<T>` as the same value
    (mod the width), for every width and value -/
theorem be_field_roundtrip (n v : Nat) (h : v < 256 ^ n) : Cursor.beNat (OutCursor.beBytes n v) = v := by
  rw [beNat_beBytes, Nat.mod_eq_of_lt h]

theorem le_field_roundtrip (n v : Nat) (h : v < 256 ^ n) : Cursor.leNat (OutCursor.leBytes n v) = v := by
  rw [leNat_leBytes, Nat.mod_eq_of_lt h]

example : Cursor.beNat (OutCursor.beBytes 2 0xabcd) = 0xabcd := by decide

/-- **l2_whole_packet_c03** — C03 as stated, for whole packets of any depth made of the link-layer family (EthernetII, 802.3,
    LLC, SNAP, 802.1Q incl. QinQ, MPLS label stacks, PPPoE, SLL, Loopback) over an optional RawPDU: if libtins accepts `b`
    as such a stack, then serializing it succeeds, parsing the serialization succeeds and yields the same classes in the
    same order with the same views (derived lengths / tags above a recognised payload excluded, at most `padOf os` bytes of
    minimum-frame padding behind the payload), and — when the innermost payload is non-empty — serializing the re-parsed
    packet reproduces the bytes.  Proved by induction over the stack from the per-class `*_reparse` theorems and the
    generated next-protocol tables (`Wire/L2/ThChain*.lean`).  `whole_packet_c03` below lifts the per-class `*_reparse`
    theorems of ALL seven families (link layer, Ip, Ip6, Transport, Icmp, App, Wifi) through every dispatch the parsing
    constructors perform.  This theorem additionally has the second-serialization clause, which the all-family theorem does
    not state. -/
theorem l2_whole_packet_c03 (cls : String) (b : Bytes) (os : List Wire.AnyObj)
    (hparse : Wire.parseChain (b.length + 2) cls b = .ok os) (hall : ∀ o ∈ os, Wire.L2.L2Ser o) :
    ∃ out, Wire.serializeObjs os = .ok out ∧
      ∃ os', Wire.parseChain (out.length + 2) cls out = .ok os' ∧ Wire.L2.ViewEq (Wire.L2.padOf os) os os' ∧
        ((Wire.L2.splitRaw os).2 ≠ [] → Wire.serializeObjs os' = .ok out) :=
  Wire.L2.l2_c03 cls b os hparse hall

/-- **whole_packet_c03** — C03 as stated, for whole packets of any depth that mix ALL modelled families: the link-layer family
    (EthernetII, 802.3, LLC, SNAP, 802.1Q, MPLS, PPPoE, SLL, Loopback), IP (+options), IPSecAH, IPSecESP, IPv6 (+extension
    headers), UDP, TCP (+options), ICMP, ICMPv6, the App family (ARP below EthernetII / Dot1Q / SNAP / SLL, STP below LLC,
    VXLAN in front of EthernetII, and the entry classes RTP, BootP, DHCP, DHCPv6), the Wifi family (RadioTap with its FCS
    trailer in front of the class `Dot11::from_bytes` selects, the 21 Dot11 classes — management / control frames ending the
    stack, Dot11Data / Dot11QoSData in front of SNAP or a protected RawPDU —, RC4EAPOL / RSNEAPOL below EtherType 0x888e
    through `EAPOL::from_bytes`) and a final RawPDU; entry points are the class names and the factories `Dot11*`, `EAPOL`,
    `EAPOL*`.  If libtins accepts `b` (a length a `uint32_t` can hold) as the stack `os`, and `os` is none of the explicitly
    excluded packets (`ResidualAll`: PPI / PKTAP; an IP / IPv6 datagram or an EAPOL frame too long for its 16-bit length
    field; ICMP / ICMPv6 with an RFC 4884 extension structure or a quote that is not ghost-free — known findings
    KF-C03-Icmp-3/4; a top-level IP with source 0.0.0.0, whose serialization reads the host's routing table), then
    serializing it succeeds, parsing the serialization **with the same entry point** succeeds and yields the same classes in
    the same order with the same views (derived lengths / checksums / FCS / tags above a recognised payload excluded) and the
    same payload, followed by at most `padAll os` zero bytes of minimum-frame padding (EthernetII / ARP: the padding becomes
    ARP's RawPDU; through IP / IPv6 / EAPOL: none).  IP fragments (payload kept as a RawPDU) are covered.  Nothing of the App
    family is excluded (a parser never produces the DHCP options of KF-WApp-6).  Proved by induction over the stack from the
    per-class `*_reparse` theorems (RadioTap: `radiotap_reparse`, proved here), the generated next-protocol tables, and the
    per-class `*_parse_linkA` / `*_parse_facts` lemmas (`Wire/Chain/*.lean`).  The second clause of the property (the
    second-serialization fixed point) is `whole_packet_c03_fixpoint` below, over the same seven families. -/
theorem whole_packet_c03 (cls : String) (b : Bytes) (os : List Wire.AnyObj) (hb : b.length < 4294967296)
    (hparse : Wire.parseChain (b.length + 2) cls b = .ok os) (hres : Wire.ChainAll.ResidualAll os)
    (henv : ∀ o t, os = .ip o :: t → Wire.Ip.envDependentTop o = false) :
    ∃ out, Wire.serializeObjs os = .ok out ∧
      ∃ os', Wire.parseChain (out.length + 2) cls out = .ok os' ∧ Wire.ChainAll.ViewEqAll (Wire.ChainAll.padAll os) os os' :=
  Wire.ChainAll.c03_all cls b os hb hparse hres henv

/-- **whole_packet_c03_fixpoint** — the second clause of C03 ("serializing that second packet reproduces the first
    serialization byte for byte whenever the innermost payload is non-empty"), for whole packets of any depth that mix ALL
    seven families — the coverage of `whole_packet_c03`: link layer (EthernetII, 802.3, LLC, SNAP, 802.1Q, MPLS, PPPoE, SLL,
    Loopback), IP (+options), IPSecAH, IPSecESP, IPv6 (+extension headers), UDP, TCP (+options), ICMP, ICMPv6, ARP, STP,
    VXLAN, RTP, BootP, DHCP, DHCPv6, RadioTap, the 21 Dot11 classes, RC4EAPOL / RSNEAPOL, over a final RawPDU; every entry
    point incl. the factories `Dot11*`, `EAPOL`, `EAPOL*`; the same hypotheses (`ResidualAll`: no PPI / PKTAP, lengths that fit
    their 16-bit fields, no ICMP / ICMPv6 extension structure or ghost quote — KF-C03-Icmp-3/4 —, no top-level IP with source
    0.0.0.0).  If libtins accepts `b` as the stack `os` with a non-empty innermost payload, then with `y = serialize(os)`:
    `E(y)` succeeds and `serialize(E(y)) = y`.  Derived fields are recomputed from the same inputs: lengths (IP total length,
    IPv6 payload length, UDP length, TCP data offset, Dot3 / PPPoE / EAPOL / RadioTap lengths, AH length, RFC 4884 length
    octets, MLDv2 record count), next-protocol tags (the stored tag of a re-parsed object is the one the first serialization
    derived), checksums over header / pseudo header of the re-parsed parent / payload, IP / TCP option and IPv6 extension header
    padding, the RadioTap FCS (CRC-32 of the same inner frame).  Minimum-frame padding: what reached the payload in the first
    round trip is payload in the second (EthernetII / ARP); what an IP / IPv6 / PPPoE / EAPOL length cut off is re-created.
    Proved by induction over the stack, inner chain first (`Wire/Chain/Fix*.lean`: `fix_all` is the one-layer step over every
    class, `chain_fix_aux_all` the induction).  Nothing is excluded for parsed packets beyond `ResidualAll`: the one object
    state that is not on the wire — `Dot1Q::append_padding_`, KF-C04-L2-4 — is never set by a parsing constructor
    (`parse_noApp_all`); for API-built stacks see `built_packet_c03_fixpoint`. -/
theorem whole_packet_c03_fixpoint (cls : String) (b : Bytes) (os : List Wire.AnyObj) (hb : b.length < 4294967296)
    (hparse : Wire.parseChain (b.length + 2) cls b = .ok os) (hres : Wire.ChainAll.ResidualAll os)
    (henv : ∀ o t, os = .ip o :: t → Wire.Ip.envDependentTop o = false)
    (hpay : (Wire.L2.splitRaw os).2 ≠ []) :
    ∃ y, Wire.serializeObjs os = .ok y ∧
      ∃ q, Wire.parseChain (y.length + 2) cls y = .ok q ∧ Wire.serializeObjs q = .ok y :=
  Wire.ChainAll.c03_fixpoint_all cls b os hb hparse hres henv hpay

/-- **whole_packet_c03_full** — both clauses of C03 in one statement, over all seven families: the re-parse `q` of
    `y = serialize(p)` has the same classes and views as `p` (payload followed by at most `padAll p` zero bytes), and — payload
    non-empty — `serialize(q) = y`. -/
theorem whole_packet_c03_full (cls : String) (b : Bytes) (os : List Wire.AnyObj) (hb : b.length < 4294967296)
    (hparse : Wire.parseChain (b.length + 2) cls b = .ok os) (hres : Wire.ChainAll.ResidualAll os)
    (henv : ∀ o t, os = .ip o :: t → Wire.Ip.envDependentTop o = false) :
    ∃ y, Wire.serializeObjs os = .ok y ∧
      ∃ q, Wire.parseChain (y.length + 2) cls y = .ok q ∧ Wire.ChainAll.ViewEqAll (Wire.ChainAll.padAll os) os q ∧
        ((Wire.L2.splitRaw os).2 ≠ [] → Wire.serializeObjs q = .ok y) :=
  Wire.ChainAll.c03_all_with_fixpoint cls b os hb hparse hres henv

/-- **built_packet_c03_fixpoint** — the fixed point for stacks that did not come out of a parser (API-built, representable:
    `StackableAll`), under any entry name of the outermost class.  The full statement over *every* representable stack is
    `Wire.ChainAll.chain_reserialize_fixpoint_all`; it is refuted (`c03_fixpoint_all_stacks_fails`) on the witness
    `Dot1Q(5, append_pad = true) / PPPoE session / RawPDU`: `Dot1Q::append_padding_` is object state that is not on the wire
    (known finding KF-C04-L2-4, replayed on the real classes).  The excluded region is explicit and decidable — `PadKeptAll`
    is its complement: wherever a Dot1Q pads on behalf of `append_padding_`, no layer between it and the payload cuts the
    padding off (`passes`: no PPPoE / IP / IPv6 / EAPOL-by-factory / RadioTap / RTP / STP length or leaf below it) — and this
    theorem is the proved part: everything outside it. -/
theorem built_packet_c03_fixpoint (n : String) (o : Wire.AnyObj) (os : List Wire.AnyObj) (hn : Wire.ChainAll.EntryName n o)
    (hs : Wire.ChainAll.StackableAll (o :: os)) (hk : Wire.ChainAll.PadKeptAll (o :: os))
    (hpay : (Wire.L2.splitRaw (o :: os)).2 ≠ []) (y : Bytes) (hser : Wire.serializeObjs (o :: os) = .ok y) :
    ∃ q, Wire.parseChain (y.length + 2) n y = .ok q ∧ Wire.serializeObjs q = .ok y :=
  Wire.ChainAll.chain_fixpoint_named n o os hn hs hk hpay y hser

/-- the full statement over every representable stack does not hold (KF-C04-L2-4) -/
theorem c03_fixpoint_all_stacks_fails : ¬ Wire.ChainAll.chain_reserialize_fixpoint_all :=
  Wire.ChainAll.chain_reserialize_fixpoint_all_fails

/-- **whole_packet_c03_net** — … and when the stack goes through IP or IPv6 the payload comes back byte for byte: the
    minimum-frame padding EthernetII / Dot1Q append is cut off again by the IP total length / IPv6 payload length
    (`padAll os = 0`; the comparison is an equality, no extra zeros). -/
theorem whole_packet_c03_net (cls : String) (b : Bytes) (os : List Wire.AnyObj) (hb : b.length < 4294967296)
    (hparse : Wire.parseChain (b.length + 2) cls b = .ok os) (hres : Wire.ChainAll.ResidualAll os)
    (henv : ∀ o t, os = .ip o :: t → Wire.Ip.envDependentTop o = false)
    (hnet : ∃ x ∈ os, Wire.ChainAll.isNet x = true) :
    ∃ out, Wire.serializeObjs os = .ok out ∧
      ∃ os', Wire.parseChain (out.length + 2) cls out = .ok os' ∧ Wire.ChainAll.ViewEqAll 0 os os' ∧
        (Wire.L2.splitRaw os').2 = (Wire.L2.splitRaw os).2 :=
  Wire.ChainAll.c03_all_net cls b os hb hparse hres henv hnet

/-- **parsed_packet_representable** — the premise is not an assumption: every accepted packet outside `ResidualAll` is
    representable (`StackableAll`): the parsing constructors establish every layer's invariant, its wire-normal options /
    aligned extension headers / canonical TCP, DHCP, DHCPv6 and Dot11 tagged options, the RTP / BootP / RadioTap / EAPOL side
    conditions, and the link of every layer to its successor — for the classes of all seven families. -/
theorem parsed_packet_representable (cls : String) (b : Bytes) (os : List Wire.AnyObj) (hb : b.length < 4294967296)
    (hparse : Wire.parseChain (b.length + 2) cls b = .ok os) (hres : Wire.ChainAll.ResidualAll os) :
    Wire.ChainAll.StackableAll os :=
  (Wire.ChainAll.parse_stackable_all _ cls b os hb hparse hres).1

/-- the padding bound of `whole_packet_c03` never exceeds the one of the link-layer theorem -/
theorem whole_packet_pad_le (os : List Wire.AnyObj) : Wire.ChainAll.padAll os ≤ Wire.L2.padOf os :=
  Wire.ChainAll.padAll_le_padOf os

end Tins.Props.C03
