import TinsModel.Basic.CodecLemmas
import TinsModel.Wire.L2.Theorems
import TinsModel.Wire.Ip.Theorems
import TinsModel.Wire.Ip6.Theorems
import TinsModel.Wire.Icmp.Theorems
import TinsModel.Wire.Transport.Theorems
import TinsModel.Wire.App.Theorems
import TinsModel.Wire.Wifi.Theorems
/-
  Property C03 — re-serializing a parsed packet preserves it.  Generic codec facts here; the per-class
  `*_reparse` theorems live in TinsModel/Wire/<Family>/Theorems.lean.
-/
namespace Tins.Props.C03
open Tins

/-- every big-endian field written with `write_be<T>` is read back by `read_be<T>` as the same value
    (mod the width), for every width and value -/
theorem be_field_roundtrip (n v : Nat) (h : v < 256 ^ n) : Cursor.beNat (OutCursor.beBytes n v) = v := by
  rw [beNat_beBytes, Nat.mod_eq_of_lt h]

theorem le_field_roundtrip (n v : Nat) (h : v < 256 ^ n) : Cursor.leNat (OutCursor.leBytes n v) = v := by
  rw [leNat_leBytes, Nat.mod_eq_of_lt h]

example : Cursor.beNat (OutCursor.beBytes 2 0xabcd) = 0xabcd := by decide

end Tins.Props.C03
