import TinsModel.Basic.CodecLemmas
import TinsModel.Wire.L2.Theorems
import TinsModel.Wire.Ip.Theorems
import TinsModel.Wire.Ip6.Theorems
import TinsModel.Wire.Icmp.Theorems
import TinsModel.Wire.Transport.Theorems
import TinsModel.Wire.App.Theorems
import TinsModel.Wire.Wifi.Theorems
import TinsModel.Wire.Chain.Examples
/-
  Property C03 — re-serializing a parsed packet preserves it.  Generic codec facts here; the per-class
  `*_reparse` theorems live in TinsModel/Wire/<Family>/Theorems.lean.
-/
namespace Tins.Props.C03
open Tins

/-- every big-endian field written with `write_be<T>` is read back by `read_be<T>` as the same value
    (mod the width), for every width and value -/
theorem be_field_roundtrip (n v : Nat) (h : v < 256 ^ n) : Cursor.beNat (OutCursor.beBytes n v) = v := by
  rw [beNat_beBytes, Nat.mod_eq_of_lt h]

theorem le_field_roundtrip (n v : Nat) (h : v < 256 ^ n) : Cursor.leNat (OutCursor.leBytes n v) = v := by
  rw [leNat_leBytes, Nat.mod_eq_of_lt h]

example : Cursor.beNat (OutCursor.beBytes 2 0xabcd) = 0xabcd := by decide

/-- **l2_whole_packet_c03** — C03 as stated, for whole packets of any depth made of the link-layer family (EthernetII, 802.3,
    LLC, SNAP, 802.1Q incl. QinQ, MPLS label stacks, PPPoE, SLL, Loopback) over an optional RawPDU: if libtins accepts `b`
    as such a stack, then serializing it succeeds, parsing the serialization succeeds and yields the same classes in the
    same order with the same views (derived lengths / tags above a recognised payload excluded, at most `padOf os` bytes of
    minimum-frame padding behind the payload), and — when the innermost payload is non-empty — serializing the re-parsed
    packet reproduces the bytes.  Proved by induction over the stack from the per-class `*_reparse` theorems and the
    generated next-protocol tables (`Wire/L2/ThChain*.lean`).  The other families have the per-class halves
    (`ip4_reparse`, `ipv6_reparse`, `tcp_reparse`, `udp_reparse`, `icmp_reparse_*`, `icmp6_reparse_*`, `ah_reparse`,
    `esp_reparse`, the App and Wifi `*_reparse` theorems); `whole_packet_c03` below lifts them through the IP / IPv6
    dispatch for the Ip, Ip6, Transport and Icmp families (App and Wifi: correspondence + oracle so far).  This theorem
    additionally has the second-serialization clause, which the all-family theorem does not state. -/
theorem l2_whole_packet_c03 (cls : String) (b : Bytes) (os : List Wire.AnyObj)
    (hparse : Wire.parseChain (b.length + 2) cls b = .ok os) (hall : ∀ o ∈ os, Wire.L2.L2Ser o) :
    ∃ out, Wire.serializeObjs os = .ok out ∧
      ∃ os', Wire.parseChain (out.length + 2) cls out = .ok os' ∧ Wire.L2.ViewEq (Wire.L2.padOf os) os os' ∧
        ((Wire.L2.splitRaw os).2 ≠ [] → Wire.serializeObjs os' = .ok out) :=
  Wire.L2.l2_c03 cls b os hparse hall

/-- **whole_packet_c03** — C03 as stated, for whole packets of any depth that mix the link-layer family (EthernetII, 802.3,
    LLC, SNAP, 802.1Q, MPLS, PPPoE, SLL, Loopback), IP (+options), IPSecAH, IPSecESP, IPv6 (+extension headers), UDP, TCP
    (+options), ICMP, ICMPv6 and a final RawPDU: if libtins accepts `b` (a length a `uint32_t` can hold) as the stack `os`,
    and `os` is none of the explicitly excluded packets (`ResidualAll`: a class outside these families or PPI / PKTAP; an
    IP / IPv6 datagram too long for its 16-bit length field; ICMP / ICMPv6 with an RFC 4884 extension structure or a quote
    that is not ghost-free — known findings KF-C03-Icmp-3/4; a top-level IP with source 0.0.0.0, whose serialization reads
    the host's routing table), then serializing it succeeds, parsing the serialization succeeds and yields the same classes
    in the same order with the same views (derived lengths / checksums / tags above a recognised payload excluded) and the
    same payload, followed by at most `padAll os` zero bytes of minimum-frame padding.  IP fragments (payload kept as a
    RawPDU) are covered.  Proved by induction over the stack from the per-class `*_reparse` theorems, the generated
    next-protocol tables, and the per-class `*_parse_linkA` lemmas (`Wire/Chain/*.lean`). -/
theorem whole_packet_c03 (cls : String) (b : Bytes) (os : List Wire.AnyObj) (hb : b.length < 4294967296)
    (hparse : Wire.parseChain (b.length + 2) cls b = .ok os) (hres : Wire.ChainAll.ResidualAll os)
    (henv : ∀ o t, os = .ip o :: t → Wire.Ip.envDependentTop o = false) :
    ∃ out, Wire.serializeObjs os = .ok out ∧
      ∃ os', Wire.parseChain (out.length + 2) cls out = .ok os' ∧ Wire.ChainAll.ViewEqAll (Wire.ChainAll.padAll os) os os' :=
  Wire.ChainAll.c03_all cls b os hb hparse hres henv

/-- **whole_packet_c03_net** — … and when the stack goes through IP or IPv6 the payload comes back byte for byte: the
    minimum-frame padding EthernetII / Dot1Q append is cut off again by the IP total length / IPv6 payload length
    (`padAll os = 0`; the comparison is an equality, no extra zeros). -/
theorem whole_packet_c03_net (cls : String) (b : Bytes) (os : List Wire.AnyObj) (hb : b.length < 4294967296)
    (hparse : Wire.parseChain (b.length + 2) cls b = .ok os) (hres : Wire.ChainAll.ResidualAll os)
    (henv : ∀ o t, os = .ip o :: t → Wire.Ip.envDependentTop o = false)
    (hnet : ∃ x ∈ os, Wire.ChainAll.isNet x = true) :
    ∃ out, Wire.serializeObjs os = .ok out ∧
      ∃ os', Wire.parseChain (out.length + 2) cls out = .ok os' ∧ Wire.ChainAll.ViewEqAll 0 os os' ∧
        (Wire.L2.splitRaw os').2 = (Wire.L2.splitRaw os).2 :=
  Wire.ChainAll.c03_all_net cls b os hb hparse hres henv hnet

/-- **parsed_packet_representable** — the premise is not an assumption: every accepted packet outside `ResidualAll` is
    representable (`StackableAll`): the parsing constructors establish every layer's invariant, its wire-normal options /
    aligned extension headers / canonical TCP options, and the link of every layer to its successor. -/
theorem parsed_packet_representable (cls : String) (b : Bytes) (os : List Wire.AnyObj) (hb : b.length < 4294967296)
    (hparse : Wire.parseChain (b.length + 2) cls b = .ok os) (hres : Wire.ChainAll.ResidualAll os) :
    Wire.ChainAll.StackableAll os :=
  (Wire.ChainAll.parse_stackable_all _ cls b os hb hparse hres).1

/-- the padding bound of `whole_packet_c03` never exceeds the one of the link-layer theorem -/
theorem whole_packet_pad_le (os : List Wire.AnyObj) : Wire.ChainAll.padAll os ≤ Wire.L2.padOf os :=
  Wire.ChainAll.padAll_le_padOf os

end Tins.Props.C03
