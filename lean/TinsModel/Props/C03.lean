import TinsModel.Basic.CodecLemmas
import TinsModel.Wire.L2.Theorems
import TinsModel.Wire.Ip.Theorems
import TinsModel.Wire.Ip6.Theorems
import TinsModel.Wire.Icmp.Theorems
import TinsModel.Wire.Transport.Theorems
import TinsModel.Wire.App.Theorems
import TinsModel.Wire.Wifi.Theorems
/-
  Property C03 — re-serializing a parsed packet preserves it.  Generic codec facts here; the per-class
  `*_reparse` theorems live in TinsModel/Wire/<Family>/Theorems.lean.
-/
namespace Tins.Props.C03
open Tins

/-- every big-endian field written with `write_be<T>` is read back by `read_be<T>` as the same value
    (mod the width), for every width and value -/
theorem be_field_roundtrip (n v : Nat) (h : v < 256 ^ n) : Cursor.beNat (OutCursor.beBytes n v) = v := by
  rw [beNat_beBytes, Nat.mod_eq_of_lt h]

theorem le_field_roundtrip (n v : Nat) (h : v < 256 ^ n) : Cursor.leNat (OutCursor.leBytes n v) = v := by
  rw [leNat_leBytes, Nat.mod_eq_of_lt h]

example : Cursor.beNat (OutCursor.beBytes 2 0xabcd) = 0xabcd := by decide

/-- **l2_whole_packet_c03** — C03 as stated, for whole packets of any depth made of the link-layer family (EthernetII, 802.3,
    LLC, SNAP, 802.1Q incl. QinQ, MPLS label stacks, PPPoE, SLL, Loopback) over an optional RawPDU: if libtins accepts `b`
    as such a stack, then serializing it succeeds, parsing the serialization succeeds and yields the same classes in the
    same order with the same views (derived lengths / tags above a recognised payload excluded, at most `padOf os` bytes of
    minimum-frame padding behind the payload), and — when the innermost payload is non-empty — serializing the re-parsed
    packet reproduces the bytes.  Proved by induction over the stack from the per-class `*_reparse` theorems and the
    generated next-protocol tables (`Wire/L2/ThChain*.lean`).  The other families have the per-class halves
    (`ip4_reparse`, `ipv6_reparse`, `tcp_reparse`, `udp_reparse`, `icmp_reparse_*`, `icmp6_reparse_*`, `ah_reparse`,
    `esp_reparse`, the App and Wifi `*_reparse` theorems); lifting them through the IP / IPv6 dispatch is correspondence +
    oracle so far. -/
theorem l2_whole_packet_c03 (cls : String) (b : Bytes) (os : List Wire.AnyObj)
    (hparse : Wire.parseChain (b.length + 2) cls b = .ok os) (hall : ∀ o ∈ os, Wire.L2.L2Ser o) :
    ∃ out, Wire.serializeObjs os = .ok out ∧
      ∃ os', Wire.parseChain (out.length + 2) cls out = .ok os' ∧ Wire.L2.ViewEq (Wire.L2.padOf os) os os' ∧
        ((Wire.L2.splitRaw os).2 ≠ [] → Wire.serializeObjs os' = .ok out) :=
  Wire.L2.l2_c03 cls b os hparse hall

end Tins.Props.C03
