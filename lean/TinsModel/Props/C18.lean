import TinsModel.Threads.Lemmas
import TinsModel.Threads.Policy
import TinsModel.Threads.CrcLemmas
/- Property C18 — independent objects can be used from different threads.

   Part A: theorems about the abstract shared-memory machine, for ALL thread programs, ALL initial configurations
           and ALL interleavings (induction on the schedule).
   Part B: the tables regenerated from the libtins source satisfy the hypotheses of Part A (finite tables, decided
           as a whole) and the two parts are put together for the libtins instance of the machine.
   The link "the C++ code respects the footprints the table describes" is not a Lean theorem: it is the syntactic
   scan of the translator plus the ThreadSanitizer runs of the correspondence harness (see checks/C18.py). -/
namespace Tins.Props.C18
open Tins.Threads Tins.Gen

/-! ## Part A — the machine -/

variable {Loc σ : Type} [DecidableEq Loc]

/-- **interleaving_independent.**  If every thread stays inside its declared footprint and no thread writes what
    another thread reads or writes, then after ANY interleaving every thread observes (local state = its results,
    and memory inside its footprint) exactly what it observes after running alone for the same number of steps. -/
theorem interleaving_independent (T : Nat → Thread Loc σ) (R W : Nat → Loc → Prop)
    (hR : Respects T R W) (hD : DisjointFootprints R W) : Independent T R W :=
  fun c sched i => run_projects hR hD sched i c c (sameView_refl i c)

/-- **interleaving_independent_on_path.**  The same conclusion when the footprints are only known to be respected
    in the configurations the interleaving actually passes through (footprints that depend on the state reached,
    e.g. which object a pointer designates) — nothing is assumed about unreachable local states. -/
theorem interleaving_independent_on_path (T : Nat → Thread Loc σ) (R W : Nat → Loc → Prop)
    (hD : DisjointFootprints R W) (c : Cfg Loc σ) (sched : List Nat)
    (hR : ∀ p, p <+: sched → RespectsAt T R W (run T c p)) (i : Nat) :
    SameView R W i (run T c sched) (runAlone T c i (sched.count i)) :=
  run_projects_at hD sched i c c (sameView_refl i c) hR

/-- **race_free.**  Under the same hypotheses no reachable configuration has two different threads with conflicting
    enabled actions (nothing for a happens-before race detector to report). -/
theorem race_free (T : Nat → Thread Loc σ) (R W : Nat → Loc → Prop)
    (hR : Respects T R W) (hD : DisjointFootprints R W) : RaceFree T :=
  fun c sched _ _ hij => conflictAt_false hR hD (run T c sched) hij

/-- **schedule_irrelevant.**  Two interleavings in which thread `i` takes the same number of steps are
    indistinguishable for thread `i`. -/
theorem schedule_irrelevant (T : Nat → Thread Loc σ) (R W : Nat → Loc → Prop)
    (hR : Respects T R W) (hD : DisjointFootprints R W) (c : Cfg Loc σ) (s₁ s₂ : List Nat) (i : Nat)
    (h : s₁.count i = s₂.count i) : SameView R W i (run T c s₁) (run T c s₂) := by
  have h1 := interleaving_independent T R W hR hD c s₁ i
  have h2 := interleaving_independent T R W hR hD c s₂ i
  rw [h] at h1
  exact sameView_trans h1 (sameView_symm h2)

/-- **concurrent_eq_sequential.**  What the harness compares: any interleaving of `k` threads in which thread `i`
    takes `n i` steps gives every thread the view it has in the sequential run "thread 0 to the end, then thread 1, …". -/
theorem concurrent_eq_sequential (T : Nat → Thread Loc σ) (R W : Nat → Loc → Prop)
    (hR : Respects T R W) (hD : DisjointFootprints R W) (c : Cfg Loc σ) (sched : List Nat) (n : Nat → Nat) (k : Nat)
    (hcount : ∀ i, i < k → sched.count i = n i) (i : Nat) (hi : i < k) :
    SameView R W i (run T c sched) (run T c (seqSchedule n k)) := by
  apply schedule_irrelevant T R W hR hD
  rw [hcount i hi, count_seqSchedule]
  simp [hi]

/-! Non-vacuity of Part A and necessity of its hypothesis: two threads that each add a shared *constant* to a
    private accumulator satisfy the hypotheses; the same two threads going through a shared *scratch* cell do not,
    and their results then depend on the interleaving. -/

/-- local state: program counter and the result the thread hands back -/
abbrev Demo := Nat × Nat

/-- thread i: (pc 0) load the shared table cell 100 and its private cell i, store the sum to the private cell;
    (pc 1) load the private cell into the result; then stop -/
def constReader (i : Nat) : Thread Nat Demo where
  next s := match s.1 with
    | 0 => some { rd := [100, i], wr := [i], k := fun vs => ((1, s.2), [vs.sum]) }
    | 1 => some { rd := [i], wr := [], k := fun vs => ((2, vs.sum), []) }
    | _ => none

def demoR (i : Nat) (l : Nat) : Prop := l = 100 ∨ l = i
def demoW (i : Nat) (l : Nat) : Prop := l = i ∧ l ≠ 100

/-- the hypotheses of `interleaving_independent` are satisfiable by a non-trivial system (threads ≠ 100) -/
example : Respects (fun i => if i = 100 then ⟨fun _ => none⟩ else constReader i) demoR demoW
    ∧ DisjointFootprints demoR demoW := by
  constructor
  · intro i s a h
    by_cases hi : i = 100
    · simp [hi] at h
    · simp only [hi, if_false, constReader] at h
      split at h
      · cases h; simp [demoR, demoW, hi]
      · cases h; simp [demoR]
      · cases h
  · intro i j hij l hw
    simp only [demoR, demoW] at *
    omega

/-- thread i with a hidden shared scratch cell 200 (a `static` buffer): (pc 0) store the argument to the scratch
    cell; (pc 1) load the scratch cell into the result -/
def scratchUser (arg : Nat) : Thread Nat Demo where
  next s := match s.1 with
    | 0 => some { rd := [], wr := [200], k := fun _ => ((1, s.2), [arg]) }
    | 1 => some { rd := [200], wr := [], k := fun vs => ((2, vs.sum), []) }
    | _ => none

def scratchSys (i : Nat) : Thread Nat Demo := scratchUser (i + 7)

def demoInit : Cfg Nat Demo := { loc := fun _ => (0, 0), mem := fun _ => 0 }

/-- **shared_scratch_breaks_independence.**  With a shared scratch cell the result of thread 0 depends on the
    interleaving: alone it gets 7, with thread 1 stepping in between it gets 8.  (The disjointness hypothesis of
    `interleaving_independent` is necessary, and a hidden static buffer is exactly what violates it.) -/
theorem shared_scratch_breaks_independence :
    ((run scratchSys demoInit [0, 0]).loc 0).2 = 7 ∧ ((run scratchSys demoInit [0, 1, 0]).loc 0).2 = 8
    ∧ conflictAt scratchSys (run scratchSys demoInit [0]) 0 1 = true := by
  decide

/-! ## Part B — the generated tables -/

set_option maxRecDepth 20000

/-- **scan_complete.**  The translator accounted for every static-storage symbol of the compiled library and parsed
    every translation unit. -/
theorem scan_complete : StaticVars.unparsed = [] := by decide

/-- **no_shared_mutable.**  Every variable with static storage duration in libtins is const, thread-local,
    verification-hook-only, never written, or written only by the explicit user-triggered registration functions. -/
theorem no_shared_mutable : ∀ v ∈ StaticVars.all, sharedMutable v = false := by decide

/-- **hook_statics_synchronised.**  The statics added by the verification hooks are atomics or never written by
    library code, so the instrumented build the harness runs has the same race behaviour as the shipped one. -/
theorem hook_statics_synchronised : ∀ v ∈ StaticVars.all, hookSynchronised v = true := by decide

/-- **extern_calls_mt_safe.**  Every C-linkage function called from a translation unit on the property paths is in
    the MT-safe list. -/
theorem extern_calls_mt_safe : ∀ e ∈ ExternCalls.perFile, externOK e = true := by decide

/-- the table is not trivially empty and really contains the interesting rows: a non-const static that is only read
    (`crc_table`) and registries that are written only by `register_allocator` -/
example : (StaticVars.all.filter (fun v => !v.isConst && !v.hookOnly)).map (·.name) =
    ["Tins::Internals::PDUAllocator::allocators", "Tins::Internals::PDUAllocator::pdu_types",
     "Tins::Utils::crc32::crc_table"] := by decide

example : (StaticVars.all.find? (fun v => v.name = "Tins::Utils::crc32::crc_table")).map
      (fun v => (v.isConst, v.writeSites, v.constInit, decide (0 < v.readSites))) = some (false, [], true, true) := by
  decide

/-- what a hidden static scratch buffer on a parse path would look like in the table -/
def scratchRow : StaticVars.StaticVar :=
  { name := "Tins::DNS::convert_records::scratch", file := "src/dns.cpp", type := "char[256]",
    isConst := false, threadLocal := false, funcLocal := true, constInit := true, hookOnly := false, atomic := false,
    sections := "b", writeSites := ["Tins::DNS::convert_records"], readSites := 1 }

/-- a static scratch buffer would be flagged: the policy is not vacuous -/
example : sharedMutable scratchRow = true := by decide

/-- **libtins_footprints_disjoint.**  For ANY table without shared mutable rows, the footprints "own cells + all
    statics for reading, own cells + writable statics for writing" are disjoint between threads. -/
theorem libtins_footprints_disjoint (tbl : List StaticVars.StaticVar) (h : ∀ v ∈ tbl, sharedMutable v = false) :
    DisjointFootprints libR (libW (tableWritable tbl)) := by
  intro i j hij l hw
  cases l with
  | priv o k =>
    simp only [libW, libR] at *
    omega
  | «static» v =>
    exfalso
    simp only [libW, tableWritable] at hw
    cases hv : tbl[v]? with
    | none => simp [hv] at hw
    | some sv =>
      simp only [hv] at hw
      have := h sv (List.mem_of_getElem? hv)
      simp [this] at hw

/-- **libtins_threads_independent.**  Main statement for libtins: any system of threads over private cells and the
    statics of the generated table, in which every thread touches only its own cells and the statics, and writes
    a static only if the table allows it, is independent of the interleaving and race-free. -/
theorem libtins_threads_independent {σ : Type} (T : Nat → Thread Cell σ)
    (hT : Respects T libR (libW (tableWritable StaticVars.all))) :
    Independent T libR (libW (tableWritable StaticVars.all)) ∧ RaceFree T :=
  have hD := libtins_footprints_disjoint StaticVars.all no_shared_mutable
  ⟨interleaving_independent T _ _ hT hD, race_free T _ _ hT hD⟩

/-- non-vacuity of `libtins_threads_independent`: a thread that reads static 0 and accumulates into its own cell
    respects the libtins footprints, whatever the table says is writable -/
example (wr : Nat → Bool) :
    Respects (fun i : Nat => (⟨fun (s : Nat) => if s = 0 then
        some { rd := [Cell.static 0, Cell.priv i 0], wr := [Cell.priv i 0], k := fun vs => (1, [vs.sum]) } else none⟩ : Thread Cell Nat))
      libR (libW wr) := by
  intro i s a h
  simp only at h
  split at h
  · cases h; simp [libR, libW]
  · cases h

/-! ### the one non-const static that is read on the property paths holds the right values -/

/-- four bit-steps of the reflected CRC-32 polynomial on a nibble -/
def nibbleStd (i : UInt32) : UInt32 :=
  crcBitStep (crcBitStep (crcBitStep (crcBitStep i)))

/-- **crc_table_is_ieee.**  `crc_table[i]` is the standard CRC-32 nibble table entry for `i xor 15`, xor
    0xF0000000 — the form in which the complemented register (initial value 0, no final xor) computes IEEE CRC-32. -/
theorem crc_table_is_ieee :
    crcTable = (List.range 16).map (fun i => nibbleStd (15 - i).toUInt32 ^^^ 0xF0000000) := by decide

/-- **crc32_reads_table_correctly.**  The code-shaped `Utils::crc32` — the only function on the property paths that
    reads a non-const static — returns the IEEE 802.3 CRC-32 of its input for EVERY input, given the table values
    the translator extracted; so every thread that only reads `crc_table` gets the specified result. -/
theorem crc32_reads_table_correctly (data : List UInt8) : crc32 data = crc32Spec data :=
  crc32_eq_spec data

/-- non-vacuity: the standard check value of CRC-32 -/
example : crc32 [0x31, 0x32, 0x33, 0x34, 0x35, 0x36, 0x37, 0x38, 0x39] = 0xCBF43926 := by decide

/-! ## Part C — what a dynamic detector can and cannot see (why the tie starts every concurrent run cold, and why
    registering allocators before the threads start is inside the statement) -/

/-- **registration_before_threads.**  A set-up phase on the registering thread before the threads exist — whatever it
    stores, e.g. `Allocators::register_allocator` writing the registry cells — only changes the initial configuration:
    afterwards every thread still sees what it sees running alone from that configuration, and no reachable
    configuration has a conflict.  (The statement excludes registering WHILE the threads run: that would be a thread
    whose footprint is not inside `libW`.) -/
theorem registration_before_threads {σ : Type} (T : Nat → Thread Cell σ)
    (hT : Respects T libR (libW (tableWritable StaticVars.all)))
    (c : Cfg Cell σ) (setup : Mem Cell → Mem Cell) (sched : List Nat) (i : Nat) :
    SameView libR (libW (tableWritable StaticVars.all)) i
        (run T { c with mem := setup c.mem } sched) (runAlone T { c with mem := setup c.mem } i (sched.count i))
      ∧ ∀ j, i ≠ j → conflictAt T (run T { c with mem := setup c.mem } sched) i j = false :=
  ⟨(libtins_threads_independent T hT).1 _ sched i, fun j h => (libtins_threads_independent T hT).2 _ sched i j h⟩

/-- non-vacuity: the set-up may write a static cell (a registry), the conclusion is about a non-trivial schedule -/
example : (fun (m : Mem Cell) => Mem.set m (Cell.static 3) 5) (fun _ => 0) (Cell.static 3) = 5 := by
  simp [Mem.set]

/-- a thread over a lazily built shared table (flag cell 300, table cell 301, own result cell 1000+i):
    (pc 0) load the flag; not yet built → pc 1, built → pc 2; (pc 1) store the table and the flag; (pc 2) load the
    table, store what was read to the own cell; (pc 3) finished -/
def lazyUser (i : Nat) : Thread Nat Demo where
  next s := match s.1 with
    | 0 => some { rd := [300], wr := [], k := fun v => ((if v.headD 0 = 0 then 1 else 2, 0), []) }
    | 1 => some { rd := [], wr := [301, 300], k := fun _ => ((2, 0), [7, 1]) }
    | 2 => some { rd := [301], wr := [1000 + i], k := fun v => ((3, v.headD 0), [v.headD 0]) }
    | _ => none

/-- cold start: two threads whose first calls overlap both find the flag clear and both build the table -/
theorem lazy_init_cold_race : conflictAt lazyUser (run lazyUser demoInit [0, 1]) 0 1 = true := by decide

/-- invariant of a warm process: table built, nobody is (or will be) in the builder -/
def Warm (c : Cfg Nat Demo) : Prop := c.mem 300 = 1 ∧ ∀ i, (c.loc i).1 ≠ 1

theorem warm_step (c : Cfg Nat Demo) (h : Warm c) (i : Nat) : Warm (step lazyUser c i) := by
  obtain ⟨hf, hp⟩ := h
  have hi := hp i
  unfold Warm step stepThread lazyUser
  generalize hs : (c.loc i).1 = pc at hi
  match pc, hi with
  | 0, _ => simp [hs, writeAll, hf]; intro j; split <;> simp_all
  | 2, _ => simp [hs, writeAll, Mem.set, hf]; refine ⟨by omega, ?_⟩; intro j; split <;> simp_all
  | n + 3, _ => simp [hs, hf]; intro j; split <;> simp_all

theorem warm_run (c : Cfg Nat Demo) (h : Warm c) (sched : List Nat) : Warm (run lazyUser c sched) := by
  induction sched generalizing c with
  | nil => exact h
  | cons i s ih => exact ih _ (warm_step c h i)

theorem warm_no_conflict (c : Cfg Nat Demo) (h : Warm c) (i j : Nat) (hij : i ≠ j) : conflictAt lazyUser c i j = false := by
  obtain ⟨_, hp⟩ := h
  have hi := hp i
  have hj := hp j
  unfold conflictAt lazyUser
  generalize ha : (c.loc i).1 = a at hi
  generalize hb : (c.loc j).1 = b at hj
  match a, hi, b, hj with
  | 0, _, 0, _ => simp [ha, hb]
  | 0, _, 2, _ => simp [ha, hb]; omega
  | 0, _, n + 3, _ => simp [ha, hb]
  | 2, _, 0, _ => simp [ha, hb]; omega
  | 2, _, 2, _ => simp [ha, hb]; omega
  | 2, _, n + 3, _ => simp [ha, hb]
  | n + 3, _, _, _ => simp [ha]

/-- **lazy_init_warm_hides_race.**  Once ONE call has completed before the threads start (a sequential reference run, a
    warm-up packet), no schedule of any number of threads shows a conflict any more: the defect is invisible to every
    dynamic detector.  This is why every concurrent run of the tie starts in a fresh process. -/
theorem lazy_init_warm_hides_race (sched : List Nat) (i j : Nat) (hij : i ≠ j) :
    conflictAt lazyUser (run lazyUser (runAlone lazyUser demoInit 0 3) sched) i j = false :=
  warm_no_conflict _ (warm_run _ (by unfold Warm; refine ⟨by decide, ?_⟩; intro k; by_cases hk : k = 0 <;> simp [runAlone, run, step, stepThread, lazyUser, demoInit, hk, writeAll]) sched) i j hij

end Tins.Props.C18
