import TinsModel.Threads.Lemmas
import TinsModel.Threads.Policy
import TinsModel.Threads.CrcLemmas
/- Property C18 — independent objects can be used from different threads.

   Part A: theorems about the abstract shared-memory machine, for ALL thread programs, ALL initial configurations
           and ALL interleavings (induction on the schedule).
   Part B: the tables regenerated from the libtins source satisfy the hypotheses of Part A (finite tables, decided
           as a whole) and the two parts are put together for the libtins instance of the machine.
   The link "the C++ code respects the footprints the table describes" is not a Lean theorem: it is the syntactic
   scan of the translator plus the ThreadSanitizer runs of the correspondence harness (see checks/C18.py). -/
namespace Tins.Props.C18
open Tins.Threads Tins.Gen

/-! ## Part A — the machine -/

variable {Loc σ : Type} [DecidableEq Loc]

/-- **interleaving_independent.**  If every thread stays inside its declared footprint and no thread writes what
    another thread reads or writes, then after ANY interleaving every thread observes (local state = its results,
    and memory inside its footprint) exactly what it observes after running alone for the same number of steps. -/
theorem interleaving_independent (T : Nat → Thread Loc σ) (R W : Nat → Loc → Prop)
    (hR : Respects T R W) (hD : DisjointFootprints R W) : Independent T R W :=
  fun c sched i => run_projects hR hD sched i c c (sameView_refl i c)

/-- **interleaving_independent_on_path.**  The same conclusion when the footprints are only known to be respected
    in the configurations the interleaving actually passes through (footprints that depend on the state reached,
    e.g. which object a pointer designates) — nothing is assumed about unreachable local states. -/
theorem interleaving_independent_on_path (T : Nat → Thread Loc σ) (R W : Nat → Loc → Prop)
    (hD : DisjointFootprints R W) (c : Cfg Loc σ) (sched : List Nat)
    (hR : ∀ p, p <+: sched → RespectsAt T R W (run T c p)) (i : Nat) :
    SameView R W i (run T c sched) (runAlone T c i (sched.count i)) :=
  run_projects_at hD sched i c c (sameView_refl i c) hR

/-- **race_free.**  Under the same hypotheses no reachable configuration has two different threads with conflicting
    enabled actions (nothing for a happens-before race detector to report). -/
theorem race_free (T : Nat → Thread Loc σ) (R W : Nat → Loc → Prop)
    (hR : Respects T R W) (hD : DisjointFootprints R W) : RaceFree T :=
  fun c sched _ _ hij => conflictAt_false hR hD (run T c sched) hij

/-- **schedule_irrelevant.**  Two interleavings in which thread `i` takes the same number of steps are
    indistinguishable for thread `i`. -/
theorem schedule_irrelevant (T : Nat → Thread Loc σ) (R W : Nat → Loc → Prop)
    (hR : Respects T R W) (hD : DisjointFootprints R W) (c : Cfg Loc σ) (s₁ s₂ : List Nat) (i : Nat)
    (h : s₁.count i = s₂.count i) : SameView R W i (run T c s₁) (run T c s₂) := by
  have h1 := interleaving_independent T R W hR hD c s₁ i
  have h2 := interleaving_independent T R W hR hD c s₂ i
  rw [h] at h1
  exact sameView_trans h1 (sameView_symm h2)

/-- **concurrent_eq_sequential.**  What the harness compares: any interleaving of `k` threads in which thread `i`
    takes `n i` steps gives every thread the view it has in the sequential run "thread 0 to the end, then thread 1, …". -/
theorem concurrent_eq_sequential (T : Nat → Thread Loc σ) (R W : Nat → Loc → Prop)
    (hR : Respects T R W) (hD : DisjointFootprints R W) (c : Cfg Loc σ) (sched : List Nat) (n : Nat → Nat) (k : Nat)
    (hcount : ∀ i, i < k → sched.count i = n i) (i : Nat) (hi : i < k) :
    SameView R W i (run T c sched) (run T c (seqSchedule n k)) := by
  apply schedule_irrelevant T R W hR hD
  rw [hcount i hi, count_seqSchedule]
  simp [hi]

/-! Non-vacuity of Part A and necessity of its hypothesis: two threads that each add a shared *constant* to a
    private accumulator satisfy the hypotheses; the same two threads going through a shared *scratch* cell do not,
    and their results then depend on the interleaving. -/

/-- local state: program counter and the result the thread hands back -/
abbrev Demo := Nat × Nat

/-- thread i: (pc 0) load the shared table cell 100 and its private cell i, store the sum to the private cell;
    (pc 1) load the private cell into the result; then stop -/
def constReader (i : Nat) : Thread Nat Demo where
  next s := match s.1 with
    | 0 => some { rd := [100, i], wr := [i], k := fun vs => ((1, s.2), [vs.sum]) }
    | 1 => some { rd := [i], wr := [], k := fun vs => ((2, vs.sum), []) }
    | _ => none

def demoR (i : Nat) (l : Nat) : Prop := l = 100 ∨ l = i
def demoW (i : Nat) (l : Nat) : Prop := l = i ∧ l ≠ 100

/-- the hypotheses of `interleaving_independent` are satisfiable by a non-trivial system (threads ≠ 100) -/
example : Respects (fun i => if i = 100 then ⟨fun _ => none⟩ else constReader i) demoR demoW
    ∧ DisjointFootprints demoR demoW := by
  constructor
  · intro i s a h
    by_cases hi : i = 100
    · simp [hi] at h
    · simp only [hi, if_false, constReader] at h
      split at h
      · cases h; simp [demoR, demoW, hi]
      · cases h; simp [demoR]
      · cases h
  · intro i j hij l hw
    simp only [demoR, demoW] at *
    omega

/-- thread i with a hidden shared scratch cell 200 (a `static` buffer): (pc 0) store the argument to the scratch
    cell; (pc 1) load the scratch cell into the result -/
def scratchUser (arg : Nat) : Thread Nat Demo where
  next s := match s.1 with
    | 0 => some { rd := [], wr := [200], k := fun _ => ((1, s.2), [arg]) }
    | 1 => some { rd := [200], wr := [], k := fun vs => ((2, vs.sum), []) }
    | _ => none

def scratchSys (i : Nat) : Thread Nat Demo := scratchUser (i + 7)

def demoInit : Cfg Nat Demo := { loc := fun _ => (0, 0), mem := fun _ => 0 }

/-- **shared_scratch_breaks_independence.**  With a shared scratch cell the result of thread 0 depends on the
    interleaving: alone it gets 7, with thread 1 stepping in between it gets 8.  (The disjointness hypothesis of
    `interleaving_independent` is necessary, and a hidden static buffer is exactly what violates it.) -/
theorem shared_scratch_breaks_independence :
    ((run scratchSys demoInit [0, 0]).loc 0).2 = 7 ∧ ((run scratchSys demoInit [0, 1, 0]).loc 0).2 = 8
    ∧ conflictAt scratchSys (run scratchSys demoInit [0]) 0 1 = true := by
  decide

/-! ## Part B — the generated tables -/

set_option maxRecDepth 20000

/-- **scan_complete.**  The translator accounted for every static-storage symbol of the compiled library and parsed
    every translation unit. -/
theorem scan_complete : StaticVars.unparsed = [] := by decide

/-- **no_shared_mutable.**  Every variable with static storage duration in libtins is const, thread-local,
    verification-hook-only, never written, or written only by the explicit user-triggered registration functions. -/
theorem no_shared_mutable : ∀ v ∈ StaticVars.all, sharedMutable v = false := by decide

/-- **hook_statics_synchronised.**  The statics added by the verification hooks are atomics or never written by
    library code, so the instrumented build the harness runs has the same race behaviour as the shipped one. -/
theorem hook_statics_synchronised : ∀ v ∈ StaticVars.all, hookSynchronised v = true := by decide

/-- **extern_calls_mt_safe.**  Every C-linkage function called from a translation unit on the property paths is in
    the MT-safe list. -/
theorem extern_calls_mt_safe : ∀ e ∈ ExternCalls.perFile, externOK e = true := by decide

/-- the table is not trivially empty and really contains the interesting rows: a non-const static that is only read
    (`crc_table`) and registries that are written only by `register_allocator` -/
example : (StaticVars.all.filter (fun v => !v.isConst && !v.hookOnly)).map (·.name) =
    ["Tins::Internals::PDUAllocator::allocators", "Tins::Internals::PDUAllocator::pdu_types",
     "Tins::Utils::crc32::crc_table"] := by decide

example : (StaticVars.all.find? (fun v => v.name = "Tins::Utils::crc32::crc_table")).map
      (fun v => (v.isConst, v.writeSites, v.constInit, decide (0 < v.readSites))) = some (false, [], true, true) := by
  decide

/-- what a hidden static scratch buffer on a parse path would look like in the table -/
def scratchRow : StaticVars.StaticVar :=
  { name := "Tins::DNS::convert_records::scratch", file := "src/dns.cpp", type := "char[256]",
    isConst := false, threadLocal := false, funcLocal := true, constInit := true, hookOnly := false, atomic := false,
    sections := "b", writeSites := ["Tins::DNS::convert_records"], readSites := 1 }

/-- a static scratch buffer would be flagged: the policy is not vacuous -/
example : sharedMutable scratchRow = true := by decide

/-- **libtins_footprints_disjoint.**  For ANY table without shared mutable rows, the footprints "own cells + all
    statics for reading, own cells + writable statics for writing" are disjoint between threads. -/
theorem libtins_footprints_disjoint (tbl : List StaticVars.StaticVar) (h : ∀ v ∈ tbl, sharedMutable v = false) :
    DisjointFootprints libR (libW (tableWritable tbl)) := by
  intro i j hij l hw
  cases l with
  | priv o k =>
    simp only [libW, libR] at *
    omega
  | «static» v =>
    exfalso
    simp only [libW, tableWritable] at hw
    cases hv : tbl[v]? with
    | none => simp [hv] at hw
    | some sv =>
      simp only [hv] at hw
      have := h sv (List.mem_of_getElem? hv)
      simp [this] at hw

/-- **libtins_threads_independent.**  Main statement for libtins: any system of threads over private cells and the
    statics of the generated table, in which every thread touches only its own cells and the statics, and writes
    a static only if the table allows it, is independent of the interleaving and race-free. -/
theorem libtins_threads_independent {σ : Type} (T : Nat → Thread Cell σ)
    (hT : Respects T libR (libW (tableWritable StaticVars.all))) :
    Independent T libR (libW (tableWritable StaticVars.all)) ∧ RaceFree T :=
  have hD := libtins_footprints_disjoint StaticVars.all no_shared_mutable
  ⟨interleaving_independent T _ _ hT hD, race_free T _ _ hT hD⟩

/-- non-vacuity of `libtins_threads_independent`: a thread that reads static 0 and accumulates into its own cell
    respects the libtins footprints, whatever the table says is writable -/
example (wr : Nat → Bool) :
    Respects (fun i : Nat => (⟨fun (s : Nat) => if s = 0 then
        some { rd := [Cell.static 0, Cell.priv i 0], wr := [Cell.priv i 0], k := fun vs => (1, [vs.sum]) } else none⟩ : Thread Cell Nat))
      libR (libW wr) := by
  intro i s a h
  simp only at h
  split at h
  · cases h; simp [libR, libW]
  · cases h

/-! ### the one non-const static that is read on the property paths holds the right values -/

/-- four bit-steps of the reflected CRC-32 polynomial on a nibble -/
def nibbleStd (i : UInt32) : UInt32 :=
  crcBitStep (crcBitStep (crcBitStep (crcBitStep i)))

/-- **crc_table_is_ieee.**  `crc_table[i]` is the standard CRC-32 nibble table entry for `i xor 15`, xor
    0xF0000000 — the form in which the complemented register (initial value 0, no final xor) computes IEEE CRC-32. -/
theorem crc_table_is_ieee :
    crcTable = (List.range 16).map (fun i => nibbleStd (15 - i).toUInt32 ^^^ 0xF0000000) := by decide

/-- **crc32_reads_table_correctly.**  The code-shaped `Utils::crc32` — the only function on the property paths that
    reads a non-const static — returns the IEEE 802.3 CRC-32 of its input for EVERY input, given the table values
    the translator extracted; so every thread that only reads `crc_table` gets the specified result. -/
theorem crc32_reads_table_correctly (data : List UInt8) : crc32 data = crc32Spec data :=
  crc32_eq_spec data

/-- non-vacuity: the standard check value of CRC-32 -/
example : crc32 [0x31, 0x32, 0x33, 0x34, 0x35, 0x36, 0x37, 0x38, 0x39] = 0xCBF43926 := by decide

end Tins.Props.C18
