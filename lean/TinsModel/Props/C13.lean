import TinsModel.Lookup.Lemmas
import TinsModel.Gen.PduClasses
/-
  C13 — layer look-up and casts never hand back an object of the wrong type.

  Property (properties.jsonl): for every concrete layer class K shipped by libtins (including the caching wrapper)
  and every layer class T a user can ask for, `find_pdu<T>` / `rfind_pdu<T>` / `tins_cast<T*>` succeed on an object of
  class K only if that object really is a T (T is K or a base of K), and a search by an object's own exact class
  always finds it.

  The quantifier "every K, every T" *is* the generated table `Tins.Gen.PduClasses.classes` (regenerated from the
  headers on every run), so the table theorems are closed computations checked by the kernel (`decide +kernel`:
  plain kernel evaluation of a `Decidable` instance, no compiler, no extra axiom); the statements about chains of
  layers hold for chains of any length by induction (`Lookup/Lemmas.lean`).

  Status on the current tree.  The full statement `LookupSound` is FALSE: `PDUCacher<X>` forwards `pdu_type()` and
  `matches_flag()` to the wrapped `X` and re-exports `X::pdu_flag`, so every look-up that would succeed on an `X`
  succeeds on the wrapper (which is not an `X`), and a look-up for `PDUCacher<X>` succeeds on a plain `X`
  (`lookup_sound_fails`, `wrapper_is_a_witness`).  Proved instead: `lookup_sound_partial`, with the excluded region
  `wrapperForwarding` = exactly the pairs where one side is a wrapper and the look-up would be legitimate after
  removing the wrapper(s); `wrapper_transparent` shows the wrapper answers exactly like the wrapped class, so the
  excluded region is not an over-approximation of convenience.  `lookup_self` holds for every class, wrappers included.
-/
namespace Tins.Props.C13
open Tins.Lookup Tins.Gen.PduClasses

abbrev tbl : Table := classes

/-- K is a class of which objects exist -/
def Concrete (K : Nat) : Prop := concreteB tbl K = true
/-- `find_pdu<T>()` / `tins_cast<T*>()` compile: a `pdu_flag` is visible in T -/
def Askable (T : Nat) : Prop := askableB tbl T = true

instance : DecidablePred Concrete := fun K => inferInstanceAs (Decidable (concreteB tbl K = true))
instance : DecidablePred Askable := fun T => inferInstanceAs (Decidable (askableB tbl T = true))

/-- on an object of dynamic class K, `find_pdu<T>` may return the object or `tins_cast<T*>` may return non-null
    (`none` = "the model cannot evaluate the declaration" counts as *may succeed*) -/
def succeeds (K T : Nat) : Bool := mayHold (findPdu1 tbl K T) || mayHold (tinsCast tbl K T)

/-- **C13, soundness, full strength.** -/
def LookupSound : Prop :=
  ∀ K T, Concrete K → Askable T → succeeds K T = true → IsA tbl K T

/-- the region in which the current code does not satisfy `LookupSound`: at least one side is a `PDUCacher<…>`,
    the object is *not* a T, but it would be after stripping the wrapper from both sides -/
def wrapperForwarding (K T : Nat) : Bool :=
  (isWrapperB tbl K || isWrapperB tbl T) && !isAB tbl K T && isAB tbl (unwrap tbl K) (unwrap tbl T)

/-! ### well-formedness of the generated table -/

/-- bases precede derived classes: the hierarchy is acyclic and the oracle `isAB` is exactly `IsA` -/
theorem table_ranked : rankedB tbl = true := by decide +kernel

theorem isAB_iff_IsA (K T : Nat) : isAB tbl K T = true ↔ IsA tbl K T := isAB_iff table_ranked K T

private def totalScan : Bool := allClasses tbl fun K =>
  (!concreteB tbl K || ((acceptedFlags tbl K).isSome && (pduType tbl K).isSome)) &&
  (!askableB tbl K || (staticFlag tbl K).isSome)

private theorem totalScan_ok : totalScan = true := by decide +kernel

/-- every declaration the look-ups depend on was understood by the translator and evaluates:
    no `unparsed` row, no pure-virtual call, no missing class, fuel sufficient -/
theorem table_total :
    (∀ K, Concrete K → ∃ S ty, acceptedFlags tbl K = some S ∧ pduType tbl K = some ty) ∧
    (∀ T, Askable T → ∃ f, staticFlag tbl T = some f) := by
  constructor
  · intro K hK
    have h := allClasses_spec totalScan_ok K (concreteB_lt hK)
    simp only [Concrete] at hK
    simp only [hK, Bool.not_true, Bool.false_or, Bool.and_eq_true, Option.isSome_iff_exists] at h
    rcases h.1 with ⟨⟨S, hS⟩, ⟨ty, hty⟩⟩
    exact ⟨S, ty, hS, hty⟩
  · intro T hT
    have h := allClasses_spec totalScan_ok T (askableB_lt hT)
    simp only [Askable] at hT
    simp only [hT, Bool.not_true, Bool.false_or, Bool.and_eq_true, Option.isSome_iff_exists] at h
    exact h.2

/-- consequently the look-ups are two-valued on (concrete, askable) pairs -/
theorem lookups_defined (K T : Nat) (hK : Concrete K) (hT : Askable T) :
    ∃ b c, findPdu1 tbl K T = some b ∧ tinsCast tbl K T = some c := by
  rcases table_total.1 K hK with ⟨S, ty, hS, hty⟩
  rcases table_total.2 T hT with ⟨f, hf⟩
  exact ⟨S.contains f, f == ty, by simp [findPdu1, hf, matchesFlag_of_accepted hS f], by simp [tinsCast, hf, hty]⟩

/-! ### soundness -/

private def soundScan : Bool := allPairs tbl fun K T =>
  !concreteB tbl K || !askableB tbl T || !succFast tbl K T || ancB tbl K T ||
  ((isWrapperB tbl K || isWrapperB tbl T) && ancB tbl (unwrap tbl K) (unwrap tbl T))

private theorem soundScan_ok : soundScan = true := by decide +kernel

/-- **C13 soundness, proved part**: outside `wrapperForwarding`, a look-up for T that may succeed on an object of
    class K implies that the object is a T — for every concrete K and every askable T of the table, wrappers included
    (e.g. a `PDUCacher<IP>` is never handed back as a `TCP`, an `IP` never as a `PDUCacher<TCP>`). -/
theorem lookup_sound_partial :
    ∀ K T, Concrete K → Askable T → wrapperForwarding K T = false → succeeds K T = true → IsA tbl K T := by
  intro K T hK hT hW hS
  have h := allPairs_spec soundScan_ok K T (concreteB_lt hK) (askableB_lt hT)
  simp only [Concrete] at hK
  simp only [Askable] at hT
  have hS' : succFast tbl K T = true := succFast_of_succeeds hS
  simp only [hK, hT, hS', Bool.not_true, Bool.false_or, ancB_eq, Bool.or_eq_true, Bool.and_eq_true] at h
  rcases h with h | ⟨hw, hu⟩
  · exact (isAB_iff_IsA K T).mp h
  · cases hI : isAB tbl K T with
    | true => exact (isAB_iff_IsA K T).mp hI
    | false =>
      have : wrapperForwarding K T = true := by
        simp only [wrapperForwarding, hI, hu, Bool.not_false, Bool.and_true, Bool.or_eq_true]
        exact hw
      rw [hW] at this
      exact absurd this (by decide)

/-- wrapper-free corollary: for plain classes the property holds as stated -/
theorem lookup_sound_plain :
    ∀ K T, Concrete K → Askable T → isWrapperB tbl K = false → isWrapperB tbl T = false →
      succeeds K T = true → IsA tbl K T := by
  intro K T hK hT hwK hwT
  exact lookup_sound_partial K T hK hT (by simp [wrapperForwarding, hwK, hwT])

/-- **refutation of the full statement on a concrete witness** (replayed on the real code by the check:
    `pair PDUCacher<IP> IP`): on a `PDUCacher<IP>` object both `find_pdu<IP>` and `tins_cast<IP*>` succeed,
    and a `PDUCacher<IP>` is not an `IP`. -/
theorem lookup_sound_fails : ¬ LookupSound := by
  intro h
  have hK : Concrete Idx.PDUCacher_IP := by decide +kernel
  have hT : Askable Idx.IP := by decide +kernel
  have hS : succeeds Idx.PDUCacher_IP Idx.IP = true := by decide +kernel
  have hI : isAB tbl Idx.PDUCacher_IP Idx.IP = false := by decide +kernel
  have := (isAB_iff_IsA _ _).mpr (h _ _ hK hT hS)
  rw [hI] at this
  exact absurd this (by decide)

private def wrapperScan : Bool := allClasses tbl fun W =>
  match tbl[W]? with
  | none => true
  | some r =>
    match r.wraps with
    | none => true
    | some X =>
      !r.isAbstract && concreteB tbl X && askableB tbl X && askableB tbl W &&
      (acceptedFlags tbl W).isSome && acceptedFlags tbl W == acceptedFlags tbl X &&
      pduType tbl W == pduType tbl X && staticFlag tbl W == staticFlag tbl X &&
      !ancB tbl W X && !ancB tbl X W &&
      succFast tbl X X && findPdu1 tbl X X == some true

private theorem wrapperScan_ok : wrapperScan = true := by decide +kernel

/-- the instantiation `PDUCacher<X>` -/
def Wraps (W X : Nat) : Prop := ∃ r, tbl[W]? = some r ∧ r.wraps = some X

private theorem wrapper_facts {W X : Nat} (h : Wraps W X) :
    concreteB tbl W = true ∧ concreteB tbl X = true ∧ askableB tbl X = true ∧ askableB tbl W = true ∧
    (acceptedFlags tbl W).isSome = true ∧ acceptedFlags tbl W = acceptedFlags tbl X ∧
    pduType tbl W = pduType tbl X ∧ staticFlag tbl W = staticFlag tbl X ∧
    isAB tbl W X = false ∧ isAB tbl X W = false ∧ findPdu1 tbl X X = some true := by
  rcases h with ⟨r, hr, hw⟩
  have hs := allClasses_spec wrapperScan_ok W (lt_length_of_getElem? hr)
  simp only [hr, hw, Bool.and_eq_true, Bool.not_eq_true', beq_iff_eq, ancB_eq] at hs
  obtain ⟨⟨⟨⟨⟨⟨⟨⟨⟨⟨⟨h1, h2⟩, h3⟩, h4⟩, h5⟩, h6⟩, h7⟩, h8⟩, h9⟩, h10⟩, _⟩, h12⟩ := hs
  refine ⟨?_, h2, h3, h4, h5, h6, h7, h8, h9, h10, h12⟩
  simp [concreteB, hr, h1]

/-- the wrapper answers every question exactly as the wrapped class does (for *every* flag value), and exports its flag -/
theorem wrapper_transparent {W X : Nat} (h : Wraps W X) :
    (∀ flag, matchesFlag tbl W flag = matchesFlag tbl X flag) ∧
    pduType tbl W = pduType tbl X ∧ staticFlag tbl W = staticFlag tbl X := by
  obtain ⟨_, _, _, _, h5, h6, h7, h8, _⟩ := wrapper_facts h
  refine ⟨?_, h7, h8⟩
  intro flag
  rcases Option.isSome_iff_exists.mp h5 with ⟨S, hS⟩
  rw [matchesFlag_of_accepted hS flag, matchesFlag_of_accepted (h6 ▸ hS) flag]

/-- hence look-ups cannot tell the wrapper from the wrapped class, whatever T is -/
theorem wrapper_lookups_agree {W X : Nat} (h : Wraps W X) (T : Nat) :
    findPdu1 tbl W T = findPdu1 tbl X T ∧ tinsCast tbl W T = tinsCast tbl X T := by
  obtain ⟨hm, hty, _⟩ := wrapper_transparent h
  constructor
  · unfold findPdu1; cases staticFlag tbl T <;> simp [hm]
  · unfold tinsCast pduType at *; rw [hty]

/-- **every** wrapper instantiation is a counterexample to `LookupSound`, in both directions:
    `find_pdu<X>` on a `PDUCacher<X>` hands back the wrapper as an `X`, and `find_pdu<PDUCacher<X>>` on an `X`
    hands back the `X` as a wrapper. -/
theorem wrapper_is_a_witness {W X : Nat} (h : Wraps W X) :
    (Concrete W ∧ Askable X ∧ findPdu1 tbl W X = some true ∧ ¬ IsA tbl W X) ∧
    (Concrete X ∧ Askable W ∧ findPdu1 tbl X W = some true ∧ ¬ IsA tbl X W) := by
  obtain ⟨h1, h2, h3, h4, _, _, _, h8, h9, h10, h12⟩ := wrapper_facts h
  have hag := (wrapper_lookups_agree h X).1
  refine ⟨⟨h1, h3, by rw [hag]; exact h12, ?_⟩, ⟨h2, h4, ?_, ?_⟩⟩
  · intro hI; have := (isAB_iff_IsA W X).mpr hI; rw [h9] at this; exact absurd this (by decide)
  · have : findPdu1 tbl X W = findPdu1 tbl X X := by unfold findPdu1; rw [h8]
    rw [this]; exact h12
  · intro hI; have := (isAB_iff_IsA X W).mpr hI; rw [h10] at this; exact absurd this (by decide)

/-! ### a search by an object's own exact class always finds it -/

private def selfScan : Bool := allClasses tbl fun K =>
  !concreteB tbl K || (askableB tbl K && findPdu1 tbl K K == some true)

private theorem selfScan_ok : selfScan = true := by decide +kernel

/-- **C13, self look-up**: for every concrete class K (wrappers included) `find_pdu<K>` compiles and its test
    `k.matches_flag(K::pdu_flag)` is true on an object of exact class K. -/
theorem lookup_self : ∀ K, Concrete K → Askable K ∧ findPdu1 tbl K K = some true := by
  intro K hK
  have h := allClasses_spec selfScan_ok K (concreteB_lt hK)
  simp only [Concrete] at hK
  simpa [hK, Askable] using h

/-- `tins_cast<K*>` on an exact K: full statement (not demanded by the property text, recorded because it is false) -/
def CastSelf : Prop := ∀ K, Concrete K → tinsCast tbl K K = some true

private def castSelfScan : Bool := allClasses tbl fun K =>
  !concreteB tbl K || unwrap tbl K == Idx.Dot11ControlTA || tinsCast tbl K K == some true

private theorem castSelfScan_ok : castSelfScan = true := by decide +kernel

/-- `Dot11ControlTA` declares `pdu_flag = DOT11_CONTROL_TA` but inherits `Dot11Control::pdu_type()`, so an object of
    exact class `Dot11ControlTA` (constructors are protected: it only arises by slicing) is not found by
    `tins_cast<Dot11ControlTA*>`.  A missed cast, not a wrong one: soundness is unaffected. -/
theorem cast_self_fails : ¬ CastSelf := by
  intro h
  have := h Idx.Dot11ControlTA (by decide +kernel)
  revert this
  decide +kernel

theorem cast_self_partial :
    ∀ K, Concrete K → unwrap tbl K ≠ Idx.Dot11ControlTA → tinsCast tbl K K = some true := by
  intro K hK hne
  have h := allClasses_spec castSelfScan_ok K (concreteB_lt hK)
  simp only [Concrete] at hK
  simp only [hK, Bool.not_true, Bool.false_or, Bool.or_eq_true, beq_iff_eq] at h
  rcases h with h | h
  · exact absurd h hne
  · exact h

/-! ### statements over *all* flag values (not only the flags of the classes in the table) -/

private def flagScan : Bool := allClasses tbl fun K =>
  !concreteB tbl K || isWrapperB tbl K ||
  match acceptedFlags tbl K, pduType tbl K with
  | some S, some ty =>
    (ty :: S).all fun f => (ancestors tbl tbl.length K).any fun A => staticFlag tbl A == some f
  | _, _ => false

private theorem flagScan_ok : flagScan = true := by decide +kernel

/-- a plain (non-wrapper) concrete class accepts, through `matches_flag` and through `pdu_type()`, only flag values
    that are the `pdu_flag` of itself or of one of its bases — whatever the flag asked for (so it is never handed back
    for a user-defined class's flag either) -/
theorem accepted_flags_belong_to_ancestors :
    ∀ K, Concrete K → isWrapperB tbl K = false → ∀ flag,
      (mayHold (matchesFlag tbl K flag) = true ∨ pduType tbl K = some flag) →
      ∃ A, IsA tbl K A ∧ staticFlag tbl A = some flag := by
  intro K hK hW flag hm
  have h := allClasses_spec flagScan_ok K (concreteB_lt hK)
  simp only [Concrete] at hK
  simp only [hK, hW, Bool.not_true, Bool.false_or] at h
  split at h
  · rename_i S ty hS hty
    simp only [List.all_eq_true, List.any_eq_true, beq_iff_eq] at h
    have hmem : flag ∈ ty :: S := by
      rcases hm with hm | hm
      · rw [matchesFlag_of_accepted hS flag] at hm
        cases hc : S.contains flag with
        | true => exact List.mem_cons_of_mem _ (List.contains_iff_mem.mp hc)
        | false => rw [hc] at hm; simp [mayHold] at hm
      · rw [hty] at hm; simp only [Option.some.injEq] at hm; subst hm; exact List.mem_cons_self
    rcases h flag hmem with ⟨A, hA, hf⟩
    refine ⟨A, ?_, hf⟩
    apply (isAB_iff_IsA K A).mp
    rw [← ancB_eq]; exact List.contains_iff_mem.mpr hA
  · simp at h

private def uniqueScan : Bool := allPairs tbl fun A B =>
  !askableB tbl A || !askableB tbl B || isWrapperB tbl A || isWrapperB tbl B ||
  staticFlag tbl A != staticFlag tbl B || A == B

private theorem uniqueScan_ok : uniqueScan = true := by decide +kernel

/-- no two plain classes share a flag ("a new class with a copy-pasted flag" is exactly what breaks this) -/
theorem flags_unique :
    ∀ A B, Askable A → Askable B → isWrapperB tbl A = false → isWrapperB tbl B = false →
      staticFlag tbl A = staticFlag tbl B → A = B := by
  intro A B hA hB hwA hwB hf
  have h := allPairs_spec uniqueScan_ok A B (askableB_lt hA) (askableB_lt hB)
  simp only [Askable] at hA hB
  simpa [hA, hB, hwA, hwB, hf] using h

/-! ### chains of layers (any length): `find_pdu` / `rfind_pdu` as the user calls them -/

/-- **C13 on chains, full strength** -/
def FindPduChainSound : Prop :=
  ∀ (chain : List Nat) (T f i : Nat), (∀ K ∈ chain, Concrete K) → Askable T → staticFlag tbl T = some f →
    findPduChain tbl f chain = some i → ∃ K, chain[i]? = some K ∧ IsA tbl K T

/-- whatever the chain (any length, any order of concrete layers), a non-null `find_pdu<T>` points at a layer that
    really is a T and is the first layer passing the flag test — provided no (layer, T) pair lies in `wrapperForwarding` -/
theorem find_pdu_chain_sound_partial :
    ∀ (chain : List Nat) (T f i : Nat), (∀ K ∈ chain, Concrete K) → Askable T → staticFlag tbl T = some f →
      (∀ K ∈ chain, wrapperForwarding K T = false) →
      findPduChain tbl f chain = some i →
      ∃ K, chain[i]? = some K ∧ IsA tbl K T ∧
        ∀ j K', j < i → chain[j]? = some K' → findPdu1 tbl K' T = some false := by
  intro chain T f i hC hT hf hW hfind
  rcases findPduChain_some tbl f chain i hfind with ⟨⟨K, hK, hm⟩, hbefore⟩
  have hmem : K ∈ chain := List.mem_of_getElem? hK
  refine ⟨K, hK, ?_, ?_⟩
  · apply lookup_sound_partial K T (hC K hmem) hT (hW K hmem)
    simp only [succeeds, findPdu1, hf, hm, Bool.true_or]
  · intro j K' hj hjK
    simp only [findPdu1, hf]
    exact hbefore j K' hj hjK

theorem find_pdu_chain_sound_fails : ¬ FindPduChainSound := by
  intro h
  have hf : staticFlag tbl Idx.IP = some 28 := by decide +kernel
  have hfind : findPduChain tbl 28 [Idx.PDUCacher_IP] = some 0 := by decide +kernel
  rcases h [Idx.PDUCacher_IP] Idx.IP 28 0 (by decide +kernel) (by decide +kernel) hf hfind with ⟨K, hK, hI⟩
  simp only [List.getElem?_cons_zero, Option.some.injEq] at hK
  subst hK
  have := (isAB_iff_IsA _ _).mpr hI
  revert this
  decide +kernel

/-- a layer of exact class K anywhere in a chain is found by `find_pdu<K>`: the result is non-null and points at that
    layer or at an earlier layer that also passes K's flag test (`rfind_pdu<K>` does not throw) -/
theorem find_pdu_chain_self :
    ∀ (chain : List Nat) (j K : Nat), chain[j]? = some K → Concrete K →
      ∃ f i, staticFlag tbl K = some f ∧ findPduChain tbl f chain = some i ∧ i ≤ j ∧
        rfindPduChain tbl f chain = .ok i := by
  intro chain j K hj hK
  rcases lookup_self K hK with ⟨hA, hself⟩
  rcases table_total.2 K hA with ⟨f, hf⟩
  simp only [findPdu1, hf] at hself
  rcases findPduChain_finds tbl f chain j K hj hself with ⟨i, hi, hle⟩
  exact ⟨f, i, hf, hi, hle, by simp [rfindPduChain, hi]⟩

/-- `rfind_pdu` throws `pdu_not_found` exactly when `find_pdu` returns null, i.e. when no layer passes the test -/
theorem rfind_pdu_throws_iff (chain : List Nat) (f : Nat) :
    rfindPduChain tbl f chain = .error .pduNotFound ↔ findPduChain tbl f chain = none := by
  unfold rfindPduChain
  cases findPduChain tbl f chain <;> simp

/-- `tins_cast<T&>` throws `bad_tins_cast` exactly when `tins_cast<T*>` returns null -/
theorem tins_cast_ref_throws_iff (K T : Nat) :
    tinsCastRef tbl K T = some (.error .badTinsCast) ↔ tinsCast tbl K T = some false := by
  unfold tinsCastRef
  cases h : tinsCast tbl K T with
  | none => simp
  | some b => cases b <;> simp

/-! ### the casts libtins itself relies on
  `TCP/UDP::write_serialization`: `tins_cast<const IP*>(parent)`, `tins_cast<const IPv6*>(parent)`;
  `ICMPv6::write_serialization`: `tins_cast<const IPv6*>(parent_pdu())`;
  `Loopback::write_serialization`: `tins_cast<const IP*/IPv6*/LLC*>(inner_pdu())`;
  `RadioTap::write_serialization`: `tins_cast<Dot11*>(inner_pdu())`. -/

def internalTargets : List Nat := [Idx.IP, Idx.IPv6, Idx.LLC, Idx.Dot11]

/-- full statement: whatever concrete layer is the parent / inner layer, a successful internal cast is right -/
def InternalCastsSound : Prop :=
  ∀ K, Concrete K → ∀ T ∈ internalTargets, tinsCast tbl K T = some true → IsA tbl K T

theorem internal_casts_sound_partial :
    ∀ K, Concrete K → isWrapperB tbl K = false → ∀ T ∈ internalTargets,
      tinsCast tbl K T = some true → IsA tbl K T := by
  intro K hK hW T hT hc
  have hA : Askable T := by
    simp only [internalTargets, List.mem_cons, List.mem_nil_iff, or_false] at hT
    rcases hT with rfl | rfl | rfl | rfl <;> decide +kernel
  have hwT : isWrapperB tbl T = false := by
    simp only [internalTargets, List.mem_cons, List.mem_nil_iff, or_false] at hT
    rcases hT with rfl | rfl | rfl | rfl <;> decide +kernel
  exact lookup_sound_plain K T hK hA hW hwT (by simp [succeeds, hc, mayHold])

/-- `PDUCacher<IP> / TCP`: `TCP::write_serialization` takes its parent for an `IP` -/
theorem internal_casts_sound_fails : ¬ InternalCastsSound := by
  intro h
  have := (isAB_iff_IsA _ _).mpr
    (h Idx.PDUCacher_IP (by decide +kernel) Idx.IP (by simp [internalTargets]) (by decide +kernel))
  revert this
  decide +kernel

/-! ### non-vacuity: the hypotheses are satisfiable by non-trivial classes, and look-ups do succeed -/

example : Concrete Idx.Dot11Beacon ∧ Askable Idx.Dot11ManagementFrame ∧
    succeeds Idx.Dot11Beacon Idx.Dot11ManagementFrame = true ∧
    wrapperForwarding Idx.Dot11Beacon Idx.Dot11ManagementFrame = false := by decide +kernel
example : Concrete Idx.PDUCacher_TCP ∧ Askable Idx.IP ∧ wrapperForwarding Idx.PDUCacher_TCP Idx.IP = false ∧
    succeeds Idx.PDUCacher_TCP Idx.IP = false := by decide +kernel
example : wrapperForwarding Idx.PDUCacher_Dot11Beacon Idx.Dot11 = true ∧
    succeeds Idx.PDUCacher_Dot11Beacon Idx.Dot11 = true := by decide +kernel
example : Wraps Idx.PDUCacher_IP Idx.IP := ⟨_, rfl, rfl⟩
example : findPduChain tbl 30 [Idx.EthernetII, Idx.IP, Idx.TCP, Idx.RawPDU] = some 2 := by decide +kernel
example : findPduChain tbl 4 [Idx.RadioTap, Idx.Dot11QoSData, Idx.SNAP] = some 1 := by decide +kernel
example : (∀ K ∈ [Idx.EthernetII, Idx.IP, Idx.TCP], Concrete K) ∧
    (∀ K ∈ [Idx.EthernetII, Idx.IP, Idx.TCP], wrapperForwarding K Idx.TCP = false) := by decide +kernel
example : tinsCast tbl Idx.DHCP Idx.BootP = some false ∧ IsA tbl Idx.DHCP Idx.BootP :=
  ⟨by decide +kernel, (isAB_iff_IsA _ _).mp (by decide +kernel)⟩

end Tins.Props.C13
