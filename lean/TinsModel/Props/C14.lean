import TinsModel.Matching.LemmasSafety
import TinsModel.Matching.LemmasRefine
import TinsModel.Matching.LemmasMirror2
import TinsModel.Matching.LemmasOther
/- Property C14 — response matching accepts mirrored replies, rejects strangers, is memory-safe.
   Theorems only; model in Matching/Model.lean, specification in Matching/Spec.lean + Matching/Mirror.lean,
   helper lemmas in Matching/Lemmas*.lean.  The model is the tree after the four `fix:` commits of C14. -/
namespace Tins.Props.C14
open Tins Tins.Matching

/-- **matcher_noFault.**  For every chain of layer objects (every class that has a `matches_response`, in any
    nesting, PDUCacher included) and every buffer of any length — zero included — matching performs no read at or
    past `total_sz`. -/
theorem matcher_noFault (st : List Layer) (buf : Bytes) : (matchStack st buf).isFault = false :=
  matchStack_noFault st buf

/-- The bound of the IPv6 extension-header loop: any fuel ≥ the remaining length gives the same result
    (every iteration consumes at least 8 bytes), so the model's `fuel = buf.length - 40` is the unbounded loop. -/
theorem walkExt_fuel_irrelevant : ∀ (f1 f2 : Nat) (cur : UInt8) (b : Bytes), b.length ≤ f1 → b.length ≤ f2 →
    walkExt f1 cur b = walkExt f2 cur b
  | 0, 0, _, _, _, _ => rfl
  | 0, f2 + 1, cur, b, h1, _ => by
    have : ¬ b.length > 8 := by omega
    simp [walkExt, this]
  | f1 + 1, 0, cur, b, _, h2 => by
    have : ¬ b.length > 8 := by omega
    simp [walkExt, this]
  | f1 + 1, f2 + 1, cur, b, h1, h2 => by
    unfold walkExt
    split
    · rename_i hc
      have hlen : 8 < b.length := by
        simp only [Bool.and_eq_true, decide_eq_true_eq] at hc; exact hc.1
      rw [rd1_ok (show 1 < b.length by omega), rd1_ok (show 0 < b.length by omega)]
      simp only [bind_ok]
      split
      · rfl
      · rename_i hn
        exact walkExt_fuel_irrelevant f1 f2 _ _ (by simp; omega) (by simp; omega)
    · rfl

/-- **Refinement.**  For every request stack of the specification and *every* buffer, the matcher returns what the
    byte-level specification demands: `true` where the buffer is the mirrored reply, `false` where it differs from
    it in a matched field (nothing is demanded where the specification says `unspec`). -/
theorem model_refines_spec (r : List SLayer) (b : Bytes) : (demand r b).agrees (matchStack (toModel r) b) :=
  refines r b

/-- **mirror_accepted.**  For every request over {Ethernet, 802.1Q tags} / {IPv4, IPv6} / {TCP, TCP+payload,
    UDP+payload, UDP+DNS, ICMP echo / timestamp / address-mask, ICMPv6 echo} (any nesting with the right field widths,
    arbitrary field values) the serialisation of the mirrored reply is recognised. -/
theorem mirror_accepted (r : List SLayer) (h : wfReq r = true) :
    matchStack (toModel r) (serR (mirror r)) = .ok true := by
  have h2 := refines r (serR (mirror r))
  rw [demand_serR r (mirror r) (shape_mirror r h), verdictR_mirror r h] at h2
  exact h2

/-- **stranger_rejected.**  A reply packet with the layer structure of the request (arbitrary values in every
    field, matched or not; not an ICMP destination-unreachable quoting the request) that differs from the mirrored
    reply in at least one matched field — reply destination address, reply source address when the request's
    destination is unicast, either port, ICMP/ICMPv6 reply type, identifier, sequence number, DNS id, VLAN id — is
    not recognised.  Single-field perturbations of `mirror r` are the special case `m = mirror r` with one field
    replaced. -/
theorem stranger_rejected (r : List SLayer) (m : List RLayer) (hs : shape r m = true)
    (hd : matchedFieldDiffers r m = true) : matchStack (toModel r) (serR m) = .ok false := by
  have h2 := refines r (serR m)
  rw [demand_serR r m hs, differs_reject r m hs hd] at h2
  exact h2

/-- The mirrored reply satisfies the hypotheses of `stranger_rejected` except the difference: it has the shape of
    its request and no matched field differs. -/
theorem mirror_is_not_a_stranger (r : List SLayer) (h : wfReq r = true) :
    shape r (mirror r) = true ∧ verdictR r (mirror r) = .accept :=
  ⟨shape_mirror r h, verdictR_mirror r h⟩

/-! ### matchers outside the mirrored-reply specification: closed forms over all buffers -/

/-- PDUCacher forwards: wrapping any chain changes nothing. -/
theorem pducacher_forwards (st : List Layer) (b : Bytes) : matchStack (.cacher :: st) b = matchStack st b :=
  cacher_transparent st b

/-- RawPDU matches everything, a class that keeps `PDU::matches_response` matches nothing. -/
theorem rawpdu_and_default (rest : List Layer) (b : Bytes) :
    matchStack (.raw :: rest) b = .ok true ∧ matchStack (.other :: rest) b = .ok false :=
  ⟨raw_always rest b, other_never rest b⟩

/-- BootP/DHCP: matched iff the buffer holds a whole BootP header with the request's transaction id. -/
theorem bootp_matches_iff (xid : Bytes) (rest : List Layer) (b : Bytes) :
    matchStack (.bootp xid :: rest) b = .ok (decide (236 ≤ b.length) && slice b 4 4 == xid) :=
  bootp_char xid rest b

/-- ARP: matched iff the reply's sender / target protocol addresses are the request's target / sender. -/
theorem arp_matches_iff (spa tpa : Bytes) (rest : List Layer) (b : Bytes) :
    matchStack (.arp spa tpa :: rest) b =
      .ok (decide (28 ≤ b.length) && (slice b 14 4 == tpa && slice b 24 4 == spa)) :=
  arp_char spa tpa rest b

/-- DHCPv6: matched iff neither message is a relay message and the transaction ids agree. -/
theorem dhcpv6_matches_iff (hdr : Bytes) (rest : List Layer) (b : Bytes) :
    matchStack (.dhcpv6 hdr :: rest) b =
      .ok (!(hdr.getD 0 0 == 12 || hdr.getD 0 0 == 13) && decide (4 ≤ b.length) &&
           !(b.getD 0 0 == 12 || b.getD 0 0 == 13) && slice hdr 1 3 == slice b 1 3) :=
  dhcpv6_char hdr rest b

/-- Loopback: the inner PDU decides on the bytes after the 4-byte family word; alone, the family word is compared. -/
theorem loopback_matches_iff (family : Bytes) (rest : List Layer) (b : Bytes) :
    matchStack (.loopback family :: rest) b =
      if b.length < 4 then .ok false
      else if rest.isEmpty then .ok (family == slice b 0 4) else matchStack rest (b.drop 4) :=
  loopback_char family rest b

/-! ### non-vacuity -/

/-- a DNS query over UDP / IPv4 / 802.1Q / Ethernet -/
def exReq : List SLayer :=
  [.eth [0, 0x11, 0x22, 0x33, 0x44, 0x55] [0x66, 0x77, 0x88, 0x99, 0xaa, 0xbb], .vlan [0x20, 0x64],
   .ip4 [0x45, 0, 0, 0x37, 0x12, 0x34, 0x40, 0, 0x40, 0x11, 0xa7, 0x2e, 192, 168, 0, 1, 192, 168, 0, 2],
   .udp [0x12, 0x34] [0, 0x35], .dns [0xbe, 0xef]]

/-- its mirrored reply with the UDP source port changed -/
def exStranger : List RLayer :=
  [.eth [0, 0x11, 0x22, 0x33, 0x44, 0x55] [0x66, 0x77, 0x88, 0x99, 0xaa, 0xbb], .vlan [0x20, 0x64],
   .ip4 [0, 0, 0, 0, 0, 0, 0, 64] [0, 0] [192, 168, 0, 2] [192, 168, 0, 1],
   .udp [0, 0x36] [0x12, 0x34] [0, 0, 0, 0], .dns [0xbe, 0xef] [0x80, 0, 0, 0, 0, 0, 0, 0, 0, 0]]

example : wfReq exReq = true := by decide
example : (serR (mirror exReq)).length = 58 := by decide
example : matchStack (toModel exReq) (serR (mirror exReq)) = .ok true := mirror_accepted exReq (by decide)
example : shape exReq exStranger = true ∧ matchedFieldDiffers exReq exStranger = true := by decide
example : matchStack (toModel exReq) (serR exStranger) = .ok false := stranger_rejected exReq exStranger (by decide) (by decide)
/-- the specification really demands something on these inputs -/
example : demand exReq (serR (mirror exReq)) = .accept ∧ demand exReq (serR exStranger) = .reject := by decide
/-- `matcher_noFault` is about code that does read the buffer: the guards are what keeps these reads inside -/
example : matchStack [.radiotap] [] = .ok false ∧ matchStack [.radiotap] [0, 0, 8] = .ok false ∧
    matchStack [.radiotap, .raw] [0, 0, 8, 0, 0, 0, 0, 0] = .ok true := by decide
example : rdN "x" [1, 2, 3] 2 2 = .fault "x" 4 3 := by decide

end Tins.Props.C14
