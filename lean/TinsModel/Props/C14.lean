import TinsModel.Matching.LemmasSafety
import TinsModel.Matching.LemmasRefine
import TinsModel.Matching.LemmasMirror2
import TinsModel.Matching.LemmasOther
/- Property C14 — response matching accepts mirrored replies, rejects strangers, is memory-safe.
   Theorems only; model in Matching/Model.lean, specification in Matching/Spec.lean + Matching/Mirror.lean,
   helper lemmas in Matching/Lemmas*.lean.  The model is the tree after the four `fix:` commits of C14. -/
namespace Tins.Props.C14
open Tins Tins.Matching

/-- **matcher_noFault.**  For every chain of layer objects (every class that has a `matches_response`, in any
    nesting, PDUCacher included) and every buffer of any length — zero included — matching performs no read at or
    past `total_sz`. -/
theorem matcher_noFault (st : List Layer) (buf : Bytes) : (matchStack st buf).isFault = false :=
  matchStack_noFault st buf

/-- The bound of the IPv6 extension-header loop: any fuel ≥ the remaining length gives the same result
    (every iteration consumes at least 8 bytes), so the model's `fuel = buf.length - 40` is the unbounded loop. -/
theorem walkExt_fuel_irrelevant : ∀ (f1 f2 : Nat) (cur : UInt8) (b : Bytes), b.length ≤ f1 → b.length ≤ f2 →
    walkExt f1 cur b = walkExt f2 cur b
  | 0, 0, _, _, _, _ => rfl
  | 0, f2 + 1, cur, b, h1, _ => by
    have : ¬ b.length > 8 := by omega
    simp [walkExt, this]
  | f1 + 1, 0, cur, b, _, h2 => by
    have : ¬ b.length > 8 := by omega
    simp [walkExt, this]
  | f1 + 1, f2 + 1, cur, b, h1, h2 => by
    unfold walkExt
    split
    · rename_i hc
      have hlen : 8 < b.length := by
        simp only [Bool.and_eq_true, decide_eq_true_eq] at hc; exact hc.1
      rw [rd1_ok (show 1 < b.length by omega), rd1_ok (show 0 < b.length by omega)]
      simp only [bind_ok]
      split
      · rfl
      · rename_i hn
        exact walkExt_fuel_irrelevant f1 f2 _ _ (by simp; omega) (by simp; omega)
    · rfl

/-- The same for the specification's walk over the reply's extension headers: `fuel = length` is the unbounded walk. -/
theorem skipExts_fuel_irrelevant : ∀ (f1 f2 : Nat) (cur : UInt8) (b : Bytes), b.length ≤ f1 → b.length ≤ f2 →
    skipExts f1 cur b = skipExts f2 cur b
  | 0, 0, _, _, _, _ => rfl
  | 0, f2 + 1, cur, b, h1, _ => by
    have hn : ¬ ((b.getD 1 0).toNat + 1) * 8 < b.length := by omega
    by_cases hw : v6Walkable cur = true <;> simp only [skipExts, hw, hn, if_true, if_false, Bool.false_eq_true]
  | f1 + 1, 0, cur, b, _, h2 => by
    have hn : ¬ ((b.getD 1 0).toNat + 1) * 8 < b.length := by omega
    by_cases hw : v6Walkable cur = true <;> simp only [skipExts, hw, hn, if_true, if_false, Bool.false_eq_true]
  | f1 + 1, f2 + 1, cur, b, h1, h2 => by
    unfold skipExts
    split
    · dsimp only
      split
      · split
        · rfl
        · exact skipExts_fuel_irrelevant f1 f2 _ _ (by simp; omega) (by simp; omega)
      · rfl
    · rfl

/-- **Refinement.**  For every request stack of the specification — link: Ethernet II, 802.3, 802.1Q tags nested any
    number of times, loopback, RadioTap; network: IPv4, IPv6; above: TCP, UDP, ICMP, ICMPv6 echo, DNS, BootP / DHCP,
    DHCPv6, ARP, opaque payload — and *every* buffer, the matcher returns what the byte-level specification demands:
    `true` where the buffer is a mirrored reply (behind any IPv4 / TCP option list and any chain of IPv6 extension
    headers the specification follows) or an ICMP destination unreachable quoting the request's IPv4 header, `false`
    where it differs from the mirrored reply in a matched field (nothing is demanded where the specification says
    `unspec`). -/
theorem model_refines_spec (r : List SLayer) (b : Bytes) : (demand r b).agrees (matchStack (toModel r) b) :=
  refines r b

/-- **mirror_accepted**, all field values.  Every mirrored reply `m` of `r` is recognised: the matched fields are the
    mirrored ones (`isMirror`), every other header field, the IPv4 and TCP option lists, the chain of IPv6 extension
    headers (hop-by-hop, routing, first-fragment, destination options, mobility — `extOk`), the TCP flags (SYN-ACK,
    RST, …), the DNS / BootP / DHCPv6 / ARP / ICMP bodies and every payload are arbitrary (`shape` fixes only the field
    widths).  Under an IPv4 layer `isMirror` also holds for the ICMP destination unreachable quoting the request. -/
theorem mirrored_reply_accepted (r : List SLayer) (m : List RLayer) (hs : shape r m = true) (hm : isMirror r m = true) :
    matchStack (toModel r) (serR m) = .ok true := by
  have h2 := refines r (serR m)
  rw [demand_serR r m hs, verdictR_isMirror r m hm] at h2
  exact h2

/-- **mirror_accepted** for the canonical mirror: for every request of the grammar `wfReq` (arbitrary field values)
    the serialisation of `mirror r` is recognised. -/
theorem mirror_accepted (r : List SLayer) (h : wfReq r = true) :
    matchStack (toModel r) (serR (mirror r)) = .ok true :=
  mirrored_reply_accepted r (mirror r) (shape_mirror r h) (isMirror_mirror r h)

/-- **The second kind of accepted reply.**  An IPv4 packet from anybody to anybody, with any option list, carrying an
    ICMP destination unreachable (any code, checksum, unused word) whose quoted datagram starts with the 20 octets of
    the request's IPv4 header — followed by anything — is recognised, whatever is above IPv4 in the request. -/
theorem unreachable_quoting_accepted (hdr : Bytes) (r : List SLayer) (pre ck s d opts cc un1 un2 more : Bytes)
    (hh : hdr.length = 20) (h1 : pre.length = 8) (h2 : ck.length = 2) (h3 : s.length = 4) (h4 : d.length = 4)
    (ho4 : opts.length % 4 = 0) (ho : opts.length ≤ 40) (hc : cc.length = 3) (hu1 : un1.length = 2) (hu2 : un2.length = 2) :
    matchStack (toModel (.ip4 hdr :: r)) (serR [.ip4 pre ck s d opts, .icmp 3 cc un1 un2 (hdr ++ more)]) = .ok true := by
  have hq : quotes hdr [.icmp 3 cc un1 un2 (hdr ++ more)] = true := by
    have e : slice (serR [.icmp 3 cc un1 un2 (hdr ++ more)]) 8 20 = hdr := by
      simp [serR, slice_cons, slice_skip, slice_prefix, hc, hu1, hu2, hh]
    have l : 28 ≤ (serR [.icmp 3 cc un1 un2 (hdr ++ more)]).length := by
      simp [serR, hc, hu1, hu2, hh]; omega
    simp [quotes, protoR, e, l]
    simp [serR]
  refine mirrored_reply_accepted _ _ ?_ ?_
  · simp [shape, h1, h2, h3, h4, ho4, ho, hq]
  · simp [isMirror, hq]

/-- **stranger_rejected.**  A reply packet with the layer structure of the request (arbitrary values in every
    field, matched or not, arbitrary options / extension headers / payloads; not an ICMP destination unreachable
    quoting the request) that differs from the mirrored replies in at least one matched field — reply destination
    address, reply source address when the request's destination is unicast, either port, ICMP/ICMPv6 reply type,
    identifier, sequence number, DNS id, VLAN id, BootP / DHCP transaction id, DHCPv6 transaction id or relay type, ARP
    sender / target protocol address — is not recognised.  Single-field perturbations of a mirrored reply are the
    special case `m` = that reply with one field replaced. -/
theorem stranger_rejected (r : List SLayer) (m : List RLayer) (hs : shape r m = true)
    (hd : matchedFieldDiffers r m = true) : matchStack (toModel r) (serR m) = .ok false := by
  have h2 := refines r (serR m)
  rw [demand_serR r m hs, differs_reject r m hs hd] at h2
  exact h2

/-- The mirrored reply satisfies the hypotheses of `stranger_rejected` except the difference: it has the shape of
    its request and no matched field differs. -/
theorem mirror_is_not_a_stranger (r : List SLayer) (h : wfReq r = true) :
    shape r (mirror r) = true ∧ verdictR r (mirror r) = .accept :=
  ⟨shape_mirror r h, verdictR_mirror r h⟩

/-- No packet is both: a mirrored reply never differs in a matched field. -/
theorem mirror_and_stranger_exclusive (r : List SLayer) (m : List RLayer) (hs : shape r m = true)
    (hm : isMirror r m = true) : matchedFieldDiffers r m = false := by
  cases hd : matchedFieldDiffers r m
  · rfl
  · have h1 := mirrored_reply_accepted r m hs hm
    have h2 := stranger_rejected r m hs hd
    rw [h1] at h2
    exact absurd h2 (by decide)

/-! ### matchers outside the mirrored-reply specification: closed forms over all buffers -/

/-- PDUCacher forwards: wrapping any chain changes nothing. -/
theorem pducacher_forwards (st : List Layer) (b : Bytes) : matchStack (.cacher :: st) b = matchStack st b :=
  cacher_transparent st b

/-- RawPDU matches everything, a class that keeps `PDU::matches_response` (SLL, LLC, Dot11, …: `.other`) matches
    nothing — a request whose outermost layer is SLL has no reply (PacketSender can neither send nor receive on it). -/
theorem rawpdu_and_default (rest : List Layer) (b : Bytes) :
    matchStack (.raw :: rest) b = .ok true ∧ matchStack (.other :: rest) b = .ok false :=
  ⟨raw_always rest b, other_never rest b⟩

/-- BootP/DHCP: matched iff the buffer holds a whole BootP header with the request's transaction id. -/
theorem bootp_matches_iff (xid : Bytes) (rest : List Layer) (b : Bytes) :
    matchStack (.bootp xid :: rest) b = .ok (decide (236 ≤ b.length) && slice b 4 4 == xid) :=
  bootp_char xid rest b

/-- ARP: matched iff the reply's sender / target protocol addresses are the request's target / sender. -/
theorem arp_matches_iff (spa tpa : Bytes) (rest : List Layer) (b : Bytes) :
    matchStack (.arp spa tpa :: rest) b =
      .ok (decide (28 ≤ b.length) && (slice b 14 4 == tpa && slice b 24 4 == spa)) :=
  arp_char spa tpa rest b

/-- DHCPv6: matched iff neither message is a relay message and the transaction ids agree; in particular a
    relay-forward / relay-reply request (which has no transaction id) matches nothing. -/
theorem dhcpv6_matches_iff (hdr : Bytes) (rest : List Layer) (b : Bytes) :
    matchStack (.dhcpv6 hdr :: rest) b =
      .ok (!(hdr.getD 0 0 == 12 || hdr.getD 0 0 == 13) && decide (4 ≤ b.length) &&
           !(b.getD 0 0 == 12 || b.getD 0 0 == 13) && slice hdr 1 3 == slice b 1 3) :=
  dhcpv6_char hdr rest b

/-- Loopback: the inner PDU decides on the bytes after the 4-byte family word; alone, the family word is compared. -/
theorem loopback_matches_iff (family : Bytes) (rest : List Layer) (b : Bytes) :
    matchStack (.loopback family :: rest) b =
      if b.length < 4 then .ok false
      else if rest.isEmpty then .ok (family == slice b 0 4) else matchStack rest (b.drop 4) :=
  loopback_char family rest b

/-! ### non-vacuity -/

/-- a DNS query over UDP / IPv4 / 802.1Q / Ethernet -/
def exReq : List SLayer :=
  [.eth [0, 0x11, 0x22, 0x33, 0x44, 0x55] [0x66, 0x77, 0x88, 0x99, 0xaa, 0xbb], .vlan [0x20, 0x64],
   .ip4 [0x45, 0, 0, 0x37, 0x12, 0x34, 0x40, 0, 0x40, 0x11, 0xa7, 0x2e, 192, 168, 0, 1, 192, 168, 0, 2],
   .udp [0x12, 0x34] [0, 0x35], .dns [0xbe, 0xef]]

/-- its mirrored reply with the UDP source port changed -/
def exStranger : List RLayer :=
  [.eth [0, 0x11, 0x22, 0x33, 0x44, 0x55] [0x66, 0x77, 0x88, 0x99, 0xaa, 0xbb], .vlan .ctag [0x20, 0x64],
   .ip4 [0, 0, 0, 0, 0, 0, 0, 64] [0, 0] [192, 168, 0, 2] [192, 168, 0, 1] [],
   .udp [0, 0x36] [0x12, 0x34] [0, 0, 0, 0], .dns [0xbe, 0xef] [0x80, 0, 0, 0, 0, 0, 0, 0, 0, 0]]

example : wfReq exReq = true := by decide
example : (serR (mirror exReq)).length = 58 := by decide
example : matchStack (toModel exReq) (serR (mirror exReq)) = .ok true := mirror_accepted exReq (by decide)
example : shape exReq exStranger = true ∧ matchedFieldDiffers exReq exStranger = true := by decide
example : matchStack (toModel exReq) (serR exStranger) = .ok false := stranger_rejected exReq exStranger (by decide) (by decide)
/-- the specification really demands something on these inputs -/
example : demand exReq (serR (mirror exReq)) = .accept ∧ demand exReq (serR exStranger) = .reject := by decide

/-! #### the widened relation is inhabited: one request / mirrored reply / stranger per new class -/

/-- ICMPv6 echo over IPv6 / 802.1Q in 802.1Q / Ethernet -/
def exReq6 : List SLayer :=
  [.eth [0, 0x11, 0x22, 0x33, 0x44, 0x55] [0x66, 0x77, 0x88, 0x99, 0xaa, 0xbb], .vlan [0x00, 0x64], .vlan [0x20, 0x07],
   .ip6 [0x20, 1, 0xd, 0xb8, 0, 0, 0, 0, 0, 0, 0, 0, 0, 0, 0, 1] [0x20, 1, 0xd, 0xb8, 0, 0, 0, 0, 0, 0, 0, 0, 0, 0, 0, 2],
   .icmp6echo [0x12, 0x34] [0, 7]]

/-- a mirrored reply behind hop-by-hop options, a first-fragment header and a 16-octet destination-options header,
    with another priority on the inner tag, another flow label and hop limit, and echo data -/
def exReply6 (id : Bytes) : List RLayer :=
  [.eth [0, 0x11, 0x22, 0x33, 0x44, 0x55] [0x66, 0x77, 0x88, 0x99, 0xaa, 0xbb], .vlan .stag [0xe0, 0x64], .vlan .ctag [0x20, 0x07],
   .ip6 [0x0a, 0xbc, 0xde, 0, 0x30] 3 [0x20, 1, 0xd, 0xb8, 0, 0, 0, 0, 0, 0, 0, 0, 0, 0, 0, 2]
     [0x20, 1, 0xd, 0xb8, 0, 0, 0, 0, 0, 0, 0, 0, 0, 0, 0, 1]
     [⟨0, 0, [1, 4, 0, 0, 0, 0]⟩, ⟨44, 0, [0, 1, 0xca, 0xfe, 0xba, 0xbe]⟩, ⟨60, 1, [1, 12, 0, 0, 0, 0, 0, 0, 0, 0, 0, 0, 0, 0]⟩],
   .icmp6 129 [0, 0xab, 0xcd] id [0, 7] [1, 2, 3]]

example : wfReq exReq6 = true := by decide
example : (serR (exReply6 [0x12, 0x34])).length = 105 := by decide
example : matchStack (toModel exReq6) (serR (exReply6 [0x12, 0x34])) = .ok true :=
  mirrored_reply_accepted _ _ (by decide) (by decide)
example : matchStack (toModel exReq6) (serR (exReply6 [0x12, 0x35])) = .ok false :=
  stranger_rejected _ _ (by decide) (by decide)
/-- the loop really walks: the same reply with the chain cut after the fixed header is not the reply -/
example : matchStack (toModel exReq6) ((serR (exReply6 [0x12, 0x34])).take 62) = .ok false := by decide

/-- a TCP SYN to 10.0.0.2:443 over Ethernet; answered by a RST-ACK carrying options, behind IPv4 options -/
def exReqT : List SLayer :=
  [.eth [0, 0x11, 0x22, 0x33, 0x44, 0x55] [0x66, 0x77, 0x88, 0x99, 0xaa, 0xbb],
   .ip4 [0x45, 0, 0, 0x28, 0, 1, 0, 0, 0x40, 6, 0x66, 0xcd, 10, 0, 0, 1, 10, 0, 0, 2], .tcp [0xc0, 0x01] [0x01, 0xbb]]

def exReplyT (sport : Bytes) : List RLayer :=
  [.eth [0, 0x11, 0x22, 0x33, 0x44, 0x55] [0x66, 0x77, 0x88, 0x99, 0xaa, 0xbb],
   .ip4 [0, 0, 0x30, 0x99, 0x99, 0x40, 0, 0x3f] [0xab, 0xcd] [10, 0, 0, 2] [10, 0, 0, 1] [1, 1, 1, 0],
   .tcp sport [0xc0, 0x01] [0, 0, 0, 0, 1, 2, 3, 5] 9 [0x14, 0, 0, 0, 0, 0, 0] [2, 4, 5, 0xb4]]

example : matchStack (toModel exReqT) (serR (exReplyT [0x01, 0xbb])) = .ok true :=
  mirrored_reply_accepted _ _ (by decide) (by decide)
example : matchStack (toModel exReqT) (serR (exReplyT [0x01, 0xba])) = .ok false :=
  stranger_rejected _ _ (by decide) (by decide)

/-- the same probe answered by a router: destination unreachable quoting the header, from 192.0.2.1 -/
def exUnreach (quote : Bytes) : List RLayer :=
  [.eth [0, 0x11, 0x22, 0x33, 0x44, 0x55] [0x66, 0x77, 0x88, 0x99, 0xaa, 0xbb],
   .ip4 [0xc0, 0, 0x38, 0, 0, 0, 0, 0xff] [0, 0] [192, 0, 2, 1] [10, 0, 0, 1] [],
   .icmp 3 [1, 0, 0] [0, 0] [0, 0] (quote ++ [0xc0, 0x01, 0x01, 0xbb, 0, 0, 0, 0])]

example : matchStack (toModel exReqT)
    (serR (exUnreach [0x45, 0, 0, 0x28, 0, 1, 0, 0, 0x40, 6, 0x66, 0xcd, 10, 0, 0, 1, 10, 0, 0, 2])) = .ok true :=
  mirrored_reply_accepted _ _ (by decide) (by decide)
/-- quoting a header with another identification: not ours (here the reply's source is a stranger's, too) -/
example : matchStack (toModel exReqT)
    (serR (exUnreach [0x45, 0, 0, 0x28, 0, 2, 0, 0, 0x40, 6, 0x66, 0xcc, 10, 0, 0, 1, 10, 0, 0, 2])) = .ok false := by decide

/-- DHCP renew (unicast) and its ACK with a vendor area; a DHCPv6 request and its reply; an ARP request and its reply -/
def exReqD : List SLayer :=
  [.ip4 [0x45, 0, 1, 0x48, 0, 1, 0, 0, 0x40, 17, 0, 0, 10, 0, 0, 9, 10, 0, 0, 1], .udp [0, 68] [0, 67], .bootp [0xde, 0xad, 0xbe, 0xef]]
def exReplyD (xid : Bytes) : List RLayer :=
  [.ip4 [0, 0, 0, 0, 0, 0, 0, 64] [0, 0] [10, 0, 0, 1] [10, 0, 0, 9] [], .udp [0, 67] [0, 68] [1, 0x34, 0, 0],
   .bootp [2, 1, 6, 0] xid (List.replicate 228 7 ++ [0x63, 0x82, 0x53, 0x63, 53, 1, 5, 255])]
example : wfReq exReqD = true := by decide
set_option maxRecDepth 8192 in
example : matchStack (toModel exReqD) (serR (exReplyD [0xde, 0xad, 0xbe, 0xef])) = .ok true :=
  mirrored_reply_accepted _ _ (by decide) (by decide)
set_option maxRecDepth 8192 in
example : matchStack (toModel exReqD) (serR (exReplyD [0xde, 0xad, 0xbe, 0xee])) = .ok false :=
  stranger_rejected _ _ (by decide) (by decide)

def exReqD6 : List SLayer :=
  [.ip6 [0xfe, 0x80, 0, 0, 0, 0, 0, 0, 0, 0, 0, 0, 0, 0, 0, 1] [0xfe, 0x80, 0, 0, 0, 0, 0, 0, 0, 0, 0, 0, 0, 0, 0, 2],
   .udp [2, 0x22] [2, 0x23], .dhcpv6 [3, 0xaa, 0xbb, 0xcc]]
def exReplyD6 (t : UInt8) (xid : Bytes) : List RLayer :=
  [.ip6 [0, 0, 0, 0, 12] 64 [0xfe, 0x80, 0, 0, 0, 0, 0, 0, 0, 0, 0, 0, 0, 0, 0, 2] [0xfe, 0x80, 0, 0, 0, 0, 0, 0, 0, 0, 0, 0, 0, 0, 0, 1] [],
   .udp [2, 0x23] [2, 0x22] [0, 12, 0, 0], .dhcpv6 t xid [0, 1, 0, 0]]
example : wfReq exReqD6 = true := by decide
example : matchStack (toModel exReqD6) (serR (exReplyD6 7 [0xaa, 0xbb, 0xcc])) = .ok true :=
  mirrored_reply_accepted _ _ (by decide) (by decide)
example : matchStack (toModel exReqD6) (serR (exReplyD6 7 [0xaa, 0xbb, 0xcd])) = .ok false :=
  stranger_rejected _ _ (by decide) (by decide)
example : matchStack (toModel exReqD6) (serR (exReplyD6 13 [0xaa, 0xbb, 0xcc])) = .ok false :=
  stranger_rejected _ _ (by decide) (by decide)

def exReqA : List SLayer := [.eth [0, 0x11, 0x22, 0x33, 0x44, 0x55] [255, 255, 255, 255, 255, 255], .arp [10, 0, 0, 1] [10, 0, 0, 2]]
def exReplyA (spa : Bytes) : List RLayer :=
  [.eth [0, 0x11, 0x22, 0x33, 0x44, 0x55] [255, 255, 255, 255, 255, 255],
   .arp [0, 1, 8, 0, 6, 4, 0, 2, 0x66, 0x77, 0x88, 0x99, 0xaa, 0xbb] spa [0, 0x11, 0x22, 0x33, 0x44, 0x55] [10, 0, 0, 1] [0, 0]]
example : wfReq exReqA = true := by decide
example : matchStack (toModel exReqA) (serR (exReplyA [10, 0, 0, 2])) = .ok true :=
  mirrored_reply_accepted _ _ (by decide) (by decide)
example : matchStack (toModel exReqA) (serR (exReplyA [10, 0, 0, 3])) = .ok false :=
  stranger_rejected _ _ (by decide) (by decide)

/-- the other link layers: 802.3, loopback, RadioTap (a 12-octet capture header) -/
example : matchStack (toModel [.dot3 [0, 1, 2, 3, 4, 5] [6, 7, 8, 9, 10, 11], .payload])
    (serR [.dot3 [0, 1, 2, 3, 4, 5] [6, 7, 8, 9, 10, 11] [0, 3], .payload [1, 2, 3]]) = .ok true :=
  mirrored_reply_accepted _ _ (by decide) (by decide)
example : matchStack (toModel [.dot3 [0, 1, 2, 3, 4, 5] [6, 7, 8, 9, 10, 11], .payload])
    (serR [.dot3 [0, 1, 2, 3, 4, 5] [6, 7, 8, 9, 10, 12] [0, 3], .payload [1, 2, 3]]) = .ok false :=
  stranger_rejected _ _ (by decide) (by decide)
example : matchStack (toModel [.loopback [2, 0, 0, 0], .ip4 [0x45, 0, 0, 28, 0, 1, 0, 0, 64, 1, 0, 0, 127, 0, 0, 1, 127, 0, 0, 1], .icmp .echo [0, 1] [0, 2]])
    (serR [.loopback [2, 0, 0, 0], .ip4 [0, 0, 28, 0, 9, 0, 0, 64] [0, 0] [127, 0, 0, 1] [127, 0, 0, 1] [], .icmp 0 [0, 0xff, 0xfc] [0, 1] [0, 2] []]) = .ok true :=
  mirrored_reply_accepted _ _ (by decide) (by decide)
example : matchStack (toModel [.radiotap, .payload]) (serR [.radiotap [0, 0] [0x2e, 0x48, 0, 0, 0, 2, 0x6c, 0x09], .payload [0xd4, 0]]) = .ok true :=
  mirrored_reply_accepted _ _ (by decide) (by decide)

/-! #### observations on the IPv6 walk that are outside the relation (pinned in corpus/C14/regress.ops) -/

/-- the reserved octet of a fragment header is read as a length: with reserved = 1 the walk skips 16 octets — the
    fragment header *and* the 8-octet echo reply behind it — where RFC 8200 §4.5 says 8 ("ignored on reception") -/
example : walkExt 16 44 [58, 1, 0, 0, 0, 0, 0, 1, 129, 0, 0, 0, 0x12, 0x34, 0, 7] = .ok (some []) ∧
    skipExts 16 44 [58, 1, 0, 0, 0, 0, 0, 1, 129, 0, 0, 0, 0x12, 0x34, 0, 7] = none := by decide
/-- a reply that ends exactly with an extension header is not followed (`total_sz > 8`), one more octet and it is -/
example : walkExt 8 0 [61, 0, 1, 4, 0, 0, 0, 0] = .ok none ∧ walkExt 9 0 [61, 0, 1, 4, 0, 0, 0, 0, 0] = .ok (some [0]) ∧
    skipExts 8 0 [61, 0, 1, 4, 0, 0, 0, 0] = none := by decide

/-- `matcher_noFault` is about code that does read the buffer: the guards are what keeps these reads inside -/
example : matchStack [.radiotap] [] = .ok false ∧ matchStack [.radiotap] [0, 0, 8] = .ok false ∧
    matchStack [.radiotap, .raw] [0, 0, 8, 0, 0, 0, 0, 0] = .ok true := by decide
example : rdN "x" [1, 2, 3] 2 2 = .fault "x" 4 3 := by decide

/-! ### known finding KF-C14-5: the reserved octet of a fragment header -/

/-- **Full statement** (RFC 8200 §4.5 to the letter: the reserved octet of a fragment header is "ignored on
    reception").  Wherever a receiver's walk over the reply's extension headers arrives at an upper-layer header, the
    loop of `IPv6::matches_response` arrives at the same octets. -/
def walk_follows_rfc8200 : Prop :=
  ∀ (f : Nat) (cur : UInt8) (b : Bytes) (p : UInt8) (b' : Bytes),
    skipExtsRFC f cur b = some (p, b') → isExtHdr p = false → walkExt f cur b = .ok (some b')

/-- It does not hold: the loop takes the reserved octet for a length.  A first-fragment header with reserved = 1 in
    front of an 8-octet ICMPv6 echo reply: the receiver of RFC 8200 arrives at the echo reply, the loop behind it
    (replayed on the real code: corpus/C14/regress.ops, `#corpus:v6-fragment-reserved-octet-set…`). -/
theorem walk_follows_rfc8200_fails : ¬ walk_follows_rfc8200 := by
  intro h
  have := h 16 44 [58, 1, 0, 0, 0, 0, 0, 1, 129, 0, 0, 0, 0x12, 0x34, 0, 7] 58 [129, 0, 0, 0, 0x12, 0x34, 0, 7] (by decide) (by decide)
  revert this
  decide

/-- **Partial**: it holds for every reply on whose chain no whole fragment header has its reserved octet set
    (`fragReservedSet`, decidable) — that is every reply of a sender conforming to RFC 8200 ("initialized to zero for
    transmission"). -/
theorem walk_follows_rfc8200_partial (f : Nat) (cur : UInt8) (b : Bytes) (p : UInt8) (b' : Bytes)
    (hex : fragReservedSet f cur b = false) (h : skipExtsRFC f cur b = some (p, b')) (hp : isExtHdr p = false) :
    walkExt f cur b = .ok (some b') := by
  rw [skipExtsRFC_eq f cur b hex] at h
  exact walkExt_of_skipExts f cur b p b' h hp

/-- the excluded region is not everything: the chain of `exReply6` (hop-by-hop, first fragment, destination options) -/
example : fragReservedSet 65 0 ((serR (exReply6 [0x12, 0x34])).drop 62) = false ∧
    (skipExtsRFC 65 0 ((serR (exReply6 [0x12, 0x34])).drop 62)).isSome = true := by decide
/-- and the witness of the refutation is inside it -/
example : fragReservedSet 16 44 [58, 1, 0, 0, 0, 0, 0, 1, 129, 0, 0, 0, 0x12, 0x34, 0, 7] = true := by decide

end Tins.Props.C14
