import TinsModel.Matching.Refine
/- Property C14 — theorems (filled in below). -/
namespace Tins.Props.C14
open Tins Tins.Matching

theorem raw_always_matches (rest : List Layer) (b : Bytes) : matchStack (.raw :: rest) b = .ok true := by
  simp [matchStack]

end Tins.Props.C14
