import TinsModel.Tcp.Spec
import TinsModel.Basic.Seq32Lemmas
import TinsModel.Tcp.LemmasRefine
import TinsModel.Tcp.LemmasLegacy
import TinsModel.Follower.LemmasFlow
/- Property C06 — theorems (statements only here; helper lemmas live in TinsModel/Tcp/Lemmas*.lean).

   Conventions: an arrival history is a `List SegD` with the LATEST arrival first (so every suffix is an
   earlier moment); `runModel isn h` is the code-shaped model of `DataTracker` after the arrivals `h`, started
   as `DataTracker(isn)`; `frontier h |s|` is the spec's "least position that has not arrived". -/
namespace Tins.Props.C06
open Tins Tins.DT

/-- RFC 1982 comparison agrees with the order of absolute stream positions inside a half-space window,
    for every initial sequence number (wrap-around included). -/
theorem seq_compare_is_absolute_order (isn a b : Nat) (h : a < b + 2147483648) (h' : b < a + 2147483648) :
    seqCompare (wrap32 (isn + a)) (wrap32 (isn + b)) = if a = b then 0 else if a < b then -1 else 1 := by
  have := seqCompare_abs (isn + a) (isn + b) (by omega) (by omega)
  rw [this]; split <;> split <;> (try split) <;> (try split) <;> omega

/-- **Main theorem, all sizes.** For every stream shorter than 2^31, every initial sequence number (including
    those for which `isn + |s|` wraps past 2^32) and every valid arrival history — any order, duplication,
    overlap, re-cut retransmissions, segments starting before the ISN — the observable state of the tracker
    satisfies the spec, the byte counter being compared modulo 2^32 (it is a `uint32_t`).
    `HistOK` is suffix-closed, so this is a statement about the state after EVERY arrival. -/
theorem tracker_refines_spec_wide (s : Bytes) (isn : Nat) (h : List SegD)
    (hs : s.length < 2147483648) (hisn : isn < 4294967296) (hh : HistOK s h) :
    specOKw s isn (h.map SegD.seg) (runModel isn h).obs = true := by
  have hsim := run_sim hs hisn hh
  have hinv := runAbstract_AInv (tie := false) hh
  have htot := runModel_TotInv isn h
  have hk := AInv_frontier hinv
  have hall := chunks_all_ok (isn := isn) hinv hs
  unfold specOKw Tracker.obs
  simp only [hk, hsim.seq, hsim.buf, hsim.payload, hinv.1.payload_eq]
  have ht : (runModel isn h).total = wrap32 (sumSizes (mapW isn (runAbstract false h).buf)) := by
    rw [← hsim.buf]; exact htot.2
  rw [ht]
  unfold sumSizes W at *
  simp only [beq_self_eq_true, Bool.true_and, Bool.and_true]
  exact hall

/-- **Main theorem (the property's quantifier: streams of at most 64 KiB).** As above with the byte counter
    compared exactly: `total_buffered_bytes()` equals the bytes actually held. -/
theorem tracker_refines_spec (s : Bytes) (isn : Nat) (h : List SegD)
    (hs : s.length ≤ 65536) (hisn : isn < 4294967296) (hh : HistOK s h) :
    specOK s isn (h.map SegD.seg) (runModel isn h).obs = true := by
  have hs' : s.length < 2147483648 := by omega
  have hsim := run_sim hs' hisn hh
  have hinv := runAbstract_AInv (tie := false) hh
  have htot := runModel_TotInv isn h
  have hk := AInv_frontier hinv
  have hall := chunks_all_ok (isn := isn) hinv hs'
  have hlt := AInv_sumSizes_lt hinv hs
  unfold specOK specOKat Tracker.obs
  simp only [hk, hsim.seq, hsim.buf, hsim.payload, hinv.1.payload_eq]
  have ht : (runModel isn h).total = sumSizes (mapW isn (runAbstract false h).buf) := by
    rw [htot.2, hsim.buf, sumSizes_mapW]
    unfold wrap32; omega
  rw [ht]
  unfold sumSizes W at *
  simp only [beq_self_eq_true, Bool.true_and, Bool.and_true]
  exact hall

/-- the same after every arrival, spelled out: dropping the `n` latest arrivals gives an earlier moment -/
theorem tracker_refines_spec_every_moment (s : Bytes) (isn : Nat) (h : List SegD)
    (hs : s.length ≤ 65536) (hisn : isn < 4294967296) (hh : HistOK s h) (n : Nat) :
    specOK s isn ((h.drop n).map SegD.seg) (runModel isn (h.drop n)).obs = true := by
  apply tracker_refines_spec s isn _ hs hisn
  induction n generalizing h with
  | zero => exact hh
  | succ n ih =>
    cases h with
    | nil => exact hh
    | cons g h => exact ih h hh.2

/-- time order: `h` lists the arrivals OLDEST first and the model is folded over it; the spec holds after
    every prefix of the history -/
theorem tracker_refines_spec_fwd (s : Bytes) (isn : Nat) (h : List SegD)
    (hs : s.length ≤ 65536) (hisn : isn < 4294967296) (hh : HistOK s h.reverse) (n : Nat) :
    specOK s isn ((h.take n).reverse.map SegD.seg) (runModelFwd isn (h.take n)).obs = true := by
  rw [runModelFwd_eq]
  have e : (h.take n).reverse = h.reverse.drop (h.length - n) := by
    rw [List.reverse_take]
  rw [e]
  exact tracker_refines_spec_every_moment s isn h.reverse hs hisn hh _

/-- the hypothesis on histories is implied by a condition on each segment alone: it starts less than 2^31
    before the end of the stream, ends inside it and carries bytes of the stream (the negative part is arbitrary) -/
theorem tracker_refines_spec_static (s : Bytes) (isn : Nat) (h : List SegD)
    (hs : s.length ≤ 65536) (hisn : isn < 4294967296) (hall : ∀ g ∈ h, g.okStatic s) :
    specOK s isn (h.map SegD.seg) (runModel isn h).obs = true :=
  tracker_refines_spec s isn h hs hisn (histOK_of_static hall)

/-- The half-sequence-space hypothesis cannot be weakened to "`-2^31 < off`": an (empty) segment exactly 2^31
    behind the delivery point compares as *ahead* (RFC 1982 leaves that distance undefined) and is buffered
    at a position outside the stream. -/
theorem half_window_needed :
    let s : Bytes := [7]
    let h : List SegD := [⟨-2147483647, []⟩, ⟨0, [7]⟩]
    (∀ g ∈ h, -2147483648 < g.off ∧ g.off + (g.data.length : Int) ≤ (s.length : Int) ∧ g.agrees s) ∧
    ¬ HistOK s h ∧ specOKw s 0 (h.map SegD.seg) (runModel 0 h).obs = false := by
  decide

/-- The statement with the weaker, position-independent bound `-2^31 < off` in place of "less than 2^31 behind
    the delivery point" (kept visible: it is NOT a theorem, see `tracker_refines_spec_unwindowed_fails`; the
    property text asks for segments "within half the sequence space of the current position", which is `HistOK`). -/
def tracker_refines_spec_unwindowed : Prop :=
  ∀ (s : Bytes) (isn : Nat) (h : List SegD), s.length < 2147483648 → isn < 4294967296 →
    (∀ g ∈ h, -2147483648 < g.off ∧ g.off + (g.data.length : Int) ≤ (s.length : Int) ∧ g.agrees s) →
    specOKw s isn (h.map SegD.seg) (runModel isn h).obs = true

theorem tracker_refines_spec_unwindowed_fails : ¬ tracker_refines_spec_unwindowed := by
  intro H
  have h1 := H [7] 0 [⟨-2147483647, []⟩, ⟨0, [7]⟩] (by decide) (by decide) half_window_needed.1
  have h2 := half_window_needed.2.2
  rw [h2] at h1
  exact absurd h1 (by decide)

/-- **The byte counter is exact in every reachable state**, for any sequence of `process_payload` /
    `advance_sequence` calls with any arguments (no assumption on the data at all): keys are unique and
    `total_buffered_bytes_` is the sum of the sizes of the buffered chunks as a `uint32_t`. -/
theorem buffered_bytes_exact (seq0 : Nat) (ops : List Op) :
    (ops.foldl applyOp (Tracker.init seq0)).total = wrap32 (sumSizes (ops.foldl applyOp (Tracker.init seq0)).buf) ∧
    (keys (ops.foldl applyOp (Tracker.init seq0)).buf).Nodup := by
  have := foldl_applyOp_TotInv ops (TotInv_init seq0)
  exact ⟨this.2, this.1⟩

/-- the delivered data is at every moment the prefix of the stream up to the frontier of the arrived set -/
theorem delivered_is_prefix (s : Bytes) (isn : Nat) (h : List SegD)
    (hs : s.length < 2147483648) (hisn : isn < 4294967296) (hh : HistOK s h) :
    (runModel isn h).payload = s.take (frontier (h.map SegD.seg) s.length) := by
  have hsim := run_sim hs hisn hh
  have hinv := runAbstract_AInv (tie := false) hh
  rw [AInv_frontier hinv, hsim.payload, hinv.1.payload_eq]

/-- each byte is delivered exactly once: `process_payload` only ever appends to the delivered data (for any
    arguments), and by `delivered_is_prefix` what has been appended so far is exactly `s[0, k)` -/
theorem each_byte_once (t : Tracker) (seq : Nat) (payload : Bytes) :
    ∃ d, (processPayload t seq payload).1.payload = t.payload ++ d :=
  processPayload_payload_append t seq payload

/-- as soon as every byte below `n` has arrived, everything below `n` has been delivered and no buffered
    chunk starts at or below `n` (absolute start of a chunk = delivery point + its distance in sequence space) -/
theorem complete_prefix_delivered (s : Bytes) (isn : Nat) (h : List SegD)
    (hs : s.length < 2147483648) (hisn : isn < 4294967296) (hh : HistOK s h)
    (n : Nat) (hn : n ≤ s.length) (harr : ∀ p, p < n → covered (h.map SegD.seg) p = true) :
    (runModel isn h).payload.take n = s.take n ∧ n ≤ (runModel isn h).payload.length ∧
    ∀ c ∈ (runModel isn h).buf, n < (runModel isn h).payload.length + sub32 c.1 (runModel isn h).seq := by
  have hk := frontier_ge (h.map SegD.seg) s.length n hn harr
  have hle := frontier_le (h.map SegD.seg) s.length
  have hp := delivered_is_prefix s isn h hs hisn hh
  have hsim := run_sim hs hisn hh
  have hinv := runAbstract_AInv (tie := false) hh
  have hf := AInv_frontier hinv
  have hlen : (runModel isn h).payload.length = frontier (h.map SegD.seg) s.length := by
    rw [hp, List.length_take]; omega
  refine ⟨?_, by omega, ?_⟩
  · rw [hp, List.take_take]; congr 1; omega
  · intro c hc
    rw [hsim.buf] at hc
    obtain ⟨c0, hc0, rfl⟩ := List.mem_map.mp hc
    have habove := hinv.2 c0 hc0
    have hin := (hinv.1.chunks c0 hc0).inside
    have hkN := hinv.1.k_le
    rw [hsim.seq, hlen, hf]
    have : sub32 (W isn c0.1) (W isn (runAbstract false h).k) = c0.1 - (runAbstract false h).k :=
      sub32_W (by omega) (by omega)
    simp only [this]
    omega

/-- `process_payload` keeps its documented contract for ANY state and arguments: it returns true iff data was
    appended to the delivered payload (this is what the `fix:` commit on `DataTracker::process_payload`
    establishes; before it, a retransmission ending exactly at the delivery point returned true) -/
theorem process_payload_true_iff_grew (t : Tracker) (seq : Nat) (payload : Bytes) :
    (processPayload t seq payload).2 = true ↔
      t.payload.length < (processPayload t seq payload).1.payload.length := by
  rw [processPayload_flag]; simp

/-- **Flow::process_packet, over the real state machine** (the C07 model `SF.Flow` of `Flow`: `update_state`, the ACK
    tracker, then the data path; TinsModel/Follower/Model.lean).  `process_packet` runs `update_state` first, and the tracker that
    meets the payload is the one `update_state` leaves (`flow_update_state_tracker` below says exactly what that is).  Let that
    tracker be the tracker model after the arrivals `h`, let the flow not ignore data and have no recovery handler bound, and let
    the packet carry the next arrival `g` of a valid history, its first payload byte (`Pkt.dataSeq`: one past the sequence number
    of a SYN segment, KF-C07-3) at the sequence number of `g`.  Then — IN EVERY STATE of the flow, FIN_SENT and RST_SENT included:
    the data path does not look at the state — the tracker moves as the tracker model, the data callback fires iff the delivered
    prefix grew, the out-of-order callback fires (with the payload's sequence number and bytes) iff the segment lies entirely below
    the delivery point or starts above it, and the state is the one `update_state` computed. -/
theorem flow_callbacks (s : Bytes) (isn : Nat) (g : SegD) (h : List SegD)
    (hs : s.length < 2147483648) (hisn : isn < 4294967296) (hh : HistOK s (g :: h))
    (f : SF.Flow) (p : SF.Pkt) (hig : f.ignoreData = false) (hrec : f.recEnd = none)
    (htr : (f.updateState p).tr = runModel isn h)
    (hpl : p.payload = some g.data) (hseq : p.dataSeq = seqOf isn g.off) :
    let k := frontier (h.map SegD.seg) s.length
    let res := f.processPacket p
    res.1.tr = runModel isn (g :: h) ∧
    (res.2.2 = true ↔ k < frontier ((g :: h).map SegD.seg) s.length) ∧
    (res.2.1 = if (g.off + (g.data.length : Int) < (k : Int) ∨ (k : Int) < g.off) then some (p.dataSeq, g.data) else none) ∧
    res.1.state = (f.updateState p).state := by
  intro k res
  obtain ⟨q1, _, _, _, q5, q6, _⟩ := SF.pre_fields f p
  have hi' : (f.pre p).ignoreData = false := q6.trans hig
  have hr' : (f.pre p).recEnd = none := (SF.pre_recEnd f p).trans hrec
  have htr' : (f.pre p).tr = runModel isn h := q5.trans htr
  have hres : res = _ := SF.processPacket_some f p g.data hi' hr' hpl
  have hp0 := delivered_is_prefix s isn h hs hisn hh.2
  have hp1 := delivered_is_prefix s isn (g :: h) hs hisn hh
  have hsim := run_sim hs hisn hh.2
  have hinv := runAbstract_AInv (tie := false) hh.2
  have hf := AInv_frontier hinv
  have hle0 := frontier_le (h.map SegD.seg) s.length
  have hle1 := frontier_le ((g :: h).map SegD.seg) s.length
  obtain ⟨hwin, hin, _⟩ := hh.1
  have hkN : k ≤ s.length := hle0
  have hc1 := chunkEnd_compare (isn := isn) (n := g.data.length) hs hkN hwin hin
  have hc2 := start_compare (isn := isn) (n := g.data.length) hs hkN hwin hin
  have hseqT : (runModel isn h).seq = W isn k := by rw [hsim.seq, ← hf]
  rw [hres, htr', hseq]
  refine ⟨rfl, ?_, ?_, q1⟩
  · show (processPayload (runModel isn h) (seqOf isn g.off) g.data).2 = true ↔ _
    rw [process_payload_true_iff_grew]
    show (runModel isn h).payload.length < (runModel isn (g :: h)).payload.length ↔ _
    rw [hp0, hp1, List.length_take, List.length_take]
    show min k s.length < min (frontier ((g :: h).map SegD.seg) s.length) s.length ↔ _
    omega
  · show (if seqCompare (wrap32 (seqOf isn g.off + g.data.length)) (runModel isn h).seq < 0 ∨
          seqCompare (seqOf isn g.off) (runModel isn h).seq > 0 then some (seqOf isn g.off, g.data) else none) = _
    rw [hseqT, hc1, hc2]
    have e : ((if g.off + (g.data.length : Int) = (k : Int) then (0 : Int)
          else if g.off + (g.data.length : Int) < (k : Int) then -1 else 1) < 0 ∨
        (if g.off = (k : Int) then (0 : Int) else if g.off < (k : Int) then -1 else 1) > 0) ↔
        (g.off + (g.data.length : Int) < (k : Int) ∨ (k : Int) < g.off) := by
      constructor
      · rintro (h1 | h1)
        · left; revert h1; split <;> (try split) <;> intro h1 <;> first | omega | (exact absurd h1 (by decide))
        · right; revert h1; split <;> (try split) <;> intro h1 <;> first | omega | (exact absurd h1 (by decide))
      · rintro (h1 | h1)
        · left; rw [if_neg (by omega), if_pos h1]; decide
        · right; rw [if_neg (by omega), if_neg (by omega)]; decide
    by_cases hc : (g.off + (g.data.length : Int) < (k : Int) ∨ (k : Int) < g.off)
    · rw [if_pos (e.mpr hc), if_pos hc]
    · rw [if_neg (fun x => hc (e.mp x)), if_neg hc]

/-- **What `update_state` does to the reassembly state**: nothing — except in the one transition UNKNOWN -> SYN_SENT (a segment
    with SYN and neither RST nor FIN reaching a flow that has not seen SYN, FIN or RST yet), where the expected sequence number
    becomes the segment's sequence number + 1, whatever it was before, buffered chunks and delivered payload staying as they are. -/
theorem flow_update_state_tracker (f : SF.Flow) (p : SF.Pkt) :
    (f.updateState p).tr =
      if f.state = .unknown ∧ p.syn = true ∧ p.rst = false ∧ p.fin = false then { f.tr with seq := wrap32 (p.seq + 1) }
      else f.tr := by
  split
  · next hc => exact SF.updateState_tr_syn f p hc.1 hc.2.1 hc.2.2.1 hc.2.2.2
  · next hc =>
    apply SF.updateState_tr
    by_cases h1 : f.state = .unknown
    · by_cases h2 : p.syn = true
      · by_cases h3 : p.rst = true
        · exact Or.inr (Or.inr (Or.inl h3))
        · by_cases h4 : p.fin = true
          · exact Or.inr (Or.inr (Or.inr h4))
          · exact absurd ⟨h1, h2, by simpa using h3, by simpa using h4⟩ hc
      · exact Or.inr (Or.inl (by simpa using h2))
    · exact Or.inl h1

/-- **The SYN that opens a flow**: on a flow that has seen nothing yet the tracker `update_state` leaves is the tracker model
    of a stream whose initial sequence number is the SYN's sequence number + 1 with no arrival so far, and the payload of
    that very segment (TCP Fast Open) is offset 0 of it — so `flow_callbacks` applies to it with `h = []`, `g.off = 0`. -/
theorem flow_syn_opens (dst dport seq0 : Nat) (v6 : Bool) (p : SF.Pkt) (h1 : p.syn = true) (h2 : p.rst = false)
    (h3 : p.fin = false) :
    ((SF.Flow.init v6 dst dport seq0).updateState p).tr = runModel (wrap32 (p.seq + 1)) [] ∧
    p.dataSeq = seqOf (wrap32 (p.seq + 1)) 0 ∧ ((SF.Flow.init v6 dst dport seq0).updateState p).state = .synSent := by
  refine ⟨?_, ?_, ?_⟩
  · rw [SF.updateState_tr_syn _ p rfl h1 h2 h3]; rfl
  · unfold SF.Pkt.dataSeq seqOf wrap32
    simp only [h1, if_true]
    omega
  · unfold SF.Flow.updateState
    simp [h1, h2, h3, SF.Flow.init]

/-- a flow told to ignore data (`ignore_data_packets`) leaves the reassembly to `update_state` alone and fires no callback -/
theorem flow_ignores_data (f : SF.Flow) (p : SF.Pkt) (hig : f.ignoreData = true) :
    (f.processPacket p).1.tr = (f.updateState p).tr ∧ (f.processPacket p).2 = (none, false) := by
  obtain ⟨_, _, _, _, q5, q6, _⟩ := SF.pre_fields f p
  have : (f.pre p).ignoreData = true := q6.trans hig
  have e : f.processPacket p = (f.pre p, none, false) := by
    unfold SF.Flow.processPacket; simp [this]
  rw [e]
  exact ⟨q5, rfl⟩

/-- **Legacy follower, same delivery guarantee.** One direction of `TCPStream` (as driven by
    `TCPStreamFollower` after the handshake) run over a valid arrival history satisfies the same spec as the
    new tracker: delivered = the prefix up to the frontier, next expected sequence number, every buffered
    fragment strictly above the delivery point and equal to its slice of the stream
    (the legacy class has no byte counter: the sum of the fragment sizes stands in for it). -/
theorem legacy_refines_spec (s : Bytes) (isn : Nat) (h : List SegD)
    (hs : s.length < 2147483648) (hisn : isn < 4294967296) (hh : HistOK s h) :
    specOK s isn (h.map SegD.seg)
      ⟨(runLegacy isn h).seq, sumSizes (runLegacy isn h).frags, (runLegacy isn h).payload, (runLegacy isn h).frags⟩
      = true := by
  have hsim := runLegacy_sim hs hisn hh
  have hinv := runAbstract_AInv (tie := true) hh
  have hk := AInv_frontier hinv
  have hall := chunks_all_ok (isn := isn) hinv hs
  unfold specOK specOKat
  simp only [hk, hsim.seq, hsim.frags, hsim.payload, hinv.1.payload_eq]
  unfold sumSizes W at *
  simp only [beq_self_eq_true, Bool.true_and, Bool.and_true]
  exact hall

theorem legacy_delivers_prefix (s : Bytes) (isn : Nat) (h : List SegD)
    (hs : s.length < 2147483648) (hisn : isn < 4294967296) (hh : HistOK s h) :
    (runLegacy isn h).payload = s.take (frontier (h.map SegD.seg) s.length) := by
  have hsim := runLegacy_sim hs hisn hh
  have hinv := runAbstract_AInv (tie := true) hh
  rw [AInv_frontier hinv, hsim.payload, hinv.1.payload_eq]

/-- the legacy follower and the new tracker deliver the same bytes at every moment -/
theorem legacy_equiv (s : Bytes) (isn : Nat) (h : List SegD)
    (hs : s.length < 2147483648) (hisn : isn < 4294967296) (hh : HistOK s h) :
    (runLegacy isn h).payload = (runModel isn h).payload ∧ (runLegacy isn h).seq = (runModel isn h).seq := by
  have hl := runLegacy_sim hs hisn hh
  have hm := run_sim hs hisn hh
  have hil := runAbstract_AInv (tie := true) hh
  have him := runAbstract_AInv (tie := false) hh
  have e : (runAbstract true h).k = (runAbstract false h).k := by
    rw [← AInv_frontier hil, ← AInv_frontier him]
  refine ⟨?_, ?_⟩
  · rw [hl.payload, hm.payload, hil.1.payload_eq, him.1.payload_eq, e]
  · rw [hl.seq, hm.seq, e]

/-- `TCPStream::generic_process` (so `update`, so the follower's data functor): true iff the stored payload
    grew, and the payload only ever grows by appending — for any state and arguments (after the `fix:` commit) -/
theorem legacy_update_true_iff_grew (t : LStream) (seq : Nat) (payload : Bytes) :
    ((genericProcess t seq payload).2 = true ↔ t.payload.length < (genericProcess t seq payload).1.payload.length) ∧
    ∃ d, (genericProcess t seq payload).1.payload = t.payload ++ d := by
  refine ⟨?_, genericProcess_payload_append t seq payload⟩
  rw [genericProcess_flag]; simp

/-! ### non-vacuity: the hypotheses are satisfied by non-trivial histories (reordering, overlap, re-cut
    retransmission, a segment starting before the ISN, and an ISN for which the stream crosses 2^32) -/

/-- stream of 6 bytes at ISN 2^32-3 (wraps inside the stream); arrivals in time order: [3,6) first (buffered),
    then a stale-start segment [-2,2) whose first two bytes are not stream bytes, then [1,4) overlapping both -/
def exStream : Bytes := [1, 2, 3, 4, 5, 6]
def exHist : List SegD := [⟨1, [2, 3, 4]⟩, ⟨-2, [9, 9, 1, 2]⟩, ⟨3, [4, 5, 6]⟩]   -- latest first

example : HistOK exStream exHist := by decide
example : ∀ g ∈ exHist, g.okStatic exStream := by decide
example : (runModel 4294967293 exHist).payload = exStream ∧ (runModel 4294967293 exHist).seq = 3 ∧
    (runModel 4294967293 exHist).buf = [] := by decide
-- after the first two arrivals the chunk [3,6) is still buffered under the wrapped key 0
example : (runModel 4294967293 (exHist.drop 1)).buf = [(0, [4, 5, 6])] ∧
    (runModel 4294967293 (exHist.drop 1)).payload = [1, 2] ∧ (runModel 4294967293 (exHist.drop 1)).total = 3 := by
  decide
example : (runLegacy 4294967293 exHist).payload = exStream ∧ (runLegacy 4294967293 (exHist.drop 1)).frags = [(0, [4, 5, 6])] := by
  decide
-- the second arrival (stale start, ends at 2 > 0) makes the data callback fire and is not out of order;
-- a retransmission of it afterwards fires nothing (this is the behaviour established by the fix)
def exPkt (flags seq : Nat) (d : Bytes) : SF.Pkt :=
  { v6 := false, src := 1, sport := 4321, dst := 2, dport := 80, flags := flags, seq := seq, ack := 0, payload := some d,
    mss := none, sackOk := false, ts := 0 }
def exFlow (st : SF.FState) (t : Tracker) : SF.Flow := { SF.Flow.init false 2 80 0 with state := st, tr := t }
example : ((exFlow .established (runModel 4294967293 (exHist.drop 2))).processPacket (exPkt 16 (seqOf 4294967293 (-2)) [9, 9, 1, 2])).2
    = (none, true) := by decide
example : ((exFlow .established (runModel 4294967293 (exHist.drop 1))).processPacket (exPkt 16 (seqOf 4294967293 (-2)) [9, 9, 1, 2])).2
    = (none, false) := by decide
-- the same arrival carried by a FIN segment reaching a flow in RST_SENT: the data path is the same
example : ((exFlow .rstSent (runModel 4294967293 (exHist.drop 2))).processPacket (exPkt 17 (seqOf 4294967293 (-2)) [9, 9, 1, 2])).2
    = (none, true) := by decide
-- a SYN carrying [1,2] opens a fresh flow created with another sequence number: expected 4294967293, then 4294967295
example : ((SF.Flow.init false 2 80 77).processPacket (exPkt 2 4294967292 [1, 2])).1.tr.seq = 4294967295 ∧
    ((SF.Flow.init false 2 80 77).processPacket (exPkt 2 4294967292 [1, 2])).2 = (none, true) := by decide
-- the hypotheses of `flow_callbacks` on that packet (`h = []`, `g = ⟨0, [1,2]⟩`)
example : HistOK exStream [⟨0, [1, 2]⟩] ∧ ((SF.Flow.init false 2 80 77).updateState (exPkt 2 4294967292 [1, 2])).tr = runModel 4294967293 [] ∧
    (exPkt 2 4294967292 [1, 2]).dataSeq = seqOf 4294967293 0 := by decide
example : specOK exStream 4294967293 (exHist.map SegD.seg) (runModel 4294967293 exHist).obs = true :=
  tracker_refines_spec exStream 4294967293 exHist (by decide) (by decide) (by decide)
-- `buffered_bytes_exact` on a history that is NOT a valid stream (conflicting data, advance_sequence)
example : (([Op.seg 10 [1, 2], Op.seg 10 [3, 4, 5], Op.seg 4294967295 [7], Op.adv 0, Op.seg 0 [8]]).foldl applyOp
    (Tracker.init 4294967290)).total = 3 := by decide

end Tins.Props.C06
