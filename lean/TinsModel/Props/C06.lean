import TinsModel.Tcp.Spec
import TinsModel.Basic.Seq32Lemmas
/- Property C06 — theorems (statements only here; helper lemmas live in TinsModel/Tcp/*). -/
namespace Tins.Props.C06
open Tins Tins.DT

/-- RFC 1982 comparison agrees with the order of absolute stream positions inside a half-space window,
    for every initial sequence number (wrap-around included). -/
theorem seq_compare_is_absolute_order (isn a b : Nat) (h : a < b + 2147483648) (h' : b < a + 2147483648) :
    seqCompare (wrap32 (isn + a)) (wrap32 (isn + b)) = if a = b then 0 else if a < b then -1 else 1 := by
  have := seqCompare_abs (isn + a) (isn + b) (by omega) (by omega)
  rw [this]; split <;> split <;> (try split) <;> (try split) <;> omega

end Tins.Props.C06
