import TinsModel.Tcp.Spec
import TinsModel.Basic.Seq32Lemmas
import TinsModel.Tcp.LemmasRefine
/- Property C06 — theorems (statements only here; helper lemmas live in TinsModel/Tcp/Lemmas*.lean).

   Conventions: an arrival history is a `List SegD` with the LATEST arrival first (so every suffix is an
   earlier moment); `runModel isn h` is the code-shaped model of `DataTracker` after the arrivals `h`, started
   as `DataTracker(isn)`; `frontier h |s|` is the spec's "least position that has not arrived". -/
namespace Tins.Props.C06
open Tins Tins.DT

/-- RFC 1982 comparison agrees with the order of absolute stream positions inside a half-space window,
    for every initial sequence number (wrap-around included). -/
theorem seq_compare_is_absolute_order (isn a b : Nat) (h : a < b + 2147483648) (h' : b < a + 2147483648) :
    seqCompare (wrap32 (isn + a)) (wrap32 (isn + b)) = if a = b then 0 else if a < b then -1 else 1 := by
  have := seqCompare_abs (isn + a) (isn + b) (by omega) (by omega)
  rw [this]; split <;> split <;> (try split) <;> (try split) <;> omega

/-- **Main theorem, all sizes.** For every stream shorter than 2^31, every initial sequence number (including
    those for which `isn + |s|` wraps past 2^32) and every valid arrival history — any order, duplication,
    overlap, re-cut retransmissions, segments starting before the ISN — the observable state of the tracker
    satisfies the spec, the byte counter being compared modulo 2^32 (it is a `uint32_t`).
    `HistOK` is suffix-closed, so this is a statement about the state after EVERY arrival. -/
theorem tracker_refines_spec_wide (s : Bytes) (isn : Nat) (h : List SegD)
    (hs : s.length < 2147483648) (hisn : isn < 4294967296) (hh : HistOK s h) :
    specOKw s isn (h.map SegD.seg) (runModel isn h).obs = true := by
  have hsim := run_sim hs hisn hh
  have hinv := runAbstract_AInv hh
  have htot := runModel_TotInv isn h
  have hk := AInv_frontier hinv
  have hall := chunks_all_ok (isn := isn) hinv hs
  unfold specOKw Tracker.obs
  simp only [hk, hsim.seq, hsim.buf, hsim.payload, hinv.1.payload_eq]
  have ht : (runModel isn h).total = wrap32 (sumSizes (mapW isn (runAbstract h).buf)) := by
    rw [← hsim.buf]; exact htot.2
  rw [ht]
  unfold sumSizes W at *
  simp only [beq_self_eq_true, Bool.true_and, Bool.and_true]
  exact hall

/-- **Main theorem (the property's quantifier: streams of at most 64 KiB).** As above with the byte counter
    compared exactly: `total_buffered_bytes()` equals the bytes actually held. -/
theorem tracker_refines_spec (s : Bytes) (isn : Nat) (h : List SegD)
    (hs : s.length ≤ 65536) (hisn : isn < 4294967296) (hh : HistOK s h) :
    specOK s isn (h.map SegD.seg) (runModel isn h).obs = true := by
  have hs' : s.length < 2147483648 := by omega
  have hsim := run_sim hs' hisn hh
  have hinv := runAbstract_AInv hh
  have htot := runModel_TotInv isn h
  have hk := AInv_frontier hinv
  have hall := chunks_all_ok (isn := isn) hinv hs'
  have hlt := AInv_sumSizes_lt hinv hs
  unfold specOK Tracker.obs
  simp only [hk, hsim.seq, hsim.buf, hsim.payload, hinv.1.payload_eq]
  have ht : (runModel isn h).total = sumSizes (mapW isn (runAbstract h).buf) := by
    rw [htot.2, hsim.buf, sumSizes_mapW]
    unfold wrap32; omega
  rw [ht]
  unfold sumSizes W at *
  simp only [beq_self_eq_true, Bool.true_and, Bool.and_true]
  exact hall

/-- the same after every arrival, spelled out: dropping the `n` latest arrivals gives an earlier moment -/
theorem tracker_refines_spec_every_moment (s : Bytes) (isn : Nat) (h : List SegD)
    (hs : s.length ≤ 65536) (hisn : isn < 4294967296) (hh : HistOK s h) (n : Nat) :
    specOK s isn ((h.drop n).map SegD.seg) (runModel isn (h.drop n)).obs = true := by
  apply tracker_refines_spec s isn _ hs hisn
  induction n generalizing h with
  | zero => exact hh
  | succ n ih =>
    cases h with
    | nil => exact hh
    | cons g h => exact ih h hh.2

end Tins.Props.C06
