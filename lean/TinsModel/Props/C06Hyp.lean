import TinsModel.Props.C06
/- Property C06, third part — every hypothesis of `tracker_refines_spec` / `tracker_refines_spec_wide` is needed: for each one
   a witness on which the conclusion fails when that hypothesis alone is dropped (all replayed on the real `DataTracker` through
   harness/c06_tracker.cpp, see checks/C06.py `HYPOTHESIS_WITNESSES`), and what the code does outside the hypotheses.

     hypothesis                                    witness / theorem
     isn < 2^32                                    `isn_is_uint32`            (a typing fact of the C++: the argument is `uint32_t`)
     segment starts < 2^31 before the delivery pt  `half_window_needed` (Props/C06), `half_window_needed_nonempty`
     segment ends inside the stream                `agrees_gives_inside` (implied for non-empty segments), `segment_inside_needed`
     segment carries bytes of the stream           `segment_agrees_needed`
     |s| < 2^31                                    `oversize_segment_dropped`, `stream_bound_needed` (all streams in (2^31, 2^32))
     |s| <= 64 KiB for the exact byte counter      `byte_counter_exact_iff_small` (what is needed is Σ chunk sizes < 2^32)

   and `erase_in_bounds`: the two `vector::erase(begin, begin + diff)` calls of `process_payload` never go past the end, for ANY
   payload size — a payload of 2^31 bytes or more is not undefined behaviour, it is mis-compared (defined, wrong). -/
namespace Tins.Props.C06
open Tins Tins.DT

/-- `isn < 2^32`: the model takes a `Nat` where the C++ takes a `uint32_t`; with a value outside the type the wrapped
    sequence number of the first byte never equals the expected one (nothing is ever delivered) -/
theorem isn_is_uint32 :
    let s : Bytes := [7]
    let h : List SegD := [⟨0, [7]⟩]
    HistOK s h ∧ specOKw s 4294967296 (h.map SegD.seg) (runModel 4294967296 h).obs = false := by decide

/-- the half-window hypothesis, with a NON-EMPTY segment: one stale byte 2^31 + 1 behind the delivery point (2) compares as lying
    ahead (its end is exactly 2^31 away, which `seq_compare` reads as "after"), is buffered under a key outside the stream and
    counted in `total_buffered_bytes()` — the delivered data stays right, the buffered-state clause fails -/
theorem half_window_needed_nonempty :
    let s : Bytes := [7, 8]
    let h : List SegD := [⟨-2147483647, [9]⟩, ⟨0, [7, 8]⟩]
    (∀ g ∈ h, -2147483648 < g.off ∧ g.off + (g.data.length : Int) ≤ (s.length : Int) ∧ g.agrees s) ∧ ¬ HistOK s h ∧
    (runModel 0 h).payload = s ∧ (runModel 0 h).buf = [(2147483649, [9])] ∧ (runModel 0 h).total = 1 ∧
    specOKw s 0 (h.map SegD.seg) (runModel 0 h).obs = false := by decide

/-- "ends inside the stream" is almost implied by "carries bytes of the stream": a segment with at least one byte that agrees
    with `s` ends inside `s` (so for non-empty segments the hypothesis can be dropped) ... -/
theorem agrees_gives_inside (s : Bytes) (g : SegD) (ha : g.agrees s) (hne : g.data ≠ []) :
    g.off + (g.data.length : Int) ≤ (s.length : Int) := by
  unfold SegD.agrees at ha
  have hl := congrArg List.length ha
  rw [List.length_drop, List.length_take, List.length_drop] at hl
  have hpos : 0 < g.data.length := List.length_pos_iff.mpr hne
  omega

/-- ... what is left is the EMPTY segment beyond the end of the stream: it agrees with `s` vacuously, and is buffered at a
    position outside the stream -/
theorem segment_inside_needed :
    let s : Bytes := [1]
    let h : List SegD := [⟨2, []⟩]
    (∀ g ∈ h, (frontier ([] : List Seg) s.length : Int) - g.off < 2147483648 ∧ g.agrees s) ∧ ¬ HistOK s h ∧
    (runModel 5 h).buf = [(7, [])] ∧ specOKw s 5 (h.map SegD.seg) (runModel 5 h).obs = false := by decide

/-- "carries bytes of the stream": the tracker keeps the first copy of a position it sees -/
theorem segment_agrees_needed :
    let s : Bytes := [1, 2]
    let h : List SegD := [⟨0, [1, 9]⟩]
    (∀ g ∈ h, (frontier ([] : List Seg) s.length : Int) - g.off < 2147483648 ∧ g.off + (g.data.length : Int) ≤ (s.length : Int)) ∧
    ¬ HistOK s h ∧ (runModel 5 h).payload = [1, 9] ∧ specOKw s 5 (h.map SegD.seg) (runModel 5 h).obs = false := by decide

/-! ### segments of 2^31 bytes or more -/

/-- **No out-of-range erase, for any payload size.**  Both slices of `process_payload` (the arriving payload, and a buffered
    chunk inside the loop) are `v.erase(v.begin(), v.begin() + (cur - start))` under the guards `seq_compare(start, cur) < 0` and
    `seq_compare(start + |v|, cur) >= 0` (`> 0` inside the loop): the number of erased bytes never exceeds `|v|` — also for
    `|v| >= 2^31` and for `|v| >= 2^32` (`start + |v|` is computed in `size_t` and truncated).  So `|payload| >= 2^31` is not
    undefined behaviour. -/
theorem erase_in_bounds (cur start len : Nat) (hc : cur < 4294967296) (hs : start < 4294967296)
    (h1 : seqCompare start cur < 0) (h2 : seqCompare (wrap32 (start + len)) cur ≥ 0) : sub32 cur start ≤ len := by
  unfold seqCompare wrap32 at *
  unfold sub32
  split at h1
  · omega
  · split at h1
    · split at h1
      · split at h2
        · omega
        · split at h2
          · split at h2 <;> omega
          · split at h2 <;> omega
      · omega
    · split at h1
      · split at h2
        · omega
        · split at h2
          · split at h2 <;> omega
          · split at h2 <;> omega
      · omega

/-- the model's `List.drop` in `processPayload` therefore never saturates: it is the C++ `erase` exactly -/
theorem process_payload_slice_exact (t : Tracker) (seq : Nat) (payload : Bytes) (hc : t.seq < 4294967296)
    (hs : seq < 4294967296) (h1 : seqCompare seq t.seq < 0) (h2 : ¬ seqCompare (wrap32 (seq + payload.length)) t.seq < 0) :
    (payload.drop (sub32 t.seq seq)).length = payload.length - sub32 t.seq seq ∧ sub32 t.seq seq ≤ payload.length :=
  ⟨List.length_drop, erase_in_bounds t.seq seq payload.length hc hs h1 (by omega)⟩

/-- **What the code does with a segment of more than 2^31 bytes**: its end compares as lying BEFORE its start.  Arriving
    exactly in order (at the expected sequence number) it is discarded as already seen — nothing delivered, nothing buffered,
    `false` returned. -/
theorem oversize_segment_dropped (t : Tracker) (payload : Bytes) (hc : t.seq < 4294967296)
    (h1 : 2147483648 < payload.length) (h2 : payload.length < 4294967296) :
    processPayload t t.seq payload = (t, false) := by
  have : seqCompare (wrap32 (t.seq + payload.length)) t.seq < 0 := by
    unfold seqCompare wrap32
    split
    · omega
    · split
      · split <;> omega
      · split <;> omega
  unfold processPayload
  simp only [this, if_true]

theorem frontier_single (n : Nat) : frontier [⟨0, n⟩] n = n := by
  have h1 := frontier_le [⟨0, n⟩] n
  have h2 := frontier_ge [⟨0, n⟩] n n (Nat.le_refl n) (by
    intro p hp
    unfold covered
    simp only [List.any_cons, List.any_nil, Bool.or_false, decide_eq_true_eq]
    omega)
  omega

/-- **`|s| < 2^31` is needed**, for EVERY stream longer than 2^31 (and shorter than 2^32) and every initial sequence number:
    the one-segment history "the whole stream, in order" satisfies every other hypothesis, and the tracker delivers nothing. -/
theorem stream_bound_needed (s : Bytes) (isn : Nat) (hisn : isn < 4294967296)
    (h1 : 2147483648 < s.length) (h2 : s.length < 4294967296) :
    HistOK s [⟨0, s⟩] ∧ (runModel isn [⟨0, s⟩]).payload = [] ∧
    specOKw s isn ([(⟨0, s⟩ : SegD)].map SegD.seg) (runModel isn [⟨0, s⟩]).obs = false := by
  have hrun : runModel isn [⟨0, s⟩] = Tracker.init isn := by
    show (processPayload (Tracker.init isn) (seqOf isn 0) s).1 = _
    have e : seqOf isn 0 = isn := by unfold seqOf; omega
    rw [e]
    have := oversize_segment_dropped (Tracker.init isn) s hisn h1 h2
    simp only [Tracker.init] at this ⊢
    rw [this]
  refine ⟨⟨⟨?_, ?_, ?_⟩, trivial⟩, by rw [hrun]; rfl, ?_⟩
  · show ((frontier [] s.length : Nat) : Int) - 0 < 2147483648
    have := frontier_le [] s.length
    have h0 : frontier ([] : List Seg) s.length = 0 := by
      have : ∀ n, frontier ([] : List Seg) n = 0 := by
        intro n
        induction n with
        | zero => rfl
        | succ n ih => unfold frontier; simp [ih, covered]
      exact this _
    omega
  · show (0 : Int) + (s.length : Int) ≤ (s.length : Int); omega
  · unfold SegD.agrees; simp
  · rw [hrun]
    unfold specOKw Tracker.obs Tracker.init
    simp only [List.map_cons, List.map_nil, SegD.seg]
    rw [frontier_single]
    have : (([] : Bytes) == s.take s.length) = false := by
      rw [List.take_length]
      cases s with
      | nil => simp at h1
      | cons a r => rfl
    rw [this]
    simp only [Bool.false_and]

/-- **The byte counter**: `total_buffered_bytes_` is a `uint32_t`, so in every reachable state it is the sum of the chunk
    sizes modulo 2^32 (`buffered_bytes_exact`), and it is the exact sum precisely when that sum is below 2^32.  `|s| <= 64 KiB`
    in `tracker_refines_spec` is a sufficient condition for that (at most `|s|` chunks with distinct starts above the delivery
    point, each shorter than `|s|`); the necessary and sufficient one is the sum itself. -/
theorem byte_counter_exact_iff_small (seq0 : Nat) (ops : List Op) :
    let t := ops.foldl applyOp (Tracker.init seq0)
    t.total = sumSizes t.buf ↔ sumSizes t.buf < 4294967296 := by
  intro t
  have h := (buffered_bytes_exact seq0 ops).1
  show t.total = sumSizes t.buf ↔ _
  rw [h]
  unfold wrap32
  constructor
  · intro e; omega
  · intro e; exact Nat.mod_eq_of_lt e

end Tins.Props.C06
