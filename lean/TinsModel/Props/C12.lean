import TinsModel.Ownership.LemmasFrame
import TinsModel.Ownership.LemmasOptM
/-
  Property C12 — packet object trees keep sound ownership under copy, move, clone and re-linking.

  `Tins.Own.step` is the code-shaped pointer model (PDU / Packet / PDUOption mechanics over a heap of cells),
  `Tins.Own.AState.step` the chain-level specification.  All theorems quantify over EVERY finite program `ops`
  (operations the guard refuses — documented-undefined use, see `WellFormedProgram` below — leave the state
  unchanged, exactly as the harness refuses them on the real objects).
-/
namespace Tins.Props.C12
open Tins.Own

/-- `WellFormedProgram`: every operation of the program is accepted by the guard of `step` in the state where it
    runs: references designate live layers held through the named handle, target slots are empty, a pointer is adopted
    only from a handle that owns it, the source of a copy assignment is not a layer the target owns, move assignment
    is not between two different layers of one chain, `Packet::operator/=` is not applied to an empty Packet. -/
def WellFormedProgram (ops : List Op) : Prop :=
  ∀ k (h : k < ops.length), (step (run {} (ops.take k)) ops[k]).isSome

/-! ### refinement -/

/-- the pointer model refines the chain specification along every program -/
theorem model_refines_spec (ops : List Op) : Rep (run {} ops) (AState.run {} ops) :=
  run_rep rep_empty ops

/-- model and specification refuse exactly the same operations -/
theorem guards_agree (ops : List Op) (op : Op) :
    (step (run {} ops) op).isSome = ((AState.run {} ops).step op).isSome :=
  step_agree (model_refines_spec ops) op

/-! ### the ownership forest -/

/-- pointer-level statement of the ownership discipline -/
structure ForestInv (s : State) : Prop where
  /-- the parent link of a layer designates a layer whose inner pointer is that layer; a null parent link means a
      user handle holds the layer -/
  parent_is_owner : ∀ x n, s.heap.get x = some n →
    match n.parent with
    | some p => ∃ m, s.heap.get p = some m ∧ m.inner = some x
    | none => ∃ i, rootOf s i = some x
  /-- an inner pointer designates a live layer whose parent link points back -/
  inner_owned : ∀ p m x, s.heap.get p = some m → m.inner = some x → ∃ n, s.heap.get x = some n ∧ n.parent = some p
  /-- a handle designates a live layer without parent -/
  handle_root : ∀ i x, rootOf s i = some x → ∃ n, s.heap.get x = some n ∧ n.parent = none
  /-- no layer is held by two handles -/
  handle_unique : ∀ i j x, rootOf s i = some x → rootOf s j = some x → i = j
  /-- no cycles: from every live layer the inner pointers form a finite, repetition-free, null-terminated chain -/
  acyclic : ∀ x, (s.heap.get x).isSome → ∃ p c, hd c = some x ∧ Seg s.heap p c none ∧ (addrs c).Nodup
  /-- nothing is released twice, and released storage is not alive -/
  freed_once : s.heap.freed.Nodup ∧ ∀ a ∈ s.heap.freed, s.heap.get a = none
  /-- no access to released storage, no double delete, no fuel exhaustion has happened -/
  no_fault : s.heap.faults = 0

theorem forest_inv_of_rep {s : State} {A : AState} (hr : Rep s A) : ForestInv s where
  parent_is_owner := by
    intro x n hg
    obtain ⟨i, sl, pre, post, v, hsl, hc⟩ := hr.position (by rw [hg]; rfl)
    have hgx := hr.get_pos (x := (x, v)) hsl hc
    rw [hg] at hgx
    cases hgx
    rcases List.eq_nil_or_concat pre with rfl | ⟨pre', z, rfl⟩
    · simp only [lst_nil]
      refine ⟨i, ?_⟩
      rw [hr.rootOf hsl, hc]; rfl
    · rw [List.concat_eq_append] at hc ⊢
      rw [lst_concat]
      have hc' : sl.chain = pre' ++ z :: ((x, v) :: post) := by rw [hc]; simp
      exact ⟨_, hr.get_pos hsl hc', rfl⟩
  inner_owned := by
    intro p m x hg hi
    obtain ⟨i, sl, pre, post, v, hsl, hc⟩ := hr.position (by rw [hg]; rfl)
    have hgp := hr.get_pos (x := (p, v)) hsl hc
    rw [hg] at hgp
    cases hgp
    cases post with
    | nil => simp at hi
    | cons w post' =>
      simp only [hd_cons, Option.some.injEq] at hi
      have hc' : sl.chain = (pre ++ [(p, v)]) ++ w :: post' := by rw [hc]; simp
      subst hi
      exact ⟨_, hr.get_pos hsl hc', lst_concat _ _⟩
  handle_root := by
    intro i x hx
    cases hsl : A.slot? i with
    | none => rw [hr.rootOf_none hsl] at hx; cases hx
    | some sl =>
      rw [hr.rootOf hsl] at hx
      cases hch : sl.chain with
      | nil => rw [hch] at hx; cases hx
      | cons w r =>
        rw [hch] at hx
        simp only [hd_cons, Option.some.injEq] at hx
        subst hx
        exact ⟨_, hr.get_pos (pre := []) hsl hch, rfl⟩
  handle_unique := by
    intro i j x hi hj
    cases hsi : A.slot? i with
    | none => rw [hr.rootOf_none hsi] at hi; cases hi
    | some si =>
      cases hsj : A.slot? j with
      | none => rw [hr.rootOf_none hsj] at hj; cases hj
      | some sj =>
        rw [hr.rootOf hsi] at hi
        rw [hr.rootOf hsj] at hj
        have mem : ∀ (c : Chain), hd c = some x → x ∈ addrs c := by
          intro c hc
          cases c with
          | nil => cases hc
          | cons w r => simp only [hd_cons, Option.some.injEq] at hc; subst hc; simp
        exact hr.slots_disjoint hsi hsj (mem _ hi) (mem _ hj)
  acyclic := by
    intro x hx
    obtain ⟨i, sl, pre, post, v, hsl, hc⟩ := hr.position hx
    have hm := hr.seg_of_slot hsl
    have hseg := hr.heap.segs _ hm
    rw [hc] at hseg
    refine ⟨_, (x, v) :: post, rfl, Seg.sub hseg, ?_⟩
    have hn := addrs_sub_nodup hm hr.heap.nodup
    simp only [root] at hn
    rw [hc, addrs_append, List.nodup_append] at hn
    exact hn.2.1
  freed_once := by
    refine ⟨hr.heap.freed.1, ?_⟩
    intro a ha
    have := (hr.heap.freed.2 a).mp ha
    unfold Heap.get; rw [this]
  no_fault := hr.heap.nofault

/-- **forest invariant**: after every program the ownership discipline holds -/
theorem forest_inv (ops : List Op) : ForestInv (run {} ops) :=
  forest_inv_of_rep (model_refines_spec ops)

/-- who can own a layer -/
inductive Owner where
  | node (p : Nat)     -- the layer above, through its inner pointer
  | user (i : Nat)     -- the user, through handle `i`
deriving DecidableEq

def Owns (s : State) : Owner → Nat → Prop
  | .node p, x => ∃ m, s.heap.get p = some m ∧ m.inner = some x
  | .user i, x => rootOf s i = some x

/-- every live layer has exactly one owner: a parent layer or the user -/
theorem exactly_one_owner {s : State} (hinv : ForestInv s) (x : Nat) (hx : (s.heap.get x).isSome) :
    ∃ o, Owns s o x ∧ ∀ o', Owns s o' x → o' = o := by
  obtain ⟨n, hg⟩ := Option.isSome_iff_exists.mp hx
  have h1 := hinv.parent_is_owner x n hg
  cases hp : n.parent with
  | some p =>
    rw [hp] at h1
    refine ⟨.node p, h1, ?_⟩
    intro o' ho'
    cases o' with
    | node q =>
      obtain ⟨m, hm, hi⟩ := ho'
      obtain ⟨n', hn', hpar⟩ := hinv.inner_owned q m x hm hi
      rw [hg] at hn'; cases hn'
      rw [hp] at hpar; cases hpar; rfl
    | user i =>
      obtain ⟨n', hn', hpar⟩ := hinv.handle_root i x ho'
      rw [hg] at hn'; cases hn'
      rw [hp] at hpar; cases hpar
  | none =>
    rw [hp] at h1
    obtain ⟨i, hi⟩ := h1
    refine ⟨.user i, hi, ?_⟩
    intro o' ho'
    cases o' with
    | node q =>
      obtain ⟨m, hm, hi'⟩ := ho'
      obtain ⟨n', hn', hpar⟩ := hinv.inner_owned q m x hm hi'
      rw [hg] at hn'; cases hn'
      rw [hp] at hpar; cases hpar
    | user j => rw [hinv.handle_unique j i x ho' hi]

theorem exactly_one_owner_reachable (ops : List Op) (x : Nat) (hx : ((run {} ops).heap.get x).isSome) :
    ∃ o, Owns (run {} ops) o x ∧ ∀ o', Owns (run {} ops) o' x → o' = o :=
  exactly_one_owner (forest_inv ops) x hx

/-! ### destruction -/

theorem run_append (s : State) (a b : List Op) : run s (a ++ b) = run (run s a) b := by
  induction a generalizing s with
  | nil => rfl
  | cons op r ih => exact ih _

theorem arun_snoc (A0 : AState) (ops : List Op) (op : Op) : A0.run (ops ++ [op]) = (A0.run ops).stepD op := by
  induction ops generalizing A0 with
  | nil => rfl
  | cons o r ih => exact ih (A0.stepD o)

/-- destroying everything the user holds, after any program, releases every layer ever allocated exactly once:
    nothing stays alive, the release log has no duplicate and lists every allocated address, no fault occurred -/
theorem destroy_all_frees_each_once (ops : List Op) :
    let s := run {} (ops ++ [.fin])
    s.heap.live = 0 ∧ s.heap.freed.Nodup ∧ (∀ a, a < s.heap.cells.length ↔ a ∈ s.heap.freed) ∧ s.heap.faults = 0 := by
  intro s
  have hr : Rep s (AState.run {} (ops ++ [.fin])) := model_refines_spec _
  -- after `end` no handle holds anything
  have hslots : rootSegs (AState.run {} (ops ++ [.fin])).slots = [] := by
    rw [arun_snoc]
    simp only [AState.stepD, AState.step, Option.getD_some]
    exact rootSegs_all_none _
  have hheap := hr.heap
  rw [hslots] at hheap
  have hdead : ∀ a, s.heap.get a = none := by
    intro a
    cases hg : s.heap.get a with
    | none => rfl
    | some n => have := hheap.cover a (by rw [hg]; rfl); simp at this
  refine ⟨?_, hheap.freed.1, ?_, hheap.nofault⟩
  · unfold Heap.live
    rw [List.length_eq_zero_iff, List.filter_eq_nil_iff]
    intro c hc
    obtain ⟨a, ha, e⟩ := List.getElem_of_mem hc
    cases c with
    | none => simp
    | some n =>
      have : s.heap.get a = some n := Heap.get_eq_some.mpr (by rw [List.getElem?_eq_getElem ha, e])
      rw [hdead a] at this; cases this
  · intro a
    rw [hheap.freed.2 a]
    constructor
    · intro ha
      rw [List.getElem?_eq_getElem ha]
      cases hc : s.heap.cells[a] with
      | none => rfl
      | some n =>
        have : s.heap.get a = some n := Heap.get_eq_some.mpr (by rw [List.getElem?_eq_getElem ha, hc])
        rw [hdead a] at this; cases this
    · intro h
      exact (List.getElem?_eq_some_iff.mp h).1

/-! ### copies are deep, equal and fresh -/

theorem sub_setSlot_self {A : AState} {i : Nat} (hi : i < A.slots.length) (k : SKind) (x : Nat × View) (c : Chain) (n : Nat) :
    ((A.setSlot i (some ⟨k, x :: c⟩)).bump n).sub ⟨i, 0⟩ = some (x :: c) := by
  simp [AState.sub, AState.slot?, AState.setSlot, AState.bump, hi]

/-- `clone()` / copy construction: the copy has the same layers and fields as its source at the time of copying,
    consists only of storage never used before (so it shares nothing with any other object, alive or destroyed), and
    the source is unchanged -/
theorem clone_deep_equal (ops : List Op) (i : Nat) (r : Ref) (s' : State)
    (h : step (run {} ops) (.clone i r) = some s') :
    let s := run {} ops
    views (s'.chainAt ⟨i, 0⟩) = views (s.chainAt r) ∧ s.chainAt r ≠ [] ∧
    (∀ a ∈ addrs (s'.chainAt ⟨i, 0⟩), s.heap.cells.length ≤ a) ∧
    s'.chainAt r = s.chainAt r := by
  intro s
  have hr := model_refines_spec ops
  obtain ⟨A', hA, hr'⟩ := step_rep hr h
  rw [hr'.chainAt, hr'.chainAt, hr.chainAt]
  simp only [AState.step] at hA
  split at hA
  · next he =>
    split at hA
    · next c hs =>
      cases hA
      obtain ⟨sl, hsl, hdrop, _, hne⟩ := sub_spec hs
      obtain ⟨hi, _⟩ := isEmpty_spec he
      have hri : r.slot ≠ i := ne_of_empty_of_slot he hsl
      cases c with
      | nil => exact absurd rfl hne
      | cons x post =>
        obtain ⟨xa, xv⟩ := x
        have e1 : ((AState.setSlot (AState.run {} ops) i (some ⟨.pdu, freshCopy (AState.run {} ops).next ((xa, xv) :: post)⟩)).bump
            ((xa, xv) :: post).length).sub ⟨i, 0⟩ = some (freshCopy (AState.run {} ops).next ((xa, xv) :: post)) := by
          simp only [freshCopy]; exact sub_setSlot_self hi _ _ _ _
        have e2 : ((AState.setSlot (AState.run {} ops) i (some ⟨.pdu, freshCopy (AState.run {} ops).next ((xa, xv) :: post)⟩)).bump
            ((xa, xv) :: post).length).sub r = some ((xa, xv) :: post) := by
          rw [← hs]
          simp [AState.sub, AState.slot?, AState.setSlot, AState.bump, List.getElem?_set, Ne.symm hri]
        rw [e1, e2, hs]
        refine ⟨views_freshCopy _ _, by simp, ?_, rfl⟩
        intro a ha
        rw [← hr.next]
        exact addrs_freshCopy_ge _ _ a ha
    · cases hA
  · cases hA

theorem drop_splice {full : Chain} {d : Nat} {x : Nat × View} {post : Chain} (hdrop : full.drop d = x :: post)
    (top : Nat × View) (tail : Chain) : (AState.splice full d top tail).drop d = top :: tail := by
  unfold AState.splice
  have hlen : d < full.length := by
    apply Classical.byContradiction
    intro hh
    rw [List.drop_eq_nil_of_le (by omega)] at hdrop
    cases hdrop
  have : (full.take d).length = d := by simp; omega
  rw [List.drop_append_of_le_length (by omega), List.drop_of_length_le (by omega)]
  simp [List.drop_eq_nil_of_le, this]

theorem sub_setChain_self {A : AState} {r : Ref} {sl : ASlot} (hsl : A.slot? r.slot = some sl) {x : Nat × View} {post : Chain}
    (hdrop : sl.chain.drop r.depth = x :: post) (top : Nat × View) (tail : Chain) (n : Nat) :
    ((A.setChain r.slot (AState.splice sl.chain r.depth top tail)).bump n).sub r = some (top :: tail) := by
  obtain ⟨hi, e⟩ := slot?_some hsl
  have h1 : ((A.setChain r.slot (AState.splice sl.chain r.depth top tail)).bump n).slot? r.slot =
      some { sl with chain := AState.splice sl.chain r.depth top tail } := by
    simp [AState.slot?, AState.bump, AState.setChain_slots hsl, hi]
  simp only [AState.sub, h1, drop_splice hdrop]

/-- copy assignment `*a = *b`: afterwards everything below the target layer equals everything below the source layer
    at the time of copying — also when the source has fewer layers than the target had, or none —, it is made of
    storage never used before, the target layer keeps its identity, and when both layers have the same class (the
    member-wise `T::operator=`) the whole target equals the whole source. -/
theorem copy_assign_equal (ops : List Op) (a b : Ref) (s' : State)
    (h : step (run {} ops) (.assign a b) = some s') :
    let s := run {} ops
    ∃ xa ca yb cb xa' ca', s.chainAt a = xa :: ca ∧ s.chainAt b = yb :: cb ∧ s'.chainAt a = xa' :: ca' ∧
      xa'.1 = xa.1 ∧ views ca' = views cb ∧ (∀ z ∈ addrs ca', s.heap.cells.length ≤ z) ∧
      (xa.2.cls = yb.2.cls → views (s'.chainAt a) = views (s.chainAt b)) := by
  intro s
  have hr := model_refines_spec ops
  obtain ⟨A', hA, hr'⟩ := step_rep hr h
  rw [hr'.chainAt, hr.chainAt, hr.chainAt]
  simp only [AState.step] at hA
  split at hA
  · next sl x ra y rb hsl hsa hsb =>
    split at hA
    · cases hA
    · cases hA
      obtain ⟨sl', hsl', hdrop, _, _⟩ := sub_spec hsa
      rw [hsl] at hsl'; cases hsl'
      rw [hsa, hsb, sub_setChain_self hsl hdrop]
      simp only [Option.getD_some]
      refine ⟨x, ra, y, rb, _, _, rfl, rfl, rfl, ?_, views_freshCopy _ _, ?_, ?_⟩
      · split <;> rfl
      · intro z hz; rw [← hr.next]; exact addrs_freshCopy_ge _ _ z hz
      · intro hcls
        have : AState.sameCls x y = true := by simp [AState.sameCls, hcls]
        simp [this, views, views_freshCopy]
        have := views_freshCopy (AState.run {} ops).next rb
        simpa [views] using this
  · cases hA

/-- **independence**: an operation changes nothing that a handle it does not name observes — same layers, same
    identities, same fields, at every depth.  With `handles_disjoint` (no layer is reachable from two handles) this is
    "later changes to a copy or to its source never show through the other". -/
theorem copy_independent (ops : List Op) (op : Op) (s' : State) (h : step (run {} ops) op = some s')
    (j : Nat) (hj : touches op j = false) (d : Nat) : s'.chainAt ⟨j, d⟩ = (run {} ops).chainAt ⟨j, d⟩ := by
  have hr := model_refines_spec ops
  obtain ⟨A', hA, hr'⟩ := step_rep hr h
  rw [hr'.chainAt, hr.chainAt]
  have := spec_frame hA hj
  simp only [AState.sub, AState.slot?, this]

theorem handles_disjoint (ops : List Op) (i j : Nat) (hij : i ≠ j) (d e : Nat) :
    ∀ x ∈ addrs ((run {} ops).chainAt ⟨i, d⟩), x ∉ addrs ((run {} ops).chainAt ⟨j, e⟩) := by
  have hr := model_refines_spec ops
  intro x hxi hxj
  rw [hr.chainAt] at hxi hxj
  cases hsi : (AState.run {} ops).sub ⟨i, d⟩ with
  | none => rw [hsi] at hxi; simp at hxi
  | some ci =>
    cases hsj : (AState.run {} ops).sub ⟨j, e⟩ with
    | none => rw [hsj] at hxj; simp at hxj
    | some cj =>
      rw [hsi] at hxi; rw [hsj] at hxj
      simp only [Option.getD_some] at hxi hxj
      obtain ⟨si, hsli, _, hci, _⟩ := sub_spec hsi
      obtain ⟨sj, hslj, _, hcj, _⟩ := sub_spec hsj
      have h1 : x ∈ addrs si.chain := by rw [hci, addrs_append]; exact List.mem_append_right _ hxi
      have h2 : x ∈ addrs sj.chain := by rw [hcj, addrs_append]; exact List.mem_append_right _ hxj
      exact hij (hr.slots_disjoint hsli hslj h1 h2)

/-- move construction: the new object is fresh storage with the source's fields, it takes over the source's inner
    layers *themselves* (same identities, nothing copied), and the source is left as a single moved-from layer -/
theorem move_transfers (ops : List Op) (i : Nat) (r : Ref) (s' : State)
    (h : step (run {} ops) (.movector i r) = some s') :
    let s := run {} ops
    ∃ x post, s.chainAt r = x :: post ∧
      s'.chainAt ⟨i, 0⟩ = (s.heap.cells.length, x.2) :: post ∧
      s'.chainAt r = [(x.1, x.2.moved)] := by
  intro s
  have hr := model_refines_spec ops
  obtain ⟨A', hA, hr'⟩ := step_rep hr h
  rw [hr'.chainAt, hr'.chainAt, hr.chainAt]
  simp only [AState.step] at hA
  split at hA
  · next he =>
    split at hA
    · next sl x post hsl hs =>
      cases hA
      obtain ⟨sl', hsl', hdrop, _, _⟩ := sub_spec hs
      rw [hsl] at hsl'; cases hsl'
      obtain ⟨hi, _⟩ := isEmpty_spec he
      obtain ⟨hj, ej⟩ := slot?_some hsl
      have hri : r.slot ≠ i := ne_of_empty_of_slot he hsl
      refine ⟨x, post, by rw [hs]; rfl, ?_, ?_⟩
      · rw [← hr.next]
        simp [AState.sub, AState.slot?, AState.setSlot, AState.bump, AState.setChain_slots hsl, hi]
      · have h1 : ((((AState.run {} ops).setChain r.slot (AState.splice sl.chain r.depth (x.1, x.2.moved) [])).setSlot i
            (some ⟨.pdu, ((AState.run {} ops).next, x.2) :: post⟩)).bump 1).slot? r.slot =
            some { sl with chain := AState.splice sl.chain r.depth (x.1, x.2.moved) [] } := by
          simp [AState.slot?, AState.setSlot, AState.bump, AState.setChain_slots hsl, List.getElem?_set, Ne.symm hri, hri, hj]
        simp only [AState.sub, h1, drop_splice hdrop, Option.getD_some]
    · cases hA
  · cases hA

/-! ### the defect of the pinned tree, at model level -/

def demoHeap : Heap :=
  { cells := [some ⟨⟨0, 0, 7⟩, some 1, none⟩, some ⟨⟨1, 1, 9⟩, none, some 0⟩, some ⟨⟨0, 0, 5⟩, none, none⟩] }

/-- the pinned `PDU::operator=` (`copy_inner_pdu` clones only if the source has an inner PDU): assigning a one-layer
    packet over a two-layer packet keeps the old second layer … -/
theorem pinned_copy_assign_keeps_old_inner :
    views (chainFrom (assignBaseOld demoHeap 0 2) 3 (some 0)) = [⟨0, 0, 7⟩, ⟨1, 1, 9⟩] := by decide

/-- … whereas the fixed one makes the target as short as its source and releases the old layer -/
theorem fixed_copy_assign_drops_old_inner :
    views (chainFrom (assignBase demoHeap 0 2) 3 (some 0)) = [⟨0, 0, 7⟩] ∧ (assignBase demoHeap 0 2).freed = [1] := by decide

/-! ### recorded finding KF-C12-3: copy assignment from a layer the target owns

  `a = *a.inner_pdu()` (e.g. unwrapping IP-in-IP in place): `PDU::operator=` replaces — and thereby destroys — the
  inner chain of `a`, which contains the source, and the implicit member-wise assignment of the derived class then
  reads the destroyed source.  Repairing it needs a user-provided `operator=` in every PDU class (or a changed
  contract), so the hazard is recorded, excluded from `WellFormedProgram` by the guard, and reproduced on every run. -/

/-- full statement: copy assignment between any two live layers never touches released storage -/
def CopyAssignAlwaysSafe : Prop :=
  ∀ (ops : List Op) (a b : Ref) (x y : Nat), resolve (run {} ops) a = some x → resolve (run {} ops) b = some y →
    (assignSame (run {} ops).heap x y).faults = 0

def aliasProgram : List Op := [.init 2, .new 0 1 1 9, .new 1 1 1 7, .setinner ⟨0, 0⟩ 1]

/-- refuted on a two-layer packet of one class: `*top = *top->inner_pdu()` -/
theorem copyAssignAlwaysSafe_fails : ¬ CopyAssignAlwaysSafe := by
  intro h
  have := h aliasProgram ⟨0, 0⟩ ⟨0, 1⟩ 0 1 (by decide) (by decide)
  revert this
  decide

/-- the excluded region, as a decidable predicate on the two references -/
def SourceOwnedByTarget (a b : Ref) : Prop := a.slot = b.slot ∧ a.depth < b.depth

instance (a b : Ref) : Decidable (SourceOwnedByTarget a b) := by unfold SourceOwnedByTarget; exact inferInstance

/-- outside the excluded region copy assignment is accepted and safe, after every program -/
theorem copy_assign_safe_partial (ops : List Op) (a b : Ref) (x y : Nat)
    (hx : resolve (run {} ops) a = some x) (hy : resolve (run {} ops) b = some y) (hex : ¬ SourceOwnedByTarget a b) :
    ∃ s', step (run {} ops) (.assign a b) = some s' ∧ s'.heap.faults = 0 ∧ ForestInv s' := by
  have hsome : (step (run {} ops) (.assign a b)).isSome := by
    unfold SourceOwnedByTarget at hex
    simp only [step, hx, hy, hex, if_false]
    split <;> rfl
  obtain ⟨s', hs'⟩ := Option.isSome_iff_exists.mp hsome
  obtain ⟨A', _, hr'⟩ := step_rep (model_refines_spec ops) hs'
  exact ⟨s', hs', hr'.heap.nofault, forest_inv_of_rep hr'⟩

/-! ### non-vacuity -/

def demoProgram : List Op :=
  [.init 4, .new 0 0 0 7, .new 1 1 1 9, .diveq ⟨0, 0⟩ ⟨1, 0⟩, .clone 2 ⟨0, 0⟩, .set ⟨2, 1⟩ 33, .assign ⟨0, 0⟩ ⟨2, 0⟩,
   .movector 3 ⟨2, 0⟩, .del 2, .release 2 ⟨3, 0⟩, .del 1, .pkown 1 2, .pkcopy 2 1, .fin]

/-- a 14-step program over four handles that the guard accepts at every step … -/
example : WellFormedProgram demoProgram := by unfold WellFormedProgram; decide

/-- … and that really builds, copies, edits and re-links layers: before `end` three handles hold five live layers -/
example : (run {} (demoProgram.take 13)).heap.live = 5 ∧ (run {} (demoProgram.take 13)).heap.freed.length = 3 := by decide

example : (run {} demoProgram).heap.live = 0 ∧ (run {} demoProgram).heap.freed.length = 8 := by decide

end Tins.Props.C12

/-!
  ## `PDUOption` at storage level (include/tins/pdu_option.h)

  `Tins.OptStore.step` is the code-shaped model of the option class over an explicit heap (members `option_`, `size_`,
  `real_size_`, the union `payload_`; every constructor, both assignment operators, the destructor,
  `set_payload_contents`, `data_ptr`; `std::vector<option>::push_back / pop_back / erase` as the sequences of member
  calls libstdc++ makes); `Tins.OptStore.SState.step` is the value-level specification.  All theorems quantify over
  EVERY history of operations on a pool of options (refused operations — constructing over a live object, using a
  destroyed one — leave the state unchanged, exactly as the harness refuses them).
-/
namespace Tins.Props.C12
open Tins.OptStore

/-! ### `option_storage_inv` -/

/-- the storage invariant is inductive: EVERY accepted operation preserves it from EVERY state that has it -/
theorem option_storage_inv_step {σ σ' : Pool} {op : Op} (h : StoreInv σ) (hs : step σ op = some σ') : StoreInv σ' := by
  obtain ⟨A', _, hr⟩ := step_rep (rep_of_storeInv h) hs
  exact storeInv_of_rep hr

theorem option_storage_inv_run {σ : Pool} (h : StoreInv σ) (ops : List Op) : StoreInv (run σ ops) := by
  induction ops generalizing σ with
  | nil => exact h
  | cons op r ih =>
    apply ih
    unfold stepD
    cases hs : step σ op with
    | none => exact h
    | some σ' => exact option_storage_inv_step h hs

/-- **storage invariant**: after every history each live option with `real_size_ > 8` owns exactly one live heap block
    of exactly `real_size_` bytes, no block is owned by two options, every live block has an owner (no leak), small
    and moved-from options own nothing, released storage is never read and nothing is released twice (`no_fault`,
    `freed_once`) -/
theorem option_storage_inv (ops : List Op) : StoreInv (run {} ops) :=
  option_storage_inv_run (storeInv_of_rep rep_empty) ops

/-- an option whose data fits the small buffer owns no heap block -/
theorem option_small_owns_nothing {σ : Pool} {i : Nat} {o : Obj} (ho : σ.obj? i = some o) (hs : o.real_size_ ≤ smallSize)
    (a : Nat) : ¬ OptStore.Owns σ i a := by
  rintro ⟨o', ho', hb, _⟩
  rw [ho] at ho'; cases ho'
  omega

theorem movedFrom_data_small (v : VOpt) : v.movedFrom.data.length ≤ smallSize := by
  unfold VOpt.movedFrom smallSize
  split
  · simp
  · omega

/-- the block its owner releases when it is destroyed was alive, had not been released before, and is released then -/
theorem option_owner_destroyed_frees_block {σ σ' : Pool} {i a : Nat} (h : StoreInv σ) (ho : OptStore.Owns σ i a)
    (hs : step σ (.del i) = some σ') : σ'.freed = a :: σ.freed ∧ σ'.cell? a = none ∧ a ∉ σ.freed := by
  simp only [step] at hs
  split at hs
  · cases hs; exact destroy_frees h ho
  · cases hs

theorem run_snoc (σ : Pool) (ops : List Op) (op : Op) : run σ (ops ++ [op]) = stepD (run σ ops) op := by
  induction ops generalizing σ with
  | nil => rfl
  | cons o r ih => exact ih (stepD σ o)

theorem srun_snoc (A : SState) (ops : List Op) (op : Op) : A.run (ops ++ [op]) = (A.run ops).stepD op := by
  induction ops generalizing A with
  | nil => rfl
  | cons o r ih => exact ih (A.stepD o)

/-- the storage model refines the value specification along every history -/
theorem option_model_refines_spec (ops : List Op) : Rep (run {} ops) (SState.run {} ops) := run_rep rep_empty ops

/-- destroying every option, after any history, releases every block ever allocated exactly once: nothing stays
    alive, the release log has no duplicate and lists every allocated address, no fault occurred -/
theorem option_destroy_all_frees_each_block_once (ops : List Op) :
    let σ := run {} (ops ++ [.fin])
    σ.live = 0 ∧ σ.freed.Nodup ∧ (∀ a, a < σ.cells.length ↔ a ∈ σ.freed) ∧ σ.faults = 0 := by
  intro σ
  have hr : Rep σ (SState.run {} (ops ++ [.fin])) := option_model_refines_spec _
  have hinv := storeInv_of_rep hr
  have hnone : ∀ i, (SState.run {} (ops ++ [.fin])).opt? i = none := by
    intro i
    rw [srun_snoc]
    simp only [SState.stepD, SState.step, Option.getD_some]
    apply opt?_all_none
    intro x hx
    obtain ⟨_, _, e⟩ := List.mem_map.mp hx
    exact e.symm
  have hdead : ∀ a, σ.cell? a = none := by
    intro a
    cases hc : σ.cell? a with
    | none => rfl
    | some bs =>
      obtain ⟨i, o, ho, _⟩ := hinv.no_leak a bs hc
      have := hr.live_iff i
      rw [ho, hnone] at this
      cases this
  have hcell : ∀ a, a < σ.cells.length → σ.cells[a]? = some none := by
    intro a ha
    rw [List.getElem?_eq_getElem ha]
    cases hc : σ.cells[a] with
    | none => rfl
    | some bs =>
      have : σ.cell? a = some bs := cell?_eq_some.mpr (by rw [List.getElem?_eq_getElem ha, hc])
      rw [hdead a] at this; cases this
  refine ⟨?_, hinv.freed_once.1, ?_, hinv.no_fault⟩
  · unfold Pool.live
    rw [List.length_eq_zero_iff, List.filter_eq_nil_iff]
    intro c hc
    obtain ⟨a, ha, e⟩ := List.getElem_of_mem hc
    have := hcell a ha
    rw [List.getElem?_eq_getElem ha, e] at this
    cases this
    simp
  · intro a
    rw [hinv.freed_once.2 a]
    exact ⟨hcell a, fun h => (List.getElem?_eq_some_iff.mp h).1⟩

/-! ### `option_value_refines` -/

/-- **value refinement**: what every option reports — `(option(), length_field(), the data_size() bytes at
    data_ptr())`, read through the storage model, `none` for a slot without object — is, after every history, exactly
    the value the plain value model holds: a copy has the value of its source; a move gives the target the value of
    the source and leaves the source reporting its old `option()` and `length_field()` with `data_size() = 0` when its
    data was longer than 8 bytes, unchanged otherwise (`VOpt.movedFrom`) -/
theorem option_value_refines (ops : List Op) (i : Nat) : (run {} ops).view i = (SState.run {} ops).opt? i :=
  (option_model_refines_spec ops).view_eq i

/-- model and value specification refuse exactly the same operations -/
theorem option_guards_agree (ops : List Op) (op : Op) :
    (step (run {} ops) op).isSome = ((SState.run {} ops).step op).isSome :=
  step_agree (option_model_refines_spec ops) op

/-- copy assignment (also onto itself): the target reports what the source reported, the source is unchanged -/
theorem option_copy_assign_equal (ops : List Op) (i j : Nat) (σ' : Pool) (h : step (run {} ops) (.assign i j) = some σ') :
    σ'.view i = (run {} ops).view j ∧ σ'.view j = (run {} ops).view j ∧ ((run {} ops).view j).isSome := by
  have hr := option_model_refines_spec ops
  obtain ⟨A', hA, hr'⟩ := step_rep hr h
  rw [hr'.view_eq, hr'.view_eq, hr.view_eq]
  simp only [SState.step] at hA
  split at hA
  · next vi v hi hj =>
    cases hA
    rw [hj, opt?_put, opt?_put]
    have hl := lt_of_opt? hi
    refine ⟨by simp [hl], ?_, rfl⟩
    split
    · rfl
    · exact hj
  · cases hA

/-- move assignment: between two options the target reports what the source reported and the source is left
    moved-from; onto itself the option is left moved-from -/
theorem option_move_assign_transfers (ops : List Op) (i j : Nat) (σ' : Pool)
    (h : step (run {} ops) (.massign i j) = some σ') :
    (i ≠ j → σ'.view i = (run {} ops).view j ∧ σ'.view j = ((run {} ops).view j).map VOpt.movedFrom) ∧
    (i = j → σ'.view i = ((run {} ops).view i).map VOpt.movedFrom) := by
  have hr := option_model_refines_spec ops
  obtain ⟨A', hA, hr'⟩ := step_rep hr h
  rw [hr'.view_eq, hr'.view_eq, hr.view_eq, hr.view_eq]
  simp only [SState.step] at hA
  split at hA
  · next vi v hi hj =>
    have hli := lt_of_opt? hi
    have hlj := lt_of_opt? hj
    split at hA
    · next e =>
      cases hA
      subst e
      rw [hi] at hj; cases hj
      refine ⟨fun hne => absurd rfl hne, fun _ => ?_⟩
      rw [opt?_put, hi]
      simp [hli]
    · next e =>
      cases hA
      refine ⟨fun _ => ?_, fun e' => absurd e' e⟩
      have e' : ¬ j = i := fun q => e q.symm
      have hli' : i < ((SState.run {} ops).put j (some v.movedFrom)).opts.length := by simpa using hli
      have h1 : (((SState.run {} ops).put j (some v.movedFrom)).put i (some v)).opt? i = some v := by
        rw [opt?_put, if_pos ⟨rfl, hli'⟩]
      have h2 : (((SState.run {} ops).put j (some v.movedFrom)).put i (some v)).opt? j = some v.movedFrom := by
        rw [opt?_put_ne e', opt?_put, if_pos ⟨rfl, hlj⟩]
      rw [h1, h2, hj]
      exact ⟨rfl, rfl⟩
  · cases hA

/-- a moved-from option owns no heap block -/
theorem option_moved_from_owns_nothing (ops : List Op) (i j : Nat) (hne : i ≠ j) (σ' : Pool)
    (h : step (run {} ops) (.massign i j) = some σ') (a : Nat) : ¬ OptStore.Owns σ' j a := by
  have hr := option_model_refines_spec ops
  obtain ⟨A', hA, hr'⟩ := step_rep hr h
  have hv := (option_move_assign_transfers ops i j σ' h).1 hne
  intro ⟨o, ho, hb, _⟩
  obtain ⟨v, hfv, hrep⟩ := hr'.inv.rep_of ho
  have h2 := hv.2
  rw [hr'.view_eq, hfv] at h2
  cases hx : (run {} ops).view j with
  | none => rw [hx] at h2; cases h2
  | some w =>
    rw [hx] at h2
    simp only [Option.map_some, Option.some.injEq] at h2
    have := movedFrom_data_small w
    rw [← h2, ← hrep.real] at this
    omega

/-! ### `option_copy_independent` -/

/-- **independence / frame**: an operation changes nothing that an option it does not name reports -/
theorem option_copy_independent (ops : List Op) (op : Op) (σ' : Pool) (h : step (run {} ops) op = some σ') (k : Nat)
    (hk : touches (run {} ops).nuser (run {} ops).vlen op k = false) : σ'.view k = (run {} ops).view k := by
  have hr := option_model_refines_spec ops
  obtain ⟨A', hA, hr'⟩ := step_rep hr h
  rw [hr'.view_eq, hr.view_eq]
  rw [hr.nuser, hr.vlen] at hk
  exact spec_frame hr.cap hA k hk

/-- after a copy construction, any later operation on one side leaves what the other side reports unchanged -/
theorem option_copy_then_op (ops : List Op) (i j : Nat) (op : Op) (σ1 σ2 : Pool)
    (h1 : step (run {} ops) (.copy i j) = some σ1) (h2 : step σ1 op = some σ2) :
    σ1.view i = (run {} ops).view j ∧ σ1.view j = (run {} ops).view j ∧
    (touches σ1.nuser σ1.vlen op j = false → σ2.view j = (run {} ops).view j) ∧
    (touches σ1.nuser σ1.vlen op i = false → σ2.view i = (run {} ops).view j) := by
  have e1 : σ1 = run {} (ops ++ [.copy i j]) := by rw [run_snoc]; unfold stepD; rw [h1]; rfl
  have hr := option_model_refines_spec ops
  obtain ⟨A1, hA1, hr1⟩ := step_rep hr h1
  have hvi : σ1.view i = (run {} ops).view j ∧ σ1.view j = (run {} ops).view j := by
    rw [hr1.view_eq, hr1.view_eq, hr.view_eq]
    simp only [SState.step] at hA1
    split at hA1
    · next v hj =>
      split at hA1
      · next hg =>
        cases hA1
        have hl : i < (SState.run {} ops).opts.length := by have := hr.cap; omega
        rw [hj, opt?_put, opt?_put]
        refine ⟨by simp [hl], ?_⟩
        split
        · rfl
        · exact hj
      · cases hA1
    · cases hA1
  refine ⟨hvi.1, hvi.2, ?_, ?_⟩
  · intro hk
    subst e1
    rw [option_copy_independent _ op σ2 h2 j hk]; exact hvi.2
  · intro hk
    subst e1
    rw [option_copy_independent _ op σ2 h2 i hk]; exact hvi.1

/-! ### a vector of options -/

/-- `erase(begin() + k)` — move assignments of the later elements one slot down, destruction of the last — closes the
    gap and changes nothing else: every slot before position `k` reports what it did, every later element of the
    vector reports what its successor did, the vector's last slot holds no object (by `option_storage_inv_step` the
    storage invariant survives, by `option_value_refines` the reports are the value model's) -/
theorem option_erase_closes_gap (ops : List Op) (k : Nat) (σ' : Pool) (h : step (run {} ops) (.verase k) = some σ') (j : Nat) :
    let σ := run {} ops
    σ'.view j = if j < σ.nuser + k then σ.view j else if j < σ.nuser + σ.vlen - 1 then σ.view (j + 1)
                else if j = σ.nuser + σ.vlen - 1 then none else σ.view j := by
  intro σ
  have hr := option_model_refines_spec ops
  obtain ⟨A', hA, hr'⟩ := step_rep hr h
  rw [hr'.view_eq, hr.view_eq, hr.view_eq, hr.nuser, hr.vlen]
  simp only [SState.step] at hA
  split at hA
  · next hk => cases hA; exact erase_opt? _ k hk hr.cap j
  · cases hA

/-! ### the defect of the pinned tree (KF-C12-2), at storage level -/

def heapOptionPool : Pool := run {} [.init 1 0, .newRange 0 3 [65, 66, 67, 68, 69, 70, 71, 72, 73, 74, 75, 76]]

/-- the pinned `operator=(const PDUOption&)` (no identity test) on itself: `delete[]` of its own buffer, then
    `set_payload_contents` copies from that released buffer — a read of released storage … -/
theorem pinned_option_self_assign_reads_released :
    (heapOptionPool.copyAssignOld 0 0).faults = 1 ∧ (heapOptionPool.copyAssignOld 0 0).freed = [0] := by decide

/-- … whereas the fixed operator leaves the option alone, for every pool and every slot -/
theorem fixed_option_self_assign_noop (σ : Pool) (t : Nat) : σ.copyAssign t t = σ := by simp [Pool.copyAssign]

/-! ### non-vacuity -/

def OptWellFormed (ops : List Op) : Prop := ∀ k (h : k < ops.length), (step (run {} (ops.take k)) ops[k]).isSome

def optDemo : List Op :=
  [.init 4 3, .newRange 0 1 [1, 2, 3], .newAdv 1 2 40 [9, 8, 7, 6, 5, 4, 3, 2, 1, 0, 1, 2], .copy 2 1, .assign 1 1,
   .massign 0 1, .vpush 2, .vpushMove 2, .vpush 0, .massign 2 2, .verase 0, .move 3 4, .assign 4 3, .read 4, .vpop, .del 3, .fin]

/-- a 17-step history over four user slots and a vector that the guard accepts at every step … -/
example : OptWellFormed optDemo := by unfold OptWellFormed; decide

/-- … in which options really change between small-buffer and heap storage: before `end` three heap blocks are alive,
    two have been released … -/
example : (run {} (optDemo.take 16)).live = 2 ∧ (run {} (optDemo.take 16)).freed.length = 3 ∧
    (run {} (optDemo.take 16)).view 0 = some ⟨2, 40, [9, 8, 7, 6, 5, 4, 3, 2, 1, 0, 1, 2]⟩ ∧
    (run {} (optDemo.take 16)).view 1 = some ⟨2, 40, []⟩ := by decide

/-- … and afterwards nothing is alive -/
example : (run {} optDemo).live = 0 ∧ (run {} optDemo).freed.length = 5 ∧ (run {} optDemo).faults = 0 := by decide

example : OptStore.Owns (run {} (optDemo.take 4)) 1 0 ∧ OptStore.Owns (run {} (optDemo.take 4)) 2 1 := by
  refine ⟨⟨⟨2, 40, 12, .big (.addr 0)⟩, by decide, by decide, rfl⟩, ⟨⟨2, 40, 12, .big (.addr 1)⟩, by decide, by decide, rfl⟩⟩

/-- the hypotheses of `option_owner_destroyed_frees_block`, `option_copy_then_op`, `option_move_assign_transfers`
    (both forms) and `option_erase_closes_gap` are met along this history: an owner is destroyed, a copy is followed by
    an operation on its source, a heap-backed option is move-assigned to another and to itself, a vector of three
    heap-backed / moved-from options loses its first element -/
example : (step (run {} (optDemo.take 4)) (.del 2)).isSome ∧
    (step (run {} (optDemo.take 3)) (.copy 2 1)).isSome ∧ (step (run {} (optDemo.take 4)) (.massign 1 2)).isSome ∧
    (step (run {} (optDemo.take 5)) (.massign 0 1)).isSome ∧ (step (run {} (optDemo.take 9)) (.massign 2 2)).isSome ∧
    (step (run {} (optDemo.take 10)) (.verase 0)).isSome ∧ (run {} (optDemo.take 10)).vlen = 3 := by decide

end Tins.Props.C12
