import TinsModel.Ownership.Spec
/- Property C12 — theorems (placeholder while the machinery is brought up) -/
namespace Tins.Props.C12
open Tins.Own

theorem placeholder : (run {} []).slots = [] := rfl

end Tins.Props.C12
