import TinsModel.Dns.Spec
/- Property C10 — theorems (statements only here; helper lemmas live in TinsModel/Dns/*). -/
namespace Tins.Props.C10
open Tins Tins.Dns

/-- a fresh message has four empty sections -/
theorem fresh_sections : queries {} = .ok [] ∧ answers {} = .ok [] := by
  constructor <;> rfl

end Tins.Props.C10
