import TinsModel.Dns.Refine
import TinsModel.Dns.Compose
import TinsModel.Dns.Update
import TinsModel.Dns.Oracle
import TinsModel.Dns.SoaLemmas
import TinsModel.Dns.EditAny
import TinsModel.Dns.GetSound
import TinsModel.Dns.CompressMsg
/-
  Property C10 — DNS messages stay coherent under parsing, editing and name compression.
  Only the property theorems live here; the model is `TinsModel/Dns/Model.lean`, the specification
  `TinsModel/Dns/Spec.lean`, helper lemmas `TinsModel/Dns/{Lemmas,Safety,Names,Records,Refine,Compose}.lean`;
  for stored messages with name compression: `Layout` (layout relation, `wfMsg`), `LayoutSound`, `LayoutShift`
  (transport), `UpdateLayout` (`update_records` on a layout), `Via` (pointer-target invariant, `compose_name`
  complete), `GetLayout` / `GetSound` (getters, constructor), `WireLayout`, `MsgLayout`, `Insert`, `InsertSec`,
  `EditBuf`, `EditWf`, `EditAny` (one insertion), `CompressName`, `CompressMsg` (the reference compressor).
-/
namespace Tins.Props.C10
open Tins Tins.Dns

/-! ## 1. Memory safety of the getters (any object state the library can be in, any content) -/

/-- object states the library can reach: a fresh object, any accepted wire message, and any edit of those -/
inductive Reachable : Msg → Prop
  | fresh : Reachable {}
  | parsed (b : Bytes) (m : Msg) : parse b = .ok m → Reachable m
  | addQuery (m m' : Msg) (q : Query) : Reachable m → addQuery m q = .ok m' → Reachable m'
  | addRecord (m m' : Msg) (sec : Section) (r : NewRec) : Reachable m → addRecord m sec r = .ok m' → Reachable m'

/-- the section offsets of every reachable object are ordered and inside `records_data_` -/
theorem reachable_inv {m : Msg} (h : Reachable m) : Inv m := by
  induction h with
  | fresh => exact ⟨Nat.le_refl _, Nat.le_refl _, Nat.le_refl _⟩
  | parsed b m hp => exact Out.sat_of_eq_ok (parse_sat b) hp
  | addQuery m m' q _ ha ih =>
    by_cases he : q.type < 64 ∧ q.cls < 256
    · exact Out.sat_of_eq_ok (addQuery_sat_of_enum ih he) ha
    · unfold Dns.addQuery enumLoad at ha
      rw [if_neg he] at ha
      cases ha
  | addRecord m m' sec r _ ha ih => exact Out.sat_of_eq_ok (addRecord_sat sec r ih) ha

/-- FULL STATEMENT: no getter touches memory outside the object, for any reachable object (any wire input, any
    edit history).  It does not hold on the current tree: see `getters_noFault_fails` (KF-C10-1). -/
def getters_noFault : Prop :=
  ∀ m, Reachable m → (queries m).isFault = false ∧ (answers m).isFault = false ∧
    (authority m).isFault = false ∧ (additional m).isFault = false

/-- the question `a. IN type 255 (ANY)`: 255 is not a value of the plain enum `QueryType` (0..63) -/
def enumWitness : Bytes := [0x12, 0x34, 0x01, 0x00, 0, 1, 0, 0, 0, 0, 0, 0, 1, 0x61, 0, 0, 255, 0, 1]

/-- refutation witness (also replayed on the real code on every run: UBSan `load of value 255, which is not a valid
    value for type 'QueryType'`) -/
theorem getters_noFault_fails : ¬ getters_noFault := by
  intro h
  have hp : parse enumWitness = .ok ((parse enumWitness).rec (fun m => m) (fun _ => {}) (fun _ => {})) := by
    decide +kernel
  have := (h _ (Reachable.parsed enumWitness _ hp)).1
  revert this
  decide +kernel

/-- PROVED PART: `answers()`, `authority()`, `additional()` never fault; `queries()` can only fault at the enum
    load of a question type / class outside the enums' value range (explicit, decidable site condition
    `t < 64 ∧ c < 256` in `Dns.enumLoad`). -/
theorem getters_noFault_partial (m : Msg) (h : Reachable m) :
    (answers m).isFault = false ∧ (authority m).isFault = false ∧ (additional m).isFault = false ∧
    (∀ site, queries m = .fault site → site = "enum-load") :=
  have hi := reachable_inv h
  ⟨Out.sat_noFault (answers_sat hi), Out.sat_noFault (authority_sat hi), Out.sat_noFault (additional_sat hi),
   queries_fault hi⟩

example : Reachable {} ∧ Inv {} := ⟨Reachable.fresh, reachable_inv Reachable.fresh⟩

/-! ## 2. Memory safety of the edits -/

/-- FULL STATEMENT: no insertion touches memory outside the object, whatever the stored records look like. -/
def edit_noFault : Prop :=
  ∀ m, Reachable m → (∀ q, (addQuery m q).isFault = false) ∧ (∀ sec r, (addRecord m sec r).isFault = false)

/-- refutation witness: `add_query` of a question of type 65 (HTTPS) loads an out-of-range enum value (KF-C10-1) -/
theorem edit_noFault_fails : ¬ edit_noFault := by
  intro h
  have := (h {} Reachable.fresh).1 ⟨[0x61], 65, 1⟩
  revert this
  decide +kernel

/-- PROVED PART: `add_answer` / `add_authority` / `add_additional` never fault on any reachable object and any
    argument; `add_query` never faults when the question's type / class are values of the enums.
    A failed insertion (exception) leaves the object unchanged by construction (`Out.throw` carries no state). -/
theorem edit_noFault_partial (m : Msg) (h : Reachable m) :
    (∀ sec r, (addRecord m sec r).isFault = false) ∧
    (∀ q : Query, q.type < 64 ∧ q.cls < 256 → (addQuery m q).isFault = false) :=
  have hi := reachable_inv h
  ⟨fun sec r => Out.sat_noFault (addRecord_sat sec r hi), fun _ he => Out.sat_noFault (addQuery_sat_of_enum hi he)⟩

/-- the constructor never faults, whatever the bytes -/
theorem parse_noFault (b : Bytes) : (parse b).isFault = false := Out.sat_noFault (parse_sat b)

/-! ## 3. The four sections under any history of insertions (uncompressed / API-built representation) -/

/-- one insertion through the public API -/
inductive Edit
  | query (q : SQuery)
  | record (sec : Section) (r : SRec) (addrText : Bytes)

def Edit.legal : Edit → Bool
  | .query q => q.legal && q.inEnumRange
  | .record _ r _ => r.legal

/-- the API call on the object -/
def applyEdit (m : Msg) : Edit → Out Msg
  | .query q => addQuery m q.toNew
  | .record sec r txt => addRecord m sec (r.toNew txt)

/-- the same insertion on the abstract sections -/
def specEdit (S : Sections) : Edit → Sections
  | .query q => S.addQ q
  | .record sec r _ => S.add sec r

def runEdits : Msg → List Edit → Out Msg
  | m, [] => .ok m
  | m, e :: es => applyEdit m e >>= fun m' => runEdits m' es

/-- everything the four getters and the header counts show -/
structure Observed where
  queries : List Query
  answers : List Resource
  authority : List Resource
  additional : List Resource
  counts : Nat × Nat × Nat × Nat
deriving DecidableEq

def observe (m : Msg) : Out Observed := do
  let q ← queries m
  let an ← answers m
  let au ← authority m
  let ad ← additional m
  pure ⟨q, an, au, ad, (m.q, m.an, m.au, m.ad)⟩

/-- what the property demands to be observed for abstract sections `S` -/
def expected (S : Sections) : Observed :=
  ⟨S.qs.map SQuery.view, S.an.map SRec.view, S.au.map SRec.view, S.ad.map SRec.view,
   (S.qs.length, S.an.length, S.au.length, S.ad.length)⟩

def total (S : Sections) : Nat := S.qs.length + S.an.length + S.au.length + S.ad.length

theorem legal_specEdit {S : Sections} (hl : S.Legal) {e : Edit} (he : e.legal = true) : (specEdit S e).Legal := by
  cases e with
  | query q =>
    simp only [Edit.legal, Bool.and_eq_true] at he
    refine ⟨?_, hl.an, hl.au, hl.ad⟩
    intro x hx
    simp only [specEdit, Sections.addQ, List.mem_append, List.mem_cons, List.not_mem_nil, or_false] at hx
    rcases hx with hx | hx
    · exact hl.qs x hx
    · subst hx; exact he
  | record sec r txt =>
    simp only [Edit.legal] at he
    cases sec with
    | answer =>
      refine ⟨hl.qs, ?_, hl.au, hl.ad⟩
      intro x hx
      simp only [specEdit, Sections.add, List.mem_append, List.mem_cons, List.not_mem_nil, or_false] at hx
      rcases hx with hx | hx
      · exact hl.an x hx
      · subst hx; exact he
    | authority =>
      refine ⟨hl.qs, hl.an, ?_, hl.ad⟩
      intro x hx
      simp only [specEdit, Sections.add, List.mem_append, List.mem_cons, List.not_mem_nil, or_false] at hx
      rcases hx with hx | hx
      · exact hl.au x hx
      · subst hx; exact he
    | additional =>
      refine ⟨hl.qs, hl.an, hl.au, ?_⟩
      intro x hx
      simp only [specEdit, Sections.add, List.mem_append, List.mem_cons, List.not_mem_nil, or_false] at hx
      rcases hx with hx | hx
      · exact hl.ad x hx
      · subst hx; exact he

theorem total_specEdit (S : Sections) (e : Edit) : total (specEdit S e) = total S + 1 := by
  cases e with
  | query q => simp only [total, specEdit, Sections.addQ, List.length_append, List.length_cons, List.length_nil]; omega
  | record sec r txt =>
    cases sec <;>
      simp only [total, specEdit, Sections.add, List.length_append, List.length_cons, List.length_nil] <;> omega

theorem small_of_total {S : Sections} (h : total S < 65536) : S.Small := by
  unfold total at h; unfold Sections.Small; omega

/-- one legal insertion maps the representation of `S` to the representation of `S + record` -/
theorem applyEdit_refines (hdr : Bytes) {S : Sections} (hl : S.Legal) {e : Edit} (he : e.legal = true)
    (hb : total S + 1 < 65536) : applyEdit (mkMsg hdr S) e = .ok (mkMsg hdr (specEdit S e)) := by
  have hs : (specEdit S e).Small := small_of_total (by rw [total_specEdit]; exact hb)
  cases e with
  | query q =>
    simp only [Edit.legal, Bool.and_eq_true] at he
    exact addQuery_mkMsg hdr hl he.1 he.2 hs
  | record sec r txt => exact addRecord_mkMsg hdr hl sec he txt hs

/-- **sections_refine** (representation level): for every legal initial content `S0`, every finite sequence of legal
    insertions into any sections in any order, the object after the edits is exactly the representation of the
    edited abstract sections (as long as the 16-bit header counts can hold the sizes). -/
theorem runEdits_refines (hdr : Bytes) : ∀ (es : List Edit) (S : Sections), S.Legal → (∀ e ∈ es, e.legal = true) →
    total S + es.length < 65536 → runEdits (mkMsg hdr S) es = .ok (mkMsg hdr (es.foldl specEdit S))
  | [], S, _, _, _ => rfl
  | e :: es, S, hl, he, hb => by
    simp only [List.length_cons] at hb
    unfold runEdits
    rw [applyEdit_refines hdr hl (he e List.mem_cons_self) (by omega)]
    simp only [Out.ok_bind, List.foldl_cons]
    exact runEdits_refines hdr es _ (legal_specEdit hl (he e List.mem_cons_self))
      (fun x hx => he x (List.mem_cons_of_mem _ hx)) (by rw [total_specEdit]; omega)

/-- the getters and the header counts of the representation of `S` show exactly `S` -/
theorem observe_mkMsg (hdr : Bytes) {S : Sections} (hl : S.Legal) : observe (mkMsg hdr S) = .ok (expected S) := by
  unfold observe
  rw [queries_mkMsg hdr hl, answers_mkMsg hdr hl, authority_mkMsg hdr hl, additional_mkMsg hdr hl]
  rfl

theorem legal_foldl : ∀ (es : List Edit) (S : Sections), S.Legal → (∀ e ∈ es, e.legal = true) →
    (es.foldl specEdit S).Legal
  | [], _, hS, _ => hS
  | e :: es, _, hS, he =>
    legal_foldl es _ (legal_specEdit hS (he e List.mem_cons_self)) (fun x hx => he x (List.mem_cons_of_mem _ hx))

theorem total_foldl : ∀ (es : List Edit) (S : Sections), total (es.foldl specEdit S) = total S + es.length
  | [], _ => rfl
  | e :: es, _ => by rw [List.foldl_cons, total_foldl es, total_specEdit, List.length_cons]; omega

/-- **sections_refine + counts_agree, fresh object**: after any history of legal insertions into a fresh `DNS`, the
    four getters return exactly the inserted records, in order, with fully expanded names and typed data, and the
    header counts agree. -/
theorem sections_refine_fresh (es : List Edit) (he : ∀ e ∈ es, e.legal = true) (hb : es.length < 65536) :
    ∃ m, runEdits {} es = .ok m ∧ observe m = .ok (expected (es.foldl specEdit {})) := by
  have hl0 : ({} : Sections).Legal := ⟨by simp, by simp, by simp, by simp⟩
  have h := runEdits_refines [0, 0, 0, 0] es {} hl0 he (by simpa [total] using hb)
  rw [mkMsg_fresh] at h
  exact ⟨_, h, observe_mkMsg _ (legal_foldl es {} hl0 he)⟩

/-- **sections_refine + counts_agree, parsed message**: the same for an initial message produced by the reference
    encoder (without compression) from any legal content `S0` and any id/flags. -/
theorem sections_refine_parsed {hdr : Bytes} (hh : hdr.length = 4) {S0 : Sections} (hl0 : S0.Legal) (es : List Edit)
    (he : ∀ e ∈ es, e.legal = true) (hb : total S0 + es.length < 65536) :
    ∃ m0 m, parse (refEncode hdr S0) = .ok m0 ∧ runEdits m0 es = .ok m ∧
      observe m = .ok (expected (es.foldl specEdit S0)) := by
  refine ⟨mkMsg hdr S0, _, parse_refEncode hh hl0 (small_of_total (by omega)), runEdits_refines hdr es S0 hl0 he hb, ?_⟩
  exact observe_mkMsg _ (legal_foldl es S0 hl0 he)

/-- **reparse_sections**: serializing the edited object and parsing the bytes gives the same object (hence the same
    four sections and counts), for fresh and reference-encoded initial messages and any legal edit history. -/
theorem reparse_sections {hdr : Bytes} (hh : hdr.length = 4) {S0 : Sections} (hl0 : S0.Legal) (es : List Edit)
    (he : ∀ e ∈ es, e.legal = true) (hb : total S0 + es.length < 65536) :
    ∃ m, runEdits (mkMsg hdr S0) es = .ok m ∧ parse (serialize m) = .ok m ∧
      serialize m = refEncode hdr (es.foldl specEdit S0) := by
  refine ⟨_, runEdits_refines hdr es S0 hl0 he hb, ?_, serialize_mkMsg _ _⟩
  exact reparse_mkMsg hh (legal_foldl es S0 hl0 he) (small_of_total (by rw [total_foldl]; exact hb))

/-! ## 4. Names -/

/-- **name_roundtrip**: every legal name (labels of 1..63 octets, at most 255 octets on the wire, ANY number of
    labels) written by `encode_domain_name` anywhere in the records is read back by `compose_name` as the same text,
    and the reader stops right after it. -/
theorem name_roundtrip (n : Name) (h : legalName n = true) (pre post : Bytes) :
    composeName (pre ++ encodeDomainName (textOf n) ++ post) composeFuel pre.length [] 0 none =
      .ok (textOf n, pre.length + (encodeDomainName (textOf n)).length) := by
  obtain ⟨hok, hlen⟩ := wireName_le_of_legal h
  rw [encode_textOf hok]
  exact compose_wire_init At.intro' hok hlen

/-- a name of 127 one-octet labels (the most a legal name can have) is legal -/
example : legalName (List.replicate 127 [97]) = true := by decide +kernel

/-- **loops_rejected / malformed names**: a name without an RFC 1035 resolution (pointer loop, pointer outside the
    message, label past the end, reserved label type) makes `compose_name` throw — never return, never fault. -/
theorem loops_rejected (recs : Bytes) (p : Nat) (h : ¬ ∃ n j, Resolves recs p n j) :
    ∃ x, composeName recs composeFuel p [] 0 none = .throw x := composeName_rejects recs p h

/-- a pointer to itself is such a name -/
theorem self_pointer_rejected (recs : Bytes) (p : Nat) (hi lo : UInt8) (h0 : recs[p]? = some hi)
    (h1 : recs[p + 1]? = some lo) (h3 : hi.toNat / 64 = 3) (hself : hi.toNat % 64 * 256 + lo.toNat - 12 = p) :
    ∃ x, composeName recs composeFuel p [] 0 none = .throw x :=
  loops_rejected recs p (no_resolution_self_pointer recs p hi lo h0 h1 h3 hself)

/-- **oob_pointer_rejected**: a pointer into the header or past the end of the message is reported as an error -/
theorem oob_pointer_rejected (recs : Bytes) (p : Nat) (hi lo : UInt8) (h0 : recs[p]? = some hi)
    (h1 : recs[p + 1]? = some lo) (h3 : hi.toNat / 64 = 3)
    (hoob : hi.toNat % 64 * 256 + lo.toNat < 12 ∨ recs.length + 12 ≤ hi.toNat % 64 * 256 + lo.toNat) :
    ∃ x, composeName recs composeFuel p [] 0 none = .throw x :=
  loops_rejected recs p (no_resolution_oob_pointer recs p hi lo h0 h1 h3 hoob)

example : ∃ x, composeName [0xc0, 0x0c] composeFuel 0 [] 0 none = .throw x :=
  self_pointer_rejected [0xc0, 0x0c] 0 0xc0 0x0c rfl rfl (by decide) (by decide)

/-- what `compose_name` returns is always an RFC 1035 resolution with at most 31 jumps -/
theorem compose_sound (recs : Bytes) (p : Nat) (r : Bytes × Nat)
    (h : composeName recs composeFuel p [] 0 none = .ok r) : ∃ n j, Resolves recs p n j ∧ j ≤ 31 := by
  obtain ⟨n, j, hr, _, hj⟩ := composeName_sound recs composeFuel p [] 0 none r (by omega) h
  exact ⟨n, j, hr, by omega⟩

/-! ## 5. Compression pointers under insertion (any stored bytes, compressed or not) -/

/-- **the insertion is a shift**: on every reachable object, a successful `add_answer` / `add_authority` /
    `add_additional` (whatever record, whatever the stored bytes) produces records that are the old records with `k`
    bytes spliced in at the section boundary, in which a set `R` of two-octet pointer fields — all at or after the
    insertion point, all with a target at or after it — now designate their old target `+ k`, and every other byte
    is where the splice moved it.  For `add_answer` the walk over the authority records has to end at or before
    `additional_idx_` (otherwise the two walks overlap; true for every message whose header counts match its
    sections). -/
theorem insertion_is_shift {m m' : Msg} {sec : Section} {r : NewRec} (hm : Reachable m) (h : addRecord m sec r = .ok m')
    (hdisj : sec = .answer → ∀ off r1, updateLoop m.ui off m.au m.recs m.ui = .ok r1 → r1.2 ≤ m.di) :
    ∃ k R, m'.recs.length = m.recs.length + k ∧ Shifted m.recs m'.recs (insPoint m sec) k R ∧
      ∀ x, R x → insPoint m sec ≤ x :=
  addRecord_shifted (reachable_inv hm) h hdisj

/-- **pointers_preserved for ANY stored bytes** (the full-strength theorem for well-formed messages is
    `pointers_preserved` in §6): after such an insertion every name that resolved at offset `p` (RFC 1035
    §4.1.4) resolves to the same labels with the same number of jumps at the offset the splice moved `p` to —
    provided every pointer on its resolution path whose target moves is one of the re-targeted ones (`R`), untouched
    pointers designate names before the insertion point, and no label straddles the insertion point
    (`ResolvesVia`: the pointer-target invariant of a well-formed compressed message, here a hypothesis). -/
theorem pointers_preserved_partial {m m' : Msg} {sec : Section} {r : NewRec} (hm : Reachable m)
    (h : addRecord m sec r = .ok m')
    (hdisj : sec = .answer → ∀ off r1, updateLoop m.ui off m.au m.recs m.ui = .ok r1 → r1.2 ≤ m.di) :
    ∃ k R, m'.recs.length = m.recs.length + k ∧ (∀ x, R x → insPoint m sec ≤ x) ∧
      ∀ p n j, ResolvesVia m.recs R (insPoint m sec) p n j → Resolves m'.recs (shift (insPoint m sec) k p) n j := by
  obtain ⟨k, R, hlen, hs, hR⟩ := insertion_is_shift hm h hdisj
  exact ⟨k, R, hlen, hR, fun p n j hv => resolves_shifted hs hv⟩

/-- the transport lemma on its own: any `Shifted` image preserves RFC 1035 resolution along re-targeted paths -/
theorem resolution_preserved_by_shift {buf buf' : Bytes} {t k : Nat} {R : Nat → Prop} (hs : Shifted buf buf' t k R)
    {p : Nat} {n : Name} {j : Nat} (h : ResolvesVia buf R t p n j) : Resolves buf' (shift t k p) n j :=
  resolves_shifted hs h

/-- non-vacuity: a compressed response (question `ab.c`, authority `NS` whose owner is a pointer to the question
    name), `add_answer` of an A record: the authority owner still resolves to `ab.c` at its moved position. -/
def ptrExample : Bytes :=
  [0, 7, 0x81, 0x80, 0, 1, 0, 0, 0, 1, 0, 0,
   2, 0x61, 0x62, 1, 0x63, 0, 0, 1, 0, 1,                                   -- ab.c A IN
   0xc0, 0x0c, 0, 2, 0, 1, 0, 0, 0, 9, 0, 5, 2, 0x6e, 0x73, 0xc0, 0x0c]     -- (ptr) NS IN 9 ns.(ptr)

example : (parse ptrExample >>= fun m0 =>
    addRecord m0 .answer ⟨[0x61, 0x62, 0x2e, 0x63], 1, 1, 5, 0, [], some [1, 2, 3, 4]⟩ >>= observe) =
    .ok ⟨[⟨[0x61, 0x62, 0x2e, 0x63], 1, 1⟩],
         [⟨[0x61, 0x62, 0x2e, 0x63], 1, 1, 5, 0, .str [0x31, 0x2e, 0x32, 0x2e, 0x33, 0x2e, 0x34]⟩],
         [⟨[0x61, 0x62, 0x2e, 0x63], 2, 1, 9, 0, .str [0x6e, 0x73, 0x2e, 0x61, 0x62, 0x2e, 0x63]⟩], [],
         (1, 1, 1, 0)⟩ := by decide +kernel

/-! ## 6. Stored messages WITH name compression: pointers preserved, sections refine, re-parse — for ALL inputs

  `wfMsg` (`TinsModel/Dns/Layout.lean`) is the decidable well-formedness predicate of a stored message:
    (L) the four sections are laid out back to back between the stored offsets, with as many records as the header
        counts say, record data shaped as its type demands (A 4 octets, AAAA 16, one name inside NS/CNAME/PTR/DNAME/MX
        data, exactly two names + 20 octets of SOA data), nothing behind the last additional record, stored question
        types / classes inside the enums (KF-C10-1), a 4-octet id/flags field;
    (P1) every pointer that ends a stored name — question names, owner names, the names in NS/CNAME/PTR/DNAME/MX/SOA
        data — designates a label boundary of a stored name (an offset from which the label walk reaches the end of
        one of these name sites);
    (P2) no such pointer designates an offset in a LATER section than its own (pointers that point backwards, RFC
        1035 §4.1.4, satisfy it; libtins also copes with forward pointers inside a section);
    (N) every stored name resolves within `compose_name`'s caps (at most 31 jumps, 255 octets).
  Outside (P1) / (P2) libtins silently changes names on a message it accepts: KF-C10-12, KF-C10-13 below. -/

/-- ANY insertion through the public API: whatever question (type / class inside the enums) or record -/
inductive Insertion
  | query (q : Query)
  | record (sec : Section) (r : NewRec)

/-- the octets the insertion writes -/
def Insertion.bytes : Insertion → Out Bytes
  | .query q => enumLoad q.type q.cls >>= fun _ => .ok (encodeDomainName q.name ++ be16 q.type ++ be16 q.cls)
  | .record _ r => recordBytes r

def Insertion.apply (m : Msg) : Insertion → Out Msg
  | .query q => addQuery m q
  | .record sec r => addRecord m sec r

/-- where they are spliced in: the end of the section the record / question goes to -/
def Insertion.point (m : Msg) : Insertion → Nat
  | .query _ => m.ai
  | .record sec _ => insPoint m sec

/-- what "every name of every record reads the same after the insertion" means for the stored message `m` with
    name sites `sites`, when `k` octets were spliced in at `t` and the records became `recs'` -/
def NamesPreserved (m : Msg) (sites : List Site) (t k : Nat) (recs' : Bytes) : Prop :=
  ∀ σ ∈ sites,
    (∀ n j, Resolves m.recs σ.s n j → Resolves recs' (shift t k σ.s) n j) ∧
    composeName recs' composeFuel (shift t k σ.s) [] 0 none =
      (composeName m.recs composeFuel σ.s [] 0 none >>= fun r => .ok (r.1, shift t k σ.s + (r.2 - σ.s)))

/-- **pointers_preserved** (full strength on well-formed messages): ANY insertion of `k` octets at record offset `t`
    by `add_query` / `add_answer` / `add_authority` / `add_additional` into a well-formed stored message succeeds (as
    long as the message stays below 16 KiB: offsets have 14 bits), re-targets exactly the pointers `Rt` (those that
    end a stored name at or after `t` and designate an offset `≥ t + 12`; `Shifted`: targets `< t + 12` unchanged, the
    others `+ k`), and afterwards EVERY stored name — of every question and every record, owner and data — resolves
    (RFC 1035) to the same labels with the same number of jumps and is read by `compose_name` as the same text. -/
theorem pointers_preserved {m : Msg} (hwf : wfMsg m = true) (ins : Insertion) {bytes : Bytes}
    (hb : ins.bytes = .ok bytes) (hsz : m.recs.length + 12 + bytes.length ≤ 16384) :
    ∃ L m', layoutB m = some L ∧ ins.apply m = .ok m' ∧ m'.recs.length = m.recs.length + bytes.length ∧
      Shifted m.recs m'.recs (ins.point m) bytes.length (Rt L (ins.point m) m.recs) ∧
      NamesPreserved m L.sites (ins.point m) bytes.length m'.recs := by
  obtain ⟨L, hL, hw⟩ := wfMsg_sound' hwf
  have key : ∀ m' : Msg, Ins m L (ins.point m) bytes.length m'.recs →
      NamesPreserved m L.sites (ins.point m) bytes.length m'.recs := by
    intro m' I σ hσ
    refine ⟨fun n j hr => I.resolves_sh hσ hr, ?_⟩
    rw [I.compose_sh hσ, composeName_at_site (I.ok.site σ hσ) (hw.res σ hσ)]
    rfl
  cases ins with
  | query q =>
    simp only [Insertion.bytes] at hb
    unfold enumLoad at hb
    by_cases he : q.type < 64 ∧ q.cls < 256
    · rw [if_pos he] at hb
      simp only [Out.ok_bind] at hb
      cases hb
      obtain ⟨m', h1, I, hlen⟩ := addQuery_ins hw he hsz
      exact ⟨L, m', hL, h1, hlen, I.sh, key m' I⟩
    · rw [if_neg he] at hb; cases hb
  | record sec r =>
    obtain ⟨m', h1, I, hlen⟩ := addRecord_ins hw sec hb hsz
    exact ⟨L, m', hL, h1, hlen, I.sh, key m' I⟩

/-- non-vacuity: `ptrExample` (question `ab.c`, authority `NS` whose owner and data end in pointers to the question
    name) is well-formed; so is a fresh message -/
example : (parse ptrExample >>= fun m => .ok (wfMsg m)) = .ok true := by decide +kernel
example : wfMsg {} = true := by decide +kernel

/-- FULL STATEMENT without the pointer conditions (P1), (P2): for every stored message that is laid out and whose
    names resolve.  It does not hold: `names_preserved_all_fails`. -/
def names_preserved_all : Prop :=
  ∀ (m : Msg) (L : Layout), layoutB m = some L → layoutOkB m L = true → ∀ (ins : Insertion) (bytes : Bytes) (m' : Msg),
    ins.bytes = .ok bytes → m.recs.length + 12 + bytes.length ≤ 16384 → ins.apply m = .ok m' →
    ∀ σ ∈ L.sites, composeName m'.recs composeFuel (shift (ins.point m) bytes.length σ.s) [] 0 none =
      (composeName m.recs composeFuel σ.s [] 0 none >>= fun r => .ok (r.1, shift (ins.point m) bytes.length σ.s + (r.2 - σ.s)))

/-- KF-C10-12 (outside P2): the question name is a pointer FORWARD to the owner name `ab.c` of the authority record;
    `add_answer` splices the new record in between and does not look at the question, so the question now reads `x`
    (the owner of the inserted record).  libtins accepts the message and returns the wrong name silently. -/
def fwdWitness : Bytes :=
  [0, 7, 0x81, 0x80, 0, 1, 0, 0, 0, 1, 0, 0,
   0xc0, 18, 0, 1, 0, 1,                                                    -- (ptr to offset 18) A IN
   2, 0x61, 0x62, 1, 0x63, 0, 0, 2, 0, 1, 0, 0, 0, 9, 0, 2, 0xc0, 18]        -- ab.c NS IN 9 (ptr to offset 18)

def fwdInsert : NewRec := ⟨[0x78], 1, 1, 5, 0, [], some [1, 2, 3, 4]⟩          -- x A IN 5 1.2.3.4

def fwdMsg : Msg := match parse fwdWitness with | .ok m => m | _ => {}
def fwdLayout : Layout := (layoutB fwdMsg).getD ⟨[], [], [], []⟩
def fwdMsg' : Msg := match addRecord fwdMsg .answer fwdInsert with | .ok m => m | _ => {}

/-- refutation witness (replayed on the real code on every run, corpus/C10/kf12-forward-pointer.ops) -/
theorem names_preserved_all_fails : ¬ names_preserved_all := by
  intro h
  have := h fwdMsg fwdLayout (by decide +kernel) (by decide +kernel) (.record .answer fwdInsert)
    [1, 0x78, 0, 0, 1, 0, 1, 0, 0, 0, 5, 0, 4, 1, 2, 3, 4] fwdMsg' (by decide +kernel) (by decide +kernel)
    (by decide +kernel) ⟨0, 0, 2⟩ (by decide +kernel)
  revert this
  decide +kernel

/-- what the getters show: the question `ab.c` has become `x`; the message is laid out, its names resolve, only (P2)
    fails -/
example : (parse fwdWitness >>= queries) = .ok [⟨[0x61, 0x62, 0x2e, 0x63], 1, 1⟩] := by decide +kernel
example : (parse fwdWitness >>= fun m => addRecord m .answer fwdInsert >>= queries) = .ok [⟨[0x78], 1, 1⟩] := by
  decide +kernel
example : (parse fwdWitness >>= fun m => .ok (wfMsg m)) = .ok false := by decide +kernel

/-- KF-C10-13 (outside P1): the data of the SRV record (opaque to libtins: `update_records` only knows the names in
    NS/CNAME/PTR/DNAME/MX/SOA data) holds the compressed name `h.<ptr to ab.c>`, and the owner of the second answer is a
    pointer INTO that data.  `add_query` moves everything; the owner pointer is re-targeted, the pointer inside the SRV data
    is not, so the second answer's owner `h.ab.c` becomes `h.q` (the inserted question).  Accepted, silently wrong. -/
def escWitness : Bytes :=
  [0, 7, 0x81, 0x80, 0, 0, 0, 2, 0, 0, 0, 0,
   2, 0x61, 0x62, 1, 0x63, 0, 0, 33, 0, 1, 0, 0, 0, 9, 0, 10, 0, 1, 0, 2, 0, 80, 1, 0x68, 0xc0, 12,   -- ab.c SRV IN 9: 1 2 80 h.(ptr 12)
   0xc0, 34, 0, 1, 0, 1, 0, 0, 0, 9, 0, 4, 1, 2, 3, 4]                                                  -- (ptr 34 = `h` in the SRV data) A IN 9 1.2.3.4

example : (parse escWitness >>= answers) = .ok
    [⟨[0x61, 0x62, 0x2e, 0x63], 33, 1, 9, 0, .str [0, 1, 0, 2, 0, 80, 1, 0x68, 0xc0, 12]⟩,
     ⟨[0x68, 0x2e, 0x61, 0x62, 0x2e, 0x63], 1, 1, 9, 0, .str [0x31, 0x2e, 0x32, 0x2e, 0x33, 0x2e, 0x34]⟩] := by decide +kernel
example : (parse escWitness >>= fun m => addQuery m ⟨[0x71], 1, 1⟩ >>= answers) = .ok
    [⟨[0x61, 0x62, 0x2e, 0x63], 33, 1, 9, 0, .str [0, 1, 0, 2, 0, 80, 1, 0x68, 0xc0, 12]⟩,
     ⟨[0x68, 0x2e, 0x71], 1, 1, 9, 0, .str [0x31, 0x2e, 0x32, 0x2e, 0x33, 0x2e, 0x34]⟩] := by decide +kernel
example : (parse escWitness >>= fun m => .ok (wfMsg m)) = .ok false := by decide +kernel

/-! ### the four sections under any history of legal insertions, from ANY well-formed stored message -/

/-- what the getters and the header counts show for a laid-out message -/
def obsOf (m : Msg) (L : Layout) : Observed :=
  ⟨(views m L).qs, (views m L).an, (views m L).au, (views m L).ad, (m.q, m.an, m.au, m.ad)⟩

theorem observe_wf {m : Msg} {L : Layout} (h : WFL m L) : observe m = .ok (obsOf m L) := by
  unfold observe
  rw [queries_layout h.lay h.res, answers_layout h.lay h.res, authority_layout h.lay h.res,
    additional_layout h.lay h.res]
  rfl

/-- **counts_agree**: on a well-formed message the header counts are the lengths of what the getters return -/
theorem counts_agree_wf {m : Msg} {L : Layout} (h : WFL m L) :
    (obsOf m L).counts = ((obsOf m L).queries.length, (obsOf m L).answers.length, (obsOf m L).authority.length,
      (obsOf m L).additional.length) := by
  simp only [obsOf, views, List.length_map, h.lay.cq, h.lay.can, h.lay.cau, h.lay.cad]

/-- the same insertion on what is observed -/
def obsEdit (O : Observed) : Edit → Observed
  | .query q => { O with queries := O.queries ++ [q.view],
                         counts := (O.counts.1 + 1, O.counts.2.1, O.counts.2.2.1, O.counts.2.2.2) }
  | .record .answer r _ => { O with answers := O.answers ++ [r.view],
                                    counts := (O.counts.1, O.counts.2.1 + 1, O.counts.2.2.1, O.counts.2.2.2) }
  | .record .authority r _ => { O with authority := O.authority ++ [r.view],
                                       counts := (O.counts.1, O.counts.2.1, O.counts.2.2.1 + 1, O.counts.2.2.2) }
  | .record .additional r _ => { O with additional := O.additional ++ [r.view],
                                        counts := (O.counts.1, O.counts.2.1, O.counts.2.2.1, O.counts.2.2.2 + 1) }

/-- octets the insertion adds -/
def editSize : Edit → Nat
  | .query q => q.wire.length
  | .record _ r _ => r.wire.length

def countSum (m : Msg) : Nat := m.q + m.an + m.au + m.ad

/-- one legal insertion into a well-formed stored message: it succeeds, the result is well-formed, and the getters
    show the old sections plus the inserted record -/
theorem applyEdit_wf {m : Msg} {L : Layout} (h : WFL m L) {e : Edit} (he : e.legal = true)
    (hc : countSum m + 1 < 65536) (hsz : m.recs.length + 12 + editSize e ≤ 16384) :
    ∃ m' L', applyEdit m e = .ok m' ∧ WFL m' L' ∧ obsOf m' L' = obsEdit (obsOf m L) e ∧
      m'.recs.length = m.recs.length + editSize e ∧ countSum m' = countSum m + 1 := by
  unfold countSum at hc ⊢
  cases e with
  | query q =>
    simp only [Edit.legal, Bool.and_eq_true] at he
    obtain ⟨m', h1, h2, ⟨c1, c2, c3, c4⟩, h4, v1, v2, v3, v4⟩ := addQuery_wf h he.1 he.2 (by omega) hsz
    refine ⟨m', _, h1, h2, ?_, h4, by omega⟩
    simp only [obsOf, obsEdit, v1, v2, v3, v4, c1, c2, c3, c4]
  | record sec r txt =>
    simp only [Edit.legal] at he
    cases sec with
    | answer =>
      obtain ⟨m', h1, h2, ⟨c1, c2, c3, c4⟩, h4, v1, v2, v3, v4⟩ := addAnswer_wf h he txt (by omega) hsz
      refine ⟨m', _, h1, h2, ?_, h4, by omega⟩
      simp only [obsOf, obsEdit, v1, v2, v3, v4, c1, c2, c3, c4]
    | authority =>
      obtain ⟨m', h1, h2, ⟨c1, c2, c3, c4⟩, h4, v1, v2, v3, v4⟩ := addAuthority_wf h he txt (by omega) hsz
      refine ⟨m', _, h1, h2, ?_, h4, by omega⟩
      simp only [obsOf, obsEdit, v1, v2, v3, v4, c1, c2, c3, c4]
    | additional =>
      obtain ⟨m', h1, h2, ⟨c1, c2, c3, c4⟩, h4, v1, v2, v3, v4⟩ := addAdditional_wf h he txt (by omega)
      refine ⟨m', _, h1, h2, ?_, h4, by omega⟩
      simp only [obsOf, obsEdit, v1, v2, v3, v4, c1, c2, c3, c4]

/-- any history of legal insertions from a well-formed stored message -/
theorem runEdits_wf : ∀ (es : List Edit) (m : Msg) (L : Layout), WFL m L → (∀ e ∈ es, e.legal = true) →
    countSum m + es.length < 65536 → m.recs.length + 12 + (es.map editSize).sum ≤ 16384 →
    ∃ m' L', runEdits m es = .ok m' ∧ WFL m' L' ∧ obsOf m' L' = es.foldl obsEdit (obsOf m L) ∧
      countSum m' = countSum m + es.length
  | [], m, L, h, _, _, _ => ⟨m, L, rfl, h, rfl, rfl⟩
  | e :: es, m, L, h, he, hc, hsz => by
    simp only [List.length_cons] at hc
    simp only [List.map_cons, List.sum_cons] at hsz
    obtain ⟨m1, L1, h1, w1, o1, l1, c1⟩ := applyEdit_wf h (he e List.mem_cons_self) (by omega) (by omega)
    obtain ⟨m2, L2, h2, w2, o2, c2⟩ := runEdits_wf es m1 L1 w1 (fun x hx => he x (List.mem_cons_of_mem _ hx))
      (by omega) (by omega)
    refine ⟨m2, L2, ?_, w2, ?_, by simp only [List.length_cons]; omega⟩
    · unfold runEdits; rw [h1]; exact h2
    · rw [o2, o1]; rfl

/-- **sections_refine + counts_agree + reparse_sections for stored messages with name compression** — for EVERY
    well-formed stored message `m0` (in particular every accepted wire message that `wfMsg` accepts, compressed in
    whatever way) and EVERY history of legal insertions into any sections in any order (while the header counts fit 16
    bits and the message stays below 16 KiB): the four getters show exactly what they showed for `m0` plus the inserted
    records, in order, with fully expanded names; the header counts agree; and serializing the object and parsing the
    bytes gives the same object back, hence the same four sections. -/
theorem sections_refine_wf {m0 : Msg} (hwf : wfMsg m0 = true) (es : List Edit) (he : ∀ e ∈ es, e.legal = true)
    (hc : countSum m0 + es.length < 65536) (hsz : m0.recs.length + 12 + (es.map editSize).sum ≤ 16384) :
    ∃ O0 m, observe m0 = .ok O0 ∧ runEdits m0 es = .ok m ∧ observe m = .ok (es.foldl obsEdit O0) ∧
      parse (serialize m) = .ok m ∧
      (es.foldl obsEdit O0).counts = ((es.foldl obsEdit O0).queries.length, (es.foldl obsEdit O0).answers.length,
        (es.foldl obsEdit O0).authority.length, (es.foldl obsEdit O0).additional.length) := by
  obtain ⟨L0, w0⟩ := wfMsg_sound hwf
  obtain ⟨m, L, h1, w, o, c⟩ := runEdits_wf es m0 L0 w0 he hc hsz
  unfold countSum at hc c
  refine ⟨obsOf m0 L0, m, observe_wf w0, h1, by rw [← o]; exact observe_wf w, ?_, by rw [← o]; exact counts_agree_wf w⟩
  exact parse_of_layout w.lay w.hdr (by omega) (by omega) (by omega) (by omega)

/-- **reparse_sections_compressed**: the four sections of `parse (serialize m)` are those of `m` -/
theorem reparse_sections_compressed {m0 : Msg} (hwf : wfMsg m0 = true) (es : List Edit) (he : ∀ e ∈ es, e.legal = true)
    (hc : countSum m0 + es.length < 65536) (hsz : m0.recs.length + 12 + (es.map editSize).sum ≤ 16384) :
    ∃ m, runEdits m0 es = .ok m ∧ (parse (serialize m) >>= observe) = observe m := by
  obtain ⟨_, m, _, h1, _, h3, _⟩ := sections_refine_wf hwf es he hc hsz
  exact ⟨m, h1, by rw [h3]; rfl⟩

/-! ### … and from the compressed reference encoding of abstract sections -/

/-- the compressed reference encoding resolves every name with at most 31 jumps when no name has more than 31
    labels (a pointer always designates a suffix that starts with a literal label) -/
def shortNames (S : Sections) : Bool :=
  S.qs.all (fun q => q.name.length ≤ 31) &&
  (S.an ++ S.au ++ S.ad).all (fun r => r.owner.length ≤ 31 &&
    match r.data with
    | .name n => n.length ≤ 31
    | .mx _ n => n.length ≤ 31
    | .soa a b _ => a.length ≤ 31 && b.length ≤ 31
    | _ => true)

theorem obsEdit_expected (S : Sections) (e : Edit) : obsEdit (expected S) e = expected (specEdit S e) := by
  cases e with
  | query q => simp [obsEdit, expected, specEdit, Sections.addQ]
  | record sec r txt => cases sec <;> simp [obsEdit, expected, specEdit, Sections.add]

theorem foldl_obsEdit_expected : ∀ (es : List Edit) (S : Sections),
    es.foldl obsEdit (expected S) = expected (es.foldl specEdit S)
  | [], _ => rfl
  | e :: es, S => by rw [List.foldl_cons, List.foldl_cons, obsEdit_expected, foldl_obsEdit_expected es]

/-- FULL STATEMENT for the Lean reference compressor `refCompress` (suffix table, RFC 1035 §4.1.4): parse the
    compressed reference encoding of any legal content, apply any legal edit history, observe exactly the edited
    content. -/
def sections_refine_compressed : Prop :=
  ∀ (hdr : Bytes) (S0 : Sections) (es : List Edit), hdr.length = 4 → S0.Legal → shortNames S0 = true →
    (∀ e ∈ es, e.legal = true) → total S0 + es.length < 65536 →
    (refEncode hdr (es.foldl specEdit S0)).length < 16384 →
    ∃ m0 m, parse (refCompress hdr S0) = .ok m0 ∧ runEdits m0 es = .ok m ∧
      observe m = .ok (expected (es.foldl specEdit S0))

/-- the same reduction for ANY compressor: if the initial message is accepted, accepted by `wfMsg` and read back as
    `S0`, every legal edit history is observed as the edited content (everything about the edits, the pointer rewriting
    and the re-parse is `sections_refine_wf`) -/
theorem sections_refine_of_wf (S0 : Sections) (es : List Edit) {m0 : Msg} (hwf : wfMsg m0 = true)
    (hobs : observe m0 = .ok (expected S0)) (he : ∀ e ∈ es, e.legal = true) (hc : countSum m0 + es.length < 65536)
    (hsz : m0.recs.length + 12 + (es.map editSize).sum ≤ 16384) :
    ∃ m, runEdits m0 es = .ok m ∧ observe m = .ok (expected (es.foldl specEdit S0)) ∧ parse (serialize m) = .ok m := by
  obtain ⟨O0, m, h0, h1, h2, h3, _⟩ := sections_refine_wf hwf es he hc hsz
  rw [hobs] at h0
  cases h0
  exact ⟨m, h1, by rw [← foldl_obsEdit_expected]; exact h2, h3⟩

theorem short_of_shortNames {S : Sections} (h : shortNames S = true) : S.Short := by
  simp only [shortNames, Bool.and_eq_true, List.all_eq_true, decide_eq_true_eq, List.mem_append] at h
  have hr : ∀ r : SRec, (r ∈ S.an ∨ r ∈ S.au) ∨ r ∈ S.ad → r.short = true := by
    intro r hm
    have := h.2 r hm
    simp only [SRec.short, Bool.and_eq_true, decide_eq_true_eq]
    refine ⟨this.1, ?_⟩
    have h2 := this.2
    cases hd : r.data with
    | a _ => rfl
    | aaaa _ => rfl
    | raw _ => rfl
    | name n => rw [hd] at h2; simpa [SData.short] using h2
    | mx _ n => rw [hd] at h2; simpa [SData.short] using h2
    | soa m rn _ => rw [hd] at h2; simpa [SData.short] using h2
  exact ⟨h.1, fun r hm => hr r (Or.inl (Or.inl hm)), fun r hm => hr r (Or.inl (Or.inr hm)), fun r hm => hr r (Or.inr hm)⟩

theorem wireSections_specEdit (S : Sections) (e : Edit) :
    (wireSections (specEdit S e)).length = (wireSections S).length + editSize e := by
  cases e with
  | query q =>
    simp only [specEdit, Sections.addQ, wireSections, wireQs_append, wireQs_cons, editSize, List.length_append]
    simp [wireQs]; omega
  | record sec r txt =>
    cases sec <;>
      simp only [specEdit, Sections.add, wireSections, wireRecs_append, wireRecs_cons, editSize, List.length_append] <;>
      (simp [wireRecs]; omega)

theorem wireSections_foldl : ∀ (es : List Edit) (S : Sections),
    (wireSections (es.foldl specEdit S)).length = (wireSections S).length + (es.map editSize).sum
  | [], _ => by simp
  | e :: es, S => by
    rw [List.foldl_cons, wireSections_foldl es, wireSections_specEdit, List.map_cons, List.sum_cons]; omega

/-- **sections_refine_compressed holds**: for EVERY legal content (names of at most 31 labels), the compressed
    reference encoding is accepted and well-formed (`refCompress_wf`: the suffix-table invariant of the compressor),
    and every legal edit history on it is observed as the edited content. -/
theorem sections_refine_compressed_holds : sections_refine_compressed := by
  intro hdr S0 es hh hl hsn he hc hsz
  obtain ⟨m0, L0, hp, hw, v1, v2, v3, v4, ⟨c1, c2, c3, c4⟩, hlen⟩ :=
    refCompress_wf hh hl (small_of_total (by omega)) (short_of_shortNames hsn)
  have hcnt : countSum m0 = total S0 := by unfold countSum total; omega
  have hsize : m0.recs.length + 12 + (es.map editSize).sum ≤ 16384 := by
    have h1 := wireSections_foldl es S0
    simp only [refEncode, List.length_append, be16_length, hh] at hsz
    omega
  obtain ⟨m, L, h1, w, o, _⟩ := runEdits_wf es m0 L0 hw he (by omega) hsize
  refine ⟨m0, m, hp, h1, ?_⟩
  have hobs : obsOf m0 L0 = expected S0 := by
    simp only [obsOf, expected, v1, v2, v3, v4, c1, c2, c3, c4]
  rw [observe_wf w, o, hobs, foldl_obsEdit_expected]

/-- … and re-parsing the serialization of the edited object gives the same object -/
theorem reparse_refCompress {hdr : Bytes} (hh : hdr.length = 4) {S0 : Sections} (hl : S0.Legal) (hsn : shortNames S0 = true)
    (es : List Edit) (he : ∀ e ∈ es, e.legal = true) (hc : total S0 + es.length < 65536)
    (hsz : (refEncode hdr (es.foldl specEdit S0)).length < 16384) :
    ∃ m0 m, parse (refCompress hdr S0) = .ok m0 ∧ runEdits m0 es = .ok m ∧ parse (serialize m) = .ok m := by
  obtain ⟨m0, L0, hp, hw, _, _, _, _, ⟨c1, c2, c3, c4⟩, hlen⟩ :=
    refCompress_wf hh hl (small_of_total (by omega)) (short_of_shortNames hsn)
  have hsize : m0.recs.length + 12 + (es.map editSize).sum ≤ 16384 := by
    have h1 := wireSections_foldl es S0
    simp only [refEncode, List.length_append, be16_length, hh] at hsz
    omega
  obtain ⟨m, L, h1, w, _, c⟩ := runEdits_wf es m0 L0 hw he (by unfold countSum total at *; omega) hsize
  unfold countSum total at *
  exact ⟨m0, m, hp, h1, parse_of_layout w.lay w.hdr (by omega) (by omega) (by omega) (by omega)⟩

/-- an instance (evaluated by the kernel): question + compressed NS/SOA authority + MX additional, then an answer, a
    question and an authority record are inserted -/
def exS0 : Sections :=
  { qs := [⟨[[0x61, 0x62], [0x63]], 1, 1⟩],
    au := [⟨[[0x61, 0x62], [0x63]], 2, 1, 9, .name [[0x6e, 0x73], [0x61, 0x62], [0x63]]⟩,
           ⟨[[0x61, 0x62], [0x63]], 6, 1, 9, .soa [[0x6e, 0x73], [0x61, 0x62], [0x63]] [[0x68], [0x6e, 0x73], [0x61, 0x62], [0x63]]
              [0, 0, 0, 1, 0, 0, 0, 2, 0, 0, 0, 3, 0, 0, 0, 4, 0, 0, 0, 5]⟩],
    ad := [⟨[[0x61, 0x62], [0x63]], 15, 1, 9, .mx 10 [[0x6d], [0x61, 0x62], [0x63]]⟩] }

def exEdits : List Edit :=
  [.record .answer ⟨[[0x61, 0x62], [0x63]], 1, 1, 5, .a [1, 2, 3, 4]⟩ [],
   .query ⟨[[0x7a], [0x63]], 28, 1⟩,
   .record .authority ⟨[[0x63]], 2, 1, 7, .name [[0x78], [0x63]]⟩ []]

example : (refCompress [0, 7, 0x81, 0x80] exS0).length < (refEncode [0, 7, 0x81, 0x80] exS0).length := by decide +kernel

/-- the instance is well-formed and read back (what `refCompress_wf` proves for every content) … -/
example : (parse (refCompress [0, 7, 0x81, 0x80] exS0) >>= fun m0 => .ok (wfMsg m0, observe m0 == .ok (expected exS0))) =
    .ok (true, true) := by decide +kernel

/-- … and its conclusion, evaluated -/
example : (parse (refCompress [0, 7, 0x81, 0x80] exS0) >>= fun m0 => runEdits m0 exEdits >>= observe) =
    .ok (expected (exEdits.foldl specEdit exS0)) := by decide +kernel

/-! ### pointer loops and pointers outside the message, at the level of the getters -/

/-- **loops_rejected / oob_pointer_rejected for every getter**: on a laid-out message, a stored name without an RFC
    1035 resolution (a pointer loop, a pointer into the header or past the end, a label past the end, a reserved label
    type) makes the getter of its section throw — it never returns (so never a wrong name) and never faults. -/
theorem getters_reject_unresolvable {m : Msg} {L : Layout} (hlay : MsgAt m L) {σ : Site}
    (h : ¬ ∃ n j, Resolves m.recs σ.s n j) :
    (σ ∈ L.qs → ∃ x, queries m = .throw x) ∧ (σ ∈ recSites L.an → ∃ x, answers m = .throw x) ∧
    (σ ∈ recSites L.au → ∃ x, authority m = .throw x) ∧ (σ ∈ recSites L.ad → ∃ x, additional m = .throw x) := by
  obtain ⟨x, hx⟩ := composeName_rejects m.recs σ.s h
  have hno : (composeName m.recs composeFuel σ.s [] 0 none).isOk ≠ true := by rw [hx]; intro hc; cases hc
  have hinv : Inv m := hlay.order
  refine ⟨fun hσ => ?_, fun hσ => ?_, fun hσ => ?_, fun hσ => ?_⟩
  · cases hq : queries m with
    | ok r => exact (hno (queries_ok_names hlay hq σ hσ)).elim
    | throw e => exact ⟨e, rfl⟩
    | fault s => have := queries_no_fault hlay; rw [hq] at this; cases this
  · cases hq : answers m with
    | ok r => exact (hno (answers_ok_names hlay hq σ hσ)).elim
    | throw e => exact ⟨e, rfl⟩
    | fault s => have := answers_sat hinv; rw [hq] at this; exact this.elim
  · cases hq : authority m with
    | ok r => exact (hno (authority_ok_names hlay hq σ hσ)).elim
    | throw e => exact ⟨e, rfl⟩
    | fault s => have := authority_sat hinv; rw [hq] at this; exact this.elim
  · cases hq : additional m with
    | ok r => exact (hno (additional_ok_names hlay hq σ hσ)).elim
    | throw e => exact ⟨e, rfl⟩
    | fault s => have := additional_sat hinv; rw [hq] at this; exact this.elim

/-- **never a wrong name**: when a record getter returns on a laid-out message it read, at every name site of its
    section, an RFC 1035 resolution of that site with at most 31 jumps; and what it returns is the view of the layout -/
theorem getters_names_sound {m : Msg} {L : Layout} (hlay : MsgAt m L) {rs : List Resource} (h : answers m = .ok rs) :
    ∀ σ ∈ recSites L.an, ∃ n j, Resolves m.recs σ.s n j ∧ j ≤ 31 ∧ nameAt m.recs σ.s = appendName [] n := by
  intro σ hσ
  have hok := answers_ok_names hlay h σ hσ
  have hn := (hlay.an.site_mem hσ).2.2
  have hc := composeName_at_site hn hok
  obtain ⟨n, j, hr, hj, hrn, _⟩ := composeName_site hn hc
  exact ⟨n, j, hr, hj, (Prod.mk.inj hrn).1⟩

/-- non-vacuity: the authority record's owner is a pointer to itself; `authority()` throws, the other getters return -/
def loopExample : Bytes :=
  [0, 7, 0x81, 0x80, 0, 1, 0, 0, 0, 1, 0, 0,
   2, 0x61, 0x62, 1, 0x63, 0, 0, 1, 0, 1,
   0xc0, 22, 0, 1, 0, 1, 0, 0, 0, 9, 0, 4, 1, 2, 3, 4]

example : (parse loopExample >>= fun m => .ok ((layoutB m).isSome, authority m, (answers m).isOk, (queries m).isOk)) =
    .ok (true, .throw .pointerLoops, true, true) := by decide +kernel

/-! ## 7. The run-time oracle judges the calls the theorems are about -/

/-- the oracle classifies an insertion call with `specOfNew`; on the call `toNew r` of a legal record it finds `r` -/
theorem oracle_classifies_record {r : SRec} (hl : r.legal = true) (txt : Bytes) : specOfNew (r.toNew txt) = some r :=
  specOfNew_toNew hl txt

theorem oracle_classifies_query {q : SQuery} (hl : q.legal = true) : specOfQuery q.toNew = some q :=
  specOfQuery_toNew hl

/-! ## 8. The typed SOA accessor `DNS::soa_record(const uint8_t*, uint32_t)` / `soa_record(const DNS::resource&)` -/

/-- **soa_init_safe** — `soa_record::init` on ANY byte string (a caller's buffer, or the data string a section getter
    handed out): the bounded search for each name's terminator, the copy into the temporary string, the walk of
    `decode_domain_name` over it and the five `read_be<uint32_t>` never touch memory outside the buffer / the string, and
    the only exceptions are `malformed_packet` (no terminator, label past the end, counters cut short) and
    `invalid_domain_name` (a length octet with a high bit set, more than 256 octets of text). -/
theorem soa_init_safe (b : Bytes) :
    (soaInit b).isFault = false ∧ ∀ e, soaInit b = .throw e → e = .malformedPacket ∨ e = .invalidDomainName :=
  ⟨Out.within_noFault (soaInit_within b), fun _ h => Out.within_throw (soaInit_within b) h⟩

/-- **soa_roundtrip** — `soa_record(r.serialize())` is `r`: for every record whose two names are legal (labels of 1..63
    octets, at most 255 octets on the wire, any number of labels) and whose five counters fit 32 bits, whatever follows
    the serialization in the buffer. -/
theorem soa_roundtrip (n1 n2 : Name) (h1 : legalName n1 = true) (h2 : legalName n2 = true)
    (serial refresh retry expire minimum : Nat) (hs : serial < 4294967296) (hf : refresh < 4294967296)
    (ht : retry < 4294967296) (he : expire < 4294967296) (hm : minimum < 4294967296) (post : Bytes) :
    soaInit (soaSerialize ⟨textOf n1, textOf n2, serial, refresh, retry, expire, minimum⟩ ++ post) =
      .ok ⟨textOf n1, textOf n2, serial, refresh, retry, expire, minimum⟩ :=
  soaInit_serialize n1 n2 h1 h2 serial refresh retry expire minimum hs hf ht he hm post

/-- the defect the fix removed (DESIGN §7 #34, KF-C10-11): the C-string scan of the earlier code leaves a buffer that
    holds no NUL (`01 61`: one label, no terminator); the fixed code rejects the same bytes.  The witness is replayed on
    the real code by corpus/C10/kf11-soa-cstring-overread.ops. -/
theorem soa_unfixed_overread : (soaInitUnfixed [1, 0x61]).isFault = true ∧ soaInit [1, 0x61] = .throw .malformedPacket :=
  ⟨soaInitUnfixed_faults, soaInit_rejects_unterminated⟩

/-- non-vacuity: `ns.ab.` / `h.ab.` and the counters 1..5 are read back; a pointer in a name and a missing counter are
    reported with the two exceptions of the statement -/
example : soaInit [2, 0x6e, 0x73, 2, 0x61, 0x62, 0, 1, 0x68, 2, 0x61, 0x62, 0, 0, 0, 0, 1, 0, 0, 0, 2, 0, 0, 0, 3, 0, 0, 0, 4,
    0, 0, 0, 5] = .ok ⟨[0x6e, 0x73, 46, 0x61, 0x62], [0x68, 46, 0x61, 0x62], 1, 2, 3, 4, 5⟩ := by decide
example : soaInit [0xc0, 0x0c, 0, 0, 0, 0, 0, 1] = .throw .invalidDomainName := by decide
example : soaInit [0, 0, 0, 0, 0, 1] = .throw .malformedPacket := by decide

end Tins.Props.C10
