import TinsModel.Checksum.Verify
import TinsModel.Checksum.SerLemmas
import TinsModel.Checksum.Walk.Main
import TinsModel.Wire.Derived.Examples
import TinsModel.Wire.Derived.Wifi
/-
  Property C05 — fields libtins derives are correct on the wire.  Theorems only; helper lemmas live in
  TinsModel/Checksum/Lemmas*.lean, the proofs of Part 1 / 2 in TinsModel/Checksum/Verify.lean (so that the lemma files about
  whole stacks can use them).

  Part 1 — Internet checksums.  `Tins.Ck.*` is the code-shaped model of libtins (little-endian 16-bit loads,
  `uint32_t` accumulator, fold loop, complement, store); `Tins.Ck.Spec.*` is RFC 1071 over big-endian words.
-/
namespace Tins.Props.C05
open Tins.Ck Tins.Ck.Spec

/-- **Byte-order independence.**  For every byte string shorter than 128 KiB (odd lengths and any number of
    carries included) the value `sum_range` returns, byte-swapped, is the RFC 1071 one's-complement sum of the
    big-endian words. -/
theorem sum_range_spec (bs : Bytes) (h : bs.length < 131072) : bswap16 (sumRange bs) = ocSum bs :=
  Verify.sum_range_spec bs h

example : bswap16 (sumRange [0xff, 0xff, 0xff, 0xff, 0x01]) = ocSum [0xff, 0xff, 0xff, 0xff, 0x01] := by decide

/-- `do_checksum` followed by the caller's fold loop (as in `IP::write_serialization`) is the RFC 1071 sum. -/
theorem do_checksum_spec (bs : Bytes) (h : bs.length < 131072) : fold32 (doChecksum bs) = ocSum bs :=
  Verify.do_checksum_spec bs h

/-- **IPv4 header checksum.**  Whatever the header bytes (options, padding) with the checksum field zeroed,
    the header libtins emits verifies under RFC 791/1071. -/
theorem ip_checksum_verifies (buf : Bytes) (hlen : Nat) (hh : hlen < 131072) (h12 : 12 ≤ hlen)
    (h0 : buf[10]? = some 0) (h1 : buf[11]? = some 0) :
    verifies ((ipTail buf hlen).take hlen) = true :=
  Verify.ip_checksum_verifies buf hlen hh h12 h0 h1

/-- **TCP over IPv4.** -/
theorem tcp_checksum_verifies_ip4 (src dst buf : Bytes) (hs : src.length = 4) (hd : dst.length = 4)
    (hlen : buf.length ≤ 65535) (h0 : buf[16]? = some 0) (h1 : buf[17]? = some 0) :
    verifies (pseudo4 src dst 6 buf.length ++ tcpTail (.ip4 src dst) buf buf.length) = true :=
  Verify.tcp_checksum_verifies_ip4 src dst buf hs hd hlen h0 h1

example : verifies (pseudo4 [10,0,0,1] [10,0,0,2] 6 21 ++
    tcpTail (.ip4 [10,0,0,1] [10,0,0,2]) ([0,80,0x1f,0x90,0,0,0,1,0,0,0,0,0x50,2,0xff,0xff,0,0,0,0] ++ [0xab]) 21) = true := by
  decide

/-- **TCP over IPv6** (RFC 8200 §8.1 pseudo header: 32-bit length, 3 zero bytes, next header). -/
theorem tcp_checksum_verifies_ip6 (src dst buf : Bytes) (hs : src.length = 16) (hd : dst.length = 16)
    (hlen : buf.length ≤ 65535) (h0 : buf[16]? = some 0) (h1 : buf[17]? = some 0) :
    verifies (pseudo6 src dst 6 buf.length ++ tcpTail (.ip6 src dst) buf buf.length) = true :=
  Verify.tcp_checksum_verifies_ip6 src dst buf hs hd hlen h0 h1

/-- **UDP over IPv4** (RFC 768), including the case where the computed checksum is 0 and 0xffff is sent. -/
theorem udp_checksum_verifies_ip4 (src dst buf : Bytes) (hs : src.length = 4) (hd : dst.length = 4)
    (hlen : buf.length ≤ 65535) (h0 : buf[6]? = some 0) (h1 : buf[7]? = some 0) :
    verifies (pseudo4 src dst 17 buf.length ++ udpTail (.ip4 src dst) buf buf.length) = true :=
  Verify.udp_checksum_verifies_ip4 src dst buf hs hd hlen h0 h1

/-- **UDP over IPv6.** -/
theorem udp_checksum_verifies_ip6 (src dst buf : Bytes) (hs : src.length = 16) (hd : dst.length = 16)
    (hlen : buf.length ≤ 65535) (h0 : buf[6]? = some 0) (h1 : buf[7]? = some 0) :
    verifies (pseudo6 src dst 17 buf.length ++ udpTail (.ip6 src dst) buf buf.length) = true :=
  Verify.udp_checksum_verifies_ip6 src dst buf hs hd hlen h0 h1

/-- **UDP: a computed 0 is transmitted as 0xffff** — the checksum bytes libtins stores under an IP parent are
    never both zero ("no checksum" in RFC 768), whatever the datagram. -/
theorem udp_zero (p : Parent) (hp : p ≠ .other) (buf : Bytes) (size : Nat) (h8 : 8 ≤ buf.length) :
    ¬ ((udpTail p buf size)[6]? = some 0 ∧ (udpTail p buf size)[7]? = some 0) :=
  Verify.udp_zero p hp buf size h8

example : ∃ buf, (udpTail (.ip4 [0,0,0,0] [0,0,0,0]) buf 8)[6]? = some 255 :=
  ⟨[0xff, 0xee, 0, 0, 0, 0, 0, 0], by decide⟩

/-- **ICMP** (RFC 792): the checksum covers the whole ICMP message (header, inner packet, padding, extensions). -/
theorem icmp_checksum_verifies (buf : Bytes) (hlen : buf.length ≤ 65535)
    (h0 : buf[2]? = some 0) (h1 : buf[3]? = some 0) : verifies (icmpTail buf) = true :=
  Verify.icmp_checksum_verifies buf hlen h0 h1

/-- **ICMP extension structure** (RFC 4884 §7): checksum over the structure itself. -/
theorem icmp_extension_checksum_verifies (buf : Bytes) (hlen : buf.length ≤ 65535)
    (h0 : buf[2]? = some 0) (h1 : buf[3]? = some 0) : verifies (extTail buf) = true :=
  Verify.icmp_extension_checksum_verifies buf hlen h0 h1

/-- **ICMPv6 over IPv6** (RFC 4443 §2.3). -/
theorem icmpv6_checksum_verifies (src dst buf : Bytes) (hs : src.length = 16) (hd : dst.length = 16)
    (hlen : buf.length ≤ 65535) (h0 : buf[2]? = some 0) (h1 : buf[3]? = some 0) :
    verifies (pseudo6 src dst 58 buf.length ++ icmp6Tail (.ip6 src dst) buf buf.length) = true :=
  Verify.icmpv6_checksum_verifies src dst buf hs hd hlen h0 h1

/-! ## Part 2 — CRC-32 (RadioTap frame check sequence) -/

/-- **`Utils::crc32` is the IEEE 802.3 CRC-32**: the nibble-table routine with the table found in the source
    (`Gen/Crc.lean`, regenerated on every run) equals the bit-by-bit definition (reflected polynomial
    0xEDB88320, preset all ones, complemented result) on every input.  The 16 table entries are checked by
    `decide` (`table_entries`); `nibble_step` lifts them to all register values. -/
theorem crc32_table_spec (data : Bytes) : crc32 data = Spec.crcBitwise data :=
  Verify.crc32_table_spec data

/-- the standard check value: CRC-32("123456789") = 0xCBF43926 -/
example : crc32 [0x31, 0x32, 0x33, 0x34, 0x35, 0x36, 0x37, 0x38, 0x39] = 0xCBF43926#32 := by decide +kernel
example : Spec.crcBitwise [0x31, 0x32, 0x33, 0x34, 0x35, 0x36, 0x37, 0x38, 0x39] = 0xCBF43926#32 := by decide +kernel

/-! ## Part 3 — length fields, header lengths, tags and padding in the serialisation model

  `Tins.Ck.Ser.serialize` is the code-shaped model of `PDU::serialize` + the `write_serialization` members
  (tied to the code byte for byte by the correspondence run).  The readers `u8`, `be16At` are those of the RFC
  dissector (`Dissect.lean`).  `wf` fixes address widths and keeps option lists inside the region where libtins'
  size computation and option writer agree. -/
open Tins.Ck.Ser Tins.Ck.Dissect

/-- **Ethernet minimum frame**: an EthernetII frame is exactly `max 60 (14 + inner size)` octets, and everything after
    the inner PDU is zero padding. -/
theorem eth_min_60 (dst src : Bytes) (type : Nat) (rest : List Layer) (p : Option Layer)
    (hwf : (Layer.eth dst src type :: rest).all wf = true) :
    (serialize (.eth dst src type :: rest) p).length = max 60 (14 + size rest) ∧
    ∃ body, body.length = 14 + size rest ∧
      serialize (.eth dst src type :: rest) p = body ++ zeros (max 60 (14 + size rest) - (14 + size rest)) := by
  have hl := serialize_length _ p hwf
  simp only [List.all_cons, Bool.and_eq_true] at hwf
  have hin := serialize_length rest (some (.eth dst src type)) hwf.2
  have hw := hwf.1
  simp only [wf, Bool.and_eq_true, beq_iff_eq] at hw
  constructor
  · rw [hl]; simp only [size, headerSize, trailerSize]
    cases rest with
    | nil => simp [size, Tins.Gen.TagsC05.ethMinFrame]
    | cons a b => simp [Tins.Gen.TagsC05.ethMinFrame]; omega
  · have ht : trailerSize (.eth dst src type) (if rest.isEmpty = true then none else some (size rest))
        = max 60 (14 + size rest) - (14 + size rest) := by
      simp only [trailerSize]
      cases rest with
      | nil => simp [size, Tins.Gen.TagsC05.ethMinFrame]
      | cons a b => simp [Tins.Gen.TagsC05.ethMinFrame]; omega
    simp only [serialize, write]
    rw [ht]
    refine ⟨_, ?_, rfl⟩
    simp [hw.1, hw.2, hin]; omega

example : (serialize [.eth [1,2,3,4,5,6] [7,8,9,10,11,12] 0, .raw [0xaa]] none).length = 60 := by decide

/-- **IPv4 total length and header length**: the total-length field is the number of octets of the datagram (header,
    options, padding and everything inside), the version is 4 and IHL × 4 is the end of the padded options. -/
theorem ip_length_fields (tos id flags fragoff ttl proto : Nat) (src dst : Bytes) (opts : List (Nat × Bytes))
    (rest : List Layer) (p : Option Layer)
    (hwf : (Layer.ip tos id flags fragoff ttl proto src dst opts :: rest).all wf = true)
    (hopts : ipOptSize opts ≤ 40)
    (hsz : size (Layer.ip tos id flags fragoff ttl proto src dst opts :: rest) ≤ 65535) :
    let out := serialize (.ip tos id flags fragoff ttl proto src dst opts :: rest) p
    be16At out 2 = out.length ∧ u8 out 0 / 16 = 4 ∧
      u8 out 0 % 16 * 4 = headerSize (.ip tos id flags fragoff ttl proto src dst opts) := by
  intro out
  have hl : out.length = size _ := serialize_length _ p hwf
  simp only [List.all_cons, Bool.and_eq_true] at hwf
  have hin := serialize_length rest (some (.ip tos id flags fragoff ttl proto src dst opts)) hwf.2
  have hp := pad4_mod (ipOptSize opts)
  have hp2 : pad4 (ipOptSize opts) ≤ 40 := by unfold pad4; split <;> omega
  have hout : out = ipTail _ _ := rfl
  simp only [size, headerSize, trailerSize] at hl hsz
  refine ⟨?_, ?_, ?_⟩
  · rw [hl, hout]; unfold ipTail; simp only []
    rw [be16At_poke16_ne _ _ _ _ (by omega)]
    simp only [List.cons_append, List.nil_append, List.append_assoc]
    rw [be16At_cons, be16At_cons, be16At_w16', hin]
    simp only [headerSize, trailerSize]; omega
  · rw [hout]; unfold ipTail; simp only []
    rw [u8_poke16_ne _ _ _ _ (by omega) (by omega)]
    simp only [List.cons_append, u8_cons_zero, b8_toNat, headerSize]; omega
  · rw [hout]; unfold ipTail; simp only []
    rw [u8_poke16_ne _ _ _ _ (by omega) (by omega)]
    simp only [List.cons_append, u8_cons_zero, b8_toNat, headerSize]; omega

/-- **UDP length**: the length field is the UDP header plus everything inside it. -/
theorem udp_length_field (sp dp : Nat) (rest : List Layer) (p : Option Layer)
    (hwf : (Layer.udp sp dp :: rest).all wf = true) (hsz : size (Layer.udp sp dp :: rest) ≤ 65535) :
    be16At (serialize (.udp sp dp :: rest) p) 4 = (serialize (.udp sp dp :: rest) p).length := by
  have hl := serialize_length _ p hwf
  simp only [List.all_cons, Bool.and_eq_true] at hwf
  have hin := serialize_length rest (some (.udp sp dp)) hwf.2
  rw [hl]
  simp only [size, headerSize, trailerSize] at hsz ⊢
  simp only [serialize, write]
  have hb : ∀ par buf s, be16At (udpTail par buf s) 4 = be16At buf 4 := by
    intro par buf s
    cases par with
    | other => rfl
    | ip4 s d => simp only [udpTail]; exact be16At_poke16_ne _ _ _ _ (by omega)
    | ip6 s d => simp only [udpTail]; exact be16At_poke16_ne _ _ _ _ (by omega)
  rw [hb]
  simp only [List.append_assoc]
  rw [show w16 sp = [b8 (sp / 256), b8 sp] from rfl, show w16 dp = [b8 (dp / 256), b8 dp] from rfl]
  simp only [List.cons_append, List.nil_append]
  rw [be16At_cons, be16At_cons, be16At_cons, be16At_cons, be16At_w16']
  cases rest with
  | nil => simp [size]
  | cons a b => simp at hsz ⊢; omega

/-- **IPv6 payload length**: everything after the 40-octet fixed header (extension headers included). -/
theorem ip6_payload_length_field (tc flow hop nh : Nat) (src dst : Bytes) (exts : List (Nat × Bytes))
    (rest : List Layer) (p : Option Layer)
    (hwf : (Layer.ip6 tc flow hop nh src dst exts :: rest).all wf = true)
    (hsz : size (Layer.ip6 tc flow hop nh src dst exts :: rest) ≤ 65535 + 40) :
    be16At (serialize (.ip6 tc flow hop nh src dst exts :: rest) p) 4
      = (serialize (.ip6 tc flow hop nh src dst exts :: rest) p).length - 40 := by
  have hl := serialize_length _ p hwf
  simp only [List.all_cons, Bool.and_eq_true] at hwf
  have hin := serialize_length rest (some (.ip6 tc flow hop nh src dst exts)) hwf.2
  rw [hl]
  simp only [size, headerSize, trailerSize] at hsz ⊢
  simp only [serialize, write, List.cons_append, List.nil_append, List.append_assoc]
  rw [be16At_cons, be16At_cons, be16At_cons, be16At_cons, be16At_w16', hin]
  simp only [headerSize, trailerSize]; omega

/-- **TCP data offset** points at the end of the padded options. -/
theorem tcp_data_offset_field (sp dp seq ack flags win urg : Nat) (opts : List (Nat × Bytes))
    (rest : List Layer) (p : Option Layer) (hopts : tcpOptSize opts ≤ 40) :
    u8 (serialize (.tcp sp dp seq ack flags win urg opts :: rest) p) 12 / 16 * 4
      = headerSize (.tcp sp dp seq ack flags win urg opts) := by
  have hb : ∀ par buf s, u8 (tcpTail par buf s) 12 = u8 buf 12 := by
    intro par buf s
    cases par with
    | other => rfl
    | ip4 s d => simp only [tcpTail]; exact u8_poke16_ne _ _ _ _ (by omega) (by omega)
    | ip6 s d => simp only [tcpTail]; exact u8_poke16_ne _ _ _ _ (by omega) (by omega)
  simp only [serialize, write]
  rw [hb]
  simp only [List.append_assoc]
  rw [show w16 sp = [b8 (sp / 256), b8 sp] from rfl, show w16 dp = [b8 (dp / 256), b8 dp] from rfl,
    show w32 seq = [b8 (seq / 16777216), b8 (seq / 65536), b8 (seq / 256), b8 seq] from rfl,
    show w32 ack = [b8 (ack / 16777216), b8 (ack / 65536), b8 (ack / 256), b8 ack] from rfl]
  simp only [List.cons_append, List.nil_append, u8_cons_succ, u8_cons_zero, b8_toNat, headerSize]
  have hp := pad4_mod (tcpOptSize opts)
  have hp2 : pad4 (tcpOptSize opts) ≤ 40 := by unfold pad4; split <;> omega
  omega

/-! ### next-protocol tags: the generated class → tag tables against the IEEE / IANA registries of the dissector -/

/-- **EtherType names the follower**: whenever the layer after an EthernetII header has a registered EtherType (IPv4,
    IPv6, 802.1Q — 802.1ad when two tags follow —, PPPoE discovery / session by its code, MPLS), that is the type written. -/
theorem eth_tag_names_follower (dst src : Bytes) (type : Nat) (n : Layer) (rest' : List Layer) (p : Option Layer)
    (t : Nat) (hwf : wf (.eth dst src type) = true) (hn : wf n = true)
    (ht : etherTypeOf n rest'.head? = some t) :
    be16At (serialize (.eth dst src type :: n :: rest') p) 12 = t := by
  simp only [wf, Bool.and_eq_true, beq_iff_eq] at hwf
  simp only [serialize, write, ethPayloadType, List.head?_cons, List.drop_succ_cons, List.drop_zero]
  rw [show ∀ (f : Nat) (x y : Bytes), dst ++ src ++ w16 f ++ x ++ y = (dst ++ src) ++ (w16 f ++ (x ++ y)) by
    intros; simp only [List.append_assoc]]
  rw [be16At_at_len _ _ 12 (by simp [hwf.1, hwf.2]), be16At_w16']
  cases n with
  | ip a b c d e f g h i =>
    simp only [etherTypeOf, Option.some.injEq] at ht; subst ht
    simp only []; rw [show flagToEther (.ip a b c d e f g h i) = 0x0800 from rfl]; simp [Tins.Gen.TagsC05.ethUNKNOWN]
  | ip6 a b c d e f g =>
    simp only [etherTypeOf, Option.some.injEq] at ht; subst ht
    simp only []; rw [show flagToEther (.ip6 a b c d e f g) = 0x86DD from rfl]; simp [Tins.Gen.TagsC05.ethUNKNOWN]
  | mpls a b c d =>
    simp only [etherTypeOf, Option.some.injEq] at ht; subst ht
    simp only []; rw [show flagToEther (.mpls a b c d) = 0x8847 from rfl]; simp [Tins.Gen.TagsC05.ethUNKNOWN]
  | pppoe code a b c =>
    simp only [etherTypeOf, Option.some.injEq] at ht; subst ht
    simp only []
    by_cases hc : code = 0 <;> simp [hc, Tins.Gen.TagsC05.ethPPPOES, Tins.Gen.TagsC05.ethPPPOED, Tins.Gen.TagsC05.ethUNKNOWN]
  | dot1q a b c d e =>
    simp only [etherTypeOf] at ht
    simp only []
    rw [show flagToEther (.dot1q a b c d e) = 0x8100 from rfl]
    split at ht <;> simp only [Option.some.injEq] at ht <;> subst ht <;> simp_all [Tins.Gen.TagsC05.ethQINQ, Tins.Gen.TagsC05.ethUNKNOWN]
  | eapol a b =>
    simp only [etherTypeOf, Option.some.injEq] at ht; subst ht
    simp only []; rw [show flagToEther (.eapol a b) = 0x888E from rfl]; simp [Tins.Gen.TagsC05.ethUNKNOWN]
  | «opaque» _ _ _ => simp [wf] at hn
  | _ => simp [etherTypeOf] at ht

/-- **IPv4 protocol names the follower** (IP-in-IP, IPv6, TCP, UDP, ICMP, ICMPv6, AH, ESP). -/
theorem ip_proto_names_follower (tos id flags fragoff ttl proto : Nat) (src dst : Bytes) (opts : List (Nat × Bytes))
    (n : Layer) (rest' : List Layer) (p : Option Layer) (t : Nat) (hn : wf n = true)
    (ht : ipProtoOf n = some t) :
    u8 (serialize (.ip tos id flags fragoff ttl proto src dst opts :: n :: rest') p) 9 = t := by
  simp only [serialize, write, ipProtoField, List.head?_cons]
  unfold ipTail; simp only []
  rw [u8_poke16_ne _ _ _ _ (by omega) (by omega)]
  rw [show w16 id = [b8 (id / 256), b8 id] from rfl]
  simp only [w16, List.cons_append, List.nil_append, u8_cons_succ, u8_cons_zero, b8_toNat]
  cases n with
  | ip a b c d e f g h i =>
    simp only [ipProtoOf, Layer.kind, Option.some.injEq] at ht; subst ht
    rw [show flagToIp (.ip a b c d e f g h i) = 4 from rfl]; simp
  | ip6 a b c d e f g =>
    simp only [ipProtoOf, Layer.kind, Option.some.injEq] at ht; subst ht
    rw [show flagToIp (.ip6 a b c d e f g) = 41 from rfl]; simp
  | tcp a b c d e f g h =>
    simp only [ipProtoOf, Layer.kind, Option.some.injEq] at ht; subst ht
    rw [show flagToIp (.tcp a b c d e f g h) = 6 from rfl]; simp
  | udp a b =>
    simp only [ipProtoOf, Layer.kind, Option.some.injEq] at ht; subst ht
    rw [show flagToIp (.udp a b) = 17 from rfl]; simp
  | icmp a b c d e f g h i =>
    simp only [ipProtoOf, Layer.kind, Option.some.injEq] at ht; subst ht
    rw [show flagToIp (.icmp a b c d e f g h i) = 1 from rfl]; simp
  | icmp6 a b c d e f =>
    simp only [ipProtoOf, Layer.kind, Option.some.injEq] at ht; subst ht
    rw [show flagToIp (.icmp6 a b c d e f) = 58 from rfl]; simp
  | ah a b c d =>
    simp only [ipProtoOf, Layer.kind, Option.some.injEq] at ht; subst ht
    rw [show flagToIp (.ah a b c d) = 51 from rfl]; simp
  | esp a b =>
    simp only [ipProtoOf, Layer.kind, Option.some.injEq] at ht; subst ht
    rw [show flagToIp (.esp a b) = 50 from rfl]; simp
  | «opaque» _ _ _ => simp [wf] at hn
  | _ => simp [ipProtoOf, Layer.kind] at ht

/-- **IPv6 next header names the follower** when there is no extension header (with extension headers the fixed header
    names the first of them and the last one names the follower: `ip6Chain`, covered by correspondence + oracle). -/
theorem ip6_next_header_names_follower (tc flow hop nh : Nat) (src dst : Bytes)
    (n : Layer) (rest' : List Layer) (p : Option Layer) (t : Nat) (hn : wf n = true)
    (ht : ipProtoOf n = some t) :
    u8 (serialize (.ip6 tc flow hop nh src dst [] :: n :: rest') p) 6 = t := by
  simp only [serialize, write, ip6LastNextHeader, nextOf, List.head?_cons]
  simp only [w16, List.cons_append, List.nil_append, u8_cons_succ, u8_cons_zero, b8_toNat]
  cases n with
  | ip a b c d e f g h i =>
    simp only [ipProtoOf, Layer.kind, Option.some.injEq] at ht; subst ht
    rw [show flagToIp (.ip a b c d e f g h i) = 4 from rfl]; simp
  | ip6 a b c d e f g =>
    simp only [ipProtoOf, Layer.kind, Option.some.injEq] at ht; subst ht
    rw [show flagToIp (.ip6 a b c d e f g) = 41 from rfl]; simp
  | tcp a b c d e f g h =>
    simp only [ipProtoOf, Layer.kind, Option.some.injEq] at ht; subst ht
    rw [show flagToIp (.tcp a b c d e f g h) = 6 from rfl]; simp
  | udp a b =>
    simp only [ipProtoOf, Layer.kind, Option.some.injEq] at ht; subst ht
    rw [show flagToIp (.udp a b) = 17 from rfl]; simp
  | icmp a b c d e f g h i =>
    simp only [ipProtoOf, Layer.kind, Option.some.injEq] at ht; subst ht
    rw [show flagToIp (.icmp a b c d e f g h i) = 1 from rfl]; simp
  | icmp6 a b c d e f =>
    simp only [ipProtoOf, Layer.kind, Option.some.injEq] at ht; subst ht
    rw [show flagToIp (.icmp6 a b c d e f) = 58 from rfl]; simp
  | ah a b c d =>
    simp only [ipProtoOf, Layer.kind, Option.some.injEq] at ht; subst ht
    rw [show flagToIp (.ah a b c d) = 51 from rfl]; simp
  | esp a b =>
    simp only [ipProtoOf, Layer.kind, Option.some.injEq] at ht; subst ht
    rw [show flagToIp (.esp a b) = 50 from rfl]; simp
  | «opaque» _ _ _ => simp [wf] at hn
  | _ => simp [ipProtoOf, Layer.kind] at ht

/-- **802.1Q tag names the follower** (an inner tag keeps 0x8100; PPPoE by its stage — fixed finding KF-C05-5). -/
theorem dot1q_tag_names_follower (prio cfi id type : Nat) (padf : Bool) (n : Layer) (rest' : List Layer)
    (p : Option Layer) (t : Nat) (hn : wf n = true) (ht : etherTypeInTag n = some t) :
    be16At (serialize (.dot1q prio cfi id type padf :: n :: rest') p) 2 = t := by
  simp only [serialize, write, List.head?_cons]
  simp only [List.cons_append, List.nil_append, List.append_assoc]
  rw [be16At_cons, be16At_cons, be16At_w16']
  cases n with
  | ip a b c d e f g h i =>
    simp only [etherTypeInTag, etherTypeOf, Option.some.injEq] at ht; subst ht
    rw [show pduToEther (.ip a b c d e f g h i) = 0x0800 from rfl]; simp [Tins.Gen.TagsC05.ethUNKNOWN]
  | ip6 a b c d e f g =>
    simp only [etherTypeInTag, etherTypeOf, Option.some.injEq] at ht; subst ht
    rw [show pduToEther (.ip6 a b c d e f g) = 0x86DD from rfl]; simp [Tins.Gen.TagsC05.ethUNKNOWN]
  | mpls a b c d =>
    simp only [etherTypeInTag, etherTypeOf, Option.some.injEq] at ht; subst ht
    rw [show pduToEther (.mpls a b c d) = 0x8847 from rfl]; simp [Tins.Gen.TagsC05.ethUNKNOWN]
  | dot1q a b c d e =>
    simp only [etherTypeInTag, Option.some.injEq] at ht; subst ht
    rw [show pduToEther (.dot1q a b c d e) = 0x8100 from rfl]; simp [Tins.Gen.TagsC05.ethUNKNOWN]
  | pppoe code a b c =>
    simp only [etherTypeInTag, etherTypeOf, Option.some.injEq] at ht; subst ht
    simp only [pduToEther]
    by_cases hc : code = 0 <;> simp [hc, Tins.Gen.TagsC05.ethPPPOES, Tins.Gen.TagsC05.ethPPPOED, Tins.Gen.TagsC05.ethUNKNOWN]
  | eapol a b =>
    simp only [etherTypeInTag, etherTypeOf, Option.some.injEq] at ht; subst ht
    rw [show pduToEther (.eapol a b) = 0x888E from rfl]; simp [Tins.Gen.TagsC05.ethUNKNOWN]
  | «opaque» _ _ _ => simp [wf] at hn
  | _ => simp [etherTypeInTag, etherTypeOf] at ht

/-- the class → tag and tag → class tables of `pdu_helpers.cpp` are inverse to each other on every class that has a
    tag → class row (a finite table: the whole quantifier is checked) -/
theorem ip_tag_roundtrip :
    Tins.Gen.TagsC05.flagToIp.all (fun (k, v) => (Tins.Gen.TagsC05.ipToFlag.find? (·.1 == v)).map (·.2) == some k) = true := by
  decide

theorem ether_tag_roundtrip :
    (Tins.Gen.TagsC05.flagToEther.filter (fun (k, _) => k != "mpls" && k != "rsneapol" && k != "eapol")).all
      (fun (k, v) => (Tins.Gen.TagsC05.etherToFlag.find? (·.1 == v)).map (·.2) == some k) = true := by
  decide

/-- the generated tables were recognised completely and carry the registry values the dissector uses -/
theorem tag_tables_match_registries :
    Tins.Gen.TagsC05.parsed = true ∧
    lookupTag Tins.Gen.TagsC05.flagToEther "ip" = some 0x0800 ∧ lookupTag Tins.Gen.TagsC05.flagToEther "ip6" = some 0x86DD ∧
    lookupTag Tins.Gen.TagsC05.flagToEther "dot1q" = some 0x8100 ∧ lookupTag Tins.Gen.TagsC05.flagToEther "mpls" = some 0x8847 ∧
    lookupTag Tins.Gen.TagsC05.flagToEther "pppoe" = some 0x8863 ∧ Tins.Gen.TagsC05.ethPPPOES = 0x8864 ∧
    Tins.Gen.TagsC05.ethQINQ = 0x88A8 ∧
    lookupTag Tins.Gen.TagsC05.flagToIp "tcp" = some 6 ∧ lookupTag Tins.Gen.TagsC05.flagToIp "udp" = some 17 ∧
    lookupTag Tins.Gen.TagsC05.flagToIp "icmp" = some 1 ∧ lookupTag Tins.Gen.TagsC05.flagToIp "icmp6" = some 58 ∧
    lookupTag Tins.Gen.TagsC05.flagToIp "ip" = some 4 ∧ lookupTag Tins.Gen.TagsC05.flagToIp "ip6" = some 41 ∧
    lookupTag Tins.Gen.TagsC05.flagToIp "ah" = some 51 ∧ lookupTag Tins.Gen.TagsC05.flagToIp "esp" = some 50 ∧
    Tins.Gen.TagsC05.ethMinFrame = 60 ∧ Tins.Gen.TagsC05.dot1qMin = 50 := by
  decide

/-! ### the checksums inside serialised stacks (Part 1 applied to the buffers `write_serialization` builds) -/

/-- the IPv4 header of every serialised stack verifies (any options, any inner stack) -/
theorem ip_header_checksum_in_situ (tos id flags fragoff ttl proto : Nat) (src dst : Bytes) (opts : List (Nat × Bytes))
    (rest : List Layer) (p : Option Layer) (hopts : ipOptSize opts ≤ 40) :
    verifies ((serialize (.ip tos id flags fragoff ttl proto src dst opts :: rest) p).take
      (headerSize (.ip tos id flags fragoff ttl proto src dst opts))) = true := by
  simp only [serialize, write]
  have hp2 : pad4 (ipOptSize opts) ≤ 40 := by unfold pad4; split <;> omega
  apply ip_checksum_verifies
  · simp only [headerSize]; omega
  · simp only [headerSize]; omega
  · simp [w16]
  · simp [w16]

/-- TCP directly inside IPv4: the segment of every serialised stack verifies with the RFC 793 pseudo header -/
theorem tcp_checksum_in_situ_ip4 (sp dp seq ack flags win urg : Nat) (opts : List (Nat × Bytes)) (rest : List Layer)
    (tos id fl fo ttl pr : Nat) (src dst : Bytes) (o : List (Nat × Bytes))
    (hwf : (Layer.tcp sp dp seq ack flags win urg opts :: rest).all wf = true)
    (hs : src.length = 4) (hd : dst.length = 4)
    (hsz : size (Layer.tcp sp dp seq ack flags win urg opts :: rest) ≤ 65535) :
    let out := serialize (.tcp sp dp seq ack flags win urg opts :: rest) (some (.ip tos id fl fo ttl pr src dst o))
    verifies (pseudo4 src dst 6 out.length ++ out) = true := by
  intro out
  have hl : out.length = size _ := serialize_length _ _ hwf
  simp only [List.all_cons, Bool.and_eq_true] at hwf
  have hin := serialize_length rest (some (.tcp sp dp seq ack flags win urg opts)) hwf.2
  have hw := hwf.1; simp only [wf] at hw
  have hpad := pad4_ge (tcpOptSize opts)
  simp only [size, headerSize, trailerSize] at hl hsz
  rw [hl]
  show verifies (pseudo4 src dst 6 _ ++ write _ rest _ _) = true
  simp only [write, parentOf, headerSize, trailerSize]
  generalize hb : (w16 sp ++ w16 dp ++ w32 seq ++ w32 ack ++ [b8 ((20 + pad4 (tcpOptSize opts)) / 4 % 16 * 16 + flags / 256 % 16), b8 flags]
      ++ w16 win ++ [0, 0] ++ w16 urg ++ writeTlvOpts opts ++ zeros (pad4 (tcpOptSize opts) - tcpOptSize opts)
      ++ serialize rest (some (.tcp sp dp seq ack flags win urg opts))) = buf
  have hbl : buf.length = 20 + pad4 (tcpOptSize opts) + size rest := by
    rw [← hb]; simp [length_writeTlvOpts_tcp opts hw, hin]; omega
  have e : 20 + pad4 (tcpOptSize opts) + (serialize rest (some (.tcp sp dp seq ack flags win urg opts))).length + 0
      = buf.length := by omega
  have e2 : 20 + pad4 (tcpOptSize opts) + size rest + 0 = buf.length := by omega
  rw [e, e2]
  apply tcp_checksum_verifies_ip4 src dst buf hs hd (by omega)
  · rw [← hb]; simp [w16, w32]
  · rw [← hb]; simp [w16, w32]

/-- UDP directly inside IPv4 (RFC 768 pseudo header; a computed 0 goes out as 0xffff by `udp_zero`) -/
theorem udp_checksum_in_situ_ip4 (sp dp : Nat) (rest : List Layer)
    (tos id fl fo ttl pr : Nat) (src dst : Bytes) (o : List (Nat × Bytes))
    (hwf : (Layer.udp sp dp :: rest).all wf = true) (hs : src.length = 4) (hd : dst.length = 4)
    (hsz : size (Layer.udp sp dp :: rest) ≤ 65535) :
    let out := serialize (.udp sp dp :: rest) (some (.ip tos id fl fo ttl pr src dst o))
    verifies (pseudo4 src dst 17 out.length ++ out) = true := by
  intro out
  have hl : out.length = size _ := serialize_length _ _ hwf
  simp only [List.all_cons, Bool.and_eq_true] at hwf
  have hin := serialize_length rest (some (.udp sp dp)) hwf.2
  simp only [size, headerSize, trailerSize] at hl hsz
  rw [hl]
  show verifies (pseudo4 src dst 17 _ ++ write _ rest _ _) = true
  simp only [write, parentOf, headerSize, trailerSize]
  generalize hb : (w16 sp ++ w16 dp ++ w16 (8 + (if rest.isEmpty = true then none else some (size rest)).getD 0) ++ [0, 0]
      ++ serialize rest (some (.udp sp dp))) = buf
  have hbl : buf.length = 8 + size rest := by rw [← hb]; simp [hin]; omega
  have e : 8 + (serialize rest (some (.udp sp dp))).length + 0 = buf.length := by omega
  have e2 : 8 + size rest + 0 = buf.length := by omega
  rw [e, e2]
  apply udp_checksum_verifies_ip4 src dst buf hs hd (by omega)
  · rw [← hb]; simp [w16]
  · rw [← hb]; simp [w16]

/-- UDP directly inside IPv6 (RFC 8200 pseudo header) -/
theorem udp_checksum_in_situ_ip6 (sp dp : Nat) (rest : List Layer)
    (tc flow hop nh : Nat) (src dst : Bytes) (ex : List (Nat × Bytes))
    (hwf : (Layer.udp sp dp :: rest).all wf = true) (hs : src.length = 16) (hd : dst.length = 16)
    (hsz : size (Layer.udp sp dp :: rest) ≤ 65535) :
    let out := serialize (.udp sp dp :: rest) (some (.ip6 tc flow hop nh src dst ex))
    verifies (pseudo6 src dst 17 out.length ++ out) = true := by
  intro out
  have hl : out.length = size _ := serialize_length _ _ hwf
  simp only [List.all_cons, Bool.and_eq_true] at hwf
  have hin := serialize_length rest (some (.udp sp dp)) hwf.2
  simp only [size, headerSize, trailerSize] at hl hsz
  rw [hl]
  show verifies (pseudo6 src dst 17 _ ++ write _ rest _ _) = true
  simp only [write, parentOf, headerSize, trailerSize]
  generalize hb : (w16 sp ++ w16 dp ++ w16 (8 + (if rest.isEmpty = true then none else some (size rest)).getD 0) ++ [0, 0]
      ++ serialize rest (some (.udp sp dp))) = buf
  have hbl : buf.length = 8 + size rest := by rw [← hb]; simp [hin]; omega
  have e : 8 + (serialize rest (some (.udp sp dp))).length + 0 = buf.length := by omega
  have e2 : 8 + size rest + 0 = buf.length := by omega
  rw [e, e2]
  apply udp_checksum_verifies_ip6 src dst buf hs hd (by omega)
  · rw [← hb]; simp [w16]
  · rw [← hb]; simp [w16]

/-- ICMP: the whole message of every serialised stack (inner packet, RFC 4884 padding, extension structure included)
    verifies under RFC 792 -/
theorem icmp_checksum_in_situ (type code id seq a b c : Nat) (lenflag : Bool) (exts : List (Nat × Nat × Bytes))
    (rest : List Layer) (p : Option Layer)
    (hwf : (Layer.icmp type code id seq a b c lenflag exts :: rest).all wf = true)
    (hsz : size (Layer.icmp type code id seq a b c lenflag exts :: rest) ≤ 65535) :
    verifies (serialize (.icmp type code id seq a b c lenflag exts :: rest) p) = true := by
  have hl := serialize_length _ p hwf
  simp only [serialize, write] at hl ⊢
  rw [length_icmpTail] at hl
  apply icmp_checksum_verifies _ (by omega)
  · simp
  · simp

/-- TCP directly inside IPv6 (RFC 8200 pseudo header) -/
theorem tcp_checksum_in_situ_ip6 (sp dp seq ack flags win urg : Nat) (opts : List (Nat × Bytes)) (rest : List Layer)
    (tc flow hop nh : Nat) (src dst : Bytes) (ex : List (Nat × Bytes))
    (hwf : (Layer.tcp sp dp seq ack flags win urg opts :: rest).all wf = true)
    (hs : src.length = 16) (hd : dst.length = 16)
    (hsz : size (Layer.tcp sp dp seq ack flags win urg opts :: rest) ≤ 65535) :
    let out := serialize (.tcp sp dp seq ack flags win urg opts :: rest) (some (.ip6 tc flow hop nh src dst ex))
    verifies (pseudo6 src dst 6 out.length ++ out) = true := by
  intro out
  have hl : out.length = size _ := serialize_length _ _ hwf
  simp only [List.all_cons, Bool.and_eq_true] at hwf
  have hin := serialize_length rest (some (.tcp sp dp seq ack flags win urg opts)) hwf.2
  have hw := hwf.1; simp only [wf] at hw
  have hpad := pad4_ge (tcpOptSize opts)
  simp only [size, headerSize, trailerSize] at hl hsz
  rw [hl]
  show verifies (pseudo6 src dst 6 _ ++ write _ rest _ _) = true
  simp only [write, parentOf, headerSize, trailerSize]
  generalize hb : (w16 sp ++ w16 dp ++ w32 seq ++ w32 ack ++ [b8 ((20 + pad4 (tcpOptSize opts)) / 4 % 16 * 16 + flags / 256 % 16), b8 flags]
      ++ w16 win ++ [0, 0] ++ w16 urg ++ writeTlvOpts opts ++ zeros (pad4 (tcpOptSize opts) - tcpOptSize opts)
      ++ serialize rest (some (.tcp sp dp seq ack flags win urg opts))) = buf
  have hbl : buf.length = 20 + pad4 (tcpOptSize opts) + size rest := by
    rw [← hb]; simp [length_writeTlvOpts_tcp opts hw, hin]; omega
  have e : 20 + pad4 (tcpOptSize opts) + (serialize rest (some (.tcp sp dp seq ack flags win urg opts))).length + 0
      = buf.length := by omega
  have e2 : 20 + pad4 (tcpOptSize opts) + size rest + 0 = buf.length := by omega
  rw [e, e2]
  apply tcp_checksum_verifies_ip6 src dst buf hs hd (by omega)
  · rw [← hb]; simp [w16, w32]
  · rw [← hb]; simp [w16, w32]

/-! ### composition: the theorems above hold for a layer at any depth of any well-formed stack -/

/-- **In situ.**  In the serialisation of `pre ++ l :: rest` the bytes of the sub-stack `l :: rest`, serialised with the
    last layer of `pre` as its parent, sit untouched at offset Σ `header_size()` of the enclosing layers: outer layers
    only write in front of and behind them (checksum patches land inside their own headers). -/
theorem layer_in_situ (pre : List Layer) (l : Layer) (rest : List Layer) (hwf : pre.all wf = true) :
    ∃ A B : Bytes, A.length = (pre.map headerSize).sum ∧
      serialize (pre ++ l :: rest) none = A ++ serialize (l :: rest) (parentAfter pre none) ++ B :=
  serialize_in_situ pre (l :: rest) none hwf

/-- **Proved part of the full statement**: for an IPv4 layer at any depth of any well-formed stack, the datagram `D`
    found at the offset the outer header sizes announce has total length = |D|, version 4, IHL × 4 = end of the padded
    options, a header checksum that verifies, and a protocol octet naming the layer that follows. -/
theorem length_fields_partial (pre : List Layer) (tos id flags fragoff ttl proto : Nat) (src dst : Bytes)
    (opts : List (Nat × Bytes)) (n : Layer) (rest' : List Layer) (t : Nat)
    (hpre : pre.all wf = true)
    (hwf : (Layer.ip tos id flags fragoff ttl proto src dst opts :: n :: rest').all wf = true)
    (hopts : ipOptSize opts ≤ 40)
    (hsz : size (Layer.ip tos id flags fragoff ttl proto src dst opts :: n :: rest') ≤ 65535)
    (ht : ipProtoOf n = some t) :
    ∃ A D B : Bytes, serialize (pre ++ .ip tos id flags fragoff ttl proto src dst opts :: n :: rest') none = A ++ D ++ B ∧
      A.length = (pre.map headerSize).sum ∧
      be16At D 2 = D.length ∧ u8 D 0 / 16 = 4 ∧
      u8 D 0 % 16 * 4 = headerSize (.ip tos id flags fragoff ttl proto src dst opts) ∧
      verifies (D.take (headerSize (.ip tos id flags fragoff ttl proto src dst opts))) = true ∧
      u8 D 9 = t := by
  obtain ⟨A, B, hA, hs⟩ := layer_in_situ pre (.ip tos id flags fragoff ttl proto src dst opts) (n :: rest') hpre
  have h1 := ip_length_fields tos id flags fragoff ttl proto src dst opts (n :: rest') (parentAfter pre none) hwf hopts hsz
  have h2 := ip_header_checksum_in_situ tos id flags fragoff ttl proto src dst opts (n :: rest') (parentAfter pre none) hopts
  have hn : wf n = true := by simp only [List.all_cons, Bool.and_eq_true] at hwf; exact hwf.2.1
  have h3 := ip_proto_names_follower tos id flags fragoff ttl proto src dst opts n rest' (parentAfter pre none) t hn ht
  exact ⟨A, _, B, hs, hA, h1.1, h1.2.1, h1.2.2, h2, h3⟩

/-! ### the full statement over whole stacks: refuted on the current code by KF-C05-1 / -2 and KF-C05-10 / -11, proved outside

  `Dissect.walk` is the RFC dissector used as oracle on the implementation's own output (`Checksum/Dissect.lean`); `accepted
  ls` says it accepts the complete serialisation of the stack `ls`: every length / header-length field it reads equals the
  octets it governs (the inner stack is found exactly there and nowhere else), every next-protocol tag names the follower,
  padding is zero and minimal, every checksum and the RadioTap FCS verify, every value set through the API is read back.

  Hypotheses (`Checksum/Walk/Defs.lean`): `wf` (address widths, option lists where libtins' size and writer agree),
  `inRange` (values inside their wire fields; an AH ICV of whole 32-bit words), `delimited none 0` (stacks the dissector
  can delimit: a class without a length field of its own does not sit inside another layer's padding, RFC 4884
  extensions follow an original datagram in an extensible message, PPPoE session / discovery shapes, a top-level MPLS label
  says itself whether it is the bottom of the stack) and `size ls ≤ 65535`. -/

/-- does the RFC dissector accept the bytes of the stack (all checks of `Dissect.walk`, values set included) -/
def accepted (ls : List Layer) : Bool :=
  match Dissect.check true ls (serialize ls none) with
  | .ok _ => true
  | .error _ => false

/-- **Full statement** (C05 for the modelled classes): the independent dissector accepts every serialised stack of at
    most 65535 octets. -/
def length_fields_full : Prop :=
  ∀ ls : List Layer, ls.all wf = true → ls.all inRange = true → delimited none 0 ls = true → size ls ≤ 65535 →
    accepted ls = true

/-- KF-C05-1: ICMP Time Exceeded with the RFC 4884 length field requested, no extensions, 5 octets of original datagram:
    the length octet says 2 words (8 octets), 5 follow. -/
def kf1Witness : List Layer :=
  [.ip 0 1 0 0 64 0 [10, 0, 0, 1] [10, 0, 0, 2] [], .icmp 11 0 0 0 0 0 0 true [], .raw [1, 2, 3, 4, 5]]

theorem length_fields_full_fails : ¬ length_fields_full := by
  intro h
  have := h kf1Witness (by decide) (by decide) (by decide) (by decide)
  revert this; decide +kernel

/-- the statement with only the region of KF-C05-1 / -2 (`rfc4884Unpadded`) taken out -/
def length_fields_outside_unpadded : Prop :=
  ∀ ls : List Layer, ls.all wf = true → ls.all inRange = true → delimited none 0 ls = true → size ls ≤ 65535 →
    rfc4884Unpadded ls = false → accepted ls = true

/-- KF-C05-10: ICMP Destination Unreachable around 1028 octets of original datagram: 257 words do not fit the 8-bit length
    field, `header_.un.rfc4884.length = length_value / sizeof(uint32_t)` stores 1 — a receiver following RFC 4884 takes
    the octets after the first 4 for an extension structure. -/
def kf10Witness : List Layer :=
  [.ip 0 1 0 0 64 0 [10, 0, 0, 1] [10, 0, 0, 2] [], .icmp 3 0 0 0 0 0 0 false [], .raw (List.replicate 1028 0xab)]

theorem length_fields_outside_unpadded_fails : ¬ length_fields_outside_unpadded := by
  intro h
  have := h kf10Witness (by decide +kernel) (by decide +kernel) (by decide +kernel) (by decide +kernel) (by decide +kernel)
  revert this; decide +kernel

/-- **What holds on the current code**: acceptance by the whole dissector outside the regions of the known findings
    (KF-C05-1 / -2: `rfc4884Unpadded`; KF-C05-10 / -11: `rfc4884Overflow`). -/
def length_fields_outside_known_findings : Prop :=
  ∀ ls : List Layer, ls.all wf = true → ls.all inRange = true → delimited none 0 ls = true → size ls ≤ 65535 →
    rfc4884Unpadded ls = false → rfc4884Overflow ls = false → accepted ls = true

/-- **`length_fields`** — for every stack the serialisation model builds, of any depth and any mix of the classes
    EthernetII, 802.1Q (QinQ), 802.3, LLC, SNAP, PPPoE, MPLS, loopback, SLL, IPv4 (+options), IPv6 (+extension headers), AH,
    ESP, TCP (+options), UDP, ICMP / ICMPv6 (+RFC 4884 extensions), RC4 EAPOL, RadioTap, RawPDU: `Dissect.walk (serialize
    ls)` accepts the whole serialisation.  By induction over the stack (`Checksum/Walk/Main.lean`, `acc_all`), one step
    lemma per class (`Checksum/Walk/Step*.lean`) over the introduction rules of the dissector (`Checksum/Walk/Intro.lean`). -/
theorem length_fields : length_fields_outside_known_findings := by
  intro ls hwf hr hd hsz hk1 hk10
  unfold accepted
  rw [check_all ls hwf hr hsz hd hk1 hk10]

/-- the same with an enclosing layer `p` and `k` octets of its padding behind the stack: the statement the induction runs
    on (`Acc`: the walk accepts and hands exactly the padding back) -/
theorem length_fields_in_context (ls : List Layer) (p : Option Layer) (k : Nat)
    (hwf : ls.all wf = true) (hr : ls.all inRange = true) (hp : parentWf p) (hsz : size ls ≤ 65535)
    (hd : delimited p k ls = true) (hk1 : rfc4884Unpadded ls = false) (hk10 : rfc4884Overflow ls = false) :
    Dissect.walk true ls (serialize ls p ++ zeros k) (walkPar p) = .ok (zeros k) :=
  acc_all ls p k hwf hr hp hsz hd hk1 hk10

example : rfc4884Unpadded kf1Witness = true := by decide
example : rfc4884Overflow kf10Witness = true := by decide +kernel

/-! non-vacuity of `length_fields`: concrete stacks that meet every hypothesis (the conclusion then follows from the theorem,
    and is re-checked by evaluation) -/
section Examples
private def eth0 : Layer := .eth [1,2,3,4,5,6] [7,8,9,10,11,12] 0
private def ip4a : Layer := .ip 0 1 2 0 64 0 [10, 0, 0, 1] [10, 0, 0, 2] [(1, []), (7, [1, 2, 3])]
private def ip6a : Layer := .ip6 0 0 64 0 [0x20,1,0xd,0xb8,0,0,0,0,0,0,0,0,0,0,0,1] [0x20,1,0xd,0xb8,0,0,0,0,0,0,0,0,0,0,0,2]
  [(60, [1, 2, 3, 4, 5, 6, 7]), (0, [9])]

/-- Ethernet / IPv4 with options / UDP / payload (minimum-frame padding applies) -/
def exUdp : List Layer := [eth0, ip4a, .udp 53 5353, .raw [0xde, 0xad, 0xbe]]
/-- QinQ / PPPoE session -/
def exPppoe : List Layer := [eth0, .dot1q 1 0 5 0 false, .dot1q 0 0 6 0 true, .pppoe 0 7 0 [], .raw [0, 0x21, 1, 2, 3]]
/-- PPPoE discovery with two tags -/
def exPppoeD : List Layer := [eth0, .pppoe 9 7 0 [(0x0101, []), (0x0103, [0xaa, 0xbb])]]
/-- MPLS label stack -/
def exMpls : List Layer := [eth0, .mpls 5 0 0 64, .mpls 6 1 0 63, ip4a, .tcp 80 1024 1 2 0x18 512 0 [(2, [5, 0xb4]), (1, [])], .raw [1]]
/-- 802.3 / LLC+SNAP / IPv6 with two extension headers / ICMPv6 Destination Unreachable with an RFC 4884 extension structure -/
def exIcmp6 : List Layer := [.dot3 [1,2,3,4,5,6] [7,8,9,10,11,12], .snap 3 0 0, ip6a,
  .icmp6 1 0 0 0 true [(1, 1, [0xaa, 0xbb, 0xcc, 0xdd])], .raw [1, 2, 3, 4, 5, 6, 7, 8, 9]]
/-- Linux cooked capture / IPv4 / AH / ICMP Time Exceeded with extensions around an IPv4 + UDP original datagram -/
def exAh : List Layer := [.sll 0 1 6 [0,1,2,3,4,5,0,0] 0, ip4a, .ah 1 2 [1,2,3,4,5,6,7,8] 0,
  .icmp 11 0 0 0 0 0 0 false [(2, 1, [1, 2])], .ip 0 2 0 0 1 0 [10,0,0,2] [10,0,0,9] [], .udp 1 2, .raw [7]]
/-- BSD loopback / IPv6 / ESP -/
def exLoop : List Layer := [.loop 0, ip6a, .esp 1 2, .raw [1, 2, 3]]
/-- RadioTap with FCS around a frame, RC4 EAPOL key frame over Ethernet / 802.3 + LLC -/
def exRadio : List Layer := [.radiotap true, .raw [0xd4, 0, 0, 0, 1, 2, 3, 4, 5, 6]]
def exEapol : List Layer := [eth0, .eapol 5 [0xaa, 0xbb, 0xcc]]
def exLlc : List Layer := [.dot3 [1,2,3,4,5,6] [7,8,9,10,11,12], .llc 0x42 0x42, .raw [0, 0]]

private theorem ex_ok (ls : List Layer) (h : (ls.all wf && ls.all inRange && delimited none 0 ls && decide (size ls ≤ 65535) &&
    !rfc4884Unpadded ls && !rfc4884Overflow ls) = true) : accepted ls = true := by
  simp only [Bool.and_eq_true, decide_eq_true_eq, Bool.not_eq_true'] at h
  obtain ⟨⟨⟨⟨⟨h1, h2⟩, h3⟩, h4⟩, h5⟩, h6⟩ := h
  exact length_fields ls h1 h2 h3 h4 h5 h6

example : accepted exUdp = true := ex_ok _ (by decide)
example : accepted exPppoe = true := ex_ok _ (by decide)
example : accepted exPppoeD = true := ex_ok _ (by decide)
example : accepted exMpls = true := ex_ok _ (by decide)
example : accepted exIcmp6 = true := ex_ok _ (by decide)
example : accepted exAh = true := ex_ok _ (by decide)
example : accepted exLoop = true := ex_ok _ (by decide)
example : accepted exRadio = true := ex_ok _ (by decide)
example : accepted exEapol = true := ex_ok _ (by decide)
example : accepted exLlc = true := ex_ok _ (by decide)
example : accepted exIcmp6 = true := by decide +kernel
example : accepted exRadio = true := by decide +kernel
end Examples

/-! ### the single fields behind `length_fields`, by name (each is one clause of the dissector; `length_fields` composes them) -/

/-- **IPv6 extension chain**: started with the next-header value of the fixed header, the dissector finds every extension
    header at the offset the `Hdr Ext Len` octets of its predecessors give (8-octet units beyond the first 8), each naming
    the type of the next, the data and zero padding in place, and ends behind the last one holding `last`. -/
theorem ip6_extension_chain (exts : List (Nat × Bytes)) (last : Nat) (pre X : Bytes)
    (hr : exts.all (fun (t, d) => t < 256 && d.length < 2040) = true) (hl : last < 256) :
    Dissect.walk.chain (pre ++ (ip6ExtBytes exts last ++ X)) exts (nextOf exts last) pre.length
      = .ok (last, pre.length + (ip6ExtBytes exts last).length) :=
  chain_written exts last pre X hr hl

example : (match Dissect.walk.chain ([0xff] ++ (ip6ExtBytes [(60, [1, 2, 3, 4, 5, 6, 7]), (0, [9])] 58 ++ [0xee]))
    [(60, [1, 2, 3, 4, 5, 6, 7]), (0, [9])] 60 1 with | .ok r => r == (58, 25) | .error _ => false) = true := by decide +kernel

/-- **RFC 4884 extension structure**: what `ICMPExtensionsStructure::serialize` writes has version 2, a checksum over the
    structure that verifies, and objects whose length fields chain up exactly to its end and carry the class, type and
    payload that were set. -/
theorem rfc4884_extension_structure (who : String) (exts : List (Nat × Nat × Bytes))
    (hr : exts.all (fun (cl, t, p) => cl < 256 && t < 256 && p.length < 65532) = true)
    (hsz : extStructSize exts ≤ 65535) :
    Dissect.checkExtStruct who (writeExtStruct exts) true exts = .ok () :=
  checkExtStruct_written who exts hr hsz

example : (match Dissect.checkExtStruct "icmp" (writeExtStruct [(1, 1, [0xaa, 0xbb]), (2, 3, [])]) true
    [(1, 1, [0xaa, 0xbb]), (2, 3, [])] with | .ok _ => true | .error _ => false) = true := by decide +kernel

/-- **RFC 4884 length octet** with an extension structure: in 32-bit words exactly the padded original datagram, at least
    128 octets (0 stands for 128) — outside KF-C05-10 (more than 255 words). -/
theorem icmp_rfc4884_length_octet (type : Nat) (lenflag : Bool) (sz : Nat) (exts : List (Nat × Nat × Bytes))
    (hal : type = 3 ∨ type = 11 ∨ type = 12) (he : exts.isEmpty = false) (hov : paddedInner (some sz) 4 < 1024) :
    icmpLengthOctet type lenflag 0 (some sz) exts < 256 ∧
    (if icmpLengthOctet type lenflag 0 (some sz) exts ≠ 0 then icmpLengthOctet type lenflag 0 (some sz) exts * 4 else 128)
      = (if paddedInner (some sz) 4 > 128 then paddedInner (some sz) 4 else 128) :=
  icmp_octet_ext type lenflag sz exts hal he hov

theorem icmp6_rfc4884_length_octet (type : Nat) (lenflag : Bool) (sz : Nat) (exts : List (Nat × Nat × Bytes))
    (hal : type = 1 ∨ type = 3) (he : exts.isEmpty = false) (hov : paddedInner (some sz) 8 < 2048) :
    icmp6LengthOctet type lenflag 0 (some sz) exts < 256 ∧
    (if icmp6LengthOctet type lenflag 0 (some sz) exts ≠ 0 then icmp6LengthOctet type lenflag 0 (some sz) exts * 8 else 128)
      = (if paddedInner (some sz) 8 > 128 then paddedInner (some sz) 8 else 128) :=
  icmp6_octet_ext type lenflag sz exts hal he hov

example : icmpLengthOctet 3 true 0 (some 131) [(1, 1, [])] = 33 := by decide
example : icmp6LengthOctet 1 false 0 (some 9) [(1, 1, [])] = 0 := by decide

/-- **RadioTap `it_len`** is the size of the RadioTap header (little-endian), and the frame starts right behind it. -/
theorem radiotap_it_len (fcs : Bool) (rest : List Layer) (p : Option Layer) :
    le16At (serialize (.radiotap fcs :: rest) p) 2 = headerSize (.radiotap fcs) ∧
    ((serialize (.radiotap fcs :: rest) p).drop (headerSize (.radiotap fcs))).take (serialize rest (some (.radiotap fcs))).length
      = serialize rest (some (.radiotap fcs)) := by
  obtain ⟨H, T, hH, hw⟩ := write_frame (.radiotap fcs) rest (serialize rest (some (.radiotap fcs))) p rfl
  constructor
  · cases fcs <;> cases rest <;> rfl
  · simp only [serialize]
    rw [hw, List.append_assoc, drop_append_len _ _ _ hH, take_append_len _ _ _ rfl]

/-- **RadioTap FCS**: when the FLAGS field of the header has the FCS bit, the four octets behind the carried frame are the
    IEEE 802.3 CRC-32 (bit-by-bit definition) of exactly that frame, least significant octet first; without the bit nothing
    follows the frame. -/
theorem radiotap_fcs (a : Layer) (r : List Layer) (p : Option Layer) :
    ∃ H : Bytes, H.length = headerSize (.radiotap true) ∧
      serialize (.radiotap true :: a :: r) p = H ++ serialize (a :: r) (some (.radiotap true))
        ++ w32le (Spec.crcBitwise (serialize (a :: r) (some (.radiotap true)))).toNat := by
  refine ⟨[0, 0, b8 (4 + (radiotapPayload true).length), b8 ((4 + (radiotapPayload true).length) / 256)]
    ++ radiotapPayload true, rfl, ?_⟩
  have htr : trailerSize (Layer.radiotap true) (if false = true then none else some (size (a :: r))) = 4 := rfl
  rw [serialize]; simp only [write, headerSize, List.isEmpty_cons, Bool.not_false, htr]
  rw [if_pos ⟨by omega, trivial⟩, Verify.crc32_table_spec]

theorem radiotap_no_fcs (rest : List Layer) (p : Option Layer) :
    ∃ H : Bytes, H.length = headerSize (.radiotap false) ∧
      serialize (.radiotap false :: rest) p = H ++ serialize rest (some (.radiotap false)) := by
  refine ⟨[0, 0, b8 (4 + (radiotapPayload false).length), b8 ((4 + (radiotapPayload false).length) / 256)]
    ++ radiotapPayload false, rfl, ?_⟩
  have htr : trailerSize (Layer.radiotap false) (if rest.isEmpty = true then none else some (size rest)) = 0 := rfl
  simp only [serialize, write, htr, headerSize, gt_iff_lt, Nat.lt_irrefl, false_and, if_false, zeros_zero, List.append_nil]

example : serialize [.radiotap true, .raw [0xaa, 0xbb, 0xcc]] none
    = [0, 0, 26, 0] ++ radiotapPayload true ++ [0xaa, 0xbb, 0xcc] ++ [0x4c, 0xf8, 0x4d, 0xbe] := by decide +kernel

/-- **EAPOL length**: the packet body length is everything behind the 4-octet EAPOL header. -/
theorem eapol_length_field (keylen : Nat) (key : Bytes) (rest : List Layer) (p : Option Layer)
    (hall : rest.all wf = true) (hsz : size (Layer.eapol keylen key :: rest) ≤ 65535) :
    be16At (serialize (.eapol keylen key :: rest) p) 2 = (serialize (.eapol keylen key :: rest) p).length - 4 := by
  have hl := serialize_length (.eapol keylen key :: rest) p (by simp only [List.all_cons, Bool.and_eq_true]; exact ⟨rfl, hall⟩)
  have hin := serialize_length rest (some (.eapol keylen key)) hall
  rw [hl]
  simp only [size, headerSize, trailerSize] at hsz ⊢
  simp only [serialize, write, headerSize, trailerSize, hin, List.cons_append, List.nil_append, List.append_assoc, be16At_cons,
    be16At_w16']
  omega

example : be16At (serialize [.eapol 5 [1, 2, 3]] none) 2 = 47 := by decide

/-- **802.3 length**: the length field counts exactly the octets behind the 14-octet header (LLC, SNAP and what they carry). -/
theorem dot3_length_field (dst src : Bytes) (rest : List Layer) (p : Option Layer)
    (hwf : (Layer.dot3 dst src :: rest).all wf = true) (hsz : size (Layer.dot3 dst src :: rest) ≤ 65535 + 14) :
    be16At (serialize (.dot3 dst src :: rest) p) 12 = (serialize (.dot3 dst src :: rest) p).length - 14 := by
  have hl := serialize_length _ p hwf
  simp only [List.all_cons, Bool.and_eq_true] at hwf
  have hin := serialize_length rest (some (.dot3 dst src)) hwf.2
  have hw := hwf.1; simp only [wf, Bool.and_eq_true, beq_iff_eq] at hw
  rw [hl]
  simp only [size, headerSize, trailerSize] at hsz ⊢
  simp only [serialize, write, headerSize, trailerSize, hin]
  rw [show ∀ x : Bytes, dst ++ src ++ w16 (14 + size rest + 0 - 14) ++ x = (dst ++ src) ++ (w16 (14 + size rest + 0 - 14) ++ x) by
    intro x; simp only [List.append_assoc]]
  rw [be16At_at_len _ _ 12 (by simp [hw.1, hw.2]), be16At_w16']; omega

example : be16At (serialize [.dot3 [1,2,3,4,5,6] [7,8,9,10,11,12], .llc 0x42 0x42, .raw [1, 2]] none) 12 = 6 := by decide

end Tins.Props.C05

/-! ## Part 4 — the same statements over the wire models of C01–C04

  Parts 1–3 speak about C05's own serialization model (`Checksum/Serialize.lean`).  The theorems below state the same
  properties **directly about the code-shaped wire models** (`Wire/<Family>/`) that C01–C04 are proved over and that the
  correspondence ties to the C++ line by line — so all five wire properties speak about one model.  Proofs and helper
  lemmas: `TinsModel/Wire/Derived/*.lean` (`Bridge.lean` relates the checksum helpers of `Wire/Checksum.lean` to
  `Checksum/Model.lean`, so the RFC 1071 arithmetic of `Checksum/Lemmas.lean` is reused, not re-proved).

  * per layer, on the region `PDU::serialize` hands the writer, in the context (`Ctx`) it reads its parents / inner
    layers from: `wire_*_checksum_verifies*`, `wire_udp_zero`, `wire_*_no_parent`; length / offset fields `wire_ip4_tot_len`,
    `wire_ip4_ihl`, `wire_udp_length`, `wire_tcp_data_offset`, `wire_ip6_payload_length`, `wire_ip6_ext_len_octets`,
    `wire_icmp_rfc4884_length`, `wire_icmp6_rfc4884_length` (outside KF-C05-1 / KF-C05-2), `wire_pppoe_payload_length`,
    `wire_eth_min_60`, `wire_dot1q_pad_50`; next-protocol tags `wire_eth_tag`, `wire_dot1q_tag`, `wire_snap_tag`,
    `wire_sll_tag`, `wire_ip4_protocol`, `wire_ip6_next_header_chain` + `wire_ip6_last_next`, `wire_loopback_family`,
    `wire_mpls_marker`;
  * whole packets: `layer_in_packet` (the slice of `serializeObjs os` that belongs to layer `n` is what that layer's writer
    produced in the context `Wire.sems` gave it), hence `packet_ip4`, `packet_ip6`, `packet_ip_udp`, `packet_ip_tcp`,
    `packet_ip_icmp`, `packet_ip6_udp`, `packet_ip6_tcp`, `packet_ip6_icmp6`, `packet_eth`: the statements hold inside the
    final packet bytes of any stack satisfying the class invariants (`registryPreds`: every parsed packet without PPI/PKTAP,
    every API-built stack).  Non-vacuity on concrete packets: `Wire/Derived/Examples.lean`.
-/
namespace Tins.Props.C05

section WireUdp
open Tins Tins.Wire Tins.Wire.Transport Tins.Wire.Derived

/-- **UDP over IPv4, in situ** (RFC 768).  Directly inside an `IP` whose address getters print `s` / `d`, on the region
    `PDU::serialize` hands out (header + inner chain, at most 65535 bytes), `write_serialization` succeeds, keeps the
    payload, and the RFC 1071 sum over the RFC pseudo header (source, destination, zero, 17, UDP length) followed by the
    bytes it leaves in the region is 0xffff. -/
theorem wire_udp_checksum_verifies_ip4 (cx : Ctx) (u : Udp) (region s d : Bytes) (hp : ParentIp4 cx s d)
    (hs : s.length = 4) (hd : d.length = 4) (hreg : region.length = 8 + cx.innerSize) (h16 : region.length ≤ 65535) :
    ∃ out, u.write cx region = .ok out ∧ out.length = region.length ∧ out.drop 8 = region.drop 8 ∧
      Ck.Spec.verifies (Ck.Spec.pseudo4 s d 17 out.length ++ out) = true :=
  Tins.Wire.Derived.wire_udp_checksum_verifies_ip4 cx u region s d hp hs hd hreg h16

/-- **UDP over IPv6, in situ** (RFC 8200 §8.1: 32-bit upper-layer length, three zero bytes, next header 17). -/
theorem wire_udp_checksum_verifies_ip6 (cx : Ctx) (u : Udp) (region s d : Bytes) (hp : ParentIp6 cx s d)
    (hs : s.length = 16) (hd : d.length = 16) (hreg : region.length = 8 + cx.innerSize) (h16 : region.length ≤ 65535) :
    ∃ out, u.write cx region = .ok out ∧ out.length = region.length ∧ out.drop 8 = region.drop 8 ∧
      Ck.Spec.verifies (Ck.Spec.pseudo6 s d 17 out.length ++ out) = true :=
  Tins.Wire.Derived.wire_udp_checksum_verifies_ip6 cx u region s d hp hs hd hreg h16

/-- **UDP: a computed 0 is transmitted as 0xffff.**  Under an IP or IPv6 parent (addresses of any length the getters
    print) the two checksum bytes `write_serialization` leaves in the region are never both zero — "no checksum" in
    RFC 768 — whatever the datagram, whatever its length. -/
theorem wire_udp_zero (cx : Ctx) (u : Udp) (region s d : Bytes) (hp : ParentIp4 cx s d ∨ ParentIp6 cx s d)
    (hr : 8 ≤ region.length) (out : Bytes) (hw : u.write cx region = .ok out) :
    ¬ (out[6]? = some 0 ∧ out[7]? = some 0) :=
  Tins.Wire.Derived.wire_udp_zero cx u region s d hp hr out hw

/-- **without an IP / IPv6 parent no checksum is written**: the checksum bytes stay zero, the rest of the header is the
    same (`tins_cast<const IP*>(parent_pdu())` and `tins_cast<const IPv6*>` both fail) -/
theorem wire_udp_no_parent (cx : Ctx) (u : Udp) (region : Bytes) (hp : NoIpParent cx) (hr : 8 ≤ region.length) :
    u.write cx region = .ok (udpZeroed cx u region) ∧
      (udpZeroed cx u region)[6]? = some 0 ∧ (udpZeroed cx u region)[7]? = some 0 :=
  Tins.Wire.Derived.wire_udp_no_parent cx u region hp hr

/-- **UDP length field**: bytes 4..5 of what `write_serialization` leaves in its region are the big-endian length of the
    datagram (header + inner chain), in every context, whenever that fits 16 bits -/
theorem wire_udp_length (cx : Ctx) (u : Udp) (region : Bytes) (hreg : region.length = 8 + cx.innerSize)
    (h16 : region.length ≤ 65535) :
    ∃ out, u.write cx region = .ok out ∧ Cursor.beNat ((out.drop 4).take 2) = out.length :=
  Tins.Wire.Derived.wire_udp_length cx u region hreg h16

end WireUdp

section WireIp4
open Tins Tins.Wire Tins.Wire.Ip Tins.Wire.Derived

/-- **IPv4 header checksum, in situ** (RFC 791).  For every object satisfying the class invariant — any option list
    reachable by parsing or through the API — whose header fits the 4-bit length field, in every context and on every
    region of at least `header_size()` bytes, `write_serialization` succeeds, leaves the payload as it found it, and the
    RFC 1071 sum over the `header_size()` header bytes it wrote (fixed part, options, padding, checksum) is 0xffff. -/
theorem wire_ip4_header_checksum_verifies (cx : Ctx) (o : Ip4) (h : o.Inv) (hf : o.Fits) (region : Bytes)
    (hr : o.hdr ≤ region.length) :
    ∃ out, o.write cx region = .ok out ∧ out.length = region.length ∧ out.drop o.hdr = region.drop o.hdr ∧
      Ck.Spec.verifies (out.take o.hdr) = true :=
  Tins.Wire.Derived.wire_ip4_header_checksum_verifies cx o h hf region hr

/-- **IPv4 total length.**  On the region `PDU::serialize` hands out (header + inner chain), the 16-bit total-length
    field in the bytes `write_serialization` leaves there equals `header_size()` plus the size of everything inside the
    IP layer — the number of bytes from the first header byte to the end of the IP payload — whenever that fits the field. -/
theorem wire_ip4_tot_len (cx : Ctx) (o : Ip4) (h : o.Inv) (hf : o.Fits) (region : Bytes)
    (hreg : region.length = o.hdr + cx.innerSize) (h16 : o.hdr + cx.innerSize < 65536) :
    ∃ out, o.write cx region = .ok out ∧ out.length = region.length ∧
      Cursor.beNat ((out.drop 2).take 2) = o.hdr + cx.innerSize :=
  Tins.Wire.Derived.wire_ip4_tot_len cx o h hf region hreg h16

/-- **IPv4 header length.**  IHL (low nibble of byte 0) times 4 is `header_size()` = 20 + the options padded to a
    multiple of four bytes = the offset at which the payload starts (`out.drop o.hdr = region.drop o.hdr`), and the
    version nibble is kept. -/
theorem wire_ip4_ihl (cx : Ctx) (o : Ip4) (h : o.Inv) (hf : o.Fits) (region : Bytes) (hr : o.hdr ≤ region.length) :
    ∃ out, o.write cx region = .ok out ∧ byteAt out 0 % 16 * 4 = o.hdr ∧
      o.hdr = 20 + Ip4.padOptionsSize (Ip4.calcOptionsSize o.opts) ∧
      Ip4.padOptionsSize (Ip4.calcOptionsSize o.opts) % 4 = 0 ∧
      Ip4.calcOptionsSize o.opts ≤ Ip4.padOptionsSize (Ip4.calcOptionsSize o.opts) ∧
      Ip4.padOptionsSize (Ip4.calcOptionsSize o.opts) < Ip4.calcOptionsSize o.opts + 4 :=
  Tins.Wire.Derived.wire_ip4_ihl cx o h hf region hr

/-- **IPv4 protocol names the follower.**  The protocol octet (byte 9) in the bytes `write_serialization` leaves is
    `Ip4.protocolFor`: when the inner layer's class has a protocol number in libtins' table
    (`pdu_flag_to_ip_type`), that number — and the parser's dispatch table maps it back to a class
    (`derived_ip_tag_dispatches`); when it has none (e.g. RawPDU) the stored protocol is kept; 0 without inner layer. -/
theorem wire_ip4_protocol (cx : Ctx) (o : Ip4) (h : o.Inv) (hf : o.Fits) (region : Bytes) (hr : o.hdr ≤ region.length) :
    ∃ out, o.write cx region = .ok out ∧
      (∀ i, cx.inners.head? = some i → Tags.ipProtoOfPduType (Tags.pduTypeOf i.cls) ≠ 255 →
        byteAt out 9 = Tags.ipProtoOfPduType (Tags.pduTypeOf i.cls) ∧
        (Tags.classOfIpProto (byteAt out 9)).isSome = true) ∧
      (∀ i, cx.inners.head? = some i → Tags.ipProtoOfPduType (Tags.pduTypeOf i.cls) = 255 → byteAt out 9 = o.protocol) ∧
      (cx.inners.head? = none → byteAt out 9 = 0) :=
  Tins.Wire.Derived.wire_ip4_protocol cx o h hf region hr

end WireIp4

section WireTcp
open Tins Tins.Wire Tins.Wire.Transport Tins.Wire.Derived

/-- **TCP over IPv4, in situ** (RFC 793).  For every option list that fits the 40-byte option area (any kinds, any
    advertised lengths), directly inside an `IP` whose address getters print `s` / `d`, on the region `PDU::serialize`
    hands out (header + inner chain, at most 65535 bytes), `write_serialization` succeeds, keeps the payload, and the
    RFC 1071 sum over the RFC pseudo header (source, destination, zero, 6, TCP length) followed by the whole segment it
    leaves in the region — header, options, padding, payload — is 0xffff. -/
theorem wire_tcp_checksum_verifies_ip4 (cx : Ctx) (t : Tcp) (hs : Tcp.optsSum t.opts ≤ 40) (region s d : Bytes)
    (hp : ParentIp4 cx s d) (hs4 : s.length = 4) (hd4 : d.length = 4) (hreg : region.length = t.hdr + cx.innerSize)
    (h16 : region.length ≤ 65535) :
    ∃ out, t.write cx region = .ok out ∧ out.length = region.length ∧ out.drop t.hdr = region.drop t.hdr ∧
      Ck.Spec.verifies (Ck.Spec.pseudo4 s d 6 out.length ++ out) = true :=
  Tins.Wire.Derived.wire_tcp_checksum_verifies_ip4 cx t hs region s d hp hs4 hd4 hreg h16

/-- **TCP over IPv6, in situ** (RFC 8200 §8.1 pseudo header: 32-bit upper-layer length, three zero bytes, next header 6). -/
theorem wire_tcp_checksum_verifies_ip6 (cx : Ctx) (t : Tcp) (hs : Tcp.optsSum t.opts ≤ 40) (region s d : Bytes)
    (hp : ParentIp6 cx s d) (hs16 : s.length = 16) (hd16 : d.length = 16) (hreg : region.length = t.hdr + cx.innerSize)
    (h16 : region.length ≤ 65535) :
    ∃ out, t.write cx region = .ok out ∧ out.length = region.length ∧ out.drop t.hdr = region.drop t.hdr ∧
      Ck.Spec.verifies (Ck.Spec.pseudo6 s d 6 out.length ++ out) = true :=
  Tins.Wire.Derived.wire_tcp_checksum_verifies_ip6 cx t hs region s d hp hs16 hd16 hreg h16

/-- **without an IP / IPv6 parent no checksum is written**: the checksum bytes stay zero -/
theorem wire_tcp_no_parent (cx : Ctx) (t : Tcp) (hs : Tcp.optsSum t.opts ≤ 40) (region : Bytes) (hp : NoIpParent cx)
    (hr : t.hdr ≤ region.length) :
    t.write cx region = .ok (tcpZeroed t region) ∧
      (tcpZeroed t region)[16]? = some 0 ∧ (tcpZeroed t region)[17]? = some 0 :=
  Tins.Wire.Derived.wire_tcp_no_parent cx t hs region hp hr

/-- **TCP data offset.**  For every object satisfying the class invariant whose options fit the option area, in every
    context: the high nibble of byte 12 of what `write_serialization` leaves in its region, times 4, is `header_size()` =
    20 + the option bytes as `write_option` encodes them, rounded up to a multiple of 4 — the offset at which the payload
    starts (`out.drop t.hdr = region.drop t.hdr`). -/
theorem wire_tcp_data_offset (cx : Ctx) (t : Tcp) (hi : t.Inv) (hs : Tcp.optsSum t.opts ≤ 40) (region : Bytes)
    (hr : t.hdr ≤ region.length) :
    ∃ out, t.write cx region = .ok out ∧ Transport.byteAt out 12 / 16 * 4 = t.hdr ∧
      t.hdr = 20 + Tcp.padded (Tcp.optsSum t.opts) ∧ (Tcp.optsBytes t.opts).length = Tcp.optsSum t.opts ∧
      out.drop t.hdr = region.drop t.hdr :=
  Tins.Wire.Derived.wire_tcp_data_offset cx t hi hs region hr

end WireTcp

section WireIcmp
open Tins Tins.Wire Tins.Wire.Icmp Tins.Wire.Derived

/-- **ICMP checksum, in situ** (RFC 792).  For every object satisfying the class invariant — every type (timestamp and
    address-mask bodies included), with or without an RFC 4884 extension structure — on the region `PDU::serialize` hands
    out (header + quoted datagram + trailer, at most 65535 bytes), `write_serialization` succeeds, leaves the quoted
    datagram untouched, and the RFC 1071 sum over the whole message it leaves in the region is 0xffff. -/
theorem wire_icmp_checksum_verifies (cx : Ctx) (p : Icmp4) (hi : p.Inv) (hs : p.Ser) (region : Bytes)
    (hreg : region.length = p.hdr + cx.innerSize + p.trl cx.innerSize) (h16 : region.length ≤ 65535) :
    ∃ out, p.write cx region = .ok out ∧ out.length = region.length ∧
      window out p.hdr cx.innerSize = window region p.hdr cx.innerSize ∧ Ck.Spec.verifies out = true :=
  Tins.Wire.Derived.wire_icmp_checksum_verifies cx p hi hs region hreg h16

/-- **ICMP RFC 4884 length field.**  For the types RFC 4884 extends (3, 11, 12), when the length field is in use (the
    stored length is non-zero, or the quoted datagram rounded up to 32-bit words exceeds 128 octets), the length octet
    (offset 5) is the code's `covered / 4`; and outside known finding KF-C05-1 — i.e. with an extension structure, or
    with a quoted datagram that is a multiple of 4 octets — times 4 it is exactly the number of octets between the header
    and the extension structure (the end of the message when there is none), whenever that fits the 8-bit field. -/
theorem wire_icmp_rfc4884_length (cx : Ctx) (p : Icmp4) (hi : p.Inv) (hs : p.Ser) (region : Bytes)
    (hreg : region.length = p.hdr + cx.innerSize + p.trl cx.innerSize) (h16 : region.length ≤ 65535)
    (ht : Icmp4.extAllowed p.type = true)
    (huse : p.length ≠ 0 ∨ paddedInner (Icmp4.innerOf cx.innerSize) 4 > 128) :
    ∃ out, p.write cx region = .ok out ∧
      Icmp.byteAt out 5 = covered p.hasExt cx.innerSize 4 / 4 % 256 ∧
      ((p.hasExt = true ∨ cx.innerSize % 4 = 0) → covered p.hasExt cx.innerSize 4 ≤ 1020 →
        Icmp.byteAt out 5 * 4 = covered p.hasExt cx.innerSize 4 ∧
        p.hdr + covered p.hasExt cx.innerSize 4 + (if p.hasExt then p.ext.plainSize else 0) = region.length) :=
  Tins.Wire.Derived.wire_icmp_rfc4884_length cx p hi hs region hreg h16 ht huse

/-- **ICMP extension structure checksum** (RFC 4884 §7).  The bytes `ICMPExtensionsStructure::serialize` produces — version,
    checksum, objects — have RFC 1071 sum 0xffff, for every structure below 128 KiB (sums passing 0xffff included); they are
    the bytes that end up in the region (`exts_write_eq`), and libtins' own `validate_extensions` accepts them
    (`exts_validate_wireBytes`). -/
theorem wire_icmp_ext_checksum_verifies (s : ExtS) (hs : s.plainSize < 131072) :
    Ck.Spec.verifies s.wireBytes = true ∧ (∀ tail, ExtS.validate (s.wireBytes ++ tail) s.plainSize = .ok true) ∧
    (∀ (region : Bytes) (off bufSize : Nat), off + s.plainSize ≤ region.length → s.plainSize ≤ bufSize →
      s.write region off bufSize = .ok (region.take off ++ s.wireBytes ++ region.drop (off + s.plainSize))) :=
  Tins.Wire.Derived.wire_icmp_ext_checksum_verifies s hs

/-- **ICMPv6 checksum, in situ** (RFC 4443 §2.3).  For every object satisfying the class invariant (any options, multicast
    records, extension structure), directly inside an `IPv6` whose address getters print `s` / `d`, on the region
    `PDU::serialize` hands out (at most 65535 bytes), `write_serialization` succeeds, leaves the quoted datagram untouched,
    and the RFC 1071 sum over the RFC 8200 pseudo header (source, destination, 32-bit length, three zero bytes, next
    header 58) followed by the whole message it leaves in the region is 0xffff. -/
theorem wire_icmp6_checksum_verifies (cx : Ctx) (p : Icmp6) (hi : p.Inv) (hs : p.Ser) (region s d : Bytes)
    (hp : ParentIp6 cx s d) (hs16 : s.length = 16) (hd16 : d.length = 16)
    (hreg : region.length = p.hdr + cx.innerSize + p.trl cx.innerSize) (h16 : region.length ≤ 65535) :
    ∃ out, p.write cx region = .ok out ∧ out.length = region.length ∧
      window out p.hdr cx.innerSize = window region p.hdr cx.innerSize ∧
      Ck.Spec.verifies (Ck.Spec.pseudo6 s d 58 out.length ++ out) = true :=
  Tins.Wire.Derived.wire_icmp6_checksum_verifies cx p hi hs region s d hp hs16 hd16 hreg h16

/-- **without an IPv6 parent ICMPv6 writes no checksum**: the checksum bytes stay zero -/
theorem wire_icmp6_no_parent (cx : Ctx) (p : Icmp6) (hi : p.Inv) (hs : p.Ser) (region : Bytes) (hp : NoIp6Parent cx)
    (hreg : region.length = p.hdr + cx.innerSize + p.trl cx.innerSize) :
    ∃ out, p.write cx region = .ok out ∧ out[2]? = some 0 ∧ out[3]? = some 0 :=
  Tins.Wire.Derived.wire_icmp6_no_parent cx p hi hs region hp hreg

/-- **ICMPv6 RFC 4884 length field.**  For the types RFC 4884 extends (1, 3), when the length field is in use, the length
    octet (offset 4) is the code's `covered / 8`; and outside known finding KF-C05-2 — with an extension structure, or a
    quoted datagram that is a multiple of 8 octets — times 8 it is exactly the number of octets between the header and the
    extension structure (the end of the message when there is none), whenever that fits the 8-bit field.  Stated for a
    context without IPv6 parent or with one: the octet does not depend on the checksum. -/
theorem wire_icmp6_rfc4884_length (cx : Ctx) (p : Icmp6) (hi : p.Inv) (hs : p.Ser) (region : Bytes)
    (hreg : region.length = p.hdr + cx.innerSize + p.trl cx.innerSize) (h16 : region.length ≤ 65535)
    (ht : Icmp6.extAllowed p.type = true)
    (huse : p.length ≠ 0 ∨ paddedInner (Icmp4.innerOf cx.innerSize) 8 > 128) :
    ∃ out, p.write cx region = .ok out ∧
      Icmp.byteAt out 4 = covered p.hasExt cx.innerSize 8 / 8 % 256 ∧
      ((p.hasExt = true ∨ cx.innerSize % 8 = 0) → covered p.hasExt cx.innerSize 8 ≤ 2040 →
        Icmp.byteAt out 4 * 8 = covered p.hasExt cx.innerSize 8 ∧
        p.hdr + covered p.hasExt cx.innerSize 8 + (if p.hasExt then p.ext.plainSize else 0) = region.length) :=
  Tins.Wire.Derived.wire_icmp6_rfc4884_length cx p hi hs region hreg h16 ht huse

end WireIcmp

section WireIp6
open Tins Tins.Wire Tins.Wire.Ip6 Tins.Wire.Ip6.Ipv6 Tins.Wire.Derived

/-- **IPv6 payload length.**  On the region `PDU::serialize` hands out, the 16-bit payload-length field (bytes 4..5) in
    the bytes `write_serialization` leaves there equals the size of the extension headers plus everything inside the IPv6
    layer — the number of bytes behind the 40-byte fixed header — whenever that fits the field. -/
theorem wire_ip6_payload_length (cx : Ctx) (p : Ipv6) (h : p.Inv) (region : Bytes)
    (hreg : region.length = p.hdr + cx.innerSize) (h16 : headersSize p.headers + cx.innerSize < 65536) :
    ∃ out, p.write cx region = .ok out ∧ out.length = region.length ∧
      Cursor.beNat ((out.drop 4).take 2) = headersSize p.headers + cx.innerSize ∧ out.length = 40 + (headersSize p.headers + cx.innerSize) :=
  Tins.Wire.Derived.wire_ip6_payload_length cx p h region hreg h16

/-- **IPv6 extension headers: Hdr Ext Len.**  The bytes `write_serialization` leaves are the 40 fixed bytes, then one block
    per extension header, then the payload; the block of a header whose length field is not spoofed
    (`lenField = data.length`, what `add_header` and the parser produce) is `hdrSize` bytes long — next-header octet,
    length octet, data, zero padding to a multiple of 8 — and its length octet (offset 1) is that size in 8-octet units
    minus one (RFC 8200 §4), for every data size (including 7 modulo 8) up to the 2048 bytes the octet can express. -/
theorem wire_ip6_ext_len_octets (cx : Ctx) (p : Ipv6) (h : p.Inv) (region : Bytes) (hr : p.hdr ≤ region.length) :
    ∃ out fixed, p.write cx region = .ok out ∧ fixed.length = 40 ∧
      out = fixed ++ (Ipv6.wireHeaders cx p).flatMap (fun x => hdrBytes x.1 x.2) ++ region.drop p.hdr ∧
      (Ipv6.wireHeaders cx p).map (·.1) = p.headers ∧
      ∀ x ∈ Ipv6.wireHeaders cx p,
        (hdrBytes x.1 x.2).length = hdrSize x.1 ∧ hdrSize x.1 % 8 = 0 ∧
        (hdrBytes x.1 x.2)[1]? = some (UInt8.ofNat (lengthOctet x.1)) ∧
        (hdrBytes x.1 x.2).drop (2 + x.1.data.length) = List.replicate (paddingSize x.1) 0 ∧
        (x.1.lenField = x.1.data.length → hdrSize x.1 ≤ 2048 →
          lengthOctet x.1 < 256 ∧ (lengthOctet x.1 + 1) * 8 = hdrSize x.1) :=
  Tins.Wire.Derived.wire_ip6_ext_len_octets cx p h region hr

/-- **IPv6 next-header chain.**  In the bytes `write_serialization` leaves, the fixed header's next-header octet (byte 6)
    followed by the first octets of the extension-header blocks, in order, is exactly: the types of the extension headers
    in order, then `lastNext` — the fixed header names the first extension header, every extension header names the one
    behind it, and the last one (the fixed header when there is none) names what follows the IPv6 layer
    (`wire_ip6_last_next`). -/
theorem wire_ip6_next_header_chain (cx : Ctx) (p : Ipv6) (h : p.Inv) (region : Bytes) (hr : p.hdr ≤ region.length) :
    ∃ out fixed nh, p.write cx region = .ok out ∧ fixed.length = 40 ∧
      out = fixed ++ (Ipv6.wireHeaders cx p).flatMap (fun x => hdrBytes x.1 x.2) ++ region.drop p.hdr ∧
      out[6]? = some (UInt8.ofNat nh) ∧ nh < 256 ∧
      nh :: (Ipv6.wireHeaders cx p).map (·.2) = p.headers.map (·.option) ++ [lastNext cx p] ∧
      (Ipv6.wireHeaders cx p).map (·.1) = p.headers ∧
      ∀ x ∈ Ipv6.wireHeaders cx p, (hdrBytes x.1 x.2)[0]? = some (UInt8.ofNat x.2) :=
  Tins.Wire.Derived.wire_ip6_next_header_chain cx p h region hr

/-- what the last next-header octet names: the protocol number libtins assigns to the inner layer's class when it knows
    one — a number the IPv6 parser dispatches on and does not mistake for an extension header; the stored `next_header_`
    when the class has none (RawPDU); No Next Header (59) when nothing follows -/
theorem wire_ip6_last_next (cx : Ctx) (p : Ipv6) :
    (∀ cls, cx.innerCls = some cls → Tags.ipProtoOfPduType (Tags.pduTypeOf cls) ≠ 255 →
      lastNext cx p = Tags.ipProtoOfPduType (Tags.pduTypeOf cls) ∧
      (Tags.classOfIpProto (lastNext cx p)).isSome = true ∧
      (isExtensionHeader (lastNext cx p) && lastNext cx p != NO_NEXT_HEADER) = false) ∧
    (∀ cls, cx.innerCls = some cls → Tags.ipProtoOfPduType (Tags.pduTypeOf cls) = 255 → lastNext cx p = p.finalNext) ∧
    (cx.innerCls = none → lastNext cx p = 59) :=
  Tins.Wire.Derived.wire_ip6_last_next cx p

end WireIp6

section WireL2
open Tins Tins.Wire Tins.Wire.L2 Tins.Wire.Derived

/-- **Ethernet minimum frame.**  On the region `PDU::serialize` hands out, what `EthernetII::write_serialization` leaves
    is: the 14-byte header, the inner layers' bytes untouched, then `46 - inner size` **zero** bytes — so the frame has
    exactly `max 60 (14 + inner size)` bytes: padded to 60, never beyond. -/
theorem wire_eth_min_60 (cx : Ctx) (e : Eth) (h : e.WF) (region : Bytes)
    (hl : region.length = 14 + cx.innerSize + Eth.trl cx.innerSize) :
    ∃ out, e.write cx region = .ok out ∧ out.length = max 60 (14 + cx.innerSize) ∧
      (out.drop 14).take cx.innerSize = (region.drop 14).take cx.innerSize ∧
      out.drop (14 + cx.innerSize) = List.replicate (46 - cx.innerSize) 0 :=
  Tins.Wire.Derived.wire_eth_min_60 cx e h region hl

/-- **Ethernet type names the follower.**  Bytes 12..13 of what `write_serialization` leaves are `Eth.tagFor`: 0 without
    inner PDU; when libtins has an EtherType for the inner layer (`ethFlag`: the class's table entry; PPPoE by stage —
    0x8864 session / 0x8863 discovery; 0x88a8 for an 802.1Q directly followed by another 802.1Q) that EtherType — and it is
    one the parsers dispatch on; otherwise the stored `payload_type` is kept. -/
theorem wire_eth_tag (cx : Ctx) (e : Eth) (h : e.WF) (region : Bytes)
    (hl : region.length = 14 + cx.innerSize + Eth.trl cx.innerSize) :
    ∃ out, e.write cx region = .ok out ∧ Cursor.beNat ((out.drop 12).take 2) = Eth.tagFor cx e ∧
      (cx.inners = [] → Eth.tagFor cx e = 0) ∧
      (∀ i rest, cx.inners = i :: rest →
        (ethFlag i rest ≠ 0 → Eth.tagFor cx e = ethFlag i rest ∧ (Tags.classOfEther (Eth.tagFor cx e)).isSome = true) ∧
        (ethFlag i rest = 0 → Eth.tagFor cx e = e.ptype) ∧
        (Tags.pduTypeOf i.cls ≠ "PPPOE" → Tags.pduTypeOf i.cls ≠ "DOT1Q" →
          ethFlag i rest = Tags.etherOfPduType (Tags.pduTypeOf i.cls))) :=
  Tins.Wire.Derived.wire_eth_tag cx e h region hl

/-- **802.1Q padding.**  With `append_padding` set, `header + inner` is zero-padded to 50 bytes (so that the enclosing
    Ethernet frame reaches 64 with its 14-byte header); without it nothing is appended. -/
theorem wire_dot1q_pad_50 (cx : Ctx) (q : Dot1Q) (region : Bytes)
    (hl : region.length = 4 + cx.innerSize + q.trl cx.innerSize) :
    ∃ out, q.write cx region = .ok out ∧
      out.length = (if q.appendPadding then max 50 (4 + cx.innerSize) else 4 + cx.innerSize) ∧
      (out.drop 4).take cx.innerSize = (region.drop 4).take cx.innerSize ∧
      out.drop (4 + cx.innerSize) = List.replicate (if q.appendPadding then 50 - (4 + cx.innerSize) else 0) 0 :=
  Tins.Wire.Derived.wire_dot1q_pad_50 cx q region hl

/-- **802.1Q type names the follower.**  Bytes 2..3 are `Dot1Q.tagFor`: 0 without inner PDU; the EtherType libtins has
    for the inner layer (the class's table entry, PPPoE by stage) when it has one — a type the parsers dispatch on —,
    else the stored `payload_type`. -/
theorem wire_dot1q_tag (cx : Ctx) (q : Dot1Q) (h : q.WF) (region : Bytes)
    (hl : region.length = 4 + cx.innerSize + q.trl cx.innerSize) :
    ∃ out, q.write cx region = .ok out ∧ Cursor.beNat ((out.drop 2).take 2) = Dot1Q.tagFor cx q ∧
      (cx.inners.head? = none → Dot1Q.tagFor cx q = 0) ∧
      (∀ i, cx.inners.head? = some i →
        (etherTagOf i ≠ 0 → Dot1Q.tagFor cx q = etherTagOf i ∧ (Tags.classOfEther (Dot1Q.tagFor cx q)).isSome = true) ∧
        (etherTagOf i = 0 → Dot1Q.tagFor cx q = q.ptype) ∧
        (Tags.pduTypeOf i.cls ≠ "PPPOE" → etherTagOf i = Tags.etherOfPduType (Tags.pduTypeOf i.cls))) :=
  Tins.Wire.Derived.wire_dot1q_tag cx q h region hl

/-- **SNAP eth_type names the follower** (bytes 6..7): as for 802.1Q, except that without inner PDU the stored value stays. -/
theorem wire_snap_tag (cx : Ctx) (s : Snap) (h : s.WF) (region : Bytes) (hr : 8 ≤ region.length) :
    ∃ out, s.write cx region = .ok out ∧ Cursor.beNat ((out.drop 6).take 2) = Snap.tagFor cx s ∧
      out.drop 8 = region.drop 8 ∧
      (∀ i, cx.inners.head? = some i →
        (etherTagOf i ≠ 0 → Snap.tagFor cx s = etherTagOf i ∧ (Tags.classOfEther (Snap.tagFor cx s)).isSome = true) ∧
        (etherTagOf i = 0 → Snap.tagFor cx s = s.ethType) ∧
        (Tags.pduTypeOf i.cls ≠ "PPPOE" → etherTagOf i = Tags.etherOfPduType (Tags.pduTypeOf i.cls))) ∧
      (cx.inners.head? = none → Snap.tagFor cx s = s.ethType) :=
  Tins.Wire.Derived.wire_snap_tag cx s h region hr

/-- **SLL protocol names the follower** (bytes 14..15). -/
theorem wire_sll_tag (cx : Ctx) (s : Sll) (h : s.WF) (region : Bytes) (hr : 16 ≤ region.length) :
    ∃ out, s.write cx region = .ok out ∧ Cursor.beNat ((out.drop 14).take 2) = Sll.tagFor cx s ∧
      out.drop 16 = region.drop 16 ∧
      (∀ i, cx.inners.head? = some i →
        (etherTagOf i ≠ 0 → Sll.tagFor cx s = etherTagOf i ∧ (Tags.classOfEther (Sll.tagFor cx s)).isSome = true) ∧
        (etherTagOf i = 0 → Sll.tagFor cx s = s.protocol) ∧
        (Tags.pduTypeOf i.cls ≠ "PPPOE" → etherTagOf i = Tags.etherOfPduType (Tags.pduTypeOf i.cls))) ∧
      (cx.inners.head? = none → Sll.tagFor cx s = s.protocol) :=
  Tins.Wire.Derived.wire_sll_tag cx s h region hr

/-- **Loopback family names the follower.**  The 4-byte host-order family word is PF_INET (2) in front of IP, PF_INET6 (10)
    in front of IPv6, PF_LLC (26) in front of LLC — the values `Loopback`'s parser dispatches on to exactly these classes —
    and the stored family otherwise. -/
theorem wire_loopback_family (cx : Ctx) (l : Loopback) (h : l.WF) (region : Bytes) (hr : 4 ≤ region.length) :
    ∃ out, l.write cx region = .ok out ∧ Cursor.leNat (out.take 4) = Loopback.familyFor cx l ∧
      out.drop 4 = region.drop 4 ∧
      (cx.innerCls = some "IP" → Loopback.familyFor cx l = 2) ∧
      (cx.innerCls = some "IPv6" → Loopback.familyFor cx l = 10) ∧
      (cx.innerCls = some "LLC" → Loopback.familyFor cx l = 26) ∧
      (cx.innerCls ≠ some "IP" → cx.innerCls ≠ some "IPv6" → cx.innerCls ≠ some "LLC" →
        Loopback.familyFor cx l = l.family) ∧
      (∀ rest, Loopback.innerFor 2 rest = .cls "IP" rest false ∧ Loopback.innerFor 10 rest = .cls "IPv6" rest false ∧
        Loopback.innerFor 26 rest = .cls "LLC" rest false) :=
  Tins.Wire.Derived.wire_loopback_family cx l h region hr

/-- **MPLS bottom-of-stack marker.**  Inside a packet (there is a parent layer), the bottom-of-stack bit (bit 0 of
    byte 2) of what `write_serialization` leaves is 1 exactly on the last label of the stack — the one not followed by
    another MPLS —, label, traffic class and TTL being kept; a top-level MPLS keeps its stored bit. -/
theorem wire_mpls_marker (cx : Ctx) (m : Mpls) (h : m.WF) (region : Bytes) (hr : 4 ≤ region.length) :
    ∃ out, m.write cx region = .ok out ∧ out.drop 4 = region.drop 4 ∧
      out.take 4 = (Mpls.written cx m).headerBytes ∧
      (cx.parents ≠ [] → cx.innerCls ≠ some "MPLS" → (Mpls.written cx m).bottomOfStack = 1) ∧
      (cx.parents ≠ [] → cx.innerCls = some "MPLS" → (Mpls.written cx m).bottomOfStack = m.bottomOfStack) ∧
      (cx.parents = [] → Mpls.written cx m = m) ∧
      (Mpls.written cx m).view = m.view :=
  Tins.Wire.Derived.wire_mpls_marker cx m h region hr

/-- **PPPoE payload length.**  With tags or an inner PDU, bytes 4..5 of what `write_serialization` leaves count everything
    behind the 6-byte header of its region — tags and session payload (after fix KF-C05-4) —, when that fits 16 bits. -/
theorem wire_pppoe_payload_length (cx : Ctx) (p : PPPoE) (h : p.Inv) (region : Bytes)
    (hreg : region.length = p.hdr + cx.innerSize) (h16 : region.length - 6 < 65536)
    (hne : p.tagsSize > 0 ∨ cx.inners ≠ []) :
    ∃ out, p.write cx region = .ok out ∧ out.length = region.length ∧
      Cursor.beNat ((out.drop 4).take 2) = out.length - 6 :=
  Tins.Wire.Derived.wire_pppoe_payload_length cx p h region hreg h16 hne

end WireL2

section WireWifi
open Tins Tins.Wire Tins.Wire.Wifi Tins.Wire.Derived

/-- **`Utils::crc32` of the wire model is the IEEE 802.3 CRC-32** (through C05's `crc32_table_spec`). -/
theorem wire_crc32_ieee (bs : Bytes) : Wifi.crc32 bs = (Tins.Ck.Spec.crcBitwise bs).toNat :=
  Tins.Wire.Derived.wifi_crc32_ieee bs

/-- **RadioTap `it_len`** is `header_size()`, for every option payload the RadioTap parser accepts. -/
theorem wire_radiotap_it_len (cx : Ctx) (r : RadioTap) (hw : r.WF) (region : Bytes)
    (hr : region.length = r.hdrSize + cx.innerSize + r.trl) (h16 : r.hdrSize < 65536) :
    ∃ out, r.write cx region = .ok out ∧ out.length = region.length ∧ Dot11.leAt out 2 2 = r.hdrSize :=
  Tins.Wire.Derived.wire_radiotap_it_len cx r hw region hr h16

/-- **RadioTap FCS**: placed behind the inner region iff the FLAGS field has the FCS bit and there is an inner PDU, and then
    it is the IEEE CRC-32 of exactly the inner region, least significant octet first. -/
theorem wire_radiotap_fcs (cx : Ctx) (r : RadioTap) (hw : r.WF) (region : Bytes)
    (ht : r.trlOut = .ok 4) (hne : cx.inners ≠ []) (hr : region.length = r.hdrSize + cx.innerSize + 4) :
    ∃ out, r.write cx region = .ok out ∧
      (out.drop r.hdrSize).take cx.innerSize = (region.drop r.hdrSize).take cx.innerSize ∧
      out.drop (r.hdrSize + cx.innerSize)
        = OutCursor.leBytes 4 (Tins.Ck.Spec.crcBitwise ((region.drop r.hdrSize).take cx.innerSize)).toNat :=
  Tins.Wire.Derived.wire_radiotap_fcs cx r hw region ht hne hr

theorem wire_radiotap_no_fcs (cx : Ctx) (r : RadioTap) (hw : r.WF) (region : Bytes) (t : Nat)
    (ht : r.trlOut = .ok t) (hc : t = 0 ∨ cx.inners = []) (hr : r.hdrSize ≤ region.length) :
    ∃ out, r.write cx region = .ok out ∧ out.drop r.hdrSize = region.drop r.hdrSize :=
  Tins.Wire.Derived.wire_radiotap_no_fcs cx r hw region t ht hc hr

/-- **EAPOL packet body length** (RC4 and RSN key frames). -/
theorem wire_eapol_length (e : Eapol) (hw : e.WF) (region : Bytes) (hr : e.hdrSize ≤ region.length)
    (h16 : region.length - 4 < 65536) :
    ∃ out, e.write region = .ok out ∧ out.length = region.length ∧
      Cursor.beNat ((out.drop 2).take 2) = out.length - 4 :=
  Tins.Wire.Derived.wire_eapol_length e hw region hr h16

/-- **802.3 length.** -/
theorem wire_dot3_length (cx : Ctx) (d : L2.Dot3) (h : d.WF) (region : Bytes)
    (hreg : region.length = 14 + cx.innerSize) (h16 : cx.innerSize < 65536) :
    ∃ out, d.write cx region = .ok out ∧ out.length = region.length ∧
      Cursor.beNat ((out.drop 12).take 2) = out.length - 14 :=
  Tins.Wire.Derived.wire_dot3_length cx d h region hreg h16

/-- non-vacuity: the default RadioTap object with the FCS flag is well formed and its trailer is the FCS -/
example : (⟨[0, 0, 0, 0], Tins.Ck.Ser.radiotapPayload true⟩ : RadioTap).trl = 4 := by decide +kernel
example : (Eapol.mk false [1, 3, 0, 0, 1] (List.replicate 43 0) [1, 2, 3]).hdrSize = 51 := by decide

end WireWifi

section WirePacket
open Tins Tins.Wire Tins.Wire.Derived

/-- **The slice of the packet that belongs to layer `n` is what layer `n`'s writer produced.**  For every stack whose
    layers satisfy their class invariants and serializability predicates (every parsed packet without PPI/PKTAP:
    `parsed_layers_good`; every API-built stack: `<fam>_mk_inv` / `<fam>_apply_inv`), `serialize()` succeeds, and for every
    layer `o` at position `n` there is a region of exactly `header + inner chain + trailer` bytes — the one
    `PDU::serialize` handed it, the inner layers already written — such that `o`'s `write_serialization`, run in the context
    `ctxAt os n`, returned exactly the bytes found in the final packet at the layer's offset.  No layer above changes them. -/
theorem layer_in_packet (os : List AnyObj) (h : ∀ o ∈ os, registryPreds.Inv o ∧ registryPreds.Ser o)
    (n : Nat) (o : AnyObj) (hn : os[n]? = some o) :
    ∃ out region, serializeObjs os = .ok out ∧
      region.length = o.hdr + (ctxAt os n).innerSize + o.trl (ctxAt os n).innerSize ∧
      o.write (ctxAt os n) region =
        .ok ((out.drop (layerOffset os n)).take (o.hdr + (ctxAt os n).innerSize + o.trl (ctxAt os n).innerSize)) :=
  Tins.Wire.Derived.layer_in_packet os h n o hn

end WirePacket

section WireStacks
open Tins Tins.Wire Tins.Wire.Derived

/-- **IPv4 header inside a packet.**  For an `IP` at any position `n` of any stack satisfying the invariants, whose datagram
    (header + everything inside) fits the 16-bit total length: in the final packet bytes, the datagram `dg` at the IP
    layer's offset has its header checksum verifying, its total-length field equal to the number of bytes from the first
    header byte to the end of the IP payload, and IHL·4 equal to the offset at which the payload starts. -/
theorem packet_ip4 (os : List AnyObj) (h : ∀ o ∈ os, registryPreds.Inv o ∧ registryPreds.Ser o)
    (n : Nat) (ip : Ip.Ip4) (h1 : os[n]? = some (.ip (.ip ip))) (h16 : ip.hdr + (ctxAt os n).innerSize < 65536) :
    ∃ out, serializeObjs os = .ok out ∧
      (layerBytes os n (.ip (.ip ip)) out).length = ip.hdr + (ctxAt os n).innerSize ∧
      Ck.Spec.verifies ((layerBytes os n (.ip (.ip ip)) out).take ip.hdr) = true ∧
      Cursor.beNat (((layerBytes os n (.ip (.ip ip)) out).drop 2).take 2) = (layerBytes os n (.ip (.ip ip)) out).length ∧
      Ip.byteAt (layerBytes os n (.ip (.ip ip)) out) 0 % 16 * 4 = ip.hdr ∧
      Ip.byteAt (layerBytes os n (.ip (.ip ip)) out) 9 = Ip.Ip4.protocolFor (ctxAt os n) ip ∧
      ((layerBytes os n (.ip (.ip ip)) out).drop 12).take 8 = ip.src ++ ip.dst :=
  Tins.Wire.Derived.packet_ip4 os h n ip h1 h16

/-- **IPv6 fixed header inside a packet**: the payload-length field equals the number of bytes behind the 40-byte fixed
    header up to the end of the IPv6 payload. -/
theorem packet_ip6 (os : List AnyObj) (h : ∀ o ∈ os, registryPreds.Inv o ∧ registryPreds.Ser o)
    (n : Nat) (p : Ip6.Ipv6) (h1 : os[n]? = some (.ip6 (.ip6 p)))
    (h16 : Ip6.Ipv6.headersSize p.headers + (ctxAt os n).innerSize < 65536) :
    ∃ out, serializeObjs os = .ok out ∧
      (layerBytes os n (.ip6 (.ip6 p)) out).length = 40 + (Ip6.Ipv6.headersSize p.headers + (ctxAt os n).innerSize) ∧
      Cursor.beNat (((layerBytes os n (.ip6 (.ip6 p)) out).drop 4).take 2) + 40 = (layerBytes os n (.ip6 (.ip6 p)) out).length ∧
      ((layerBytes os n (.ip6 (.ip6 p)) out).drop 8).take 32 = p.src ++ p.dst :=
  Tins.Wire.Derived.packet_ip6 os h n p h1 h16

/-- **… / IP / UDP / … inside a packet.**  In the serialization of any stack satisfying the invariants in which an `IP`
    (any options) is directly followed by a `UDP` (anything above, any payload below), with the IP datagram within 65535
    bytes: in the final packet bytes, at the IP layer's offset, the IP header checksum verifies, the total length equals the
    number of bytes from the IP header to the end of the IP payload, the protocol octet is 17, and the UDP checksum
    verifies over the RFC 768 pseudo header — built from the very source and destination address bytes of that IP
    header — followed by the UDP datagram; the UDP length field is the datagram's length. -/
theorem packet_ip_udp (os : List AnyObj) (h : ∀ o ∈ os, registryPreds.Inv o ∧ registryPreds.Ser o)
    (n : Nat) (ip : Ip.Ip4) (u : Transport.Udp) (h1 : os[n]? = some (.ip (.ip ip))) (h2 : os[n + 1]? = some (.tr (.udp u)))
    (h16 : ip.hdr + (ctxAt os n).innerSize < 65536) :
    ∃ out dg seg, serializeObjs os = .ok out ∧
      dg = (out.drop (layerOffset os n)).take (ip.hdr + (ctxAt os n).innerSize) ∧ seg = dg.drop ip.hdr ∧
      dg.length = ip.hdr + (ctxAt os n).innerSize ∧
      Ck.Spec.verifies (dg.take ip.hdr) = true ∧
      Cursor.beNat ((dg.drop 2).take 2) = dg.length ∧
      Ip.byteAt dg 0 % 16 * 4 = ip.hdr ∧ Ip.byteAt dg 9 = 17 ∧
      (dg.drop 12).take 8 = ip.src ++ ip.dst ∧
      Ck.Spec.verifies (Ck.Spec.pseudo4 ip.src ip.dst 17 seg.length ++ seg) = true ∧
      Cursor.beNat ((seg.drop 4).take 2) = seg.length ∧
      ¬ (seg[6]? = some 0 ∧ seg[7]? = some 0) :=
  Tins.Wire.Derived.packet_ip_udp os h n ip u h1 h2 h16

/-- **… / IP / TCP / … inside a packet.**  As `packet_ip_udp`, for a `TCP` with any option list that fits the option area:
    IP header checksum, total length, IHL, protocol 6, and the TCP checksum over the RFC 793 pseudo header built from the
    address bytes of that IP header followed by the whole segment (header, options, padding, payload); data offset · 4 is
    the TCP header size. -/
theorem packet_ip_tcp (os : List AnyObj) (h : ∀ o ∈ os, registryPreds.Inv o ∧ registryPreds.Ser o)
    (n : Nat) (ip : Ip.Ip4) (t : Transport.Tcp) (h1 : os[n]? = some (.ip (.ip ip))) (h2 : os[n + 1]? = some (.tr (.tcp t)))
    (h16 : ip.hdr + (ctxAt os n).innerSize < 65536) :
    ∃ out dg seg, serializeObjs os = .ok out ∧
      dg = layerBytes os n (.ip (.ip ip)) out ∧ seg = dg.drop ip.hdr ∧
      dg.length = ip.hdr + (ctxAt os n).innerSize ∧
      Ck.Spec.verifies (dg.take ip.hdr) = true ∧
      Cursor.beNat ((dg.drop 2).take 2) = dg.length ∧
      Ip.byteAt dg 0 % 16 * 4 = ip.hdr ∧ Ip.byteAt dg 9 = 6 ∧
      (dg.drop 12).take 8 = ip.src ++ ip.dst ∧
      Ck.Spec.verifies (Ck.Spec.pseudo4 ip.src ip.dst 6 seg.length ++ seg) = true ∧
      Transport.byteAt seg 12 / 16 * 4 = t.hdr :=
  Tins.Wire.Derived.packet_ip_tcp os h n ip t h1 h2 h16

/-- **… / IP / ICMP / … inside a packet.**  IP header checksum, total length, protocol 1, and the ICMP checksum over the
    whole ICMP message (header, quoted datagram, RFC 4884 padding and extension structure). -/
theorem packet_ip_icmp (os : List AnyObj) (h : ∀ o ∈ os, registryPreds.Inv o ∧ registryPreds.Ser o)
    (n : Nat) (ip : Ip.Ip4) (p : Icmp.Icmp4) (h1 : os[n]? = some (.ip (.ip ip))) (h2 : os[n + 1]? = some (.icmp (.icmp p)))
    (h16 : ip.hdr + (ctxAt os n).innerSize < 65536) :
    ∃ out dg msg, serializeObjs os = .ok out ∧
      dg = layerBytes os n (.ip (.ip ip)) out ∧ msg = dg.drop ip.hdr ∧
      dg.length = ip.hdr + (ctxAt os n).innerSize ∧
      Ck.Spec.verifies (dg.take ip.hdr) = true ∧
      Cursor.beNat ((dg.drop 2).take 2) = dg.length ∧ Ip.byteAt dg 9 = 1 ∧
      Ck.Spec.verifies msg = true :=
  Tins.Wire.Derived.packet_ip_icmp os h n ip p h1 h2 h16

/-- **… / IPv6 / UDP / … inside a packet** (any extension headers inside the IPv6 layer): the payload length counts the
    bytes behind the 40-byte fixed header, and the UDP checksum verifies over the RFC 8200 pseudo header built from the
    address bytes of that IPv6 header, followed by the datagram; a computed 0 is sent as 0xffff. -/
theorem packet_ip6_udp (os : List AnyObj) (h : ∀ o ∈ os, registryPreds.Inv o ∧ registryPreds.Ser o)
    (n : Nat) (p : Ip6.Ipv6) (u : Transport.Udp) (h1 : os[n]? = some (.ip6 (.ip6 p))) (h2 : os[n + 1]? = some (.tr (.udp u)))
    (h16 : Ip6.Ipv6.headersSize p.headers + (ctxAt os n).innerSize < 65536) :
    ∃ out dg seg, serializeObjs os = .ok out ∧
      dg = layerBytes os n (.ip6 (.ip6 p)) out ∧ seg = dg.drop p.hdr ∧
      Cursor.beNat ((dg.drop 4).take 2) + 40 = dg.length ∧
      (dg.drop 8).take 32 = p.src ++ p.dst ∧
      Ck.Spec.verifies (Ck.Spec.pseudo6 p.src p.dst 17 seg.length ++ seg) = true ∧
      Cursor.beNat ((seg.drop 4).take 2) = seg.length ∧
      ¬ (seg[6]? = some 0 ∧ seg[7]? = some 0) :=
  Tins.Wire.Derived.packet_ip6_udp os h n p u h1 h2 h16

/-- **… / IPv6 / TCP / … inside a packet.** -/
theorem packet_ip6_tcp (os : List AnyObj) (h : ∀ o ∈ os, registryPreds.Inv o ∧ registryPreds.Ser o)
    (n : Nat) (p : Ip6.Ipv6) (t : Transport.Tcp) (h1 : os[n]? = some (.ip6 (.ip6 p))) (h2 : os[n + 1]? = some (.tr (.tcp t)))
    (h16 : Ip6.Ipv6.headersSize p.headers + (ctxAt os n).innerSize < 65536) :
    ∃ out dg seg, serializeObjs os = .ok out ∧
      dg = layerBytes os n (.ip6 (.ip6 p)) out ∧ seg = dg.drop p.hdr ∧
      Cursor.beNat ((dg.drop 4).take 2) + 40 = dg.length ∧
      (dg.drop 8).take 32 = p.src ++ p.dst ∧
      Ck.Spec.verifies (Ck.Spec.pseudo6 p.src p.dst 6 seg.length ++ seg) = true ∧
      Transport.byteAt seg 12 / 16 * 4 = t.hdr :=
  Tins.Wire.Derived.packet_ip6_tcp os h n p t h1 h2 h16

/-- **… / IPv6 (+ extension headers) / ICMPv6 / … inside a packet**: the ICMPv6 checksum verifies over the RFC 8200 pseudo
    header (next header 58 — the upper-layer protocol, not the first extension header) built from the address bytes of
    that IPv6 header, followed by the whole ICMPv6 message. -/
theorem packet_ip6_icmp6 (os : List AnyObj) (h : ∀ o ∈ os, registryPreds.Inv o ∧ registryPreds.Ser o)
    (n : Nat) (p : Ip6.Ipv6) (q : Icmp.Icmp6) (h1 : os[n]? = some (.ip6 (.ip6 p))) (h2 : os[n + 1]? = some (.icmp (.icmp6 q)))
    (h16 : Ip6.Ipv6.headersSize p.headers + (ctxAt os n).innerSize < 65536) :
    ∃ out dg msg, serializeObjs os = .ok out ∧
      dg = layerBytes os n (.ip6 (.ip6 p)) out ∧ msg = dg.drop p.hdr ∧
      Cursor.beNat ((dg.drop 4).take 2) + 40 = dg.length ∧
      (dg.drop 8).take 32 = p.src ++ p.dst ∧
      Ck.Spec.verifies (Ck.Spec.pseudo6 p.src p.dst 58 msg.length ++ msg) = true :=
  Tins.Wire.Derived.packet_ip6_icmp6 os h n p q h1 h2 h16

/-- **EthernetII at the bottom of the stack** (position 0): the serialized packet is at least 60 bytes — exactly
    `max 60 (14 + size of the inner chain)` — everything behind the inner chain is zero padding, and bytes 12..13 are the
    EtherType libtins assigns to the class of layer 1. -/
theorem packet_eth (os : List AnyObj) (h : ∀ o ∈ os, registryPreds.Inv o ∧ registryPreds.Ser o)
    (e : L2.Eth) (rest : List AnyObj) (hos : os = .l2 (.eth e) :: rest) :
    ∃ out, serializeObjs os = .ok out ∧ out.length = max 60 (14 + (ctxAt os 0).innerSize) ∧
      out.drop (14 + (ctxAt os 0).innerSize) = List.replicate (46 - (ctxAt os 0).innerSize) 0 ∧
      Cursor.beNat ((out.drop 12).take 2) = L2.Eth.tagFor (ctxAt os 0) e :=
  Tins.Wire.Derived.packet_eth os h e rest hos

end WireStacks

end Tins.Props.C05
