import TinsModel.Basic.CodecLemmas
import TinsModel.Wire.L2.Theorems
import TinsModel.Wire.Ip.Theorems
import TinsModel.Wire.Ip6.Theorems
import TinsModel.Wire.Icmp.Theorems
import TinsModel.Wire.Transport.Theorems
import TinsModel.Wire.App.Theorems
import TinsModel.Wire.Wifi.Theorems
import TinsModel.Wire.Chain.Examples
/-
  Property C04 — what is set through the API is what a parser of the wire bytes gets back.  Generic facts here;
  the per-class shadow-model and codec-inverse theorems live in TinsModel/Wire/<Family>/Theorems.lean.
-/
namespace Tins.Props.C04
open Tins

/-- a value that does not fit the field is truncated exactly as the C++ integer type truncates it -/
theorem be_field_truncates (n v : Nat) : Cursor.beNat (OutCursor.beBytes n v) = v % 256 ^ n := beNat_beBytes n v

example : Cursor.beNat (OutCursor.beBytes 1 300) = 44 := by decide

/-- **l2_built_packet_reparse** — the wire half of C04 for whole packets of the link-layer family: ANY stack of L2 layers
    (built through the API or parsed) that the protocols can express (`Stackable`: every layer satisfies its invariant and
    each layer's successor is a class its next-protocol tag can name, or a RawPDU under a tag libtins does not dispatch on),
    once serialized, is parsed back by libtins to the same classes in the same order with the same views and payload (at
    most `padOf` bytes of minimum-frame padding behind it).  The object half — getters reflect the accumulated edits,
    invariants preserved by every call — is `<fam>_mk_inv` / `<fam>_apply_inv` and the per-class last-write-map and codec
    theorems of every family (`Audit/Wire*.lean`). -/
theorem l2_built_packet_reparse (o : Wire.AnyObj) (os : List Wire.AnyObj) (hs : Wire.L2.Stackable (o :: os)) (out : Bytes)
    (hser : Wire.serializeObjs (o :: os) = .ok out) :
    ∃ os', Wire.parseChain (out.length + 2) o.info.1 out = .ok os' ∧
      Wire.L2.ViewEq (Wire.L2.padOf (o :: os)) (o :: os) os' :=
  Wire.L2.l2_chain_reparse o os hs out hser

/-- **built_packet_reparse** — the wire half of C04 for whole packets of ALL modelled families: ANY stack of layers (built
    through the API or parsed) of the link-layer family, IP, IPSecAH, IPSecESP, IPv6, UDP, TCP, ICMP, ICMPv6, the App family
    (ARP, STP, VXLAN, RTP, BootP, DHCP, DHCPv6) and the Wifi family (RadioTap, the Dot11 classes, RC4EAPOL, RSNEAPOL) over an
    optional RawPDU that the protocols can express (`StackableAll`: every layer satisfies its invariant and the side conditions
    of its wire format — wire-normal IP options, canonical TCP / DHCP / DHCPv6 / Dot11 tagged options (KF-WApp-6: a DHCP option
    of 256 bytes or more is not representable), aligned IPv6 extension headers, sizes that fit the 16-bit length fields, no
    ICMP extension structure, RTP's `Canon`, BootP's 64-byte vendor area, the RadioTap header / flags condition — and each
    layer's successor is a class its next-protocol tag names under the dispatch the parser uses, or a RawPDU under a tag
    libtins does not dispatch on: e.g. DHCP below UDP is NOT representable, libtins re-parses UDP's payload as RawPDU; a
    RadioTap without FCS and without a frame is not, the constructor rejects it), once serialized, is parsed back by libtins to
    the same classes in the same order with the same views and payload (at most `padAll` bytes of minimum-frame padding
    behind it; none through IP / IPv6 / EAPOL).  The object half is `<fam>_mk_inv` / `<fam>_apply_inv` and the per-class
    last-write-map and codec theorems of every family (`Audit/Wire*.lean`). -/
theorem built_packet_reparse (o : Wire.AnyObj) (os : List Wire.AnyObj) (hs : Wire.ChainAll.StackableAll (o :: os)) (out : Bytes)
    (hser : Wire.serializeObjs (o :: os) = .ok out) :
    ∃ os', Wire.parseChain (out.length + 2) o.info.1 out = .ok os' ∧
      Wire.ChainAll.ViewEqAll (Wire.ChainAll.padAll (o :: os)) (o :: os) os' :=
  Wire.ChainAll.chain_reparse_all o os hs out hser

/-- **built_packet_reparse_entry** — … and the same under every entry point that reaches the class of the outermost layer:
    its class name, `Dot11::from_bytes` (`Dot11*`) for a Dot11 object whose frame-control octet selects its class,
    `EAPOL::from_bytes` (`EAPOL`, `EAPOL*`) for a key frame whose descriptor type octet does (`EntryName`). -/
theorem built_packet_reparse_entry (n : String) (o : Wire.AnyObj) (os : List Wire.AnyObj) (hn : Wire.ChainAll.EntryName n o)
    (hs : Wire.ChainAll.StackableAll (o :: os)) (out : Bytes) (hser : Wire.serializeObjs (o :: os) = .ok out) :
    ∃ os', Wire.parseChain (out.length + 2) n out = .ok os' ∧
      Wire.ChainAll.ViewEqAll (Wire.ChainAll.padAll (o :: os)) (o :: os) os' :=
  Wire.ChainAll.chain_reparse_all_named n o os hn hs out hser

/-- **built_packet_reparse_net** — through IP / IPv6 the payload comes back byte for byte -/
theorem built_packet_reparse_net (o : Wire.AnyObj) (os : List Wire.AnyObj) (hs : Wire.ChainAll.StackableAll (o :: os))
    (hnet : ∃ x ∈ o :: os, Wire.ChainAll.isNet x = true) (out : Bytes) (hser : Wire.serializeObjs (o :: os) = .ok out) :
    ∃ os', Wire.parseChain (out.length + 2) o.info.1 out = .ok os' ∧ Wire.ChainAll.ViewEqAll 0 (o :: os) os' ∧
      (Wire.L2.splitRaw os').2 = (Wire.L2.splitRaw (o :: os)).2 :=
  Wire.ChainAll.chain_reparse_all_net o os hs hnet out hser

/-- every representable stack serializes: `serialize()` is total on it and returns exactly `size()` bytes -/
theorem built_packet_serializes_all (os : List Wire.AnyObj) (hs : Wire.ChainAll.StackableAll os) :
    ∃ out, Wire.serializeObjs os = .ok out ∧ out.length = Wire.sizeOf (Wire.sems os) :=
  Wire.ChainAll.stackableAll_serializes os hs

/-! ### codec half: every typed option encoder and its decoder are mutual inverses (family summaries; inventory of all typed
    codecs of libtins with theorem names: `tools/CODEC-INVENTORY.md`, regenerated by `tools/codec_inventory.py`) -/

/-- **icmp6_typed_codecs** — all 24 typed ICMPv6 option setters against their getters, for every representable argument
    (`Repr*` predicates of `Wire/Icmp/ThCodec6.lean`; lists of any length, any octets, any padding 0 … 7) -/
theorem icmp6_typed_codecs : type_of% @Wire.Icmp.icmp6_typed_codecs_inverse := Wire.Icmp.icmp6_typed_codecs_inverse

/-- the DNS search list codec (the codec of seeded/C04e) on its own -/
theorem icmp6_dns_search_list_codec (lt : Nat) (dss : List (List Bytes)) (h : Wire.Icmp.ReprDnsSearch lt dss) :
    Wire.Icmp.Icmp6.decDnsSearch (Wire.Icmp.Icmp6.encDnsSearch lt (dss.map Wire.Icmp.joinDots)) =
      .val s!"{lt}.{Wire.Icmp.Icmp6.joinWithSep "," ((dss.map Wire.Icmp.joinDots).map Wire.hexStr)}" :=
  Wire.Icmp.dns_search_list_codec_inverse lt dss h

end Tins.Props.C04
