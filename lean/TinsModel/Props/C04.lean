import TinsModel.Basic.CodecLemmas
import TinsModel.Wire.L2.Theorems
import TinsModel.Wire.Ip.Theorems
import TinsModel.Wire.Ip6.Theorems
import TinsModel.Wire.Icmp.Theorems
import TinsModel.Wire.Transport.Theorems
import TinsModel.Wire.App.Theorems
import TinsModel.Wire.Wifi.Theorems
/-
  Property C04 — what is set through the API is what a parser of the wire bytes gets back.  Generic facts here;
  the per-class shadow-model and codec-inverse theorems live in TinsModel/Wire/<Family>/Theorems.lean.
-/
namespace Tins.Props.C04
open Tins

/-- a value that does not fit the field is truncated exactly as the C++ integer type truncates it -/
theorem be_field_truncates (n v : Nat) : Cursor.beNat (OutCursor.beBytes n v) = v % 256 ^ n := beNat_beBytes n v

example : Cursor.beNat (OutCursor.beBytes 1 300) = 44 := by decide

/-- **l2_built_packet_reparse** — the wire half of C04 for whole packets of the link-layer family: ANY stack of L2 layers
    (built through the API or parsed) that the protocols can express (`Stackable`: every layer satisfies its invariant and
    each layer's successor is a class its next-protocol tag can name, or a RawPDU under a tag libtins does not dispatch on),
    once serialized, is parsed back by libtins to the same classes in the same order with the same views and payload (at
    most `padOf` bytes of minimum-frame padding behind it).  The object half — getters reflect the accumulated edits,
    invariants preserved by every call — is `<fam>_mk_inv` / `<fam>_apply_inv` and the per-class last-write-map and codec
    theorems of every family (`Audit/Wire*.lean`). -/
theorem l2_built_packet_reparse (o : Wire.AnyObj) (os : List Wire.AnyObj) (hs : Wire.L2.Stackable (o :: os)) (out : Bytes)
    (hser : Wire.serializeObjs (o :: os) = .ok out) :
    ∃ os', Wire.parseChain (out.length + 2) o.info.1 out = .ok os' ∧
      Wire.L2.ViewEq (Wire.L2.padOf (o :: os)) (o :: os) os' :=
  Wire.L2.l2_chain_reparse o os hs out hser

end Tins.Props.C04
