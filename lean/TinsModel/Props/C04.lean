import TinsModel.Basic.CodecLemmas
import TinsModel.Wire.L2.Theorems
import TinsModel.Wire.Ip.Theorems
import TinsModel.Wire.Ip6.Theorems
import TinsModel.Wire.Icmp.Theorems
import TinsModel.Wire.Transport.Theorems
import TinsModel.Wire.App.Theorems
import TinsModel.Wire.Wifi.Theorems
/-
  Property C04 — what is set through the API is what a parser of the wire bytes gets back.  Generic facts here;
  the per-class shadow-model and codec-inverse theorems live in TinsModel/Wire/<Family>/Theorems.lean.
-/
namespace Tins.Props.C04
open Tins

/-- a value that does not fit the field is truncated exactly as the C++ integer type truncates it -/
theorem be_field_truncates (n v : Nat) : Cursor.beNat (OutCursor.beBytes n v) = v % 256 ^ n := beNat_beBytes n v

example : Cursor.beNat (OutCursor.beBytes 1 300) = 44 := by decide

end Tins.Props.C04
