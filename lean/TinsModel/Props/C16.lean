import TinsModel.Address.LemmasMask
import TinsModel.Address.LemmasHwGrammar
import TinsModel.Address.LemmasV4Grammar
import TinsModel.Address.LemmasV6Grammar
import TinsModel.Address.LemmasV6Canon
import TinsModel.Address.LemmasV6Run
import TinsModel.Address.LemmasV6Roundtrip
/- Property C16 — theorems (statements only here; helper lemmas live in TinsModel/Address/Lemmas*.lean).

   Reading of the statements: an IPv4 address is the model's `ip_addr_` (a number `< 2^32`, `V4.wf`); an IPv6 /
   hardware address is its `n`-byte buffer (`WFB n`, n = 16 / 6 — the theorems hold for every `n`); `Spec.val` is the
   number the bytes denote, most significant first.  The range templates are instantiated with `v4Ops` / `bufOps`. -/
namespace Tins.Props.C16
open Tins.Addr

/-! ## the IPv4 API boundary -/

/-- `IPv4Address(uint32_t)` applied to the four address bytes as they lie in memory (little-endian load, as the
    harness and every libtins parser do) stores the number the dotted quad denotes … -/
theorem v4_of_bytes (b0 b1 b2 b3 : Nat) (h0 : b0 < 256) (h1 : b1 < 256) (h2 : b2 < 256) (h3 : b3 < 256) :
    V4.ofU32 (b3 * 16777216 + b2 * 65536 + b1 * 256 + b0) = Spec.val [b0, b1, b2, b3] ∧
    V4.wf (V4.ofU32 (b3 * 16777216 + b2 * 65536 + b1 * 256 + b0)) := by
  unfold V4.ofU32 V4.wf
  rw [bswap32_bytes b0 b1 b2 b3 h0 h1 h2 h3]
  refine ⟨?_, by omega⟩
  simp only [Spec.val, List.foldl_cons, List.foldl_nil]; omega

/-- … and `operator uint32_t` gives that same `uint32_t` back. -/
theorem v4_roundtrip_u32 (x : Nat) (h : x < 4294967296) : V4.toU32 (V4.ofU32 x) = x :=
  bswap32_bswap32 x h

/-! ## order, equality, hash -/

/-- IPv4: `operator<`, `operator>`, `operator==` are those of the number -/
theorem order_numeric_v4 (a b : Nat) :
    (V4.lt a b = true ↔ a < b) ∧ (V4.gt a b = true ↔ a > b) ∧ (V4.eq a b = true ↔ a = b) := by
  simp [V4.lt, V4.gt, V4.eq]

/-- IPv6 / HW: `std::lexicographical_compare` on the buffers is the order of the numbers they denote -/
theorem order_numeric (n : Nat) (a b : Buf) (ha : WFB n a) (hb : WFB n b) :
    (B.lt a b = true ↔ Spec.val a < Spec.val b) ∧ (B.gt a b = true ↔ Spec.val a > Spec.val b) :=
  ⟨lt_iff_val a b (by rw [ha.1, hb.1]) ha.2 hb.2, lt_iff_val b a (by rw [ha.1, hb.1]) hb.2 ha.2⟩

/-- IPv6 / HW: `std::equal` is equality of the bytes, which is equality of the numbers -/
theorem eq_iff_bytes (n : Nat) (a b : Buf) (ha : WFB n a) (hb : WFB n b) :
    (B.eq a b = true ↔ a = b) ∧ (a = b ↔ Spec.val a = Spec.val b) :=
  ⟨eq_iff_eq a b (by rw [ha.1, hb.1]),
   ⟨fun h => by rw [h], val_inj a b (by rw [ha.1, hb.1]) ha.2 hb.2⟩⟩

/-- equal addresses hash equally (the hash functions read nothing but the address bytes) -/
theorem hash_congr (n : Nat) (a b : Buf) (ha : WFB n a) (hb : WFB n b) (h : B.eq a b = true) :
    B.hash6 a = B.hash6 b ∧ B.fmtHw a = B.fmtHw b := by
  have := (eq_iff_eq a b (by rw [ha.1, hb.1])).mp h
  subst this; exact ⟨rfl, rfl⟩

theorem hash_congr_v4 (a b : Nat) (h : V4.eq a b = true) : V4.hash a = V4.hash b := by
  have : a = b := by simpa [V4.eq] using h
  rw [this]

/-! ## increment / decrement, bit operations -/

/-- `Internals::increment(IPv4Address&)`: next number modulo 2^32, and the returned flag says "wrapped around" -/
theorem increment_numeric_v4 (a : Nat) (ha : V4.wf a) :
    (V4.inc a).1 = (a + 1) % 4294967296 ∧ ((V4.inc a).2 = true ↔ a = 4294967295) ∧
    (V4.dec a).1 = (a + 4294967296 - 1) % 4294967296 := by
  refine ⟨V4.inc_val a ha, ?_, V4.dec_val a ha⟩
  rw [V4.inc_flag a ha]; omega

/-- `increment_buffer` / `decrement_buffer`: next / previous number modulo 256^n; the flag says "wrapped around" -/
theorem increment_numeric (n : Nat) (a : Buf) (ha : WFB n a) :
    WFB n (B.inc a).1 ∧ Spec.val (B.inc a).1 = (Spec.val a + 1) % 256 ^ n ∧
    ((B.inc a).2 = true ↔ Spec.val a + 1 = 256 ^ n) ∧
    WFB n (B.dec a).1 ∧ Spec.val (B.dec a).1 = (Spec.val a + 256 ^ n - 1) % 256 ^ n :=
  ⟨(inc_spec n a ha).1, (inc_spec n a ha).2.1, (inc_spec n a ha).2.2, (dec_spec n a ha).1, (dec_spec n a ha).2⟩

/-- `operator&`, `operator|`, `operator~` on buffers are the bitwise operations on the numbers -/
theorem bitops_numeric (n : Nat) (a m : Buf) (ha : WFB n a) (hm : WFB n m) :
    Spec.val (B.band a m) = Spec.val a &&& Spec.val m ∧ Spec.val (B.bor a m) = Spec.val a ||| Spec.val m ∧
    Spec.val (B.bnot a) = Spec.card n - 1 - Spec.val a ∧
    WFB n (B.band a m) ∧ WFB n (B.bor a m) ∧ WFB n (B.bnot a) := by
  have hl : a.length = m.length := by rw [ha.1, hm.1]
  obtain ⟨a1, a2, a3⟩ := band_val a m hl ha.2 hm.2
  obtain ⟨o1, o2, o3⟩ := bor_val a m hl ha.2 hm.2
  obtain ⟨n1, n2, n3⟩ := bnot_val a ha.2
  refine ⟨a1, o1, ?_, ⟨by rw [a2, ha.1], a3⟩, ⟨by rw [o2, ha.1], o3⟩, ⟨by rw [n2, ha.1], n3⟩⟩
  rw [n1, ha.1]; rfl

/-! ## masks and prefix lengths -/

/-- `from_prefix_length(p)` is the number with the top `p` bits set, for every legal `p` (IPv4) -/
theorem prefix_mask_bits_v4 (p : Nat) (hp : p ≤ 32) :
    V4.fromPrefixLength p = Spec.prefixMask 4 p ∧ V4.wf (V4.fromPrefixLength p) := by
  have h := v4_fromPrefixLength p (by omega)
  have hpos : 0 < 2 ^ (32 - p) := Nat.pow_pos (by omega)
  refine ⟨by rw [h]; rfl, ?_⟩
  unfold V4.wf; rw [h]; omega

/-- the mask loop of `IPv6Address::from_prefix_length` / `operator/(HWAddress)` (any buffer size `k`) -/
theorem prefix_mask_bits (k p : Nat) (hp : p ≤ 8 * k) :
    WFB k (B.prefixMask k p) ∧ Spec.val (B.prefixMask k p) = Spec.prefixMask k p :=
  prefixMask_spec k p hp

/-- the constructor accepts exactly the ordered pairs -/
theorem range_make_v4 (a b : Nat) (oh : Bool) :
    (Range.make v4Ops a b oh = none ↔ b < a) ∧ (¬ b < a → Range.make v4Ops a b oh = some ⟨a, b, oh⟩) := by
  unfold Range.make
  have : v4Ops.lt b a = decide (b < a) := rfl
  rw [this]
  by_cases h : b < a <;> simp [h]

theorem range_make (n : Nat) (a b : Buf) (oh : Bool) (ha : WFB n a) (hb : WFB n b) :
    (Range.make bufOps a b oh = none ↔ Spec.val b < Spec.val a) ∧
    (¬ Spec.val b < Spec.val a → Range.make bufOps a b oh = some ⟨a, b, oh⟩) := by
  have hiff := (bufLawful n).lt_iff b a hb ha
  unfold Range.make
  by_cases h : bufOps.lt b a = true
  · simp [h, hiff.mp h]
  · have : ¬ Spec.val b < Spec.val a := fun hh => h (hiff.mpr hh)
    simp [h, this]

/-- **mask_ends** (IPv4): `from_mask(a, m)` is the host-only range `[a AND m, a OR NOT m]` -/
theorem mask_ends_v4 (a m : Nat) (ha : V4.wf a) (hm : V4.wf m) :
    ∃ r, Range.fromMask v4Ops a m = some r ∧ r.Valid V4.wf (fun x => x) ∧ r.onlyHosts = true ∧
      r.first = Spec.maskFirst a m ∧ r.last = Spec.maskLast 4 a m := by
  have h32 : (4294967296 : Nat) = 2 ^ 32 := by decide
  have hf : V4.band a m = a &&& m := by
    unfold V4.band V4.ofU32
    exact bswap32_bswap32 _ (Nat.lt_of_le_of_lt Nat.and_le_left ha)
  have hnm : 4294967295 - m < 4294967296 := by omega
  have hl : V4.lastFromMask a m = a ||| (4294967295 - m) := by
    unfold V4.lastFromMask V4.ofU32 V4.toU32
    rw [bswap32_bswap32 a ha, bswap32_bswap32 m hm]
    refine bswap32_bswap32 _ ?_
    unfold V4.wf at ha; rw [h32] at ha hnm ⊢
    exact Nat.or_lt_two_pow ha hnm
  have hle1 : a &&& m ≤ a := Nat.and_le_left
  have hle2 : a ≤ a ||| (4294967295 - m) := Nat.left_le_or
  have hwl : V4.wf (a ||| (4294967295 - m)) := by
    unfold V4.wf at ha ⊢; rw [h32] at ha hnm ⊢; exact Nat.or_lt_two_pow ha hnm
  have hwf : V4.wf (a &&& m) := Nat.lt_of_le_of_lt hle1 ha
  refine ⟨⟨a &&& m, a ||| (4294967295 - m), true⟩, ?_, ⟨hwf, hwl, by simp only; omega⟩, rfl, rfl, rfl⟩
  unfold Range.fromMask
  have e1 : v4Ops.band a m = a &&& m := hf
  have e2 : v4Ops.lastFromMask a m = a ||| (4294967295 - m) := hl
  rw [e1, e2]
  exact (range_make_v4 _ _ true).2 (by omega)

/-- **mask_ends** (IPv6 / HW): `from_mask(a, m)` is the host-only range `[a AND m, a OR NOT m]` -/
theorem mask_ends (n : Nat) (a m : Buf) (ha : WFB n a) (hm : WFB n m) :
    ∃ r, Range.fromMask bufOps a m = some r ∧ r.Valid (WFB n) Spec.val ∧ r.onlyHosts = true ∧
      Spec.val r.first = Spec.maskFirst (Spec.val a) (Spec.val m) ∧
      Spec.val r.last = Spec.maskLast n (Spec.val a) (Spec.val m) := by
  obtain ⟨b1, b2, b3⟩ := band_val a m (by rw [ha.1, hm.1]) ha.2 hm.2
  obtain ⟨l1, l2⟩ := lastFromMask_val n a m ha hm
  have hwf : WFB n (B.band a m) := ⟨by rw [b2, ha.1], b3⟩
  have hle1 : Spec.val a &&& Spec.val m ≤ Spec.val a := Nat.and_le_left
  have hle2 : Spec.val a ≤ Spec.val a ||| (256 ^ n - 1 - Spec.val m) := Nat.left_le_or
  have hord : ¬ Spec.val (B.lastFromMask a m) < Spec.val (B.band a m) := by rw [b1, l1]; omega
  refine ⟨⟨B.band a m, B.lastFromMask a m, true⟩, ?_, ⟨hwf, l2, by simp only; omega⟩, rfl, b1, l1⟩
  exact (range_make n _ _ true hwf l2).2 hord

/-- **`a / p`** (IPv4) for every `p ≤ 32`: never throws, the mask is the `p`-bit prefix mask, and the range is the
    aligned block of `2^(32-p)` addresses that contains `a`, host-only -/
theorem slash_ends_v4 (a p : Nat) (ha : V4.wf a) (hp : p ≤ 32) :
    ∃ r, slash4 a p = .ok (Spec.prefixMask 4 p) r ∧ r.Valid V4.wf (fun x => x) ∧ r.onlyHosts = true ∧
      r.first = Spec.prefixFirst 4 a p ∧ r.last = Spec.prefixLast 4 a p := by
  obtain ⟨hm, hmw⟩ := prefix_mask_bits_v4 p hp
  obtain ⟨r, h1, h2, h3, h4, h5⟩ := mask_ends_v4 a (V4.fromPrefixLength p) ha hmw
  have h32 : (4294967296 : Nat) = 2 ^ 32 := by decide
  have hc : Spec.card 4 = 2 ^ 32 := by decide
  refine ⟨r, ?_, h2, h3, ?_, ?_⟩
  · unfold slash4
    rw [if_neg (by omega)]
    simp only [h1]
    rw [hm]
  · rw [h4, hm]; unfold Spec.maskFirst Spec.prefixMask Spec.prefixFirst
    unfold V4.wf at ha; rw [h32] at ha
    rw [hc]; exact land_prefix 32 (32 - p) a (by omega) ha
  · rw [h5, hm]; unfold Spec.maskLast Spec.prefixMask Spec.prefixLast Spec.prefixFirst
    rw [hc]; exact lor_prefix 32 (32 - p) a (by omega)

/-- **`a / p`** (IPv6: k = 16, HW: k = 6) for every `p ≤ 8k` -/
theorem slash_ends (k : Nat) (a : Buf) (p : Nat) (ha : WFB k a) (hp : p ≤ 8 * k) :
    ∃ m r, slashBuf k a p = .ok m r ∧ Spec.val m = Spec.prefixMask k p ∧ r.Valid (WFB k) Spec.val ∧
      r.onlyHosts = true ∧
      Spec.val r.first = Spec.prefixFirst k (Spec.val a) p ∧ Spec.val r.last = Spec.prefixLast k (Spec.val a) p := by
  obtain ⟨hmw, hm⟩ := prefix_mask_bits k p hp
  obtain ⟨r, h1, h2, h3, h4, h5⟩ := mask_ends k a (B.prefixMask k p) ha hmw
  have hc : Spec.card k = 2 ^ (8 * k) := pow256 k
  have hav : Spec.val a < 2 ^ (8 * k) := by
    have := val_lt a ha.2; rw [ha.1, pow256] at this; exact this
  refine ⟨B.prefixMask k p, r, ?_, hm, h2, h3, ?_, ?_⟩
  · unfold slashBuf
    rw [if_neg (by omega)]
    simp only [h1]
  · rw [h4, hm]; unfold Spec.maskFirst Spec.prefixMask Spec.prefixFirst
    rw [hc]; exact land_prefix (8 * k) (8 * k - p) _ (by omega) hav
  · rw [h5, hm]; unfold Spec.maskLast Spec.prefixMask Spec.prefixLast Spec.prefixFirst
    rw [hc]; exact lor_prefix (8 * k) (8 * k - p) _ (by omega)

/-- prefix lengths beyond the address width are rejected with `std::logic_error` -/
theorem slash_too_long (k : Nat) (a : Buf) (b p : Nat) :
    (p > 32 → slash4 b p = .logicError) ∧ (p > 8 * k → slashBuf k a p = .logicError) := by
  constructor <;> intro h
  · unfold slash4; rw [if_pos h]
  · unfold slashBuf; rw [if_pos h]

/-- `operator/` on the `int` it is given: exactly the prefix lengths `0 … W` produce a range, every other value
    (negative ones included) is rejected with `std::logic_error` before any mask is computed -/
theorem slash_domain (k : Nat) (a : Buf) (b : Nat) (p : Int) :
    (slash4I b p = .logicError ↔ (p < 0 ∨ p > 32)) ∧ (slashBufI k a p = .logicError ↔ (p < 0 ∨ p > 8 * k)) := by
  unfold slash4I slashBufI slash4 slashBuf
  constructor
  · by_cases hneg : p < 0
    · simp [hneg]
    · by_cases hbig : p.toNat > 32
      · simp only [hneg, if_false, hbig, if_true, true_iff]; omega
      · simp only [hneg, if_false, hbig, false_or]
        constructor
        · intro h; split at h <;> cases h
        · intro h; omega
  · by_cases hneg : p < 0
    · simp [hneg]
    · by_cases hbig : p.toNat > 8 * k
      · simp only [hneg, if_false, hbig, if_true, true_iff]; omega
      · simp only [hneg, if_false, hbig, false_or]
        constructor
        · intro h; split at h <;> cases h
        · intro h; omega

/-! ## contains -/

/-- **contains_iff** (IPv4) -/
theorem contains_iff_v4 (r : Range Nat) (hr : r.Valid V4.wf (fun x => x)) (x : Nat) (hx : V4.wf x) :
    r.contains v4Ops x = Spec.contains r.first r.last x := by
  have := contains_iff V4.lawful r hr x hx
  unfold Spec.contains
  cases h : r.contains v4Ops x <;> simp_all

/-- **contains_iff** (IPv6 / HW) -/
theorem contains_iff_buf (n : Nat) (r : Range Buf) (hr : r.Valid (WFB n) Spec.val) (x : Buf) (hx : WFB n x) :
    r.contains bufOps x = Spec.contains (Spec.val r.first) (Spec.val r.last) (Spec.val x) := by
  have := contains_iff (bufLawful n) r hr x hx
  unfold Spec.contains
  cases h : r.contains bufOps x <;> simp_all

/-! ## is_iterable -/

/-- `is_iterable()` (IPv4): always for plain ranges, and for host-only ranges iff they hold at least four addresses;
    this agrees with the specification wherever the specification says anything -/
theorem isIterable_iff_v4 (r : Range Nat) (hr : r.Valid V4.wf (fun x => x)) :
    (r.isIterable v4Ops = true ↔ (r.onlyHosts = false ∨ r.first + 3 ≤ r.last)) ∧
    (∀ b, Spec.iterableSpec r.first r.last r.onlyHosts = some b → r.isIterable v4Ops = b) := by
  have h := isIterable_iff V4.lawful r hr
  have hord : r.first ≤ r.last := hr.ordered
  refine ⟨h, ?_⟩
  intro b hb
  unfold Spec.iterableSpec at hb
  cases hoh : r.onlyHosts <;> rw [hoh] at hb h <;> simp at hb h
  · rw [hb]; exact h
  · split at hb
    · cases hb; cases hi : r.isIterable v4Ops
      · rfl
      · have := h.mp hi; omega
    · split at hb
      · cases hb; exact h.mpr (by omega)
      · cases hb

theorem isIterable_iff_buf (n : Nat) (r : Range Buf) (hr : r.Valid (WFB n) Spec.val) :
    (r.isIterable bufOps = true ↔ (r.onlyHosts = false ∨ Spec.val r.first + 3 ≤ Spec.val r.last)) ∧
    (∀ b, Spec.iterableSpec (Spec.val r.first) (Spec.val r.last) r.onlyHosts = some b → r.isIterable bufOps = b) := by
  have h := isIterable_iff (bufLawful n) r hr
  have hord : Spec.val r.first ≤ Spec.val r.last := hr.ordered
  refine ⟨h, ?_⟩
  intro b hb
  unfold Spec.iterableSpec at hb
  cases hoh : r.onlyHosts <;> rw [hoh] at hb h <;> simp at hb h
  · rw [hb]; exact h
  · split at hb
    · cases hb; cases hi : r.isIterable bufOps
      · rfl
      · have := h.mp hi; omega
    · split at hb
      · cases hb; exact h.mpr (by omega)
      · cases hb

/-- a prefix range `a / p` is iterable exactly when it has a host address: `p ≤ W - 2` -/
theorem prefix_iterable_iff (W p first last : Nat) (hp : p ≤ W)
    (hl : last = first + 2 ^ (W - p) - 1) : first + 3 ≤ last ↔ p + 2 ≤ W := by
  have hpos : 0 < 2 ^ (W - p) := Nat.pow_pos (by omega)
  constructor
  · intro h
    have h4 : 4 ≤ 2 ^ (W - p) := by omega
    by_cases h2 : p + 2 ≤ W
    · exact h2
    · have : W - p = 0 ∨ W - p = 1 := by omega
      rcases this with e | e <;> rw [e] at h4 <;> omega
  · intro h
    have : 2 ^ 2 ≤ 2 ^ (W - p) := Nat.pow_le_pow_right (by omega) (by omega)
    omega

/-! ## iteration -/

/-- **iterate_exact** (IPv4): for *every* iterable range — including `[0.0.0.0, 255.255.255.255]` and every range
    ending at 255.255.255.255 — and every step budget, the loop `for (it = begin(); it != end(); ++it)` visits exactly
    the addresses of the specification (all of `[first, last]`, or the hosts `first+1 … last-1`), in increasing order,
    each once, and reaches `end()` after exactly that many steps (second component: it has terminated iff the budget
    covers the range). -/
theorem iterate_exact_v4 (r : Range Nat) (hr : r.Valid V4.wf (fun x => x)) (hit : r.isIterable v4Ops = true)
    (fuel : Nat) :
    (r.iterate v4Ops fuel).1 = (Spec.expected r.first r.last r.onlyHosts).take fuel ∧
    (r.iterate v4Ops fuel).2 = decide (Spec.iterCount r.first r.last r.onlyHosts ≤ fuel) := by
  have := iterate_exact V4.lawful r hr hit fuel
  simpa using this

/-- **iterate_exact** (IPv6, HW — any buffer size `n`), unbounded, including ranges ending at the all-ones address -/
theorem iterate_exact_buf (n : Nat) (r : Range Buf) (hr : r.Valid (WFB n) Spec.val)
    (hit : r.isIterable bufOps = true) (fuel : Nat) :
    (r.iterate bufOps fuel).1.map Spec.val =
      (Spec.expected (Spec.val r.first) (Spec.val r.last) r.onlyHosts).take fuel ∧
    (r.iterate bufOps fuel).2 = decide (Spec.iterCount (Spec.val r.first) (Spec.val r.last) r.onlyHosts ≤ fuel) :=
  iterate_exact (bufLawful n) r hr hit fuel

/-- termination, stated on its own: with a budget of `iterCount` steps the loop has reached `end()`, and with any
    smaller budget it has not (so it runs for exactly `iterCount` steps — never early, never forever). -/
theorem iterate_terminates_buf (n : Nat) (r : Range Buf) (hr : r.Valid (WFB n) Spec.val)
    (hit : r.isIterable bufOps = true) (fuel : Nat) :
    (r.iterate bufOps fuel).2 = true ↔ Spec.iterCount (Spec.val r.first) (Spec.val r.last) r.onlyHosts ≤ fuel := by
  rw [(iterate_exact_buf n r hr hit fuel).2]; simp

/-! ## text forms -/

/-- **hw_text_roundtrip**: parsing `to_string()` of a hardware address gives the address back (any size `n`) -/
theorem hw_text_roundtrip (n : Nat) (a : Buf) (h : WFB n a) : B.parseHw n (B.fmtHw a) = some a :=
  parseHw_fmtHw n a h

/-- the text `to_string()` produces is the canonical one: lower-case hex pairs joined by ':' -/
theorem hw_text_form (a : Buf) (h : ∀ b ∈ a, b < 256) : B.fmtHw a = Spec.fmtHw a := by
  have hd : ∀ v, B.hexDigitChar v = Spec.lowerHex v := by
    intro v; unfold B.hexDigitChar Spec.lowerHex
    by_cases h9 : v > 9
    · rw [if_pos h9, if_neg (by omega)]; omega
    · rw [if_neg h9, if_pos (by omega)]; omega
  unfold Spec.fmtHw
  induction a with
  | nil => rfl
  | cons b r ih =>
    have hb : b < 256 := h b List.mem_cons_self
    have hr : ∀ x ∈ r, x < 256 := fun x hx => h x (List.mem_cons_of_mem _ hx)
    have e : b / 16 % 16 = b / 16 := Nat.mod_eq_of_lt (by omega)
    cases r with
    | nil => simp [B.fmtHw, Spec.intercalate, hd, e]
    | cons b' r' =>
      have := ih hr
      simp only [B.fmtHw, List.map_cons, Spec.intercalate, hd, e] at this ⊢
      rw [this]; simp

/-- **hw_accept_iff**: `string_to_hw_address` *is* the reference parser — same accept set, same bytes, for every
    text (any byte values) and every address size -/
theorem hw_accept_iff (n : Nat) (s : List Nat) : B.parseHw n s = Spec.parseHw n s :=
  parseHw_eq_spec n s

/-- **hw_reject**: a text outside the reference grammar is rejected (`invalid_address`) -/
theorem hw_reject (n : Nat) (s : List Nat) (h : Spec.parseHw n s = none) : B.parseHw n s = none := by
  rw [parseHw_eq_spec]; exact h

/-- **ipv4_text_roundtrip** (under the `inet_pton` reference model): parsing the output of `operator<<` gives the
    address back, for every address -/
theorem ipv4_text_roundtrip (a : Nat) (ha : V4.wf a) : V4.parse (V4.fmt a) = some a :=
  v4_parse_fmt a ha

/-- **ipv4_accept_iff** (under the `inet_pton` reference model, which the correspondence compares with libc on every
    run): `IPv4Address(text)` accepts exactly the strict dotted quads of the specification — four decimal octets
    0..255 without leading zeros, single dots, nothing else — and stores the number they denote; every other text
    is rejected (`invalid_address`) -/
theorem ipv4_accept_iff (s : List Nat) : V4.parse s = (Spec.parse4 s).map Spec.val :=
  v4_parse_eq_spec s


/-! ## IPv6 text: `IPv6Address(text)` = `inet_pton(AF_INET6)`, `to_string()` / `operator<<` = `inet_ntop(AF_INET6)`

  libtins has no code of its own here (src/ipv6_address.cpp: `init`, `to_string`), so the statements are about the Lean
  reference model of the two glibc routines (`V6.pton6`, `V6.ntop6`, statement for statement after resolv/inet_pton.c and
  resolv/inet_ntop.c) — compared with the libc the harness is linked against on every run — and about the RFC-level
  specification `Spec.parse6` (RFC 4291 §2.2) / `Spec.fmt6` (RFC 5952 §4, §5), which is what the run-time oracle evaluates. -/

/-- **pton6_is_spec**: the `inet_pton6` state machine accepts exactly the RFC 4291 §2.2 text forms and yields the bytes
    they denote — for every byte string (hex groups of 1–4 digits, one "::", dotted-quad tail; single leading/trailing
    colon, 9 groups, "::" with nothing to stand for, 5 digits, empty groups, foreign characters and zone ids rejected). -/
theorem pton6_is_spec (s : List Nat) : V6.pton6 s = Spec.parse6 s := pton6_eq_spec s

/-- `IPv6Address(const std::string&)` / `IPv6Address(const char*)` under the reference model -/
theorem ipv6_accept_iff (s : List Nat) : V6.parse s = Spec.parse6 s := pton6_eq_spec s

/-- **ntop6_canonical**: for every address, the `inet_ntop6` text is the RFC 5952 canonical text `Spec.fmt6`
    (lower case, no leading zeros, the longest run of at least two zero groups compressed, the first one on ties; the
    two embedded-IPv4 forms as `Spec.mixedPrefix` states them), it is at most 39 characters long, hence the size check
    against `INET6_ADDRSTRLEN` = 46 never fires and `to_string()` never throws. -/
theorem ntop6_canonical (a : Buf) (h : WFB 16 a) :
    V6.ntop6 a = Spec.fmt6 a ∧ (V6.ntop6 a).length ≤ 39 ∧ V6.toString a = some (V6.ntop6 a) :=
  ⟨ntop6_eq_spec a h, ntop6_length_le a h, toString_some a h⟩

/-- what "canonical" says about the compressed run (RFC 5952 §4.2.2, §4.2.3), read off the specification: the run
    replaced by "::" has at least two groups, all of them zero; no run of zero groups is longer; none of the same length
    starts earlier; and when nothing is compressed no two adjacent groups are zero. -/
theorem compressed_run_rfc5952 (a : Buf) (h : WFB 16 a) :
    match Spec.bestRun (Spec.groups6 a) with
    | none => ∀ i, Spec.zeroRun (Spec.groups6 a) i 2 = false
    | some (i, l) =>
      2 ≤ l ∧ Spec.zeroRun (Spec.groups6 a) i l = true ∧
      ∀ i' l', Spec.zeroRun (Spec.groups6 a) i' l' = true → l' ≤ l ∧ (l' = l → i ≤ i') := by
  obtain ⟨b0, b1, b2, b3, b4, b5, b6, b7, b8, b9, b10, b11, b12, b13, b14, b15, rfl⟩ := list16 a h.1
  exact bestRun_rfc5952 _ rfl

/-- what "canonical" says about one group (RFC 5952 §4.1 no leading zeros, §4.3 lower case), read off the
    specification: one to four characters from `0-9a-f`, a leading '0' only in the text "0", and the text denotes the
    group's value -/
theorem group_text_rfc5952 (v : Nat) (h : v < 65536) :
    1 ≤ (Spec.hexNumeral v).length ∧ (Spec.hexNumeral v).length ≤ 4 ∧
    (∀ c ∈ Spec.hexNumeral v, (48 ≤ c ∧ c ≤ 57) ∨ (97 ≤ c ∧ c ≤ 102)) ∧
    ((Spec.hexNumeral v).head? = some 48 → Spec.hexNumeral v = [48]) ∧ Spec.groupVal (Spec.hexNumeral v) = v :=
  hexNumeral_form v h

example : Spec.hexNumeral 0x0a0 = [97, 48] ∧ Spec.hexNumeral 0 = [48] := by decide

/-- a buffer that is exactly as long as the longest text (39) is one byte short: the terminating NUL is counted -/
example : V6.toStringSized 39 (List.replicate 16 255) = none ∧
    (V6.toStringSized 40 (List.replicate 16 255)).isSome = true := by decide

/-- **ntop6_roundtrip**: parsing the printed text gives the address back — all 2^128 addresses (structural proof over
    the eight groups and the position / length of the compressed run) -/
theorem ntop6_roundtrip (a : Buf) (h : WFB 16 a) : V6.pton6 (V6.ntop6 a) = some a := V6RT.pton6_ntop6 a h

/-- the same at the level of the specification: the RFC 5952 text of an address denotes that address under RFC 4291 -/
theorem spec6_roundtrip (a : Buf) (h : WFB 16 a) : Spec.parse6 (Spec.fmt6 a) = some a := by
  rw [← ntop6_eq_spec a h, ← pton6_eq_spec]; exact V6RT.pton6_ntop6 a h

/-- different addresses print differently -/
theorem ntop6_injective (a b : Buf) (ha : WFB 16 a) (hb : WFB 16 b) (h : V6.ntop6 a = V6.ntop6 b) : a = b := by
  have h1 := V6RT.pton6_ntop6 a ha
  rw [h, V6RT.pton6_ntop6 b hb] at h1
  exact (Option.some.inj h1).symm

/-- **pton6_injective_on_canonical**: two canonical texts that denote the same address are the same text -/
theorem pton6_injective_on_canonical (a b : Buf) (ha : WFB 16 a) (hb : WFB 16 b)
    (h : V6.pton6 (V6.ntop6 a) = V6.pton6 (V6.ntop6 b)) : V6.ntop6 a = V6.ntop6 b := by
  rw [V6RT.pton6_ntop6 a ha, V6RT.pton6_ntop6 b hb] at h
  rw [Option.some.inj h]

/-- **ipv6_text_roundtrip**: `IPv6Address(a.to_string()) == a` for every address, *if* libc's `inet_pton` / `inet_ntop`
    behave as the reference model (`hp`, `hn` — the hypothesis the correspondence tests on every run) -/
theorem ipv6_text_roundtrip (libcPton : List Nat → Option Buf) (libcNtop : Nat → Buf → Option (List Nat))
    (hp : ∀ s, libcPton s = V6.pton6 s) (hn : ∀ size a, libcNtop size a = V6.toStringSized size a)
    (a : Buf) (h : WFB 16 a) : (libcNtop 46 a).bind libcPton = some a := by
  rw [hn]
  have : V6.toStringSized 46 a = some (V6.ntop6 a) := toString_some a h
  rw [this, Option.bind_some, hp]
  exact V6RT.pton6_ntop6 a h

/-- the model's own instance of that statement -/
theorem ipv6_text_roundtrip_model (a : Buf) (h : WFB 16 a) : (V6.toString a).bind V6.parse = some a :=
  ipv6_text_roundtrip V6.pton6 V6.toStringSized (fun _ => rfl) (fun _ _ => rfl) a h

set_option maxRecDepth 100000 in
/-- each octet is printed as its plain decimal numeral -/
theorem ipv4_octet_form : ∀ n, n < 256 → V4.decOctet n = Spec.decimal n := by decide

/-! ## non-vacuity -/

-- an iterable range that ends at the all-ones address and starts at zero (the whole IPv4 space)
example : (⟨0, 4294967295, false⟩ : Range Nat).Valid V4.wf (fun x => x) ∧
    (⟨0, 4294967295, false⟩ : Range Nat).isIterable v4Ops = true := by
  refine ⟨⟨by simp only [V4.wf]; omega, by simp only [V4.wf]; omega, by simp⟩, rfl⟩

-- a host-only IPv6-sized range ending at the all-ones address: ffff…fffc/126
example : ∃ m r, slashBuf 16 (List.replicate 15 255 ++ [252]) 126 = .ok m r ∧ r.isIterable bufOps = true ∧
    (r.iterate bufOps 10).1 = [List.replicate 15 255 ++ [253], List.replicate 15 255 ++ [254]] :=
  ⟨_, _, rfl, by decide, by decide⟩

example : WFB 6 [0, 0x11, 0x22, 0x33, 0x44, 0x55] := ⟨rfl, by decide⟩
example : V4.wf 3232235521 := by unfold V4.wf; omega
-- a text outside the grammar / inside it with one-digit and short groups
example : Spec.parse4 [49, 46, 50, 46, 51, 46, 52] = some [1, 2, 3, 4] := by decide
example : Spec.parse4 [49, 46, 50, 46, 51, 46, 48, 52] = none := by decide
example : Spec.parseHw 6 [48, 48, 58, 58, 50, 50] = none := by decide
example : Spec.parseHw 6 [48, 58, 97, 98, 58, 70] = some [0, 0xab, 0xf, 0, 0, 0] := by decide

-- IPv6 text: a v4-mapped address, ties between runs (first wins), a single zero group is not compressed
example : WFB 16 [0, 0, 0, 0, 0, 0, 0, 0, 0, 0, 255, 255, 1, 2, 3, 4] := ⟨rfl, by decide⟩
example : V6.ntop6 [0, 0, 0, 0, 0, 0, 0, 0, 0, 0, 255, 255, 1, 2, 3, 4] = "::ffff:1.2.3.4".toList.map Char.toNat := by decide
example : V6.ntop6 [0, 1, 0, 0, 0, 0, 0, 2, 0, 0, 0, 0, 0, 3, 0, 4] = "1::2:0:0:3:4".toList.map Char.toNat := by decide
example : V6.ntop6 [0, 1, 0, 0, 0, 2, 0, 3, 0, 4, 0, 5, 0, 6, 0, 7] = "1:0:2:3:4:5:6:7".toList.map Char.toNat := by decide
example : Spec.parse6 ("1:2:3:4:5:6:7::".toList.map Char.toNat) = some [0, 1, 0, 2, 0, 3, 0, 4, 0, 5, 0, 6, 0, 7, 0, 0] := by decide
example : Spec.parse6 ("1:2:3:4:5:6:7:8::".toList.map Char.toNat) = none := by decide
example : Spec.parse6 ("fe80::1%eth0".toList.map Char.toNat) = none := by decide
example : Spec.parse6 ("::FFFF:1.2.3.4".toList.map Char.toNat) = some [0, 0, 0, 0, 0, 0, 0, 0, 0, 0, 255, 255, 1, 2, 3, 4] := by decide

end Tins.Props.C16
