import TinsModel.Address.Model
import TinsModel.Address.Spec
/- Property C16 — theorems (statements only here; helper lemmas live in TinsModel/Address/Lemmas*.lean). -/
namespace Tins.Props.C16
open Tins.Addr

end Tins.Props.C16
