import TinsModel.Crypto.Wpa2
import TinsModel.Crypto.Spec
/- Property C09 — theorems (statements only here; helper lemmas live in TinsModel/Crypto/*). -/
namespace Tins.Props.C09
open Tins.Crypto

/-- the RC4 stream XOR is an involution (the core of the WEP / TKIP round trip) -/
theorem rc4_involutive (key d : Bytes) : rc4 key (rc4 key d) = d := Tins.Crypto.rc4_involutive key d

end Tins.Props.C09
