import TinsModel.Crypto.Wpa2
import TinsModel.Crypto.Spec
import TinsModel.Crypto.LemmasWep
import TinsModel.Crypto.LemmasSafety
import TinsModel.Crypto.LemmasTkip
import TinsModel.Crypto.LemmasHandshake
import TinsModel.Crypto.LemmasKdf
import TinsModel.Crypto.LemmasHistory
import TinsModel.Crypto.LemmasWire
/-
  Property C09 — WEP / TKIP / CCMP decryption recovers exactly the plaintext, safely.
  Theorems only (helper lemmas live in TinsModel/Crypto/Lemmas*.lean).

  Model  : TinsModel/Crypto/{Crc,RC4,Wep,Tkip,Ccmp,Wpa2,Frame}.lean  (code-shaped, src/crypto.cpp)
  Spec   : TinsModel/Crypto/Spec.lean  (encapsulation / decapsulation written from IEEE 802.11),
           TinsModel/Crypto/SpecKdf.lean (PRF, pairwise key hierarchy, EAPOL-Key MIC, handshake grammar)
-/
namespace Tins.Props.C09
open Tins.Crypto

/-! ## Primitives -/

/-- `Utils::crc32` (nibble table, complemented register) is the IEEE 802.3 CRC-32, for every byte string. -/
theorem crc32_is_ieee (d : Bytes) : crc32 d = crc32Spec d := crc32_eq_spec d

example : crc32 [0x31, 0x32, 0x33, 0x34, 0x35, 0x36, 0x37, 0x38, 0x39] = 0xCBF43926#32 := by decide

/-- the RC4 of src/crypto.cpp (wrapping key iterator, in-place XOR) is XOR with the textbook RC4 key stream,
    for every non-empty key and every data. -/
theorem rc4_is_textbook (key d : Bytes) (hkey : key ≠ []) :
    rc4 key d = xorBytes (Spec.rc4Stream key d.length) d :=
  rc4_eq_spec key d (List.length_pos_iff.mpr hkey)

/-- the RC4 stream XOR is an involution (the core of the WEP / TKIP round trip) -/
theorem rc4_involutive (key d : Bytes) : rc4 key (rc4 key d) = d := Tins.Crypto.rc4_involutive key d

/-! ## WEP -/

/-- **Refinement.** For every payload, password and inner parser, `WEPDecrypter::decrypt(RawPDU&, password)`
    returns the LLC/SNAP parse of the specification's decapsulation — null exactly when the body is at most
    8 bytes long, the ICV does not verify or the plaintext is not a well-formed LLC/SNAP payload. -/
theorem wep_refines_spec (ip : InnerParser) (pload pw : Bytes) :
    ∃ p', wepDecryptRaw ip pload pw =
      .ok (if 8 < pload.length then snapResult ip (Spec.wepDecap pw pload) else none, p') := by
  by_cases hn : 8 < pload.length
  · exact ⟨_, by rw [wepDecryptRaw_refines ip pload pw hn, if_pos hn]⟩
  · exact ⟨_, by rw [wepDecryptRaw_short ip pload pw (by omega), if_neg hn]⟩

/-- **Round trip (specification level).** Decapsulation inverts encapsulation: all keys, IVs, key ids, data. -/
theorem wep_spec_roundtrip (key iv : Bytes) (kid : UInt8) (m : Bytes) (hiv : iv.length = 3) :
    Spec.wepDecap key (Spec.wepEncap key iv kid m) = some m := spec_wep_roundtrip key iv kid m hiv

/-- **Round trip.** A frame whose body is the reference WEP encapsulation (any key, any 3-byte IV, any key-id
    byte, any LLC/SNAP payload `m` that parses to `s`) is decrypted to exactly `s` and marked unprotected, for
    every header, once the key is installed under the address `WEPDecrypter` looks up. -/
theorem wep_roundtrip (ip : InnerParser) (pws : WepPasswords) (h : Hdr) (pw iv : Bytes) (kid : UInt8) (m : Bytes)
    (s : Snap) (hw : h.wep = true) (hiv : iv.length = 3) (hkey : lookup pws (wepLookupAddr h) = some pw)
    (hs : snapParse ip m = .ok s) :
    wepDecrypt ip pws ⟨h, .raw (Spec.wepEncap pw iv kid m)⟩ = .ok (true, ⟨h.clearWep, .snap s⟩) ∧
    h.clearWep.wep = false := by
  refine ⟨?_, clearWep_wep h⟩
  have hm : 8 ≤ m.length := by
    unfold snapParse at hs
    split at hs
    · simp
    · cases hs
  rw [wepDecrypt_eq]
  simp only [Inner.findRaw, hkey, hw, Bool.not_true, Bool.false_eq_true, if_false]
  have hlen : 8 < (Spec.wepEncap pw iv kid m).length := by
    unfold Spec.wepEncap; simp [hiv]; omega
  rw [if_pos hlen, spec_wep_roundtrip pw iv kid m hiv]
  simp [snapResult, hs]

/-- **Reject.** If `WEPDecrypter::decrypt` reports a frame as decrypted then the ICV of its body verifies under
    the installed key (the decapsulation succeeds) and the new payload is the parse of exactly that plaintext. -/
theorem wep_reject (ip : InnerParser) (pws : WepPasswords) (fr fr' : Frame)
    (h : wepDecrypt ip pws fr = .ok (true, fr')) :
    ∃ pload pw m s, fr.hdr.wep = true ∧ fr.inner.findRaw = some pload ∧ lookup pws (wepLookupAddr fr.hdr) = some pw ∧
      Spec.wepDecap pw pload = some m ∧ snapParse ip m = .ok s ∧ fr' = ⟨fr.hdr.clearWep, .snap s⟩ := by
  rw [wepDecrypt_eq] at h
  cases hw : fr.hdr.wep with
  | false => simp [hw] at h
  | true =>
  simp only [hw, Bool.not_true, Bool.false_eq_true, if_false] at h
  cases hraw : fr.inner.findRaw with
  | none => simp [hraw] at h
  | some pload =>
    cases hk : lookup pws (wepLookupAddr fr.hdr) with
    | none => simp [hraw, hk] at h
    | some pw =>
      simp only [hraw, hk] at h
      by_cases hn : 8 < pload.length
      · rw [if_pos hn] at h
        cases hd : Spec.wepDecap pw pload with
        | none => simp [hd, snapResult] at h
        | some m =>
          cases hs : snapParse ip m with
          | ok s =>
            simp [hd, snapResult, hs] at h
            exact ⟨pload, pw, m, s, rfl, rfl, rfl, hd, hs, h.symm⟩
          | throw e => simp [hd, snapResult, hs] at h
          | fault a b c => simp [hd, snapResult, hs] at h
      · rw [if_neg hn] at h; simp at h

/-- **No key, no decryption.** Without a password for the frame's address the frame is left untouched. -/
theorem wep_no_key (ip : InnerParser) (pws : WepPasswords) (fr : Frame)
    (h : lookup pws (wepLookupAddr fr.hdr) = none) : wepDecrypt ip pws fr = .ok (false, fr) := by
  rw [wepDecrypt_eq]
  cases fr.hdr.wep <;> cases fr.inner.findRaw <;> simp [h]

/-- unprotected frames are never touched by `WEPDecrypter::decrypt` -/
theorem wep_unprotected_untouched (ip : InnerParser) (pws : WepPasswords) (fr : Frame) (h : fr.hdr.wep = false) :
    wepDecrypt ip pws fr = .ok (false, fr) := by
  rw [wepDecrypt_eq]; simp [h]

/-- **Safety.** For every frame, every password table and every inner parser, `WEPDecrypter::decrypt` performs no
    out-of-bounds access and throws nothing: it returns. -/
theorem wep_decrypt_noFault (ip : InnerParser) (pws : WepPasswords) (fr : Frame) :
    ∃ r fr', wepDecrypt ip pws fr = .ok (r, fr') := ⟨_, _, wepDecrypt_eq ip pws fr⟩

/-- non-vacuity: the hypotheses of `wep_roundtrip` are satisfiable (a to-DS frame, 5-byte key under addr1) -/
example : ∃ (h : Hdr) (pws : WepPasswords) (pw m : Bytes) (s : Snap),
    lookup pws (wepLookupAddr h) = some pw ∧ snapParse (fun _ r => .ok (.raw r)) m = .ok s ∧ s.inner = .raw [1, 2] :=
  ⟨{ fc0 := 0x08, fc1 := 0x41, addr1 := [1, 1, 1, 1, 1, 1], addr2 := [2, 2, 2, 2, 2, 2], addr3 := [3, 3, 3, 3, 3, 3],
     sc0 := 0, sc1 := 0 }, [([1, 1, 1, 1, 1, 1], [9, 9, 9, 9, 9])], [9, 9, 9, 9, 9],
   [0xaa, 0xaa, 3, 0, 0, 0, 0x88, 0xb5, 1, 2], ⟨0xaa, 0xaa, 3, 0, 0x88b5, .raw [1, 2]⟩, by decide, by rfl, rfl⟩

/-! ## CCMP (block cipher = an arbitrary function `E`) -/

/-- **Header variants: the parser inverts the header bytes.** For every well-formed data-frame header (to/from-DS,
    IBSS, 4-address; QoS control present exactly for subtypes above 4) and every non-empty protected body,
    `Dot11::from_bytes` yields exactly that header and the body as a `RawPDU`. -/
theorem parse_inverts_header_bytes (ip : InnerParser) (h : Hdr) (wf : h.WF) (hw : h.wep = true) (body : Bytes)
    (hb : body ≠ []) : parseFrame ip (h.bytes ++ body) = .ok (.data ⟨h, .raw body⟩) :=
  parseFrame_bytes ip h wf hw body hb

/-- **AAD / nonce construction for every header variant.** The 32-byte AAD array, the priority byte and the nonce
    that `ccmp_decrypt_unicast` assembles from the parsed fields equal the length-prefixed, zero-padded AAD and the
    nonce of IEEE 802.11 computed from the header *bytes* (masked frame control, A1-A3, masked sequence control,
    A4 and the TID when present). Subtypes 4-7 (no frame body) are excluded. -/
theorem ccmp_aad_nonce_is_ieee (h : Hdr) (wf : h.WF) (hsub : h.subtype < 4 ∨ 8 ≤ h.subtype) (hh : h.htc = false) :
    ccmpAad h = .ok (padZero 32 (Spec.be16 (Spec.ccmpAad h.bytes).length ++ Spec.ccmpAad h.bytes), specPrio h.bytes) ∧
    (∀ pn, Spec.ccmpNonce h.bytes pn = [specPrio h.bytes] ++ h.addr2 ++ Spec.pnBytes pn) :=
  ⟨(ccmpAad_spec h wf hsub hh).1, (ccmpAad_spec h wf hsub hh).2.1⟩

/-- **Refinement.** For *every* block function `E` with 16-byte output, every well-formed header and every body
    longer than 16 bytes, `ccmp_decrypt_unicast` returns the LLC/SNAP parse of the specification's CCMP
    decapsulation (counter mode + CBC-MAC over B0, AAD, data): null exactly when the MIC does not verify or the
    plaintext is not a well-formed LLC/SNAP payload. -/
theorem ccmp_refines_spec (ip : InnerParser) (E : BlockFn) (hE : ∀ b, (E b).length = 16) (h : Hdr) (wf : h.WF)
    (hsub : h.subtype < 4 ∨ 8 ≤ h.subtype) (hh : h.htc = false) (pload : Bytes) (hn : 16 < pload.length) :
    ∃ p', ccmpDecrypt ip E h pload = .ok (snapResult ip (Spec.ccmpDecap E h.bytes pload), p') :=
  ccmpDecrypt_refines ip E hE h wf hsub hh pload hn

/-- **Round trip (specification level)** for every block function, header, 48-bit PN, key-id byte and data. -/
theorem ccmp_spec_roundtrip (E : BlockFn) (hE : ∀ b, (E b).length = 16) (hb : Bytes) (pn : Nat) (hpn : pn < 2 ^ 48)
    (kid : UInt8) (m : Bytes) : Spec.ccmpDecap E hb (Spec.ccmpEncap E hb pn kid m) = some m :=
  spec_ccmp_roundtrip E hE hb pn hpn kid m

/-- the MAC header on the air: the fields libtins parses and, for +HTC frames (QoS data with the Order bit), the
    4-octet HT Control field the standard puts behind the QoS control field -/
def airHeader (h : Hdr) (htc : Bytes) : Bytes := h.bytes ++ (if h.htc then htc else [])

/-- `Dot11::from_bytes` followed by the data-frame branch of `WPA2Decrypter::decrypt` -/
def decryptFrameBytes (ip : InnerParser) (aes : Bytes → BlockFn) (keys : KeyTable) (f : Bytes) : Option (Bool × Frame) :=
  match parseFrame ip f with
  | .ok (.data fr) =>
    match wpa2DecryptData ip aes keys fr with
    | .ok r => some r
    | _ => none
  | _ => none

/-- **Round trip (CCMP), full statement**: every header variant of IEEE 802.11 including +HTC frames — the frame made
    of the header on the air and the reference CCMP encapsulation over it is decrypted to exactly the payload.
    FALSE of libtins (known finding KF-C09-8): `Dot11QoSData` does not know the HT Control field, so its four octets
    are taken for the start of the CCMP header, and the AAD keeps the Order bit the standard masks for QoS data. -/
def ccmp_roundtrip_full : Prop :=
  ∀ (ip : InnerParser) (aes : Bytes → BlockFn) (keys : KeyTable) (k : SessionKeys) (h : Hdr) (htc : Bytes),
    h.WF → (h.subtype < 4 ∨ 8 ≤ h.subtype) → htc.length = 4 → h.wep = true → findKeys keys h = some k → k.isCcmp = true →
    (∀ b, (aes ((k.ptk.drop 32).take 16) b).length = 16) →
    ∀ (pn : Nat), pn < 2 ^ 48 → ∀ (kid : UInt8) (m : Bytes) (s : Snap), snapParse ip m = .ok s →
      ∃ fr', decryptFrameBytes ip aes keys
          (airHeader h htc ++ Spec.ccmpEncap (aes ((k.ptk.drop 32).take 16)) (airHeader h htc) pn kid m) = some (true, fr') ∧
        fr'.inner = .snap s ∧ fr'.hdr.wep = false

section HtcWitness
private def wIp : InnerParser := fun _ r => .ok (.raw r)
private def wAes : Bytes → BlockFn := fun _ b => (b ++ List.replicate 16 0).take 16
private def wKeys : SessionKeys := ⟨List.replicate 80 7, true⟩
/-- QoS Data, to-DS, protected, Order bit set: on the air a +HTC frame -/
private def wHdr : Hdr := { fc0 := 0x88, fc1 := 0xc1, addr1 := [1, 1, 1, 1, 1, 1], addr2 := [2, 2, 2, 2, 2, 2],
                            addr3 := [3, 3, 3, 3, 3, 3], sc0 := 0, sc1 := 0, qos := some (5, 0) }
private def wTable : KeyTable := [(extractAddrPair wHdr, wKeys)]
private def wMsg : Bytes := [0xaa, 0xaa, 3, 0, 0, 0, 0x88, 0xb5, 1, 2, 3, 4]
private def wFrame : Bytes :=
  airHeader wHdr [0, 0, 0, 0] ++ Spec.ccmpEncap (wAes ((wKeys.ptk.drop 32).take 16)) (airHeader wHdr [0, 0, 0, 0]) 5 0x20 wMsg

set_option maxRecDepth 20000 in
private theorem wFrame_not_decrypted : (decryptFrameBytes wIp wAes wTable wFrame).map (·.1) = some false := by decide

/-- refutation on a concrete witness (a +HTC frame of the same shape is replayed on the real code by the check on
    every run): QoS Data with the Order bit, HT Control 00 00 00 00 -/
theorem ccmp_roundtrip_full_fails : ¬ ccmp_roundtrip_full := by
  intro hfull
  have wf : wHdr.WF := ⟨rfl, rfl, rfl, rfl, by decide, by decide, fun _ => rfl⟩
  obtain ⟨fr', h1, _, _⟩ := hfull wIp wAes wTable wKeys wHdr [0, 0, 0, 0] wf (by decide) rfl (by decide) (by decide) rfl
    (fun b => by simp [wAes]) 5 (by decide) 0x20 wMsg ⟨0xaa, 0xaa, 3, 0, 0x88b5, .raw [1, 2, 3, 4]⟩ rfl
  have h2 := wFrame_not_decrypted
  unfold wFrame at h2
  rw [h1] at h2
  cases h2
end HtcWitness

/-- **Round trip.** For every block cipher `aes` (16-byte blocks), every well-formed protected header variant, every
    48-bit packet number, key-id byte and LLC/SNAP payload `m` (parsing to `s`): the frame made of the header bytes
    and the reference CCMP encapsulation of `m` under the temporal key parses to that header, and
    `WPA2Decrypter::decrypt` — whenever its key lookup yields CCMP session keys with that temporal key — returns
    true, installs exactly `s` and clears the protected bit. Independent of AES.
    Excluded from the full statement `ccmp_roundtrip_full`: +HTC frames (`h.htc`: QoS data with the Order bit). -/
theorem ccmp_roundtrip_partial (ip : InnerParser) (aes : Bytes → BlockFn) (keys : KeyTable) (k : SessionKeys) (h : Hdr)
    (wf : h.WF) (hsub : h.subtype < 4 ∨ 8 ≤ h.subtype) (hh : h.htc = false) (hw : h.wep = true)
    (hk : findKeys keys h = some k) (hc : k.isCcmp = true)
    (hE : ∀ b, (aes ((k.ptk.drop 32).take 16) b).length = 16)
    (pn : Nat) (hpn : pn < 2 ^ 48) (kid : UInt8) (m : Bytes) (s : Snap) (hs : snapParse ip m = .ok s) :
    let body := Spec.ccmpEncap (aes ((k.ptk.drop 32).take 16)) h.bytes pn kid m
    parseFrame ip (h.bytes ++ body) = .ok (.data ⟨h, .raw body⟩) ∧
    wpa2DecryptData ip aes keys ⟨h, .raw body⟩ = .ok (true, ⟨h.clearWep, .snap s⟩) ∧
    h.clearWep.wep = false := by
  intro body
  have hm : 8 ≤ m.length := by
    unfold snapParse at hs
    split at hs
    · simp
    · cases hs
  have hblen : 16 < body.length := by
    show 16 < (Spec.ccmpEncap _ h.bytes pn kid m).length
    unfold Spec.ccmpEncap
    simp only [List.length_append]
    have : (Spec.ccmpHeader pn kid).length = 8 := rfl
    rw [this, ctrXor_length _ hE _ _ _ _ (by omega)]
    have : (xorBytes ((Spec.ctrBlock (aes ((k.ptk.drop 32).take 16)) (Spec.ccmpNonce h.bytes pn) 0).take 8)
        (Spec.ccmTag (aes ((k.ptk.drop 32).take 16)) (Spec.ccmpNonce h.bytes pn) (Spec.ccmpAad h.bytes) m)).length = 8 := by
      simp [Spec.ctrBlock, hE, ccmTag_length _ hE]
    rw [this]
    omega
  have hbne : body ≠ [] := by intro h0; rw [h0] at hblen; simp at hblen
  refine ⟨parseFrame_bytes ip h wf hw body hbne, ?_, clearWep_wep h⟩
  obtain ⟨p', hd⟩ := ccmpDecrypt_refines ip _ hE h wf hsub hh body hblen
  rw [spec_ccmp_roundtrip _ hE h.bytes pn hpn kid m] at hd
  unfold wpa2DecryptData
  simp only [Inner.findRaw, hw, hk, Bool.not_true, Bool.false_eq_true, if_false]
  unfold decryptUnicast
  rw [if_pos hc, hd]
  simp [snapResult, hs]

/-- **Reject (CCMP).** If the data-frame branch of `WPA2Decrypter::decrypt` reports a frame as decrypted under CCMP
    session keys, the MIC of the body verifies under those keys: the specification's decapsulation over the header
    bytes succeeds, and the new payload is the parse of exactly that plaintext. -/
theorem ccmp_reject (ip : InnerParser) (aes : Bytes → BlockFn) (keys : KeyTable) (fr fr' : Frame) (wf : fr.hdr.WF)
    (hsub : fr.hdr.subtype < 4 ∨ 8 ≤ fr.hdr.subtype) (hh : fr.hdr.htc = false) (k : SessionKeys)
    (hk : findKeys keys fr.hdr = some k)
    (hc : k.isCcmp = true) (hE : ∀ b, (aes ((k.ptk.drop 32).take 16) b).length = 16)
    (h : wpa2DecryptData ip aes keys fr = .ok (true, fr')) :
    ∃ pload m s, fr.inner.findRaw = some pload ∧
      Spec.ccmpDecap (aes ((k.ptk.drop 32).take 16)) fr.hdr.bytes pload = some m ∧
      snapParse ip m = .ok s ∧ fr' = ⟨fr.hdr.clearWep, .snap s⟩ := by
  have hmin : Gen.ccmpMin = 16 := rfl
  unfold wpa2DecryptData at h
  cases hraw : fr.inner.findRaw with
  | none => simp [hraw] at h
  | some pload =>
    simp only [hraw, hk] at h
    split at h
    · simp at h
    · unfold decryptUnicast at h
      rw [if_pos hc] at h
      by_cases hn : 16 < pload.length
      · obtain ⟨p', hd⟩ := ccmpDecrypt_refines ip _ hE fr.hdr wf hsub hh pload hn
        rw [hd] at h
        cases hdec : Spec.ccmpDecap (aes ((k.ptk.drop 32).take 16)) fr.hdr.bytes pload with
        | none => simp [hdec, snapResult] at h
        | some m =>
          cases hs : snapParse ip m with
          | ok s =>
            simp [hdec, snapResult, hs] at h
            exact ⟨pload, m, s, rfl, hdec, hs, h.symm⟩
          | throw e => simp [hdec, snapResult, hs] at h
          | fault a b c => simp [hdec, snapResult, hs] at h
      · have : ccmpDecrypt ip (aes ((k.ptk.drop 32).take 16)) fr.hdr pload = .ok (none, pload) := by
          unfold ccmpDecrypt; simp [hmin, show pload.length ≤ 16 by omega]
        rw [this] at h
        simp at h

/-! ## TKIP -/

/-- **S-box.** The two 256-entry tables of src/crypto.cpp (regenerated from the source on every run) are the TKIP S-box
    of IEEE 802.11: entry `i` is `(2·s)‖(3·s)` in GF(2^8) for `s` the AES S-box of `i`; the second table is the first
    with the bytes of every entry swapped. (The finite table is the quantifier.) -/
theorem tkip_sbox_is_standard : ∀ n : Fin 256,
    Gen.sboxTable0.getD n.val 0 = Spec.tkipSboxLo (UInt8.ofNat n.val) ∧
    Gen.sboxTable1.getD n.val 0 = Spec.swap16 (Spec.tkipSboxLo (UInt8.ofNat n.val)) := sboxTables_spec

/-- **Key mixing.** For every temporal key, transmitter address and TSC bytes, the RC4 key computed by
    `RC4Key::from_packet` is the WEP seed of TKIP phase 1 + phase 2 of IEEE 802.11 for the TSC carried in the header. -/
theorem tkip_mixing_is_ieee (ptk : Bytes) (h : Hdr) (pload : Bytes) (hn : 8 ≤ pload.length) :
    tkipSeed ptk h pload = .ok (Spec.tkipSeed (ptk.drop 32) h.addr2 (Spec.tkipTscOf pload)) :=
  tkipSeed_eq_spec ptk h pload hn

/-- **Refinement.** For every body longer than 20 bytes `tkip_decrypt_unicast` returns the LLC/SNAP parse of the data
    part of the specification's TKIP decapsulation: null exactly when the ICV does not verify or the plaintext is not
    a well-formed LLC/SNAP payload. -/
theorem tkip_refines_spec (ip : InnerParser) (ptk : Bytes) (h : Hdr) (pload : Bytes) (hn : 20 < pload.length) :
    ∃ p', tkipDecrypt ip ptk h pload =
      .ok (snapResult ip ((Spec.tkipDecap (ptk.drop 32) h.addr2 pload).map (·.1)), p') :=
  tkipDecrypt_refines ip ptk h pload hn

/-- **Round trip (specification level)**: every temporal key, TA, 48-bit TSC, key-id byte, data, Michael value. -/
theorem tkip_spec_roundtrip (tk ta : Bytes) (tsc : Nat) (htsc : tsc < 2 ^ 48) (kid : UInt8) (m mic : Bytes)
    (hmic : mic.length = 8) : Spec.tkipDecap tk ta (Spec.tkipEncap tk ta tsc kid m mic) = some (m, mic) :=
  spec_tkip_roundtrip tk ta tsc htsc kid m mic hmic

/-- **Round trip.** Every protected header, every 48-bit TSC, key-id byte, LLC/SNAP payload `m` (parsing to `s`) and
    8-byte Michael value: the frame carrying the reference TKIP encapsulation under the temporal key of the session keys
    found by the key lookup is reported as decrypted, gets exactly `s` as payload and is marked unprotected. -/
theorem tkip_roundtrip (ip : InnerParser) (aes : Bytes → BlockFn) (keys : KeyTable) (k : SessionKeys) (h : Hdr)
    (hw : h.wep = true) (hk : findKeys keys h = some k) (hc : k.isCcmp = false)
    (tsc : Nat) (htsc : tsc < 2 ^ 48) (kid : UInt8) (m mic : Bytes) (hmic : mic.length = 8) (s : Snap)
    (hs : snapParse ip m = .ok s) :
    wpa2DecryptData ip aes keys ⟨h, .raw (Spec.tkipEncap (k.ptk.drop 32) h.addr2 tsc kid m mic)⟩ =
      .ok (true, ⟨h.clearWep, .snap s⟩) ∧ h.clearWep.wep = false := by
  refine ⟨?_, clearWep_wep h⟩
  have hlen : 20 < (Spec.tkipEncap (k.ptk.drop 32) h.addr2 tsc kid m mic).length := by
    have hm : 8 ≤ m.length := by
      unfold snapParse at hs
      split at hs
      · simp
      · cases hs
    unfold Spec.tkipEncap
    have : (Spec.tkipHeader tsc kid).length = 8 := rfl
    simp [this, hmic]
    omega
  obtain ⟨p', hd⟩ := tkipDecrypt_refines ip k.ptk h _ hlen
  rw [spec_tkip_roundtrip _ _ tsc htsc kid m mic hmic] at hd
  unfold wpa2DecryptData
  simp only [Inner.findRaw, hw, hk, Bool.not_true, Bool.false_eq_true, if_false]
  unfold decryptUnicast
  simp only [hc, Bool.false_eq_true, if_false]
  rw [hd]
  simp [snapResult, hs]

/-- **Reject (TKIP), full statement**: a frame reported as decrypted has a verifying ICV *and* a verifying Michael
    MIC.  FALSE of libtins (known finding KF-C09-4): `tkip_decrypt_unicast` never checks Michael. -/
def tkip_reject_full : Prop :=
  ∀ (ip : InnerParser) (ptk : Bytes) (h : Hdr) (pload : Bytes) (s : Snap) (p' : Bytes),
    tkipDecrypt ip ptk h pload = .ok (some s, p') →
    ∃ m mic, Spec.tkipDecap (ptk.drop 32) h.addr2 pload = some (m, mic) ∧ snapParse ip m = .ok s ∧
      Spec.michaelVerifies ptk h.bytes m mic = true

/-- refutation on a concrete witness (replayed on the real code by the check on every run): a to-DS frame whose
    Michael field is eight zero bytes -/
theorem tkip_reject_full_fails : ¬ tkip_reject_full := by
  intro hfull
  let ip : InnerParser := fun _ r => .ok (.raw r)
  let ptk : Bytes := List.replicate 80 7
  let h : Hdr := { fc0 := 0x08, fc1 := 0x41, addr1 := [1, 1, 1, 1, 1, 1], addr2 := [2, 2, 2, 2, 2, 2],
                   addr3 := [3, 3, 3, 3, 3, 3], sc0 := 0, sc1 := 0 }
  let m : Bytes := [0xaa, 0xaa, 3, 0, 0, 0, 0x88, 0xb5, 1, 2, 3, 4]
  let mic : Bytes := [0, 0, 0, 0, 0, 0, 0, 0]
  let pload := Spec.tkipEncap (ptk.drop 32) h.addr2 5 0x20 m mic
  have hlen : 20 < pload.length := by
    show 20 < (Spec.tkipEncap (ptk.drop 32) h.addr2 5 0x20 m mic).length
    unfold Spec.tkipEncap
    have : (Spec.tkipHeader 5 0x20).length = 8 := rfl
    simp [this]
    decide
  obtain ⟨p', hd⟩ := tkipDecrypt_refines ip ptk h pload hlen
  have hrt : Spec.tkipDecap (ptk.drop 32) h.addr2 pload = some (m, mic) :=
    spec_tkip_roundtrip _ _ 5 (by decide) 0x20 m mic rfl
  rw [hrt] at hd
  have hs : snapParse ip m = .ok ⟨0xaa, 0xaa, 3, 0, 0x88b5, .raw [1, 2, 3, 4]⟩ := rfl
  simp only [Option.map_some, snapResult, hs] at hd
  obtain ⟨m', mic', hdec, _, hmv⟩ := hfull ip ptk h pload _ p' hd
  rw [hrt] at hdec
  cases hdec
  have : Spec.michaelVerifies ptk h.bytes m mic = false := by decide
  rw [this] at hmv
  cases hmv

/-- **Reject (TKIP), what holds**: a frame reported as decrypted has a verifying ICV under the session's temporal key
    and per-packet key mixing, and the new payload is the parse of exactly the decapsulated data.
    Excluded from the full statement: the Michael MIC (`Spec.michaelVerifies`). -/
theorem tkip_reject_partial (ip : InnerParser) (ptk : Bytes) (h : Hdr) (pload : Bytes) (s : Snap) (p' : Bytes)
    (hd : tkipDecrypt ip ptk h pload = .ok (some s, p')) :
    ∃ m mic, Spec.tkipDecap (ptk.drop 32) h.addr2 pload = some (m, mic) ∧ snapParse ip m = .ok s := by
  have hmin : Gen.tkipMin = 20 := rfl
  by_cases hn : 20 < pload.length
  · obtain ⟨p'', hr⟩ := tkipDecrypt_refines ip ptk h pload hn
    rw [hr] at hd
    cases hdec : Spec.tkipDecap (ptk.drop 32) h.addr2 pload with
    | none => simp [hdec, snapResult] at hd
    | some mm =>
      obtain ⟨m, mic⟩ := mm
      cases hs : snapParse ip m with
      | ok s' =>
        simp [hdec, snapResult, hs] at hd
        exact ⟨m, mic, rfl, by rw [hs, hd.1]⟩
      | throw e => simp [hdec, snapResult, hs] at hd
      | fault a b c => simp [hdec, snapResult, hs] at hd
  · have : tkipDecrypt ip ptk h pload = .ok (none, pload) := by
      unfold tkipDecrypt; simp [hmin, show pload.length ≤ 20 by omega]
    rw [this] at hd
    simp at hd

/-! ## Safety and key lookup of the WPA2 data path -/

/-- **decrypt_noFault.** For every frame whose header satisfies the cast invariant of `Dot11::from_bytes` (QoS subtype
    ⇒ `Dot11QoSData`), every key table, every block cipher and **every protected body — any length, any content** —
    the data-frame branch of `WPA2Decrypter::decrypt` (TKIP and CCMP) performs no out-of-bounds access and throws
    nothing. (On the unfixed code the CCMP guard `ccmpMin` is 0 and this theorem does not check.) -/
theorem wpa2_decrypt_noFault (ip : InnerParser) (aes : Bytes → BlockFn) (keys : KeyTable) (fr : Frame)
    (hq : fr.hdr.QosCastOk) : ∃ r fr', wpa2DecryptData ip aes keys fr = .ok (r, fr') :=
  wpa2DecryptData_total ip aes keys fr hq

/-- every header produced by the parser satisfies the cast invariant -/
theorem parsed_header_cast_ok (h : Hdr) (wf : h.WF) : h.QosCastOk := wf.qosCastOk

/-- **No key, no decryption.** Without session keys under either address pair of the frame, the frame is left
    untouched and not reported as decrypted. -/
theorem wpa2_no_key (ip : InnerParser) (aes : Bytes → BlockFn) (keys : KeyTable) (fr : Frame)
    (h1 : lookup keys (extractAddrPair fr.hdr) = none) (h2 : lookup keys (extractAddrPairDst fr.hdr) = none) :
    wpa2DecryptData ip aes keys fr = .ok (false, fr) := by
  have : findKeys keys fr.hdr = none := by
    unfold findKeys
    cases (fr.hdr.fromDS && !fr.hdr.toDS) <;> simp [h1, h2]
  unfold wpa2DecryptData
  cases fr.inner.findRaw with
  | none => rfl
  | some p => simp only [this]; split <;> rfl

/-- unprotected frames are never touched by the WPA2 data path -/
theorem wpa2_unprotected_untouched (ip : InnerParser) (aes : Bytes → BlockFn) (keys : KeyTable) (fr : Frame)
    (h : fr.hdr.wep = false) : wpa2DecryptData ip aes keys fr = .ok (false, fr) := by
  unfold wpa2DecryptData
  cases fr.inner.findRaw with
  | none => rfl
  | some p => simp [h]

/-! ## Handshake histories and key learning -/

/-- **handshake_complete.** For every capturer state, every earlier history `pre` (anything at all: aborted
    attempts, other stations, garbage), every station pair `k`: if the frames of pair `k` that follow are
    M1 · M2⁺ · M3⁺ · M4 — retransmitted M2 / M3 allowed, frames of *other* pairs interleaved anywhere (beacons and
    non-EAPOL data frames never reach the capturer) — then `process_packet` returns true on M4, hands over exactly
    [M1, first M2, first M3, M4] for the pair and drops the partial handshake. -/
theorem handshake_complete (c : Capturer) (k : AddrPair) (pre s2 s3 : List (Hdr × Eapol)) (h1 h4 : Hdr)
    (m1 m2 m3 m4 : Eapol) (hk1 : pairOf h1 = k) (hk4 : pairOf h4 = k) (hm1 : isM1 m1 = true) (hm4 : isM4 m4 = true)
    (hs2 : Segment k isM2 m2 s2) (hs3 : Segment k isM3 m3 s3) :
    let c' := ((((c.run pre).process h1 m1).1.run s2).run s3)
    (c'.process h4 m4).2 = true ∧
    (c'.process h4 m4).1.completed = c'.completed ++ [⟨k.1, k.2, [m1, m2, m3, m4]⟩] ∧
    (c'.process h4 m4).1.entry k = none :=
  capturer_completes c k pre s2 s3 h1 h4 m1 m2 m3 m4 hk1 hk4 hm1 hm4 hs2 hs3

/-- frames of other station pairs never disturb a pair's partial handshake -/
theorem handshake_other_pairs_independent (c : Capturer) (h : Hdr) (e : Eapol) (k : AddrPair) (hk : k ≠ pairOf h) :
    (c.process h e).1.entry k = c.entry k := process_other c h e k hk

/-- **keys_learned.** With [M1, M2, M3] of the pair captured, the frame's access point known and the handshake
    verifying under the network's PMK (PRF and MIC function are parameters), `WPA2Decrypter::decrypt` on message 4
    installs exactly the derived session keys under the frame's (bssid, station) pair and reports the handshake. -/
theorem keys_learned (ip : InnerParser) (aes : Bytes → BlockFn) (prf : Bytes → Bytes → Bytes)
    (micf : Bool → Bytes → Bytes → Bytes) (st : Wpa2State) (fr : Frame) (m1 m2 m3 m4 : Eapol) (ssid pmk : Bytes)
    (k : SessionKeys) (he : fr.inner.findEapol = some m4) (hm4 : isM4 m4 = true)
    (hentry : st.cap.entry (pairOf fr.hdr) = some [m1, m2, m3]) (hcomp : st.cap.completed = [])
    (hap : lookup st.aps (findApAddr fr.hdr) = some (ssid, pmk))
    (hd : deriveKeys prf micf ⟨(pairOf fr.hdr).1, (pairOf fr.hdr).2, [m1, m2, m3, m4]⟩ pmk = some k) :
    ∃ st' client, wpa2Decrypt ip aes prf micf st (.data fr) =
        .ok (st', false, .data fr, [.handshake ssid fr.hdr.bssidAddr client]) ∧
      lookup st'.keys (extractAddrPair fr.hdr) = some k ∧ st'.cap.completed = [] ∧
      st'.cap.entry (pairOf fr.hdr) = none :=
  decrypt_learns_keys ip aes prf micf st fr m1 m2 m3 m4 ssid pmk k he hm4 hentry hcomp hap hd

/-- the decrypter's own capturer never keeps a completed handshake pending (invariant of `decrypt`) -/
theorem decrypt_keeps_capturer_drained (ip : InnerParser) (aes : Bytes → BlockFn) (prf : Bytes → Bytes → Bytes)
    (micf : Bool → Bytes → Bytes → Bytes) (st st' : Wpa2State) (p p' : Parsed) (r : Bool) (ev : List Event)
    (hcomp : st.cap.completed = []) (h : wpa2Decrypt ip aes prf micf st p = .ok (st', r, p', ev)) :
    st'.cap.completed = [] :=
  wpa2Decrypt_keeps_completed_empty ip aes prf micf st st' p p' r ev hcomp h

/-- non-vacuity of `handshake_complete`: concrete flag bytes of the four messages satisfy the classes -/
example : isM1 ⟨1, 3, 2, [0x00, 0x8a], [], []⟩ = true ∧ isM2 ⟨1, 3, 2, [0x01, 0x0a], [], []⟩ = true ∧
    isM3 ⟨1, 3, 2, [0x13, 0xca], [], []⟩ = true ∧ isM4 ⟨1, 3, 2, [0x03, 0x0a], [], []⟩ = true := by decide

/-! ## Key derivation (HMAC-SHA1, HMAC-MD5 and PBKDF2 are parameters) -/

/-- **derive_keys_is_prf512.** For EVERY keyed hash `H` with 20-byte output in the place of HMAC-SHA1 and every pair of
    MIC functions, every 32-octet PMK, all addresses `aa` / `spa` (equal length, stored in either order — a captured
    handshake keeps min / max, not authenticator / supplicant), all nonces (equal length) and every message 4 of key
    descriptor version 1 or 2, `SessionKeys::SessionKeys(handshake, pmk)`
    * succeeds exactly when the Key MIC of message 4 — HMAC-MD5 for version 1, HMAC-SHA1-128 for version 2, over the
      serialized frame with the Key MIC field zeroed, all 16 octets compared — verifies under the KCK, and then
    * holds PRF-640(PMK, "Pairwise key expansion", Min(AA,SPA) ‖ Max(AA,SPA) ‖ Min(ANonce,SNonce) ‖ Max(ANonce,SNonce))
      with Min / Max on the big-endian values (so also on equal prefixes), counter octets 0 … 3; its first 512 / 384
      bits are the standard's PRF-512 / PRF-384, the temporal key used for CCMP is L(PTK, 256, 128), and the cipher is
      CCMP exactly for version 2. -/
theorem derive_keys_is_prf512 (H : Spec.Mac) (micf : Bool → Spec.Mac) (hH : ∀ k d, (H k d).length = 20)
    (aa spa pmk : Bytes) (hlen : aa.length = spa.length) (hpmk : pmk.length = 32) (m1 m2 m3 m4 : Eapol)
    (hn : m2.nonce.length = m3.nonce.length) (hs : Handshake) (hmsgs : hs.msgs = [m1, m2, m3, m4])
    (haddr : (hs.a1 = aa ∧ hs.a2 = spa) ∨ (hs.a1 = spa ∧ hs.a2 = aa))
    (hver : m4.keyDescriptor = 1 ∨ m4.keyDescriptor = 2) :
    deriveKeys H micf hs pmk =
      (Spec.sessionKeys H (micf false) (micf true) pmk aa spa m3.nonce m2.nonce m4.keyDescriptor.toNat m4.serialize
        m4.mic).map (fun (ptk, ccmp) => ⟨ptk, ccmp⟩) ∧
    ∀ k, deriveKeys H micf hs pmk = some k →
      k.ptk = Spec.ptk H pmk aa spa m3.nonce m2.nonce 640 ∧
      k.ptk.take 64 = Spec.ptk H pmk aa spa m3.nonce m2.nonce 512 ∧
      k.ptk.take 48 = Spec.ptk H pmk aa spa m3.nonce m2.nonce 384 ∧
      (k.ptk.drop 32).take 16 = Spec.tk (Spec.ptk H pmk aa spa m3.nonce m2.nonce 384) ∧
      k.isCcmp = (m4.keyDescriptor == 2) := by
  have hspec := deriveKeys_eq_spec H micf hH aa spa pmk hlen hpmk m1 m2 m3 m4 hn hs hmsgs haddr hver
  refine ⟨hspec, ?_⟩
  intro k hk
  have hc := (deriveKeys_some_mic H micf hs pmk k m1 m2 m3 m4 hmsgs hk).1
  rw [hspec] at hk
  unfold Spec.sessionKeys at hk
  simp only [] at hk
  split at hk
  · simp only [Option.map_some, Option.some.injEq] at hk
    have hptk : k.ptk = Spec.ptk H pmk aa spa m3.nonce m2.nonce 640 := by rw [← hk]
    have h48 : k.ptk.take 48 = Spec.ptk H pmk aa spa m3.nonce m2.nonce 384 := by
      rw [hptk]; exact prf640_take48 H hH _ _ _
    refine ⟨hptk, by rw [hptk]; exact prf640_take64 H _ _ _, h48, ?_, hc⟩
    rw [← h48]
    unfold Spec.tk
    rw [List.drop_take, List.take_take]
    rfl
  · simp at hk

/-- non-vacuity of `derive_keys_is_prf512`: two 6-octet addresses that agree on their first five octets, two 32-octet
    nonces that agree on their first 31, a constant 20-octet "HMAC" -/
example : ∃ (H : Spec.Mac) (aa spa n1 n2 : Bytes), (∀ k d, (H k d).length = 20) ∧ aa.length = spa.length ∧
    n1.length = n2.length ∧ Spec.natMin aa spa = spa ∧ Spec.natMax n1 n2 = n1 ∧
    (Spec.ptk H (List.replicate 32 7) aa spa n1 n2 512).length = 64 :=
  ⟨fun _ _ => List.replicate 20 0, [1, 2, 3, 4, 5, 9], [1, 2, 3, 4, 5, 6], List.replicate 31 0 ++ [2], List.replicate 31 0 ++ [1],
   fun _ _ => rfl, rfl, rfl, by decide, by decide, by decide⟩

/-- **The literals of the source are the model's.** What the translator reads at named anchors of
    `SessionKeys::SessionKeys(const RSNHandshake&, const pmk_type&)` and `SupplicantData` on every run — the label string,
    the offsets of min / max address, smaller / larger nonce and counter in `PKE[100]`, the loop `for i < 4` writing
    `PKE[99] = i` and 20 octets per round, the zeroed range `81 … 81 + 16`, the full-length MIC comparison, the 16-octet
    KCK, the PMK size and the PBKDF2 iteration count — is the layout the model `deriveKeys` / `supplicantPmk` uses and
    the specification's label and Key MIC field. -/
theorem kdf_source_literals :
    Gen.kdfLabel = Spec.pairwiseLabel ∧ Gen.kdfLabel ++ [0] = pkeLabel ∧
    Gen.kdfLabel.length + 1 = Gen.kdfAddrOff1 ∧ Gen.kdfAddrOff1 + 6 = Gen.kdfAddrOff2 ∧
    Gen.kdfAddrOff2 + 6 = Gen.kdfNonceOff1 ∧ Gen.kdfNonceOff1 + 32 = Gen.kdfNonceOff2 ∧
    Gen.kdfNonceOff2 + 32 = Gen.kdfCounterOff ∧ Gen.kdfCounterOff + 1 = Gen.kdfPkeSize ∧
    Gen.kdfRounds = 4 ∧ Gen.kdfStride = 20 ∧ Gen.kdfRounds * Gen.kdfStride = Gen.kdfPtkSize ∧
    Gen.kdfCounterIsIndex = true ∧ Gen.kdfSmallerNonceFirst = true ∧
    Gen.kdfMicOff = Spec.KeyField.mic.offset ∧ Gen.kdfMicLen = Spec.KeyField.mic.size ∧ Gen.kdfMicCompareFull = true ∧
    Gen.kdfKckLen = 16 ∧ Gen.kdfPmkSize = 32 ∧ Gen.kdfPbkdf2Iter = 4096 := by decide

/-- key descriptor versions the specification does not cover (0, 3 … 7) are treated like version 1: accepted only
    with an HMAC-MD5 MIC, cipher TKIP -/
theorem derive_keys_other_versions (H : Spec.Mac) (micf : Bool → Spec.Mac) (hs : Handshake) (pmk : Bytes) (k : SessionKeys)
    (m1 m2 m3 m4 : Eapol) (hmsgs : hs.msgs = [m1, m2, m3, m4]) (hv : m4.keyDescriptor ≠ 2)
    (hd : deriveKeys H micf hs pmk = some k) :
    k.isCcmp = false ∧ (micf false (k.ptk.take 16) (Spec.micZeroed m4.serialize)).take 16 = m4.mic :=
  deriveKeys_other_versions H micf hs pmk k m1 m2 m3 m4 hmsgs hv hd

/-- **pmk_is_pbkdf2.** `add_ap_data(psk, ssid)` registers PSK = PBKDF2(passphrase, ssid, 4096, 256 bits) for a network
    name not yet registered, and keeps the first registration otherwise (`std::map::insert`); PBKDF2 is a parameter. -/
theorem pmk_is_pbkdf2 (pbkdf2 : Bytes → Bytes → Nat → Nat → Bytes) (st : Wpa2State) (psk ssid : Bytes) :
    (lookup st.pmks ssid = none →
      lookup (st.addApDataPsk pbkdf2 psk ssid).pmks ssid = some (Spec.pskOf pbkdf2 psk ssid)) ∧
    (∀ v, lookup st.pmks ssid = some v → lookup (st.addApDataPsk pbkdf2 psk ssid).pmks ssid = some v) := by
  unfold Wpa2State.addApDataPsk Wpa2State.addApData insertIfAbsent supplicantPmk Spec.pskOf
  constructor
  · intro h; simp [h, lookup]
  · intro v h; simp [h]

example : lookup (({} : Wpa2State).addApDataPsk (fun p s _ n => (p ++ s).take n) [1, 2] [3]).pmks [3] = some [1, 2, 3] := by decide

/-! ## Handshake capture over all valid histories -/

/-- **libtins' message classes are the standard's**: the flag tests of `process_packet` select message 1 … 4 exactly
    as 11.6.6.2-5 does on the Key Information field -/
theorem message_classes_are_ieee (e : Eapol) : msgClass e = Spec.msgOfInfo (e.info0.toNat * 256 + e.info1.toNat) :=
  msgClass_is_ieee e

/-- **handshake_complete, all histories.** For every capturer state `c` consistent with a position `t` of pair `k` in
    the grammar ( M1⁺ [ M2⁺ [ M3⁺ [ M4⁺ ] ] ] )* — in particular every state at all together with the start position
    — and every history `xs` the grammar accepts (retransmissions of every message, attempts abandoned after message
    1, 2 or 3 whatever their replay counters, any number of complete runs of the same pair, frames of other pairs and
    EAPOL-Key frames that are none of the four messages interleaved anywhere), `RSNHandshakeCapturer` has handed over
    for the pair exactly the completed attempts — [last M1, first M2, first M3, M4] each — in order, nothing else, and
    its partial handshake is where the grammar says. -/
theorem handshake_complete_all_histories (k : AddrPair) (xs : List (Hdr × Eapol)) (c : Capturer) (t t' : Track)
    (done0 : List Handshake) (hc : ofPair k c.completed = done0 ++ t.completed.map (Attempt.handshake k))
    (hp : phaseEntry t.phase (c.entry k)) (ht : t.runCap k xs = some t') :
    ofPair k (c.run xs).completed = done0 ++ t'.completed.map (Attempt.handshake k) ∧
    phaseEntry t'.phase ((c.run xs).entry k) :=
  capturer_run_valid k xs c t t' done0 hc hp ht

/-- non-vacuity of `handshake_complete_all_histories`: M1 M1 M2 M2 M3 M4 M4 of one pair with a frame of another pair in
    between is a word of the grammar and completes one attempt -/
example :
    let h1 : Hdr := { fc0 := 0x08, fc1 := 0x02, addr1 := [2, 0, 0, 0, 0, 9], addr2 := [2, 0, 0, 0, 0, 1], addr3 := [2, 0, 0, 0, 0, 1],
                      sc0 := 0, sc1 := 0 }
    let h2 : Hdr := { fc0 := 0x08, fc1 := 0x01, addr1 := [2, 0, 0, 0, 0, 1], addr2 := [2, 0, 0, 0, 0, 9], addr3 := [2, 0, 0, 0, 0, 1],
                      sc0 := 0, sc1 := 0 }
    let h3 : Hdr := { h2 with addr2 := [2, 0, 0, 0, 0, 7] }
    let e (a b : UInt8) : Eapol := ⟨1, 3, 2, [a, b], [], []⟩
    ((({} : Track).runCap (pairOf h1)
      [(h1, e 0x00 0x8a), (h1, e 0x00 0x8a), (h2, e 0x01 0x0a), (h3, e 0x01 0x0a), (h2, e 0x01 0x0a), (h1, e 0x13 0xca),
       (h2, e 0x03 0x0a), (h2, e 0x03 0x0a)]).map fun t => t.completed.length) = some 1 := by decide

/-- from ANY capturer state: the start position fits every state -/
theorem handshake_complete_from_any_state (k : AddrPair) (xs : List (Hdr × Eapol)) (c : Capturer) (t' : Track)
    (ht : ({} : Track).runCap k xs = some t') :
    ofPair k (c.run xs).completed = ofPair k c.completed ++ t'.completed.map (Attempt.handshake k) :=
  (capturer_run_valid k xs c {} t' (ofPair k c.completed) (by simp) trivial ht).1

/-- **keys_learned, all histories.** Let the decrypter know the access point `ap` (PSK / SSID registered and BSSID
    announced or given), let its capturer be drained, and let `ps` be ANY history of frames — beacons, data frames,
    non-data frames, EAPOL-Key frames of other pairs, and for pair `k` any sequence the grammar accepts: retransmitted
    messages, abandoned attempts (also ones sharing a replay counter with a later attempt), re-handshakes of the same
    pair.  Then every `decrypt` call returns, and afterwards the pair's key-table entry is what the completed attempts
    make of the initial entry: the session keys of the LAST completed attempt whose MIC verifies under the network's
    PMK; the access point stays known and the capturer stays drained. -/
theorem keys_after_valid_history (ip : InnerParser) (aes : Bytes → BlockFn) (prf : Bytes → Bytes → Bytes)
    (micf : Bool → Bytes → Bytes → Bytes) (k kk : AddrPair) (ap : Addr) (ssid pmk : Bytes) (ps : List Parsed)
    (st : Wpa2State) (t' : Track) (hdr : st.cap.completed = []) (hap : lookup st.aps ap = some (ssid, pmk))
    (ht : ({} : Track).runDec k kk ap ps = some t') (hq : ∀ p ∈ ps, p.castOk) :
    ∃ st', st.run ip aes prf micf ps = some st' ∧
      lookup st'.keys kk = expectedKeys prf micf k pmk (lookup st.keys kk) t'.completed ∧
      st'.cap.completed = [] ∧ lookup st'.aps ap = some (ssid, pmk) ∧ phaseEntry t'.phase (st'.cap.entry k) := by
  have inv : DecInv prf micf k kk ap ssid pmk (lookup st.keys kk) st {} := ⟨hdr, hap, rfl, trivial⟩
  obtain ⟨st', h1, inv'⟩ := decrypter_run_valid ip aes prf micf k kk ap ssid pmk _ ps st {} t' inv ht hq
  exact ⟨st', h1, inv'.keys, inv'.drained, inv'.apKnown, inv'.entry⟩

/-- **… the PTK of the last completed attempt.** If the last attempt the history completes verifies, the entry holds
    exactly its keys — whatever came before (earlier complete handshakes of the pair, abandoned attempts, …). -/
theorem keys_are_last_attempt (ip : InnerParser) (aes : Bytes → BlockFn) (prf : Bytes → Bytes → Bytes)
    (micf : Bool → Bytes → Bytes → Bytes) (k kk : AddrPair) (ap : Addr) (ssid pmk : Bytes) (ps : List Parsed)
    (st : Wpa2State) (t' : Track) (hdr : st.cap.completed = []) (hap : lookup st.aps ap = some (ssid, pmk))
    (ht : ({} : Track).runDec k kk ap ps = some t') (hq : ∀ p ∈ ps, p.castOk)
    (cs : List Attempt) (last : Attempt) (hcs : t'.completed = cs ++ [last]) (key : SessionKeys)
    (hd : deriveKeys prf micf (last.handshake k) pmk = some key) :
    ∃ st', st.run ip aes prf micf ps = some st' ∧ lookup st'.keys kk = some key := by
  obtain ⟨st', h1, h2, _⟩ := keys_after_valid_history ip aes prf micf k kk ap ssid pmk ps st t' hdr hap ht hq
  exact ⟨st', h1, by rw [h2, hcs]; exact expectedKeys_last prf micf k pmk _ cs last key hd⟩

/-- message 4 travels from the station to its access point (to-DS, addr3 = addr1): for such a frame the capturer's
    pair is the key-table entry `extract_addr_pair` names and `find_ap` looks up addr1 — the side conditions the
    history grammar puts on a message 4 hold for every real one -/
theorem m4_pair_is_key_entry (h : Hdr) (h1 : h.toDS = true) (h2 : h.fromDS = false) (h3 : h.addr3 = h.addr1) :
    pairOf h = extractAddrPair h ∧ findApAddr h = h.addr1 := pairOf_eq_extract h h1 h2 h3

section HistoryExample
private def exAp : Addr := [2, 0, 0, 0, 0, 1]
private def exSta : Addr := [2, 0, 0, 0, 0, 9]
private def exFrame (toAp : Bool) (info0 info1 nonceByte : UInt8) : Parsed :=
  let hdr : Hdr := if toAp then { fc0 := 0x08, fc1 := 0x01, addr1 := exAp, addr2 := exSta, addr3 := exAp, sc0 := 0, sc1 := 0 }
    else { fc0 := 0x08, fc1 := 0x02, addr1 := exSta, addr2 := exAp, addr3 := exAp, sc0 := 0, sc1 := 0 }
  .data ⟨hdr, .snap ⟨0xaa, 0xaa, 3, 0, 0x888e, .eapol ⟨1, 3, 2, [info0, info1] ++ List.replicate 10 0 ++ [nonceByte], [], []⟩⟩⟩
private def exM1 (n : UInt8) := exFrame false 0x00 0x8a n
private def exM2 (n : UInt8) := exFrame true 0x01 0x0a n
private def exM3 (n : UInt8) := exFrame false 0x13 0xca n
private def exM4 := exFrame true 0x03 0x0a 0
private def exHistory : List Parsed :=
  [exM1 1, exM2 2,                                   -- an attempt abandoned after message 2
   exM1 3, exM1 3, exM2 4, exM2 4, exM3 3, exM4,     -- a complete attempt with retransmissions
   .beacon exAp (some [65]), exM4, .notData,           -- a beacon, message 4 again, something else
   exM1 5, exM2 6, exM3 5, exM3 5, exM4]              -- the pair runs the handshake again

/-- non-vacuity of `keys_after_valid_history` / `keys_are_last_attempt`: a history with an abandoned attempt, retransmitted
    messages, an interleaved beacon and a re-handshake is accepted, and completes two attempts -/
example : ((({} : Track).runDec (exAp, exSta) (exAp, exSta) exAp exHistory).map fun t => t.completed.length) = some 2 := by
  decide
end HistoryExample

/-! ## Frame bytes → handshake message fields / SSID: the C09 parsing models are the wire family's

The Wifi wire family (TinsModel/Wire/Wifi) models `RSNEAPOL`, `Dot11Beacon` and the tagged parameters byte for byte
and carries their C01 (no fault), C02 (writes only its header), C03 (re-parse) theorems.  The three theorems below say
that the models used by the handshake / key-learning theorems above are the same functions of the bytes. -/

/-- **RSNEAPOL parsing**: `parseEapol` (what `msgClass`, `Eapol.nonce`, `Eapol.mic`, `keyDescriptor` read from) and
    `Wire.Wifi.Eapol.fromBytes` agree on every byte string -/
theorem rsneapol_parse_is_wire_model (b : Bytes) :
    (b.length < 5 → parseEapol b = .error .malformedPacket ∧ Tins.Wire.Wifi.Eapol.fromBytes b = .throw .malformedPacket) ∧
    (5 ≤ b.length → (b.getD 4 0 = 2 ∨ b.getD 4 0 = 254) →
      (parseEapol b = .error .malformedPacket ∧ Tins.Wire.Wifi.Eapol.fromBytes b = .throw .malformedPacket) ∨
      ∃ r, Tins.Wire.Wifi.Eapol.fromBytes b = .ok (some r) ∧ r.1.rsn = true ∧
        parseEapol b = .ok (some (Tins.CryptoWire.eapolView r))) ∧
    (5 ≤ b.length → b.getD 4 0 ≠ 2 → b.getD 4 0 ≠ 254 →
      parseEapol b = .ok none ∧ (b.getD 4 0 ≠ 1 → Tins.Wire.Wifi.Eapol.fromBytes b = .ok none)) :=
  Tins.CryptoWire.parseEapol_agrees b

/-- **RSNEAPOL serialization** (the bytes the MIC of message 4 is computed over): `Eapol.serialize` is
    `write_serialization` of the wire family followed by the trailing `RawPDU`, whatever the stored length field and
    the previous content of the buffer -/
theorem rsneapol_serialize_is_wire_model (e : Eapol) (hh : e.hdr.length = 94) (l0 l1 : UInt8) (pre : Bytes)
    (hpre : pre.length = 99 + e.key.length) :
    Tins.Wire.Wifi.Eapol.write ⟨true, [e.version, e.packetType, l0, l1, e.descType], e.hdr, e.key⟩ (pre ++ e.trailing) =
      .ok e.serialize :=
  Tins.CryptoWire.serialize_agrees e hh l0 l1 pre hpre

/-- **Dot11Beacon / tagged parameters**: `parseBeacon` yields `addr3()` and the first SSID option of the wire family's
    `Dot11Beacon`, and throws exactly when that constructor throws -/
theorem beacon_parse_is_wire_model (f : Bytes) :
    (∃ d i, Tins.Wire.Wifi.Dot11.parse "Dot11Beacon" f = .ok (d, i) ∧
        parseBeacon f = .ok (.beacon ((d.ext.drop 6).take 6) (Tins.CryptoWire.firstSsid d.opts))) ∨
    (Tins.Wire.Wifi.Dot11.parse "Dot11Beacon" f = .throw .malformedPacket ∧ parseBeacon f = .throw .malformedPacket) :=
  Tins.CryptoWire.parseBeacon_agrees f

/-- **Dot11Data / Dot11QoSData**: for every byte string of frame-control type Data, `parseFrame` yields the header
    fields of the wire family's object (the addresses and DS bits the capturer's pair, `extract_addr_pair` and `find_ap`
    are computed from; QoS control exactly for `Dot11QoSData`) and the payload its constructor hangs below, and throws
    exactly when `Dot11::from_bytes` throws -/
theorem data_header_parse_is_wire_model (ip : InnerParser) (fc0 fc1 : UInt8) (r : Bytes) (hty : (fc0 >>> 2) &&& 3 = 2) :
    (∃ d i, Tins.Wire.Wifi.Dot11.fromBytes (fc0 :: fc1 :: r) = .ok (d, i) ∧
        parseFrame ip (fc0 :: fc1 :: r) = Tins.CryptoWire.frameOf ip (Tins.CryptoWire.dataHdrView d) i) ∨
    (Tins.Wire.Wifi.Dot11.fromBytes (fc0 :: fc1 :: r) = .throw .malformedPacket ∧
        parseFrame ip (fc0 :: fc1 :: r) = Tins.Crypto.Out.throw .malformedPacket) :=
  Tins.CryptoWire.parseFrame_data_agrees ip fc0 fc1 r hty

/-- non-vacuity: a 99-byte RSN EAPOL-Key frame is parsed (by both models) into an object with a 94-byte header -/
example : (parseEapol ([1, 3, 0, 95, 2] ++ List.replicate 94 0)).toOption.bind (·.map (·.hdr.length)) = some 94 := by decide

end Tins.Props.C09
