import TinsModel.Crypto.Wpa2
import TinsModel.Crypto.Spec
import TinsModel.Crypto.LemmasWep
/-
  Property C09 — WEP / TKIP / CCMP decryption recovers exactly the plaintext, safely.
  Theorems only (helper lemmas live in TinsModel/Crypto/Lemmas*.lean).

  Model  : TinsModel/Crypto/{Crc,RC4,Wep,Tkip,Ccmp,Wpa2,Frame}.lean  (code-shaped, src/crypto.cpp)
  Spec   : TinsModel/Crypto/Spec.lean  (encapsulation / decapsulation written from IEEE 802.11)
-/
namespace Tins.Props.C09
open Tins.Crypto

/-! ## Primitives -/

/-- `Utils::crc32` (nibble table, complemented register) is the IEEE 802.3 CRC-32, for every byte string. -/
theorem crc32_is_ieee (d : Bytes) : crc32 d = crc32Spec d := crc32_eq_spec d

example : crc32 [0x31, 0x32, 0x33, 0x34, 0x35, 0x36, 0x37, 0x38, 0x39] = 0xCBF43926#32 := by decide

/-- the RC4 of src/crypto.cpp (wrapping key iterator, in-place XOR) is XOR with the textbook RC4 key stream,
    for every non-empty key and every data. -/
theorem rc4_is_textbook (key d : Bytes) (hkey : key ≠ []) :
    rc4 key d = xorBytes (Spec.rc4Stream key d.length) d :=
  rc4_eq_spec key d (List.length_pos_iff.mpr hkey)

/-- the RC4 stream XOR is an involution (the core of the WEP / TKIP round trip) -/
theorem rc4_involutive (key d : Bytes) : rc4 key (rc4 key d) = d := Tins.Crypto.rc4_involutive key d

/-! ## WEP -/

/-- **Refinement.** For every payload, password and inner parser, `WEPDecrypter::decrypt(RawPDU&, password)`
    returns the LLC/SNAP parse of the specification's decapsulation — null exactly when the body is at most
    8 bytes long, the ICV does not verify or the plaintext is not a well-formed LLC/SNAP payload. -/
theorem wep_refines_spec (ip : InnerParser) (pload pw : Bytes) :
    ∃ p', wepDecryptRaw ip pload pw =
      .ok (if 8 < pload.length then snapResult ip (Spec.wepDecap pw pload) else none, p') := by
  by_cases hn : 8 < pload.length
  · exact ⟨_, by rw [wepDecryptRaw_refines ip pload pw hn, if_pos hn]⟩
  · exact ⟨_, by rw [wepDecryptRaw_short ip pload pw (by omega), if_neg hn]⟩

/-- **Round trip (specification level).** Decapsulation inverts encapsulation: all keys, IVs, key ids, data. -/
theorem wep_spec_roundtrip (key iv : Bytes) (kid : UInt8) (m : Bytes) (hiv : iv.length = 3) :
    Spec.wepDecap key (Spec.wepEncap key iv kid m) = some m := spec_wep_roundtrip key iv kid m hiv

/-- **Round trip.** A frame whose body is the reference WEP encapsulation (any key, any 3-byte IV, any key-id
    byte, any LLC/SNAP payload `m` that parses to `s`) is decrypted to exactly `s` and marked unprotected, for
    every header, once the key is installed under the address `WEPDecrypter` looks up. -/
theorem wep_roundtrip (ip : InnerParser) (pws : WepPasswords) (h : Hdr) (pw iv : Bytes) (kid : UInt8) (m : Bytes)
    (s : Snap) (hiv : iv.length = 3) (hkey : lookup pws (wepLookupAddr h) = some pw) (hs : snapParse ip m = .ok s) :
    wepDecrypt ip pws ⟨h, .raw (Spec.wepEncap pw iv kid m)⟩ = .ok (true, ⟨h.clearWep, .snap s⟩) ∧
    h.clearWep.wep = false := by
  refine ⟨?_, clearWep_wep h⟩
  have hm : 8 ≤ m.length := by
    unfold snapParse at hs
    split at hs
    · simp
    · cases hs
  rw [wepDecrypt_eq]
  simp only [Inner.findRaw, hkey]
  have hlen : 8 < (Spec.wepEncap pw iv kid m).length := by
    unfold Spec.wepEncap; simp [hiv]; omega
  rw [if_pos hlen, spec_wep_roundtrip pw iv kid m hiv]
  simp [snapResult, hs]

/-- **Reject.** If `WEPDecrypter::decrypt` reports a frame as decrypted then the ICV of its body verifies under
    the installed key (the decapsulation succeeds) and the new payload is the parse of exactly that plaintext. -/
theorem wep_reject (ip : InnerParser) (pws : WepPasswords) (fr fr' : Frame)
    (h : wepDecrypt ip pws fr = .ok (true, fr')) :
    ∃ pload pw m s, fr.inner.findRaw = some pload ∧ lookup pws (wepLookupAddr fr.hdr) = some pw ∧
      Spec.wepDecap pw pload = some m ∧ snapParse ip m = .ok s ∧ fr' = ⟨fr.hdr.clearWep, .snap s⟩ := by
  rw [wepDecrypt_eq] at h
  cases hraw : fr.inner.findRaw with
  | none => simp [hraw] at h
  | some pload =>
    cases hk : lookup pws (wepLookupAddr fr.hdr) with
    | none => simp [hraw, hk] at h
    | some pw =>
      simp only [hraw, hk] at h
      by_cases hn : 8 < pload.length
      · rw [if_pos hn] at h
        cases hd : Spec.wepDecap pw pload with
        | none => simp [hd, snapResult] at h
        | some m =>
          cases hs : snapParse ip m with
          | ok s =>
            simp [hd, snapResult, hs] at h
            exact ⟨pload, pw, m, s, rfl, rfl, hd, hs, h.symm⟩
          | throw e => simp [hd, snapResult, hs] at h
          | fault a b c => simp [hd, snapResult, hs] at h
      · rw [if_neg hn] at h; simp at h

/-- **No key, no decryption.** Without a password for the frame's address the frame is left untouched. -/
theorem wep_no_key (ip : InnerParser) (pws : WepPasswords) (fr : Frame)
    (h : lookup pws (wepLookupAddr fr.hdr) = none) : wepDecrypt ip pws fr = .ok (false, fr) := by
  rw [wepDecrypt_eq]
  cases fr.inner.findRaw <;> simp [h]

/-- **Safety.** For every frame, every password table and every inner parser, `WEPDecrypter::decrypt` performs no
    out-of-bounds access and throws nothing: it returns. -/
theorem wep_decrypt_noFault (ip : InnerParser) (pws : WepPasswords) (fr : Frame) :
    ∃ r fr', wepDecrypt ip pws fr = .ok (r, fr') := ⟨_, _, wepDecrypt_eq ip pws fr⟩

/-- non-vacuity: the hypotheses of `wep_roundtrip` are satisfiable (a to-DS frame, 5-byte key under addr1) -/
example : ∃ (h : Hdr) (pws : WepPasswords) (pw m : Bytes) (s : Snap),
    lookup pws (wepLookupAddr h) = some pw ∧ snapParse (fun _ r => .ok (.raw r)) m = .ok s ∧ s.inner = .raw [1, 2] :=
  ⟨{ fc0 := 0x08, fc1 := 0x41, addr1 := [1, 1, 1, 1, 1, 1], addr2 := [2, 2, 2, 2, 2, 2], addr3 := [3, 3, 3, 3, 3, 3],
     sc0 := 0, sc1 := 0 }, [([1, 1, 1, 1, 1, 1], [9, 9, 9, 9, 9])], [9, 9, 9, 9, 9],
   [0xaa, 0xaa, 3, 0, 0, 0, 0x88, 0xb5, 1, 2], ⟨0xaa, 0xaa, 3, 0, 0x88b5, .raw [1, 2]⟩, by decide, by rfl, rfl⟩

end Tins.Props.C09
