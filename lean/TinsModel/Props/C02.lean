import TinsModel.Wire.ChainLemmas
import TinsModel.Wire.L2.Theorems
import TinsModel.Wire.Ip.Theorems
import TinsModel.Wire.Ip6.Theorems
import TinsModel.Wire.Icmp.Theorems
import TinsModel.Wire.Transport.Theorems
import TinsModel.Wire.App.Theorems
import TinsModel.Wire.Wifi.Theorems
/-
  Property C02 — serialization is total, size-exact and layers never overwrite each other.
  Generic theorems over chains of any depth; the per-layer obligation `Wire.WritesOnly` is proved class by class
  in TinsModel/Wire/<Family>/Theorems.lean.
-/
namespace Tins.Props.C02
open Tins Tins.Wire

/-- `serialize()` of any chain whose layers meet `WritesOnly` succeeds and returns exactly `size()` bytes. -/
theorem serialize_total_and_size_exact (ls : List LayerSem) (hall : ∀ l ∈ ls, WritesOnly l) :
    ∃ out, serialize ls = .ok out ∧ out.length = Wire.sizeOf ls :=
  serialize_ok ls hall

/-- The serialization of the sub-chain starting at layer `n` appears unmodified inside the serialization of
    the whole chain, at the offset given by the header sizes above it: no layer overwrites another. -/
theorem layers_never_overwrite (ls : List LayerSem) (hall : ∀ l ∈ ls, WritesOnly l) (n : Nat) (hn : n ≤ ls.length) :
    ∃ out sub, serialize ls = .ok out ∧ serialize (ls.drop n) = .ok sub ∧
      (out.drop (offsetOf ls n)).take (Wire.sizeOf (ls.drop n)) = sub :=
  serialize_subchain ls hall n hn

/-- The same two theorems under the weaker per-layer obligation `ChainOK` (each layer keeps the inner bytes intact on
    the exact region `PDU::serialize` hands it), which is what layers with a trailer (EthernetII/Dot1Q padding, RadioTap
    FCS, RTP padding) can meet. -/
theorem serialize_total_and_size_exact_at (ls : List LayerSem) (hall : ChainOK ls) :
    ∃ out, serialize ls = .ok out ∧ out.length = Wire.sizeOf ls :=
  serialize_ok_at ls hall

theorem layers_never_overwrite_at (ls : List LayerSem) (hall : ChainOK ls) (n : Nat) (hn : n ≤ ls.length) :
    ∃ out sub, serialize ls = .ok out ∧ serialize (ls.drop n) = .ok sub ∧
      (out.drop (offsetOf ls n)).take (Wire.sizeOf (ls.drop n)) = sub :=
  serialize_subchain_at ls hall n hn

/-- non-vacuity: a two-layer chain (8-byte header over a 3-byte payload) meeting the hypotheses -/
example : ∃ out, serialize
    [ { name := "hdr", hdr := 8, trl := 0, write := fun r => writeAtStart r (List.replicate 8 7) },
      { name := "raw", hdr := 3, trl := 0, write := fun r => writeAtStart r [1, 2, 3] } ] = .ok out
    ∧ out = [7, 7, 7, 7, 7, 7, 7, 7, 1, 2, 3] := ⟨_, rfl, rfl⟩

/-- what the monitor hook catches: a layer that writes one byte more than its header clobbers the payload -/
example : serialize
    [ { name := "bad", hdr := 2, trl := 0, write := fun r => writeAtStart r [9, 9, 9] },
      { name := "raw", hdr := 2, trl := 0, write := fun r => writeAtStart r [1, 2] } ] = .ok [9, 9, 9, 2] := rfl

end Tins.Props.C02
