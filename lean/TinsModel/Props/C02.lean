import TinsModel.Wire.ChainLemmas
import TinsModel.Wire.L2.Theorems
import TinsModel.Wire.Ip.Theorems
import TinsModel.Wire.Ip6.Theorems
import TinsModel.Wire.Icmp.Theorems
import TinsModel.Wire.Transport.Theorems
import TinsModel.Wire.App.Theorems
import TinsModel.Wire.Wifi.Theorems
import TinsModel.Wire.RegistryFacts
/-
  Property C02 — serialization is total, size-exact and layers never overwrite each other.
  Generic theorems over chains of any depth; the per-layer obligation `Wire.WritesOnly` is proved class by class
  in TinsModel/Wire/<Family>/Theorems.lean.
-/
namespace Tins.Props.C02
open Tins Tins.Wire

/-- `serialize()` of any chain whose layers meet `WritesOnly` succeeds and returns exactly `size()` bytes. -/
theorem serialize_total_and_size_exact (ls : List LayerSem) (hall : ∀ l ∈ ls, WritesOnly l) :
    ∃ out, serialize ls = .ok out ∧ out.length = Wire.sizeOf ls :=
  serialize_ok ls hall

/-- The serialization of the sub-chain starting at layer `n` appears unmodified inside the serialization of
    the whole chain, at the offset given by the header sizes above it: no layer overwrites another. -/
theorem layers_never_overwrite (ls : List LayerSem) (hall : ∀ l ∈ ls, WritesOnly l) (n : Nat) (hn : n ≤ ls.length) :
    ∃ out sub, serialize ls = .ok out ∧ serialize (ls.drop n) = .ok sub ∧
      (out.drop (offsetOf ls n)).take (Wire.sizeOf (ls.drop n)) = sub :=
  serialize_subchain ls hall n hn

/-- The same two theorems under the weaker per-layer obligation `ChainOK` (each layer keeps the inner bytes intact on
    the exact region `PDU::serialize` hands it), which is what layers with a trailer (EthernetII/Dot1Q padding, RadioTap
    FCS, RTP padding) can meet. -/
theorem serialize_total_and_size_exact_at (ls : List LayerSem) (hall : ChainOK ls) :
    ∃ out, serialize ls = .ok out ∧ out.length = Wire.sizeOf ls :=
  serialize_ok_at ls hall

theorem layers_never_overwrite_at (ls : List LayerSem) (hall : ChainOK ls) (n : Nat) (hn : n ≤ ls.length) :
    ∃ out sub, serialize ls = .ok out ∧ serialize (ls.drop n) = .ok sub ∧
      (out.drop (offsetOf ls n)).take (Wire.sizeOf (ls.drop n)) = sub :=
  serialize_subchain_at ls hall n hn

/-- **parsed_packet_serializes** — C02 for every packet obtained by parsing, with no hypothesis about the layers left: if
    libtins accepts a byte string (of a length a `uint32_t` can hold) as a stack of layers of any of the seven modelled
    families, and the stack contains neither capture pseudo-header (PPI, PKTAP: documented as not serializable), then
    `serialize()` succeeds and returns exactly `size()` bytes = Σ (header + trailer sizes). -/
theorem parsed_packet_serializes (cls : String) (b : Bytes) (os : List AnyObj) (hb : b.length < 4294967296)
    (h : parseChain (b.length + 2) cls b = .ok os) (hn : ∀ o ∈ os, NotPseudo o) :
    ∃ out, serializeObjs os = .ok out ∧ out.length = Wire.sizeOf (sems os) :=
  Wire.parsed_packet_serializes cls b os hb h hn

/-- … and each layer writes only inside its own header and trailer: the serialization of every sub-chain appears
    unmodified at the offset given by the header sizes of the layers above it. -/
theorem parsed_packet_layers_never_overwrite (cls : String) (b : Bytes) (os : List AnyObj) (hb : b.length < 4294967296)
    (h : parseChain (b.length + 2) cls b = .ok os) (hn : ∀ o ∈ os, NotPseudo o) (n : Nat) (hlen : n ≤ (sems os).length) :
    ∃ out sub, serializeObjs os = .ok out ∧ serialize ((sems os).drop n) = .ok sub ∧
      (out.drop (offsetOf (sems os) n)).take (Wire.sizeOf ((sems os).drop n)) = sub :=
  Wire.parsed_packet_layers_never_overwrite cls b os hb h hn n hlen

/-- **built_packet_serializes** — the same for packets assembled through the public API: every public constructor
    establishes, and every modelled API call preserves, the class invariant (`<fam>_mk_inv`, `<fam>_apply_inv`); any stack
    of such layers that are serializable (option areas within what the length fields can express) serializes totally,
    size-exactly and without any layer overwriting another. -/
theorem built_packet_serializes (os : List AnyObj) (h : ∀ o ∈ os, registryPreds.Inv o ∧ registryPreds.Ser o) :
    ∃ out, serializeObjs os = .ok out ∧ out.length = Wire.sizeOf (sems os) :=
  Wire.built_packet_serializes os h

theorem built_packet_layers_never_overwrite (os : List AnyObj) (h : ∀ o ∈ os, registryPreds.Inv o ∧ registryPreds.Ser o)
    (n : Nat) (hlen : n ≤ (sems os).length) :
    ∃ out sub, serializeObjs os = .ok out ∧ serialize ((sems os).drop n) = .ok sub ∧
      (out.drop (offsetOf (sems os) n)).take (Wire.sizeOf ((sems os).drop n)) = sub :=
  Wire.built_packet_layers_never_overwrite os h n hlen

/-- non-vacuity of `parsed_packet_serializes`: an accepted Ethernet / IPv4 / UDP packet, its serialization is the input -/
example : ∃ os, parseChain 64 "EthernetII"
    ([1, 2, 3, 4, 5, 6, 7, 8, 9, 10, 11, 12, 0x08, 0x00] ++
     [0x45, 0, 0, 31, 0, 0, 0, 0, 64, 17, 0x66, 0xcc, 10, 0, 0, 1, 10, 0, 0, 2] ++
     [0, 53, 0, 53, 0, 11, 0xe9, 0x6a, 1, 2, 3]) = .ok os ∧ (∀ o ∈ os, NotPseudo o) ∧ os.length = 4 := by
  refine ⟨_, rfl, ?_, rfl⟩
  intro o ho
  simp only [List.mem_cons, List.mem_nil_iff, or_false] at ho
  rcases ho with rfl | rfl | rfl | rfl <;> exact ⟨by decide, by decide⟩

/-- non-vacuity: a two-layer chain (8-byte header over a 3-byte payload) meeting the hypotheses -/
example : ∃ out, serialize
    [ { name := "hdr", hdr := 8, trl := 0, write := fun r => writeAtStart r (List.replicate 8 7) },
      { name := "raw", hdr := 3, trl := 0, write := fun r => writeAtStart r [1, 2, 3] } ] = .ok out
    ∧ out = [7, 7, 7, 7, 7, 7, 7, 7, 1, 2, 3] := ⟨_, rfl, rfl⟩

/-- what the monitor hook catches: a layer that writes one byte more than its header clobbers the payload -/
example : serialize
    [ { name := "bad", hdr := 2, trl := 0, write := fun r => writeAtStart r [9, 9, 9] },
      { name := "raw", hdr := 2, trl := 0, write := fun r => writeAtStart r [1, 2] } ] = .ok [9, 9, 9, 2] := rfl

end Tins.Props.C02
