import TinsModel.Reassembly.Independence
/-
  Property C08 — IPv4 fragment reassembly reconstructs the original datagram.

  Statements only; the helper lemmas live in TinsModel/Reassembly/*.  Vocabulary (TinsModel/Reassembly/Spec.lean):
  `DG` = original datagram + the partition chosen by the fragmenting router; `Family F` = well-formed datagrams
  (payload 1..65515, ≥ 2 non-empty pieces cut at multiples of 8) with pairwise different (id, src, dst, protocol);
  `Ev` = events of a capture (a copy of a piece of a datagram, a non-fragment packet, clear_streams, remove_stream);
  `runModel` = the code-shaped model of `IPv4Reassembler` run over a history, `runRef` = the reference reassembler
  that knows which datagram every fragment belongs to; `modelObs parse pre ev` = what the model reports for event `ev`
  after history `pre` (`runModel_append`).  Every theorem holds for every upper-layer parser `parse`.
-/
namespace Tins.Props.C08
open Tins Tins.Reasm

/-! ### the stream level: IPv4Stream -/

/-- `frag_invariant`: `add_fragment` keeps the stream equal to the image of "the set of distinct pieces received":
    fragments sorted by offset, one per distinct piece, duplicates ignored, `received_size_` = sum of their sizes,
    `total_size_`/`received_end_` set exactly when the last piece is held, first header captured from piece 0. -/
theorem frag_invariant {d : DG} (w : d.wf) (e : Ep) {p : Nat × Nat} (hp : p ∈ d.pieces) (ttl : Nat) :
    addFragment (absStream d e) (fragPkt d p ttl).hdr (slice d.payload p.1 p.2) =
      absStream d (e.add p (fragPkt d p ttl).hdr) :=
  addFragment_abs w e hp ttl

/-- `complete_iff_all`: `is_complete` (last fragment seen, byte counts equal, first offset 0) holds exactly when
    every piece of the partition is held — duplicates cannot mask a hole. -/
theorem complete_iff_all {d : DG} (w : d.wf) (e : Ep) :
    isComplete (absStream d e) = true ↔ ∀ q ∈ d.pieces, q ∈ e.got := by
  rw [isComplete_abs w e]
  simp [DG.complete, List.all_eq_true]

/-- `reassembled_payload`: when every piece is held (and the remembered first header is as long as the datagram's:
    `EpInv`, an invariant of every reachable state), the size check and the contiguity re-check of `allocate_pdu`
    pass and the concatenated buffer is the original payload, byte for byte. -/
theorem reassembled_payload {d : DG} (w : d.wf) (e : Ep) (hall : ∀ q ∈ d.pieces, q ∈ e.got)
    (hfirst : hdrSize (e.first.getD {}) = hdrSize d.hdr) :
    allocBuf (absStream d e) = some d.payload :=
  allocBuf_abs w e (by simpa [DG.complete, List.all_eq_true] using hall) hfirst

/-! ### the reassembler over whole capture histories -/

/-- **Main theorem.** For every capture history inside the hypothesis of the property — any family of datagrams with
    pairwise different keys, any partitions, any arrival order, any duplicates (also after completion), any
    interleaving, unfragmented / non-IP packets, `clear_streams`, `remove_stream` in between — the model of
    `IPv4Reassembler` reports exactly what the reference reassembler reports: same status for every packet, same
    packet left behind, same number of open reassemblies. -/
theorem model_refines_reference (parse : UpperParse) (F : List DG) (hF : Family F) (evs : List Ev)
    (hev : ∀ e ∈ evs, e.ok F) : runModel parse evs = runRef parse evs :=
  (run_refines hF parse evs hev [] (SInv_nil F)).1

/-- `reassembled` (or the parser's exception) is reported exactly for the arrival that makes the set of distinct
    pieces received since the last completion of that datagram complete; every other fragment is `fragmented`. -/
theorem status_iff_completes (parse : UpperParse) (F : List DG) (hF : Family F) (pre : List Ev)
    (hpre : ∀ e ∈ pre, e.ok F) (d : DG) (hd : d ∈ F) (p : Nat × Nat) (hp : p ∈ d.pieces) (ttl : Nat) :
    ∃ out pkt', (modelObs parse pre (.frag d p ttl)).res = some (out, pkt') ∧
      (d.complete (((alLookup (finalWith (refStep parse) [] pre) d).getD {}).add p (fragPkt d p ttl).hdr) = true ↔
        (out = .reassembled ∨ out = .throwMalformed)) ∧
      (d.complete (((alLookup (finalWith (refStep parse) [] pre) d).getD {}).add p (fragPkt d p ttl).hdr) = false ↔
        out = .fragmented) := by
  rw [modelObs_eq_refObs hF parse pre hpre (.frag d p ttl) (show Ev.ok F (.frag d p ttl) from ⟨hd, hp⟩)]
  simp only [refObs, refStep]
  rcases refFrag_cases parse (finalWith (refStep parse) [] pre) d p (fragPkt d p ttl) with
    ⟨hc, inner, _, h⟩ | ⟨hc, _, h⟩ | ⟨hc, h⟩ <;> rw [h] <;> simp [hc]

/-- `never_from_incomplete`: when the model reports `reassembled`, a copy of every piece of the datagram has arrived. -/
theorem never_from_incomplete (parse : UpperParse) (F : List DG) (hF : Family F) (pre : List Ev)
    (hpre : ∀ e ∈ pre, e.ok F) (d : DG) (hd : d ∈ F) (p : Nat × Nat) (hp : p ∈ d.pieces) (ttl : Nat) (pkt' : Pkt)
    (hres : (modelObs parse pre (.frag d p ttl)).res = some (.reassembled, pkt')) :
    ∀ q ∈ d.pieces, ∃ t, Ev.frag d q t ∈ pre ++ [.frag d p ttl] := by
  rw [modelObs_eq_refObs hF parse pre hpre (.frag d p ttl) (show Ev.ok F (.frag d p ttl) from ⟨hd, hp⟩)] at hres
  simp only [refObs, refStep] at hres
  have harr := (arrived_final parse pre).add d p ttl
  rcases refFrag_cases parse (finalWith (refStep parse) [] pre) d p (fragPkt d p ttl) with
    ⟨hc, _, _, _⟩ | ⟨_, _, h⟩ | ⟨_, h⟩
  · intro q hq
    have hall : ∀ x ∈ d.pieces,
        x ∈ (((alLookup (finalWith (refStep parse) [] pre) d).getD {}).add p (fragPkt d p ttl).hdr).got := by
      simpa [DG.complete, List.all_eq_true] using hc
    exact harr.1 q (hall q hq)
  · rw [h] at hres; simp at hres
  · rw [h] at hres; simp at hres

/-- `reassembled_is_original`: the packet left behind by `reassembled` has the header of an arrived copy of the first
    fragment (piece at offset 0) with fragment offset and more-fragments cleared and everything else — DF, TTL, TOS,
    options — kept, over the **original** payload parsed as the upper-layer protocol. -/
theorem reassembled_is_original (parse : UpperParse) (F : List DG) (hF : Family F) (pre : List Ev)
    (hpre : ∀ e ∈ pre, e.ok F) (d : DG) (hd : d ∈ F) (p : Nat × Nat) (hp : p ∈ d.pieces) (ttl : Nat) (pkt' : Pkt)
    (hres : (modelObs parse pre (.frag d p ttl)).res = some (.reassembled, pkt')) :
    ∃ q t inner, q ∈ d.pieces ∧ q.1 = 0 ∧ Ev.frag d q t ∈ pre ++ [.frag d p ttl] ∧
      parse d.hdr.proto d.payload = some inner ∧
      pkt' = { hasIP := true, hdr := resultHdr (fragPkt d q t).hdr, inner := inner } ∧
      (resultHdr (fragPkt d q t).hdr).off = 0 ∧ (resultHdr (fragPkt d q t).hdr).flags = d.hdr.flags := by
  have w := hF.wf d hd
  rw [modelObs_eq_refObs hF parse pre hpre (.frag d p ttl) (show Ev.ok F (.frag d p ttl) from ⟨hd, hp⟩)] at hres
  simp only [refObs, refStep] at hres
  have harr := (arrived_final parse pre).add d p ttl
  rcases refFrag_cases parse (finalWith (refStep parse) [] pre) d p (fragPkt d p ttl) with
    ⟨hc, inner, hparse, h⟩ | ⟨_, _, h⟩ | ⟨_, h⟩
  · rw [h] at hres
    simp only [Option.some.injEq, Prod.mk.injEq, true_and] at hres
    obtain ⟨q0, hq0, hz⟩ := complete_has_zero w hc
    -- the remembered header is the header of an arrived copy of piece 0
    have hinv := (run_refines hF parse pre hpre [] (SInv_nil F)).2.2
    obtain ⟨hh, hfh, _⟩ := EpInv_lookup_add hinv d p ttl ⟨q0, hq0, hz⟩
    obtain ⟨q, t, hq1, hhe, hmem⟩ := harr.2 hh hfh
    have hqp : q ∈ d.pieces := by
      rcases List.mem_append.mp hmem with hm | hm
      · exact (hpre _ hm).2
      · simp only [List.mem_singleton, Ev.frag.injEq] at hm; rw [hm.2.1]; exact hp
    refine ⟨q, t, inner, hqp, hq1, hmem, hparse, ?_, rfl, ?_⟩
    · rw [← hres, hfh, hhe]; rfl
    · have hlt := w.first_not_last hqp hq1
      have := w.mf0
      simp only [resultHdr, fragPkt, mkFragPkt, hlt, decide_true, if_true]
      omega
  · rw [h] at hres; simp at hres
  · rw [h] at hres; simp at hres

/-- every fragment that does not complete its datagram is left exactly as it was handed in -/
theorem untouched_unless_reassembled (parse : UpperParse) (F : List DG) (hF : Family F) (pre : List Ev)
    (hpre : ∀ e ∈ pre, e.ok F) (d : DG) (hd : d ∈ F) (p : Nat × Nat) (hp : p ∈ d.pieces) (ttl : Nat)
    (out : Out) (pkt' : Pkt) (hres : (modelObs parse pre (.frag d p ttl)).res = some (out, pkt'))
    (hne : out ≠ .reassembled) : pkt' = fragPkt d p ttl := by
  rw [modelObs_eq_refObs hF parse pre hpre (.frag d p ttl) (show Ev.ok F (.frag d p ttl) from ⟨hd, hp⟩)] at hres
  simp only [refObs, refStep] at hres
  rcases refFrag_cases parse (finalWith (refStep parse) [] pre) d p (fragPkt d p ttl) with
    ⟨_, inner, _, h⟩ | ⟨_, _, h⟩ | ⟨_, h⟩ <;> rw [h] at hres <;>
    simp only [Option.some.injEq, Prod.mk.injEq] at hres
  · exact absurd hres.1.symm hne
  · exact hres.2.symm
  · exact hres.2.symm

/-- whatever is not a fragment (no IP layer, no payload, offset 0 without more-fragments) is reported
    `NOT_FRAGMENTED` and left untouched, after any history whatsoever -/
theorem not_fragment_untouched (parse : UpperParse) (pre : List Ev) (pkt : Pkt) (h : notFrag pkt = true) :
    (modelObs parse pre (.other pkt)).res = some (.notFragmented, pkt) := by
  simp only [modelObs, modelStep, process_other parse _ pkt h]

/-- `interleave_independent`: what is reported for a fragment of `d` does not depend on the fragments of other
    datagrams (different identification, address pair or protocol) and on the unfragmented packets it is interleaved
    with: it is what would be reported had only `d`'s own fragments (and the clear / remove calls) been seen. -/
theorem interleave_independent (parse : UpperParse) (F : List DG) (hF : Family F) (pre : List Ev)
    (hpre : ∀ e ∈ pre, e.ok F) (d : DG) (hd : d ∈ F) (p : Nat × Nat) (hp : p ∈ d.pieces) (ttl : Nat) :
    (modelObs parse pre (.frag d p ttl)).res = (modelObs parse (proj d pre) (.frag d p ttl)).res := by
  have hok : Ev.ok F (.frag d p ttl) := ⟨hd, hp⟩
  have hproj : ∀ e ∈ proj d pre, e.ok F := fun e he => hpre e (List.mem_filter.mp he).1
  rw [modelObs_eq_refObs hF parse pre hpre _ hok, modelObs_eq_refObs hF parse (proj d pre) hproj _ hok]
  have hl := final_lookup_proj parse d pre [] [] rfl
  have := refFrag_res_of_lookup parse _ _ d p (fragPkt d p ttl) hl
  simp only [refObs, refStep, this]

/-- `no_datagram_from_holes` (no hypothesis at all: hostile, overlapping, lying fragments included): whenever the model
    reports `reassembled`, the stream it was built from was complete by byte count **and** its stored fragments tile
    `[0, …)` without hole or overlap, and the packet's payload is the parse of exactly their concatenation. -/
theorem no_datagram_from_holes (parse : UpperParse) (r r' : Streams) (p p' : Pkt)
    (h : process parse r p = (r', p', .reassembled)) :
    ∃ s : Stream, isComplete s = true ∧ contiguous 0 s.frags ∧
      parse s.first.proto (s.frags.map (·.payload)).flatten = some p'.inner := by
  unfold process at h
  split at h
  · split at h
    · dsimp only at h
      split at h
      · split at h
        · simp at h
        · rename_i hs' _ buf hbuf
          split at h
          · simp at h
          · rename_i inner hparse
            simp only [Prod.mk.injEq] at h
            have hbuf := ((allocBuf_some_iff _ buf).mp hbuf).2
            have hb := (allocLoop_some_iff 0 [] _ buf).mp hbuf
            refine ⟨_, hs', hb.1, ?_⟩
            rw [← h.2.1]
            simpa [hb.2] using hparse
      · simp at h
    · simp at h
  · simp at h

/-! ### extension beyond the property's hypothesis: a key re-used by a later datagram (known finding KF-C08-1) -/

/-- Wished: the model also refines the reference when datagrams share a key but do not overlap in time (`seqOK`:
    the later one starts after the earlier one was completed; late duplicates of the earlier one may still arrive
    before that).  libtins has no expiry of streams, so a late duplicate stays in `streams_` for ever and is merged
    into the next datagram with that key. -/
def key_reuse_refines : Prop :=
  ∀ (parse : UpperParse) (evs : List Ev), (∀ e ∈ evs, e.wfOnly) → seqOK parse {} evs = true →
    runModel parse evs = runRef parse evs

def kfOld : DG :=
  { hdr := { id := 7, src := 1, dst := 2, proto := 253 }, payload := (List.range 16).map Nat.toUInt8, lens := [8, 8] }
def kfNew : DG :=
  { hdr := { id := 7, src := 1, dst := 2, proto := 253 }, payload := (List.range 16).map (fun i => (i + 100).toUInt8),
    lens := [8, 8] }
/-- the old datagram completes, a late duplicate of its second piece arrives, the key is re-used -/
def kfEvs : List Ev :=
  [.frag kfOld (0, 8) 64, .frag kfOld (8, 8) 64, .frag kfOld (8, 8) 64, .frag kfNew (0, 8) 64, .frag kfNew (8, 8) 64]

/-- refutation on a concrete witness (replayed on the real code by checks/C08.py `gen_reuse_case`): the first
    fragment of the new datagram is "reassembled" at once, from an incomplete set, with the old datagram's bytes -/
theorem key_reuse_refines_fails : ¬ key_reuse_refines := by
  intro h
  have := h upperParseConcrete kfEvs (by decide) (by decide)
  revert this
  decide

/-- what is proved of the extension: everything outside the excluded region `keyReused` (two different datagrams
    of the history share a key) -/
theorem key_reuse_refines_partial (parse : UpperParse) (evs : List Ev) (hwf : ∀ e ∈ evs, e.wfOnly)
    (hno : keyReused evs = false) : runModel parse evs = runRef parse evs := by
  apply model_refines_reference parse (dgramsOf evs)
  · constructor
    · intro d hd
      obtain ⟨p, t, h⟩ := mem_dgramsOf.mp hd
      exact (hwf _ h).1
    · intro d hd d' hd' hk
      apply Classical.byContradiction
      intro hne
      have : keyReused evs = true := by
        simp only [keyReused, List.any_eq_true]
        exact ⟨d, hd, d', hd', by simp [hk, hne]⟩
      rw [hno] at this; exact absurd this (by simp)
  · intro e he
    cases e with
    | frag d p t => exact ⟨mem_dgramsOf.mpr ⟨p, t, he⟩, (hwf _ he).2⟩
    | other pkt => exact hwf _ he
    | clear => trivial
    | remove a b c => trivial

/-! ### non-vacuity: the hypotheses are satisfiable by non-trivial histories -/

def exA : DG :=
  { hdr := { id := 7, src := 0x0A000001, dst := 0x0A000002, proto := 253, flags := 2, nopt := 1 },
    payload := (List.range 24).map Nat.toUInt8, lens := [8, 8, 8] }
/-- same identification, opposite direction -/
def exB : DG :=
  { hdr := { id := 7, src := 0x0A000002, dst := 0x0A000001, proto := 253 },
    payload := (List.range 24).map (fun i => (200 - i).toUInt8), lens := [16, 8] }
def exF : List DG := [exA, exB]
def exEvs : List Ev :=
  [.frag exA (16, 8) 9, .frag exB (0, 16) 1, .frag exA (0, 8) 10, .frag exA (0, 8) 11,
   .other { hasIP := false, hdr := {}, inner := .none }, .frag exA (8, 8) 12, .frag exA (8, 8) 13, .frag exB (16, 8) 2]

example : Family exF := ⟨by decide, by decide⟩
example : ∀ e ∈ exEvs, e.ok exF := by decide
/-- last fragment first, duplicates before and after completion, two interleaved datagrams that differ in direction only -/
example : (runModel upperParseConcrete exEvs).map (fun o => (o.res.map (·.1), o.streams)) =
    [(some .fragmented, 1), (some .fragmented, 2), (some .fragmented, 2), (some .fragmented, 2),
     (some .notFragmented, 2), (some .reassembled, 1), (some .fragmented, 2), (some .reassembled, 1)] := by decide
example : ∀ e ∈ kfEvs, e.wfOnly := by decide
example : seqOK upperParseConcrete {} kfEvs = true := by decide
example : keyReused exEvs = false := by decide
example : exA.wf ∧ exA.complete { got := [(8, 8), (0, 8), (16, 8)] } = true := by decide

end Tins.Props.C08
