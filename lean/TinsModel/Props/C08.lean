import TinsModel.Reassembly.PolicyRefine
/-
  Property C08 — IPv4 fragment reassembly reconstructs the original datagram.

  Statements only; the helper lemmas live in TinsModel/Reassembly/*.  Vocabulary (TinsModel/Reassembly/Spec.lean):
  `DG` = original datagram + the partition chosen by the fragmenting router; `Family F` = well-formed datagrams
  (payload 1..65515, ≥ 2 non-empty pieces cut at multiples of 8) with pairwise different (id, src, dst, protocol);
  `Ev` = events of a capture (a copy of a piece of a datagram, a non-fragment packet, clear_streams, remove_stream);
  `runModel` = the code-shaped model of `IPv4Reassembler` run over a history, `runRef` = the reference reassembler
  that knows which datagram every fragment belongs to; `modelObs parse pre ev` = what the model reports for event `ev`
  after history `pre` (`runModel_append`).  Every theorem holds for every upper-layer parser `parse`.
-/
namespace Tins.Props.C08
open Tins Tins.Reasm

/-! ### the stream level: IPv4Stream -/

/-- `frag_invariant`: `add_fragment` keeps the stream equal to the image of "the set of distinct pieces received":
    fragments sorted by offset, one per distinct piece, duplicates ignored, `received_size_` = sum of their sizes,
    `total_size_`/`received_end_` set exactly when the last piece is held, first header captured from piece 0. -/
theorem frag_invariant {d : DG} (w : d.wf) (e : Ep) {p : Nat × Nat} (hp : p ∈ d.pieces) (ttl : Nat) :
    addFragment (absStream d e) (fragPkt d p ttl).hdr (slice d.payload p.1 p.2) =
      absStream d (e.add p (fragPkt d p ttl).hdr) :=
  addFragment_abs w e hp ttl

/-- `complete_iff_all`: `is_complete` (last fragment seen, byte counts equal, first offset 0) holds exactly when
    every piece of the partition is held — duplicates cannot mask a hole. -/
theorem complete_iff_all {d : DG} (w : d.wf) (e : Ep) :
    isComplete (absStream d e) = true ↔ ∀ q ∈ d.pieces, q ∈ e.got := by
  rw [isComplete_abs w e]
  simp [DG.complete, List.all_eq_true]

/-- `reassembled_payload`: when every piece is held (and the remembered first header is as long as the datagram's:
    `EpInv`, an invariant of every reachable state), the size check and the contiguity re-check of `allocate_pdu`
    pass and the concatenated buffer is the original payload, byte for byte. -/
theorem reassembled_payload {d : DG} (w : d.wf) (e : Ep) (hall : ∀ q ∈ d.pieces, q ∈ e.got)
    (hfirst : hdrSize (e.first.getD {}) = hdrSize d.hdr) :
    allocBuf (absStream d e) = some d.payload :=
  allocBuf_abs w e (by simpa [DG.complete, List.all_eq_true] using hall) hfirst

/-! ### the reassembler over whole capture histories -/

/-- **Main theorem.** For every capture history inside the hypothesis of the property — any family of datagrams with
    pairwise different keys, any partitions, any arrival order, any duplicates (also after completion), any
    interleaving, unfragmented / non-IP packets, `clear_streams`, `remove_stream` in between — the model of
    `IPv4Reassembler` reports exactly what the reference reassembler reports: same status for every packet, same
    packet left behind, same number of open reassemblies. -/
theorem model_refines_reference (parse : UpperParse) (F : List DG) (hF : Family F) (evs : List Ev)
    (hev : ∀ e ∈ evs, e.ok F) : runModel parse evs = runRef parse evs :=
  (run_refines hF parse evs hev [] (SInv_nil F)).1

/-- `reassembled` (or the parser's exception) is reported exactly for the arrival that makes the set of distinct
    pieces received since the last completion of that datagram complete; every other fragment is `fragmented`. -/
theorem status_iff_completes (parse : UpperParse) (F : List DG) (hF : Family F) (pre : List Ev)
    (hpre : ∀ e ∈ pre, e.ok F) (d : DG) (hd : d ∈ F) (p : Nat × Nat) (hp : p ∈ d.pieces) (ttl : Nat) :
    ∃ out pkt', (modelObs parse pre (.frag d p ttl)).res = some (out, pkt') ∧
      (d.complete (((alLookup (finalWith (refStep parse) [] pre) d).getD {}).add p (fragPkt d p ttl).hdr) = true ↔
        (out = .reassembled ∨ out = .throwMalformed)) ∧
      (d.complete (((alLookup (finalWith (refStep parse) [] pre) d).getD {}).add p (fragPkt d p ttl).hdr) = false ↔
        out = .fragmented) := by
  rw [modelObs_eq_refObs hF parse pre hpre (.frag d p ttl) (show Ev.ok F (.frag d p ttl) from ⟨hd, hp⟩)]
  simp only [refObs, refStep]
  rcases refFrag_cases parse (finalWith (refStep parse) [] pre) d p (fragPkt d p ttl) with
    ⟨hc, inner, _, h⟩ | ⟨hc, _, h⟩ | ⟨hc, h⟩ <;> rw [h] <;> simp [hc]

/-- `never_from_incomplete`: when the model reports `reassembled`, a copy of every piece of the datagram has arrived. -/
theorem never_from_incomplete (parse : UpperParse) (F : List DG) (hF : Family F) (pre : List Ev)
    (hpre : ∀ e ∈ pre, e.ok F) (d : DG) (hd : d ∈ F) (p : Nat × Nat) (hp : p ∈ d.pieces) (ttl : Nat) (pkt' : Pkt)
    (hres : (modelObs parse pre (.frag d p ttl)).res = some (.reassembled, pkt')) :
    ∀ q ∈ d.pieces, ∃ t, Ev.frag d q t ∈ pre ++ [.frag d p ttl] := by
  rw [modelObs_eq_refObs hF parse pre hpre (.frag d p ttl) (show Ev.ok F (.frag d p ttl) from ⟨hd, hp⟩)] at hres
  simp only [refObs, refStep] at hres
  have harr := (arrived_final parse pre).add d p ttl
  rcases refFrag_cases parse (finalWith (refStep parse) [] pre) d p (fragPkt d p ttl) with
    ⟨hc, _, _, _⟩ | ⟨_, _, h⟩ | ⟨_, h⟩
  · intro q hq
    have hall : ∀ x ∈ d.pieces,
        x ∈ (((alLookup (finalWith (refStep parse) [] pre) d).getD {}).add p (fragPkt d p ttl).hdr).got := by
      simpa [DG.complete, List.all_eq_true] using hc
    exact harr.1 q (hall q hq)
  · rw [h] at hres; simp at hres
  · rw [h] at hres; simp at hres

/-- `reassembled_is_original`: the packet left behind by `reassembled` has the header of an arrived copy of the first
    fragment (piece at offset 0) with fragment offset and more-fragments cleared and everything else — DF, TTL, TOS,
    options — kept, over the **original** payload parsed as the upper-layer protocol. -/
theorem reassembled_is_original (parse : UpperParse) (F : List DG) (hF : Family F) (pre : List Ev)
    (hpre : ∀ e ∈ pre, e.ok F) (d : DG) (hd : d ∈ F) (p : Nat × Nat) (hp : p ∈ d.pieces) (ttl : Nat) (pkt' : Pkt)
    (hres : (modelObs parse pre (.frag d p ttl)).res = some (.reassembled, pkt')) :
    ∃ q t inner, q ∈ d.pieces ∧ q.1 = 0 ∧ Ev.frag d q t ∈ pre ++ [.frag d p ttl] ∧
      parse d.hdr.proto d.payload = some inner ∧
      pkt' = { hasIP := true, hdr := resultHdr (fragPkt d q t).hdr, inner := inner } ∧
      (resultHdr (fragPkt d q t).hdr).off = 0 ∧ (resultHdr (fragPkt d q t).hdr).flags = d.hdr.flags := by
  have w := hF.wf d hd
  rw [modelObs_eq_refObs hF parse pre hpre (.frag d p ttl) (show Ev.ok F (.frag d p ttl) from ⟨hd, hp⟩)] at hres
  simp only [refObs, refStep] at hres
  have harr := (arrived_final parse pre).add d p ttl
  rcases refFrag_cases parse (finalWith (refStep parse) [] pre) d p (fragPkt d p ttl) with
    ⟨hc, inner, hparse, h⟩ | ⟨_, _, h⟩ | ⟨_, h⟩
  · rw [h] at hres
    simp only [Option.some.injEq, Prod.mk.injEq, true_and] at hres
    obtain ⟨q0, hq0, hz⟩ := complete_has_zero w hc
    -- the remembered header is the header of an arrived copy of piece 0
    have hinv := (run_refines hF parse pre hpre [] (SInv_nil F)).2.2
    obtain ⟨hh, hfh, _⟩ := EpInv_lookup_add hinv d p ttl ⟨q0, hq0, hz⟩
    obtain ⟨q, t, hq1, hhe, hmem⟩ := harr.2 hh hfh
    have hqp : q ∈ d.pieces := by
      rcases List.mem_append.mp hmem with hm | hm
      · exact (hpre _ hm).2
      · simp only [List.mem_singleton, Ev.frag.injEq] at hm; rw [hm.2.1]; exact hp
    refine ⟨q, t, inner, hqp, hq1, hmem, hparse, ?_, rfl, ?_⟩
    · rw [← hres, hfh, hhe]; rfl
    · have hlt := w.first_not_last hqp hq1
      have := w.mf0
      simp only [resultHdr, fragPkt, mkFragPkt, hlt, decide_true, if_true]
      omega
  · rw [h] at hres; simp at hres
  · rw [h] at hres; simp at hres

/-- every fragment that does not complete its datagram is left exactly as it was handed in -/
theorem untouched_unless_reassembled (parse : UpperParse) (F : List DG) (hF : Family F) (pre : List Ev)
    (hpre : ∀ e ∈ pre, e.ok F) (d : DG) (hd : d ∈ F) (p : Nat × Nat) (hp : p ∈ d.pieces) (ttl : Nat)
    (out : Out) (pkt' : Pkt) (hres : (modelObs parse pre (.frag d p ttl)).res = some (out, pkt'))
    (hne : out ≠ .reassembled) : pkt' = fragPkt d p ttl := by
  rw [modelObs_eq_refObs hF parse pre hpre (.frag d p ttl) (show Ev.ok F (.frag d p ttl) from ⟨hd, hp⟩)] at hres
  simp only [refObs, refStep] at hres
  rcases refFrag_cases parse (finalWith (refStep parse) [] pre) d p (fragPkt d p ttl) with
    ⟨_, inner, _, h⟩ | ⟨_, _, h⟩ | ⟨_, h⟩ <;> rw [h] at hres <;>
    simp only [Option.some.injEq, Prod.mk.injEq] at hres
  · exact absurd hres.1.symm hne
  · exact hres.2.symm
  · exact hres.2.symm

/-- whatever is not a fragment (no IP layer, no payload, offset 0 without more-fragments) is reported
    `NOT_FRAGMENTED` and left untouched, after any history whatsoever -/
theorem not_fragment_untouched (parse : UpperParse) (pre : List Ev) (pkt : Pkt) (h : notFrag pkt = true) :
    (modelObs parse pre (.other pkt)).res = some (.notFragmented, pkt) := by
  simp only [modelObs, modelStep, process_other parse _ pkt h]

/-- `interleave_independent`: what is reported for a fragment of `d` does not depend on the fragments of other
    datagrams (different identification, address pair or protocol) and on the unfragmented packets it is interleaved
    with: it is what would be reported had only `d`'s own fragments (and the clear / remove calls) been seen. -/
theorem interleave_independent (parse : UpperParse) (F : List DG) (hF : Family F) (pre : List Ev)
    (hpre : ∀ e ∈ pre, e.ok F) (d : DG) (hd : d ∈ F) (p : Nat × Nat) (hp : p ∈ d.pieces) (ttl : Nat) :
    (modelObs parse pre (.frag d p ttl)).res = (modelObs parse (proj d pre) (.frag d p ttl)).res := by
  have hok : Ev.ok F (.frag d p ttl) := ⟨hd, hp⟩
  have hproj : ∀ e ∈ proj d pre, e.ok F := fun e he => hpre e (List.mem_filter.mp he).1
  rw [modelObs_eq_refObs hF parse pre hpre _ hok, modelObs_eq_refObs hF parse (proj d pre) hproj _ hok]
  have hl := final_lookup_proj parse d pre [] [] rfl
  have := refFrag_res_of_lookup parse _ _ d p (fragPkt d p ttl) hl
  simp only [refObs, refStep, this]

/-- `no_datagram_from_holes` (no hypothesis at all: hostile, overlapping, lying fragments included): whenever the model
    reports `reassembled`, the stream it was built from was complete by byte count **and** its stored fragments tile
    `[0, …)` without hole or overlap, and the packet's payload is the parse of exactly their concatenation. -/
theorem no_datagram_from_holes (parse : UpperParse) (r r' : Streams) (p p' : Pkt)
    (h : process parse r p = (r', p', .reassembled)) :
    ∃ s : Stream, isComplete s = true ∧ contiguous 0 s.frags ∧
      parse s.first.proto (s.frags.map (·.payload)).flatten = some p'.inner := by
  unfold process at h
  split at h
  · split at h
    · dsimp only at h
      split at h
      · split at h
        · simp at h
        · rename_i hs' _ buf hbuf
          split at h
          · simp at h
          · rename_i inner hparse
            simp only [Prod.mk.injEq] at h
            have hbuf := ((allocBuf_some_iff _ buf).mp hbuf).2
            have hb := (allocLoop_some_iff 0 [] _ buf).mp hbuf
            refine ⟨_, hs', hb.1, ?_⟩
            rw [← h.2.1]
            simpa [hb.2] using hparse
      · simp at h
    · simp at h
  · simp at h

/-! ### ARBITRARY sessions: any packets (overlapping, conflicting, lying), any order

  `Op` = one call on the reassembler (`process` on any packet, `clear_streams`, `remove_stream`); `reach parse ops` = the
  stream table after session `ops` on a fresh reassembler; `Arr ops q` = fragment packet `q` arrived during `ops`;
  `streamAfter r p` = the `IPv4Stream` of `p`'s key after `streams_[key]` and `add_fragment`; `Tiles a b frags` = the
  stored fragments cover `[a, b)` exactly, no gap and no overlap; `ExactCover A k s` = `Tiles 0 total`, every stored
  fragment / the fragment ending at `total` (more-fragments clear) / the remembered first header come from packets that
  arrived with key `k`, and header + total ≤ 65535 (TinsModel/Reassembly/{AllHistories,Safety,Lifetime}.lean). -/

/-- **process_all_cases.**  After every session and on every packet `process` goes one of five ways (`Way`):
    not a fragment → NOT_FRAGMENTED, nothing touched; stored / ignored → FRAGMENTED, packet untouched, stream open;
    byte counts match without an exact cover (or beyond 65535 bytes) → the `corrupt` path: FRAGMENTED, stream erased,
    packet left with the stored first header and no payload; exact cover but the upper-layer parser rejects the
    concatenation → `malformed_packet`, stream erased, packet untouched; exact cover and parsed → REASSEMBLED, stream
    erased.  There is no other status, no other exception and no other effect on the table. -/
theorem process_all_cases (parse : UpperParse) (ops : List Op) (p : Pkt) :
    Way parse ops p (process parse (reach parse ops) p) :=
  process_way parse ops p

/-- **never_from_incomplete, full strength.**  Whatever was fed before (overlapping fragments, several lengths at one
    offset, several "last" fragments, a last fragment that ends before data already held, offsets + lengths beyond
    65535 …): when `process` reports REASSEMBLED, the fragments it used cover `[0, total)` exactly — no gap, no overlap —,
    each is the (offset, payload) of a packet that arrived with this key, the one ending at `total` arrived without
    more-fragments, header + total ≤ 65535, the packet's payload is the parse of exactly their concatenation (`total`
    bytes), its header is the header of the arrived packet stored at offset 0 with offset and more-fragments cleared,
    and the stream is gone. -/
theorem never_from_incomplete_all (parse : UpperParse) (ops : List Op) (p p' : Pkt) (r' : Streams)
    (h : process parse (reach parse ops) p = (r', p', .reassembled)) :
    ∃ s : Stream, s = streamAfter (reach parse ops) p ∧
      ExactCover (Arr (ops ++ [.pkt p])) (makeKey p.hdr) s ∧ s.concat.length = s.total ∧
      parse p.hdr.proto s.concat = some p'.inner ∧
      p'.hdr = { s.first with off := 0, flags := clearMF s.first.flags } ∧ p'.hasIP = p.hasIP ∧
      alLookup r' (makeKey p.hdr) = none := by
  have hw := process_way parse ops p
  rw [h] at hw
  cases hw with
  | done hf hx hlen inner hp => exact ⟨_, rfl, hx, hlen, hp, rfl, rfl, alLookup_erase_self _ _⟩

/-- what "exact cover" means byte by byte: every stored fragment's bytes sit at its offset in the reassembled payload,
    and no two stored fragments share a byte position -/
theorem reassembled_bytes {A : Pkt → Prop} {k : Key} {s : Stream} (hx : ExactCover A k s) :
    (∀ f ∈ s.frags, ∀ j, j < f.payload.length → s.concat[f.off + j]? = f.payload[j]?) ∧
    s.frags.Pairwise (fun f g => f.off + f.payload.length ≤ g.off) :=
  ⟨fun f hf j hj => by simpa [Stream.concat] using hx.tiles.bytes f hf j hj, hx.tiles.disjoint⟩

/-- **the only exception** is the upper-layer parser's, and only on an exact cover: `malformed_packet` leaves
    `process` exactly when the fragments cover `[0, total)` exactly and `pdu_from_flag` rejects their concatenation;
    the packet is untouched and the stream is gone (fix KF-C08-5). -/
theorem throws_only_parser_exception (parse : UpperParse) (ops : List Op) (p p' : Pkt) (r' : Streams)
    (h : process parse (reach parse ops) p = (r', p', .throwMalformed)) :
    ExactCover (Arr (ops ++ [.pkt p])) (makeKey p.hdr) (streamAfter (reach parse ops) p) ∧
    parse p.hdr.proto (streamAfter (reach parse ops) p).concat = none ∧ p' = p ∧
    alLookup r' (makeKey p.hdr) = none := by
  have hw := process_way parse ops p
  rw [h] at hw
  cases hw with
  | parserThrows hf hx hlen hp => exact ⟨hx, hp, rfl, alLookup_erase_self _ _⟩

/-- **the `corrupt` path.**  FRAGMENTED is reported in exactly two situations: the packet is untouched and its stream
    is open (stored or ignored), or — `corrupt` — `is_complete` held but the stored fragments do not cover `[0, total)`
    exactly (or header + total > 65535): then the stream is erased and the packet is left with the header of the
    arrived packet stored at offset 0 and **no payload**. -/
theorem fragmented_cases (parse : UpperParse) (ops : List Op) (p p' : Pkt) (r' : Streams)
    (h : process parse (reach parse ops) p = (r', p', .fragmented)) :
    (p' = p ∧ isComplete (streamAfter (reach parse ops) p) = false ∧
      alLookup r' (makeKey p.hdr) = some (streamAfter (reach parse ops) p)) ∨
    (isComplete (streamAfter (reach parse ops) p) = true ∧
      (¬ Tiles 0 (streamAfter (reach parse ops) p).total (streamAfter (reach parse ops) p).frags ∨
        hdrSize (streamAfter (reach parse ops) p).first + (streamAfter (reach parse ops) p).total > 65535) ∧
      (∃ q, Arr (ops ++ [.pkt p]) q ∧ makeKey q.hdr = makeKey p.hdr ∧ extractOffset q.hdr = 0 ∧
        p' = { p with hdr := q.hdr, inner := .none }) ∧
      alLookup r' (makeKey p.hdr) = none) := by
  have hw := process_way parse ops p
  rw [h] at hw
  cases hw with
  | stored hf hc => exact .inl ⟨rfl, hc, alLookup_put_self _ _ _⟩
  | corrupt hf hc hbad hfirst =>
    obtain ⟨q, hq, hk, ho, hfi⟩ := hfirst
    exact .inr ⟨hc, hbad, ⟨q, hq, hk, ho, by rw [hfi]⟩, alLookup_erase_self _ _⟩

/-- **no fault.**  In every reachable state: the fragment vector `is_complete` looks into is never empty
    (`fragments_.begin()` is dereferenceable), and whenever `is_complete` holds the `first_fragment_` that
    `allocate_pdu` / `process` read was assigned from a packet that arrived with this key at offset 0. -/
theorem no_fault (parse : UpperParse) (ops : List Op) (p : Pkt) (hf : isFragPkt p = true) :
    (streamAfter (reach parse ops) p).frags ≠ [] ∧
    (isComplete (streamAfter (reach parse ops) p) = true →
      ∃ q, Arr (ops ++ [.pkt p]) q ∧ makeKey q.hdr = makeKey p.hdr ∧ extractOffset q.hdr = 0 ∧
        (streamAfter (reach parse ops) p).first = q.hdr) := by
  refine ⟨addFragment_frags_ne _ _ _, fun hc => ?_⟩
  have hs := streamAfter_SWf (fun q (hq : Arr ops q) => hq.snoc (.pkt p)) (reach_TWf parse ops)
    (show Arr (ops ++ [.pkt p]) p from ⟨by simp, hf⟩)
  obtain ⟨q, hq, hk, ho, _, hfi⟩ := complete_has_first hs hc
  exact ⟨q, hq, hk, ho, hfi⟩

/-- every stream of every reachable table: one per key, fragments strictly sorted by offset (so no two share an
    offset), never empty, byte count exact, contents arrived with that key, and **not complete** -/
theorem reachable_table (parse : UpperParse) (ops : List Op) : TWf (Arr ops) (reach parse ops) :=
  reach_TWf parse ops

/-- fragments of different lengths (or contents) at an offset already held: the later one is ignored, whatever it says -/
theorem same_offset_ignored (parse : UpperParse) (ops : List Op) (k : Key) (s : Stream)
    (hs : alLookup (reach parse ops) k = some s) (h : Hdr) (payload : Bytes)
    (hdup : ∃ g ∈ s.frags, g.off = extractOffset h) : addFragment s h payload = s := by
  have hw := ((reach_TWf parse ops).wf _ (alLookup_mem hs)).1
  rw [addFragment_eq, (insFrag_none_iff hw.sorted).mpr hdup]

/-- **interleave_independent, full strength**: any number of keys, arbitrary packets.  Status and packet left behind
    for `p` are what they would be had only the calls that touch `p`'s own key been made (fragment packets with that
    key, `clear_streams`, `remove_stream`); so is the stream of that key. -/
theorem interleave_independent_all (parse : UpperParse) (ops : List Op) (p : Pkt) :
    (process parse (reach parse ops) p).2 = (process parse (reach parse (projKey (makeKey p.hdr) ops)) p).2 ∧
    alLookup (reach parse ops) (makeKey p.hdr) = alLookup (reach parse (projKey (makeKey p.hdr) ops)) (makeKey p.hdr) :=
  ⟨process_snd_of_lookup parse p (reach_lookup_proj parse _ ops), reach_lookup_proj parse _ ops⟩

/-- **model_refines_policy.**  For EVERY session — arbitrary packets, `clear_streams`, `remove_stream`, any order — the
    code-shaped model of `IPv4Reassembler` (sorted fragment vector, running byte counters, contiguity re-check) reports
    exactly what the policy reference of TinsModel/Reassembly/Policy.lean reports (per key: a fragment is accepted
    unless its offset is taken; TDL = end of the most recently accepted fragment without more-fragments; completion is
    attempted when the accepted bytes equal TDL and offset 0 is held; the attempt succeeds iff the accepted fragments
    sorted by offset cover `[0, TDL)` exactly and header + TDL ≤ 65535, otherwise the set is dropped): same status, same
    packet left behind, same number of open streams after every call, and the stream table is the image of the
    reference's state. -/
theorem model_refines_policy (parse : UpperParse) (ops : List Op) :
    sessionOut parse [] ops = polOut parse [] ops ∧ reach parse ops = absPState (polReach parse ops) :=
  session_absP parse ops [] [] (by intro x hx; simp at hx) rfl

/-! ### stream table lifetime -/

/-- after ANY session there is at most one open stream per distinct key carried by a fragment packet of the session -/
theorem live_streams_le_distinct_keys (parse : UpperParse) (ops : List Op) :
    (reach parse ops).length ≤ (distinct (fragKeys ops)).length :=
  live_le_distinct_keys parse ops

/-- inside the property's hypothesis the open streams are exactly the datagrams that have, since their last completion
    (or since the start), received at least one but not all of their pieces: datagrams still incomplete, and datagrams
    already completed of which a **late duplicate** arrived -/
theorem live_streams_exact (parse : UpperParse) (F : List DG) (hF : Family F) (evs : List Ev)
    (hev : ∀ e ∈ evs, e.ok F) :
    ∃ σ : RefState, finalWith (modelStep parse) [] evs = absState σ ∧ (σ.map (·.1)).Nodup ∧
      ∀ x ∈ σ, x.1 ∈ F ∧ x.2.got ≠ [] ∧ x.1.complete x.2 = false ∧ (∀ q ∈ x.2.got, ∃ t, Ev.frag x.1 q t ∈ evs) := by
  obtain ⟨_, hfin, hinv⟩ := run_refines hF parse evs hev [] (SInv_nil F)
  have hr := final_RInv parse evs [] RInv_nil
  have ha := arrived_final parse evs
  exact ⟨_, hfin, hr.1, fun x hx => ⟨(hinv x hx).1, (hr.2 x hx).1, (hr.2 x hx).2, (ha x hx).1⟩⟩

/-- **late_duplicate_leaks** (the exact content of known finding KF-C08-1): a copy of a piece of a datagram that has no
    open reassembly — e.g. a duplicate that arrives after the datagram was completed — opens a stream holding that one
    piece, and after ANY continuation that does not concern this datagram (no fragment of it, no `clear_streams`, no
    `remove_stream` of its identification and addresses) the stream is still there.  The interface has no expiry. -/
theorem late_duplicate_leaks (parse : UpperParse) (F : List DG) (hF : Family F) (pre : List Ev)
    (hpre : ∀ e ∈ pre, e.ok F) (d : DG) (hd : d ∈ F) (q : Nat × Nat) (hq : q ∈ d.pieces) (ttl : Nat)
    (hclosed : alLookup (finalWith (refStep parse) [] pre) d = none)
    (post : List Ev) (hpost : ∀ e ∈ post, e.ok F ∧ leavesAlone d e = true) :
    alLookup (finalWith (modelStep parse) [] (pre ++ Ev.frag d q ttl :: post)) (makeKey d.hdr) =
      some (absStream d (({} : Ep).add q (fragPkt d q ttl).hdr)) ∧
    1 ≤ (finalWith (modelStep parse) [] (pre ++ Ev.frag d q ttl :: post)).length := by
  have h := leak_persists hF parse pre hpre d hd q hq ttl hclosed post hpost
  refine ⟨h, ?_⟩
  have := alLookup_mem h
  exact List.length_pos_of_mem this

/-- the hypothesis `hclosed` of `late_duplicate_leaks` holds right after the event that completed the datagram -/
theorem closed_after_completion' (parse : UpperParse) (pre : List Ev) (d : DG) (p : Nat × Nat) (ttl : Nat)
    (h : d.complete (((alLookup (finalWith (refStep parse) [] pre) d).getD {}).add p (fragPkt d p ttl).hdr) = true) :
    alLookup (finalWith (refStep parse) [] (pre ++ [.frag d p ttl])) d = none := by
  rw [finalWith_append]
  exact closed_after_completion parse _ d p ttl h

/-! ### extension beyond the property's hypothesis: a key re-used by a later datagram (known finding KF-C08-1) -/

/-- Wished: the model also refines the reference when datagrams share a key but do not overlap in time (`seqOK`:
    the later one starts after the earlier one was completed; late duplicates of the earlier one may still arrive
    before that).  libtins has no expiry of streams, so a late duplicate stays in `streams_` for ever and is merged
    into the next datagram with that key. -/
def key_reuse_refines : Prop :=
  ∀ (parse : UpperParse) (evs : List Ev), (∀ e ∈ evs, e.wfOnly) → seqOK parse {} evs = true →
    runModel parse evs = runRef parse evs

def kfOld : DG :=
  { hdr := { id := 7, src := 1, dst := 2, proto := 253 }, payload := (List.range 16).map Nat.toUInt8, lens := [8, 8] }
def kfNew : DG :=
  { hdr := { id := 7, src := 1, dst := 2, proto := 253 }, payload := (List.range 16).map (fun i => (i + 100).toUInt8),
    lens := [8, 8] }
/-- the old datagram completes, a late duplicate of its second piece arrives, the key is re-used -/
def kfEvs : List Ev :=
  [.frag kfOld (0, 8) 64, .frag kfOld (8, 8) 64, .frag kfOld (8, 8) 64, .frag kfNew (0, 8) 64, .frag kfNew (8, 8) 64]

/-- refutation on a concrete witness (replayed on the real code by checks/C08.py `gen_reuse_case`): the first
    fragment of the new datagram is "reassembled" at once, from an incomplete set, with the old datagram's bytes -/
theorem key_reuse_refines_fails : ¬ key_reuse_refines := by
  intro h
  have := h upperParseConcrete kfEvs (by decide) (by decide)
  revert this
  decide

/-- what is proved of the extension: everything outside the excluded region `keyReused` (two different datagrams
    of the history share a key) -/
theorem key_reuse_refines_partial (parse : UpperParse) (evs : List Ev) (hwf : ∀ e ∈ evs, e.wfOnly)
    (hno : keyReused evs = false) : runModel parse evs = runRef parse evs := by
  apply model_refines_reference parse (dgramsOf evs)
  · constructor
    · intro d hd
      obtain ⟨p, t, h⟩ := mem_dgramsOf.mp hd
      exact (hwf _ h).1
    · intro d hd d' hd' hk
      apply Classical.byContradiction
      intro hne
      have : keyReused evs = true := by
        simp only [keyReused, List.any_eq_true]
        exact ⟨d, hd, d', hd', by simp [hk, hne]⟩
      rw [hno] at this; exact absurd this (by simp)
  · intro e he
    cases e with
    | frag d p t => exact ⟨mem_dgramsOf.mpr ⟨p, t, he⟩, (hwf _ he).2⟩
    | other pkt => exact hwf _ he
    | clear => trivial
    | remove a b c => trivial

/-! ### non-vacuity: the hypotheses are satisfiable by non-trivial histories -/

def exA : DG :=
  { hdr := { id := 7, src := 0x0A000001, dst := 0x0A000002, proto := 253, flags := 2, nopt := 1 },
    payload := (List.range 24).map Nat.toUInt8, lens := [8, 8, 8] }
/-- same identification, opposite direction -/
def exB : DG :=
  { hdr := { id := 7, src := 0x0A000002, dst := 0x0A000001, proto := 253 },
    payload := (List.range 24).map (fun i => (200 - i).toUInt8), lens := [16, 8] }
def exF : List DG := [exA, exB]
def exEvs : List Ev :=
  [.frag exA (16, 8) 9, .frag exB (0, 16) 1, .frag exA (0, 8) 10, .frag exA (0, 8) 11,
   .other { hasIP := false, hdr := {}, inner := .none }, .frag exA (8, 8) 12, .frag exA (8, 8) 13, .frag exB (16, 8) 2]

example : Family exF := ⟨by decide, by decide⟩
example : ∀ e ∈ exEvs, e.ok exF := by decide
/-- last fragment first, duplicates before and after completion, two interleaved datagrams that differ in direction only -/
example : (runModel upperParseConcrete exEvs).map (fun o => (o.res.map (·.1), o.streams)) =
    [(some .fragmented, 1), (some .fragmented, 2), (some .fragmented, 2), (some .fragmented, 2),
     (some .notFragmented, 2), (some .reassembled, 1), (some .fragmented, 2), (some .reassembled, 1)] := by decide
example : ∀ e ∈ kfEvs, e.wfOnly := by decide
example : seqOK upperParseConcrete {} kfEvs = true := by decide
example : keyReused exEvs = false := by decide
example : exA.wf ∧ exA.complete { got := [(8, 8), (0, 8), (16, 8)] } = true := by decide

/-! ### non-vacuity of the arbitrary-session theorems: hostile sessions on one key (id 7, 1 → 2, protocol 253) -/

/-- a fragment packet: offset in bytes, more-fragments bit, payload -/
def hp (off : Nat) (mf : Bool) (bytes : List Nat) : Pkt :=
  { hasIP := true, hdr := { id := 7, src := 1, dst := 2, proto := 253, off := off / 8, flags := if mf then 1 else 0 },
    inner := .raw (bytes.map Nat.toUInt8) }

def statuses (ops : List Op) : List (Option Out × Nat) :=
  (sessionOut upperParseConcrete [] ops).map (fun x => (x.1.map (·.1), x.2))

def b8 (n : Nat) : List Nat := (List.range 8).map (· + n)

/-- overlapping pair `[0,16)` + `[8,24)` + last `[24,32)`: the byte count (40) never equals the total (32): never reassembled -/
example : statuses [.pkt (hp 0 true (b8 0 ++ b8 8)), .pkt (hp 8 true (b8 50 ++ b8 60)), .pkt (hp 24 false (b8 24))] =
    [(some .fragmented, 1), (some .fragmented, 1), (some .fragmented, 1)] := by decide
/-- an overlap that hides a hole in the byte count (`[0,16)`, `[8,16)`, last `[24,32)`: 32 bytes, total 32, hole at
    `[16,24)`): `is_complete` holds, the `corrupt` path erases the stream and reports FRAGMENTED -/
example : statuses [.pkt (hp 0 true (b8 0 ++ b8 8)), .pkt (hp 8 true (b8 50)), .pkt (hp 24 false (b8 24))] =
    [(some .fragmented, 1), (some .fragmented, 1), (some .fragmented, 0)] := by decide
/-- same offset, different lengths: the second is ignored, the datagram completes with the first one's bytes -/
example : statuses [.pkt (hp 0 true (b8 0)), .pkt (hp 0 true (b8 90 ++ b8 98)), .pkt (hp 8 false (b8 8))] =
    [(some .fragmented, 1), (some .fragmented, 1), (some .reassembled, 0)] := by decide
/-- two different last fragments (`[8,16)` and `[16,24)` both without more-fragments): the later one sets the total;
    the set is an exact cover of `[0,24)` and is reassembled -/
example : statuses [.pkt (hp 8 false (b8 8)), .pkt (hp 16 false (b8 16)), .pkt (hp 0 true (b8 0))] =
    [(some .fragmented, 1), (some .fragmented, 1), (some .reassembled, 0)] := by decide
/-- the same three in another order: the total stays at 16 while 24 bytes are held — never reassembled -/
example : statuses [.pkt (hp 16 false (b8 16)), .pkt (hp 8 false (b8 8)), .pkt (hp 0 true (b8 0))] =
    [(some .fragmented, 1), (some .fragmented, 1), (some .fragmented, 1)] := by decide
/-- a last fragment that ends before data already held, and the byte count matches by accident (`[0,8)`, `[24,32)`,
    last `[16,24)`: 24 bytes, total 24): `corrupt` -/
example : statuses [.pkt (hp 0 true (b8 0)), .pkt (hp 24 true (b8 24)), .pkt (hp 16 false (b8 16))] =
    [(some .fragmented, 1), (some .fragmented, 1), (some .fragmented, 0)] := by decide

/-- `model_refines_policy`: the policy reference on two conflicting last fragments -/
example : (polOut upperParseConcrete [] [.pkt (hp 8 false (b8 8)), .pkt (hp 16 false (b8 16)), .pkt (hp 0 true (b8 0))]).map
    (fun x => (x.1.map (·.1), x.2)) = [(some .fragmented, 1), (some .fragmented, 1), (some .reassembled, 0)] := by decide
/-- `never_from_incomplete_all` applies: a hostile session that does end in REASSEMBLED -/
example : (process upperParseConcrete
      (reach upperParseConcrete [.pkt (hp 8 false (b8 8)), .pkt (hp 16 false (b8 16)), .pkt (hp 8 true (b8 70))])
      (hp 0 true (b8 0))).2.2 = .reassembled := by decide
/-- `fragmented_cases`, second alternative (the `corrupt` path) -/
example : (process upperParseConcrete
      (reach upperParseConcrete [.pkt (hp 0 true (b8 0 ++ b8 8)), .pkt (hp 8 true (b8 50))])
      (hp 24 false (b8 24))).2 = ({ hp 0 true [] with inner := .none }, .fragmented) := by decide
/-- `throws_only_parser_exception`: 16 bytes of "TCP" -/
def tcpFrag (off : Nat) (mf : Bool) (bytes : List Nat) : Pkt :=
  { hp off mf bytes with hdr := { (hp off mf []).hdr with proto := 6 } }
example : (process upperParseConcrete (reach upperParseConcrete [.pkt (tcpFrag 0 true (b8 0))])
      (tcpFrag 8 false (b8 8))).2.2 = .throwMalformed := by decide
/-- `same_offset_ignored` / `no_fault` / `interleave_independent_all`: a reachable table with a stream -/
example : (alLookup (reach upperParseConcrete [.pkt (hp 8 true (b8 8))]) (makeKey (hp 0 true []).hdr)).map
    (fun s => s.frags.map (·.off)) = some [extractOffset (hp 8 true []).hdr] := by decide
example : isFragPkt (hp 8 true (b8 8)) = true := by decide
/-- `late_duplicate_leaks`: `exA` is completed by the sixth event of `exEvs`; its seventh event is a late duplicate -/
example : alLookup (finalWith (refStep upperParseConcrete) [] (exEvs.take 6)) exA = none ∧
    (∀ e ∈ exEvs.drop 7, e.ok exF ∧ leavesAlone exA e = true) ∧ (8, 8) ∈ exA.pieces := by decide
/-- `live_streams_le_distinct_keys` is tight -/
example : (reach upperParseConcrete [.pkt (hp 8 true (b8 8)), .pkt (hp 16 true (b8 8))]).length = 1 ∧
    (distinct (fragKeys [.pkt (hp 8 true (b8 8)), .pkt (hp 16 true (b8 8))])).length = 1 := by decide

end Tins.Props.C08
