import TinsModel.Reassembly.Spec
/- Property C08 — theorems (under construction). -/
namespace Tins.Props.C08
open Tins Tins.Reasm

end Tins.Props.C08
