import TinsModel.RadioTap.Spec
/- Property C11 — theorems (statements only here; helper lemmas live in TinsModel/RadioTap/*). -/
namespace Tins.Props.C11
open Tins Tins.RT

/-- the field table generated from src/utils/radiotap_parser.cpp is the table of the radiotap standard -/
theorem meta_matches_standard :
    genMeta.max = stdMeta.max ∧ ∀ b, b < genMeta.max → genMeta.size b = stdMeta.size b ∧ genMeta.align b = stdMeta.align b := by
  decide

/-- … and is well formed (positive sizes, alignments 1/2/4/8, bits inside the present word) -/
theorem gen_meta_wf : genMeta.wf := by decide

end Tins.Props.C11
