import TinsModel.RadioTap.LemmasDecode
import TinsModel.RadioTap.LemmasLive
import TinsModel.RadioTap.LemmasLast
import TinsModel.RadioTap.LemmasSafeObs
import TinsModel.RadioTap.LemmasReport
/- Property C11 — RadioTap fields can be set in any order and read back.
   Theorems only (helper lemmas live in TinsModel/RadioTap/Lemmas*.lean).  The model (`mkC`, `advanceFieldC`, …,
   `writeOption`, `doFindOption`, `present`, `trailerSize`, `applyWrites`, `defaultCtor`, `parseCtor`, `serializeHdr`)
   runs on the field table generated from the source (`genMeta`); the specification (`canonical`, `layL`, `lastWrite`,
   `defaultMap`) uses the table of the radiotap standard (`stdMeta`).

   §1  RadioTapParser on arbitrary bytes (safety, termination, agreement with the total parser the rest is modelled on)
   §2  setters: no fault from any state; last-write / frame theorems on canonical, well-aligned (inert frame) and
       well-aligned (live frame) headers; the full frame statement, its refutation and the `_partial` form
   §3  serialization: `length_covers`, `reparse_same` for every payload the parser accepts -/
namespace Tins.Props.C11
open Tins Tins.RT

/-! ## tables -/

/-- the field table generated from src/utils/radiotap_parser.cpp is the table of the radiotap standard -/
theorem meta_matches_standard : Gen.radiotapMetadata = stdFields ∧ Gen.maxRadiotapField = 22 := by decide

theorem gen_meta_eq_std : genMeta = stdMeta := by
  simp only [genMeta, stdMeta, meta_matches_standard.1, meta_matches_standard.2]

/-- … and is well formed (positive sizes, alignments 1/2/4/8, bits below the reserved bits of the present word) -/
theorem gen_meta_wf : genMeta.wf := by decide

/-- … and only field 0 is aligned beyond 4: after any number of present words the first field above bit 0 needs no
    padding (what makes "insert in front of the first field" land at the right offset) -/
theorem gen_meta_lowAlign : genMeta.lowAlign := by decide

theorem std_wf : stdMeta.wf := gen_meta_eq_std ▸ gen_meta_wf
theorem std_lowAlign : stdMeta.lowAlign := gen_meta_eq_std ▸ gen_meta_lowAlign

/-- every field setter of `RadioTap` (table generated from src/radiotap.cpp) writes a known field with exactly the
    field's size; every getter looks up a known field and consumes no more than its size; a getter and a setter of
    the same name use the same field and width -/
theorem accessors_paired :
    (∀ s ∈ Gen.setters, s.2.1 < genMeta.max ∧ s.2.2 = genMeta.size s.2.1) ∧
    (∀ g ∈ Gen.getters, g.2.1 < genMeta.max ∧ 0 < g.2.2 ∧ g.2.2 ≤ genMeta.size g.2.1) ∧
    (∀ s ∈ Gen.setters, ∀ g ∈ Gen.getters, g.1 = s.1 → g.2 = s.2) ∧
    (∀ s ∈ Gen.setters, ∃ g ∈ Gen.getters, g.2.1 = s.2.1 ∧ g.2.2 = s.2.2) := by
  decide

theorem getter_widths :
    ∀ g ∈ Gen.getters, g.2.2 = stdMeta.size g.2.1 ∨ (g.1 = "channel_freq" ∧ g.2.2 ≤ stdMeta.size g.2.1) := by
  decide

/-! ## §1 `Utils::RadioTapParser` on arbitrary bytes -/

/-- the parser states a caller can reach on the options buffer `buf` through the public operations -/
inductive ParserReach (buf : Bytes) : PC → Prop
  | ctor {c} : mkC genMeta buf = .ok c → ParserReach buf c
  | advance {c c' r} : ParserReach buf c → advanceFieldC genMeta c = .ok (c', r) → ParserReach buf c'
  | skip {c c' r} (fuel bit : Nat) : ParserReach buf c → skipToFieldC genMeta fuel c bit = .ok (c', r) → ParserReach buf c'

/-- whatever fuel a caller's `skip_to_field` loop had, the state it returned satisfies the invariant -/
theorem skipToFieldC_ok_inv {buf : Bytes} (bit : Nat) : ∀ (fuel : Nat) (c0 c1 : PC) (r1 : Bool), ParserInv genMeta buf c0 →
    skipToFieldC genMeta fuel c0 bit = .ok (c1, r1) → ParserInv genMeta buf c1 := by
  intro fuel
  induction fuel with
  | zero => intro c0 c1 r1 _ he; simp [skipToFieldC] at he
  | succ f ihf =>
    intro c0 c1 r1 hi he
    unfold skipToFieldC at he
    split at he
    · obtain ⟨c2, r2, he2, _, hi2⟩ := advanceFieldC_inv hi
      rw [he2] at he
      exact ihf c2 c1 r1 hi2 he
    · injection he with he; injection he with e1 _
      rw [← e1]; exact hi

theorem parser_reach_inv {buf : Bytes} {c : PC} (h : ParserReach buf c) : ParserInv genMeta buf c := by
  induction h with
  | ctor h => exact mkC_inv h
  | advance _ he ih =>
    obtain ⟨c2, r2, he2, _, hi2⟩ := advanceFieldC_inv ih
    rw [he] at he2; injection he2 with he2; injection he2 with e1 _
    rw [e1]; exact hi2
  | skip fuel bit _ he ih => exact skipToFieldC_ok_inv bit fuel _ _ _ ih he

/-- **parser_ctor_safe** — `RadioTapParser(buffer)` on any byte string: the null parser of the empty vector,
    `malformed_packet`, or a parser on a validated present-word chain; never a read outside the buffer (although
    `find_options_start` is the only place that checks), and exactly the result of the total constructor `Parser.mk'`
    on which the writer, the getters and the serializer are modelled. -/
theorem parser_ctor_safe (buf : Bytes) :
    ((∃ c, mkC genMeta buf = .ok c ∧ Parser.mk' genMeta buf = .ok c.p ∧ ParserInv genMeta buf c) ∨
      (mkC genMeta buf = .throw .malformedPacket ∧ Parser.mk' genMeta buf = .throw .malformedPacket)) := by
  rcases mkC_spec genMeta buf with ⟨_, c, h0, h1, _⟩ | h | ⟨_, c, k, h0, h1, _⟩
  · exact Or.inl ⟨c, h0, h1, mkC_inv h0⟩
  · exact Or.inr h
  · exact Or.inl ⟨c, h0, h1, mkC_inv h0⟩

/-- **parser_ops_safe** — in every reachable state, for every byte string: `advance_field()` returns (no fault, no
    exception) and agrees with the total `advanceField`; `skip_to_field(f)` terminates within `walkFuel` iterations and
    ends either without a current field or on field `f`; `current_option()` — when there is a current field — returns
    exactly the `size` bytes at the current offset, all inside the buffer, or throws `malformed_packet` because the
    field ends behind the buffer; `has_field(flag)` returns for every flag; the loop
    `while (has_fields()) advance_field()` terminates. -/
theorem parser_ops_safe (buf : Bytes) (c : PC) (hr : ParserReach buf c) :
    (∃ c' r, advanceFieldC genMeta c = .ok (c', r) ∧ (c'.p, r) = advanceField genMeta c.p ∧ ParserReach buf c') ∧
    (∀ bit fuel, walkFuel genMeta ≤ fuel → ∃ c', skipToFieldC genMeta fuel c bit = .ok (c', hasFields genMeta c'.p) ∧
        (hasFields genMeta c'.p = true → c'.p.bit = bit)) ∧
    (hasFields genMeta c.p = true →
      (∃ d, currentOptionC genMeta c.p = .ok d ∧ d = (buf.drop c.p.ptr).take (genMeta.size c.p.bit) ∧
          c.p.ptr + genMeta.size c.p.bit ≤ buf.length) ∨
      (currentOptionC genMeta c.p = .throw .malformedPacket ∧ buf.length < c.p.ptr + genMeta.size c.p.bit)) ∧
    (∀ mask, ∃ r, hasFieldC buf mask = .ok r) ∧
    (∀ fuel, walkFuel genMeta ≤ fuel → ∃ items c', walkLoopC genMeta fuel c [] = .ok (items, c') ∧ hasFields genMeta c'.p = false) := by
  have hi := parser_reach_inv hr
  refine ⟨?_, ?_, currentOptionC_inv hi, hasFieldC_spec buf, ?_⟩
  · obtain ⟨c', r, he, heq, _⟩ := advanceFieldC_inv hi
    exact ⟨c', r, he, heq, ParserReach.advance hr he⟩
  · intro bit fuel hf
    obtain ⟨c', he, _, hx⟩ := skipToFieldC_inv hi bit fuel hf
    exact ⟨c', he, hx⟩
  · intro fuel hf
    obtain ⟨items, c', he, _, hnf⟩ := walkLoopC_inv hi [] fuel hf
    exact ⟨items, c', he, hnf⟩

/-- the complete walk over any byte string: a list of fields or `malformed_packet` -/
theorem parser_walk_total (buf : Bytes) :
    (∃ items c, walkC genMeta buf = .ok (items, c)) ∨ walkC genMeta buf = .throw .malformedPacket := by
  unfold walkC
  rcases parser_ctor_safe buf with ⟨c, h0, _, hi⟩ | ⟨h0, _⟩
  · rw [h0]
    obtain ⟨items, c', he, _⟩ := walkLoopC_inv hi [] (walkFuel genMeta) (Nat.le_refl _)
    exact Or.inl ⟨items, c', he⟩
  · rw [h0]; exact Or.inr rfl

/-- **parser_reports_sound** — the parser reports only what is there: every field the loop
    `while (has_fields()) { …; advance_field(); }` visits, on any byte string, is a table field whose bit is set in the
    present word of the namespace it is reported for, starts at an offset inside the buffer that is aligned counted
    from the radiotap header, and `current_option()` there is exactly the field's `size` bytes at that offset or
    `malformed_packet` because they end behind the buffer. -/
theorem parser_reports_sound (buf : Bytes) (items : List WalkItem) (c : PC) (h : walkC genMeta buf = .ok (items, c)) :
    ∀ it ∈ items, ItemSound genMeta buf it := by
  unfold walkC at h
  cases hm : mkC genMeta buf with
  | ok c0 =>
    rw [hm] at h
    exact walkLoopC_sound gen_meta_wf _ c0 [] ⟨mkC_inv hm, mkC_pointed gen_meta_wf hm⟩ (by simp) items c h
  | throw e => rw [hm] at h; cases h
  | fault f => rw [hm] at h; cases h

/-- `RadioTap::present()` (`namespace_flags()` / `advance_namespace()`, no bounds checks of their own) on a payload of
    at least one present word: stays inside the buffer; equal to the total `present` -/
theorem present_safe (buf : Bytes) (hl : 4 ≤ buf.length) :
    presentC genMeta buf = present genMeta buf ∧
      ((∃ w, present genMeta buf = .ok w) ∨ present genMeta buf = .throw .malformedPacket) := by
  obtain ⟨h1, h2⟩ := presentC_spec genMeta buf hl
  exact ⟨h1, by rw [← h1]; exact h2⟩

/-! ## §2 setters -/

/-- **write_option_safe** — `RadioTapWriter::write_option` on *every* options buffer (any chain of present words,
    vendor / unknown namespaces, unknown field bits, truncation anywhere), every field bit, every value length: a new
    buffer of at least one present word, `malformed_option` or `malformed_packet`; the `memcpy`, `vector::insert` and
    `vector::erase` positions of `write_option` / `update_paddings` are inside the vector, the pointer differences
    `build_padding_vector` turns into counts are not negative, and all loops end within their fuel. -/
theorem write_option_safe (buf : Bytes) (bit : Nat) (data : Bytes) :
    (∃ b, writeOption genMeta buf bit data = .ok b ∧ 4 ≤ b.length) ∨
      writeOption genMeta buf bit data = .throw .malformedOption ∨
      writeOption genMeta buf bit data = .throw .malformedPacket :=
  writeOption_safe gen_meta_wf buf bit data

/-- the `RadioTap` objects a program can hold: default-constructed, parsed from any bytes the parsing constructor
    accepts, or obtained from such an object by `add_option` (= every typed setter) with any field and value -/
inductive Reachable : State → Prop
  | default {s} : defaultCtor genMeta = .ok s → Reachable s
  | parsed {s n} (hdr : Bytes) : parseCtor genMeta hdr hdr.length = .ok (s, n) → Reachable s
  | written {s s'} (bit : Nat) (data : Bytes) : Reachable s → addOption genMeta s bit data = .ok s' → Reachable s'

theorem reachable_payload {s : State} (h : Reachable s) : 4 ≤ s.payload.length := by
  induction h with
  | default h =>
    rcases applyWrites_safe gen_meta_wf defaultWrites { payload := zeros 4 } (by simp [zeros]) with ⟨s', hs', hl, _⟩ | hs' | hs'
    · unfold defaultCtor at h; rw [h] at hs'; injection hs' with hs'; rw [hs']; exact hl
    · unfold defaultCtor at h; rw [h] at hs'; cases hs'
    · unfold defaultCtor at h; rw [h] at hs'; cases hs'
  | parsed hdr h =>
    rcases parseCtor_spec genMeta hdr hdr.length (Nat.le_refl _) with ⟨st, n, hs, hl, _⟩ | hs
    · rw [h] at hs; injection hs with hs; injection hs with e1 _; rw [e1]; exact hl
    · rw [h] at hs; cases hs
  | @written s0 s1 bit data _ hw ih =>
    unfold addOption at hw
    rcases write_option_safe s0.payload bit data with ⟨b, hb, hl⟩ | hb | hb
    · rw [hb] at hw; injection hw with hw; rw [← hw]; exact hl
    · rw [hb] at hw; cases hw
    · rw [hb] at hw; cases hw

/-- **setters_never_fault** — from every reachable object (in particular every header the parsing constructor
    accepts: multi-namespace, vendor, truncated …) every finite sequence of setter calls (any fields, any order, any
    value lengths) ends in an object again or in `malformed_option` / `malformed_packet`; never in an access outside
    the options vector (the region of KF-C11-3). -/
theorem setters_never_fault (s : State) (hs : Reachable s) (ws : List (Nat × Bytes)) :
    (∃ s', applyWrites genMeta ws s = .ok s' ∧ 4 ≤ s'.payload.length ∧ s'.version = s.version ∧ s'.pad = s.pad) ∨
      applyWrites genMeta ws s = .throw .malformedOption ∨ applyWrites genMeta ws s = .throw .malformedPacket :=
  applyWrites_safe gen_meta_wf ws s (reachable_payload hs)

/-- **observers_never_fault** — on every reachable object every getter of `RadioTap`, `present()` and
    `trailer_size()` return a value or throw; the getters' `memcpy` out of the option stays inside the option. -/
theorem observers_never_fault (s : State) (hs : Reachable s) :
    (∀ g ∈ Gen.getters, ∀ integral, (∃ d, getField genMeta s.payload g.2.1 g.2.2 integral = .ok d) ∨
        (∃ e, getField genMeta s.payload g.2.1 g.2.2 integral = .throw e)) ∧
    ((∃ w, present genMeta s.payload = .ok w) ∨ present genMeta s.payload = .throw .malformedPacket) ∧
    (∀ p, Parser.mk' genMeta s.payload = .ok p → ∃ t, trailerSize genMeta s.payload = .ok t ∧ (t = 0 ∨ t = 4)) := by
  have hl := reachable_payload hs
  refine ⟨fun g hg integral => getField_safe genMeta s.payload g.2.1 g.2.2 integral (accessors_paired.2.1 g hg).2.2,
    (present_safe s.payload hl).2, fun p hp => ?_⟩
  rw [trailerSize_any (by decide) s.payload p hp hl]
  split
  · exact ⟨4, rfl, Or.inr rfl⟩
  · exact ⟨0, rfl, Or.inl rfl⟩

/-! ### canonical (single present word) headers -/

/-- **write_canonical** — one `write_option` of a valid write on the canonical payload of a last-write map yields
    the canonical payload of the updated map (present or not, any position, any neighbours). -/
theorem write_canonical (m : FMap) (hm : sized stdMeta m) (f : Nat) (v : Bytes) (hw : validWrite stdMeta (f, v)) :
    writeOption genMeta (canonical stdMeta m) f v = .ok (canonical stdMeta (upd m f v)) := by
  rw [gen_meta_eq_std]
  exact writeOption_canonical std_wf std_lowAlign hm f v hw

/-- the default constructor produces the canonical payload of the documented default map -/
theorem default_is_canonical :
    defaultCtor genMeta = .ok { payload := canonical stdMeta defaultMap } := by
  rw [gen_meta_eq_std]
  have h0 : zeros 4 = canonical stdMeta FMap.empty := by decide
  have hv : ∀ w ∈ defaultWrites, validWrite stdMeta w := by decide
  unfold defaultCtor
  rw [h0]
  exact applyWrites_canonical std_wf std_lowAlign defaultWrites FMap.empty 0 0 (sized_empty _) hv

theorem default_sized : sized stdMeta defaultMap :=
  sized_lastWrite defaultWrites (sized_empty _) (by decide)

/-- **setters_any_order** — for every finite sequence of valid writes (any order, repetitions allowed) applied to the
    default-constructed header, the options payload is the canonical layout of the last-write map. -/
theorem setters_any_order (ws : List (Nat × Bytes)) (h : ∀ w ∈ ws, validWrite stdMeta w) :
    (defaultCtor genMeta).bind (applyWrites genMeta ws)
      = .ok { payload := canonical stdMeta (lastWrite defaultMap ws) } := by
  rw [default_is_canonical]
  simp only [Out.bind]
  rw [gen_meta_eq_std]
  exact applyWrites_canonical std_wf std_lowAlign ws defaultMap 0 0 default_sized h

/-- the same from any header whose payload is canonical: version / pad untouched, payload canonical for the
    last-write map -/
theorem setters_any_order_from (m0 : FMap) (hm : sized stdMeta m0) (ver pad : Nat) (ws : List (Nat × Bytes))
    (h : ∀ w ∈ ws, validWrite stdMeta w) :
    applyWrites genMeta ws { version := ver, pad := pad, payload := canonical stdMeta m0 }
      = .ok { version := ver, pad := pad, payload := canonical stdMeta (lastWrite m0 ws) } := by
  rw [gen_meta_eq_std]
  exact applyWrites_canonical std_wf std_lowAlign ws m0 ver pad hm h

/-- histories that start from a *parsed* single-present-word header the (decidable) test `decodeCanonical` accepts -/
theorem setters_any_order_parsed (buf : Bytes) (fs : List (Nat × Bytes)) (hdec : decodeCanonical stdMeta buf = some fs)
    (ver pad : Nat) (ws : List (Nat × Bytes)) (h : ∀ w ∈ ws, validWrite stdMeta w) :
    applyWrites genMeta ws { version := ver, pad := pad, payload := buf }
      = .ok { version := ver, pad := pad, payload := canonical stdMeta (lastWrite (mapOfList fs) ws) } := by
  obtain ⟨hm, hbuf, _⟩ := decodeCanonical_sound stdMeta buf fs hdec
  rw [hbuf]
  exact setters_any_order_from _ hm ver pad ws h

/-! ### well-aligned headers with a chain of present words

  `decodeLayout stdMeta buf = some (F, fs)` is the decidable predicate "`buf` is well aligned": the chain of present
  words fits the buffer, every table field of the *first* present word lies at its aligned offset, padding bytes are
  zero; `F` = the other bits of the first word, the later present words, and every byte behind the first word's
  fields (`decodeLayout_sound`).  `F.inert`: the last present word announces no table field (later words empty,
  namespace bits only, unknown fields only) — libtins' parser, which reads the fields of the first and of the last
  present word, then never enters the foreign bytes.  Otherwise the frame is *live*: libtins reads the foreign bytes as
  fields of the last word. -/

/-- **write_layout** — one valid write on a well-aligned header with an inert frame: the header of the updated map in
    the *same* frame (present-word chain, unknown bits, foreign bytes untouched). -/
theorem write_layout (F : Frame) (hF : F.ok stdMeta) (hin : F.inert stdMeta) (m : FMap) (hm : sized stdMeta m)
    (f : Nat) (v : Bytes) (hw : validWrite stdMeta (f, v)) :
    writeOption genMeta (layL stdMeta F (fieldList stdMeta m)) f v = .ok (layL stdMeta F (fieldList stdMeta (upd m f v))) := by
  rw [gen_meta_eq_std]
  exact writeOption_layout std_wf std_lowAlign hF hin hm f v hw

/-- **write_layout_live** — one valid write on *any* well-aligned header: the present-word chain is kept, the fields of
    the first present word are the well-aligned layout of the updated map; only the bytes behind them may change (they
    are re-padded as fields of the last present word), and not at all when the field was already present. -/
theorem write_layout_live (F : Frame) (hF : F.ok stdMeta) (m : FMap) (hm : sized stdMeta m)
    (f : Nat) (v : Bytes) (hw : validWrite stdMeta (f, v)) :
    ∃ T', writeOption genMeta (layL stdMeta F (fieldList stdMeta m)) f v
        = .ok (layL stdMeta { F with tail := T' } (fieldList stdMeta (upd m f v))) ∧
      ((m f).isSome = true → T' = F.tail) := by
  rw [gen_meta_eq_std]
  cases hmf : m f with
  | some old => exact ⟨F.tail, writeOption_layout_present std_wf hF hm f v old hw hmf, fun _ => rfl⟩
  | none =>
    obtain ⟨T', h⟩ := writeOption_layout_live std_wf std_lowAlign hF hm f v hw
    exact ⟨T', h, fun h => by simp at h⟩

/-- **setters_any_order_layout** — every finite sequence of valid writes from a well-aligned header with an inert
    frame ends in the well-aligned header of the last-write map in the same frame. -/
theorem setters_any_order_layout (F : Frame) (hF : F.ok stdMeta) (hin : F.inert stdMeta) (m0 : FMap) (hm : sized stdMeta m0)
    (ver pad : Nat) (ws : List (Nat × Bytes)) (h : ∀ w ∈ ws, validWrite stdMeta w) :
    applyWrites genMeta ws { version := ver, pad := pad, payload := layL stdMeta F (fieldList stdMeta m0) }
      = .ok { version := ver, pad := pad, payload := layL stdMeta F (fieldList stdMeta (lastWrite m0 ws)) } := by
  rw [gen_meta_eq_std]
  exact applyWrites_layout std_wf std_lowAlign hF hin ws m0 ver pad hm h

/-- … and from any well-aligned header at all the chain is kept and the first word's fields are those of the
    last-write map -/
theorem setters_any_order_live (F : Frame) (hF : F.ok stdMeta) (m0 : FMap) (hm : sized stdMeta m0)
    (ver pad : Nat) (ws : List (Nat × Bytes)) (h : ∀ w ∈ ws, validWrite stdMeta w) :
    ∃ T', applyWrites genMeta ws { version := ver, pad := pad, payload := layL stdMeta F (fieldList stdMeta m0) }
      = .ok { version := ver, pad := pad, payload := layL stdMeta { F with tail := T' } (fieldList stdMeta (lastWrite m0 ws)) } := by
  rw [gen_meta_eq_std]
  exact applyWrites_layout_live std_wf std_lowAlign ws F m0 ver pad hF hm h

/-- histories that start from a *parsed* header the decidable test `decodeLayout` accepts -/
theorem setters_any_order_parsed_layout (buf : Bytes) (F : Frame) (fs : List (Nat × Bytes))
    (hdec : decodeLayout stdMeta buf = some (F, fs)) (ver pad : Nat) (ws : List (Nat × Bytes))
    (h : ∀ w ∈ ws, validWrite stdMeta w) :
    (F.inert stdMeta → applyWrites genMeta ws { version := ver, pad := pad, payload := buf }
      = .ok { version := ver, pad := pad, payload := layL stdMeta F (fieldList stdMeta (lastWrite (mapOfList fs) ws)) }) ∧
    (∃ T', applyWrites genMeta ws { version := ver, pad := pad, payload := buf }
      = .ok { version := ver, pad := pad,
              payload := layL stdMeta { F with tail := T' } (fieldList stdMeta (lastWrite (mapOfList fs) ws)) }) := by
  obtain ⟨hF, hm, hbuf, _⟩ := decodeLayout_sound stdMeta buf F fs hdec
  rw [hbuf]
  exact ⟨fun hin => setters_any_order_layout F hF hin _ hm ver pad ws h, setters_any_order_live F hF _ hm ver pad ws h⟩

/-! ### getters -/

/-- **getters = last write** — on the canonical payload of a map, looking a field up yields the stored value, and
    `field_not_present` for a field that was never written. -/
theorem getter_last_write (m : FMap) (hm : sized stdMeta m) (b : Nat) :
    doFindOption genMeta (canonical stdMeta m) b =
      match m b with
      | some v => .ok v
      | none => .throw .fieldNotPresent := by
  rw [gen_meta_eq_std]
  exact doFindOption_canonical std_wf hm b

/-- the same on a well-aligned header with an inert frame -/
theorem getter_last_write_layout (F : Frame) (hF : F.ok stdMeta) (hin : F.inert stdMeta) (m : FMap) (hm : sized stdMeta m) (b : Nat) :
    doFindOption genMeta (layL stdMeta F (fieldList stdMeta m)) b =
      match m b with
      | some v => .ok v
      | none => .throw .fieldNotPresent := by
  rw [gen_meta_eq_std]
  exact doFindOption_layout std_wf hF hin hm b

/-- on any well-aligned header a field of the first present word reads back as stored -/
theorem getter_present_layout (F : Frame) (hF : F.ok stdMeta) (m : FMap) (hm : sized stdMeta m) (b : Nat) (v : Bytes)
    (hb : m b = some v) : doFindOption genMeta (layL stdMeta F (fieldList stdMeta m)) b = .ok v := by
  rw [gen_meta_eq_std]
  exact doFindOption_layout_present std_wf hF hm b v hb

/-- the typed getters (`do_find_option(F).to<T>()` with `sizeof(T) = width`, or a `memcpy` of `width` bytes out of the
    option) succeed with the stored value whenever the width is the field's size (integral conversion) or at most the
    field's size (partial `memcpy`, e.g. `channel_freq`) — which `accessors_paired` establishes for the generated
    getter table (all widths equal the field size except `channel_freq`, which reads the first 2 of 4 bytes). -/
theorem typed_getter_last_write (m : FMap) (hm : sized stdMeta m) (bit width : Nat) (integral : Bool)
    (hw : width = stdMeta.size bit ∨ (integral = false ∧ width ≤ stdMeta.size bit)) :
    getField genMeta (canonical stdMeta m) bit width integral =
      match m bit with
      | some v => .ok v
      | none => .throw .fieldNotPresent := by
  unfold getField
  rw [getter_last_write m hm bit]
  cases hmb : m bit with
  | none => rfl
  | some v =>
    have hv := (hm bit v hmb).2
    simp only
    rcases hw with hw | ⟨hi, hw⟩
    · have h1 : (v.length != width) = false := by simp; omega
      have h2 : ¬ (v.length < width) := by omega
      simp [h1, h2]
    · have h2 : ¬ (v.length < width) := by omega
      simp [hi, h2]

/-! ### the frame property of a setter call -/

/-- what one setter call `f := v` on the well-aligned header `layL F (fields of m)` has to do: succeed; the getter of
    `f` returns `v`; every other getter returns what it returned before; the present-word chain, the unknown bits and
    every byte behind the fields of the first present word (later / vendor namespaces, fields without a table entry)
    are the ones of before, the first word's fields are laid out for the updated map -/
def SetterFrame (F : Frame) (m : FMap) (f : Nat) (v : Bytes) : Prop :=
  ∃ buf', writeOption genMeta (layL stdMeta F (fieldList stdMeta m)) f v = .ok buf' ∧
    doFindOption genMeta buf' f = .ok v ∧
    (∀ g, g ≠ f → doFindOption genMeta buf' g = doFindOption genMeta (layL stdMeta F (fieldList stdMeta m)) g) ∧
    buf' = layL stdMeta F (fieldList stdMeta (upd m f v))

/-- the full statement: on every well-aligned header, whatever its later present words announce -/
def SetterFrameAll : Prop :=
  ∀ (F : Frame) (m : FMap) (f : Nat) (v : Bytes), F.ok stdMeta → sized stdMeta m → validWrite stdMeta (f, v) → SetterFrame F m f v

/-- the witness: FLAGS in the first present word, which announces a vendor namespace; the vendor present word has
    bit 0 set, the vendor data starts with a zero byte.  `rate(9)` inserts RATE after FLAGS and then "re-aligns" what
    libtins takes for an 8-aligned TSFT of the last present word: the first byte of the vendor data is erased. -/
def witnessF : Frame :=
  { hb := 2147483648 + 1073741824, wsb := le32 1,
    tail := [0x00, 0x11, 0x22, 0x01, 0x04, 0x00, 0xde, 0xad, 0xbe, 0xef, 0x99, 0x98, 0x97, 0x96, 0x95, 0x94] }

def witnessM : FMap := fun c => if c = 1 then some [0] else none

theorem witness_ok : witnessF.ok stdMeta ∧ ¬ witnessF.inert stdMeta := by decide

theorem witness_sized : sized stdMeta witnessM := by
  intro b v h
  unfold witnessM at h
  split at h
  · rename_i hb
    injection h with h
    subst hb h
    decide
  · cases h

/-- **setter_frame_fails** — the full statement does not hold for the code as it is (replayed on the real code by the
    check: KF-C11-6): a write re-pads the bytes behind the first word's fields whenever the last present word has table
    bits, also when those bytes belong to a vendor namespace. -/
theorem setter_frame_fails : ¬ SetterFrameAll := by
  intro h
  obtain ⟨buf', h1, _, _, h4⟩ := h witnessF witnessM 2 [9] witness_ok.1 witness_sized (by decide)
  have hlay : layL stdMeta witnessF (fieldList stdMeta witnessM)
      = [2, 0, 0, 192, 1, 0, 0, 0, 0, 0, 17, 34, 1, 4, 0, 222, 173, 190, 239, 153, 152, 151, 150, 149, 148] := by decide
  have hnew : layL stdMeta witnessF (fieldList stdMeta (upd witnessM 2 [9]))
      = [6, 0, 0, 192, 1, 0, 0, 0, 0, 9, 0, 17, 34, 1, 4, 0, 222, 173, 190, 239, 153, 152, 151, 150, 149, 148] := by decide
  have hrun : (match writeOption genMeta [2, 0, 0, 192, 1, 0, 0, 0, 0, 0, 17, 34, 1, 4, 0, 222, 173, 190, 239, 153, 152, 151, 150, 149, 148] 2 [9] with
      | .ok b => b == [6, 0, 0, 192, 1, 0, 0, 0, 0, 9, 17, 34, 1, 4, 0, 222, 173, 190, 239, 153, 152, 151, 150, 149, 148]
      | _ => false) = true := by decide
  rw [hlay] at h1
  rw [h1] at hrun
  rw [hnew] at h4
  rw [h4] at hrun
  exact absurd hrun (by decide)

/-- **setter_frame_partial** — the full statement holds on every well-aligned header whose frame is inert (single
    present word with or without trailing foreign bytes / unknown field bits; chains whose later words are empty or
    carry namespace or unknown bits only): excluded is exactly `¬ F.inert`, the headers on which libtins' parser
    enters the foreign bytes. -/
theorem setter_frame_partial (F : Frame) (m : FMap) (f : Nat) (v : Bytes) (hF : F.ok stdMeta) (hin : F.inert stdMeta)
    (hm : sized stdMeta m) (hw : validWrite stdMeta (f, v)) : SetterFrame F m f v := by
  have hm' : sized stdMeta (upd m f v) := sized_upd hm hw
  refine ⟨_, write_layout F hF hin m hm f v hw, ?_, ?_, rfl⟩
  · rw [getter_last_write_layout F hF hin _ hm' f]
    simp [upd]
  · intro g hg
    rw [getter_last_write_layout F hF hin _ hm' g, getter_last_write_layout F hF hin _ hm g]
    simp [upd, hg]

/-- **setter_frame_live** — and on the excluded headers what remains true: the call succeeds, the getter of `f` returns
    `v`, every field of the first present word keeps its value, the present-word chain is unchanged, and the first
    word's fields are laid out for the updated map; only the bytes behind them may have been re-padded. -/
theorem setter_frame_live (F : Frame) (m : FMap) (f : Nat) (v : Bytes) (hF : F.ok stdMeta)
    (hm : sized stdMeta m) (hw : validWrite stdMeta (f, v)) :
    ∃ buf' T', writeOption genMeta (layL stdMeta F (fieldList stdMeta m)) f v = .ok buf' ∧
      buf' = layL stdMeta { F with tail := T' } (fieldList stdMeta (upd m f v)) ∧
      doFindOption genMeta buf' f = .ok v ∧
      (∀ g w, g ≠ f → m g = some w → doFindOption genMeta buf' g = .ok w) := by
  have hm' : sized stdMeta (upd m f v) := sized_upd hm hw
  obtain ⟨T', h, _⟩ := write_layout_live F hF m hm f v hw
  refine ⟨_, T', h, rfl, ?_, ?_⟩
  · exact getter_present_layout _ (Frame.ok_tail hF T') _ hm' f v (by simp [upd])
  · intro g w hg hgw
    exact getter_present_layout _ (Frame.ok_tail hF T') _ hm' g w (by simp [upd, hg, hgw])

/-! ### headers whose last present word carries well-aligned table fields

  `decodeLayout2 stdMeta buf = some (F, fs0, fsK, rest)`: `buf` is well aligned, its first present word has table
  fields `fs0` (at least one), and the bytes behind them are the fields `fsK` the last present word announces, zero
  padded at their aligned offsets, followed by `rest` (`decodeLayout2_sound`).  With two present words and bit 29 in
  the first this is a header with two radiotap namespaces as the standard lays it out (e.g. the capture in libtins'
  own test suite). -/

/-- **write_two_words** — one valid write on such a header: the first word's fields follow the updated map, the last
    word's fields keep their values at re-aligned offsets, the chain and the bytes behind are untouched. -/
theorem write_two_words (F : Frame) (hF : F.ok stdMeta) (m0 : FMap) (hm : sized stdMeta m0) (hne : fieldList stdMeta m0 ≠ [])
    (fsK : List (Nat × Bytes)) (rest : Bytes) (hL : LastWord stdMeta F fsK) (f : Nat) (v : Bytes) (hw : validWrite stdMeta (f, v)) :
    writeOption genMeta (lay2 stdMeta F (fieldList stdMeta m0) fsK rest) f v
      = .ok (lay2 stdMeta F (fieldList stdMeta (upd m0 f v)) fsK rest) := by
  rw [gen_meta_eq_std]
  exact writeOption_lay2 std_wf std_lowAlign hF hm hne fsK rest hL f v hw

/-- **getter_two_words** — every getter on such a header returns the first word's value, else the last word's, else
    `field_not_present`. -/
theorem getter_two_words (F : Frame) (hF : F.ok stdMeta) (m0 mK : FMap) (hm0 : sized stdMeta m0) (hmK : sized stdMeta mK)
    (hne : fieldList stdMeta m0 ≠ []) (rest : Bytes) (hL : LastWord stdMeta F (fieldList stdMeta mK)) (g : Nat) :
    doFindOption genMeta (lay2 stdMeta F (fieldList stdMeta m0) (fieldList stdMeta mK) rest) g =
      match m0 g with
      | some v => .ok v
      | none => match mK g with
        | some v => .ok v
        | none => .throw .fieldNotPresent := by
  rw [gen_meta_eq_std]
  exact doFindOption_lay2 std_wf hF hm0 hmK hne rest hL g

/-- **setters_two_words** — histories from a parsed header the decidable test `decodeLayout2` accepts: after any finite
    sequence of valid writes the payload is the two-word layout of the last-write map over the first word's fields
    with the last word's fields and the rest unchanged; every field reads back as last written, untouched fields of
    both words keep their values. -/
theorem setters_two_words (buf : Bytes) (F : Frame) (fs0 fsK : List (Nat × Bytes)) (rest : Bytes)
    (hdec : decodeLayout2 stdMeta buf = some (F, fs0, fsK, rest)) (ver pad : Nat) (ws : List (Nat × Bytes))
    (h : ∀ w ∈ ws, validWrite stdMeta w) :
    applyWrites genMeta ws { version := ver, pad := pad, payload := buf }
      = .ok { version := ver, pad := pad,
              payload := lay2 stdMeta F (fieldList stdMeta (lastWrite (mapOfList fs0) ws)) fsK rest } ∧
    ∀ g, doFindOption genMeta (lay2 stdMeta F (fieldList stdMeta (lastWrite (mapOfList fs0) ws)) fsK rest) g =
      match lastWrite (mapOfList fs0) ws g with
      | some v => .ok v
      | none => match mapOfList fsK g with
        | some v => .ok v
        | none => .throw .fieldNotPresent := by
  obtain ⟨hF, hm0, hfl0, hne0, hmK, hflK, hL, hbuf⟩ := decodeLayout2_sound stdMeta buf F fs0 fsK rest hdec
  have hne0' : fieldList stdMeta (mapOfList fs0) ≠ [] := by rw [hfl0]; exact hne0
  constructor
  · rw [hbuf, gen_meta_eq_std]
    have := applyWrites_lay2 std_wf std_lowAlign hF fsK rest hL ws (mapOfList fs0) ver pad hm0 hne0' h
    rw [hfl0] at this
    exact this
  · intro g
    have hms := sized_lastWrite ws hm0 h
    have hne' : fieldList stdMeta (lastWrite (mapOfList fs0) ws) ≠ [] := by
      -- a write never removes a field: the domain only grows
      intro hnil
      have hdom : ∀ c, c < stdMeta.max → (lastWrite (mapOfList fs0) ws c).isSome = false := by
        intro c hc
        have := testBit_present_map stdMeta (lastWrite (mapOfList fs0) ws) c hc
        rw [hnil] at this
        simpa [presentWord] using this.symm
      have hgrow : ∀ (ws : List (Nat × Bytes)) (m : FMap) (c : Nat), (m c).isSome = true → (lastWrite m ws c).isSome = true := by
        intro ws
        induction ws with
        | nil => intro m c hc; exact hc
        | cons w r ih =>
          intro m c hc
          simp only [lastWrite, List.foldl_cons]
          apply ih
          unfold upd
          split
          · rfl
          · exact hc
      cases hfs : fs0 with
      | nil => exact hne0 hfs
      | cons x r =>
        have hx : x ∈ fieldList stdMeta (mapOfList fs0) := by rw [hfl0, hfs]; exact List.mem_cons_self ..
        have hmem := fieldsFrom_mem hx
        have h1 := hgrow ws (mapOfList fs0) x.1 (by rw [hmem.2.2]; rfl)
        have hlt : x.1 < stdMeta.max := (hm0 x.1 x.2 hmem.2.2).1
        rw [hdom x.1 hlt] at h1
        cases h1
    have := getter_two_words F hF (lastWrite (mapOfList fs0) ws) (mapOfList fsK) hms hmK hne' rest (by rw [hflK]; exact hL) g
    rw [hflK] at this
    exact this

/-! ### present(), trailer_size() -/

/-- **present = domain** — `present()` is the OR of the flags of exactly the written fields. -/
theorem present_is_domain (m : FMap) (hm : sized stdMeta m) :
    present genMeta (canonical stdMeta m) = .ok (presentWord (fieldList stdMeta m)) ∧
    ∀ c, c < stdMeta.max → (presentWord (fieldList stdMeta m)).testBit c = (m c).isSome := by
  rw [gen_meta_eq_std]
  exact ⟨present_canonical std_wf hm, fun c hc => testBit_present_map stdMeta m c hc⟩

/-- on a well-aligned header `present()` is the first present word ORed with the last one; with an inert frame its table
    bits are exactly the domain of the map -/
theorem present_layout_domain (F : Frame) (hF : F.ok stdMeta) (m : FMap) (hm : sized stdMeta m) :
    ∃ w, present genMeta (layL stdMeta F (fieldList stdMeta m)) = .ok w ∧
      (F.inert stdMeta → ∀ c, c < stdMeta.max → w.testBit c = (m c).isSome) := by
  rw [gen_meta_eq_std]
  refine ⟨_, present_layout std_wf hF (fieldList_sorted _ m) (fieldList_sized hm), fun hin c hc => ?_⟩
  rw [Nat.testBit_or, W_testBit hF _ c hc, testBit_present_map stdMeta m c hc]
  by_cases hk : 0 < F.k
  · simp [hk, hin hk c hc]
  · simp [hk]

/-- `trailer_size()` is 4 exactly when the FLAGS field was written with the FCS bit -/
theorem trailer_size_spec (m : FMap) (hm : sized stdMeta m) :
    trailerSize genMeta (canonical stdMeta m) =
      .ok (match m 1 with
           | some v => if byteAt v 0 / 16 % 2 == 1 then 4 else 0
           | none => 0) := by
  rw [gen_meta_eq_std]
  exact trailerSize_canonical std_wf (by decide) hm

/-- the whole property for histories from the default header: after any sequence of valid writes the payload is
    canonical for the last-write map `L`, every lookup returns `L`'s value or `field_not_present`, and `present()`
    is `L`'s domain -/
theorem history_observations (ws : List (Nat × Bytes)) (h : ∀ w ∈ ws, validWrite stdMeta w) :
    ∃ s, (defaultCtor genMeta).bind (applyWrites genMeta ws) = .ok s ∧
      s.payload = canonical stdMeta (lastWrite defaultMap ws) ∧
      (∀ b, doFindOption genMeta s.payload b =
          match lastWrite defaultMap ws b with
          | some v => .ok v
          | none => .throw .fieldNotPresent) ∧
      present genMeta s.payload = .ok (presentWord (fieldList stdMeta (lastWrite defaultMap ws))) := by
  have hs := sized_lastWrite ws default_sized h
  exact ⟨_, setters_any_order ws h, rfl, fun b => getter_last_write _ hs b, (present_is_domain _ hs).1⟩

/-! ## §3 serialization -/

/-- **length_covers** — whatever the object holds: when `serialize()` succeeds, the bytes this layer writes are the 4
    fixed bytes (version, pad, length) followed by exactly the options payload; the length field is the size of those
    bytes (mod 2^16, the width of `it_len`); the total is header + inner frame + trailer; the trailer is 0 or 4 bytes. -/
theorem length_covers (s : State) (innerLen n tr : Nat) (hdr : Bytes) (hv : s.version < 256) (hp : s.pad < 256)
    (h : serializeHdr genMeta s innerLen = .ok (n, hdr, tr)) :
    hdr.length = 4 + s.payload.length ∧
    byteAt hdr 2 + 256 * byteAt hdr 3 = hdr.length % 65536 ∧
    byteAt hdr 0 = s.version ∧ byteAt hdr 1 = s.pad ∧
    hdr.drop 4 = s.payload ∧
    n = hdr.length + tr + innerLen ∧
    trailerSize genMeta s.payload = .ok tr := by
  unfold serializeHdr at h
  cases ht : trailerSize genMeta s.payload with
  | ok t =>
    simp only [ht] at h
    injection h with h
    injection h with h1 h2
    injection h2 with h2 h3
    subst h1 h2 h3
    refine ⟨by simp; omega, ?_, ?_, ?_, by simp, by simp; omega, rfl⟩
    · simp [byteAt]; omega
    · simp [byteAt]; omega
    · simp [byteAt]; omega
  | throw e => simp [ht] at h
  | fault f => simp [ht] at h

/-- **reparse_same** — for *every* options payload the parser's constructor accepts (every parsed header, every header
    reached by setters from one): serialization succeeds, and the parsing constructor applied to the serialized bytes
    yields the same version, pad and payload — hence the same result of every getter, which are functions of the
    payload — and hands exactly the inner frame's `innerLen` bytes to the 802.11 parser.  Hypotheses: the header fits
    the 16-bit length field, at least 4 bytes follow the header (libtins refuses shorter packets), and the frame is
    not flagged FCS + FAILED_FCS (libtins refuses to parse those by design); `flagsByte` = the FLAGS byte the parser
    reaches in the payload. -/
theorem serialize_reparse_any (payload : Bytes) (p : Parser) (hmk : Parser.mk' genMeta payload = .ok p)
    (h4 : 4 ≤ payload.length) (ver pad innerLen : Nat) (hver : ver < 256) (hpad : pad < 256)
    (hlen : 4 + payload.length < 65536)
    (hinner : 4 ≤ innerLen + (if fcsOf (flagsByte genMeta payload) then 4 else 0))
    (hok : ¬ (fcsOf (flagsByte genMeta payload) = true ∧ badFcsOf (flagsByte genMeta payload) = true)) :
    ∃ hdr tr, serializeHdr genMeta { version := ver, pad := pad, payload := payload } innerLen
        = .ok (4 + payload.length + tr + innerLen, hdr, tr) ∧
      tr = (if fcsOf (flagsByte genMeta payload) then 4 else 0) ∧
      hdr.length = 4 + payload.length ∧
      byteAt hdr 2 + 256 * byteAt hdr 3 = hdr.length ∧
      hdr.drop 4 = payload ∧
      parseCtor genMeta hdr (4 + payload.length + tr + innerLen)
        = .ok ({ version := ver, pad := pad, payload := payload }, innerLen) := by
  have htr := trailerSize_any (M := genMeta) (by decide) payload p hmk h4
  refine ⟨_, _, ?_, rfl, ?_, ?_, ?_, parseCtor_serialized_any payload p hmk h4 ver pad innerLen hver hpad hlen hinner hok⟩
  · simp only [serializeHdr, htr]
  · simp; omega
  · simp [byteAt]; omega
  · simp

/-- every well-aligned header (any frame) is accepted by the parser's constructor, so `serialize_reparse_any` applies
    to every parsed well-aligned header and to every header reached from one by valid writes
    (`setters_any_order_live`) — and to the default header and everything reached from it (`setters_any_order`) -/
theorem wellaligned_accepted (F : Frame) (hF : F.ok stdMeta) (m : FMap) (hm : sized stdMeta m) :
    ∃ p, Parser.mk' genMeta (layL stdMeta F (fieldList stdMeta m)) = .ok p ∧ 4 ≤ (layL stdMeta F (fieldList stdMeta m)).length := by
  rw [gen_meta_eq_std]
  obtain ⟨p, hp, _⟩ := mk_layL std_wf hF (fieldList_sorted stdMeta m) (fieldList_sized hm)
  exact ⟨p, hp, by rw [layL_length]; omega⟩

/-- **serialize_reparse** — the canonical case spelled out on the map: serialising a header whose payload is canonical
    for `m` (with an inner frame of `innerLen` bytes) writes the 4-byte fixed header followed by exactly the canonical
    payload, the length field covers exactly those bytes, the trailer is 4 bytes iff FCS is flagged, and the parsing
    constructor applied to the result yields the same version / pad / payload and hands exactly the inner frame's
    `innerLen` bytes to the 802.11 parser. -/
theorem serialize_reparse (m : FMap) (hm : sized stdMeta m) (ver pad innerLen : Nat) (hver : ver < 256) (hpad : pad < 256)
    (hlen : 4 + (canonical stdMeta m).length < 65536)
    (hinner : 4 ≤ innerLen + (if fcsOn m then 4 else 0))
    (hok : ¬ (fcsOn m = true ∧ badFcs m = true)) :
    ∃ hdr, serializeHdr genMeta { version := ver, pad := pad, payload := canonical stdMeta m } innerLen
        = .ok (4 + (canonical stdMeta m).length + (if fcsOn m then 4 else 0) + innerLen, hdr, if fcsOn m then 4 else 0) ∧
      hdr.length = 4 + (canonical stdMeta m).length ∧
      byteAt hdr 2 + 256 * byteAt hdr 3 = hdr.length ∧
      hdr.drop 4 = canonical stdMeta m ∧
      parseCtor genMeta hdr (4 + (canonical stdMeta m).length + (if fcsOn m then 4 else 0) + innerLen)
        = .ok ({ version := ver, pad := pad, payload := canonical stdMeta m }, innerLen) := by
  rw [gen_meta_eq_std]
  have hfl : stdMeta.size 1 = 1 := by decide
  refine ⟨_, ?_, ?_, ?_, ?_, parseCtor_serialized std_wf hfl hm ver pad innerLen hver hpad hlen hinner hok⟩
  · simp only [serializeHdr, trailerSize_eq std_wf hfl hm]
  · simp; omega
  · simp [byteAt]; omega
  · simp

/-- … and on a well-aligned header with an inert frame -/
theorem serialize_reparse_layout (F : Frame) (hF : F.ok stdMeta) (hin : F.inert stdMeta) (m : FMap) (hm : sized stdMeta m)
    (ver pad innerLen : Nat) (hver : ver < 256) (hpad : pad < 256)
    (hlen : 4 + (layL stdMeta F (fieldList stdMeta m)).length < 65536)
    (hinner : 4 ≤ innerLen + (if fcsOn m then 4 else 0))
    (hok : ¬ (fcsOn m = true ∧ badFcs m = true)) :
    ∃ hdr, serializeHdr genMeta { version := ver, pad := pad, payload := layL stdMeta F (fieldList stdMeta m) } innerLen
        = .ok (4 + (layL stdMeta F (fieldList stdMeta m)).length + (if fcsOn m then 4 else 0) + innerLen, hdr,
               if fcsOn m then 4 else 0) ∧
      hdr.drop 4 = layL stdMeta F (fieldList stdMeta m) ∧
      byteAt hdr 2 + 256 * byteAt hdr 3 = 4 + (layL stdMeta F (fieldList stdMeta m)).length ∧
      parseCtor genMeta hdr (4 + (layL stdMeta F (fieldList stdMeta m)).length + (if fcsOn m then 4 else 0) + innerLen)
        = .ok ({ version := ver, pad := pad, payload := layL stdMeta F (fieldList stdMeta m) }, innerLen) := by
  rw [gen_meta_eq_std]
  have hfl : stdMeta.size 1 = 1 := by decide
  have htr : trailerSize stdMeta (layL stdMeta F (fieldList stdMeta m)) = .ok (if fcsOn m then 4 else 0) := by
    rw [trailerSize_layout std_wf hfl hF hin hm]
    unfold fcsOn
    cases m 1 <;> simp
  refine ⟨_, ?_, ?_, ?_, parseCtor_serialized_layout std_wf hF hin hm ver pad innerLen hver hpad hlen hinner hok⟩
  · simp only [serializeHdr, htr]
  · simp
  · simp [byteAt]; omega

/-! ## non-vacuity -/

/-- a history that inserts below, between and above existing fields and overwrites one -/
example : ∀ w ∈ [((18 : Nat), ([1, 2, 3, 4, 5, 6, 7, 8] : Bytes)), (2, [7]), (15, [1, 0]), (17, [5]), (2, [9])],
    validWrite stdMeta w := by decide

example : sized stdMeta defaultMap := default_sized

example : (lastWrite defaultMap [(2, [7]), (2, [9])]) 2 = some [9] := by decide

example : decodeCanonical stdMeta (canonical stdMeta defaultMap) = some (fieldList stdMeta defaultMap) := by decide

example : fcsOn defaultMap = true ∧ badFcs defaultMap = false ∧ 4 + (canonical stdMeta defaultMap).length = 26 := by decide

/-- a well-aligned header with three present words (radiotap-namespace bit, an empty middle word, a last word with
    unknown bits only), an 8-aligned TSFT that needs 4 bytes of padding behind the chain, and foreign bytes: accepted
    by `decodeLayout`, frame ok and inert -/
def exampleF : Frame :=
  { hb := 2147483648 + 536870912, wsb := le32 2147483648 ++ le32 4194304, tail := [0xaa, 0xbb, 0xcc] }

def exampleM : FMap := fun c => if c = 0 then some [1, 2, 3, 4, 5, 6, 7, 8] else if c = 1 then some [0x10] else none

example : exampleF.ok stdMeta ∧ exampleF.inert stdMeta := by decide

example : decodeLayout stdMeta (layL stdMeta exampleF (fieldList stdMeta exampleM)) = some (exampleF, fieldList stdMeta exampleM) := by
  decide

/-- the two-namespace capture of libtins' own test suite (`expected_packet4`: TSFT, FLAGS, CHANNEL, DBM_SIGNAL,
    RX_FLAGS, MCS in the first word, DBM_SIGNAL and ANTENNA in the second) is accepted by `decodeLayout2` -/
example : (decodeLayout2 stdMeta [0x2b, 0x40, 0x08, 0xa0, 0x20, 0x08, 0, 0, 0, 0, 0, 0, 0xde, 0x18, 0x7a, 0x5c, 0xe3, 1, 0, 0, 0x10, 0,
    0x6c, 0x09, 0x80, 0x04, 0xba, 0, 0, 0, 0x27, 0, 1, 0xba, 0]).map (fun r => (r.2.1.map (·.1), r.2.2.1.map (·.1), r.2.2.2))
    = some ([0, 1, 3, 5, 14, 19], [5, 11], []) := by
  decide

/-- the refutation witness is a well-aligned header the decidable test accepts, with a live frame -/
example : decodeLayout stdMeta (layL stdMeta witnessF (fieldList stdMeta witnessM)) = some (witnessF, fieldList stdMeta witnessM) := by
  decide

/-- parser states are reachable on a broken input as well: a chain whose second word is cut off is refused, a header
    with a field that ends behind the buffer is accepted and walked -/
example : mkC genMeta [0, 0, 0, 0x80, 1, 0] = .throw .malformedPacket := by rfl

example : ∃ c, mkC genMeta [1, 0, 0, 0, 1, 2, 3, 4, 5] = .ok c ∧ hasFields genMeta c.p = true := ⟨_, rfl, by decide⟩

/-- the walk over the two-word test header of libtins' own suite reports eight fields, two of them from the second word -/
example : (match walkC genMeta [0x2b, 0x40, 0x08, 0xa0, 0x20, 0x08, 0, 0, 0, 0, 0, 0, 0xde, 0x18, 0x7a, 0x5c, 0xe3, 1, 0, 0, 0x10, 0,
    0x6c, 0x09, 0x80, 0x04, 0xba, 0, 0, 0, 0x27, 0, 1, 0xba, 0] with
    | .ok (items, _) => items.map (fun it => (it.ns, it.bit, it.ptr))
    | _ => []) = [(0, 0, 12), (0, 1, 20), (0, 3, 22), (0, 5, 26), (0, 14, 28), (0, 19, 30), (1, 5, 33), (1, 11, 34)] := by
  decide

/-- objects are reachable, and accepted payloads exist for the any-payload serialization theorem (a live frame here) -/
example : Reachable { payload := canonical stdMeta defaultMap } := Reachable.default default_is_canonical

example : ∃ p, Parser.mk' genMeta (layL stdMeta witnessF (fieldList stdMeta witnessM)) = .ok p ∧
    4 ≤ (layL stdMeta witnessF (fieldList stdMeta witnessM)).length :=
  wellaligned_accepted witnessF witness_ok.1 witnessM witness_sized

end Tins.Props.C11
