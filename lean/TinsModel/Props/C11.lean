import TinsModel.RadioTap.LemmasDecode
/- Property C11 — RadioTap fields can be set in any order and read back.
   Theorems only (helper lemmas live in TinsModel/RadioTap/Lemmas*.lean).  The model (`writeOption`, `doFindOption`,
   `present`, `trailerSize`, `applyWrites`, `defaultCtor`) runs on the field table generated from the source
   (`genMeta`); the specification (`canonical`, `lastWrite`, `defaultMap`) uses the table of the radiotap standard
   (`stdMeta`). -/
namespace Tins.Props.C11
open Tins Tins.RT

/-- the field table generated from src/utils/radiotap_parser.cpp is the table of the radiotap standard -/
theorem meta_matches_standard : Gen.radiotapMetadata = stdFields ∧ Gen.maxRadiotapField = 22 := by decide

theorem gen_meta_eq_std : genMeta = stdMeta := by
  simp only [genMeta, stdMeta, meta_matches_standard.1, meta_matches_standard.2]

/-- … and is well formed (positive sizes, alignments 1/2/4/8, bits below the reserved bits of the present word) -/
theorem gen_meta_wf : genMeta.wf := by decide

/-- every field setter of `RadioTap` (table generated from src/radiotap.cpp) writes a known field with exactly the
    field's size; every getter looks up a known field and consumes no more than its size; a getter and a setter of
    the same name use the same field and width -/
theorem accessors_paired :
    (∀ s ∈ Gen.setters, s.2.1 < genMeta.max ∧ s.2.2 = genMeta.size s.2.1) ∧
    (∀ g ∈ Gen.getters, g.2.1 < genMeta.max ∧ 0 < g.2.2 ∧ g.2.2 ≤ genMeta.size g.2.1) ∧
    (∀ s ∈ Gen.setters, ∀ g ∈ Gen.getters, g.1 = s.1 → g.2 = s.2) ∧
    (∀ s ∈ Gen.setters, ∃ g ∈ Gen.getters, g.2.1 = s.2.1 ∧ g.2.2 = s.2.2) := by
  decide

/-- **write_canonical** — one `write_option` of a valid write on the canonical payload of a last-write map yields
    the canonical payload of the updated map (present or not, any position, any neighbours). -/
theorem write_canonical (m : FMap) (hm : sized stdMeta m) (f : Nat) (v : Bytes) (hw : validWrite stdMeta (f, v)) :
    writeOption genMeta (canonical stdMeta m) f v = .ok (canonical stdMeta (upd m f v)) := by
  rw [gen_meta_eq_std]
  exact writeOption_canonical (gen_meta_eq_std ▸ gen_meta_wf) hm f v hw

/-- the default constructor produces the canonical payload of the documented default map -/
theorem default_is_canonical :
    defaultCtor genMeta = .ok { payload := canonical stdMeta defaultMap } := by
  rw [gen_meta_eq_std]
  have hwf : stdMeta.wf := gen_meta_eq_std ▸ gen_meta_wf
  have h0 : zeros 4 = canonical stdMeta FMap.empty := by decide
  have hv : ∀ w ∈ defaultWrites, validWrite stdMeta w := by decide
  unfold defaultCtor
  rw [h0]
  exact applyWrites_canonical hwf defaultWrites FMap.empty 0 0 (sized_empty _) hv

theorem default_sized : sized stdMeta defaultMap :=
  sized_lastWrite defaultWrites (sized_empty _) (by decide)

/-- **setters_any_order** — for every finite sequence of valid writes (any order, repetitions allowed) applied to the
    default-constructed header, the options payload is the canonical layout of the last-write map. -/
theorem setters_any_order (ws : List (Nat × Bytes)) (h : ∀ w ∈ ws, validWrite stdMeta w) :
    (defaultCtor genMeta).bind (applyWrites genMeta ws)
      = .ok { payload := canonical stdMeta (lastWrite defaultMap ws) } := by
  rw [default_is_canonical]
  simp only [Out.bind]
  rw [gen_meta_eq_std]
  exact applyWrites_canonical (gen_meta_eq_std ▸ gen_meta_wf) ws defaultMap 0 0 default_sized h

/-- the same from any header whose payload is canonical (e.g. a parsed single-namespace header that `decodeCanonical`
    accepts): version / pad untouched, payload canonical for the last-write map -/
theorem setters_any_order_from (m0 : FMap) (hm : sized stdMeta m0) (ver pad : Nat) (ws : List (Nat × Bytes))
    (h : ∀ w ∈ ws, validWrite stdMeta w) :
    applyWrites genMeta ws { version := ver, pad := pad, payload := canonical stdMeta m0 }
      = .ok { version := ver, pad := pad, payload := canonical stdMeta (lastWrite m0 ws) } := by
  rw [gen_meta_eq_std]
  exact applyWrites_canonical (gen_meta_eq_std ▸ gen_meta_wf) ws m0 ver pad hm h

/-- histories that start from a *parsed* header: whenever the (decidable) oracle test `decodeCanonical` accepts the
    parsed options payload `buf` with field list `fs` — a single present word, known fields only, every field at its
    aligned offset, nothing else — `buf` is the canonical payload of the sized map `mapOfList fs`, and every finite
    sequence of valid writes leads to the canonical payload of the last-write map over it. -/
theorem setters_any_order_parsed (buf : Bytes) (fs : List (Nat × Bytes)) (hdec : decodeCanonical stdMeta buf = some fs)
    (ver pad : Nat) (ws : List (Nat × Bytes)) (h : ∀ w ∈ ws, validWrite stdMeta w) :
    applyWrites genMeta ws { version := ver, pad := pad, payload := buf }
      = .ok { version := ver, pad := pad, payload := canonical stdMeta (lastWrite (mapOfList fs) ws) } := by
  obtain ⟨hm, hbuf, _⟩ := decodeCanonical_sound stdMeta buf fs hdec
  rw [hbuf]
  exact setters_any_order_from _ hm ver pad ws h

/-- **getters = last write** — on the canonical payload of a map, looking a field up yields the stored value, and
    `field_not_present` for a field that was never written. -/
theorem getter_last_write (m : FMap) (hm : sized stdMeta m) (b : Nat) :
    doFindOption genMeta (canonical stdMeta m) b =
      match m b with
      | some v => .ok v
      | none => .throw .fieldNotPresent := by
  rw [gen_meta_eq_std]
  exact doFindOption_canonical (gen_meta_eq_std ▸ gen_meta_wf) hm b

/-- the typed getters (`do_find_option(F).to<T>()` with `sizeof(T) = width`, or a `memcpy` of `width` bytes out of the
    option) succeed with the stored value whenever the width is the field's size (integral conversion) or at most the
    field's size (partial `memcpy`, e.g. `channel_freq`) — which `accessors_paired` establishes for the generated
    getter table (all widths equal the field size except `channel_freq`, which reads the first 2 of 4 bytes). -/
theorem typed_getter_last_write (m : FMap) (hm : sized stdMeta m) (bit width : Nat) (integral : Bool)
    (hw : width = stdMeta.size bit ∨ (integral = false ∧ width ≤ stdMeta.size bit)) :
    getField genMeta (canonical stdMeta m) bit width integral =
      match m bit with
      | some v => .ok v
      | none => .throw .fieldNotPresent := by
  unfold getField
  rw [getter_last_write m hm bit]
  cases hmb : m bit with
  | none => rfl
  | some v =>
    have hv := (hm bit v hmb).2
    simp only
    rcases hw with hw | ⟨hi, hw⟩
    · have h1 : (v.length != width) = false := by simp; omega
      have h2 : ¬ (v.length < width) := by omega
      simp [h1, h2]
    · have h2 : ¬ (v.length < width) := by omega
      simp [hi, h2]

theorem getter_widths :
    ∀ g ∈ Gen.getters, g.2.2 = stdMeta.size g.2.1 ∨ (g.1 = "channel_freq" ∧ g.2.2 ≤ stdMeta.size g.2.1) := by
  decide

/-- **present = domain** — `present()` is the OR of the flags of exactly the written fields. -/
theorem present_is_domain (m : FMap) (hm : sized stdMeta m) :
    present genMeta (canonical stdMeta m) = .ok (presentWord (fieldList stdMeta m)) ∧
    ∀ c, c < stdMeta.max → (presentWord (fieldList stdMeta m)).testBit c = (m c).isSome := by
  rw [gen_meta_eq_std]
  exact ⟨present_canonical (gen_meta_eq_std ▸ gen_meta_wf) hm, fun c hc => testBit_present_map stdMeta m c hc⟩

/-- `trailer_size()` is 4 exactly when the FLAGS field was written with the FCS bit -/
theorem trailer_size_spec (m : FMap) (hm : sized stdMeta m) :
    trailerSize genMeta (canonical stdMeta m) =
      .ok (match m 1 with
           | some v => if byteAt v 0 / 16 % 2 == 1 then 4 else 0
           | none => 0) := by
  rw [gen_meta_eq_std]
  exact trailerSize_canonical (gen_meta_eq_std ▸ gen_meta_wf) (by decide) hm

/-- the whole property for histories from the default header: after any sequence of valid writes the payload is
    canonical for the last-write map `L`, every lookup returns `L`'s value or `field_not_present`, and `present()`
    is `L`'s domain -/
theorem history_observations (ws : List (Nat × Bytes)) (h : ∀ w ∈ ws, validWrite stdMeta w) :
    ∃ s, (defaultCtor genMeta).bind (applyWrites genMeta ws) = .ok s ∧
      s.payload = canonical stdMeta (lastWrite defaultMap ws) ∧
      (∀ b, doFindOption genMeta s.payload b =
          match lastWrite defaultMap ws b with
          | some v => .ok v
          | none => .throw .fieldNotPresent) ∧
      present genMeta s.payload = .ok (presentWord (fieldList stdMeta (lastWrite defaultMap ws))) := by
  have hs := sized_lastWrite ws default_sized h
  exact ⟨_, setters_any_order ws h, rfl, fun b => getter_last_write _ hs b, (present_is_domain _ hs).1⟩

/-- **length_covers / reparse_same** — serialising a header whose payload is canonical for `m` (with an inner frame
    of `innerLen` bytes) writes the 4-byte fixed header followed by exactly the canonical payload, the length field
    covers exactly those bytes, the trailer is 4 bytes iff FCS is flagged, and the parsing constructor applied to the
    result yields the same version / pad / payload (hence, by `getter_last_write`, the same field values) and hands
    exactly the inner frame's `innerLen` bytes to the 802.11 parser.  Hypotheses: the header fits the 16-bit length
    field, at least 4 bytes follow the header (libtins refuses shorter packets), and the frame is not flagged
    FCS + FAILED_FCS (libtins refuses to parse those by design). -/
theorem serialize_reparse (m : FMap) (hm : sized stdMeta m) (ver pad innerLen : Nat) (hver : ver < 256) (hpad : pad < 256)
    (hlen : 4 + (canonical stdMeta m).length < 65536)
    (hinner : 4 ≤ innerLen + (if fcsOn m then 4 else 0))
    (hok : ¬ (fcsOn m = true ∧ badFcs m = true)) :
    ∃ hdr, serializeHdr genMeta { version := ver, pad := pad, payload := canonical stdMeta m } innerLen
        = .ok (4 + (canonical stdMeta m).length + (if fcsOn m then 4 else 0) + innerLen, hdr, if fcsOn m then 4 else 0) ∧
      hdr.length = 4 + (canonical stdMeta m).length ∧
      byteAt hdr 2 + 256 * byteAt hdr 3 = hdr.length ∧
      hdr.drop 4 = canonical stdMeta m ∧
      parseCtor genMeta hdr (4 + (canonical stdMeta m).length + (if fcsOn m then 4 else 0) + innerLen)
        = .ok ({ version := ver, pad := pad, payload := canonical stdMeta m }, innerLen) := by
  rw [gen_meta_eq_std]
  have hwf : stdMeta.wf := gen_meta_eq_std ▸ gen_meta_wf
  have hfl : stdMeta.size 1 = 1 := by decide
  refine ⟨_, ?_, ?_, ?_, ?_, parseCtor_serialized hwf hfl hm ver pad innerLen hver hpad hlen hinner hok⟩
  · simp only [serializeHdr, trailerSize_eq hwf hfl hm]
  · simp; omega
  · simp [byteAt]; omega
  · simp

/-! non-vacuity: a history that inserts below, between and above existing fields and overwrites one -/
example : ∀ w ∈ [((18 : Nat), ([1, 2, 3, 4, 5, 6, 7, 8] : Bytes)), (2, [7]), (15, [1, 0]), (17, [5]), (2, [9])],
    validWrite stdMeta w := by decide

example : sized stdMeta defaultMap := default_sized

example : (lastWrite defaultMap [(2, [7]), (2, [9])]) 2 = some [9] := by decide

example : decodeCanonical stdMeta (canonical stdMeta defaultMap) = some (fieldList stdMeta defaultMap) := by decide

example : fcsOn defaultMap = true ∧ badFcs defaultMap = false ∧ 4 + (canonical stdMeta defaultMap).length = 26 := by decide

end Tins.Props.C11
