import TinsModel.Follower.LemmasIdent
import TinsModel.Follower.LemmasStep
import TinsModel.Follower.LemmasSim
import TinsModel.Follower.LemmasRoute
import TinsModel.Follower.LemmasDeliver
import TinsModel.Follower.LemmasLimit
import TinsModel.Follower.LemmasFold
import TinsModel.Follower.LemmasStreamData
/- Property C07 — stream follower tracks connections, directions and lifetimes: the property theorems.
   Model: TinsModel/Follower/Model.lean (code-shaped, generic in the connection key; the code is `keyOf = identOf`).
   Reference: TinsModel/Follower/Spec.lean (`refKeyOf` = family + unordered endpoint pair). -/
namespace Tins.Props.C07
open Tins Tins.SF

/-! ## 1. connection identity (`StreamIdentifier`) -/

/-- field ranges of a real packet -/
def WellFormed (p : Pkt) : Prop :=
  p.src < (if p.v6 then 2 ^ 128 else 2 ^ 32) ∧ p.dst < (if p.v6 then 2 ^ 128 else 2 ^ 32) ∧
  p.sport < 65536 ∧ p.dport < 65536 ∧ p.seq < 4294967296 ∧ p.ack < 4294967296

instance (p : Pkt) : Decidable (WellFormed p) := by unfold WellFormed; exact inferInstance

/-- the two packets have the same unordered pair of zero-padded (address, port) endpoints -/
def SamePaddedEndpoints (p q : Pkt) : Prop :=
  SameEndpoints (pad p.v6 p.src) p.sport (pad p.v6 p.dst) p.dport (pad q.v6 q.src) q.sport (pad q.v6 q.dst) q.dport

/-- `StreamIdentifier` equality is exactly equality of the unordered pair of padded endpoints
    (direction-independent, and nothing else is identified). -/
theorem ident_iff (p q : Pkt) : identOf p = identOf q ↔ SamePaddedEndpoints p q := by
  unfold identOf SamePaddedEndpoints; exact mkIdent_eq_iff ..

/-- within one address family the identifier is injective on unordered endpoint pairs: two packets get the same
    identifier iff they belong to the same connection (same family, same two endpoints, either direction). -/
theorem ident_injective_within_family (p q : Pkt) (h : p.v6 = q.v6) :
    identOf p = identOf q ↔ refKeyOf p = refKeyOf q := by
  rw [ident_iff]; unfold refKeyOf SamePaddedEndpoints
  rw [mkRefKey_eq_iff]; unfold SameEndpoints
  rw [h]; simp only [pad_inj, true_and]

/-- FULL statement (false of the code, see `ident_injective_fails`): the identifier separates any two connections. -/
def ident_injective : Prop :=
  ∀ p q : Pkt, WellFormed p → WellFormed q → (identOf p = identOf q ↔ refKeyOf p = refKeyOf q)

/-- IPv4 1.2.3.4:1234 -> 5.6.7.8:80 -/
def syn4 : Pkt := { v6 := false, src := 0x01020304, sport := 1234, dst := 0x05060708, dport := 80, flags := 2, seq := 100,
                    ack := 0, payload := none, mss := none, sackOk := false, ts := 1000 }
/-- IPv6 102:304:: :1234 -> 506:708:: :80 -/
def syn6 : Pkt := { syn4 with v6 := true, src := 0x01020304000000000000000000000000,
                              dst := 0x05060708000000000000000000000000, ts := 1001 }

/-- KF-C07-1 witness: an IPv4 connection and the IPv6 connection `a.b.c.d::` with the same ports get one identifier. -/
theorem ident_injective_fails : ¬ ident_injective := by
  intro h
  have := (h syn4 syn6 (by decide) (by decide)).1 (by decide)
  revert this; decide

/-- the excluded region: packets of different families whose zero-padded identifiers coincide -/
def CrossFamilyTwin (p q : Pkt) : Prop := p.v6 ≠ q.v6 ∧ identOf p = identOf q
instance (p q : Pkt) : Decidable (CrossFamilyTwin p q) := by unfold CrossFamilyTwin; exact inferInstance

theorem ident_injective_partial (p q : Pkt) (h : ¬ CrossFamilyTwin p q) :
    identOf p = identOf q ↔ refKeyOf p = refKeyOf q := by
  by_cases hv : p.v6 = q.v6
  · exact ident_injective_within_family p q hv
  · constructor
    · intro he; exact absurd ⟨hv, he⟩ h
    · intro he
      have := congrArg RefKey.ident he
      rwa [ident_refKeyOf, ident_refKeyOf] at this

example : ¬ CrossFamilyTwin syn4 { syn4 with sport := 80, dport := 1234, src := syn4.dst, dst := syn4.src } := by decide
example : CrossFamilyTwin syn4 syn6 := by decide

/-! ## 2. bounded memory per connection -/

/-- At every step boundary of every capture, every live connection is within the three limits
    (`chunks` = entries of both flows' `buffered_payload_`, `bytes` = the `uint32_t` sum of both flows'
    `total_buffered_bytes_`, `sacked` = the `uint32_t` sum of both ACK trackers' `acked_intervals().iterative_size()`,
    exactly the quantities `StreamFollower::process_packet` tests).  Holds for every configuration (ACK tracking on or
    off per flow, any limits) and every key function, in particular for the code (`identOf`) and the reference
    (`refKeyOf`).  That the byte counter equals the bytes really held is C06's invariant (checked here by the oracle at
    run time); that the intervals are the maximal runs of SACKed positions is C19's theorem about the imported tracker. -/
theorem memory_bound {κ : Type} [DecidableEq κ] (cfg : Cfg) (keyOf : Pkt → κ) (lt : κ → κ → Bool) (h : List Pkt) :
    ∀ e ∈ (run cfg keyOf lt Follower.empty h).1.streams,
      e.2.chunks ≤ cfg.maxChunks ∧ e.2.bytes ≤ cfg.maxBytes ∧ e.2.sacked ≤ cfg.maxSacked :=
  run_within cfg keyOf lt h Follower.empty (by intro e he; cases he)

/-! ## 3. the follower refines the reference connection table -/

/-- no two packets of the capture that belong to different connections get the same identifier -/
def CollisionFree (h : List Pkt) : Prop := ∀ p ∈ h, ∀ q ∈ h, identOf p = identOf q → refKeyOf p = refKeyOf q

/-- FULL statement (false of the code, see `trace_refines_reference_fails`): on every capture the callback trace of the
    follower is the trace of the reference connection table (keyed by family + unordered endpoint pair), key for key. -/
def trace_refines_reference : Prop :=
  ∀ (cfg : Cfg) (h : List Pkt), (∀ p ∈ h, WellFormed p) →
    (Model.run cfg Follower.empty h).2 = (Ref.run cfg Follower.empty h).2.map (List.map (Ev.mapKey RefKey.ident))

def cfg0 : Cfg := { attach := false, maxChunks := 512, maxBytes := 3145728, keepAlive := 300000000, acl := true }

/-- KF-C07-1 witness, replayed on the real code by the check: SYN of an IPv4 connection, then SYN of the IPv6
    connection `a.b.c.d::` with the same ports — the reference announces both, the follower only the first. -/
theorem trace_refines_reference_fails : ¬ trace_refines_reference := by
  intro h
  have h1 := h cfg0 [syn4, syn6] (by decide)
  have h2 := congrArg (List.map List.length) h1
  simp only [List.map_map] at h2
  revert h2
  decide

theorem identOf_eq : identOf = fun q => RefKey.ident (refKeyOf q) := by
  funext q; exact (ident_refKeyOf q).symm

/-- On every capture without identifier collisions (by `ident_injective_partial`: without cross-family twins) the
    follower's callback trace *is* the reference trace (all configurations, all interleavings, all timestamps):
    announcements, data/out-of-order callbacks, closes, terminations and their order; the states correspond too
    (`run_sim`). The hypothesis quantifies over all packets of the capture, not only over simultaneously live
    connections (slightly stronger than needed). -/
theorem trace_refines_reference_partial (cfg : Cfg) (h : List Pkt) (hc : CollisionFree h) :
    (Model.run cfg Follower.empty h).2 = (Ref.run cfg Follower.empty h).2.map (List.map (Ev.mapKey RefKey.ident)) := by
  unfold Model.run Ref.run
  rw [identOf_eq]
  refine (run_sim cfg RefKey.ident (fun k => ∃ p ∈ h, k = refKeyOf p) ?_ refKeyOf Ident.lt RefKey.lt (fun _ _ => rfl) h
    (fun p hp => ⟨p, hp, rfl⟩) Follower.empty Follower.empty ⟨rfl, rfl, by intro e he; cases he⟩).2
  intro a b ⟨p, hp, ha⟩ ⟨q, hq, hb⟩ hab
  subst ha; subst hb
  rw [ident_refKeyOf, ident_refKeyOf] at hab
  exact hc p hp q hq hab


/-- the hypothesis of the partial theorem in terms of the excluded region -/
theorem collisionFree_of_no_twins (h : List Pkt) (hn : ∀ p ∈ h, ∀ q ∈ h, ¬ CrossFamilyTwin p q) : CollisionFree h :=
  fun p hp q hq he => (ident_injective_partial p q (hn p hp q hq)).1 he

example : CollisionFree [syn4, { syn4 with sport := 1235 }, { syn6 with sport := 1235 , dport := 81}] := by
  apply collisionFree_of_no_twins; decide

/-! ## 4. every connection is announced exactly once per lifetime

  The statements of sections 4–6 hold for every key function (`keyOf`), hence for the code (`identOf`, `Ident.lt`) and for the
  reference table (`refKeyOf`, `RefKey.lt`); `k` is the key under which a connection is stored.  They are stated for an
  arbitrary follower state with unique keys, which every reachable state has (`reachable_unique`). -/

section generic
variable {κ : Type} [DecidableEq κ]

theorem reachable_unique (cfg : Cfg) (keyOf : Pkt → κ) (lt : κ → κ → Bool) (h : List Pkt) :
    UniqueKeys (run cfg keyOf lt Follower.empty h).1.streams := by
  suffices ∀ F : Follower κ, UniqueKeys F.streams → UniqueKeys (run cfg keyOf lt F h).1.streams from this _ empty_unique
  induction h with
  | nil => intro F hF; exact hF
  | cons p ps ih => intro F hF; unfold run; exact ih _ (step_unique cfg keyOf lt F p hF)

/-- The new-stream callback is made for `k` in a step exactly when the packet belongs to `k`, `k` is not live, and the
    packet is an initial SYN (SYN without ACK) or — with attaching enabled — carries a payload. -/
theorem announce_iff (cfg : Cfg) (keyOf : Pkt → κ) (lt : κ → κ → Bool) (F : Follower κ) (p : Pkt) (k : κ) :
    (∃ e ∈ (step cfg keyOf lt F p).2, e.isNew k = true) ↔
      (k = keyOf p ∧ find? F.streams k = none ∧ startable cfg p = true) := by
  unfold step
  simp only [List.mem_append]
  constructor
  · rintro ⟨e, he | he, hc⟩
    · obtain ⟨s, ht, h⟩ := core_events_shape cfg keyOf F p e he
      rcases h with ⟨ha, rfl⟩ | ⟨x, hx, rfl⟩ | ⟨hf, rfl⟩ | ⟨_, rfl⟩
      · have hk : keyOf p = k := by simpa [Ev.isNew] using hc
        subst hk
        unfold announces at ha
        simp only [Bool.and_eq_true, Option.isNone_iff_eq_none] at ha
        exact ⟨rfl, ha.1, ha.2⟩
      · cases x <;> simp [liftEv, Ev.isNew] at hc
      · simp [Ev.isNew] at hc
      · simp [Ev.isNew] at hc
    · obtain ⟨_, _, _, _, _, rfl⟩ := sweep_events_timeout cfg lt _ _ e he
      simp [Ev.isNew] at hc
  · rintro ⟨rfl, hf, hs⟩
    have ha : announces cfg keyOf F p = true := by unfold announces; simp [hf, hs]
    have ht : target cfg keyOf F p = some (fresh cfg p) := by unfold target; simp [hf, hs]
    refine ⟨Ev.new (keyOf p) (fresh cfg p).sid (fresh cfg p).isPartial, Or.inl ?_, by simp [Ev.isNew]⟩
    rw [stepCore_eq, ht]
    simp [ha]

/-- **announce_once.**  In the callback trace of any capture: `new k` is issued only while `k` is not live, data /
    out-of-order / closed callbacks of `k` only while it is (`bracketed`) — so between an announcement and the closed or
    terminated callback that ends the lifetime there is no second announcement and no callback precedes the
    announcement; and the connections the follower holds at the end are exactly those announced and not yet ended
    (`liveAfter`) — nothing is forgotten without a closed / terminated callback, nothing is kept after one. -/
theorem announce_once (cfg : Cfg) (keyOf : Pkt → κ) (lt : κ → κ → Bool) (h : List Pkt) (k : κ) :
    bracketed k false (run cfg keyOf lt Follower.empty h).2.flatten = true ∧
    liveAfter k false (run cfg keyOf lt Follower.empty h).2.flatten = (find? (run cfg keyOf lt Follower.empty h).1.streams k).isSome :=
  let r := run_scan cfg keyOf lt h Follower.empty k empty_unique
  ⟨r.2, r.1⟩

/-! ## 5. a connection is forgotten exactly when it ends, with the right callback, in that step -/

/-- **forget_iff.**  For a connection that is live before the packet or announced by it:
    it is gone after `process_packet`  ⟺  it ends now (`EndsNow`: it is the packet's connection and is finished or over
    a limit after the packet, or the sweep runs and finds it idle for the keep-alive)  ⟺  a closed / terminated
    callback for it is made in this very step. -/
theorem forget_iff (cfg : Cfg) (keyOf : Pkt → κ) (lt : κ → κ → Bool) (F : Follower κ) (p : Pkt) (k : κ)
    (hu : UniqueKeys F.streams) :
    ((((find? F.streams k).isSome = true ∨ (k = keyOf p ∧ announces cfg keyOf F p = true)) ∧
        find? (step cfg keyOf lt F p).1.streams k = none) ↔ EndsNow cfg keyOf F p k) ∧
    ((∃ e ∈ (step cfg keyOf lt F p).2, e.isEnd k = true) ↔ EndsNow cfg keyOf F p k) :=
  ⟨forgotten_iff cfg keyOf lt F p k hu, end_event_iff cfg keyOf lt F p k hu⟩

/-- **forget_reason.**  Which callback reports the end, and why:
    closed ⟺ the packet's own connection is finished after the packet;
    terminated(BUFFERED_DATA) ⟺ the packet's own connection is over a buffering limit after the packet;
    terminated(TIMEOUT) ⟺ the sweep is due and the connection, as the packet left it, was last seen a keep-alive ago;
    terminated(SACKED_SEGMENTS) ⟺ the packet's own connection is within both buffering limits after the packet and its two
    ACK trackers together hold more than `maxSacked` intervals. -/
theorem forget_reason (cfg : Cfg) (keyOf : Pkt → κ) (lt : κ → κ → Bool) (F : Follower κ) (p : Pkt) (k : κ)
    (hu : UniqueKeys F.streams) :
    ((∃ e ∈ (step cfg keyOf lt F p).2, Ev.isClosed k e = true) ↔
        (k = keyOf p ∧ ∃ s, target cfg keyOf F p = some s ∧ (after s p).isFinished = true)) ∧
    ((∃ e ∈ (step cfg keyOf lt F p).2, Ev.isTerm k .bufferedData e = true) ↔
        (k = keyOf p ∧ ∃ s, target cfg keyOf F p = some s ∧
          ((after s p).chunks > cfg.maxChunks ∨ (after s p).bytes > cfg.maxBytes))) ∧
    ((∃ e ∈ (step cfg keyOf lt F p).2, Ev.isTerm k .timeout e = true) ↔
        (sweepDue cfg (stepCore cfg keyOf F p).1 p.ts ∧
          ∃ s, find? (stepCore cfg keyOf F p).1.streams k = some s ∧ s.lastSeen + cfg.keepAlive ≤ p.ts)) ∧
    ((∃ e ∈ (step cfg keyOf lt F p).2, Ev.isTerm k .sackedSegments e = true) ↔
        (k = keyOf p ∧ ∃ s, target cfg keyOf F p = some s ∧
          (after s p).chunks ≤ cfg.maxChunks ∧ (after s p).bytes ≤ cfg.maxBytes ∧ (after s p).sacked > cfg.maxSacked)) := by
  refine ⟨closed_iff cfg keyOf lt F p k, ?_, term_timeout_iff cfg keyOf lt F p k hu, ?_⟩
  rotate_left
  · have := term_sacked_iff cfg keyOf lt F p k
    unfold overLimit at this
    simp only [Bool.or_eq_false_iff, decide_eq_false_iff_not, Nat.not_lt] at this
    simpa only [and_assoc] using this
  have := term_buffered_iff cfg keyOf lt F p k
  unfold overLimit at this
  simpa only [Bool.or_eq_true, decide_eq_true_eq] using this

/-- **sacked_limit.**  The third limit of `StreamFollower::process_packet`, for every configuration and every state with
    unique keys (every reachable state, `reachable_unique`):
    (1) SACKED_SEGMENTS is reported for `k` in a step exactly when `k` is the packet's connection and, after the packet,
        is within both buffering limits while its ACK trackers hold more than `maxSacked` intervals (the count is the
        `uint32_t` sum of both flows' interval counts);
    (2) the connection is then forgotten in that very step (`find_stream` fails afterwards);
    (3) no step reports a connection terminated twice — limits check and idle sweep together make at most one
        termination callback per connection, so with `announce_once` (no callback for a connection that is not live)
        crossing the limit is reported exactly once per lifetime.
    That every connection still live at a step boundary holds at most `maxSacked` intervals is `memory_bound`. -/
theorem sacked_limit (cfg : Cfg) (keyOf : Pkt → κ) (lt : κ → κ → Bool) (F : Follower κ) (p : Pkt) (k : κ)
    (hu : UniqueKeys F.streams) :
    ((∃ e ∈ (step cfg keyOf lt F p).2, Ev.isTerm k .sackedSegments e = true) ↔
        (k = keyOf p ∧ ∃ s, target cfg keyOf F p = some s ∧
          (after s p).chunks ≤ cfg.maxChunks ∧ (after s p).bytes ≤ cfg.maxBytes ∧ (after s p).sacked > cfg.maxSacked)) ∧
    ((∃ e ∈ (step cfg keyOf lt F p).2, Ev.isTerm k .sackedSegments e = true) →
        find? (step cfg keyOf lt F p).1.streams k = none) ∧
    (step cfg keyOf lt F p).2.countP (Ev.isTermOf k) ≤ 1 := by
  refine ⟨(forget_reason cfg keyOf lt F p k hu).2.2.2, ?_, step_term_count cfg keyOf lt F p k hu⟩
  rintro ⟨e, he, ht⟩
  have hend : ∃ e ∈ (step cfg keyOf lt F p).2, e.isEnd k = true := by
    refine ⟨e, he, ?_⟩
    cases e <;> simp_all [Ev.isTerm, Ev.isEnd]
  exact ((forget_iff cfg keyOf lt F p k hu).1.2 ((forget_iff cfg keyOf lt F p k hu).2.1 hend)).2

end generic

/-- **finished ⟺ FIN both ways or RST** (flag level).  A live stream (not finished) is finished after a packet iff one of
    its flows claims the packet and the packet carries RST, or carries FIN while the opposite direction is already
    FIN_SENT; and a direction is FIN_SENT exactly from its first FIN-carrying segment on (`updateState_finSent`). -/
theorem finished_iff_flags (s : Stream) (p : Pkt) (hnf : s.isFinished = false) :
    (after s p).isFinished = true ↔
      ((s.client.packetBelongs p = true ∧ (p.rst = true ∨ (p.fin = true ∧ s.server.state = .finSent))) ∨
       (s.client.packetBelongs p = false ∧ s.server.packetBelongs p = true ∧
          (p.rst = true ∨ (p.fin = true ∧ s.client.state = .finSent)))) :=
  finished_after_iff s p hnf

theorem fin_sent_iff (f : Flow) (p : Pkt) :
    (f.updateState p).state = .finSent ↔ (p.rst = false ∧ (p.fin = true ∨ f.state = .finSent)) :=
  updateState_finSent f p

/-! ## 6. every segment reaches the flow whose destination it names -/

/-- **route_correct.**  In every reachable state of the follower (the code's keys), for every live stream and every
    packet whose identifier selects it, of the stream's address family, between two distinct endpoints:
    the client flow claims the packet iff its destination is the server endpoint, the server flow iff not (so exactly
    one flow claims it); the other flow is left untouched; and every data / out-of-order callback made for the packet
    carries that direction. -/
theorem route_correct (cfg : Cfg) (h : List Pkt) :
    ∀ e ∈ (Model.run cfg Follower.empty h).1.streams, ∀ p : Pkt,
      identOf p = e.1 → p.v6 = e.2.sid.v6 → ¬ (p.src = p.dst ∧ p.sport = p.dport) →
      let toServer := decide (p.dst = e.2.sid.saddr ∧ p.dport = e.2.sid.sport)
      e.2.client.packetBelongs p = toServer ∧ e.2.server.packetBelongs p = !toServer ∧
      (toServer = true → (after e.2 p).server = e.2.server) ∧
      (toServer = false → (after e.2 p).client = e.2.client) ∧
      (∀ x ∈ (Stream.route { e.2 with lastSeen := p.ts } p).2,
          (∃ q d, x = SEv.ooo toServer q d) ∨ (∃ pl, x = SEv.data toServer pl)) := by
  intro e he p hk hfam hne
  have ht := run_tied cfg identOf Ident.lt Sid.ident (fun _ => rfl) h Follower.empty (by intro e he; cases he) e he
  obtain ⟨hb1, hb2⟩ := belongs_iff e.2 p ht.2.1 (by rw [hk]; exact ht.1) hfam hne
  obtain ⟨r1, r2, _⟩ := route_flows { e.2 with lastSeen := p.ts } p
  refine ⟨hb1, hb2, ?_, ?_, ?_⟩
  · intro hts
    have : e.2.client.packetBelongs p = true := by rw [hb1]; exact hts
    exact (r1 this).1
  · intro hts
    have h1 : e.2.client.packetBelongs p = false := by rw [hb1]; exact hts
    have h2 : e.2.server.packetBelongs p = true := by rw [hb2, hts]; rfl
    exact (r2 h1 h2).1
  · have := route_events_direction { e.2 with lastSeen := p.ts } p
    simp only at this
    rw [hb1] at this
    exact this

/-- KF-C07-1, consequence for routing: a packet of the *other* family whose identifier selects the stream is claimed by
    neither flow — the segment is dropped (only `last_seen` moves). -/
theorem route_cross_family_dropped (cfg : Cfg) (h : List Pkt) :
    ∀ e ∈ (Model.run cfg Follower.empty h).1.streams, ∀ p : Pkt, p.v6 ≠ e.2.sid.v6 →
      e.2.client.packetBelongs p = false ∧ e.2.server.packetBelongs p = false := by
  intro e he p hfam
  have ht := run_tied cfg identOf Ident.lt Sid.ident (fun _ => rfl) h Follower.empty (by intro e he; cases he) e he
  exact cross_family_dropped e.2 p ht.2.1 hfam

/-- non-vacuity: after the IPv4 SYN the follower holds one stream, and the SYN+ACK answering it satisfies the
    hypotheses of `route_correct` for it (and is routed to the server flow) -/
example :
    let F := (Model.run cfg0 Follower.empty [syn4]).1
    let synack : Pkt := { syn4 with src := syn4.dst, dst := syn4.src, sport := 80, dport := 1234, flags := 18 }
    F.streams.length = 1 ∧
    (∀ e ∈ F.streams, identOf synack = e.1 ∧ synack.v6 = e.2.sid.v6 ∧ e.2.server.packetBelongs synack = true) := by
  decide

/-! ## 7. the payload of a SYN segment (KF-C07-3, fixed) -/

/-- The payload of an initial SYN segment (TCP Fast Open) is handed to the application whole — one client-data callback
    carrying exactly the payload — by the stream the SYN creates; afterwards the client direction expects the byte after
    it (`isn + 1 + |d|`) and nothing is buffered.  (Before the fix the first byte was dropped and the direction stalled.) -/
theorem syn_payload_delivered (cfg : Cfg) (p : Pkt) (d : Bytes) (hi : cfg.ignC = false)
    (hs : p.syn = true) (hr : p.rst = false) (hf : p.fin = false) (hp : p.payload = some d)
    (h0 : 0 < d.length) (hn : d.length < 2147483648) :
    (Stream.route { (Stream.ofPacket cfg p) with lastSeen := p.ts } p).2 = [SEv.data true d] ∧
    (Stream.route { (Stream.ofPacket cfg p) with lastSeen := p.ts } p).1.client.tr.seq = wrap32 (wrap32 (p.seq + 1) + d.length) ∧
    (Stream.route { (Stream.ofPacket cfg p) with lastSeen := p.ts } p).1.client.tr.buf = [] :=
  Tins.SF.syn_payload_delivered cfg p d hi hs hr hf hp h0 hn

example : ({ syn4 with payload := some [1, 2, 3] } : Pkt).syn = true ∧ ({ syn4 with payload := some [1, 2, 3] } : Pkt).rst = false := by decide

/-! non-vacuity of sections 4–5 -/

def rst4 : Pkt := { syn4 with src := syn4.dst, dst := syn4.src, sport := 80, dport := 1234, flags := 20, ts := 2000 }
def late6 : Pkt := { syn6 with sport := 9, ts := 900000000 }

/-- non-vacuity of `forget_iff` / `forget_reason`: after the SYN, the RST answering it ends the connection now … -/
example : EndsNow cfg0 identOf (Model.run cfg0 Follower.empty [syn4]).1 rst4 (identOf syn4) := by
  refine Or.inl ⟨by decide, _, rfl, ?_⟩
  decide

/-- … and a packet of another connection 15 minutes later makes the sweep end it (TIMEOUT) -/
example : EndsNow cfg0 identOf (Model.run cfg0 Follower.empty [syn4]).1 late6 (identOf syn4) := by
  refine Or.inr ⟨by unfold sweepDue; decide, _, rfl, ?_⟩
  decide

example : (Model.run cfg0 Follower.empty [syn4, late6]).1.streams.length = 1 ∧
    (Model.run cfg0 Follower.empty [syn4, late6]).2.flatten.length = 3 := by
  decide

/-! non-vacuity of `sacked_limit`: ACK tracking on for both flows, limit lowered to one interval; after the handshake a
    client segment carrying two SACK blocks above the cumulative ACK makes the limits check report SACKED_SEGMENTS, once,
    and the connection is forgotten; with one block it stays live, within the limit -/

def cfgS : Cfg := { cfg0 with maxSacked := 1, ackC := true, ackS := true }
def synack4 : Pkt := { syn4 with src := syn4.dst, dst := syn4.src, sport := 80, dport := 1234, flags := 18, seq := 500, ack := 101, ts := 1001 }
def ack4 : Pkt := { syn4 with flags := 16, seq := 101, ack := 501, ts := 1002 }
def sack4 (edges : List Nat) : Pkt := { ack4 with ts := 1003, sack := .edges edges }

example :
    let r := Model.run cfgS Follower.empty [syn4, synack4, ack4, sack4 [510, 520, 530, 540]]
    r.2.flatten.countP (Ev.isTerm (identOf syn4) .sackedSegments) = 1 ∧ r.2.flatten.countP (Ev.isTermOf (identOf syn4)) = 1 ∧
    r.1.streams.length = 0 := by decide

example :
    let r := Model.run cfgS Follower.empty [syn4, synack4, ack4, sack4 [510, 520]]
    r.2.flatten.countP (Ev.isTermOf (identOf syn4)) = 0 ∧ (r.1.streams.map (fun e => e.2.sacked)) = [1] := by decide

/-! ## 8. refinement with collisions excluded only among live connections -/

/-- no packet of the capture belongs to a connection whose identifier coincides with that of a *different* connection
    that is live (in the reference table) at the moment the packet arrives -/
def NoLiveCollision (cfg : Cfg) (h : List Pkt) : Prop :=
  Tins.SF.NoLiveCollision cfg RefKey.ident refKeyOf RefKey.lt Follower.empty h

/-- The sharper form of `trace_refines_reference_partial` (the design's statement): the follower's callback trace is the
    reference trace on every capture in which no two *simultaneously live* connections collide under the identifier. -/
theorem trace_refines_reference_live (cfg : Cfg) (h : List Pkt) (hc : NoLiveCollision cfg h) :
    (Model.run cfg Follower.empty h).2 = (Ref.run cfg Follower.empty h).2.map (List.map (Ev.mapKey RefKey.ident)) := by
  unfold Model.run Ref.run
  rw [identOf_eq]
  exact (run_simLive cfg RefKey.ident refKeyOf Ident.lt RefKey.lt (fun _ _ => rfl) h Follower.empty Follower.empty
    ⟨rfl, rfl, by intro a b ha; cases ha⟩ hc).2

/-- non-vacuity: the IPv4 connection is reset before its IPv6 twin starts — a cross-family twin pair, yet never live together -/
example : NoLiveCollision cfg0 [syn4, rst4, syn6] ∧ ¬ CollisionFree [syn4, rst4, syn6] := by
  refine ⟨?_, ?_⟩
  · unfold NoLiveCollision
    simp only [Tins.SF.NoLiveCollision]
    refine ⟨by decide, by decide, by decide, trivial⟩
  · intro h
    have := h syn4 List.mem_cons_self syn6 (List.mem_cons_of_mem _ (List.mem_cons_of_mem _ List.mem_cons_self)) (by decide)
    revert this; decide

/-! ## 9. per-flow state is a fold, and per-flow delivery is C06's theorem

  `LiveThrough cfg keyOf lt F h k` : connection `k` is live after every packet of `h` (it may be created and forgotten any
  number of times before `F`; these theorems describe one lifetime, from any state in which it is live).
  `Stream.toClient s p` / `toServer` : which flow of `s` claims `p` (`route_correct`: the one whose destination endpoint `p` names).
  `Flow.feed acl f ps` : `Flow::process_packet` (+ the stream's data handler) folded over `ps`;
  `Flow.feedHanded acl f ps` : what that fold hands to the data callback, packet by packet;
  `handedIn k c trace` : the payloads the follower's callback trace hands to the data callback of direction `c` of `k`. -/

section generic
variable {κ : Type} [DecidableEq κ]

/-- **flow_is_fold.**  For as long as a connection stays live — for every interleaving with packets of other connections,
    every configuration, every key function (so for the code's `identOf`, where under `NoLiveCollision` the key classes
    are the real connections, and for the reference's `refKeyOf`) — the stream the follower holds for it is
    `Stream::process_packet` folded over the connection's own packets; its client flow is `Flow::process_packet` folded over
    exactly the packets of the connection that the client flow claims, its server flow over those the server flow
    claims; and the payloads handed to the two data callbacks in the follower's trace are those the two flow folds hand
    over.  (`route_correct` is the one-step form of the routing.) -/
theorem flow_is_fold (cfg : Cfg) (keyOf : Pkt → κ) (lt : κ → κ → Bool) (h : List Pkt) (F : Follower κ) (k : κ) (s : Stream)
    (hu : UniqueKeys F.streams) (hf : find? F.streams k = some s) (hl : LiveThrough cfg keyOf lt F h k) :
    let sub := h.filter (fun p => decide (keyOf p = k))
    ∃ s', find? (run cfg keyOf lt F h).1.streams k = some s' ∧ s' = s.feed sub ∧
      s'.client = s.client.feed s.acl (sub.filter s.toClient) ∧
      s'.server = s.server.feed s.acl (sub.filter s.toServer) ∧
      handedIn k true (run cfg keyOf lt F h).2.flatten = Flow.feedHanded s.acl s.client (sub.filter s.toClient) ∧
      handedIn k false (run cfg keyOf lt F h).2.flatten = Flow.feedHanded s.acl s.server (sub.filter s.toServer) := by
  intro sub
  obtain ⟨h1, h2⟩ := run_projects cfg keyOf lt h F k s hu hf hl
  obtain ⟨f1, f2, _⟩ := feed_flows sub s
  obtain ⟨t1, t2⟩ := feedTrace_handed k keyOf h s
  refine ⟨_, h1, rfl, f1, f2, ?_, ?_⟩
  · rw [← handedIn_flatten_filter, h2]; exact t1
  · rw [← handedIn_flatten_filter, h2]; exact t2

/-- the creating packet: a connection that is not live, whose packet may start it and which survives that packet, is
    afterwards held as `Stream::process_packet` applied to the freshly constructed stream (`fresh`: `Stream(packet)`, the
    new-stream callback, ESTABLISHED forcing when attached mid-stream), and the callbacks are the announcement followed
    by those of that one application -/
theorem lifetime_starts (cfg : Cfg) (keyOf : Pkt → κ) (lt : κ → κ → Bool) (F : Follower κ) (p : Pkt)
    (hu : UniqueKeys F.streams) (hf : find? F.streams (keyOf p) = none) (hs : startable cfg p = true)
    (hl : (find? (step cfg keyOf lt F p).1.streams (keyOf p)).isSome = true) :
    find? (step cfg keyOf lt F p).1.streams (keyOf p) = some (after (fresh cfg p) p) ∧
    (step cfg keyOf lt F p).2.filter (fun e => decide (e.key = keyOf p)) =
      Ev.new (keyOf p) (fresh cfg p).sid (fresh cfg p).isPartial :: liveEvents (keyOf p) (fresh cfg p) p :=
  step_creates cfg keyOf lt F p hu hf hs hl

/-- **per_flow_delivery (client direction).**  Composition of `flow_is_fold` with C06's refinement theorem.  Let the
    connection `k` be live on stream `s0`, its client flow out of the handshake with a tracker that is C06's model after
    the arrivals `h0` of the byte stream `sc` (initial sequence number `isn`; `D` = bytes already handed over and cleared
    by auto-cleanup) — `FlowInv`, established by `syn_starts_client` / `attach_starts` below.  Then for every capture `h`
    through which `k` stays live and in which every data segment routed to the client flow carries bytes of `sc`
    (`DirOK`: C06's `okAt` for each, at the offset its sequence number names) — whatever the packets of other connections
    and of the opposite direction are —
    * the payloads handed to the client data callback are exactly `expectedHanded`: after each segment that moves the
      frontier the bytes from the old to the new frontier (auto-cleanup) or the whole prefix up to the new frontier;
    * put together (auto-cleanup) they are `sc` from the old frontier up to the final frontier, each byte once;
    * afterwards the client flow satisfies the invariant again, for the extended arrival history. -/
theorem per_flow_delivery_client (cfg : Cfg) (keyOf : Pkt → κ) (lt : κ → κ → Bool) (h : List Pkt) (F : Follower κ) (k : κ)
    (s0 : Stream) (hu : UniqueKeys F.streams) (hf : find? F.streams k = some s0) (hl : LiveThrough cfg keyOf lt F h k)
    (sc : Bytes) (isn : Nat) (hs : sc.length < 2147483648) (hisn : isn < 4294967296) (h0 : List Tins.DT.SegD) (D : Bytes)
    (inv : FlowInv s0.acl sc isn s0.client h0 D)
    (hok : DirOK sc isn h0 ((h.filter (fun p => decide (keyOf p = k))).filter s0.toClient)) :
    let sub := (h.filter (fun p => decide (keyOf p = k))).filter s0.toClient
    handedIn k true (run cfg keyOf lt F h).2.flatten = expectedHanded s0.acl sc isn h0 sub ∧
    (s0.acl = true → (handedIn k true (run cfg keyOf lt F h).2.flatten).flatten =
        (sc.take (Tins.DT.frontier ((dirHist sc isn h0 sub).map Tins.DT.SegD.seg) sc.length)).drop
          (Tins.DT.frontier (h0.map Tins.DT.SegD.seg) sc.length)) ∧
    ∃ s' D', find? (run cfg keyOf lt F h).1.streams k = some s' ∧
      FlowInv s0.acl sc isn s'.client (dirHist sc isn h0 sub) D' := by
  intro sub
  obtain ⟨s', g1, _, g3, _, g5, _⟩ := flow_is_fold cfg keyOf lt h F k s0 hu hf hl
  obtain ⟨⟨D', i1⟩, i2⟩ := flow_fold_delivers s0.acl sc isn hs hisn sub s0.client h0 D inv hok
  refine ⟨by rw [g5]; exact i2, ?_, s', D', g1, by rw [g3]; exact i1⟩
  intro ha
  rw [g5, i2, ha]
  exact (expectedHanded_flatten sc isn sub h0).1

/-- **per_flow_delivery (server direction)** — the same for the server flow and the server data callback. -/
theorem per_flow_delivery_server (cfg : Cfg) (keyOf : Pkt → κ) (lt : κ → κ → Bool) (h : List Pkt) (F : Follower κ) (k : κ)
    (s0 : Stream) (hu : UniqueKeys F.streams) (hf : find? F.streams k = some s0) (hl : LiveThrough cfg keyOf lt F h k)
    (ss : Bytes) (isn : Nat) (hs : ss.length < 2147483648) (hisn : isn < 4294967296) (h0 : List Tins.DT.SegD) (D : Bytes)
    (inv : FlowInv s0.acl ss isn s0.server h0 D)
    (hok : DirOK ss isn h0 ((h.filter (fun p => decide (keyOf p = k))).filter s0.toServer)) :
    let sub := (h.filter (fun p => decide (keyOf p = k))).filter s0.toServer
    handedIn k false (run cfg keyOf lt F h).2.flatten = expectedHanded s0.acl ss isn h0 sub ∧
    (s0.acl = true → (handedIn k false (run cfg keyOf lt F h).2.flatten).flatten =
        (ss.take (Tins.DT.frontier ((dirHist ss isn h0 sub).map Tins.DT.SegD.seg) ss.length)).drop
          (Tins.DT.frontier (h0.map Tins.DT.SegD.seg) ss.length)) ∧
    ∃ s' D', find? (run cfg keyOf lt F h).1.streams k = some s' ∧
      FlowInv s0.acl ss isn s'.server (dirHist ss isn h0 sub) D' := by
  intro sub
  obtain ⟨s', g1, _, _, g4, _, g6⟩ := flow_is_fold cfg keyOf lt h F k s0 hu hf hl
  obtain ⟨⟨D', i1⟩, i2⟩ := flow_fold_delivers s0.acl ss isn hs hisn sub s0.server h0 D inv hok
  refine ⟨by rw [g6]; exact i2, ?_, s', D', g1, by rw [g4]; exact i1⟩
  intro ha
  rw [g6, i2, ha]
  exact (expectedHanded_flatten ss isn sub h0).1

end generic

/-- what the invariant says about the flow, in C06's own terms: with the cleared bytes put back, the flow's tracker
    satisfies C06's whole specification (`specOKw`: delivered = the stream prefix up to the frontier, next expected sequence
    number = `isn` + frontier, every buffered chunk strictly above the frontier, inside the stream and equal to it, byte
    counter = bytes held) -/
theorem flow_inv_is_c06_spec (acl : Bool) (s : Bytes) (isn : Nat) (f : Flow) (h : List Tins.DT.SegD) (D : Bytes)
    (hs : s.length < 2147483648) (hisn : isn < 4294967296) (inv : FlowInv acl s isn f h D) :
    Tins.DT.specOKw s isn (h.map Tins.DT.SegD.seg) (Tins.DT.prefixP D f.tr).obs = true ∧
    D ++ f.tr.payload = s.take (Tins.DT.frontier (h.map Tins.DT.SegD.seg) s.length) := by
  have h1 := Tins.Props.C06.tracker_refines_spec_wide s isn h hs hisn inv.ti.ok
  have h2 := Tins.Props.C06.delivered_is_prefix s isn h hs hisn inv.ti.ok
  rw [← inv.ti.tr] at h1 h2
  exact ⟨h1, h2⟩

/-- how a lifetime starts, initial SYN: after the SYN `p` that creates it (no FIN / RST on it) the client flow of the new
    stream satisfies the invariant for the stream that starts one past the SYN's sequence number — including the data the
    SYN itself may carry (TCP Fast Open), which has been handed over as `expectedHanded1` says -/
theorem syn_starts_client (cfg : Cfg) (sc : Bytes) (p : Pkt) (hs : sc.length < 2147483648)
    (hi : cfg.ignC = false) (hrec : cfg.recovery = none) (h1 : p.syn = true) (h2 : p.rst = false) (h3 : p.fin = false)
    (hp : pktOK sc (wrap32 (p.seq + 1)) [] p) :
    (∃ D', FlowInv cfg.acl sc (wrap32 (p.seq + 1)) (after (Stream.ofPacket cfg p) p).client (dirStep sc (wrap32 (p.seq + 1)) [] p) D') ∧
    (Stream.ofPacket cfg p).client.handed p = expectedHanded1 cfg.acl sc (wrap32 (p.seq + 1)) [] p := by
  have hb : (Stream.ofPacket cfg p).toClient p = true := by
    simp [Stream.toClient, Stream.ofPacket, Flow.configure, Flow.init, Flow.packetBelongs]
  have ha := (after_flows (Stream.ofPacket cfg p) p).1
  rw [hb] at ha
  simp only [if_true] at ha
  rw [ha]
  have hds : p.dataSeq = wrap32 (p.seq + 1) := by unfold Pkt.dataSeq; simp [h1]
  exact flow_step_syn cfg.acl sc (Stream.ofPacket cfg p).client p.dataSeq p hs rfl hi
    (by simp [Stream.ofPacket, Flow.configure, hrec]) rfl h1 h2 h3 hp

/-- how a lifetime starts, attached mid-stream: both flows of the stream created for a non-SYN packet are forced to
    ESTABLISHED before the packet is processed, with empty trackers expecting the packet's own sequence number (client
    direction) and its acknowledgement number (server direction): both satisfy the invariant, with no arrival yet -/
theorem attach_starts (cfg : Cfg) (sc ss : Bytes) (p : Pkt) (hsyn : (p.syn && !p.ackf) = false)
    (hic : cfg.ignC = false) (his : cfg.ignS = false) (hrec : cfg.recovery = none) :
    FlowInv cfg.acl sc p.dataSeq (fresh cfg p).client [] [] ∧ FlowInv cfg.acl ss p.ack (fresh cfg p).server [] [] := by
  unfold fresh
  simp only [hsyn, Bool.false_eq_true, if_false]
  exact ⟨⟨by simp [Stream.established], hic, by simp [Stream.established, Stream.ofPacket, Flow.configure, hrec],
           ⟨rfl, trivial, fun _ => rfl, fun _ => rfl⟩⟩,
         ⟨by simp [Stream.established], his, by simp [Stream.established, Stream.ofPacket, Flow.configure, hrec],
           ⟨rfl, trivial, fun _ => rfl, fun _ => rfl⟩⟩⟩

/-! non-vacuity of section 9: a client stream of 5 bytes at an ISN just below the wrap point, connection 1.2.3.4:1234 ->
    5.6.7.8:80 interleaved with another connection (same hosts, other client port); the segments arrive out of order with
    an overlap (`[4,5]` first, then `[1,2]`, then `[2,3]`); after the SYN the hypotheses of `per_flow_delivery_client` hold and the callback is handed `[1,2]` then
    `[3,4,5]` -/

def isnX : Nat := 4294967294
def synX : Pkt := { syn4 with seq := isnX }
def dX (seq : Nat) (d : Bytes) (ts : Nat) : Pkt := { syn4 with flags := 24, seq := seq, ack := 501, payload := some d, ts := ts }
def otherX : Pkt := { syn4 with sport := 1235, ts := 1001 }
def histX : List Pkt := [otherX, dX 2 [4, 5] 1002, { otherX with flags := 24, seq := 101, payload := some [9] },
                         dX 4294967295 [1, 2] 1003, dX 0 [2, 3] 1004]

example :
    let F := (Model.run cfg0 Follower.empty [synX]).1
    let k := identOf synX
    let s0 := after (Stream.ofPacket cfg0 synX) synX
    find? F.streams k = some s0 ∧ LiveThrough cfg0 identOf Ident.lt F histX k ∧
    DirOK [1, 2, 3, 4, 5] (wrap32 (isnX + 1)) [] ((histX.filter (fun p => decide (identOf p = k))).filter s0.toClient) ∧
    pktOK [1, 2, 3, 4, 5] (wrap32 (synX.seq + 1)) [] synX ∧
    handedIn k true (Model.run cfg0 F histX).2.flatten = [[1, 2], [3, 4, 5]] := by
  refine ⟨by rfl, by decide, by decide, by decide, by decide⟩


/-! ## 10. `ignore_client_data` / `ignore_server_data`, and the follower without a new-stream callback -/

section generic
variable {κ : Type} [DecidableEq κ]

/-- **ignore_data.**  A direction the application asked to ignore (in the new-stream callback: `cfg.ignC` / `cfg.ignS` set
    `flags_.ignore_data_packets` of the flow for good) is never handed any data for as long as the connection lives, for every
    capture; its flow still follows the flags (so `forget_iff`, `finished_iff_flags` and the limits apply unchanged: they hold
    for every configuration). -/
theorem ignore_data (cfg : Cfg) (keyOf : Pkt → κ) (lt : κ → κ → Bool) (h : List Pkt) (F : Follower κ) (k : κ) (s : Stream)
    (hu : UniqueKeys F.streams) (hf : find? F.streams k = some s) (hl : LiveThrough cfg keyOf lt F h k) :
    (s.client.ignoreData = true → handedIn k true (run cfg keyOf lt F h).2.flatten = []) ∧
    (s.server.ignoreData = true → handedIn k false (run cfg keyOf lt F h).2.flatten = []) := by
  obtain ⟨_, _, _, _, _, g5, g6⟩ := flow_is_fold cfg keyOf lt h F k s hu hf hl
  exact ⟨fun hi => by rw [g5]; exact (feedHanded_ignored _ _ _ hi).1, fun hi => by rw [g6]; exact (feedHanded_ignored _ _ _ hi).1⟩

/-- … and the flags are what the configuration says, from the creation of the stream on -/
theorem ignore_flags_from_cfg (cfg : Cfg) (p : Pkt) :
    (fresh cfg p).client.ignoreData = cfg.ignC ∧ (fresh cfg p).server.ignoreData = cfg.ignS := by
  unfold fresh; split <;> exact ⟨rfl, rfl⟩

/-- **no new-stream callback.**  `stepX` / `runX` are `StreamFollower::process_packet` with `on_new_connection_` possibly
    empty.  `callback_not_set` leaves the call exactly when no callback is installed and the packet would create a stream
    (its connection is not live and it is an initial SYN or, when attaching, carries data); the stream is then live, held
    as its constructor left it, no callback has been made and nothing else changed.  With the callback installed `runX`
    is `run`, so every theorem of this file applies to it; in both cases keys stay unique and every live stream stays
    within the three limits. -/
theorem callback_not_set_path (cfg : Cfg) (keyOf : Pkt → κ) (lt : κ → κ → Bool) :
    (∀ F p, ((stepX cfg keyOf lt F p).2.2 = true ↔
        (cfg.cbSet = false ∧ find? F.streams (keyOf p) = none ∧ startable cfg p = true)) ∧
      ((stepX cfg keyOf lt F p).2.2 = true →
        (stepX cfg keyOf lt F p).2.1 = [] ∧
        find? (stepX cfg keyOf lt F p).1.streams (keyOf p) = some (Stream.ofPacket cfg.raw p) ∧
        ∀ k, k ≠ keyOf p → find? (stepX cfg keyOf lt F p).1.streams k = find? F.streams k)) ∧
    (cfg.cbSet = true → ∀ h F, (runX cfg keyOf lt F h).1 = (run cfg keyOf lt F h).1 ∧
        (runX cfg keyOf lt F h).2 = (run cfg keyOf lt F h).2.map (fun evs => (evs, false))) ∧
    (∀ h, UniqueKeys (runX cfg keyOf lt Follower.empty h).1.streams ∧
      ∀ e ∈ (runX cfg keyOf lt Follower.empty h).1.streams,
        e.2.chunks ≤ cfg.maxChunks ∧ e.2.bytes ≤ cfg.maxBytes ∧ e.2.sacked ≤ cfg.maxSacked) :=
  ⟨fun F p => stepX_throws_iff cfg keyOf lt F p,
   fun hc h F => runX_of_cbSet cfg keyOf lt h F hc,
   fun h => ⟨runX_unique cfg keyOf lt h Follower.empty empty_unique,
             runX_within cfg keyOf lt h Follower.empty (by intro e he; cases he)⟩⟩

end generic

/-- non-vacuity: without a callback the SYN throws and leaves the stream tracked; with the client direction ignored the
    stream of section 9 hands over nothing -/
example : (Model.stepX { cfg0 with cbSet := false } Follower.empty syn4).2.2 = true ∧
    (Model.stepX { cfg0 with cbSet := false } Follower.empty syn4).1.streams.length = 1 := by decide

example :
    let cfgI : Cfg := { cfg0 with ignC := true }
    let F := (Model.run cfgI Follower.empty [synX]).1
    (F.streams.map (fun e => e.2.client.ignoreData)) = [true] ∧ LiveThrough cfgI identOf Ident.lt F histX (identOf synX) ∧
    handedIn (identOf synX) true (Model.run cfgI F histX).2.flatten = [] := by
  refine ⟨by decide, by decide, by decide⟩


/-! ## 11. recovery mode (`Stream::enable_recovery_mode`)

  Recovery mode is part of the model (`Cfg.recovery`, `Flow.recEnd`, `Flow.recover`) and of the correspondence; every theorem
  above that is stated for all configurations covers it (identity, announce_once, forget_iff / forget_reason, memory_bound,
  sacked_limit, route_correct, flow_is_fold, ignore_data, callback_not_set_path).  `per_flow_delivery_*` asks for a flow
  without a recovery handler (`FlowInv.rc`): while the handler is installed the flow deliberately skips holes. -/

/-- **recovery_skips_hole.**  What the handler does: an out-of-order segment lying ahead of the expected sequence number and
    inside the recovery window (plain `uint32_t` comparisons, as in `Stream::recovery_mode_handler`), on a flow with nothing
    buffered, makes the flow jump to the segment — the hole before it is given up — and the segment is delivered at once
    (out-of-order callback, then data callback with the segment appended); the handler stays bound to the direction exactly
    while the window's end lies beyond the segment. -/
theorem recovery_skips_hole (f : Flow) (p : Pkt) (d : Bytes) (e : Nat)
    (hi : (f.pre p).ignoreData = false) (hp : p.payload = some d) (hr : (f.pre p).recEnd = some e)
    (hb : (f.pre p).tr.buf = []) (hahead : seqCompare p.dataSeq (f.pre p).tr.seq > 0)
    (hwin : p.dataSeq > (f.pre p).tr.seq ∧ p.dataSeq ≤ e) (h0 : 0 < d.length) (hn : d.length < 2147483648) :
    (f.processPacket p).2.1 = some (p.dataSeq, d) ∧ (f.processPacket p).2.2 = true ∧
    (f.processPacket p).1.tr.payload = (f.pre p).tr.payload ++ d ∧
    (f.processPacket p).1.tr.seq = wrap32 (p.dataSeq + d.length) ∧ (f.processPacket p).1.tr.buf = [] ∧
    (f.processPacket p).1.recEnd = (if e > p.dataSeq then some e else none) :=
  Tins.SF.recovery_skips_hole f p d e hi hp hr hb hahead hwin h0 hn

/-- a flow without a recovery handler never gets one (the handler is only installed from the new-stream callback) -/
theorem recovery_stays_off (acl : Bool) (f : Flow) (p : Pkt) (h : f.recEnd = none) : (f.stepIn acl p).recEnd = none := by
  have hr : (f.pre p).recEnd = none := by rw [pre_recEnd]; exact h
  by_cases hi : (f.pre p).ignoreData = true
  · have : f.processPacket p = (f.pre p, none, false) := by unfold Flow.processPacket; simp [hi]
    unfold Flow.stepIn; rw [this]; exact hr
  · have hi : (f.pre p).ignoreData = false := by simpa using hi
    cases hp : p.payload with
    | none => unfold Flow.stepIn; rw [processPacket_none f p hp]; exact hr
    | some d => rw [(stepIn_some acl f p d hi hr hp).2.2.2.1]; exact hr

/-- non-vacuity: attached mid-stream with a recovery window of 100; the first segment the capture sees after the one it
    attached on lies 10 bytes ahead: the hole is skipped, the segment delivered, the handler stays -/
example :
    let cfgR : Cfg := { cfg0 with attach := true, recovery := some 100 }
    let p0 := dX 1000 [1] 1002
    let p1 := dX 1011 [7, 8] 1003
    let r := Model.run cfgR Follower.empty [p0, p1]
    handedIn (identOf p0) true r.2.flatten = [[1], [7, 8]] ∧
    (r.1.streams.map (fun e => (e.2.client.tr.seq, e.2.client.recEnd))) = [(1013, some 1100)] := by
  decide


end Tins.Props.C07
