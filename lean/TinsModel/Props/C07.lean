import TinsModel.Follower.LemmasIdent
import TinsModel.Follower.LemmasStep
import TinsModel.Follower.LemmasSim
/- Property C07 — stream follower tracks connections, directions and lifetimes: the property theorems.
   Model: TinsModel/Follower/Model.lean (code-shaped, generic in the connection key; the code is `keyOf = identOf`).
   Reference: TinsModel/Follower/Spec.lean (`refKeyOf` = family + unordered endpoint pair). -/
namespace Tins.Props.C07
open Tins Tins.SF

/-! ## 1. connection identity (`StreamIdentifier`) -/

/-- field ranges of a real packet -/
def WellFormed (p : Pkt) : Prop :=
  p.src < (if p.v6 then 2 ^ 128 else 2 ^ 32) ∧ p.dst < (if p.v6 then 2 ^ 128 else 2 ^ 32) ∧
  p.sport < 65536 ∧ p.dport < 65536 ∧ p.seq < 4294967296 ∧ p.ack < 4294967296

instance (p : Pkt) : Decidable (WellFormed p) := by unfold WellFormed; exact inferInstance

/-- the two packets have the same unordered pair of zero-padded (address, port) endpoints -/
def SamePaddedEndpoints (p q : Pkt) : Prop :=
  SameEndpoints (pad p.v6 p.src) p.sport (pad p.v6 p.dst) p.dport (pad q.v6 q.src) q.sport (pad q.v6 q.dst) q.dport

/-- `StreamIdentifier` equality is exactly equality of the unordered pair of padded endpoints
    (direction-independent, and nothing else is identified). -/
theorem ident_iff (p q : Pkt) : identOf p = identOf q ↔ SamePaddedEndpoints p q := by
  unfold identOf SamePaddedEndpoints; exact mkIdent_eq_iff ..

/-- within one address family the identifier is injective on unordered endpoint pairs: two packets get the same
    identifier iff they belong to the same connection (same family, same two endpoints, either direction). -/
theorem ident_injective_within_family (p q : Pkt) (h : p.v6 = q.v6) :
    identOf p = identOf q ↔ refKeyOf p = refKeyOf q := by
  rw [ident_iff]; unfold refKeyOf SamePaddedEndpoints
  rw [mkRefKey_eq_iff]; unfold SameEndpoints
  rw [h]; simp only [pad_inj, true_and]

/-- FULL statement (false of the code, see `ident_injective_fails`): the identifier separates any two connections. -/
def ident_injective : Prop :=
  ∀ p q : Pkt, WellFormed p → WellFormed q → (identOf p = identOf q ↔ refKeyOf p = refKeyOf q)

/-- IPv4 1.2.3.4:1234 -> 5.6.7.8:80 -/
def syn4 : Pkt := { v6 := false, src := 0x01020304, sport := 1234, dst := 0x05060708, dport := 80, flags := 2, seq := 100,
                    ack := 0, payload := none, mss := none, sackOk := false, ts := 1000 }
/-- IPv6 102:304:: :1234 -> 506:708:: :80 -/
def syn6 : Pkt := { syn4 with v6 := true, src := 0x01020304000000000000000000000000,
                              dst := 0x05060708000000000000000000000000, ts := 1001 }

/-- KF-C07-1 witness: an IPv4 connection and the IPv6 connection `a.b.c.d::` with the same ports get one identifier. -/
theorem ident_injective_fails : ¬ ident_injective := by
  intro h
  have := (h syn4 syn6 (by decide) (by decide)).1 (by decide)
  revert this; decide

/-- the excluded region: packets of different families whose zero-padded identifiers coincide -/
def CrossFamilyTwin (p q : Pkt) : Prop := p.v6 ≠ q.v6 ∧ identOf p = identOf q
instance (p q : Pkt) : Decidable (CrossFamilyTwin p q) := by unfold CrossFamilyTwin; exact inferInstance

theorem ident_injective_partial (p q : Pkt) (h : ¬ CrossFamilyTwin p q) :
    identOf p = identOf q ↔ refKeyOf p = refKeyOf q := by
  by_cases hv : p.v6 = q.v6
  · exact ident_injective_within_family p q hv
  · constructor
    · intro he; exact absurd ⟨hv, he⟩ h
    · intro he
      have := congrArg RefKey.ident he
      rwa [ident_refKeyOf, ident_refKeyOf] at this

example : ¬ CrossFamilyTwin syn4 { syn4 with sport := 80, dport := 1234, src := syn4.dst, dst := syn4.src } := by decide
example : CrossFamilyTwin syn4 syn6 := by decide

/-! ## 2. bounded memory per connection -/

/-- At every step boundary of every capture, every live connection is within both buffering limits
    (`chunks` = entries of both flows' `buffered_payload_`, `bytes` = the `uint32_t` sum of both flows'
    `total_buffered_bytes_`, exactly the quantities `StreamFollower::process_packet` tests).  Holds for every key
    function, in particular for the code (`identOf`) and the reference (`refKeyOf`).
    That the byte counter equals the bytes really held is C06's invariant (checked here by the oracle at run time). -/
theorem memory_bound {κ : Type} [DecidableEq κ] (cfg : Cfg) (keyOf : Pkt → κ) (lt : κ → κ → Bool) (h : List Pkt) :
    ∀ e ∈ (run cfg keyOf lt Follower.empty h).1.streams, e.2.chunks ≤ cfg.maxChunks ∧ e.2.bytes ≤ cfg.maxBytes :=
  run_within cfg keyOf lt h Follower.empty (by intro e he; cases he)

/-! ## 3. the follower refines the reference connection table -/

/-- no two packets of the capture that belong to different connections get the same identifier -/
def CollisionFree (h : List Pkt) : Prop := ∀ p ∈ h, ∀ q ∈ h, identOf p = identOf q → refKeyOf p = refKeyOf q

/-- FULL statement (false of the code, see `trace_refines_reference_fails`): on every capture the callback trace of the
    follower is the trace of the reference connection table (keyed by family + unordered endpoint pair), key for key. -/
def trace_refines_reference : Prop :=
  ∀ (cfg : Cfg) (h : List Pkt), (∀ p ∈ h, WellFormed p) →
    (Model.run cfg Follower.empty h).2 = (Ref.run cfg Follower.empty h).2.map (List.map (Ev.mapKey RefKey.ident))

def cfg0 : Cfg := ⟨false, 512, 3145728, 300000000, true⟩

/-- KF-C07-1 witness, replayed on the real code by the check: SYN of an IPv4 connection, then SYN of the IPv6
    connection `a.b.c.d::` with the same ports — the reference announces both, the follower only the first. -/
theorem trace_refines_reference_fails : ¬ trace_refines_reference := by
  intro h
  have h1 := h cfg0 [syn4, syn6] (by decide)
  have h2 := congrArg (List.map List.length) h1
  simp only [List.map_map] at h2
  revert h2
  decide

theorem identOf_eq : identOf = fun q => RefKey.ident (refKeyOf q) := by
  funext q; exact (ident_refKeyOf q).symm

/-- On every capture without identifier collisions (by `ident_injective_partial`: without cross-family twins) the
    follower's callback trace *is* the reference trace (all configurations, all interleavings, all timestamps):
    announcements, data/out-of-order callbacks, closes, terminations and their order; the states correspond too
    (`run_sim`). The hypothesis quantifies over all packets of the capture, not only over simultaneously live
    connections (slightly stronger than needed). -/
theorem trace_refines_reference_partial (cfg : Cfg) (h : List Pkt) (hc : CollisionFree h) :
    (Model.run cfg Follower.empty h).2 = (Ref.run cfg Follower.empty h).2.map (List.map (Ev.mapKey RefKey.ident)) := by
  unfold Model.run Ref.run
  rw [identOf_eq]
  refine (run_sim cfg RefKey.ident (fun k => ∃ p ∈ h, k = refKeyOf p) ?_ refKeyOf Ident.lt RefKey.lt (fun _ _ => rfl) h
    (fun p hp => ⟨p, hp, rfl⟩) Follower.empty Follower.empty ⟨rfl, rfl, by intro e he; cases he⟩).2
  intro a b ⟨p, hp, ha⟩ ⟨q, hq, hb⟩ hab
  subst ha; subst hb
  rw [ident_refKeyOf, ident_refKeyOf] at hab
  exact hc p hp q hq hab


/-- the hypothesis of the partial theorem in terms of the excluded region -/
theorem collisionFree_of_no_twins (h : List Pkt) (hn : ∀ p ∈ h, ∀ q ∈ h, ¬ CrossFamilyTwin p q) : CollisionFree h :=
  fun p hp q hq he => (ident_injective_partial p q (hn p hp q hq)).1 he

example : CollisionFree [syn4, { syn4 with sport := 1235 }, { syn6 with sport := 1235 , dport := 81}] := by
  apply collisionFree_of_no_twins; decide

end Tins.Props.C07
