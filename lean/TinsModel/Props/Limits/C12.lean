import TinsModel.Ownership.Model
import TinsModel.Gen.Limits
/- Limits of property C12 tied to the C++ source (see Props/Limits/C07.lean for the method). -/
namespace Tins.Props.Limits.C12
open Tins Tins.Own Tins.Gen

theorem limits_found_C12 : Limits.notFoundC12 = [] := by decide

/-- `PDUOption::small_buffer_size`: a moved-from option keeps a payload of up to that many bytes (copied out of the small
    buffer) and loses a longer one (heap pointer stolen) — the numeral 8 of `Opt.movedFrom` -/
theorem limits_agree_optionSmallBuffer :
    (Opt.movedFrom ⟨1, 0, List.replicate Limits.optionSmallBuffer 7⟩).data = List.replicate Limits.optionSmallBuffer 7 ∧
    (Opt.movedFrom ⟨1, 0, List.replicate (Limits.optionSmallBuffer + 1) 7⟩).data = [] := by decide

end Tins.Props.Limits.C12
