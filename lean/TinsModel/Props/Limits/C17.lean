import TinsModel.Capture.Timestamp
import TinsModel.Capture.Sniffer
import TinsModel.Capture.Pcap
import TinsModel.Gen.Limits
/- Limits of property C17 tied to the C++ source (see Props/Limits/C07.lean for the method). -/
namespace Tins.Props.Limits.C17
open Tins Tins.Capture Tins.Gen

theorem limits_found_C17 : Limits.notFoundC17 = [] := by decide

/-- `MICROSECONDS_IN_SECOND` (the numeral 1000000 of `Timestamp.ofTimeval / seconds / microseconds`) -/
theorem limits_agree_microsecondsInSecond :
    (Timestamp.ofTimeval ⟨1, 0⟩).us = Limits.microsecondsInSecond ∧
    (Timestamp.mk (Limits.microsecondsInSecond - 1)).seconds = 0 ∧ (Timestamp.mk Limits.microsecondsInSecond).seconds = 1 ∧
    (Timestamp.mk (Limits.microsecondsInSecond - 1)).microseconds = Limits.microsecondsInSecond - 1 ∧
    (Timestamp.mk Limits.microsecondsInSecond).microseconds = 0 := by decide

/-- `Internals::is_dot3(ptr, sz)`: `sz >= MIN && ptr[OFF] < LIM` (numerals 13 / 12 / 8 of `isDot3`) -/
theorem limits_agree_isDot3 :
    isDot3 (List.replicate 20 0) (Limits.isDot3MinSize - 1) = some false ∧ isDot3 (List.replicate 20 0) Limits.isDot3MinSize = some true ∧
    isDot3 (List.replicate Limits.isDot3Offset 0 ++ [UInt8.ofNat (Limits.isDot3Limit - 1)] ++ List.replicate 7 0) 20 = some true ∧
    isDot3 (List.replicate Limits.isDot3Offset 0 ++ [UInt8.ofNat Limits.isDot3Limit] ++ List.replicate 7 0) 20 = some false ∧
    isDot3 (List.replicate (Limits.isDot3Offset - 1) 7 ++ [9, 0, 9] ++ List.replicate 7 9) 20 = some true := by decide

/-- what gen_c17.py reads as the writer's snapshot length is what the pcap model accepts at most (C17's own theorem
    `snaplen_ok` proves the relation; here the two generated tables are compared with the hand-written bound) -/
theorem limits_agree_snifferSnapLen : Limits.snifferDefaultSnapLen ≤ maxSnaplen := by decide

end Tins.Props.Limits.C17
