import TinsModel.RadioTap.Model
import TinsModel.Gen.Limits
import TinsModel.Gen.RadioTapMeta
/- Limits of property C11 tied to the C++ source (see Props/Limits/C07.lean for the method).  The field table and
   `MAX_RADIOTAP_FIELD` are tied by gen_radiotap.py / Props/C11 already; here: the fixed header size. -/
namespace Tins.Props.Limits.C11
open Tins Tins.RT Tins.Gen

theorem limits_found_C11 : Limits.notFoundC11 = [] := by decide

def isMalformed {α : Type} : Out α → Bool
  | .throw .malformedPacket => true
  | _ => false

/-- `sizeof(radiotap_header)` (version, pad, length): a buffer shorter than it is malformed, the advertised length must
    cover it plus the first present word (numerals 4 / 8 of `parseCtor`) -/
theorem limits_agree_hdrRadioTap (M : Meta) :
    isMalformed (parseCtor M [0, 0, 8, 0] (Limits.hdrRadioTap - 1)) = true ∧
    isMalformed (parseCtor M [0, 0, UInt8.ofNat (Limits.hdrRadioTap + 3), 0, 0, 0, 0, 0] 8) = true := by
  constructor <;> rfl

end Tins.Props.Limits.C11
