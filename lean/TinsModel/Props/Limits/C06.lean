import TinsModel.Basic.Seq32
import TinsModel.Gen.Limits
/- Limits of property C06 tied to the C++ source (see Props/Limits/C07.lean for the method). -/
namespace Tins.Props.Limits.C06
open Tins Tins.Gen

theorem limits_found_C06 : Limits.notFoundC06 = [] := by decide

/-- `seq_number_diff` of `Internals::seq_compare` (RFC 1982: half of the sequence space) is the threshold of the
    model's `seqCompare` — "within half the sequence space of the current position" in the property text -/
theorem limits_agree_seqNumberDiff :
    seqCompare 0 (Limits.seqNumberDiff - 1) = -1 ∧ seqCompare 0 Limits.seqNumberDiff = 1 ∧
    seqCompare Limits.seqNumberDiff 0 = 1 ∧ seqCompare (Limits.seqNumberDiff + 1) 0 = -1 := by decide

/-- and it is half of what `wrap32` wraps at -/
theorem limits_agree_seqSpace : wrap32 (2 * Limits.seqNumberDiff) = 0 ∧ wrap32 (2 * Limits.seqNumberDiff - 1) = 2 * Limits.seqNumberDiff - 1 := by
  decide

end Tins.Props.Limits.C06
