import TinsModel.Address.Model
import TinsModel.Gen.Limits
/- Limits of property C16 tied to the C++ source (see Props/Limits/C07.lean for the method). -/
namespace Tins.Props.Limits.C16
open Tins Tins.Addr Tins.Gen

theorem limits_found_C16 : Limits.notFoundC16 = [] := by decide

def isLogicError {A : Type} : Slash A → Bool
  | .logicError => true
  | _ => false

/-- `IPv4Address::address_size`: prefix lengths up to 8 * size are accepted by `operator/`, one more is a logic error
    (numeral 32 of `slash4` / `fromPrefixLength`), and the all-ones mask is 2^(8 * size) - 1 (numeral 4294967295) -/
theorem limits_agree_ipv4AddressSize :
    isLogicError (slash4 0 (8 * Limits.ipv4AddressSize)) = false ∧ isLogicError (slash4 0 (8 * Limits.ipv4AddressSize + 1)) = true ∧
    V4.fromPrefixLength (8 * Limits.ipv4AddressSize) = V4.fromPrefixLength 32 ∧ V4.fromPrefixLength (8 * Limits.ipv4AddressSize + 1) = V4.fromPrefixLength 0 ∧
    V4.lastFromMask 0 0 = V4.ofU32 (2 ^ (8 * Limits.ipv4AddressSize) - 1) := by decide

/-- `IPv6Address::address_size` / `HWAddress<6>::address_size`: the buffer sizes `k` the harness and the theorems of
    Props/C16 instantiate (limits 128 and 48 = 8k), and the seed of `std::hash<IPv6Address>` -/
theorem limits_agree_bufAddressSizes :
    isLogicError (slashBuf Limits.ipv6AddressSize (List.replicate 16 0) 128) = false ∧
    isLogicError (slashBuf Limits.ipv6AddressSize (List.replicate 16 0) 129) = true ∧
    isLogicError (slashBuf Limits.hwAddressSize (List.replicate 6 0) 48) = false ∧
    isLogicError (slashBuf Limits.hwAddressSize (List.replicate 6 0) 49) = true ∧
    B.hash6 [] = UInt64.ofNat Limits.ipv6AddressSize := by decide

/-- the buffer `IPv6Address::to_string` hands to `inet_ntop` (`char buffer[INET6_ADDRSTRLEN]`, `sizeof(buffer)`) is the
    size the model's `V6.toString` uses (numeral 46); it exceeds the longest text + NUL (39 + 1), while a buffer of 39
    would make the all-ones address throw -/
theorem limits_agree_ipv6ToStringBufferSize :
    (∀ a, V6.toString a = V6.toStringSized Limits.ipv6ToStringBufferSize a) ∧ 39 + 1 ≤ Limits.ipv6ToStringBufferSize ∧
    V6.toStringSized 39 (List.replicate 16 255) = none := ⟨fun _ => rfl, by decide, by decide⟩

end Tins.Props.Limits.C16
