import TinsModel.Checksum.Serialize
import TinsModel.Gen.Limits
import TinsModel.Gen.TagsC05
/-
  Limits of property C05 tied to the C++ source (translator/gen_limits.py -> Gen/Limits.lean; method as in
  Props/Limits/C07.lean).  `Checksum/Serialize.lean` restates header sizes, the 60 / 50 minimum sizes (through Gen/TagsC05),
  the RFC 4884 minimum 128 and units 4 / 8, the 4-bit header-length maximum and the checksum offsets and protocol numbers;
  Props/C05.lean proves its theorems with those numerals (`omega`).  Each is tied here through the model function.
-/
namespace Tins.Props.Limits.C05
open Tins Tins.Ck Tins.Ck.Ser Tins.Gen

theorem limits_found_C05 : Limits.notFoundC05 = [] := by decide

/-- `header_size()` of every fixed-size layer of the description language -/
theorem limits_agree_headerSizes :
    headerSize (.eth [] [] 0) = Limits.hdrEthernetII ∧ headerSize (.dot1q 0 0 0 0 true) = Limits.hdrDot1Q ∧
    headerSize (.ip 0 0 0 0 0 0 [] [] []) = Limits.hdrIp ∧ headerSize (.ip6 0 0 0 0 [] [] []) = Limits.hdrIpv6 ∧
    headerSize (.tcp 0 0 0 0 0 0 0 []) = Limits.hdrTcp ∧ headerSize (.udp 0 0) = Limits.hdrUdp ∧
    headerSize (.icmp 8 0 0 0 0 0 0 false []) = Limits.hdrIcmp ∧ headerSize (.icmp6 128 0 0 0 false []) = Limits.hdrIcmpv6 ∧
    headerSize (.icmp 13 0 0 0 0 0 0 false []) = Limits.icmpHdrTimestamp ∧ headerSize (.icmp 14 0 0 0 0 0 0 false []) = Limits.icmpHdrTimestamp ∧
    headerSize (.icmp 17 0 0 0 0 0 0 false []) = Limits.icmpHdrAddressMask ∧ headerSize (.icmp 18 0 0 0 0 0 0 false []) = Limits.icmpHdrAddressMask ∧
    headerSize (.pppoe 0 0 0 []) = Limits.hdrPPPoE ∧ headerSize (.mpls 0 0 0 0) = Limits.hdrMpls ∧
    headerSize (.dot3 [] []) = Limits.hdrDot3 ∧ headerSize (.snap 0 0 0) = Limits.hdrSnap ∧ headerSize (.loop 0) = Limits.hdrLoopback ∧
    headerSize (.sll 0 0 0 [] 0) = Limits.hdrSll ∧ headerSize (.ah 0 0 [0, 0, 0, 0] 0) = Limits.hdrIpsecAh ∧
    headerSize (.esp 0 0) = Limits.hdrIpsecEsp := by decide

/-- the 60-byte Ethernet minimum and the 50-byte Dot1Q minimum: what gen_tags_c05.py and gen_limits.py read agree, and the
    model's `trailerSize` pads exactly to them -/
theorem limits_agree_minFrames :
    TagsC05.ethMinFrame = Limits.ethMinFrame ∧ TagsC05.dot1qMin = Limits.dot1qMin ∧
    Limits.ethMinFrameText = Limits.ethMinFrame ∧ Limits.dot1qMinText = Limits.dot1qMin ∧
    (List.range 100).all (fun n => Limits.hdrEthernetII + n + trailerSize (.eth [] [] 0) (some n) ==
      max Limits.ethMinFrame (Limits.hdrEthernetII + n)) = true ∧
    Limits.hdrEthernetII + trailerSize (.eth [] [] 0) none = Limits.ethMinFrame ∧
    (List.range 100).all (fun n => Limits.hdrDot1Q + n + trailerSize (.dot1q 0 0 0 0 true) (some n) ==
      max Limits.dot1qMin (Limits.hdrDot1Q + n)) = true := by decide

/-- the property text itself names the Ethernet minimum -/
theorem limits_agree_ethMinFrame_property : Limits.ethMinFrame = 60 := by decide

/-- RFC 4884: inner PDUs are padded to the 128-byte minimum, beyond it to the length unit (4 for ICMP, 8 for ICMPv6) -/
theorem limits_agree_icmpMinPayload :
    trailerSize (.icmp 3 0 0 0 0 0 0 false [(1, 1, [])]) (some 1) = extStructSize [(1, 1, [])] + (Limits.icmpMinPayloadTrailer - 1) ∧
    trailerSize (.icmp 3 0 0 0 0 0 0 false [(1, 1, [])]) (some Limits.icmpMinPayloadTrailer) = extStructSize [(1, 1, [])] ∧
    trailerSize (.icmp 3 0 0 0 0 0 0 false [(1, 1, [])]) (some (Limits.icmpMinPayloadTrailer + 1)) =
      extStructSize [(1, 1, [])] + (Limits.icmpLengthUnit - 1) ∧
    trailerSize (.icmp6 1 0 0 0 false [(1, 1, [])]) (some 1) = extStructSize [(1, 1, [])] + (Limits.icmp6MinPayloadTrailer - 1) ∧
    trailerSize (.icmp6 1 0 0 0 false [(1, 1, [])]) (some Limits.icmp6MinPayloadTrailer) = extStructSize [(1, 1, [])] ∧
    trailerSize (.icmp6 1 0 0 0 false [(1, 1, [])]) (some (Limits.icmp6MinPayloadTrailer + 1)) =
      extStructSize [(1, 1, [])] + (Limits.icmp6LengthUnit - 1) ∧
    extStructSize [] = Limits.icmpExtStructHeader ∧ extStructSize [(1, 1, [])] = Limits.icmpExtStructHeader + Limits.icmpExtObjHeader ∧
    Limits.icmpMinPayload = Limits.icmpMinPayloadTrailer ∧ Limits.icmpMinPayload = Limits.icmpMinPayloadWrite ∧
    Limits.icmpMinPayload = Limits.icmp6MinPayloadTrailer ∧ Limits.icmpMinPayload = Limits.icmp6MinPayloadWrite := by decide

/-- the length octet `write` stores for ICMP (byte 5) / ICMPv6 (byte 4) with extensions and a short inner PDU: MIN / unit -/
theorem limits_agree_icmpLengthOctet :
    (write (.icmp 3 0 0 0 0 0 0 true [(1, 1, [])]) [.raw [1, 2, 3, 4]] [1, 2, 3, 4] none)[5]? =
      some (UInt8.ofNat (Limits.icmpMinPayloadWrite / Limits.icmpLengthUnit)) ∧
    (write (.icmp6 1 0 0 0 true [(1, 1, [])]) [.raw [1, 2, 3, 4, 5, 6, 7, 8]] [1, 2, 3, 4, 5, 6, 7, 8] none)[4]? =
      some (UInt8.ofNat (Limits.icmp6MinPayloadWrite / Limits.icmp6LengthUnit)) := by decide

/-- `new_doff > MAX` / `new_head_len > MAX`: 4-bit header-length fields in UNIT-octet words -/
theorem limits_agree_headerLengthMax :
    tcpThrows (.tcp 0 0 0 0 0 0 0 [(30, List.replicate (Limits.tcpDataOffsetUnit * Limits.tcpMaxDataOffset - Limits.hdrTcp - 2) 0)]) = false ∧
    tcpThrows (.tcp 0 0 0 0 0 0 0 [(30, List.replicate (Limits.tcpDataOffsetUnit * Limits.tcpMaxDataOffset - Limits.hdrTcp - 1) 0)]) = true ∧
    optsModelled (.ip 0 0 0 0 0 0 [] [] [(0x83, List.replicate (Limits.ipHeadLenUnit * Limits.ipMaxHeadLen - Limits.hdrIp - 2) 0)]) = true ∧
    optsModelled (.ip 0 0 0 0 0 0 [] [] [(0x83, List.replicate (Limits.ipHeadLenUnit * Limits.ipMaxHeadLen - Limits.hdrIp - 1) 0)]) = false := by
  decide

/-- IPv6 extension headers are padded to UNIT octets -/
theorem limits_agree_ipv6ExtUnit :
    (List.range 40).all (fun n => (n + 2 + ip6ExtPad (List.replicate n 0)) % Limits.ipv6ExtUnit == 0 &&
      ip6ExtPad (List.replicate n 0) < Limits.ipv6ExtUnit) = true := by decide

/-- where the checksum tails store their result, and the protocol numbers of the pseudo-headers -/
theorem limits_agree_checksumSites (s d buf : Bytes) (size hlen : Nat) :
    ipTail buf hlen = poke16 buf Limits.offIpCheck (bswap16 (wrap16 (not32 (fold32 (doChecksum (buf.take hlen)))))) ∧
    tcpTail (.ip4 s d) buf size = poke16 buf Limits.offTcpCheck
      (bswap16 (bswap16 (wrap16 (not32 (fold32 (wrap32 (pseudoSum s d size Limits.protoTcp + sumRange buf))))))) ∧
    icmpTail buf = poke16 buf Limits.offIcmpCheck (wrap16 (not32 (sumRange buf))) ∧
    icmp6Tail (.ip6 s d) buf size = poke16 buf Limits.offIcmpv6Check
      (not32 (fold32 (wrap32 (pseudoSum s d size Limits.protoIcmpv6 + sumRange buf))) % 65536) :=
  ⟨rfl, rfl, rfl, rfl⟩

theorem limits_agree_udpChecksumSite (s d buf : Bytes) (size : Nat) :
    udpTail (.ip4 s d) buf size =
      poke16 buf Limits.offUdpCheck
        (if wrap16 (not32 (fold32 (wrap32 (pseudoSum s d size Limits.protoUdp + sumRange buf)))) = 0 then 65535
         else wrap16 (not32 (fold32 (wrap32 (pseudoSum s d size Limits.protoUdp + sumRange buf))))) := rfl

/-- loopback family numbers and the SNAP SAP the writer stores -/
theorem limits_agree_l2Numbers :
    (write (.loop 0) [.ip 0 0 0 0 0 0 [] [] []] [] none).take 4 = [UInt8.ofNat Limits.pfInet, 0, 0, 0] ∧
    (write (.loop 0) [.ip6 0 0 0 0 [] [] []] [] none).take 4 = [UInt8.ofNat Limits.pfInet6, 0, 0, 0] ∧
    (write (.loop 0) [.llc 0 0] [] none).take 4 = [UInt8.ofNat Limits.pfLlc, 0, 0, 0] ∧
    (write (.snap 3 0 0) [] [] none).take 2 = [UInt8.ofNat Limits.snapDefaultSap, UInt8.ofNat Limits.snapDefaultSap] := by decide

end Tins.Props.Limits.C05
