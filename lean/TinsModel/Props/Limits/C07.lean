import TinsModel.Follower.Defaults
import TinsModel.Follower.Spec
import TinsModel.Gen.Limits
/-
  Limits of property C07 tied to the C++ source (translator/gen_limits.py -> Gen/Limits.lean).
  Each theorem equates a constant extracted from the CURRENT source with the numeral the model / spec uses (where the
  numeral is woven into proofs it is exhibited through the model function that contains it).  A changed constant makes
  exactly these theorems fail; checks/C07.py then crosses the boundary at the value the source says (default_limit_case).
-/
namespace Tins.Props.Limits.C07
open Tins Tins.SF Tins.Gen

/-- every anchor of a C07 constant was found in the source -/
theorem limits_found_C07 : Limits.notFoundC07 = [] := by decide

/-- `max_buffered_chunks_` of `StreamFollower()` = the documented default the oracle judges by -/
theorem limits_agree_followerMaxChunks : Cfg.ofSource.maxChunks = Cfg.documented.maxChunks := by decide
/-- `max_buffered_bytes_` of `StreamFollower()` = 3 MiB -/
theorem limits_agree_followerMaxBytes : Cfg.ofSource.maxBytes = Cfg.documented.maxBytes := by decide
/-- `stream_keep_alive_` of `StreamFollower()` = 5 minutes in microseconds -/
theorem limits_agree_followerKeepAlive : Cfg.ofSource.keepAlive = Cfg.documented.keepAlive := by decide
/-- the constructor takes the limits from the `DEFAULT_*` constants -/
theorem limits_agree_followerConsts :
    Limits.followerConstMaxChunks = Limits.followerMaxChunks ∧ Limits.followerConstMaxBytes = Limits.followerMaxBytes ∧
    Limits.followerConstKeepAliveUs = Limits.followerKeepAliveUs := by decide
/-- `DEFAULT_MAX_SACKED_INTERVALS` (the SACKED_SEGMENTS limit is outside the model: ACK tracking is off; documented value) -/
theorem limits_agree_followerMaxSacked : Limits.followerConstMaxSacked = 1024 := by decide

/-- the oracle's own default configuration is the documented one -/
theorem limits_agree_oracleDefault :
    ({} : Oracle).cfg.maxChunks = Cfg.documented.maxChunks ∧ ({} : Oracle).cfg.maxBytes = Cfg.documented.maxBytes ∧
    ({} : Oracle).cfg.keepAlive = Cfg.documented.keepAlive := by decide

/-- `seq_number_diff` of `Internals::seq_compare` is the threshold of the model's `seqCompare` (numeral 2147483648 in
    Basic/Seq32.lean): exhibited at the four points around it -/
theorem limits_agree_seqNumberDiff :
    seqCompare 0 (Limits.seqNumberDiff - 1) = -1 ∧ seqCompare 0 Limits.seqNumberDiff = 1 ∧
    seqCompare Limits.seqNumberDiff 0 = 1 ∧ seqCompare (Limits.seqNumberDiff + 1) 0 = -1 := by decide

/-- `TCP::FIN / SYN / RST / ACK` are the bits `Pkt.fin / syn / rst / ackf` test -/
theorem limits_agree_tcpFlags :
    (∀ p : Pkt, p.flags = Limits.tcpFlagFin → (p.fin ∧ !p.syn ∧ !p.rst ∧ !p.ackf)) ∧
    (∀ p : Pkt, p.flags = Limits.tcpFlagSyn → (!p.fin ∧ p.syn ∧ !p.rst ∧ !p.ackf)) ∧
    (∀ p : Pkt, p.flags = Limits.tcpFlagRst → (!p.fin ∧ !p.syn ∧ p.rst ∧ !p.ackf)) ∧
    (∀ p : Pkt, p.flags = Limits.tcpFlagAck → (!p.fin ∧ !p.syn ∧ !p.rst ∧ p.ackf)) := by
  refine ⟨?_, ?_, ?_, ?_⟩ <;> intro p h <;> simp [Pkt.fin, Pkt.syn, Pkt.rst, Pkt.ackf, h] <;> decide

/-- `StreamIdentifier::serialize` pads an IPv4 address with `IPv6Address::address_size - IPv4Address::address_size`
    zero bytes (the numeral 2^96 of `pad`) -/
theorem limits_agree_identPad : pad false 1 = 2 ^ (8 * (Limits.ipv6AddressSize - Limits.ipv4AddressSize)) := by decide

end Tins.Props.Limits.C07
