import TinsModel.Wire.L2.Family
import TinsModel.Wire.Ip.Family
import TinsModel.Wire.Ip6.Family
import TinsModel.Wire.Transport.Family
import TinsModel.Wire.Icmp.Family
import TinsModel.Wire.App.Family
import TinsModel.Wire.Wifi.Family
import TinsModel.Gen.Limits
import TinsModel.Gen.RadioTapMeta
import TinsModel.Gen.Crc
/-
  Limits of the wire models (properties C01–C04, shared through checks/wire_checks.py) tied to the C++ source
  (translator/gen_limits.py -> Gen/Limits.lean; method as in Props/Limits/C07.lean).  The numerals of the wire models are
  woven into the family proofs (`omega` over header sizes, 60 / 50 / 128 / 15 / 8), so every constant is exhibited through
  the model function that contains it: header sizes through `Family.mk` + `hdr` (what `new <Class>` followed by
  `header_size()` gives), minimum sizes / maxima / units through the trailer, writer and parser functions at the points
  around the boundary the source currently has.
-/
namespace Tins.Props.Limits.Wire
open Tins Tins.Wire Tins.Gen

theorem limits_found_Wire : Limits.notFoundWire = [] := by decide

def hdrOf {Obj : Type} (o : Out Obj) (hdr : Obj → Nat) : Option Nat :=
  match o with
  | .ok x => some (hdr x)
  | _ => none

def isSerErr {α : Type} : Out α → Bool
  | .throw .serializationError => true
  | _ => false

def isMalformed {α : Type} : Out α → Bool
  | .throw .malformedPacket => true
  | _ => false

/-! ### header sizes: `header_size()` of default-constructed objects = `sizeof(header struct)` -/

theorem limits_agree_hdrL2 :
    hdrOf (L2.mk "EthernetII" []) L2.hdr = some Limits.hdrEthernetII ∧ hdrOf (L2.mk "Dot3" []) L2.hdr = some Limits.hdrDot3 ∧
    hdrOf (L2.mk "Dot1Q" []) L2.hdr = some Limits.hdrDot1Q ∧ hdrOf (L2.mk "SNAP" []) L2.hdr = some Limits.hdrSnap ∧
    hdrOf (L2.mk "LLC" []) L2.hdr = some Limits.hdrLlc ∧ hdrOf (L2.mk "MPLS" []) L2.hdr = some Limits.hdrMpls ∧
    hdrOf (L2.mk "PPPoE" []) L2.hdr = some Limits.hdrPPPoE ∧ hdrOf (L2.mk "SLL" []) L2.hdr = some Limits.hdrSll ∧
    hdrOf (L2.mk "Loopback" []) L2.hdr = some Limits.hdrLoopback ∧
    L2.Pktap.headerLen = Limits.hdrPktap ∧ L2.Ppi.hdr ⟨0, 0, 0, 0, []⟩ = Limits.hdrPpi := by decide

theorem limits_agree_hdrNet :
    hdrOf (Ip.mk "IP" []) Ip.hdr = some Limits.hdrIp ∧ hdrOf (Ip.mk "IPSecAH" []) Ip.hdr = some Limits.hdrIpsecAh ∧
    hdrOf (Ip.mk "IPSecESP" []) Ip.hdr = some Limits.hdrIpsecEsp ∧ hdrOf (Ip6.mk "IPv6" []) Ip6.hdr = some Limits.hdrIpv6 ∧
    hdrOf (Transport.mk "TCP" []) Transport.hdr = some Limits.hdrTcp ∧
    hdrOf (Transport.mk "UDP" []) Transport.hdr = some Limits.hdrUdp := by decide

theorem limits_agree_hdrIcmp :
    hdrOf (Icmp.mk "ICMP" []) Icmp.hdr = some Limits.hdrIcmp ∧ hdrOf (Icmp.mk "ICMPv6" []) Icmp.hdr = some Limits.hdrIcmpv6 ∧
    (Icmp.Icmp4.create 13).hdr = Limits.icmpHdrTimestamp ∧ (Icmp.Icmp4.create 14).hdr = Limits.icmpHdrTimestamp ∧
    (Icmp.Icmp4.create 17).hdr = Limits.icmpHdrAddressMask ∧ (Icmp.Icmp4.create 18).hdr = Limits.icmpHdrAddressMask := by
  decide

theorem limits_agree_hdrApp :
    hdrOf (App.mk "ARP" []) App.hdr = some Limits.hdrArp ∧ hdrOf (App.mk "BootP" []) App.hdr = some Limits.hdrBootP ∧
    hdrOf (App.mk "STP" []) App.hdr = some Limits.hdrStp ∧ hdrOf (App.mk "VXLAN" []) App.hdr = some Limits.hdrVxlan ∧
    hdrOf (App.mk "RTP" []) App.hdr = some Limits.hdrRtp ∧ hdrOf (App.mk "DHCPv6" []) App.hdr = some Limits.hdrDhcpv6 ∧
    App.BootP.create.vend.length = Limits.bootpVendSize := by decide

/-! ### minimum frame sizes -/

/-- `EthernetII::trailer_size()`: header + payload + trailer = max(MIN, header + payload), for every payload size around MIN
    (the numeral 46 = MIN - 14 of `Eth.trl`) -/
theorem limits_agree_ethMinFrame :
    (List.range 100).all (fun n => Limits.hdrEthernetII + n + L2.Eth.trl n == max Limits.ethMinFrame (Limits.hdrEthernetII + n)) = true ∧
    Limits.ethMinFrameText = Limits.ethMinFrame := by decide

/-- `Dot1Q::trailer_size()` with `append_padding_` (the numeral 50 of `Dot1Q.trl`) -/
theorem limits_agree_dot1qMin :
    (List.range 100).all (fun n => Limits.hdrDot1Q + n + (L2.Dot1Q.create 0 true).trl n == max Limits.dot1qMin (Limits.hdrDot1Q + n)) = true ∧
    (List.range 100).all (fun n => (L2.Dot1Q.create 0 false).trl n == 0) = true ∧
    Limits.dot1qMinText = Limits.dot1qMin := by decide

/-! ### RFC 4884 -/

def oneExt : Icmp.ExtS := { Icmp.ExtS.default with exts := [⟨1, 1, []⟩] }

/-- `trailer_size()`: an inner PDU shorter than MIN is padded to MIN, a longer one to the length unit (numeral 128 of
    `extTrailer`; units 4 / 8 of `Icmp4.trl` / `Icmp6.trl`) -/
theorem limits_agree_icmpMinPayloadTrailer :
    Icmp.extTrailer oneExt (some 1) Limits.icmpLengthUnit = oneExt.size + (Limits.icmpMinPayloadTrailer - 1) ∧
    Icmp.extTrailer oneExt (some Limits.icmpMinPayloadTrailer) Limits.icmpLengthUnit = oneExt.size ∧
    Icmp.extTrailer oneExt (some (Limits.icmpMinPayloadTrailer + 1)) Limits.icmpLengthUnit = oneExt.size + (Limits.icmpLengthUnit - 1) ∧
    Limits.icmp6MinPayloadTrailer = Limits.icmpMinPayloadTrailer ∧
    ({ Icmp.Icmp4.create 3 with ext := oneExt }).trl 5 = Icmp.extTrailer oneExt (some 5) Limits.icmpLengthUnit ∧
    ({ Icmp.Icmp4.create 3 with ext := oneExt }).trl 129 = Icmp.extTrailer oneExt (some 129) Limits.icmpLengthUnit ∧
    ({ Icmp.Icmp6.create 1 with ext := oneExt }).trl 5 = Icmp.extTrailer oneExt (some 5) Limits.icmp6LengthUnit ∧
    ({ Icmp.Icmp6.create 1 with ext := oneExt }).trl 129 = Icmp.extTrailer oneExt (some 129) Limits.icmp6LengthUnit := by decide

/-- the RFC 4884 length field `write_serialization` stores: MIN / unit with extensions and a short inner PDU, padded size / unit
    above MIN, untouched at MIN without extensions (numerals 128 and 4 / 8 of `lengthFor`) -/
theorem limits_agree_icmpMinPayloadWrite :
    ({ Icmp.Icmp4.create 3 with ext := oneExt, un := [0, 1, 0, 0] }).lengthFor (some 4) = Limits.icmpMinPayloadWrite / Limits.icmpLengthUnit ∧
    (Icmp.Icmp4.create 3).lengthFor (some Limits.icmpMinPayloadWrite) = 0 ∧
    (Icmp.Icmp4.create 3).lengthFor (some (Limits.icmpMinPayloadWrite + 1)) = Limits.icmpMinPayloadWrite / Limits.icmpLengthUnit + 1 ∧
    ({ Icmp.Icmp6.create 1 with ext := oneExt, un := [1, 0, 0, 0] }).lengthFor (some 8) = Limits.icmp6MinPayloadWrite / Limits.icmp6LengthUnit ∧
    (Icmp.Icmp6.create 1).lengthFor (some Limits.icmp6MinPayloadWrite) = 0 ∧
    (Icmp.Icmp6.create 1).lengthFor (some (Limits.icmp6MinPayloadWrite + 1)) = Limits.icmp6MinPayloadWrite / Limits.icmp6LengthUnit + 1 := by
  decide

/-- a valid extension structure with one empty object: version 2, checksum, `00 04 01 01` -/
def extBytes : Bytes := [0x20, 0x00, 0xde, 0xfa, 0x00, 0x04, 0x01, 0x01]

def extCount (r : Out (Icmp.ExtS × Cursor)) : Option Nat :=
  match r with
  | .ok (s, _) => some s.exts.length
  | _ => none

/-- `try_parse_icmp_extensions` looks for the structure MIN bytes into the payload (`MINIMUM_ICMP_PAYLOAD`, numeral 128 of
    `tryParseExt`): found behind exactly MIN bytes, not behind MIN - 1 -/
theorem limits_agree_icmpMinPayload :
    extCount (Icmp.tryParseExt ⟨List.replicate Limits.icmpMinPayload 0 ++ extBytes, Limits.icmpMinPayload + 8⟩ 0 Icmp.ExtS.default) = some 1 ∧
    extCount (Icmp.tryParseExt ⟨List.replicate (Limits.icmpMinPayload - 1) 0 ++ extBytes, Limits.icmpMinPayload + 7⟩ 0 Icmp.ExtS.default) = some 0 ∧
    Limits.icmpMinPayload = Limits.icmpMinPayloadTrailer ∧ Limits.icmpMinPayload = Limits.icmpMinPayloadWrite ∧
    Limits.icmpMinPayload = Limits.icmp6MinPayloadWrite := by decide

/-- `BASE_HEADER_SIZE` of extension objects and of the structure, and the version the default structure carries -/
theorem limits_agree_icmpExtHeaders :
    (⟨1, 1, []⟩ : Icmp.ExtObj).size = Limits.icmpExtObjHeader ∧ Icmp.ExtS.default.size = Limits.icmpExtStructHeader ∧
    Icmp.ExtS.default.vr / 4096 = Limits.icmpExtVersion := by decide

/-! ### header-length fields -/

def ipWithOpts (n : Nat) : Ip.Ip4 := { Ip.Ip4.create [0, 0, 0, 0] [0, 0, 0, 0] with opts := [⟨0x83, n - 2, List.replicate (n - 2) 0⟩] }

/-- `IP::write_serialization`: a header of MAX words is written, MAX + 1 words are a serialization error (numerals 15 and 4
    of `Ip4.write`) -/
theorem limits_agree_ipMaxHeadLen :
    (ipWithOpts (Limits.ipHeadLenUnit * Limits.ipMaxHeadLen - Limits.hdrIp)).hdr = Limits.ipHeadLenUnit * Limits.ipMaxHeadLen ∧
    (Ip.Ip4.write ⟨[], []⟩ (ipWithOpts (Limits.ipHeadLenUnit * Limits.ipMaxHeadLen - Limits.hdrIp))
      (List.replicate (Limits.ipHeadLenUnit * Limits.ipMaxHeadLen) 0)).isOk = true ∧
    isSerErr (Ip.Ip4.write ⟨[], []⟩ (ipWithOpts (Limits.ipHeadLenUnit * (Limits.ipMaxHeadLen + 1) - Limits.hdrIp))
      (List.replicate (Limits.ipHeadLenUnit * (Limits.ipMaxHeadLen + 1)) 0)) = true := by decide

def tcpWithOpts (n : Nat) : Transport.Tcp := { Transport.Tcp.create 0 0 with opts := [⟨30, n - 2, List.replicate (n - 2) 0⟩] }

/-- `TCP::write_serialization`: data offset MAX is written, MAX + 1 is a serialization error (numerals 15 and 4 of `Tcp.write`) -/
theorem limits_agree_tcpMaxDataOffset :
    (tcpWithOpts (Limits.tcpDataOffsetUnit * Limits.tcpMaxDataOffset - Limits.hdrTcp)).hdr = Limits.tcpDataOffsetUnit * Limits.tcpMaxDataOffset ∧
    (Transport.Tcp.write ⟨[], []⟩ (tcpWithOpts (Limits.tcpDataOffsetUnit * Limits.tcpMaxDataOffset - Limits.hdrTcp))
      (List.replicate (Limits.tcpDataOffsetUnit * Limits.tcpMaxDataOffset) 0)).isOk = true ∧
    isSerErr (Transport.Tcp.write ⟨[], []⟩ (tcpWithOpts (Limits.tcpDataOffsetUnit * (Limits.tcpMaxDataOffset + 1) - Limits.hdrTcp))
      (List.replicate (Limits.tcpDataOffsetUnit * (Limits.tcpMaxDataOffset + 1)) 0)) = true ∧
    (Transport.Tcp.create 0 0).doff = Limits.tcpDefaultDataOffset ∧ (Transport.Tcp.create 0 0).window = Limits.tcpDefaultWindow := by
  decide

/-- IPv6 extension headers come in units of UNIT octets: sizes are padded to it, the length octet counts it (numeral 8 of
    `paddingSize`, `lengthOctet`, `extStep`) -/
theorem limits_agree_ipv6ExtUnit :
    (List.range 40).all (fun n => Ip6.Ipv6.hdrSize ⟨0, n, List.replicate n 0⟩ % Limits.ipv6ExtUnit == 0 &&
      Ip6.Ipv6.hdrSize ⟨0, n, List.replicate n 0⟩ < n + 2 + Limits.ipv6ExtUnit &&
      Ip6.Ipv6.lengthOctet ⟨0, n, List.replicate n 0⟩ + 1 == Ip6.Ipv6.hdrSize ⟨0, n, List.replicate n 0⟩ / Limits.ipv6ExtUnit) = true := by
  decide

/-! ### defaults and registry numbers the wire models restate -/

theorem limits_agree_defaults :
    (Ip.Ip4.create [] []).ttl = Limits.ipDefaultTtl ∧
    L2.Snap.create.dsap = Limits.snapDefaultSap ∧ L2.Snap.create.ssap = Limits.snapDefaultSap ∧
    L2.Snap.create.control = Limits.snapDefaultControl := by decide

theorem limits_agree_tcpOptionKinds :
    Transport.Tcp.EOL = Limits.tcpOptEol ∧ Transport.Tcp.NOP = Limits.tcpOptNop ∧ Transport.Tcp.MSS = Limits.tcpOptMss ∧
    Transport.Tcp.WSCALE = Limits.tcpOptWscale ∧ Transport.Tcp.SACK_OK = Limits.tcpOptSackOk ∧ Transport.Tcp.SACK = Limits.tcpOptSack ∧
    Transport.Tcp.TSOPT = Limits.tcpOptTsopt ∧ Transport.Tcp.ALTCHK = Limits.tcpOptAltchk := by decide

theorem limits_agree_loopbackFamilies :
    L2.PF_INET = Limits.pfInet ∧ L2.PF_INET6 = Limits.pfInet6 ∧ L2.PF_LLC = Limits.pfLlc := by decide

theorem limits_agree_dhcp :
    App.Dhcp.magic.foldl (fun a b => a * 256 + b.toNat) 0 = Limits.dhcpMagicCookie := by decide

def isTrue : Out Bool → Bool
  | .ok b => b
  | _ => false

/-- `Internals::is_dot3` as the PPI dispatch uses it -/
theorem limits_agree_isDot3 :
    isTrue (L2.Ppi.isDot3 ⟨List.replicate 20 0, Limits.isDot3MinSize - 1⟩) = false ∧
    isTrue (L2.Ppi.isDot3 ⟨List.replicate 20 0, Limits.isDot3MinSize⟩) = true ∧
    isTrue (L2.Ppi.isDot3 ⟨List.replicate Limits.isDot3Offset 0 ++ [UInt8.ofNat (Limits.isDot3Limit - 1)] ++ List.replicate 7 0, 20⟩) = true ∧
    isTrue (L2.Ppi.isDot3 ⟨List.replicate Limits.isDot3Offset 0 ++ [UInt8.ofNat Limits.isDot3Limit] ++ List.replicate 7 0, 20⟩) = false := by
  decide

/-- the RadioTap field table and the CRC-32 nibble table the wire model restates are the generated ones -/
theorem limits_agree_radiotapMeta :
    Wifi.rtMax = Tins.RT.Gen.maxRadiotapField ∧ Wifi.rtMeta = Tins.RT.Gen.radiotapMetadata ∧
    Wifi.crcTable = Tins.Gen.crcTable := by decide

end Tins.Props.Limits.Wire
