import TinsModel.Matching.Model
import TinsModel.Gen.Limits
/-
  Limits of property C14 tied to the C++ source (see Props/Limits/C07.lean for the method).  Every `matches_response`
  starts with `if (total_sz < sizeof(header_)) return false;` — the guard that keeps the raw header cast inside the buffer.
  The model restates each `sizeof` as a numeral; here a buffer one byte short is rejected and a buffer of exactly that size is
  looked into (and matches, for the all-zero request / reply used), for the header sizes the compiler currently reports.
-/
namespace Tins.Props.Limits.C14
open Tins Tins.Matching Tins.Gen

theorem limits_found_C14 : Limits.notFoundC14 = [] := by decide

def z (n : Nat) : Bytes := List.replicate n 0

theorem limits_agree_headerGuards :
    matchStack [.eth (z 6) (z 6)] (z (Limits.hdrEthernetII - 1)) = .ok false ∧ matchStack [.eth (z 6) (z 6)] (z Limits.hdrEthernetII) = .ok true ∧
    matchStack [.dot3 (z 6) (z 6)] (z (Limits.hdrDot3 - 1)) = .ok false ∧ matchStack [.dot3 (z 6) (z 6)] (z Limits.hdrDot3) = .ok true ∧
    matchStack [.dot1q (z 2)] (z (Limits.hdrDot1Q - 1)) = .ok false ∧ matchStack [.dot1q (z 2)] (z Limits.hdrDot1Q) = .ok true ∧
    matchStack [.ip (0x45 :: z 19)] (0x45 :: z (Limits.hdrIp - 2)) = .ok false ∧ matchStack [.ip (0x45 :: z 19)] (0x45 :: z (Limits.hdrIp - 1)) = .ok true ∧
    matchStack [.ipv6 (z 16) (z 16)] (z (Limits.hdrIpv6 - 1)) = .ok false ∧ matchStack [.ipv6 (z 16) (z 16)] (z Limits.hdrIpv6) = .ok true ∧
    matchStack [.tcp (z 2) (z 2)] (z (Limits.hdrTcp - 1)) = .ok false ∧ matchStack [.tcp (z 2) (z 2)] (z Limits.hdrTcp) = .ok true ∧
    matchStack [.udp (z 2) (z 2), .raw] (z (Limits.hdrUdp - 1)) = .ok false ∧ matchStack [.udp (z 2) (z 2), .raw] (z Limits.hdrUdp) = .ok true := by
  decide

theorem limits_agree_headerGuards2 :
    matchStack [.icmp 8 (z 2) (z 2)] (z (Limits.hdrIcmp - 1)) = .ok false ∧ matchStack [.icmp 8 (z 2) (z 2)] (z Limits.hdrIcmp) = .ok true ∧
    matchStack [.icmpv6 128 (z 2) (z 2)] (129 :: z (Limits.hdrIcmpv6 - 2)) = .ok false ∧
    matchStack [.icmpv6 128 (z 2) (z 2)] (129 :: z (Limits.hdrIcmpv6 - 1)) = .ok true ∧
    matchStack [.dns (z 2)] (z (Limits.dnsHeaderSize - 1)) = .ok false ∧ matchStack [.dns (z 2)] (z Limits.dnsHeaderSize) = .ok true ∧
    matchStack [.bootp (z 4)] (z (Limits.hdrBootP - Limits.bootpVendSize - 1)) = .ok false ∧
    matchStack [.bootp (z 4)] (z (Limits.hdrBootP - Limits.bootpVendSize)) = .ok true ∧
    matchStack [.arp (z 4) (z 4)] (z (Limits.hdrArp - 1)) = .ok false ∧ matchStack [.arp (z 4) (z 4)] (z Limits.hdrArp) = .ok true ∧
    matchStack [.loopback (z 4)] (z (Limits.hdrLoopback - 1)) = .ok false ∧ matchStack [.loopback (z 4)] (z Limits.hdrLoopback) = .ok true ∧
    matchStack [.radiotap] (z (Limits.hdrRadioTap - 1)) = .ok false ∧ matchStack [.radiotap] (z Limits.hdrRadioTap) = .ok true := by
  decide +kernel

/-- `IPv6::matches_response`: an extension header is `(ptr[1] + 1) * UNIT` octets long (numeral 8 of `walkExt`) -/
theorem limits_agree_ipv6MatchExtUnit :
    walkExt 1 0 ([6, 0] ++ z 14) = .ok (some (z (16 - Limits.ipv6MatchExtUnit))) ∧
    walkExt 1 0 ([6, 1] ++ z 14) = .ok (some (z (16 - 2 * Limits.ipv6MatchExtUnit))) ∧
    walkExt 1 0 ([6, 2] ++ z 14) = .ok none := by decide

end Tins.Props.Limits.C14
