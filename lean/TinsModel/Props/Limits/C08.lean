import TinsModel.Reassembly.Model
import TinsModel.Gen.Limits
/- Limits of property C08 tied to the C++ source (see Props/Limits/C07.lean for the method). -/
namespace Tins.Props.Limits.C08
open Tins Tins.Reasm Tins.Gen

theorem limits_found_C08 : Limits.notFoundC08 = [] := by decide

/-- `IPv4Stream::extract_offset`: `fragment_offset() * 8` (the numeral 8 of `extractOffset`) -/
theorem limits_agree_fragOffsetUnit : extractOffset { off := 1 } = Limits.fragOffsetUnit ∧ extractOffset { off := 5 } = 5 * Limits.fragOffsetUnit := by
  decide

/-- `IPv4Stream::allocate_pdu`: `first_fragment_.header_size() + total_size_ > 65535` → `return 0` (the numeral 65535 of
    `allocBuf`; 20 = `hdrSize` of an option-less header) -/
theorem limits_agree_reasmMaxDatagram :
    allocBuf { total := Limits.reasmMaxDatagram - 20 } = some [] ∧ allocBuf { total := Limits.reasmMaxDatagram - 19 } = none ∧
    allocBuf { total := Limits.reasmMaxDatagram - 23, first := { nopt := 1 } } = none := by
  decide

/-- `IP::MORE_FRAGMENTS` is bit 0 of the 3-bit flags field (the model tests `flags % 2`), `IP::DONT_FRAGMENT` bit 1 -/
theorem limits_agree_ipFlags : Limits.ipMoreFragments = 1 ∧ Limits.ipDontFragment = 2 := by decide

/-- `IP::DEFAULT_TTL` (default of `Hdr.ttl`) -/
theorem limits_agree_defaultTtl : ({} : Hdr).ttl = Limits.ipDefaultTtl := by decide

end Tins.Props.Limits.C08
