import TinsModel.Ack.Model
import TinsModel.Ack.Spec
import TinsModel.Gen.Limits
/- Limits of property C19 tied to the C++ source (see Props/Limits/C07.lean for the method). -/
namespace Tins.Props.Limits.C19
open Tins Tins.Ack Tins.Gen

theorem limits_found_C19 : Limits.notFoundC19 = [] := by decide

theorem limits_agree_seqNumberDiff :
    seqCompare 0 (Limits.seqNumberDiff - 1) = -1 ∧ seqCompare 0 Limits.seqNumberDiff = 1 ∧
    seqCompare Limits.seqNumberDiff 0 = 1 ∧ seqCompare (Limits.seqNumberDiff + 1) 0 = -1 := by decide

/-- the spec's `half` is the same constant -/
theorem limits_agree_specHalf : Ack.Spec.half = Limits.seqNumberDiff := by decide

/-- `numeric_limits<uint32_t>::max()`: where `AckedRange::next` cuts a wrapping range (numeral 4294967295 in Ack/Model) -/
theorem limits_agree_uint32Max :
    (Range.next ⟨5, 3⟩).1 = ⟨5, Limits.uint32Max⟩ ∧ wrap32 (Limits.uint32Max + 1) = 0 ∧ wrap32 Limits.uint32Max = Limits.uint32Max := by
  decide

end Tins.Props.Limits.C19
