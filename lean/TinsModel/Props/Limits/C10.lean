import TinsModel.Dns.Model
import TinsModel.Dns.Soa
import TinsModel.Gen.Limits
/-
  Limits of property C10 tied to the C++ source (see Props/Limits/C07.lean for the method).  The numerals 30 / 255 / 256 /
  12 / 16383 of Dns/Model.lean are woven into the safety and refinement proofs (`omega`), so each is exhibited through the
  model function that contains it, at the two points around the boundary the source currently has.
-/
namespace Tins.Props.Limits.C10
open Tins Tins.Dns Tins.Dns.Out Tins.Gen

theorem limits_found_C10 : Limits.notFoundC10 = [] := by decide +kernel

/-- a name that is one pointer to the root label: `c0 0e | 00` (offset 14 = index 2 of the records) -/
def onePointer : Bytes := [0xc0, 0x0e, 0x00]

/-- `if (pointer_counter++ > CAP)`: with `CAP` jumps already taken one more is followed, with `CAP + 1` it is a loop -/
theorem limits_agree_dnsPointerJumpCap :
    composeName onePointer composeFuel 0 [] Limits.dnsPointerJumpCap none = ok ([], 2) ∧
    composeName onePointer composeFuel 0 [] (Limits.dnsPointerJumpCap + 1) none = Out.throw Exc.pointerLoops := by decide +kernel

/-- `n` chained pointers (each to the next one), then the root label -/
def chain : Nat → Nat → Bytes
  | 0, _ => [0]
  | n + 1, at_ => [UInt8.ofNat (192 + (at_ + 14) / 256), UInt8.ofNat ((at_ + 14) % 256)] ++ chain n (at_ + 2)

/-- whole names: `CAP + 1` jumps are resolved, `CAP + 2` are reported as a pointer loop (the fuel 32 of DESIGN §2) -/
theorem limits_agree_dnsPointerChain :
    (composeName (chain (Limits.dnsPointerJumpCap + 1) 0) composeFuel 0 [] 0 none).isOk = true ∧
    composeName (chain (Limits.dnsPointerJumpCap + 2) 0) composeFuel 0 [] 0 none = Out.throw Exc.pointerLoops := by decide +kernel

/-- one 63-octet label at the start of the records -/
def bigLabel : Bytes := 63 :: List.replicate 63 97 ++ [0]

/-- `current_out_ptr - out_ptr + size + 1 > CAP`: a 63-octet label still fits behind `CAP - 64` bytes of output and not
    behind `CAP - 63` -/
theorem limits_agree_dnsNameCap :
    (composeName bigLabel composeFuel 0 (List.replicate (Limits.dnsNameCap - 64) 97) 0 none).isOk = true ∧
    composeName bigLabel composeFuel 0 (List.replicate (Limits.dnsNameCap - 63) 97) 0 none = Out.throw Exc.malformedPacket := by decide +kernel

/-- the `char[N]` buffers `compose_name` writes into (`outPut`) -/
theorem limits_agree_dnsNameBuf :
    (outPut (List.replicate (Limits.dnsNameBuf - 1) 0) [0]).isOk = true ∧
    (outPut (List.replicate Limits.dnsNameBuf 0) [0]).isFault = true := by decide +kernel

/-- the cap leaves room for the separator and the terminator in the buffer (what the safety theorem needs) -/
theorem limits_agree_dnsCapFitsBuf : Limits.dnsNameCap + 1 ≤ Limits.dnsNameBuf ∧ Limits.dnsSmallAddrBuf = Limits.dnsNameBuf := by decide +kernel

def labelsOf : List Nat → Bytes
  | [] => []
  | n :: r => UInt8.ofNat n :: List.replicate n 97 ++ labelsOf r

/-- `DNS::decode_domain_name`: `if (output.size() > CAP)` — a decoded name of `CAP` characters passes, `CAP + 1` not -/
theorem limits_agree_dnsDecodeCap :
    (decodeDomainName (labelsOf [63, 63, 63, 62, 1])).isOk = true ∧
    decodeDomainName (labelsOf [63, 63, 63, 63, 1]) = Out.throw Exc.invalidDomainName ∧
    Limits.dnsDecodeCap = 63 + 1 + 63 + 1 + 63 + 1 + 62 + 1 + 1 := by decide +kernel

/-- `index < LOW` / `records_data_[index - LOW]`: a pointer to the last header octet is out of bounds, one to the first
    record octet is followed; `LOW` is `sizeof(dns_header)`, which is also what `parse` strips -/
theorem limits_agree_dnsPointerLow :
    composeName [0xc0, UInt8.ofNat (Limits.dnsPointerLow - 1), 0] composeFuel 0 [] 0 none = Out.throw Exc.pointerOob ∧
    (composeName [0xc0, UInt8.ofNat (Limits.dnsPointerLow + 2), 0] composeFuel 0 [] 0 none).isOk = true ∧
    Limits.dnsPointerLow = Limits.dnsHeaderSize ∧
    parse (List.replicate (Limits.dnsHeaderSize - 1) 0) = Out.throw Exc.malformedPacket ∧
    (parse (List.replicate Limits.dnsHeaderSize 0)).isOk = true := by decide +kernel

/-- `& 0x3fff` and `index + offset > 0x3fff` in `update_dname`: a pointer moved to exactly MAX is rewritten, beyond it the
    insertion is refused -/
theorem limits_agree_dnsPointerMax :
    Limits.dnsPointerMask = Limits.dnsPointerMax ∧
    (updateDname 0 (Limits.dnsPointerMax - 12) 4 [0xc0, 0x0c] 0 2).isOk = true ∧
    updateDname 0 (Limits.dnsPointerMax - 11) 4 [0xc0, 0x0c] 0 2 = Out.throw Exc.malformedPacket := by decide +kernel

/-- `enum QueryType` -/
theorem limits_agree_dnsTypes :
    tA = Limits.dnsTypeA ∧ tNS = Limits.dnsTypeNS ∧ tCNAME = Limits.dnsTypeCNAME ∧ tSOA = Limits.dnsTypeSOA ∧
    tPTR = Limits.dnsTypePTR ∧ tMX = Limits.dnsTypeMX ∧ tAAAA = Limits.dnsTypeAAAA := by decide +kernel

end Tins.Props.Limits.C10
