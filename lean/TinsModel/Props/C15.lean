import TinsModel.Fields.LensLemmas
namespace Tins.Props.C15
end Tins.Props.C15
