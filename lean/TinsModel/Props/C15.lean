import TinsModel.Fields.CertLemmas
/- Property C15 — header field accessors are exact inverses and do not disturb neighbouring fields.
   Only the property theorems live here; the lens theory is in Fields/LensLemmas, the accessor proofs in
   Fields/CustomLemmas (hand-written shift/mask accessors) and Fields/SimpleLemmas (one-statement accessors). -/
namespace Tins.Props.C15
open Tins.Fields

set_option maxRecDepth 100000   -- the table theorems are `decide`d over all rows of Spec.rows

/-! ## 1. the generic bit-field lens (proved once, for every position, width, value and image) -/

/-- GetPut: a representable value written to a field is read back -/
theorem lens_get_put (f : FieldSpec) (L v X : Nat) (hv : v < 2 ^ f.width) : getField f L (putField f L v X) = v :=
  getN_putN_of_lt _ _ _ _ hv

/-- PutGet: writing back what was read changes nothing -/
theorem lens_put_get (f : FieldSpec) (L X : Nat) : putField f L (getField f L X) X = X := putN_getN _ _ _

/-- PutPut: the last write wins -/
theorem lens_put_put (f : FieldSpec) (L v v' X : Nat) : putField f L v' (putField f L v X) = putField f L v' X :=
  putN_putN _ _ _ _ _

/-- frame: every bit of the image outside the field keeps its value -/
theorem lens_put_frame (f : FieldSpec) (L v X i : Nat) (h : i < f.shift L ∨ f.shift L + f.width ≤ i) :
    (putField f L v X).testBit i = X.testBit i := putN_frame _ _ _ _ _ h

/-- inside the field the image holds the value, least significant bit at `shift` (the specified bit order) -/
theorem lens_put_inside (f : FieldSpec) (L v X j : Nat) (hj : j < f.width) :
    (putField f L v X).testBit (f.shift L + j) = v.testBit j := by
  have := putN_inside (f.shift L) f.width v X (f.shift L + j) (by omega) (by omega)
  unfold putField
  rw [this]; congr 1; omega

/-- a field that does not intersect the written one reads the same before and after -/
theorem lens_disjoint (f g : FieldSpec) (L v X : Nat) (h : f.disjoint g L = true) :
    getField g L (putField f L v X) = getField g L X := getN_putN_disjoint _ _ _ _ _ _ h

/-- writes to disjoint fields commute -/
theorem lens_put_comm (f g : FieldSpec) (L v v' X : Nat) (h : f.disjoint g L = true) :
    putField f L v (putField g L v' X) = putField g L v' (putField f L v X) := putN_comm _ _ _ _ _ _ _ h

/-- the image keeps its length -/
theorem lens_put_lt (f : FieldSpec) (L v X : Nat) (hf : f.fits L = true) (hX : X < 2 ^ (8 * L)) :
    putField f L v X < 2 ^ (8 * L) := by
  simp only [FieldSpec.fits, Bool.and_eq_true, decide_eq_true_eq] at hf
  apply putN_lt _ _ _ _ _ hX
  unfold FieldSpec.shift
  cases f.order <;> simp only <;> omega

example : getField ⟨.be, 51, 13⟩ 20 (putField ⟨.be, 51, 13⟩ 20 0x1abc 0xffffffffffffffffffffffffffffffffffffffff) = 0x1abc := by decide
example : (⟨.be, 48, 3⟩ : FieldSpec).disjoint ⟨.be, 51, 13⟩ 20 = true := by decide

/-! ## 2. the tables agree: compiler layout + recognised accessors + hand-written models = RFC/IEEE positions -/

/-- `Gen.Layout` (probe: where the compiler puts each member; translator: which member each one-statement accessor
    touches with which conversion; sizeof of each header) agrees with `Spec.rows` (positions from the RFCs), and each
    hand-written model is registered at the specified position — for every row of the table (the table is walked class
    block by class block; `certSegs_mem` shows that the walk reaches every row). -/
theorem layout_eq_spec : allCert = true := by decide +kernel

/-- every `small_uint<n>` setter parameter has exactly the width of its field, and every settable row has a parameter record -/
theorem small_params_match_spec : smallCert = true := by decide +kernel

example : 700 < rows.length ∧ Gen.simple.length + Custom.table.length = rows.length ∧ classes.length = Gen.byClass.length := by decide +kernel

/-! ## 3. every modelled accessor pair IS the specified lens — all rows, all values, all images -/

theorem cert_of_mem (r : Row) (hr : r ∈ rows) :
    ∃ k g, classOf r.cls = some k ∧ genOf r.cls = some g ∧ k.name = r.cls ∧ rowCertIn g k r = true := by
  have h := layout_eq_spec
  unfold allCert at h
  exact certSegs_mem rowCertIn _ _ h r hr

/-- `acc_is_lens`: for every (class, field) row the code-shaped accessor model equals the lens at the protocol-specified
    position: `set v = put spec v` and `get = get spec`, for every representable value and every header image. -/
theorem acc_is_lens (r : Row) (hr : r ∈ rows) : ∃ k, classOf r.cls = some k ∧ r.spec.fits k.len = true ∧ RowIsLens k r := by
  obtain ⟨k, g, hk, hg, hn, hc⟩ := cert_of_mem r hr
  have := rowCertIn_sound g k r (by rw [hn]; exact hg) hc
  exact ⟨k, hk, this.1, this.2⟩

/-- the class record of a row and its accessor model are unique, so statements can name them -/
theorem acc_eq_spec (r : Row) (hr : r ∈ rows) (k : Cls) (hk : classOf r.cls = some k) (acc : Acc) (ha : accOf k r.fld = some acc)
    (v X : Nat) (hv : r.representable v = true) : acc.set v X = r.put k.len v X ∧ acc.get X = r.get k.len X := by
  obtain ⟨k', hk', _, acc', ha', h⟩ := acc_is_lens r hr
  rw [hk] at hk'; cases hk'
  rw [ha] at ha'; cases ha'
  exact h v X hv

/-- C15 (a): the getter returns what the setter stored -/
theorem getter_after_setter (r : Row) (hr : r ∈ rows) (k : Cls) (hk : classOf r.cls = some k) (acc : Acc)
    (ha : accOf k r.fld = some acc) (v X : Nat) (hv : r.representable v = true) (hs : 0 < r.scale) :
    acc.get (acc.set v X) = v := by
  obtain ⟨h1, _⟩ := acc_eq_spec r hr k hk acc ha v X hv
  obtain ⟨_, h2⟩ := acc_eq_spec r hr k hk acc ha v (acc.set v X) hv
  rw [h2, h1]
  simp only [Row.representable, decide_eq_true_eq] at hv
  simp only [Row.get, Row.put, getField, putField, getN_putN_of_lt _ _ _ _ hv]
  exact Nat.mul_div_cancel _ hs

/-- C15 (b): every other getter of the object whose field does not intersect the written field keeps its value -/
theorem other_getters_unchanged (f g : Row) (hf : f ∈ rows) (hg : g ∈ rows) (k : Cls) (hkf : classOf f.cls = some k)
    (hkg : classOf g.cls = some k) (af ag : Acc) (haf : accOf k f.fld = some af) (hag : accOf k g.fld = some ag)
    (hd : f.spec.disjoint g.spec k.len = true) (v X : Nat) (hv : f.representable v = true) (w : Nat) (hw : g.representable w = true) :
    ag.get (af.set v X) = ag.get X := by
  obtain ⟨h1, _⟩ := acc_eq_spec f hf k hkf af haf v X hv
  obtain ⟨_, h2⟩ := acc_eq_spec g hg k hkg ag hag w (af.set v X) hw
  obtain ⟨_, h3⟩ := acc_eq_spec g hg k hkg ag hag w X hw
  rw [h2, h3, h1]
  simp only [Row.get, Row.put]
  rw [lens_disjoint _ _ _ _ _ hd]

/-- C15 (c): in the header image (= the serialisation of the header) only the bits the specification assigns to the
    field change … -/
theorem only_field_bits_change (r : Row) (hr : r ∈ rows) (k : Cls) (hk : classOf r.cls = some k) (acc : Acc)
    (ha : accOf k r.fld = some acc) (v X i : Nat) (hv : r.representable v = true)
    (hi : i < r.spec.shift k.len ∨ r.spec.shift k.len + r.spec.width ≤ i) :
    (acc.set v X).testBit i = X.testBit i := by
  obtain ⟨h1, _⟩ := acc_eq_spec r hr k hk acc ha v X hv
  rw [h1]; exact lens_put_frame _ _ _ _ _ hi

/-- … and they hold the value in the specified bit order (value bit `j` at image bit `shift + j`) -/
theorem field_bits_hold_value (r : Row) (hr : r ∈ rows) (k : Cls) (hk : classOf r.cls = some k) (acc : Acc)
    (ha : accOf k r.fld = some acc) (v X j : Nat) (hv : r.representable v = true) (hj : j < r.spec.width) :
    (acc.set v X).testBit (r.spec.shift k.len + j) = (v * r.scale).testBit j := by
  obtain ⟨h1, _⟩ := acc_eq_spec r hr k hk acc ha v X hv
  rw [h1]; exact lens_put_inside _ _ _ _ _ hj

/-- the serialisation the model shows (image minus the derived runs) changes inside the field only -/
theorem serialization_diff_confined (r : Row) (hr : r ∈ rows) (k : Cls) (hk : classOf r.cls = some k) (acc : Acc)
    (ha : accOf k r.fld = some acc) (v X m i : Nat) (hv : r.representable v = true)
    (hi : i < r.spec.shift k.len ∨ r.spec.shift k.len + r.spec.width ≤ i) :
    (serOf (acc.set v X) m).testBit i = (serOf X m).testBit i := by
  simp only [serOf, Nat.testBit_xor, Nat.testBit_and]
  rw [only_field_bits_change r hr k hk acc ha v X i hv hi]

example : ∃ r ∈ rows, ∃ k, classOf r.cls = some k ∧ (accOf k r.fld).isSome ∧ r.representable 5 = true ∧ r.fld = "fragment_offset" :=
  ⟨r "IP" "fragment_offset" .be 51 13 .num .rw, by decide +kernel, c "IP" .be 20 [(4, 4), (16, 16), (80, 16)], by decide +kernel, by decide +kernel, by decide, rfl⟩

/-! ## 4. values that do not fit are rejected, not truncated -/

theorem small_uint_rejects (n v : Nat) (h : v ≥ 2 ^ n) : smallAccepts n v = false := by
  have := Nat.two_pow_pos n
  simp only [smallAccepts, Bool.not_eq_false', decide_eq_true_eq]; omega

theorem small_uint_accepts (n v : Nat) (h : v < 2 ^ n) : smallAccepts n v = true := by
  simp only [smallAccepts, Bool.not_eq_true', decide_eq_false_iff_not]; omega

/-- FULL statement of the rejection clause: every public setter rejects every value of its parameter type that the
    field cannot represent, leaving the object unchanged (the model returns `valueTooLarge` without a new image). -/
def AllSettersRejectUnrepresentable : Prop :=
  ∀ r ∈ rows, ∀ k a, classOf r.cls = some k → argOf r.cls r.fld = some a →
    ∀ v X : Nat, v < 2 ^ a.dom → r.representable v = false → (setStep k r.fld v X).rejected = true

/-- refutation on a concrete witness (replayed on the real code by the check: known findings KF-C15-1..4):
    `STP::msg_age(uint16_t)` accepts 256, stores `256*256 mod 2^16 = 0` and the getter returns 0 -/
theorem all_setters_reject_unrepresentable_fails : ¬ AllSettersRejectUnrepresentable := by
  intro h
  have := h (r "STP" "msg_age" .be 216 16 .num .rw 256) (by decide +kernel) (c "STP" .be 35 []) ⟨"STP", "msg_age", 16, none⟩
    (by decide +kernel) (by decide +kernel) 256 0 (by decide) (by decide)
  revert this
  decide +kernel

/-- the excluded region, explicitly: the DNS header flag/code setters (uint8_t parameters for 1- and 4-bit fields,
    known finding KF-C15-6), the four STP timer setters (KF-C15-1..4) and the LLC sequence number setters (uint8_t
    parameters for the 7-bit N(S) / N(R) fields, KF-C15-7) -/
theorem truncating_rows : truncating =
    [("STP", "msg_age"), ("STP", "max_age"), ("STP", "hello_time"), ("STP", "fwd_delay"),
     ("DNS", "opcode"), ("DNS", "authoritative_answer"), ("DNS", "truncated"), ("DNS", "recursion_desired"),
     ("DNS", "recursion_available"), ("DNS", "z"), ("DNS", "authenticated_data"), ("DNS", "checking_disabled"), ("DNS", "rcode"),
     ("LLCInfo", "send_seq_number"), ("LLCInfo", "receive_seq_number"), ("LLCSupervisory", "receive_seq_number")] := by decide +kernel

/-- the rejection clause for every setter outside the excluded region (`truncatesRow r a = false`) -/
theorem all_setters_reject_unrepresentable_partial (r : Row) (hrm : r ∈ rows) (k : Cls) (a : ArgInfo)
    (hk : classOf r.cls = some k) (ha : argOf r.cls r.fld = some a) (ht : truncatesRow r a = false)
    (v X : Nat) (hv : v < 2 ^ a.dom) (hrep : r.representable v = false) :
    (setStep k r.fld v X).rejected = true := by
  have hsc := small_params_match_spec
  unfold smallCert at hsc
  obtain ⟨k', g, hk', hg, hn, hsm⟩ := certSegs_mem smallOKIn _ _ hsc r hrm
  rw [hk] at hk'; cases hk'
  obtain ⟨k', hk', _, acc, hacc, _⟩ := acc_is_lens r hrm
  rw [hk] at hk'; cases hk'
  have hargIn : argOfIn g r.fld = some a := by
    unfold argOf at ha
    rw [hg] at ha
    exact ha
  unfold smallOKIn at hsm
  rw [hargIn] at hsm
  dsimp only at hsm
  simp only [Row.representable, decide_eq_false_iff_not, Nat.not_lt] at hrep
  have harg : argOf k.name r.fld = some a := by rw [hn]; exact ha
  unfold setStep
  rw [harg, hacc]
  simp only
  have hd : ¬ (v ≥ 2 ^ a.dom) := by omega
  rw [if_neg hd]
  cases hs : a.small with
  | some n =>
    rw [hs] at hsm
    simp only [Bool.and_eq_true, beq_iff_eq] at hsm
    obtain ⟨hw, hscale⟩ := hsm
    rw [hscale, Nat.mul_one, ← hw] at hrep
    simp only [small_uint_rejects n v hrep, Bool.false_eq_true, ite_false, SetResult.rejected]
  | none =>
    exfalso
    unfold truncatesRow at ht
    rw [hs] at ht
    simp only [Option.isNone_none, Bool.true_and, Bool.not_eq_false', Row.representable, decide_eq_true_eq] at ht
    have hle : v ≤ 2 ^ a.dom - 1 := by omega
    have := Nat.mul_le_mul_right r.scale hle
    omega

example : ∃ r ∈ rows, ∃ k a, classOf r.cls = some k ∧ argOf r.cls r.fld = some a ∧ truncatesRow r a = false ∧ r.representable 16 = false :=
  ⟨r "IP" "version" .be 0 4 .num .rw, by decide +kernel, c "IP" .be 20 [(4, 4), (16, 16), (80, 16)], ⟨"IP", "version", 8, some 4⟩,
    by decide +kernel, by decide +kernel, by decide, by decide⟩

end Tins.Props.C15
