import TinsModel.Capture.LemmasHandlers
import TinsModel.Capture.LemmasSniffLoop
import TinsModel.Capture.LemmasPcap
import TinsModel.Capture.LemmasSession
/- Property C17 — capture files round-trip and the capture loop survives any frame.
   Theorems only; helper lemmas live in TinsModel/Capture/Lemmas*.lean.

   Reading guide.  `parse cls bytes` is the (abstract) dissector constructor of class `cls`; `Frame` is what libpcap
   hands to a handler; `sniffAll` is "call next_packet() until it returns no PDU"; `sniffLoop` is `sniff_loop` /
   range-for; `expectedPackets` is the property's `[f in frames | filter(f) and parses(f)]`.  The savefile format
   (`encodeFile`, `openFile`) is the assumed behaviour of libpcap. -/
namespace Tins.Props.C17
open Tins Tins.Capture Tins.Gen.Capture

/-! ## facts about the tables regenerated from the source on every run -/

/-- every link type the property names has a per-frame handler in `BaseSniffer::next_packet` -/
theorem supported_linktypes_dispatch : ∀ e ∈ propertyLinkTypes, dispatches e.2 = true := by
  decide

/-- every link type a `PacketWriter` can be constructed with (`DataLinkType<T>`, `enum LinkType`) is one
    `next_packet` has a handler for: a file written by libtins can be read by libtins -/
theorem writer_linktypes_readable : ∀ e ∈ dataLinkTypes ++ writerEnum, dispatches e.2 = true := by
  decide

/-- ... and its DLT survives the LINKTYPE mapping of the file header -/
theorem writer_linktypes_header : ∀ e ∈ dataLinkTypes ++ writerEnum,
    dltToLinktype e.2 < 65536 ∧ linktypeToDlt (dltToLinktype e.2) = e.2 := by
  decide

/-- the writer declares the largest snapshot length a reader accepts, so no frame it writes is cut on reading -/
theorem writer_snaplen_is_max : writerSnaplen = maxSnaplen := by
  decide

/-- the handlers swallow `malformed_packet` (and `sniff_loop` additionally `pdu_not_found`) -/
theorem handlers_swallow_malformed :
    caughtBy safeAllocCatches .malformedPacket = true ∧ caughtBy dot11Catches .malformedPacket = true ∧
    caughtBy sniffLoopCatches .malformedPacket = true ∧ caughtBy sniffLoopCatches .pduNotFound = true := by
  decide

/-! ## time stamps -/

/-- `Timestamp(timeval{s,us}).seconds()/.microseconds()` give back `s`, `us` -/
theorem ts_roundtrip (s us : Nat) (hus : us < 1000000) (hs : s * 1000000 + us < 18446744073709551616) :
    (Timestamp.ofTimeval ⟨s, us⟩).seconds = s ∧ (Timestamp.ofTimeval ⟨s, us⟩).microseconds = us := by
  simp only [Timestamp.seconds, Timestamp.microseconds, ofTimeval_nat, Nat.mod_eq_of_lt hs]
  omega

example : (Timestamp.ofTimeval ⟨1700000000, 999999⟩).seconds = 1700000000 := by decide

/-- microseconds ≥ 10^6 carry into the seconds; the instant (total microseconds) is preserved -/
theorem ts_total_preserved (s us : Nat) (hs : s * 1000000 + us < 18446744073709551616) :
    (Timestamp.ofTimeval ⟨s, us⟩).seconds * 1000000 + (Timestamp.ofTimeval ⟨s, us⟩).microseconds = s * 1000000 + us := by
  simp only [Timestamp.seconds, Timestamp.microseconds, ofTimeval_nat, Nat.mod_eq_of_lt hs]
  omega

example : (Timestamp.ofTimeval ⟨5, 2500000⟩).seconds = 7 := by decide

/-- a packet's time stamp survives `write(Packet&)` → 32-bit file fields → `pcap_pkthdr` → `Timestamp(timeval)`
    as long as its seconds fit the file format's signed 32-bit field -/
theorem ts_file_roundtrip (w : Written) (hser : w.ser.length ≤ writerSnaplen) (hsec : w.ts.seconds < 2147483648) :
    (frameOfRec (writePacket w.ts w.ser w.adv)).ts = w.ts := by
  rw [frameOfRec_writePacket w hser hsec]
  apply frame_ts
  unfold Timestamp.seconds at hsec
  omega

example : (frameOfRec (writePacket ⟨1700000000123456⟩ [1, 2, 3] 3)).ts = ⟨1700000000123456⟩ := by decide
/-- the hypothesis is needed: the format's seconds field is 32 bits wide and libpcap reads it as signed -/
example : (frameOfRec (writePacket ⟨2147483648000000⟩ [1] 1)).ts ≠ ⟨2147483648000000⟩ := by decide

/-! ## the capture loop -/

section Loop
variable {P : Type} (parse : String → Bytes → POut P)

theorem outcome_no_escape (hk : HandlerKind) (f : Frame) (h : throwsOther parse hk f = false) :
    ∀ e, frameOutcome parse hk f ≠ .escape e := by
  intro e
  have hsw := handlers_swallow_malformed
  have hkc : caughtBy (kindCatches hk) .malformedPacket = true := by
    cases hk <;> simp [kindCatches, hsw.1, hsw.2.1]
  rw [frameOutcome_eq]
  simp only [throwsOther] at h
  cases hc : classOf hk f.data with
  | none => simp
  | some cls =>
    rw [hc] at h
    simp only at h ⊢
    cases hp : parse cls f.data with
    | ok p => simp [allocOutcome]
    | throw x =>
      rw [hp] at h
      have hx : x = .malformedPacket := by simpa using h
      subst hx
      simp [allocOutcome, hkc]

theorem outcome_parsesAs (hk : HandlerKind) (f : Frame) :
    (match frameOutcome parse hk f with | .pkt p => some (p, f.ts) | _ => none) =
      (parsesAs parse hk f).map (fun p => (p, f.ts)) := by
  rw [frameOutcome_eq]
  simp only [parsesAs]
  cases hc : classOf hk f.data with
  | none => rfl
  | some cls =>
    simp only
    cases hp : parse cls f.data with
    | ok p => simp [allocOutcome]
    | throw x => by_cases hcc : caughtBy (kindCatches hk) x = true <;> simp [allocOutcome, hcc]

/-- **loop_filtermap.**  Draining a capture with `next_packet()` — for every sniffing method, every handler of the
    dispatch table, every filter, every frame list libpcap can deliver (frames carry `caplen` bytes; the file may
    end in a broken record) — yields exactly `[f | filter(f), parses(f)]` in order with the frames' time stamps and
    ends cleanly, provided no dissector throws something other than `malformed_packet` (the dissectors' own
    guarantee, C01). -/
theorem loop_filtermap (m : Method) (filter : Frame → Bool) (hk : HandlerKind)
    (handler : Frame → SniffData P → HOut P) (hh : runHandler parse hk = some handler)
    (frames : List Frame) (err : Bool) (hwf : ∀ f ∈ frames, f.data.length = f.caplen)
    (hno : ∀ f ∈ frames, filter f = true → throwsOther parse hk f = false)
    (fuel : Nat) (hfuel : frames.length + 1 ≤ fuel) :
    (sniffAll m filter handler fuel ⟨frames, err⟩).1 = expectedPackets parse hk filter frames ∧
    (sniffAll m filter handler fuel ⟨frames, err⟩).2.1 = .eof := by
  have hb : ∀ f ∈ frames, Behaves handler (frameOutcome parse hk) f :=
    fun f hf => handler_behaves parse hk handler hh f (hwf f hf)
  have hs := sniffAll_spec m filter handler (frameOutcome parse hk) fuel frames err hb hfuel
  have hfm := specAll_filterMap filter (frameOutcome parse hk) frames
    (fun f hf hflt => outcome_no_escape parse hk f (hno f hf hflt))
  rw [hs.1, hs.2, hfm]
  refine ⟨?_, rfl⟩
  simp only [expectedPackets]
  congr 1
  funext f
  exact outcome_parsesAs parse hk f

/-- the handlers swallow nothing but `malformed_packet` -/
theorem caught_iff_malformed (hk : HandlerKind) (e : Exc) :
    caughtBy (kindCatches hk) e = true ↔ e = .malformedPacket := by
  cases hk <;> simp [kindCatches, caughtBy, safeAllocCatches, dot11Catches, Exc.ofName, eq_comm]

theorem isEscape_eq_throwsOther (hk : HandlerKind) (f : Frame) :
    (frameOutcome parse hk f).isEscape = throwsOther parse hk f := by
  rw [frameOutcome_eq]
  simp only [throwsOther]
  cases hc : classOf hk f.data with
  | none => rfl
  | some cls =>
    simp only
    cases hp : parse cls f.data with
    | ok p => rfl
    | throw x =>
      by_cases hx : x = .malformedPacket
      · subst hx
        have := (caught_iff_malformed hk .malformedPacket).mpr rfl
        simp [allocOutcome, this, FOut.isEscape]
      · have : caughtBy (kindCatches hk) x = false := by
          cases h : caughtBy (kindCatches hk) x with
          | false => rfl
          | true => exact absurd ((caught_iff_malformed hk x).mp h) hx
        simp [allocOutcome, this, FOut.isEscape, hx]

/-- **loop_until_escape** (no assumption about the dissectors).  Draining a capture delivers exactly the
    filtered, parsed frames that precede the first accepted frame on which a dissector throws something other than
    `malformed_packet`; the iteration ends cleanly iff there is no such frame, and it never ends in a fault. -/
theorem loop_until_escape (m : Method) (filter : Frame → Bool) (hk : HandlerKind)
    (handler : Frame → SniffData P → HOut P) (hh : runHandler parse hk = some handler)
    (frames : List Frame) (err : Bool) (hwf : ∀ f ∈ frames, f.data.length = f.caplen)
    (fuel : Nat) (hfuel : frames.length + 1 ≤ fuel) :
    (sniffAll m filter handler fuel ⟨frames, err⟩).1 =
      expectedPackets parse hk filter (frames.takeWhile (fun f => !(filter f && throwsOther parse hk f))) ∧
    ((sniffAll m filter handler fuel ⟨frames, err⟩).2.1 = .eof ↔
      ∀ f ∈ frames, (filter f && throwsOther parse hk f) = false) ∧
    (∀ i n, (sniffAll m filter handler fuel ⟨frames, err⟩).2.1 ≠ .fault i n) := by
  have hb : ∀ f ∈ frames, Behaves handler (frameOutcome parse hk) f :=
    fun f hf => handler_behaves parse hk handler hh f (hwf f hf)
  have hs := sniffAll_spec m filter handler (frameOutcome parse hk) fuel frames err hb hfuel
  have hpass : passes filter (frameOutcome parse hk) = fun f => !(filter f && throwsOther parse hk f) := by
    funext f
    simp only [passes, isEscape_eq_throwsOther]
  obtain ⟨t1, t2, t3⟩ := specAll_takeWhile filter (frameOutcome parse hk) frames
  rw [hpass] at t1 t2 t3
  refine ⟨?_, ?_, fun i n => by rw [hs.2]; exact specAll_no_fault filter (frameOutcome parse hk) frames i n⟩
  · rw [hs.1, t1]
    have hgood : ∀ f ∈ frames.takeWhile (fun f => !(filter f && throwsOther parse hk f)),
        filter f = true → ∀ e, frameOutcome parse hk f ≠ .escape e := by
      intro f hf hflt
      have hall := List.all_takeWhile (l := frames) (p := fun f => !(filter f && throwsOther parse hk f))
      have := List.all_eq_true.mp hall f hf
      simp only [hflt, Bool.true_and, Bool.not_eq_true'] at this
      exact outcome_no_escape parse hk f this
    rw [specAll_filterMap filter (frameOutcome parse hk) _ hgood]
    simp only [expectedPackets]
    congr 1
    funext f
    exact outcome_parsesAs parse hk f
  · rw [hs.2, t3]
    constructor
    · intro h f hf
      have := h f hf
      cases hflt : filter f <;> simp_all
    · intro h f hf
      have := h f hf
      cases hflt : filter f <;> simp_all

/-- **loop_no_fault.**  Whatever the frames contain and whatever the dissectors do, no handler reads a byte outside
    the `caplen` captured ones (in particular not `bytes[0]` of an empty raw-IP frame, nor `ptr[12]` of a short
    Ethernet frame). -/
theorem loop_no_fault (m : Method) (filter : Frame → Bool) (hk : HandlerKind)
    (handler : Frame → SniffData P → HOut P) (hh : runHandler parse hk = some handler)
    (frames : List Frame) (err : Bool) (hwf : ∀ f ∈ frames, f.data.length = f.caplen)
    (fuel : Nat) (hfuel : frames.length + 1 ≤ fuel) :
    ∀ i n, (sniffAll m filter handler fuel ⟨frames, err⟩).2.1 ≠ .fault i n := by
  have hb : ∀ f ∈ frames, Behaves handler (frameOutcome parse hk) f :=
    fun f hf => handler_behaves parse hk handler hh f (hwf f hf)
  have hs := sniffAll_spec m filter handler (frameOutcome parse hk) fuel frames err hb hfuel
  intro i n
  rw [hs.2]
  exact specAll_no_fault filter (frameOutcome parse hk) frames i n

/-- the same per call of a handler, in any state: used directly by the zero-length regression -/
theorem handler_never_faults (hk : HandlerKind) (handler : Frame → SniffData P → HOut P)
    (hh : runHandler parse hk = some handler) (f : Frame) (hwf : f.data.length = f.caplen) (d : SniffData P) :
    ∀ i n, handler f d ≠ .fault i n :=
  handler_no_fault parse hk handler hh f hwf d

/-- **loop_no_escape.**  The only exceptions that can leave the per-packet loop are those a dissector raises that
    are not `malformed_packet`: if there are none, nothing escapes (corollary of `loop_filtermap`). -/
theorem loop_no_escape (m : Method) (filter : Frame → Bool) (hk : HandlerKind)
    (handler : Frame → SniffData P → HOut P) (hh : runHandler parse hk = some handler)
    (frames : List Frame) (err : Bool) (hwf : ∀ f ∈ frames, f.data.length = f.caplen)
    (hno : ∀ f ∈ frames, filter f = true → throwsOther parse hk f = false)
    (fuel : Nat) (hfuel : frames.length + 1 ≤ fuel) :
    ∀ e, (sniffAll m filter handler fuel ⟨frames, err⟩).2.1 ≠ .escape e := by
  intro e
  rw [(loop_filtermap parse m filter hk handler hh frames err hwf hno fuel hfuel).2]
  simp

/-- **sniff_loop_prefix.**  `sniff_loop(functor, max)` and a range-for with `break` hand the functor the first
    `k` packets of the capture, in order (`k` = `deliveredCount`: up to and including the first packet on which the
    functor returns false, at most `max` when `max ≠ 0`; `malformed_packet` / `pdu_not_found` thrown by the functor
    count as "continue"); the packets after those `k` are still in the sniffer — none is lost, duplicated or
    reordered — and no exception or fault comes out of the loop. -/
theorem sniff_loop_prefix (m : Method) (filter : Frame → Bool) (hk : HandlerKind)
    (handler : Frame → SniffData P → HOut P) (hh : runHandler parse hk = some handler)
    (catches : List String) (cb : List (P × Timestamp) → P × Timestamp → CbOut)
    (frames : List Frame) (err : Bool) (hwf : ∀ f ∈ frames, f.data.length = f.caplen)
    (hno : ∀ f ∈ frames, filter f = true → throwsOther parse hk f = false)
    (maxPackets : Nat) (hmax : maxPackets < 4294967296) (fuel : Nat) (hfuel : frames.length + 1 ≤ fuel) :
    let all := expectedPackets parse hk filter frames
    let k := deliveredCount catches cb all maxPackets []
    let r := sniffLoop m filter handler catches cb fuel ⟨frames, err⟩ maxPackets []
    r.2.1 = all.take k ∧
    (sniffAll m filter handler fuel r.2.2).1 = all.drop k ∧
    (sniffAll m filter handler fuel r.2.2).2.1 = .eof ∧
    (∀ e, r.1 ≠ .escape e) ∧ (∀ i n, r.1 ≠ .fault i n) := by
  have hb : ∀ f ∈ frames, Behaves handler (frameOutcome parse hk) f :=
    fun f hf => handler_behaves parse hk handler hh f (hwf f hf)
  have hfm := specAll_filterMap filter (frameOutcome parse hk) frames
    (fun f hf hflt => outcome_no_escape parse hk f (hno f hf hflt))
  have hall : (specAll filter (frameOutcome parse hk) frames).1 = expectedPackets parse hk filter frames := by
    rw [hfm]
    simp only [expectedPackets]
    congr 1
    funext f
    exact outcome_parsesAs parse hk f
  have hclean : (specAll filter (frameOutcome parse hk) frames).2 = .eof := by rw [hfm]
  have hl := sniffLoop_spec m filter handler (frameOutcome parse hk) catches cb fuel frames err maxPackets []
    hb hfuel hmax hclean
  simp only [hall, List.nil_append] at hl
  obtain ⟨h1, h2, h3, h4, h5, h6, h7⟩ := hl
  intro all k r
  have hb' : ∀ g ∈ r.2.2.frames, Behaves handler (frameOutcome parse hk) g := fun g hg => hb g (h4 g hg)
  have hlen : r.2.2.frames.length + 1 ≤ fuel := by
    have : r.2.2.frames.length ≤ frames.length := h7
    omega
  have hd := sniffAll_spec m filter handler (frameOutcome parse hk) fuel r.2.2.frames r.2.2.err hb' hlen
  refine ⟨h1, ?_, ?_, h5, h6⟩
  · rw [show r.2.2 = ⟨r.2.2.frames, r.2.2.err⟩ from rfl, hd.1]; exact h2
  · rw [show r.2.2 = ⟨r.2.2.frames, r.2.2.err⟩ from rfl, hd.2]; exact h3

end Loop

/-! ### non-vacuity: a concrete dissector, frames that parse / are malformed / are rejected by the filter -/

/-- toy dissector: IP needs 3 bytes, everything else 15; the PDU is the frame length -/
def demoParse (cls : String) (b : Bytes) : POut Nat :=
  if (if cls = "IP" then 3 else 15) ≤ b.length then .ok b.length else .throw .malformedPacket

def demoFrames : List Frame :=
  [⟨⟨10, 1⟩, 4, 4, [0x45, 0, 0, 4]⟩,        -- IPv4, parses
   ⟨⟨11, 2⟩, 0, 0, []⟩,                     -- empty frame: skipped, nothing read
   ⟨⟨12, 3⟩, 1, 1, [0x45]⟩,                 -- malformed IPv4: skipped
   ⟨⟨13, 4⟩, 3, 3, [0x20, 1, 2]⟩,           -- neither IPv4 nor IPv6: skipped
   ⟨⟨14, 5⟩, 5, 5, [0x46, 0, 0, 0, 5]⟩]     -- IPv4, parses

example : ∀ f ∈ demoFrames, f.data.length = f.caplen ∧ throwsOther demoParse .raw f = false := by decide
example : (sniffAll .loop (fun f => decide (f.caplen ≠ 5)) (handlerRaw demoParse) 6 ⟨demoFrames, true⟩).1
    = [(4, ⟨10000001⟩)] := by decide
example : expectedPackets demoParse .raw (fun _ => true) demoFrames = [(4, ⟨10000001⟩), (5, ⟨14000005⟩)] := by
  decide
/-- `sniff_loop` with `max_packets = 1`: one packet to the functor, the other one still in the sniffer -/
example : (sniffLoop .dispatch (fun _ => true) (handlerRaw demoParse) sniffLoopCatches (fun _ _ => .continue_) 6
    ⟨demoFrames, false⟩ 1 []).2.1 = [(4, ⟨10000001⟩)] := by decide
/-- an Ethernet frame shorter than 13 bytes is not inspected at offset 12 -/
example : handlerEth demoParse ⟨⟨1, 1⟩, 2, 2, [0, 1]⟩ SniffData.init = .ret ⟨⟨1, 1⟩, none, true⟩ := rfl

/-- the hypothesis of `loop_filtermap` / `loop_no_escape` cannot be dropped: the handlers catch nothing but
    `malformed_packet`, so any other exception of a dissector leaves `next_packet` (through libpcap's C frames) -/
example : (sniffAll .loop (fun _ => true)
    (handlerRaw (fun _ _ => (POut.throw (.other "option_not_found") : POut Nat))) 3
    ⟨[⟨⟨1, 1⟩, 1, 1, [0x45]⟩], false⟩).2.1 = .escape (.other "option_not_found") := by decide

/-! ## the sniffer as a state machine: any sequence of public calls on one live sniffer -/

section Session
variable {P : Type} (parse : String → Bytes → POut P)

/-- **session_filtermap** (`loop_filtermap` in the general form).  Take a `FileSniffer` on a capture with frames
    `fs` of a link type `next_packet` has a handler for, and ANY sequence of public calls on it — `next_packet`,
    `sniff_loop(f, max)`, iteration, `set_extract_raw_pdus`, `set_filter` (valid / empty / one that does not compile),
    `set_pcap_sniffing_method`, `stop_sniff`, also from inside the functors, move construction / move assignment
    mid-capture, `link_type()`.  Then
    * the frames `next_packet` moved past, in order, followed by the frames still in the sniffer, are exactly `fs`:
      no frame is lost, duplicated or reordered, whichever API consumed it;
    * the packets handed to the user over the whole session, in order, are the `filterMap` over the consumed frames
      of "accepted by the filter and parses under the raw mode **in force when `next_packet` reached that frame**"
      (the ghost log records precisely that mode and filter);
    * no call ends with an exception out of a handler or with a read outside a frame.
    Hypothesis on the dissectors as in `loop_filtermap`: on these frames they throw nothing but `malformed_packet`. -/
theorem session_filtermap (s0 : Sniffer) (hdisp : dispatches s0.handle.dlt = true)
    (hok : ∀ f ∈ s0.handle.frames, FrameOk parse s0.handle.dlt f) (calls : List (Call P)) :
    ((Traced.run parse ⟨s0, []⟩ calls).2.log.map (·.1)) ++ (Traced.run parse ⟨s0, []⟩ calls).2.s.handle.frames
        = s0.handle.frames ∧
    delivered (Traced.run parse ⟨s0, []⟩ calls).1
        = (Traced.run parse ⟨s0, []⟩ calls).2.log.filterMap (deliver parse s0.handle.dlt) ∧
    (∀ r ∈ (Traced.run parse ⟨s0, []⟩ calls).1, RetOk r) := by
  obtain ⟨chunk, a, hr⟩ := run_advance parse s0.handle.dlt hdisp calls ⟨s0, []⟩ ⟨rfl, hok⟩
  have hlog : (Traced.run parse ⟨s0, []⟩ calls).2.log = chunk := by simpa using a.log
  refine ⟨?_, ?_, hr⟩
  · rw [hlog]; exact a.frames.symm
  · rw [hlog]; exact a.out

/-- **session_end_sticky.**  Once `next_packet` has handed back no packet without a pending `stop_sniff` — the end
    of the file was reached — nothing is ever delivered again, whatever is called afterwards: every later
    `next_packet` hands back no packet, every later loop ends at once. -/
theorem session_end_sticky (dlt : Nat) (hdisp : dispatches dlt = true) (t : Traced) (hinv : Inv parse dlt t)
    (hbrk : t.s.handle.brk = false) (hnull : (t.nextPacket parse).1 = .null) (calls : List (Call P)) :
    delivered (Traced.run parse (t.nextPacket parse).2 calls).1 = [] ∧
    ∀ o, Ret.packet o ∈ (Traced.run parse (t.nextPacket parse).2 calls).1 → o = .null := by
  obtain ⟨_, _, _, _, _, _, _, _, _, _, hend⟩ := nextPacket_step parse dlt hdisp t hinv
  have hfr := hend hbrk hnull
  obtain ⟨chunk, a, hr⟩ := run_advance parse dlt hdisp calls _ (nextPacket_inv parse dlt hdisp t hinv)
  have hchunk : chunk = [] := by
    have := a.frames
    rw [hfr] at this
    have h2 := congrArg List.length this
    simp only [List.length_nil, List.length_append, List.length_map] at h2
    exact List.eq_nil_of_length_eq_zero (by omega)
  have hdel : delivered (Traced.run parse (t.nextPacket parse).2 calls).1 = [] := by
    rw [a.out, hchunk]; rfl
  refine ⟨hdel, ?_⟩
  intro o ho
  have hok := hr _ ho
  have hp : (Ret.packet o : Ret P).pkts = [] := by
    simp only [delivered, List.flatMap_eq_nil_iff] at hdel
    exact hdel _ ho
  cases o with
  | pkt p ts => simp [Ret.pkts] at hp
  | null => rfl
  | escape e => exact absurd rfl (hok.1 e)
  | fault i n => exact absurd rfl (hok.2 i n)

/-- **stop_sniff_interrupts_once.**  After `stop_sniff()` the next `next_packet` — for every sniffing method — reads
    nothing and hands back no packet; the flag is cleared, the read position, filter, raw mode are untouched. -/
theorem stop_sniff_interrupts_once (dlt : Nat) (hdisp : dispatches dlt = true) (t : Traced) (hinv : Inv parse dlt t) :
    let t1 : Traced := { t with s := (t.s.cfg .stopSniff).2 }
    (t1.nextPacket parse).1 = .null ∧ (t1.nextPacket parse).2.s.handle.frames = t.s.handle.frames ∧
    (t1.nextPacket parse).2.s.handle.brk = false ∧ (t1.nextPacket parse).2.s.handle.filter = t.s.handle.filter ∧
    (t1.nextPacket parse).2.s.extractRaw = t.s.extractRaw := by
  obtain ⟨handler, hsel, hrun⟩ := selected parse dlt hdisp t.s.extractRaw
  have hd := hinv.hdlt
  intro t1
  have hnp : t1.s.nextPacket parse = (.null, { t1.s with handle := { t1.s.handle with brk := false } }) := by
    simp only [Sniffer.nextPacket, t1, Sniffer.cfg, hd, hsel, hrun]
    rw [npLoop_brk t.s.method handler _ _ rfl]
  simp only [Traced.nextPacket, hnp]
  simp [t1, Sniffer.cfg]

/-- **sniff_loop_only_functor_exceptions.**  Nothing but the user functor's own exceptions — those `sniff_loop` has
    no catch clause for — comes out of `sniff_loop` or a range-for. -/
theorem sniff_loop_only_functor_exceptions (dlt : Nat) (hdisp : dispatches dlt = true) (t : Traced)
    (hinv : Inv parse dlt t) (catches : List String) (cb : Functor P) (mx : Nat) :
    LoopEndOk catches cb (Traced.loop parse catches cb (t.s.handle.frames.length + 1) t mx []).1 := by
  obtain ⟨_, _, _, _, h⟩ := loop_advance parse dlt hdisp catches cb _ t mx [] hinv (Nat.le_refl _)
  exact h

/-- **sniffer_move.**  Move construction and move assignment hand the complete state — read position, installed
    filter, pending `stop_sniff`, raw mode, sniffing method — to the target; the object left behind by a move
    assignment holds the target's previous handle (and closes it when destroyed). -/
theorem sniffer_move (dst s : Sniffer) :
    (Sniffer.moveConstruct s).1 = s ∧ (Sniffer.moveAssign dst s).1 = s ∧ (Sniffer.moveAssign dst s).2 = dst :=
  ⟨moveConstruct_fst s, moveAssign_fst dst s, moveAssign_snd dst s⟩

end Session

/-! ### non-vacuity: `sniff_loop` stopped by `max_packets`, a raw-mode switch, `next_packet`, `stop_sniff`, a move,
    then iteration — on the demo capture -/

def demoSniffer : Sniffer :=
  { handle := { dlt := 12, frames := demoFrames, err := false, filter := fun _ => true, brk := false },
    extractRaw := false, method := .dispatch }

def demoCalls : List (Call Nat) :=
  [.sniffLoop (fun _ _ => ([], .continue_)) 1,           -- one packet, stopped by max_packets
   .cfg (.setRaw true),                                  -- from here on frames come back as RawPDU
   .nextPacket,                                          -- the empty frame, now a (zero-length) packet
   .cfg .stopSniff, .nextPacket,                         -- interrupted once: nothing read
   .moveConstruct,
   .cfg (.setFilter (some (fun f => decide (f.caplen ≠ 1)))),
   .rangeFor (fun _ _ => ([], .continue_)),              -- the rest, minus the one-byte frame
   .nextPacket]                                          -- the end is sticky

/-- toy dissector for the raw mode as well: `RawPDU` accepts everything -/
def demoParse2 (cls : String) (b : Bytes) : POut Nat :=
  if cls = "RawPDU" then .ok (1000 + b.length) else demoParse cls b

/-- `session_end_sticky` / `stop_sniff_interrupts_once` on the demo capture: after `stop_sniff` one `next_packet`
    reads nothing; after the end of the file nothing comes any more -/
example : ((Traced.nextPacket demoParse2 ⟨(demoSniffer.cfg .stopSniff).2, []⟩).1 matches .null) = true ∧
    (Traced.nextPacket demoParse2 ⟨(demoSniffer.cfg .stopSniff).2, []⟩).2.s.handle.frames.length = 5 := by decide
example : delivered (Traced.run demoParse2 ⟨{ demoSniffer with handle := { demoSniffer.handle with frames := [] } }, []⟩
    [.nextPacket, .sniffLoop (fun _ _ => ([], .continue_)) 0, .rangeFor (fun _ _ => ([], .stop))]).1 = [] := by decide
example : dispatches demoSniffer.handle.dlt = true := by decide
example : ∀ f ∈ demoSniffer.handle.frames, f.data.length = f.caplen ∧
    ∀ raw, throwsOther demoParse2 (modeKind raw 12) f = false := by decide
example : delivered (Traced.run demoParse2 ⟨demoSniffer, []⟩ demoCalls).1 =
    [(4, ⟨10000001⟩), (1000, ⟨11000002⟩), (1003, ⟨13000004⟩), (1005, ⟨14000005⟩)] := by decide
example : (Traced.run demoParse2 ⟨demoSniffer, []⟩ demoCalls).2.log.map (fun e => (e.1.caplen, e.2.1)) =
    [(4, false), (0, true), (1, true), (3, true), (5, true)] := by decide

/-! ## the writer and the file -/

/-- **writer_reader_roundtrip.**  A file written with `PacketWriter` (any link type of the writer's API, any packets
    whose serialization fits the snapshot length and whose time stamps fit the format) opens with the same link type
    and delivers, in order, one frame per written packet with identical bytes, `caplen` = serialized size, `len` =
    advertised size and the packet's time stamp, then ends cleanly. -/
theorem writer_reader_roundtrip (dlt : Nat) (hdlt : ∃ e ∈ dataLinkTypes ++ writerEnum, e.2 = dlt)
    (ws : List Written) (hws : ∀ w ∈ ws, w.ser.length ≤ writerSnaplen ∧ w.ts.seconds < 2147483648) :
    openFile (writtenFile dlt ws) =
      some { dlt := dlt, snaplen := writerSnaplen, frames := ws.map Written.frame, err := false } ∧
    ∀ w ∈ ws, w.frame.ts = w.ts ∧ w.frame.data = w.ser ∧ w.frame.data.length = w.frame.caplen := by
  obtain ⟨e, he, rfl⟩ := hdlt
  have hh := writer_linktypes_header e he
  constructor
  · have := openFile_encodeFile e.2 writerSnaplen hh.1 hh.2 writerSnaplen_pos writerSnaplen_le_max
      (ws.map (fun w => writePacket w.ts w.ser w.adv))
      (by
        intro r hr
        obtain ⟨w, hw, rfl⟩ := List.mem_map.mp hr
        exact writePacket_wf w (hws w hw).1)
    simp only [writtenFile, this, List.map_map]
    congr 2
    apply List.map_congr_left
    intro w hw
    exact frameOfRec_writePacket w (hws w hw).1 (hws w hw).2
  · intro w hw
    refine ⟨?_, rfl, rfl⟩
    apply frame_ts
    have := (hws w hw).2
    unfold Timestamp.seconds at this
    omega

example : openFile (writtenFile 1 [⟨⟨1700000000000001⟩, [1, 2, 3], 3⟩, ⟨⟨5⟩, [], 0⟩]) =
    some { dlt := 1, snaplen := writerSnaplen,
           frames := [⟨⟨1700000000, 1⟩, 3, 3, [1, 2, 3]⟩, ⟨⟨0, 5⟩, 0, 0, []⟩], err := false } := by decide

/-- **writer_session_roundtrip** (`writer_reader_roundtrip` for any interleaving of write calls).  Over any
    implementation `L` of the savefile calls that satisfies the stated facts about libpcap (`SavefileFacts`): a
    `PacketWriter` of any link type of the writer's API, ANY sequence of `write(PDU&)` / `write(T&)` (wall-clock
    stamp = the `gettimeofday` reading of that call), `write(Packet&)` (the packet's stamp),
    `write(begin, end)` (every element, in order, each with its own clock reading), move construction and move
    assignment of the live writer mid-file — then destruction.  The file opens with the writer's link type and its
    frames are exactly the written serializations, in order, each with `caplen` = serialized size, `len` =
    `advertised_size()` and its time stamp; then the file ends cleanly. -/
theorem writer_session_roundtrip (L : Savefile) (hL : SavefileFacts L)
    (dlt : Nat) (hdlt : ∃ e ∈ dataLinkTypes ++ writerEnum, e.2 = dlt) (calls : List WCall)
    (hst : ∀ e ∈ calls.flatMap WCall.written, Storable e) :
    L.openOffline (L.dump dlt writerSnaplen (WriterSt.run ⟨dlt, []⟩ calls).recs) =
      some { dlt := dlt, snaplen := writerSnaplen, frames := (calls.flatMap WCall.written).map frameFor,
             err := false } ∧
    (WriterSt.run ⟨dlt, []⟩ calls).dlt = dlt := by
  obtain ⟨e, he, rfl⟩ := hdlt
  have hh := writer_linktypes_header e he
  have hr := run_recs calls ⟨e.2, []⟩
  refine ⟨?_, hr.2⟩
  rw [hr.1, List.nil_append,
    hL.roundtrip e.2 writerSnaplen hh.1 hh.2 writerSnaplen_pos writerSnaplen_le_max _
      (by
        intro r hr'
        obtain ⟨x, hx, rfl⟩ := List.mem_map.mp hr'
        exact recFor_wf x (hst x hx))]
  simp only [List.map_map]
  congr 2
  apply List.map_congr_left
  intro x hx
  exact frameOfRec_recFor x (hst x hx)

/-- ... in particular for the byte-level model of the savefile format, whose `dump` is what the harness compares
    with the bytes `pcap_dump` wrote -/
theorem writer_session_roundtrip_model (dlt : Nat) (hdlt : ∃ e ∈ dataLinkTypes ++ writerEnum, e.2 = dlt)
    (calls : List WCall) (hst : ∀ e ∈ calls.flatMap WCall.written, Storable e) :
    openFile (WriterSt.run ⟨dlt, []⟩ calls).close =
      some { dlt := dlt, snaplen := writerSnaplen, frames := (calls.flatMap WCall.written).map frameFor,
             err := false } := by
  have h := writer_session_roundtrip modelSavefile modelSavefile_facts dlt hdlt calls hst
  simpa [WriterSt.close, modelSavefile, h.2] using h.1

/-- the frame read back for a `write(Packet&)` carries the packet's time stamp (every stamp the format can hold) -/
theorem packet_stamp_roundtrip (ts : Timestamp) (x : Item) (hsec : ts.seconds < 2147483648) :
    (frameFor (ts.toTimeval, x)).ts = ts ∧ Storable (ts.toTimeval, x) ↔ x.ser.length ≤ writerSnaplen := by
  have hus : ts.microseconds < 1000000 := by unfold Timestamp.microseconds; omega
  have hts : (frameFor (ts.toTimeval, x)).ts = ts := by
    have := frame_ts ⟨ts, x.ser, x.adv⟩ (by unfold Timestamp.seconds at hsec; simp only; omega)
    simpa [Written.frame, frameFor, Frame.ts, Timestamp.toTimeval] using this
  constructor
  · intro h; exact h.2.2.2.2.2
  · intro h
    refine ⟨hts, ?_, ?_, ?_, ?_, h⟩ <;> simp only [Timestamp.toTimeval] <;> omega

/-- the hypotheses of `writer_session_roundtrip` are met by the calls of the example below -/
example : ∀ e ∈ ([.packet ⟨1700000000000001⟩ ⟨[1, 2, 3], 3⟩, .range [(⟨5, 6⟩, ⟨[], 0⟩), (⟨7, 8⟩, ⟨[9], 1500⟩)],
    .moveConstruct, .pdu ⟨2147483647, 999999⟩ ⟨[4], 1⟩] : List WCall).flatMap WCall.written,
    0 ≤ e.1.sec ∧ e.1.sec < 2147483648 ∧ 0 ≤ e.1.usec ∧ e.1.usec < 2147483648 ∧ e.2.ser.length ≤ writerSnaplen := by
  decide
example : (∃ e ∈ dataLinkTypes ++ writerEnum, e.2 = 12) := by decide

example : openFile (WriterSt.run ⟨12, []⟩
    [.packet ⟨1700000000000001⟩ ⟨[1, 2, 3], 3⟩, .range [(⟨5, 6⟩, ⟨[], 0⟩), (⟨7, 8⟩, ⟨[9], 1500⟩)], .moveConstruct,
     .pdu ⟨2147483647, 999999⟩ ⟨[4], 1⟩, .moveAssignInto (some ⟨12, []⟩), .range []]).close =
    some { dlt := 12, snaplen := writerSnaplen,
           frames := [⟨⟨1700000000, 1⟩, 3, 3, [1, 2, 3]⟩, ⟨⟨5, 6⟩, 0, 0, []⟩, ⟨⟨7, 8⟩, 1, 1500, [9]⟩,
                      ⟨⟨2147483647, 999999⟩, 1, 1, [4]⟩], err := false } := by decide

/-- **capture_roundtrip.**  Write packets with `PacketWriter`, read the file with a `FileSniffer` in
    `extract_raw_pdus` mode through any sniffing method: the same number of packets comes back, in order, each
    with identical bytes (`RawPDU` over exactly the written serialization) and its time stamp, then a clean end. -/
theorem capture_roundtrip {P : Type} (parse : String → Bytes → POut P) (mk : Bytes → P)
    (hraw : ∀ b, parse "RawPDU" b = .ok (mk b))
    (m : Method) (dlt : Nat) (hdlt : ∃ e ∈ dataLinkTypes ++ writerEnum, e.2 = dlt)
    (ws : List Written) (hws : ∀ w ∈ ws, w.ser.length ≤ writerSnaplen ∧ w.ts.seconds < 2147483648) :
    ∃ op handler, openFile (writtenFile dlt ws) = some op ∧ op.dlt = dlt ∧
      selectHandler true op.dlt = .ok extractRawHandler ∧
      runHandler parse extractRawHandler = some handler ∧
      (sniffAll m (fun _ => true) handler (op.frames.length + 2) ⟨op.frames, op.err⟩).1 =
        ws.map (fun w => (mk w.ser, w.ts)) ∧
      (sniffAll m (fun _ => true) handler (op.frames.length + 2) ⟨op.frames, op.err⟩).2.1 = .eof := by
  have hrt := writer_reader_roundtrip dlt hdlt ws hws
  refine ⟨_, handlerGeneric parse "RawPDU", hrt.1, rfl, rfl, rfl, ?_⟩
  have hwf : ∀ f ∈ ws.map Written.frame, f.data.length = f.caplen := by
    intro f hf
    obtain ⟨w, _, rfl⟩ := List.mem_map.mp hf
    rfl
  have hno : ∀ f ∈ ws.map Written.frame, (fun _ : Frame => true) f = true →
      throwsOther parse extractRawHandler f = false := by
    intro f _ _
    simp [throwsOther, extractRawHandler, classOf, hraw]
  have := loop_filtermap parse m (fun _ => true) extractRawHandler (handlerGeneric parse "RawPDU") rfl
    (ws.map Written.frame) false hwf hno ((ws.map Written.frame).length + 2) (by omega)
  refine ⟨?_, this.2⟩
  rw [this.1]
  have hexp : ∀ (l : List Written), expectedPackets parse extractRawHandler (fun _ => true) (l.map Written.frame) =
      l.map (fun w => (mk w.ser, w.frame.ts)) := by
    intro l
    induction l with
    | nil => simp [expectedPackets]
    | cons w l ih =>
      have hp : parsesAs parse extractRawHandler w.frame = some (mk w.ser) := by
        simp [parsesAs, extractRawHandler, classOf, hraw, Written.frame]
      simp only [expectedPackets, List.map_cons, List.filter_cons, if_true, List.filterMap_cons, hp,
        Option.map_some] at ih ⊢
      rw [ih]
  rw [hexp]
  apply List.map_congr_left
  intro w hw
  rw [(hrt.2 w hw).1]

end Tins.Props.C17
