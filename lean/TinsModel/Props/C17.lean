import TinsModel.Capture.Spec
/- Property C17 — theorems (helper lemmas live in TinsModel/Capture/Lemmas*.lean). -/
namespace Tins.Props.C17
open Tins Tins.Capture Tins.Gen.Capture

/-- every link type the property names has a per-frame handler in `BaseSniffer::next_packet` -/
theorem supported_linktypes_dispatch :
    ∀ e ∈ propertyLinkTypes, dispatches e.2 = true := by
  decide

end Tins.Props.C17
