import TinsModel.Basic.CursorLemmas
import TinsModel.Wire.RegistryLemmas
import TinsModel.Wire.L2.Theorems
import TinsModel.Wire.Ip.Theorems
import TinsModel.Wire.Ip6.Theorems
import TinsModel.Wire.Icmp.Theorems
import TinsModel.Wire.Transport.Theorems
import TinsModel.Wire.App.Theorems
import TinsModel.Wire.Wifi.Theorems
import TinsModel.Wire.RegistryFacts
import TinsModel.Wire.Coverage
import TinsModel.Wire.RawCoverage
import TinsModel.Wire.Raw.Wifi
import TinsModel.Wire.Raw.Icmp6
import TinsModel.Wire.Raw.Misc
/-
  Property C01 — parsing untrusted bytes is memory-safe and fails only as malformed-packet.
  Generic part here; the per-class `*_parse_safe` theorems live in TinsModel/Wire/<Family>/Theorems.lean
  and are audited through Audit/Wire<Family>.lean.
-/
namespace Tins.Props.C01
open Tins

/-- **cursor_safe** — every finite sequence of `InputMemoryStream` operations on a stream over the caller's
    buffer (reads, skips, `size(m)` with `m ≤ size()`, raw peeks guarded by `size()`) stays inside the buffer and
    can only throw `malformed_packet`. -/
theorem cursor_safe (b : Bytes) (ops : List CursorOp) :
    (∃ c', (Cursor.ofBytes b).run ops = .ok c' ∧ c'.Inv) ∨ (Cursor.ofBytes b).run ops = .throw .malformedPacket := by
  rcases Cursor.run_safe ops (Cursor.ofBytes b) (Cursor.ofBytes_inv b) with ⟨c', h, hi, _⟩ | h
  · exact .inl ⟨c', h, hi⟩
  · exact .inr h

/-- **chain_parse_safe** — parsing a whole chain of nested layers (any depth) never faults, terminates within the
    fuel the drivers use (`|b| + 2`) and throws only `malformed_packet`, provided every modelled class's constructor is
    safe and hands its inner constructor a strictly shorter buffer (`Wire.ClassesSafe`, discharged per family). -/
theorem chain_parse_safe (h : Wire.ClassesSafe) (cls : String) (b : Bytes) :
    (Wire.parseChain (b.length + 2) cls b).Safe :=
  Wire.parseChain_entry_safe h cls b

/-- **parse_any_safe** — C01 for whole packets with no hypothesis left: for EVERY modelled entry point and EVERY byte string,
    the nested parsing constructors (any depth, any mix of the seven protocol families: link layers, IPv4/IPv6 with options and
    extension headers, TCP/UDP/ICMP/ICMPv6, the application and 802.11 classes) never access a byte outside the caller's
    buffer, terminate within `|b| + 2` constructor calls and throw nothing but `malformed_packet`.
    (`Wire.registry_classesSafe` discharges `ClassesSafe` from the per-class `*_parse_safe` / `*_parse_consumes` theorems.) -/
theorem parse_any_safe (cls : String) (b : Bytes) : (Wire.parseChain (b.length + 2) cls b).Safe :=
  Wire.parse_any_safe cls b

/-- every layer of an accepted packet satisfies its class invariant (cached option sizes exact, field widths, …) -/
theorem parsed_layers_good (cls : String) (b : Bytes) (os : List Wire.AnyObj) (hb : b.length < 4294967296)
    (h : Wire.parseChain (b.length + 2) cls b = .ok os) : ∀ o ∈ os, Wire.registryPreds.Good o :=
  Wire.parsed_layers_good cls b os hb h

/-- non-vacuity of `parse_any_safe`: real multi-family packets go through the modelled chain -/
example : ∃ os, Wire.parseChain 64 "EthernetII"
    ([1, 2, 3, 4, 5, 6, 7, 8, 9, 10, 11, 12, 0x08, 0x00] ++          -- Ethernet, IPv4
     [0x45, 0, 0, 28, 0, 0, 0, 0, 64, 17, 0, 0, 10, 0, 0, 1, 10, 0, 0, 2] ++   -- IP, UDP
     [0, 53, 0, 53, 0, 8, 0, 0]) = .ok os ∧ os.length = 3 := ⟨_, rfl, rfl⟩

/-! ### entry-point coverage (the table `Gen.EntryPoints.all` is regenerated from the headers on every run) -/

/-- the AST scan behind `Gen.EntryPoints.all` classified every declaration that matches the pattern -/
theorem entry_scan_complete : Gen.EntryPoints.unparsed = [] := Wire.Coverage.scan_complete

/-- **entry_points_covered** — every construct-from-buffer form of libtins' public interface (public constructor, static
    member, member function or free function of namespace Tins taking `const uint8_t*` + size) has a disposition in
    `Wire/Coverage.lean`: a Lean model with a safety theorem, a harness that drives it under the sanitizers, or a reason
    why it is no parser of untrusted bytes.  A form added to libtins has none: this theorem then fails and the check
    reports the new entry point. -/
theorem entry_points_covered : ∀ e ∈ Gen.EntryPoints.all, (Wire.Coverage.disposition e).isSome :=
  Wire.Coverage.entryPoints_covered

/-- **wire_modelled_safe** — what a row `modelled "Wire.parseOne cls"` of the coverage table claims: for every class of
    the seven families with a Lean model (`Coverage.safeModelled`), the parsing constructor never faults and throws only
    `malformed_packet`, for ALL byte strings (`Wire.registry_classesSafe`, assembled from the families' theorems). -/
theorem wire_modelled_safe (cls : String) (b : Bytes) (h : Wire.Coverage.safeModelled cls = true) :
    Wire.ParseSafe (Wire.parseOne cls b) :=
  Wire.registry_classesSafe.safe cls b h

/-- the rows concerned: every entry point the table marks `modelled` through the wire registry names such a class -/
example : Wire.Coverage.safeModelled "IP" = true ∧ Wire.Coverage.safeModelled "ICMPv6" = true := by decide

/-! ### raw-site coverage (the tables `Gen.RawSites.all` / `guards` are regenerated from the clang AST on every run) -/

/-- clang parsed every translation unit and the scan found the definition of every entry point that is a root of the parse path -/
theorem raw_scan_complete : Gen.RawSites.unparsed = [] := Wire.RawCoverage.scan_complete

/-- **raw_sites_covered** — every raw memory access (pointer dereference / subscript / member access through a cast pointer,
    memcpy / memcmp / memset / std::copy / foreign call with raw pointer operands, pointer cast, pointer arithmetic, hand-over of a
    raw pointer to another function) in a function reachable from the construct-from-buffer entry points and the option decoders
    has a disposition in `Wire/RawCoverage.lean`: the Lean model function that mirrors it with a fault-explicit read and the safety
    theorem over it, or why it cannot leave the buffer, or `unmodelled`.  A raw access added to a parser — which leaves every model
    and therefore `parse_any_safe` untouched — has none: this theorem then fails and the check reports the new site. -/
theorem raw_sites_covered : ∀ s ∈ Gen.RawSites.all, (Wire.RawCoverage.disposition s).isSome :=
  Wire.RawCoverage.rawSites_covered

/-- **raw_guards_present** — every bounds check a disposition relies on (cited as a `Gen.RawSites.guards` key) is still a
    condition of that function in the current source: removing or rewriting it is reported like a new raw access. -/
theorem raw_guards_present :
    ∀ g ∈ Wire.RawCoverage.citedGuards, (Gen.RawSites.guards.any (fun x => x.keyNat == g.n)) = true :=
  Wire.RawCoverage.guards_present

/-- the rows concerned are there: the table cites guards, and the generated table is not empty -/
example : Wire.RawCoverage.citedGuards.length > 50 ∧ Gen.RawSites.all.length > 100 := by decide +kernel

/-! ### the raw-pointer layer of the typed decoders (`TinsModel/Wire/Raw/*.lean`)

  The typed option decoders walk `opt.data_ptr()` by hand; their family models are total functions over the option's bytes.
  `Wire/Raw` mirrors the pointer code statement for statement with a fault-explicit read at every dereference and proves
  `raw decoder = total decoder` for all byte strings — so the walk never leaves the option, and the value is the one the
  correspondence compares with the real getter. -/

/-- an `Out` value that is `ok` did not fault -/
theorem noFault_of_eq_ok {α} {x : Out α} {v : α} (h : x = .ok v) : x.isFault = false := by rw [h]; rfl

/-- a raw decoder that equals a total decoder of the family models (which have no `fault` outcome by construction: they never
    call `rd` / `rdN` / `peek`) does not fault -/
theorem noFault_of_eq_total {α} {x y : Out α} (h : x = y) (hy : y.isFault = false) : x.isFault = false := by rw [h]; exact hy

/-- **raw_decoders_safe** — for ALL option contents `d` (the memory is exactly the option's `data_size()` bytes), the pointer walks of
    the ICMPv6 typed decoders (`naack`, `lladdr`, `handover_key_req/reply`, `handover_assist_info` / `mobile_node_id`,
    `dns_search_list`, and the `*stream.pointer()` peeks of `prefix_info` / `map`) stay inside the option: each equals `ok` of the total decoder of `Wire/Icmp/Icmp6.lean` -/
theorem raw_decoders_safe_icmp6 (d : Bytes) :
    (Wire.Raw.Icmp6.naack d).isFault = false ∧ (Wire.Raw.Icmp6.lladdr d).isFault = false ∧
    (Wire.Raw.Icmp6.codeLen d).isFault = false ∧ (Wire.Raw.Icmp6.handoverReq d).isFault = false ∧
    (Wire.Raw.Icmp6.handoverReply d).isFault = false ∧ (Wire.Raw.Icmp6.dnsSearch d).isFault = false ∧
    (Wire.Raw.Icmp6.prefixInfo d).isFault = false ∧ (Wire.Raw.Icmp6.mapOpt d).isFault = false :=
  ⟨noFault_of_eq_ok (Wire.Raw.Icmp6.naack_eq d), noFault_of_eq_ok (Wire.Raw.Icmp6.lladdr_eq d),
   noFault_of_eq_ok (Wire.Raw.Icmp6.codeLen_eq d), noFault_of_eq_ok (Wire.Raw.Icmp6.handoverReq_eq d),
   noFault_of_eq_ok (Wire.Raw.Icmp6.handoverReply_eq d), noFault_of_eq_ok (Wire.Raw.Icmp6.dnsSearch_eq d),
   noFault_of_eq_ok (Wire.Raw.Icmp6.prefixInfo_eq d), noFault_of_eq_ok (Wire.Raw.Icmp6.mapOpt_eq d)⟩

/-- the Dot11 management-frame decoders (`channel_switch`, `fh_pattern`, `tim`, `ibss_dfs`, `country`, `vendor_specific`, the rates
    converter): raw walk = total decoder of `Wire/Wifi/Tagged.lean`, hence no fault -/
theorem raw_decoders_safe_wifi (d : Bytes) :
    (Wire.Raw.Wifi.channelSwitch d).isFault = false ∧ (Wire.Raw.Wifi.fhPattern d).isFault = false ∧
    (Wire.Raw.Wifi.tim d).isFault = false ∧ (Wire.Raw.Wifi.ibssDfs d).isFault = false ∧
    (Wire.Raw.Wifi.country d).isFault = false ∧ (Wire.Raw.Wifi.vendorFromBytes d).isFault = false ∧
    (Wire.Raw.Wifi.rates d).isFault = false := by
  refine ⟨?_, ?_, ?_, ?_, ?_, Wire.Raw.Wifi.vendorFromBytes_noFault d, noFault_of_eq_ok (Wire.Raw.Wifi.rates_eq d)⟩
  · rw [Wire.Raw.Wifi.channelSwitch_eq]; unfold Wire.Wifi.Tagged.decodeChannelSwitch; split <;> rfl
  · rw [Wire.Raw.Wifi.fhPattern_eq]; unfold Wire.Wifi.Tagged.decodeFhPattern; split <;> rfl
  · rw [Wire.Raw.Wifi.tim_eq]; unfold Wire.Wifi.Tagged.decodeTim; split <;> rfl
  · rw [Wire.Raw.Wifi.ibssDfs_eq]; unfold Wire.Wifi.Tagged.decodeIbssDfs
    split
    · rfl
    · have : ∀ l, (Wire.Wifi.Tagged.dfsPairs l).isFault = false := by
        intro l
        induction l using Wire.Wifi.Tagged.dfsPairs.induct with
        | case1 => rfl
        | case2 => rfl
        | case3 x y r ih =>
          simp only [Wire.Wifi.Tagged.dfsPairs]
          cases h : Wire.Wifi.Tagged.dfsPairs r with
          | ok a => rfl
          | throw e => rfl
          | fault s => rw [h] at ih; simp [Out.isFault] at ih
      have h := this (List.drop 7 d)
      cases hx : Wire.Wifi.Tagged.dfsPairs (List.drop 7 d) with
      | ok a => rfl
      | throw e => rfl
      | fault s => rw [hx] at h; simp [Out.isFault] at h
  · rw [Wire.Raw.Wifi.country_eq]; unfold Wire.Wifi.Tagged.decodeCountry
    split
    · rfl
    · split
      split <;> rfl

/-- the remaining decoders: the IP route options, the DHCPv6 class data, lists of IPv6 addresses, the four `extract_metadata`,
    `hw_address_to_string`, `Utils::sum_range`, `Utils::crc32` (the last three for every `count ≤` what exists) -/
theorem raw_decoders_safe_misc (d : Bytes) (n : Nat) (hn : n ≤ d.length) :
    (Wire.Raw.Misc.route d).isFault = false ∧ (Wire.Raw.Misc.classDataRaw d).isFault = false ∧
    (Wire.Raw.Misc.addr6List d).isFault = false ∧
    Wire.Raw.Misc.MetaSafe (Wire.Raw.Misc.ipMetadata d) ∧ Wire.Raw.Misc.MetaSafe (Wire.Raw.Misc.tcpMetadata d) ∧
    Wire.Raw.Misc.MetaSafe (Wire.Raw.Misc.ethMetadata d) ∧ Wire.Raw.Misc.MetaSafe (Wire.Raw.Misc.eapolMetadata d) ∧
    (Wire.Raw.Misc.hwToString d n).isFault = false ∧ (Wire.Raw.Misc.sumRangeRaw d n).isFault = false ∧
    (Wire.Raw.Misc.crc32Raw d n).isFault = false := by
  refine ⟨?_, noFault_of_eq_ok (Wire.Raw.Misc.classDataRaw_eq d d.length (Nat.le_refl _)), Wire.Raw.Misc.addr6List_noFault d,
    Wire.Raw.Misc.ipMetadata_safe d, Wire.Raw.Misc.tcpMetadata_safe d, Wire.Raw.Misc.ethMetadata_safe d,
    Wire.Raw.Misc.eapolMetadata_safe d, Wire.Raw.Misc.hwToString_noFault d n hn,
    noFault_of_eq_ok (Wire.Raw.Misc.sumRangeRaw_eq d n hn), noFault_of_eq_ok (Wire.Raw.Misc.crc32Raw_eq d n hn)⟩
  rw [Wire.Raw.Misc.route_eq 0 0 d]; unfold Wire.Ip.Ip4.decodeRoute; split <;> rfl

/-- non-vacuity: a DNS search list option with two domains goes through the raw walk, and a truncated label is refused -/
example : Wire.Raw.Icmp6.dnsSearch [0, 0, 0, 0, 0, 60, 1, 97, 2, 98, 99, 0, 1, 100, 0] =
    .ok (.val "60.612e6263,64") := by rfl
example : Wire.Raw.Icmp6.dnsSearch [0, 0, 0, 0, 0, 60, 5, 97, 98] = .ok .notFound := by rfl

/-- non-vacuity: a concrete operation sequence that succeeds and one that is rejected -/
example : ∃ c', (Cursor.ofBytes [1, 2, 3, 4, 5]).run [.read 2, .peek 0 2, .shrink 2, .skip 2] = .ok c' := ⟨_, rfl⟩
example : (Cursor.ofBytes [1, 2, 3]).run [.read 2, .read 2] = .throw .malformedPacket := rfl

/-- an unchecked `size(m)` that *enlarges* the stream is exactly what breaks safety: the model faults -/
example : (((Cursor.ofBytes [1, 2]).setSize 5).read 4).isFault = true := rfl

end Tins.Props.C01
