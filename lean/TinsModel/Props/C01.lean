import TinsModel.Basic.CursorLemmas
import TinsModel.Wire.RegistryLemmas
import TinsModel.Wire.L2.Theorems
import TinsModel.Wire.Ip.Theorems
import TinsModel.Wire.Ip6.Theorems
import TinsModel.Wire.Icmp.Theorems
import TinsModel.Wire.Transport.Theorems
import TinsModel.Wire.App.Theorems
import TinsModel.Wire.Wifi.Theorems
import TinsModel.Wire.Coverage
/-
  Property C01 — parsing untrusted bytes is memory-safe and fails only as malformed-packet.
  Generic part here; the per-class `*_parse_safe` theorems live in TinsModel/Wire/<Family>/Theorems.lean
  and are audited through Audit/Wire<Family>.lean.
-/
namespace Tins.Props.C01
open Tins

/-- **cursor_safe** — every finite sequence of `InputMemoryStream` operations on a stream over the caller's
    buffer (reads, skips, `size(m)` with `m ≤ size()`, raw peeks guarded by `size()`) stays inside the buffer and
    can only throw `malformed_packet`. -/
theorem cursor_safe (b : Bytes) (ops : List CursorOp) :
    (∃ c', (Cursor.ofBytes b).run ops = .ok c' ∧ c'.Inv) ∨ (Cursor.ofBytes b).run ops = .throw .malformedPacket := by
  rcases Cursor.run_safe ops (Cursor.ofBytes b) (Cursor.ofBytes_inv b) with ⟨c', h, hi, _⟩ | h
  · exact .inl ⟨c', h, hi⟩
  · exact .inr h

/-- **chain_parse_safe** — parsing a whole chain of nested layers (any depth) never faults, terminates within the
    fuel the drivers use (`|b| + 2`) and throws only `malformed_packet`, provided every modelled class's constructor is
    safe and hands its inner constructor a strictly shorter buffer (`Wire.ClassesSafe`, discharged per family). -/
theorem chain_parse_safe (h : Wire.ClassesSafe) (cls : String) (b : Bytes) :
    (Wire.parseChain (b.length + 2) cls b).Safe :=
  Wire.parseChain_entry_safe h cls b

/-! ### entry-point coverage (the table `Gen.EntryPoints.all` is regenerated from the headers on every run) -/

/-- the AST scan behind `Gen.EntryPoints.all` classified every declaration that matches the pattern -/
theorem entry_scan_complete : Gen.EntryPoints.unparsed = [] := Wire.Coverage.scan_complete

/-- **entry_points_covered** — every construct-from-buffer form of libtins' public interface (public constructor, static
    member, member function or free function of namespace Tins taking `const uint8_t*` + size) has a disposition in
    `Wire/Coverage.lean`: a Lean model with a safety theorem, a harness that drives it under the sanitizers, or a reason
    why it is no parser of untrusted bytes.  A form added to libtins has none: this theorem then fails and the check
    reports the new entry point. -/
theorem entry_points_covered : ∀ e ∈ Gen.EntryPoints.all, (Wire.Coverage.disposition e).isSome :=
  Wire.Coverage.entryPoints_covered

private theorem ps_map {α β} {x : Out α} (f : α → β) (h : Wire.ParseSafe x) : Wire.ParseSafe (x >>= fun a => pure (f a)) := by
  rcases h with ⟨a, h⟩ | h
  · exact .inl ⟨f a, by rw [h]; rfl⟩
  · exact .inr (by rw [h]; rfl)

private theorem contains_mem {l : List String} {c : String} (h : l.contains c = true) : c ∈ l := by simpa using h

/-- **wire_modelled_safe** — what a row `modelled "Wire.parseOne cls"` of the coverage table claims: for every class of
    the six families with a Lean model (`Coverage.safeModelled`), the parsing constructor never faults and throws only
    `malformed_packet`, for ALL byte strings.  (Classes the Icmp family claims are excluded until that family has its
    `parse_safe` theorem; the table marks them `harnessOnly`.) -/
theorem wire_modelled_safe (cls : String) (b : Bytes) (h : Wire.Coverage.safeModelled cls = true)
    (hi : Wire.Icmp.classes.contains cls = false) : Wire.ParseSafe (Wire.parseOne cls b) := by
  unfold Wire.parseOne
  split
  · exact .inl ⟨_, rfl⟩
  split
  · rename_i hc; exact ps_map _ (Wire.L2.l2_parse_safe cls b (contains_mem hc))
  split
  · rename_i hc; exact ps_map _ (Wire.Ip.ip_parse_safe cls b (contains_mem hc))
  split
  · rename_i hc; exact ps_map _ (Wire.Ip6.ip6_parse_safe cls b (contains_mem hc))
  split
  · rename_i hc; rw [hi] at hc; cases hc
  split
  · rename_i hc; exact ps_map _ (Wire.Transport.transport_parse_safe cls b (contains_mem hc))
  split
  · rename_i hc; exact ps_map _ (Wire.App.app_parse_safe cls b (contains_mem hc))
  split
  · rename_i hc; exact ps_map _ (Wire.Wifi.wifi_parse_safe cls b (contains_mem hc))
  · exfalso
    simp only [Wire.Coverage.safeModelled, Bool.or_eq_true] at h
    simp_all

/-- the rows concerned: every entry point the table marks `modelled` through the wire registry names such a class -/
example : Wire.Coverage.safeModelled "IP" = true ∧ Wire.Icmp.classes.contains "IP" = false := by decide

/-- non-vacuity: a concrete operation sequence that succeeds and one that is rejected -/
example : ∃ c', (Cursor.ofBytes [1, 2, 3, 4, 5]).run [.read 2, .peek 0 2, .shrink 2, .skip 2] = .ok c' := ⟨_, rfl⟩
example : (Cursor.ofBytes [1, 2, 3]).run [.read 2, .read 2] = .throw .malformedPacket := rfl

/-- an unchecked `size(m)` that *enlarges* the stream is exactly what breaks safety: the model faults -/
example : (((Cursor.ofBytes [1, 2]).setSize 5).read 4).isFault = true := rfl

end Tins.Props.C01
