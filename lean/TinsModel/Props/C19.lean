import TinsModel.Ack.Refine
import TinsModel.Ack.SpecLemmas
/-
  Property C19 — the ACK/SACK tracker agrees with a set-of-acknowledged-bytes model.

  Histories are lists of `Spec.Pkt` over *absolute* positions (unbounded `Nat`, so they cross 2^32 freely); the
  tracker model is fed their 32-bit images (`Ack.feed`: `wrap32` of the ACK, edge vector `edgesOf` of the blocks).
  `conforming a0 [] h` is the hypothesis of the property (ACK never moves backwards, blocks strictly above it, a later
  ACK never inside an earlier block — i.e. what a receiver emits, `SpecLemmas.cumAck_mono` /
  `later_ack_not_in_block` — and everything the observer compares within half the sequence space).
  Helper lemmas live in `TinsModel/Ack/{Lemmas,Refine,SpecLemmas}.lean`.
-/
namespace Tins.Props.C19
open Tins Tins.Ack Tins.Ack.Spec

/-- the tracker `AckTracker(a0 mod 2^32, use_sack = true)` after it has processed the history `h` -/
def trackerAfter (a0 : Nat) (h : List Pkt) : Tracker := run (Tracker.init (wrap32 a0) true) h

/-- **State.** After every conforming history (any initial sequence number, any number of wraps of the sequence
    space) `ack_number()` is the image of the cumulative ACK and `acked_intervals()` holds exactly the images of
    the selectively acknowledged positions above it. -/
theorem ack_refines (a0 : Nat) (h : List Pkt) (hc : conforming a0 [] h = true) :
    (trackerAfter a0 h).ack = wrap32 (cumAck a0 h) ∧
    ∀ x, ISet.mem (trackerAfter a0 h).ivs x = true ↔
      ∃ p, wrap32 p = x ∧ cumAck a0 h < p ∧ sacked (allBlocks [] h) p = true := by
  have hr := rep_run h (rep_init a0 true) rfl hc
  exact ⟨hr.ack, hr.pts⟩

/-- **Query.** `is_segment_acked(seq, len)` is true iff every byte of the segment lies below the cumulative ACK or
    inside a SACKed block — for every segment inside the window `(A - 2^31, A + 2^31)`. -/
theorem segment_acked_iff (a0 : Nat) (h : List Pkt) (hc : conforming a0 [] h = true) (s n : Nat)
    (hd : queryInDomain (cumAck a0 h) s n = true) :
    isSegmentAcked (trackerAfter a0 h) (wrap32 s) n = true ↔ SegAcked (cumAck a0 h) (allBlocks [] h) s n :=
  isSegmentAcked_iff (rep_run h (rep_init a0 true) rfl hc) s n hd

/-- The reading of "for all query segments (seq,len)" without the window: every 32-bit length and every start
    position within half the sequence space of the ACK.  It is *false* — kept visible as a `Prop`, refuted below: a
    segment longer than 2^31 (or reaching beyond `A + 2^31`) has no meaning in serial-number arithmetic (RFC 1982),
    `AckedRange(seq, seq+len-1)` is then empty and `is_segment_acked` answers `true`.  What `segment_acked_iff` leaves
    out is exactly `¬ queryInDomain`: `len > 2^31`, `seq ≤ A - 2^31`, or `seq + len > A + 2^31`. -/
def SegmentAckedAnyLength : Prop :=
  ∀ (a0 : Nat) (h : List Pkt), conforming a0 [] h = true → ∀ s n, n < 4294967296 →
    cumAck a0 h < s + half → s < cumAck a0 h + half →
    (isSegmentAcked (trackerAfter a0 h) (wrap32 s) n = true ↔ SegAcked (cumAck a0 h) (allBlocks [] h) s n)

/-- witness: nothing acknowledged beyond position 3, query `(3, 2^31 + 1)` answers "acknowledged" -/
theorem segmentAckedAnyLength_fails : ¬ SegmentAckedAnyLength := by
  intro hall
  have h := hall 3 [] rfl 3 2147483649 (by decide) (by decide) (by decide)
  have hq : isSegmentAcked (trackerAfter 3 []) (wrap32 3) 2147483649 = true := by decide
  rcases h.1 hq 3 (Nat.le_refl 3) (by omega) with h' | h'
  · exact absurd h' (by decide)
  · exact absurd h' (by decide)

/-- **Representation.** `acked_intervals()` is *the* list of maximal runs of that point set: any ascending list of
    non-empty, non-touching closed intervals with the same points is equal to it (what `icl::first/last` iteration
    shows is determined by the specification, not only its point set). -/
theorem intervals_are_the_maximal_runs (a0 : Nat) (h : List Pkt) (hc : conforming a0 [] h = true) (s' : ISet)
    (hs' : Canon s')
    (hpts : ∀ x, ISet.mem s' x = true ↔ ∃ p, wrap32 p = x ∧ cumAck a0 h < p ∧ sacked (allBlocks [] h) p = true) :
    (trackerAfter a0 h).ivs = s' := by
  have hg : Good (trackerAfter a0 h) := good_run _ h ⟨wrap32_lt a0, trivial⟩
  apply canon_ext _ _ hg.2 hs'
  intro x
  have h1 := (ack_refines a0 h hc).2 x
  have h2 := hpts x
  cases e1 : ISet.mem (trackerAfter a0 h).ivs x <;> cases e2 : ISet.mem s' x <;> try rfl
  · exact absurd (h1.2 (h2.1 e2)) (by rw [e1]; simp)
  · exact absurd (h2.2 (h1.1 e1)) (by rw [e2]; simp)

/-- … and for *any* traffic, conforming or not, the interval list stays canonical (ascending, non-empty intervals,
    at least one missing number between neighbours) and the ACK number stays a 32-bit number. -/
theorem intervals_always_canonical (a0 : Nat) (b : Bool) (h : List Pkt) :
    Good (run (Tracker.init (wrap32 a0) b) h) :=
  good_run _ h ⟨wrap32_lt a0, trivial⟩

/-- … step form: one `process_packet` call with any 32-bit ACK and any SACK option content keeps it canonical. -/
theorem canonical_preserved_by_any_packet (t : Tracker) (a : Nat) (sack : SackOpt) (hg : Good t)
    (ha : a < 4294967296) (he : ∀ e, sack = .edges e → ∀ x ∈ e, x < 4294967296) :
    Good (processPacket t a sack).1 :=
  good_processPacket t a sack hg ha he

/-- **SACK off.** With `use_sack_ == false` the tracker follows the cumulative ACK (any number of wraps) and never
    stores an interval, whatever SACK blocks the packets carry. -/
theorem ack_only_without_sack (a0 : Nat) (h : List Pkt) (hc : acksOK a0 h = true) :
    (run (Tracker.init (wrap32 a0) false) h).ack = wrap32 (cumAck a0 h) ∧
    (run (Tracker.init (wrap32 a0) false) h).ivs = [] := by
  have hr := rep_run_noSack h (rep_init a0 false) rfl hc
  refine ⟨hr.ack, ?_⟩
  have hg : Good (run (Tracker.init (wrap32 a0) false) h) := good_run _ h ⟨wrap32_lt a0, trivial⟩
  apply canon_ext _ [] hg.2 trivial
  intro x
  cases e : ISet.mem (run (Tracker.init (wrap32 a0) false) h).ivs x with
  | false => rfl
  | true =>
    obtain ⟨p, _, _, hp⟩ := (hr.pts x).1 e
    simp [sacked] at hp

/-- **Option bytes.** The SACK option `TCP::sack(edges)` writes (big-endian 32-bit edges) is decoded by the
    `vector<uint32_t>` converter to the same edges, so `feed` is `process_packet` on the packet a peer would send. -/
theorem sack_option_roundtrip (bs : List Blk) :
    decodeSack (encodeEdges (edgesOf bs)) = .edges (edgesOf bs) :=
  decodeSack_encodeEdges _ (edgesOf_lt bs)

/-- The same invariant from any tracker state that represents some observer knowledge (so the two theorems above
    also hold for a tracker that is queried and fed in any interleaving). -/
theorem invariant_step (A : Nat) (seen : List Blk) (t : Tracker) (hr : Rep A seen t) (hs : t.useSack = true)
    (k : Pkt) (hk : pktOK A seen k = true) :
    Rep k.ack (seen ++ k.blocks) (feed t k) ∧ (feed t k).useSack = true :=
  ⟨rep_feed hr hs k hk, by rw [feed_useSack, hs]⟩

/-- **Unreachable branch.** For a block of a conforming packet the branch of `process_sack` that *moves the ACK
    number* (`seq_compare(start, ack_number_) <= 0`) is never taken: the block is processed by insertions only. -/
theorem sack_low_branch_unreachable (A : Nat) (t : Tracker) (hack : t.ack = wrap32 A) (l r : Nat)
    (h1 : A < l) (h2 : l < r) (h3 : r ≤ A + half) :
    sackBlock t (wrap32 l) (wrap32 r) =
      { t with ivs := (Range.mk (wrap32 l) (wrap32 (r - 1))).intervals.foldl
                        (fun s i => insertIvl s i.lo i.hi) t.ivs } :=
  sackBlock_conforming hack l r h1 h2 h3

/-- **Bounded loops.** Every loop over an `AckedRange` runs at most two iterations, whatever the 32-bit inputs
    (regular range: one interval; wrapped range: the part up to 2^32-1 and the part from 0). -/
theorem acked_range_two_iterations (n x y : Nat) (hx : x < 4294967296) (hy : y < 4294967296) :
    Range.drain (n + 2) (Range.mk x y) = Range.drain 2 (Range.mk x y) ∧ (Range.drain 2 (Range.mk x y)).length ≤ 2 := by
  refine ⟨drain_fuel n x y hx hy, ?_⟩
  rw [drain_raw 0 x y hx hy]
  split <;> split <;> simp

/-- **Wrap-aware splitter.** `AckedRange(a mod 2^32, b mod 2^32)` covers exactly the images of the absolute
    positions `a..b` (for `a ≤ b` less than 2^31 apart). -/
theorem acked_range_points (a b x : Nat) (hab : a ≤ b) (hw : b < a + 2147483648) :
    ISet.mem (Range.mk (wrap32 a) (wrap32 b)).intervals x = true ↔ ∃ p, a ≤ p ∧ p ≤ b ∧ wrap32 p = x :=
  mem_intervals_abs a b x hab hw

/-- **Interval-set parameter.** The three icl operations the tracker uses, as modelled, have point-set semantics. -/
theorem interval_set_semantics (s : ISet) (lo hi p : Nat) :
    (ISet.mem (insertIvl s lo hi) p = true ↔ (ISet.mem s p = true ∨ (lo ≤ p ∧ p ≤ hi))) ∧
    (ISet.mem (eraseIvl s lo hi) p = true ↔ (ISet.mem s p = true ∧ ¬ (lo ≤ p ∧ p ≤ hi))) ∧
    (lo ≤ hi → (containsIvl s lo hi = true ↔ ∀ q, lo ≤ q → q ≤ hi → ISet.mem s q = true)) :=
  ⟨mem_insertIvl s lo hi p, mem_eraseIvl s lo hi p, containsIvl_iff s lo hi⟩

/-- **Oracle.** The interval computation the run-time oracle uses is the byte-level definition. -/
theorem oracle_is_definition (A : Nat) (seen : List Blk) (s n : Nat) :
    segAckedFast A seen s n = true ↔ SegAcked A seen s n :=
  segAckedFast_iff A seen s n

/-- **Hypothesis is what receivers do.** A receiver whose set of held positions only grows emits cumulative ACKs that
    never move backwards and never land inside a block it reported earlier. -/
theorem receiver_histories_conform (a0 : Nat) (R R' : Nat → Prop) (A A' : Nat) (hsub : ∀ p, R p → R' p)
    (h : IsCumAck a0 R A) (h' : IsCumAck a0 R' A') (seen : List Blk) (hseen : ∀ p, sacked seen p = true → R p) :
    A ≤ A' ∧ sacked seen A' = false :=
  ⟨cumAck_mono a0 R R' A A' hsub h h', later_ack_not_in_block a0 R R' A' hsub h' seen hseen⟩

/-! ### non-vacuity: the hypotheses are satisfiable by non-trivial histories -/

/-- a history that crosses 2^32: two blocks (one across the wrap point), an ACK landing just below a block, a lost
    ACK, and the final ACK covering everything -/
def sampleHistory : List Pkt :=
  [⟨8589934582, [(8589934589, 8589934597)]⟩,
   ⟨8589934585, [(8589934589, 8589934597), (8589934600, 8589934610)]⟩,
   ⟨8589934597, [(8589934600, 8589934610)]⟩,
   ⟨8589934610, []⟩]

example : conforming 8589934582 [] sampleHistory = true := by decide
example : acksOK 8589934582 sampleHistory = true := by decide
example : conforming 8589934582 [] (sampleHistory.take 2) = true ∧
    queryInDomain (cumAck 8589934582 (sampleHistory.take 2)) 8589934589 8 = true := by decide
/-- the window hypothesis is tight but satisfiable at its edge: a block ending exactly at `A + 2^31` -/
example : conforming 4294967290 [] [⟨4294967290, [(4294967291, 4294967290 + 2147483648)]⟩] = true := by decide

/-- What the unreachable branch does on a *non-conforming* packet (a block starting at or below the tracker's ACK,
    here the unit test `AckingTcp_SackOutOfOrder1`): the ACK number becomes the *last* byte of the block (11), not
    the next expected position (12). Outside the property's hypothesis; compared model-vs-code only. -/
example : pktOK 10 [] ⟨0, [(9, 12)]⟩ = false := by decide
example : (feed (Tracker.init 10 true) ⟨0, [(9, 12)]⟩).ack = 11 := by decide

end Tins.Props.C19
