import TinsModel.Ack.Refine
import TinsModel.Ack.SpecLemmas
import TinsModel.Ack.WireLemmas
import TinsModel.Ack.Safety
import TinsModel.Ack.Icl
/-
  Property C19 — the ACK/SACK tracker agrees with a set-of-acknowledged-bytes model.

  Histories are lists of `Spec.Pkt` over *absolute* positions (unbounded `Nat`, so they cross 2^32 freely); the
  tracker model is fed their 32-bit images (`Ack.feed`: `wrap32` of the ACK, edge vector `edgesOf` of the blocks).
  `conforming a0 [] h` is the hypothesis of the property (ACK never moves backwards, blocks strictly above it, a later
  ACK never inside an earlier block — i.e. what a receiver emits, `SpecLemmas.cumAck_mono` /
  `later_ack_not_in_block` — and everything the observer compares within half the sequence space).
  Helper lemmas live in `TinsModel/Ack/{Lemmas,Canon,Refine,SpecLemmas,WireLemmas,Safety,Icl}.lean`.

  Second half of the file: the same statements *from wire bytes* (`ack_refines_wire`, composing the Transport family's
  model of `TCP::TCP(buffer,size)` / `sack()`), the decoder facts, the safety part for all histories and all byte
  strings, and the explicit interval-set contract.
-/
namespace Tins.Props.C19
open Tins Tins.Ack Tins.Ack.Spec Tins.Wire.Transport

/-- the tracker `AckTracker(a0 mod 2^32, use_sack = true)` after it has processed the history `h` -/
def trackerAfter (a0 : Nat) (h : List Pkt) : Tracker := run (Tracker.init (wrap32 a0) true) h

/-- **State.** After every conforming history (any initial sequence number, any number of wraps of the sequence
    space) `ack_number()` is the image of the cumulative ACK and `acked_intervals()` holds exactly the images of
    the selectively acknowledged positions above it. -/
theorem ack_refines (a0 : Nat) (h : List Pkt) (hc : conforming a0 [] h = true) :
    (trackerAfter a0 h).ack = wrap32 (cumAck a0 h) ∧
    ∀ x, ISet.mem (trackerAfter a0 h).ivs x = true ↔
      ∃ p, wrap32 p = x ∧ cumAck a0 h < p ∧ sacked (allBlocks [] h) p = true := by
  have hr := rep_run h (rep_init a0 true) rfl hc
  exact ⟨hr.ack, hr.pts⟩

/-- **Query.** `is_segment_acked(seq, len)` is true iff every byte of the segment lies below the cumulative ACK or
    inside a SACKed block — for every segment inside the window `(A - 2^31, A + 2^31)`. -/
theorem segment_acked_iff (a0 : Nat) (h : List Pkt) (hc : conforming a0 [] h = true) (s n : Nat)
    (hd : queryInDomain (cumAck a0 h) s n = true) :
    isSegmentAcked (trackerAfter a0 h) (wrap32 s) n = true ↔ SegAcked (cumAck a0 h) (allBlocks [] h) s n :=
  isSegmentAcked_iff (rep_run h (rep_init a0 true) rfl hc) s n hd

/-- The reading of "for all query segments (seq,len)" without the window: every 32-bit length and every start
    position within half the sequence space of the ACK.  It is *false* — kept visible as a `Prop`, refuted below: a
    segment longer than 2^31 (or reaching beyond `A + 2^31`) has no meaning in serial-number arithmetic (RFC 1982),
    `AckedRange(seq, seq+len-1)` is then empty and `is_segment_acked` answers `true`.  What `segment_acked_iff` leaves
    out is exactly `¬ queryInDomain`: `len > 2^31`, `seq ≤ A - 2^31`, or `seq + len > A + 2^31`. -/
def SegmentAckedAnyLength : Prop :=
  ∀ (a0 : Nat) (h : List Pkt), conforming a0 [] h = true → ∀ s n, n < 4294967296 →
    cumAck a0 h < s + half → s < cumAck a0 h + half →
    (isSegmentAcked (trackerAfter a0 h) (wrap32 s) n = true ↔ SegAcked (cumAck a0 h) (allBlocks [] h) s n)

/-- witness: nothing acknowledged beyond position 3, query `(3, 2^31 + 1)` answers "acknowledged" -/
theorem segmentAckedAnyLength_fails : ¬ SegmentAckedAnyLength := by
  intro hall
  have h := hall 3 [] rfl 3 2147483649 (by decide) (by decide) (by decide)
  have hq : isSegmentAcked (trackerAfter 3 []) (wrap32 3) 2147483649 = true := by decide
  rcases h.1 hq 3 (Nat.le_refl 3) (by omega) with h' | h'
  · exact absurd h' (by decide)
  · exact absurd h' (by decide)

/-- **Representation.** `acked_intervals()` is *the* list of maximal runs of that point set: any ascending list of
    non-empty, non-touching closed intervals with the same points is equal to it (what `icl::first/last` iteration
    shows is determined by the specification, not only its point set). -/
theorem intervals_are_the_maximal_runs (a0 : Nat) (h : List Pkt) (hc : conforming a0 [] h = true) (s' : ISet)
    (hs' : Canon s')
    (hpts : ∀ x, ISet.mem s' x = true ↔ ∃ p, wrap32 p = x ∧ cumAck a0 h < p ∧ sacked (allBlocks [] h) p = true) :
    (trackerAfter a0 h).ivs = s' := by
  have hg : Good (trackerAfter a0 h) := good_run _ h ⟨wrap32_lt a0, trivial⟩
  apply canon_ext _ _ hg.2 hs'
  intro x
  have h1 := (ack_refines a0 h hc).2 x
  have h2 := hpts x
  cases e1 : ISet.mem (trackerAfter a0 h).ivs x <;> cases e2 : ISet.mem s' x <;> try rfl
  · exact absurd (h1.2 (h2.1 e2)) (by rw [e1]; simp)
  · exact absurd (h2.2 (h1.1 e1)) (by rw [e2]; simp)

/-- … and for *any* traffic, conforming or not, the interval list stays canonical (ascending, non-empty intervals,
    at least one missing number between neighbours) and the ACK number stays a 32-bit number. -/
theorem intervals_always_canonical (a0 : Nat) (b : Bool) (h : List Pkt) :
    Good (run (Tracker.init (wrap32 a0) b) h) :=
  good_run _ h ⟨wrap32_lt a0, trivial⟩

/-- … step form: one `process_packet` call with any 32-bit ACK and any SACK option content keeps it canonical. -/
theorem canonical_preserved_by_any_packet (t : Tracker) (a : Nat) (sack : SackOpt) (hg : Good t)
    (ha : a < 4294967296) (he : ∀ e, sack = .edges e → ∀ x ∈ e, x < 4294967296) :
    Good (processPacket t a sack).1 :=
  good_processPacket t a sack hg ha he

/-- **SACK off.** With `use_sack_ == false` the tracker follows the cumulative ACK (any number of wraps) and never
    stores an interval, whatever SACK blocks the packets carry. -/
theorem ack_only_without_sack (a0 : Nat) (h : List Pkt) (hc : acksOK a0 h = true) :
    (run (Tracker.init (wrap32 a0) false) h).ack = wrap32 (cumAck a0 h) ∧
    (run (Tracker.init (wrap32 a0) false) h).ivs = [] := by
  have hr := rep_run_noSack h (rep_init a0 false) rfl hc
  refine ⟨hr.ack, ?_⟩
  have hg : Good (run (Tracker.init (wrap32 a0) false) h) := good_run _ h ⟨wrap32_lt a0, trivial⟩
  apply canon_ext _ [] hg.2 trivial
  intro x
  cases e : ISet.mem (run (Tracker.init (wrap32 a0) false) h).ivs x with
  | false => rfl
  | true =>
    obtain ⟨p, _, _, hp⟩ := (hr.pts x).1 e
    simp [sacked] at hp

/-- **Option bytes.** The SACK option `TCP::sack(edges)` writes (big-endian 32-bit edges) is decoded by the
    `vector<uint32_t>` converter to the same edges, so `feed` is `process_packet` on the packet a peer would send. -/
theorem sack_option_roundtrip (bs : List Blk) :
    decodeSack (encodeEdges (edgesOf bs)) = .edges (edgesOf bs) :=
  decodeSack_encodeEdges _ (edgesOf_lt bs)

/-- The same invariant from any tracker state that represents some observer knowledge (so the two theorems above
    also hold for a tracker that is queried and fed in any interleaving). -/
theorem invariant_step (A : Nat) (seen : List Blk) (t : Tracker) (hr : Rep A seen t) (hs : t.useSack = true)
    (k : Pkt) (hk : pktOK A seen k = true) :
    Rep k.ack (seen ++ k.blocks) (feed t k) ∧ (feed t k).useSack = true :=
  ⟨rep_feed hr hs k hk, by rw [feed_useSack, hs]⟩

/-- **Unreachable branch.** For a block of a conforming packet the branch of `process_sack` that *moves the ACK
    number* (`seq_compare(start, ack_number_) <= 0`) is never taken: the block is processed by insertions only. -/
theorem sack_low_branch_unreachable (A : Nat) (t : Tracker) (hack : t.ack = wrap32 A) (l r : Nat)
    (h1 : A < l) (h2 : l < r) (h3 : r ≤ A + half) :
    sackBlock t (wrap32 l) (wrap32 r) =
      { t with ivs := (Range.mk (wrap32 l) (wrap32 (r - 1))).intervals.foldl
                        (fun s i => insertIvl s i.lo i.hi) t.ivs } :=
  sackBlock_conforming hack l r h1 h2 h3

/-- **Bounded loops.** Every loop over an `AckedRange` runs at most two iterations, whatever the 32-bit inputs
    (regular range: one interval; wrapped range: the part up to 2^32-1 and the part from 0). -/
theorem acked_range_two_iterations (n x y : Nat) (hx : x < 4294967296) (hy : y < 4294967296) :
    Range.drain (n + 2) (Range.mk x y) = Range.drain 2 (Range.mk x y) ∧ (Range.drain 2 (Range.mk x y)).length ≤ 2 := by
  refine ⟨drain_fuel n x y hx hy, ?_⟩
  rw [drain_raw 0 x y hx hy]
  split <;> split <;> simp

/-- **Wrap-aware splitter.** `AckedRange(a mod 2^32, b mod 2^32)` covers exactly the images of the absolute
    positions `a..b` (for `a ≤ b` less than 2^31 apart). -/
theorem acked_range_points (a b x : Nat) (hab : a ≤ b) (hw : b < a + 2147483648) :
    ISet.mem (Range.mk (wrap32 a) (wrap32 b)).intervals x = true ↔ ∃ p, a ≤ p ∧ p ≤ b ∧ wrap32 p = x :=
  mem_intervals_abs a b x hab hw

/-- **Interval-set parameter.** The three icl operations the tracker uses, as modelled, have point-set semantics. -/
theorem interval_set_semantics (s : ISet) (lo hi p : Nat) :
    (ISet.mem (insertIvl s lo hi) p = true ↔ (ISet.mem s p = true ∨ (lo ≤ p ∧ p ≤ hi))) ∧
    (ISet.mem (eraseIvl s lo hi) p = true ↔ (ISet.mem s p = true ∧ ¬ (lo ≤ p ∧ p ≤ hi))) ∧
    (lo ≤ hi → (containsIvl s lo hi = true ↔ ∀ q, lo ≤ q → q ≤ hi → ISet.mem s q = true)) :=
  ⟨mem_insertIvl s lo hi p, mem_eraseIvl s lo hi p, containsIvl_iff s lo hi⟩

/-- **Oracle.** The interval computation the run-time oracle uses is the byte-level definition. -/
theorem oracle_is_definition (A : Nat) (seen : List Blk) (s n : Nat) :
    segAckedFast A seen s n = true ↔ SegAcked A seen s n :=
  segAckedFast_iff A seen s n

/-- **Hypothesis is what receivers do.** A receiver whose set of held positions only grows emits cumulative ACKs that
    never move backwards and never land inside a block it reported earlier. -/
theorem receiver_histories_conform (a0 : Nat) (R R' : Nat → Prop) (A A' : Nat) (hsub : ∀ p, R p → R' p)
    (h : IsCumAck a0 R A) (h' : IsCumAck a0 R' A') (seen : List Blk) (hseen : ∀ p, sacked seen p = true → R p) :
    A ≤ A' ∧ sacked seen A' = false :=
  ⟨cumAck_mono a0 R R' A A' hsub h h', later_ack_not_in_block a0 R R' A' hsub h' seen hseen⟩

/-! ### non-vacuity: the hypotheses are satisfiable by non-trivial histories -/

/-- a history that crosses 2^32: two blocks (one across the wrap point), an ACK landing just below a block, a lost
    ACK, and the final ACK covering everything -/
def sampleHistory : List Pkt :=
  [⟨8589934582, [(8589934589, 8589934597)]⟩,
   ⟨8589934585, [(8589934589, 8589934597), (8589934600, 8589934610)]⟩,
   ⟨8589934597, [(8589934600, 8589934610)]⟩,
   ⟨8589934610, []⟩]

example : conforming 8589934582 [] sampleHistory = true := by decide
example : acksOK 8589934582 sampleHistory = true := by decide
example : conforming 8589934582 [] (sampleHistory.take 2) = true ∧
    queryInDomain (cumAck 8589934582 (sampleHistory.take 2)) 8589934589 8 = true := by decide
/-- the window hypothesis is tight but satisfiable at its edge: a block ending exactly at `A + 2^31` -/
example : conforming 4294967290 [] [⟨4294967290, [(4294967291, 4294967290 + 2147483648)]⟩] = true := by decide

/-- What the unreachable branch does on a *non-conforming* packet (a block starting at or below the tracker's ACK,
    here the unit test `AckingTcp_SackOutOfOrder1`): the ACK number becomes the *last* byte of the block (11), not
    the next expected position (12). Outside the property's hypothesis; compared model-vs-code only. -/
example : pktOK 10 [] ⟨0, [(9, 12)]⟩ = false := by decide
example : (feed (Tracker.init 10 true) ⟨0, [(9, 12)]⟩).ack = 11 := by decide

/-! ## From wire bytes to the acknowledged set

  `processWire t bytes` is `AckTracker::process_packet(TCP(bytes, size))`: the byte-level model of the parsing constructor
  and of `search_option(SACK)` / `to<sack_type>()` (Transport wire family, properties C01/C04) composed with the
  tracker model.  `encodeSeg sh k` is the packet `k` of the specification put on the wire by the reference encoder
  (`Ack/Wire.lean: refSegment`, RFC 793 / RFC 2018): the cumulative ACK mod 2^32 in the header, the blocks' edges
  big-endian in a SACK option, anything well-formed around it (`SegShape`). -/

/-- **Wire refinement.** A conforming history, each packet encoded as a TCP segment — with any other header fields,
    any well-formed options (NOP padding, timestamps, …) in front of and behind the SACK option, the SACK option
    omitted or empty when there is no block, any payload — and handed to the tracker as bytes: `ack_number()` is the
    image of the cumulative ACK and `acked_intervals()` holds exactly the images of the selectively acknowledged
    positions above it.  (At most 40 option bytes, hence at most 4 blocks: `SegShape.OK.blocks_le`.) -/
theorem ack_refines_wire (a0 : Nat) (h : List (Pkt × SegShape)) (hok : ∀ x ∈ h, x.2.OK x.1)
    (hc : conforming a0 [] (h.map (·.1)) = true) :
    let t := wireRun (Tracker.init (wrap32 a0) true) (h.map (fun x => encodeSeg x.2 x.1))
    t = trackerAfter a0 (h.map (·.1)) ∧
    t.ack = wrap32 (cumAck a0 (h.map (·.1))) ∧
    ∀ x, ISet.mem t.ivs x = true ↔
      ∃ p, wrap32 p = x ∧ cumAck a0 (h.map (·.1)) < p ∧ sacked (allBlocks [] (h.map (·.1))) p = true := by
  have hw := wireRun_encode (Tracker.init (wrap32 a0) true) h hok
  have hr := ack_refines a0 (h.map (·.1)) hc
  simp only
  rw [hw]
  exact ⟨rfl, hr.1, hr.2⟩

/-- … and the query on that tracker: `is_segment_acked` is the byte-level definition (inside the window). -/
theorem segment_acked_iff_wire (a0 : Nat) (h : List (Pkt × SegShape)) (hok : ∀ x ∈ h, x.2.OK x.1)
    (hc : conforming a0 [] (h.map (·.1)) = true) (s n : Nat)
    (hd : queryInDomain (cumAck a0 (h.map (·.1))) s n = true) :
    isSegmentAcked (wireRun (Tracker.init (wrap32 a0) true) (h.map (fun x => encodeSeg x.2 x.1))) (wrap32 s) n = true ↔
      SegAcked (cumAck a0 (h.map (·.1))) (allBlocks [] (h.map (·.1))) s n := by
  rw [wireRun_encode _ h hok]
  exact segment_acked_iff a0 _ hc s n hd

/-- one step of the above from **any** tracker state: the encoded packet acts as `feed`, and `process_packet` returns
    normally -/
theorem wire_step_is_feed (t : Tracker) (sh : SegShape) (k : Pkt) (h : sh.OK k) :
    processWire t (encodeSeg sh k) = (feed t k, .done) :=
  wireStep_encodeSeg t sh k h

/-- **Decoder facts.** The typed SACK decoder of the Transport family (`Tcp.decodeSack`, the stream loop of
    `convert_vector<uint32_t>`) is the tracker model's decoder: big-endian 32-bit words; `malformed_option` exactly when
    the data size is not a multiple of four; every decoded edge is a 32-bit number. -/
theorem sack_decoder_facts (o : TcpOpt) :
    (Tcp.decodeSack o = if o.data.length % 4 != 0 then .throw .malformedOption else .ok (decodeEdges o.data)) ∧
    (decodeSack o.data = .malformed ↔ o.data.length % 4 ≠ 0) ∧
    (∀ x ∈ decodeEdges o.data, x < 4294967296) ∧
    (∀ a b c d : UInt8, ∀ r, decodeEdges (a :: b :: c :: d :: r) =
      (a.toNat * 16777216 + b.toNat * 65536 + c.toNat * 256 + d.toNat) :: decodeEdges r) :=
  ⟨tcp_decodeSack_eq o, decodeSack_malformed_iff o.data, decodeEdges_lt o.data, fun _ _ _ _ _ => rfl⟩

/-- **Any SACK option bytes.** A segment whose SACK option carries arbitrary data bytes `d` (other options as above):
    the tracker processes the cumulative ACK and then `decodeSack d`. -/
theorem wire_any_sack_bytes (t : Tracker) (h : Tcp) (pre post : List TcpOpt) (d payload : Bytes) (hi : h.Inv)
    (hc : ∀ o ∈ pre ++ post, Tcp.Canon o) (h1 : ∀ o ∈ pre ++ post, o.code ≠ Tcp.SACK) (hd : d.length ≤ 253)
    (hf : Tcp.optsSum (pre ++ [⟨Tcp.SACK, d.length, d⟩] ++ post) ≤ 40) :
    processWire t (refSegment h (pre ++ [⟨Tcp.SACK, d.length, d⟩] ++ post) payload) =
      ((processPacket t h.ackSeq (decodeSack d)).1,
        if (processPacket t h.ackSeq (decodeSack d)).2 then .malformedOption else .done) :=
  processWire_refSegment t h pre post d payload hi hc h1 hd hf

/-- **Malformed SACK option** (option length not `2 + 4k`): `malformed_option` leaves `process_packet` *after* the
    cumulative ACK has been processed — the tracker is in the state `ackStep` (ACK advanced, intervals at or below it
    erased, nothing inserted) and stays usable. -/
theorem wire_malformed_sack (t : Tracker) (hs : t.useSack = true) (h : Tcp) (pre post : List TcpOpt)
    (d payload : Bytes) (hi : h.Inv) (hc : ∀ o ∈ pre ++ post, Tcp.Canon o) (h1 : ∀ o ∈ pre ++ post, o.code ≠ Tcp.SACK)
    (hd : d.length ≤ 253) (hf : Tcp.optsSum (pre ++ [⟨Tcp.SACK, d.length, d⟩] ++ post) ≤ 40)
    (hm : d.length % 4 ≠ 0) :
    processWire t (refSegment h (pre ++ [⟨Tcp.SACK, d.length, d⟩] ++ post) payload) =
      (ackStep t h.ackSeq, .malformedOption) := by
  rw [processWire_refSegment t h pre post d payload hi hc h1 hd hf, (decodeSack_malformed_iff d).2 hm,
    processPacket_malformed t h.ackSeq hs]
  rfl

/-- **Odd edge count** (option length `2 + 4k`, `k` odd): *not* an error in libtins — the converter only tests
    `size % 4`, and `process_sack` pairs the edges up and never reads the last one. -/
theorem odd_edge_count_drops_last (t : Tracker) (es : List Nat) (x : Nat) (he : es.length % 2 = 0) :
    processSack t (es ++ [x]) = processSack t es :=
  processSack_odd x es t he

/-! ## Every history, conforming or not -/

/-- **No input is outside the model, nothing faults.** For every well-formed tracker state and every byte string:
    `TCP(bytes)` throws `malformed_packet` and the tracker is untouched, or `process_packet` returns, or it throws
    `malformed_option` with the tracker in the state `ackStep` — never a fault of the parser or decoder, never another
    exception; the state stays well-formed. -/
theorem wire_total_any_bytes (t : Tracker) (b : Bytes) (hg : Good t) :
    Good (processWire t b).1 ∧
    ((processWire t b).2 = .malformedPacket ∧ (processWire t b).1 = t ∨
     (processWire t b).2 = .done ∨
     ∃ a, a < 4294967296 ∧ (processWire t b).2 = .malformedOption ∧ (processWire t b).1 = ackStep t a) :=
  processWire_total t b hg

/-- … for whole histories of arbitrary byte strings -/
theorem wire_history_any_bytes (a0 : Nat) (b : Bool) (segs : List Bytes) :
    Good (wireRun (Tracker.init (wrap32 a0) b) segs) :=
  good_wireRun _ segs ⟨wrap32_lt a0, trivial⟩

/-- **State well-formed after any packet**: 32-bit ACK number, canonical interval list (ascending, non-empty,
    non-touching), every edge a 32-bit number — for any 32-bit ACK and any edge vector. -/
theorem sane_preserved_by_any_packet (t : Tracker) (a : Nat) (sack : SackOpt) (hs : Sane t) (ha : a < 4294967296)
    (he : ∀ e, sack = .edges e → ∀ x ∈ e, x < 4294967296) : Sane (processPacket t a sack).1 :=
  sane_processPacket t a sack hs ha he

/-- **`is_segment_acked` is total and means this, in every state**: at most two pieces, each a non-empty 32-bit
    interval (so `icl::contains` is only ever asked about non-empty closed intervals), and the answer is "every piece
    ends before the ACK number or lies in the interval set". -/
theorem is_segment_acked_any_state (t : Tracker) (s n : Nat) (hs : s < 4294967296) (hn : n ≠ 0) :
    ((Range.mk s (wrap32 (s + n + 4294967295))).intervals.length ≤ 2 ∧
      ∀ i ∈ (Range.mk s (wrap32 (s + n + 4294967295))).intervals, i.lo ≤ i.hi ∧ i.hi < 4294967296) ∧
    (isSegmentAcked t s n = true ↔
      ∀ i ∈ (Range.mk s (wrap32 (s + n + 4294967295))).intervals,
        seqCompare i.hi t.ack < 0 ∨ ∀ p, i.lo ≤ p → p ≤ i.hi → ISet.mem t.ivs p = true) := by
  refine ⟨⟨?_, fun i hi => intervals_nonempty s _ hs (wrap32_lt _) i hi⟩, isSegmentAcked_pointwise t s n hs hn⟩
  rw [intervals_raw _ _ hs (wrap32_lt _)]
  split <;> split <;> simp

/-- The invariant one would like for all histories: every stored point lies ahead of the ACK number
    (`seq_compare(p, ack_number_) > 0`, i.e. within `(ack, ack + 2^31]`).  It does **not** hold — refuted below. -/
def WindowInvariantAllHistories : Prop :=
  ∀ (t : Tracker) (a : Nat) (e : List Nat), Sane t → InWindow t → a < 4294967296 → (∀ x ∈ e, x < 4294967296) →
    InWindow (processPacket t a (.edges e)).1

/-- witness 1 (SACK block straddling the ACK number): ACK 10, stored `[20,30]`; the block `[5,100)` makes the code
    *assign* `ack_number_ = 99` without erasing — `[20,30]` is left behind the ACK number. -/
theorem windowInvariantAllHistories_fails : ¬ WindowInvariantAllHistories := by
  intro hall
  have h := hall ⟨10, [⟨20, 30⟩], true⟩ 10 [5, 100]
    ⟨by decide, ⟨by decide, trivial, trivial⟩, by intro j hj; simp only [List.mem_singleton] at hj; subst hj; decide⟩
    (by intro p hp; simp [ISet.mem] at hp; unfold sub32; simp only; omega)
    (by decide) (by decide)
  have h20 := h 20 (by decide)
  revert h20; decide

/-- **Window, proved part.** Every packet whose ACK does not jump by exactly 2^31 and none of whose blocks straddles
    the ACK number keeps all stored points ahead of the ACK number.  No other conformance is needed: the ACK may stand
    still or "go back" (ignored), blocks may be empty, reversed, below the ACK, beyond the window (all skipped by the
    code), overlapping or repeated. The excluded region is decidable: `sub32 a t.ack = 2^31 ∨ ¬ edgesHigh …`. -/
theorem window_invariant_partial (t : Tracker) (a : Nat) (e : List Nat) (hs : Sane t) (hw : InWindow t)
    (ha : a < 4294967296) (he : ∀ x ∈ e, x < 4294967296) (hj : sub32 a t.ack ≠ 2147483648)
    (hh : edgesHigh (ackStep t a).ack e = true) : InWindow (processPacket t a (.edges e)).1 :=
  inWindow_processPacket t a e hs hw ha he hj hh

/-- `InWindow` is the C++ comparison: `seq_compare(p, ack_number_) > 0` for every stored point -/
theorem inWindow_iff_seqCompare (t : Tracker) (hs : Sane t) :
    InWindow t ↔ ∀ p, ISet.mem t.ivs p = true → seqCompare p t.ack > 0 := by
  constructor
  · intro h p hp
    exact (seqCompare_pos_iff p t.ack (mem_lt_of_bnd hs.2.2 hp) hs.1).2 (h p hp)
  · intro h p hp
    exact (seqCompare_pos_iff p t.ack (mem_lt_of_bnd hs.2.2 hp) hs.1).1 (h p hp)

/-! ### surprising but harmless: what the code does on non-conforming input (each compared with the real class by the
    `CORPUS` cases of checks/C19.py) -/

/-- witness 2 (the other way to break the window): an ACK jumping by exactly 2^31 is accepted
    (`seq_compare(new, old) > 0`) but `AckedRange(old, new).has_next()` is false: nothing is erased, and the stored
    interval `[20,30]` ends up *behind* the new ACK number. -/
example : (processPacket ⟨10, [⟨20, 30⟩], true⟩ 2147483658 .absent).1 = ⟨2147483658, [⟨20, 30⟩], true⟩ := by decide
example : seqCompare 20 2147483658 < 0 := by decide

/-- witness 3 (a straddling block across the wrap point moves the ACK number *backwards*): ACK 5, block
    `[4294967280, 11)`.  The first piece `[4294967280, 4294967295]` "starts before the ACK", so the ACK number becomes
    its end, 4294967295 — six positions *back* — and the second piece `[0, 10]` is then inserted.  Position 4294967295
    was acknowledged before the packet and is not afterwards; the unwrapped analogue (ACK 21, block `[16, 27)`) gives
    ACK 26 and no interval.  Non-conforming input (RFC 2018: blocks lie above the cumulative ACK); no fault, state
    well-formed (`sane_preserved_by_any_packet`). -/
example : (processPacket (Tracker.init 5 true) 5 (.edges [4294967280, 11])).1 = ⟨4294967295, [⟨0, 10⟩], true⟩ := by decide
example : isSegmentAcked (Tracker.init 5 true) 4294967295 1 = true ∧
    isSegmentAcked ⟨4294967295, [⟨0, 10⟩], true⟩ 4294967295 1 = false := by decide
example : (processPacket (Tracker.init 21 true) 21 (.edges [16, 27])).1 = ⟨26, [], true⟩ := by decide

/-- witness 4: an odd number of edges — the last one is never looked at -/
example : decodeSack (encodeEdges [20, 30, 40]) = .edges [20, 30, 40] ∧
    processSack (Tracker.init 10 true) [20, 30, 40] = processSack (Tracker.init 10 true) [20, 30] := by decide

/-- witness 5: a SACK option of 5 data bytes on the wire (kind 5, length 7, after two NOPs): the cumulative ACK 100 is
    processed — `[20,30]` is erased — and `malformed_option` leaves `process_packet` -/
example : processWire ⟨10, [⟨20, 30⟩], true⟩
    (refSegment { Tcp.create 1234 80 with ackSeq := 100 } [⟨1, 0, []⟩, ⟨1, 0, []⟩, ⟨5, 5, [0, 0, 0, 20, 0]⟩] []) =
      (⟨100, [], true⟩, .malformedOption) := by decide

/-! ### non-vacuity of the wire theorems -/

/-- `sampleHistory` on the wire: NOP NOP in front of the SACK option, a timestamp option behind it, empty SACK omitted
    in the last packet, 3 payload bytes -/
def sampleShape : SegShape :=
  { hdr := Tcp.create 1234 80, pre := [⟨1, 0, []⟩, ⟨1, 0, []⟩], post := [⟨8, 8, [0, 0, 0, 1, 0, 0, 0, 2]⟩],
    omitEmpty := true, payload := [1, 2, 3] }

def sampleWire : List (Pkt × SegShape) := sampleHistory.map (fun k => (k, sampleShape))

theorem sampleShape_ok : ∀ x ∈ sampleWire, x.2.OK x.1 := by
  intro x hx
  simp only [sampleWire, sampleHistory, List.map_cons, List.map_nil, List.mem_cons, List.mem_nil_iff, or_false] at hx
  have hdr : sampleShape.hdr.Inv := tcp_create_inv 1234 80
  have hcan : ∀ o ∈ sampleShape.pre ++ sampleShape.post, Tcp.Canon o := by
    intro o ho
    simp only [sampleShape, List.cons_append, List.nil_append, List.mem_cons, List.mem_nil_iff, or_false] at ho
    rcases ho with ho | ho | ho <;> subst ho <;> exact ⟨by decide, rfl, by decide, by decide⟩
  have hone : ∀ o ∈ sampleShape.pre ++ sampleShape.post, o.code ≠ Tcp.SACK := by
    intro o ho
    simp only [sampleShape, List.cons_append, List.nil_append, List.mem_cons, List.mem_nil_iff, or_false] at ho
    rcases ho with ho | ho | ho <;> subst ho <;> decide
  rcases hx with hx | hx | hx | hx <;> subst hx <;> exact ⟨hdr, hcan, hone, by decide⟩

example : conforming 8589934582 [] (sampleWire.map (·.1)) = true := by decide
/-- the second packet of the sample on the wire: 20 header bytes, data offset 15, `01 01 05 12 <4 edges> 08 0a …`, payload -/
example : (encodeSeg sampleShape ⟨8589934585, [(8589934589, 8589934597), (8589934600, 8589934610)]⟩).length = 55 ∧
    ((encodeSeg sampleShape ⟨8589934585, [(8589934589, 8589934597), (8589934600, 8589934610)]⟩).drop 20).take 8 =
      [1, 1, 5, 18, 255, 255, 255, 253] := by decide
example : ∀ x ∈ sampleWire, processWire (Tracker.init 4294967286 true) (encodeSeg x.2 x.1) =
    (feed (Tracker.init 4294967286 true) x.1, .done) := fun x hx => wire_step_is_feed _ _ _ (sampleShape_ok x hx)
/-- `window_invariant_partial`'s hypotheses on a non-conforming packet: a reversed block, a block below the ACK, a block
    beyond the window and a good one -/
example : edgesHigh (ackStep ⟨10, [⟨20, 30⟩], true⟩ 15).ack [40, 35, 2, 8, 3000000000, 3000000010, 50, 60] = true ∧
    sub32 15 10 ≠ 2147483648 := by decide
/-- the list model is a model of the icl contract, and the contract's uniqueness applies to it -/
example : (listModel.iter ((([IclOp.ins 5 9, .ins 10 12, .del 7 7, .ins 4294967295 4294967295, .ins 0 0]).foldl
    listModel.apply listModel.empty))) = [⟨0, 0⟩, ⟨5, 6⟩, ⟨8, 12⟩, ⟨4294967295, 4294967295⟩] := by decide

/-- **Interval-set parameter, explicit and complete.** Any implementation of the operations the tracker uses that
    satisfies `IclContract` (canonical iteration; insert = union, erase = difference, contains = subset, on points) is
    observationally the Lean list model. -/
theorem interval_set_parameter_is_determined {S : Type} (I : IclContract S) (ops : List IclOp) (hok : ∀ o ∈ ops, o.ok) :
    I.iter (ops.foldl I.apply I.empty) = ops.foldl applyList [] ∧
    ∀ lo hi, lo ≤ hi → I.contains (ops.foldl I.apply I.empty) lo hi = containsIvl (ops.foldl applyList []) lo hi :=
  icl_unique I ops hok

/-- **Canonical-form lemmas of the list model**: insertion keeps the list sorted, disjoint and non-touching and denotes
    the union; erasure keeps it so and denotes the difference; a canonical list is determined by its points. -/
theorem interval_list_canonical_forms (s : ISet) (hc : Canon s) (lo hi : Nat) (h : lo ≤ hi) :
    (Canon (insertIvl s lo hi) ∧ Canon (eraseIvl s lo hi) ∧
      (∀ p, ISet.mem (insertIvl s lo hi) p = true ↔ (ISet.mem s p = true ∨ (lo ≤ p ∧ p ≤ hi))) ∧
      (∀ p, ISet.mem (eraseIvl s lo hi) p = true ↔ (ISet.mem s p = true ∧ ¬ (lo ≤ p ∧ p ≤ hi)))) ∧
    (∀ s', Canon s' → (∀ p, ISet.mem s p = ISet.mem s' p) → s = s') :=
  ⟨list_model_canonical s hc lo hi h, fun s' hc' hp => canon_ext s s' hc hc' hp⟩

end Tins.Props.C19
