import TinsModel.Ack.Model
import TinsModel.Ack.Spec
namespace Tins.Props.C19
theorem placeholder : True := trivial
end Tins.Props.C19
