import TinsModel.Props.C08
import TinsModel.Reassembly.EndToEnd
/-
  Property C08, end to end: the reassembly theorems with their parser parameter instantiated by the wire families'
  model of `Internals::pdu_from_flag` (TinsModel/Reassembly/EndToEnd.lean; C01 `parse_any_safe`, the generated
  next-protocol table).  Vocabulary: `E2E.pduFromFlag proto b` = the chain of layers `pdu_from_flag` builds on `b`;
  `E2E.wireUpper` = that as the model's `UpperParse`; `E2E.layersOf inner` = the layers a payload of the model denotes;
  `E2E.OnWire d D ip0` = the datagram `d` of the specification lies on the wire as the bytes `D`, which the `IP`
  constructor parses into the header object `ip0` over `d.payload`; `E2E.absHdr` = the header fields the model keeps.
-/
namespace Tins.Props.C08
open Tins Tins.Reasm Tins.Wire Tins.Reasm.E2E

/-- `allocate_pdu`'s call of `pdu_from_flag` never faults and throws nothing but `malformed_packet`, for every protocol
    number and every concatenated payload: the exception of `process` is that one -/
theorem upper_parser_safe (proto : Nat) (b : Bytes) :
    (pduFromFlag proto b).Safe ∧ (wireUpper proto b = none ↔ pduFromFlag proto b = .throw .malformedPacket) :=
  ⟨pduFromFlag_safe proto b, wireUpper_none_iff proto b⟩

/-- the layers above IP of an unfragmented datagram are what `pdu_from_flag` builds on its payload -/
theorem ip_constructor_uses_pdu_from_flag (D P : Bytes) (ip0 : Ip.Ip4)
    (hparse : Ip.Ip4.parse D = .ok (ip0, ip0.dispatch P)) (hunf : ip0.isFragmented = false) (hlen : P.length < D.length)
    (layers : List AnyObj) :
    parseChain (D.length + 2) "IP" D = .ok (.ip (.ip ip0) :: layers) ↔ pduFromFlag ip0.protocol P = .ok layers := by
  rw [unfragmented_chain D P ip0 hparse hunf hlen]
  cases pduFromFlag ip0.protocol P <;> simp

/-- the events `Ev.frag d p ttl` of the histories are wire fragments: bytes `W` that the `IP` constructor parses into a
    fragmented header object with the fields of the specification's packet over the slice `[p.1, p.1 + p.2)` of the
    payload parse, as a whole chain, into `IP / RawPDU(slice)` — libtins does not look into a fragment's payload — and
    that chain is the packet `fragPkt d p ttl` the reassembly theorems speak about -/
theorem fragment_on_wire {d : DG} (w : d.wf) {p : Nat × Nat} (hp : p ∈ d.pieces) {ttl : Nat} {W : Bytes} {f : Ip.Ip4}
    (h : FragOnWire d p ttl W f) :
    parseChain (W.length + 2) "IP" W = .ok [.ip (.ip f), .raw (slice d.payload p.1 p.2)] ∧
    fragPkt d p ttl = { hasIP := true, hdr := absHdr f, inner := .raw (slice d.payload p.1 p.2) } :=
  fragOnWire_chain w hp h

/-- **reassembly_end_to_end.**  Let the datagram `d` lie on the wire as `D`, parsed by libtins into
    `IP(ip0) / layers` (`Wire.parseChain`, the proved model of the nested parsing constructors).  Cut its payload at any
    multiples of 8 (`d.lens`), let the fragments arrive in any order, with duplicates, interleaved with the fragments of
    any other datagrams of different keys, with unfragmented packets, `clear_streams` and `remove_stream` (`pre`,
    inside the property's hypothesis `Ev.ok F`).  Then for every arriving fragment of `d`, with the upper-layer parser
    being libtins' own (`wireUpper`):
    * the status is FRAGMENTED or REASSEMBLED — never an exception —, REASSEMBLED exactly for the arrival that completes
      the set of distinct pieces received since the last completion;
    * a FRAGMENTED packet is left untouched;
    * the REASSEMBLED packet has the header fields of the original datagram (with the time-to-live of the first
      fragment that arrived; offset 0, more-fragments clear, DF and options as in `D`) and, above IP, **the layers of
      the original datagram** — `layers`, the very objects parsing `D` directly yields. -/
theorem reassembly_end_to_end (F : List DG) (hF : Family F) (pre : List Ev) (hpre : ∀ e ∈ pre, e.ok F)
    (d : DG) (hd : d ∈ F) (p : Nat × Nat) (hp : p ∈ d.pieces) (ttl : Nat)
    (D : Bytes) (ip0 : Ip.Ip4) (hw : OnWire d D ip0) (layers : List AnyObj)
    (hD : parseChain (D.length + 2) "IP" D = .ok (.ip (.ip ip0) :: layers)) :
    ∃ out pkt', (modelObs wireUpper pre (.frag d p ttl)).res = some (out, pkt') ∧
      (out = .reassembled ∨ out = .fragmented) ∧
      (out = .reassembled ↔
        d.complete (((alLookup (finalWith (refStep wireUpper) [] pre) d).getD {}).add p (fragPkt d p ttl).hdr) = true) ∧
      (out = .fragmented → pkt' = fragPkt d p ttl) ∧
      (out = .reassembled →
        layersOf pkt'.inner = some layers ∧ pkt'.hasIP = true ∧
        ∃ q t, q ∈ d.pieces ∧ q.1 = 0 ∧ Ev.frag d q t ∈ pre ++ [.frag d p ttl] ∧
          pkt'.hdr = { absHdr ip0 with ttl := t }) := by
  have w := hF.wf d hd
  have hproto : ip0.protocol = d.hdr.proto := by
    have := congrArg Hdr.proto hw.fields; simpa [absHdr] using this
  have hpf : pduFromFlag d.hdr.proto d.payload = .ok layers := by
    rw [← hproto]
    exact (ip_constructor_uses_pdu_from_flag D d.payload ip0 hw.parses hw.unfrag hw.shorter layers).mp hD
  obtain ⟨inner, hinner, hlayers⟩ := wireUpper_ok hpf
  have hobs := modelObs_eq_refObs hF wireUpper pre hpre (.frag d p ttl) (show Ev.ok F (.frag d p ttl) from ⟨hd, hp⟩)
  rcases refFrag_cases wireUpper (finalWith (refStep wireUpper) [] pre) d p (fragPkt d p ttl) with
    ⟨hc, inner', hparse, h⟩ | ⟨hc, hnone, h⟩ | ⟨hc, h⟩
  · -- completed and parsed
    rw [hinner] at hparse
    simp only [Option.some.injEq] at hparse
    subst hparse
    refine ⟨.reassembled, { fragPkt d p ttl with
          hdr := resultHdr ((((alLookup (finalWith (refStep wireUpper) [] pre) d).getD {}).add p
            (fragPkt d p ttl).hdr).first.getD {}), inner := inner },
      by rw [hobs]; simp only [refObs, refStep, h], .inl rfl, by simp [hc], by simp, fun _ => ?_⟩
    have hres : (modelObs wireUpper pre (.frag d p ttl)).res = some (.reassembled,
        { fragPkt d p ttl with
          hdr := resultHdr ((((alLookup (finalWith (refStep wireUpper) [] pre) d).getD {}).add p
            (fragPkt d p ttl).hdr).first.getD {}), inner := inner }) := by
      rw [hobs]; simp only [refObs, refStep, h]
    obtain ⟨q, t, inner₂, hq, hq0, hmem, _, hpkt, _, hflags⟩ :=
      reassembled_is_original wireUpper F hF pre hpre d hd p hp ttl _ hres
    refine ⟨hlayers, rfl, q, t, hq, hq0, hmem, ?_⟩
    have hh : ({ fragPkt d p ttl with
          hdr := resultHdr ((((alLookup (finalWith (refStep wireUpper) [] pre) d).getD {}).add p
            (fragPkt d p ttl).hdr).first.getD {}), inner := inner } : Pkt).hdr =
        resultHdr (fragPkt d q t).hdr := by rw [hpkt]
    simp only at hh
    rw [hh]
    -- the first fragment's header with offset and more-fragments cleared is the datagram's header with that TTL
    have hlt := w.first_not_last hq hq0
    have hmf0 := w.mf0
    have hoff0 := w.off0
    have hf := hw.fields
    have e1 : resultHdr (fragPkt d q t).hdr = { d.hdr with ttl := t } := by
      have hdec : decide (0 + q.2 < d.payload.length) = true := decide_eq_true (by omega)
      simp only [resultHdr, fragPkt, mkFragPkt, hdec, if_true, hq0, Nat.zero_div]
      cases hdh : d.hdr with
      | mk tos id flags off ttl' proto src dst nopt =>
        rw [hdh] at hmf0 hoff0
        simp only at hmf0 hoff0
        simp only [Hdr.mk.injEq, true_and, and_true]
        exact ⟨by omega, hoff0.symm⟩
    rw [e1]
    cases hdh : d.hdr with
    | mk tos id flags off ttl' proto src dst nopt =>
      rw [hdh] at hf
      simp only [Hdr.mk.injEq] at hf
      obtain ⟨h1, h2, h3, h4, _, h6, h7, h8, h9⟩ := hf
      simp only [Hdr.mk.injEq]
      exact ⟨h1.symm, h2.symm, h3.symm, h4.symm, trivial, h6.symm, h7.symm, h8.symm, h9.symm⟩
  · rw [hinner] at hnone; simp at hnone
  · refine ⟨.fragmented, fragPkt d p ttl, by rw [hobs]; simp only [refObs, refStep, h], .inr rfl, by simp [hc],
      fun _ => rfl, by simp⟩

/-! ### non-vacuity: a UDP datagram of 24 payload bytes, cut into 8 + 16 -/

def exPayload : Bytes := [0, 53, 0, 53, 0, 24, 0, 0] ++ (List.range 16).map Nat.toUInt8
def exWire : Bytes := [0x45, 0, 0, 44, 0, 7, 0x40, 0, 64, 17, 0, 0, 10, 0, 0, 1, 10, 0, 0, 2] ++ exPayload
def exIp0 : Ip.Ip4 := Ip.Ip4.ofHeader (exWire.take 20)
def exD : DG :=
  { hdr := { tos := 0, id := 7, flags := 2, off := 0, ttl := 0, proto := 17, src := 0x0A000001, dst := 0x0A000002, nopt := 0 },
    payload := exPayload, lens := [8, 16] }

example : OnWire exD exWire exIp0 := ⟨rfl, rfl, by decide, by decide⟩
example : Family [exD] := ⟨by decide, by decide⟩
/-- the first fragment of `exD` on the wire (more-fragments set, total length 28, TTL 9) -/
def exFragWire : Bytes :=
  [0x45, 0, 0, 28, 0, 7, 0x60, 0, 9, 17, 0, 0, 10, 0, 0, 1, 10, 0, 0, 2, 0, 53, 0, 53, 0, 24, 0, 0]
def exFragIp : Ip.Ip4 := Ip.Ip4.ofHeader (exFragWire.take 20)
theorem exSlice : slice exD.payload 0 8 = [0, 53, 0, 53, 0, 24, 0, 0] := by decide
example : FragOnWire exD (0, 8) 9 exFragWire exFragIp := ⟨by rw [exSlice]; rfl, by decide⟩
/-- the original datagram parses into IP / UDP / RawPDU -/
example : ∃ layers, parseChain (exWire.length + 2) "IP" exWire = .ok (.ip (.ip exIp0) :: layers) ∧ layers.length = 2 :=
  ⟨_, rfl, rfl⟩
/-- last fragment first, then the first one (TTL 9): REASSEMBLED on the second arrival -/
example : ((modelObs wireUpper [.frag exD (8, 16) 5] (.frag exD (0, 8) 9)).res.map (·.1)) = some .reassembled := by
  rfl
example : ∀ e ∈ [Ev.frag exD (8, 16) 5], e.ok [exD] := by decide

end Tins.Props.C08
