import TinsModel.Props.C06
import TinsModel.Tcp.LemmasSession
/- Property C06, second part — the legacy `TCPStreamFollower` as a state machine (include/tins/tcp_stream.h
   `TCPStreamFollower::callback`, src/tcp_stream.cpp `TCPStream::update`): the session table keyed by the 4-tuple, stream
   creation, the handshake, both directions reassembled by `generic_process`, the data / end functors, erasure.

   Vocabulary: a *capture* is a `List LPkt`, oldest packet first; `LFollower.after {} ps` is the follower after it,
   `LFollower.runA {} ps` the capture annotated packet by packet with the identifier on offer and the functor calls;
   a *connection* is an unordered 4-tuple: `belongs tp p` says the packet's tuple is `tp` or `tp` reversed;
   `view m tp` is the session `callback` finds for packets of `tp`; `connStep` / `connRun` is the follower seen from one
   connection.  Statements only; lemmas in TinsModel/Tcp/LemmasFollower.lean and LemmasSession.lean. -/
namespace Tins.Props.C06
open Tins Tins.DT

/-- **The key of the session table is the 4-tuple.**  The `std::map` equivalence induced by `StreamInfo::operator<`
    (neither is less than the other) holds exactly for equal client address, server address, client port and server port. -/
theorem session_key_is_the_four_tuple (a b : SInfo) : a.equiv b = true ↔ a = b := SInfo.equiv_iff_eq a b

/-- **Every reachable session table** (any capture whatsoever, from a fresh follower): keys are unique; a stream is stored
    under the REVERSE of its own `stream_info()` (the tuple of its SYN) — `callback` swaps `info` before it inserts;
    never both a tuple and its reverse are keys, so the two lookups of `callback` (tuple, then reversed tuple) designate at
    most one session whichever direction a packet travels; a finished stream never stays in the table. -/
theorem follower_invariant (ps : List LPkt) : SInv ((LFollower.after {} ps).sessions) := after_SInv SInv_nil ps

/-- **Connections do not interfere.**  For every capture and every connection, the connection's session and the functor
    calls its packets caused are those of the single-connection machine run over the connection's own packets — whatever
    the packets of the other connections are and however they are interleaved.  The only thing the rest of the capture
    decides is the identifier a newly created stream is given. -/
theorem follower_projects (ps : List LPkt) (tp : SInfo) :
    let own := ((LFollower.runA {} ps).filter (fun x => belongs tp x.1))
    view (LFollower.after {} ps).sessions tp = (connRun none (own.map (fun x => (x.1, x.2.1)))).1 ∧
    own.map (·.2.2) = (connRun none (own.map (fun x => (x.1, x.2.1)))).2 :=
  follower_projects_aux (f := {}) SInv_nil ps tp

/-- the same from any reachable follower state -/
theorem follower_projects_from (ps0 ps : List LPkt) (tp : SInfo) :
    let f := LFollower.after {} ps0
    let own := ((f.runA ps).filter (fun x => belongs tp x.1))
    view (f.after ps).sessions tp = (connRun (view f.sessions tp) (own.map (fun x => (x.1, x.2.1)))).1 ∧
    own.map (·.2.2) = (connRun (view f.sessions tp) (own.map (fun x => (x.1, x.2.1)))).2 :=
  follower_projects_aux (after_SInv SInv_nil ps0) ps tp

/-- **Stream creation**: with no session for the 4-tuple in either direction, a segment creates one iff it carries SYN and
    not ACK; no functor is called; the stream's `stream_info()` is the tuple of that segment (its source is the client),
    its identifier the one on offer, and it waits for the SYN+ACK. -/
theorem session_created_iff (p : LPkt) (fresh : Nat) :
    connStep none p fresh = (if p.syn && !p.ackf then some (TStream.ofSyn p fresh) else none, []) ∧
    (TStream.ofSyn p fresh).info = p.info ∧ (TStream.ofSyn p fresh).id = fresh ∧
    (TStream.ofSyn p fresh).synAck = false ∧ (TStream.ofSyn p fresh).fin = false :=
  ⟨closed_step p fresh, rfl, rfl, rfl, rfl⟩

/-- **Handshake pending**: until a segment with SYN and ACK arrives every segment of the connection is ignored — payload,
    FIN and RST included (a connection refused with RST keeps its session for ever); the SYN+ACK (from either side) sets the
    client's expected sequence number to its ACK number and the server's to its sequence number + 1. -/
theorem handshake (c : Conn) (p0 : LPkt) (id : Nat) (p : LPkt) (fresh : Nat) (hinfo : p0.info = c.tp) :
    ((p.syn && p.ackf) = false → connStep (some (TStream.ofSyn p0 id)) p fresh = (some (TStream.ofSyn p0 id), [])) ∧
    ((p.syn && p.ackf) = true → p.ack = c.cisn → wrap32 (p.seq + 1) = c.sisn →
      connStep (some (TStream.ofSyn p0 id)) p fresh = (some (estabStream c.tp id c.cisn c.sisn [] [] false), [])) :=
  ⟨pending_step _ rfl rfl p fresh, synack_step c p0 id p fresh hinfo⟩

/-- **Established, one packet.**  Let the two directions have seen the arrival histories `hC`, `hS` of the streams `sc`,
    `ss` (any order, duplication, overlap, sequence wrap — `HistOK`, C06's hypothesis) and let `p` be a packet of the
    connection whose payload (if any) is a valid next arrival of its direction (direction decided by source address and
    port against the client endpoint).  Then
    * the direction's reassembly moves as `legacy_refines_spec`'s model over the extended history, the other direction
      is untouched;
    * the data functor is called iff one of the delivered prefixes grew (KF-C06-2), and is handed the stream after the packet;
    * the end functor is called iff the segment carries FIN or RST, after the data functor, and the session is erased then
      and only then. -/
theorem session_established_step {c : Conn} (hc : c.OK) (id : Nat) {hC hS : List SegD} (okC : HistOK c.sc hC)
    (okS : HistOK c.ss hS) {p : LPkt} (hp : c.pktOK hC hS p) (fresh : Nat) :
    connStep (some (estabStream c.tp id c.cisn c.sisn hC hS false)) p fresh =
      (if p.fin || p.rst then none else some (estabStream c.tp id c.cisn c.sisn (c.hcNext hC p) (c.hsNext hS p) false),
       c.expectedEv id hC hS p) ∧
    HistOK c.sc (c.hcNext hC p) ∧ HistOK c.ss (c.hsNext hS p) :=
  estab_step hc id okC okS hp fresh

/-- what the functors read: at every moment both payloads of the stream are the prefixes of the two byte streams up to
    the frontiers of what has arrived (composition with `legacy_delivers_prefix`) -/
theorem session_payloads_are_prefixes {c : Conn} (hc : c.OK) (id : Nat) {hC hS : List SegD} (okC : HistOK c.sc hC)
    (okS : HistOK c.ss hS) (fin : Bool) :
    (estabStream c.tp id c.cisn c.sisn hC hS fin).c.payload = c.sc.take (frontier (hC.map SegD.seg) c.sc.length) ∧
    (estabStream c.tp id c.cisn c.sisn hC hS fin).s.payload = c.ss.take (frontier (hS.map SegD.seg) c.ss.length) ∧
    (estabStream c.tp id c.cisn c.sisn hC hS fin).id = id ∧ (estabStream c.tp id c.cisn c.sisn hC hS fin).info = c.tp :=
  estabStream_payloads hc id okC okS fin

/-- and each direction of it satisfies the whole of C06's spec (`legacy_refines_spec`): expected sequence number, every
    buffered fragment strictly above the frontier and equal to its slice of the stream -/
theorem session_directions_refine_spec {c : Conn} (hc : c.OK) (id : Nat) {hC hS : List SegD} (okC : HistOK c.sc hC)
    (okS : HistOK c.ss hS) (fin : Bool) :
    let t := estabStream c.tp id c.cisn c.sisn hC hS fin
    specOK c.sc c.cisn (hC.map SegD.seg) ⟨t.c.seq, sumSizes t.c.frags, t.c.payload, t.c.frags⟩ = true ∧
    specOK c.ss c.sisn (hS.map SegD.seg) ⟨t.s.seq, sumSizes t.s.frags, t.s.payload, t.s.frags⟩ = true :=
  ⟨legacy_refines_spec c.sc c.cisn hC hc.lc hc.ic okC, legacy_refines_spec c.ss c.sisn hS hc.ls hc.is okS⟩

/-- the data functor fires exactly when a delivered prefix grew; the end functor exactly on FIN / RST -/
theorem functors_fire_iff (c : Conn) (id : Nat) (hC hS : List SegD) (p : LPkt) :
    ((∃ t, LEv.data t ∈ c.expectedEv id hC hS p) ↔
      (frontier (hC.map SegD.seg) c.sc.length < frontier ((c.hcNext hC p).map SegD.seg) c.sc.length ∨
       frontier (hS.map SegD.seg) c.ss.length < frontier ((c.hsNext hS p).map SegD.seg) c.ss.length)) ∧
    ((∃ t, LEv.fin t ∈ c.expectedEv id hC hS p) ↔ (p.fin = true ∨ p.rst = true)) ∧
    (c.expectedEv id hC hS p).length ≤ 2 := by
  unfold Conn.expectedEv grew
  simp only
  refine ⟨?_, ?_, ?_⟩
  · by_cases h1 : frontier (hC.map SegD.seg) c.sc.length < frontier ((c.hcNext hC p).map SegD.seg) c.sc.length <;>
    by_cases h2 : frontier (hS.map SegD.seg) c.ss.length < frontier ((c.hsNext hS p).map SegD.seg) c.ss.length <;>
    cases hf : (p.fin || p.rst) <;> simp [h1, h2]
  · cases hg : (decide (frontier (hC.map SegD.seg) c.sc.length < frontier ((c.hcNext hC p).map SegD.seg) c.sc.length) ||
        decide (frontier (hS.map SegD.seg) c.ss.length < frontier ((c.hsNext hS p).map SegD.seg) c.ss.length)) <;>
    cases h1 : p.fin <;> cases h2 : p.rst <;> simp
  · split <;> split <;> simp

/-- **Established, any number of packets**: the state after the whole data phase and the functor calls packet by packet
    (`Conn.expectedData`); applied to a prefix of the data phase this is the statement about every moment. -/
theorem session_established_run {c : Conn} (hc : c.OK) (id : Nat) (xs : List (LPkt × Nat)) {hC hS : List SegD}
    (okC : HistOK c.sc hC) (okS : HistOK c.ss hS) (hd : c.dataOK hC hS (xs.map (·.1))) :
    connRun (some (estabStream c.tp id c.cisn c.sisn hC hS false)) xs =
      (some (estabStream c.tp id c.cisn c.sisn (c.hcAfter hC (xs.map (·.1))) (c.hsAfter hS (xs.map (·.1))) false),
       c.expectedData id hC hS (xs.map (·.1))) ∧
    HistOK c.sc (c.hcAfter hC (xs.map (·.1))) ∧ HistOK c.ss (c.hsAfter hS (xs.map (·.1))) :=
  estab_run hc id xs okC okS hd

/-- **After the end** (and before any SYN): no session, no functor call, however many packets of the connection follow —
    the end functor is not called a second time. -/
theorem session_closed_stays (xs : List (LPkt × Nat)) (h : ∀ x ∈ xs, (x.1.syn && !x.1.ackf) = false) :
    connRun none xs = (none, xs.map (fun _ => [])) := closed_run xs h

/-- **The end functor is called exactly when the session is erased**, in every reachable state, for every packet: a call
    happens iff the packet's connection had a session before the packet and has none after it.  Hence once per stream. -/
theorem end_functor_iff_erased (ps : List LPkt) (p : LPkt) :
    let f := LFollower.after {} ps
    (∃ t, LEv.fin t ∈ (f.callback p).2) ↔
      ((view f.sessions p.info).isSome = true ∧ view (f.callback p).1.sessions p.info = none) := by
  intro f
  have hi : SInv f.sessions := after_SInv SInv_nil ps
  have hb : belongs p.info p = true := by unfold belongs; simp
  obtain ⟨c1, c2⟩ := callback_same hi hb
  rw [c1, c2]
  cases hv : view f.sessions p.info with
  | none =>
    rw [closed_step]
    simp
  | some t =>
    unfold connStep
    simp only
    by_cases hfin : ((t.update p).1.fin) = true
    · simp only [hfin, if_true, Option.isSome_some, true_and]
      exact ⟨fun _ => trivial, fun _ => ⟨(t.update p).1, by simp⟩⟩
    · have hfin' : (t.update p).1.fin = false := by simpa using hfin
      simp only [hfin', Bool.false_eq_true, if_false, Option.isSome_some, true_and]
      constructor
      · rintro ⟨t', ht'⟩
        split at ht' <;> simp at ht'
      · intro h; cases h

/-- **Stream identifiers**: a new stream gets the identifier on offer (`session_created_iff`), `update` never changes it,
    and after any capture of fewer than 2^64 packets the live streams have pairwise distinct identifiers, all of them
    handed out already (`last_identifier_` is a `uint64_t` that wraps: beyond that the statement is false in principle). -/
theorem stream_ids_distinct (ps : List LPkt) (h : ps.length < 18446744073709551616) :
    let f := LFollower.after {} ps
    (f.sessions.map (·.2.id)).Nodup ∧ (∀ e ∈ f.sessions, e.2.id < f.lastId) ∧ f.lastId ≤ ps.length ∧
    ∀ (t : TStream) (p : LPkt), (t.update p).1.id = t.id ∧ (t.update p).1.info = t.info := by
  have := after_IdInv (f := {}) (n := 0) SInv_nil ⟨Nat.le_refl _, by simp [LFollower.sessions], by simp [LFollower.sessions]⟩ ps
    (by omega)
  rw [Nat.zero_add] at this
  exact ⟨this.nodup, this.below, this.bound, fun t p => ⟨(update_info t p).2, (update_info t p).1⟩⟩

/-- **A whole connection inside any capture.**  Let `ps` be any capture (any number of other connections, any
    interleaving, any noise) in which the packets of the connection `c` — those whose 4-tuple is `c.tp` or its reverse —
    are, in their own order: a SYN without ACK from the client; anything but a SYN+ACK; the SYN+ACK carrying both initial
    sequence numbers; data packets of both directions, each payload a valid next arrival of its direction's byte stream
    (any order, duplication, overlap, stale starts, sequence numbers wrapping past 2^32); one packet with FIN or RST (with or
    without data); then anything but a new SYN.  Then the functor calls caused by the connection's packets are, packet by
    packet: none during the handshake; in the data phase the data functor exactly when a delivered prefix grew; for the
    final packet the data functor under the same condition followed by the end functor; none afterwards — every call
    handed the stream with the identifier on offer at the SYN, `stream_info()` = the tuple of the SYN and both payloads equal
    to the stream prefixes up to the frontiers (`session_payloads_are_prefixes`); and the connection has no session at the
    end. -/
theorem follower_interleaving (ps : List LPkt) {c : Conn} (hc : c.OK)
    (syn : LPkt × Nat) (pre : List (LPkt × Nat)) (synack : LPkt × Nat) (dat : List (LPkt × Nat)) (last : LPkt × Nat)
    (post : List (LPkt × Nat))
    (hown : ((LFollower.runA {} ps).filter (fun x => belongs c.tp x.1)).map (fun x => (x.1, x.2.1))
              = syn :: (pre ++ synack :: (dat ++ last :: post)))
    (h1 : syn.1.info = c.tp) (h2 : (syn.1.syn && !syn.1.ackf) = true)
    (hpre : ∀ x ∈ pre, (x.1.syn && x.1.ackf) = false)
    (h4 : (synack.1.syn && synack.1.ackf) = true) (h5 : synack.1.ack = c.cisn) (h6 : wrap32 (synack.1.seq + 1) = c.sisn)
    (hdat : c.dataOK [] [] (dat.map (·.1)))
    (hlast : c.pktOK (c.hcAfter [] (dat.map (·.1))) (c.hsAfter [] (dat.map (·.1))) last.1)
    (hfin : (last.1.fin || last.1.rst) = true)
    (hpost : ∀ x ∈ post, (x.1.syn && !x.1.ackf) = false) :
    ((LFollower.runA {} ps).filter (fun x => belongs c.tp x.1)).map (·.2.2)
      = [] :: (pre.map (fun _ => []) ++ [] :: (c.expectedData syn.2 [] [] (dat.map (·.1)) ++
          c.expectedEv syn.2 (c.hcAfter [] (dat.map (·.1))) (c.hsAfter [] (dat.map (·.1))) last.1 :: post.map (fun _ => []))) ∧
    view (LFollower.after {} ps).sessions c.tp = none := by
  obtain ⟨p1, p2⟩ := follower_projects ps c.tp
  rw [hown] at p1 p2
  have hs := session_script hc syn pre synack dat last post h1 h2 hpre h4 h5 h6 hdat hlast hfin hpost
  rw [hs] at p1 p2
  exact ⟨p2, p1⟩

/-! ### non-vacuity: two connections on the same ports with the hosts swapped, interleaved through one follower; the client
    stream of the first and the server stream of the second cross 2^32; reordering + overlap in both; one ends with a FIN that
    carries data, the other with a bare RST; a late packet after the end -/

def cA : Conn := { tp := ⟨1, 2, 1000, 80⟩, cisn := 4294967295, sisn := 500, sc := [1, 2, 3], ss := [9] }
def cB : Conn := { tp := ⟨2, 1, 1000, 80⟩, cisn := 10, sisn := 4294967294, sc := [5], ss := [6, 7, 8, 9] }

def a1 : LPkt := ⟨1, 2, 1000, 80, 2, 4294967294, 0, none⟩                 -- SYN
def a2 : LPkt := ⟨2, 1, 80, 1000, 18, 499, 4294967295, none⟩              -- SYN+ACK
def a3 : LPkt := ⟨1, 2, 1000, 80, 16, 0, 500, some [2, 3]⟩                -- offset 1 (sequence number wrapped to 0): buffered
def a4 : LPkt := ⟨1, 2, 1000, 80, 16, 4294967295, 500, some [1, 2]⟩       -- offset 0, overlaps: [1,2,3] delivered
def a5 : LPkt := ⟨2, 1, 80, 1000, 17, 500, 0, some [9]⟩                   -- server data + FIN: data functor, end functor
def a6 : LPkt := ⟨1, 2, 1000, 80, 16, 2, 0, some [3]⟩                     -- after the end: nothing
def b1 : LPkt := ⟨2, 1, 1000, 80, 2, 9, 0, none⟩
def b2 : LPkt := ⟨1, 2, 80, 1000, 18, 4294967293, 10, none⟩
def b3 : LPkt := ⟨1, 2, 80, 1000, 16, 0, 0, some [8, 9]⟩                  -- server offset 2 = sequence number 2^32 -> 0
def b4 : LPkt := ⟨1, 2, 80, 1000, 16, 4294967294, 0, some [6, 7]⟩
def b5 : LPkt := ⟨2, 1, 1000, 80, 4, 10, 0, none⟩                         -- RST from the client
def capture : List LPkt := [a1, b1, a2, a3, b2, b3, a4, b4, a5, b5, a6]

example : cA.OK := ⟨by decide, by decide, by decide, by decide, by decide⟩
example : cB.OK := ⟨by decide, by decide, by decide, by decide, by decide⟩
-- the hypotheses of `follower_interleaving` for the first connection (identifier 0) ...
example : ((LFollower.runA {} capture).filter (fun x => belongs cA.tp x.1)).map (fun x => (x.1, x.2.1))
    = (a1, 0) :: ([] ++ (a2, 2) :: ([(a3, 2), (a4, 2)] ++ (a5, 2) :: [(a6, 2)])) := by decide
example : cA.dataOK [] [] [a3, a4] ∧ cA.pktOK (cA.hcAfter [] [a3, a4]) (cA.hsAfter [] [a3, a4]) a5 := by decide
-- ... and for the second (identifier 1; its packets travel between the same two hosts and ports)
example : ((LFollower.runA {} capture).filter (fun x => belongs cB.tp x.1)).map (fun x => (x.1, x.2.1))
    = (b1, 1) :: ([] ++ (b2, 2) :: ([(b3, 2), (b4, 2)] ++ (b5, 2) :: [])) := by decide
example : cB.dataOK [] [] [b3, b4] ∧ cB.pktOK (cB.hcAfter [] [b3, b4]) (cB.hsAfter [] [b3, b4]) b5 := by decide

/-- what a functor call shows the application: data / end, identifier, both payloads -/
def LEv.shown : LEv → Bool × Nat × Bytes × Bytes
  | .data t => (false, t.id, t.c.payload, t.s.payload)
  | .fin t => (true, t.id, t.c.payload, t.s.payload)

-- the functor calls of the whole capture, packet by packet
example : (LFollower.run {} capture).2.map (·.map LEv.shown) =
    [[], [], [], [], [], [], [(false, 0, [1, 2, 3], [])], [(false, 1, [], [6, 7, 8, 9])],
     [(false, 0, [1, 2, 3], [9]), (true, 0, [1, 2, 3], [9])], [(true, 1, [], [6, 7, 8, 9])], []] := by decide
example : (LFollower.after {} capture).sessions = [] := by decide
-- the table in between: both streams stored under the reverse of their own tuple
example : (LFollower.after {} [a1, b1]).sessions.map (fun e => (e.1, e.2.info, e.2.id))
    = [(⟨2, 1, 80, 1000⟩, ⟨1, 2, 1000, 80⟩, 0), (⟨1, 2, 80, 1000⟩, ⟨2, 1, 1000, 80⟩, 1)] := by decide
-- a connection refused with RST before the SYN+ACK keeps its session (`handshake`)
example : ((LFollower.after {} [a1, ⟨2, 1, 80, 1000, 20, 0, 4294967295, none⟩]).sessions.map (·.2.id), 
           (LFollower.run {} [a1, ⟨2, 1, 80, 1000, 20, 0, 4294967295, none⟩]).2) = ([0], [[], []]) := by decide

end Tins.Props.C06
