import TinsModel.Ownership.MembersKey
import TinsModel.Gen.Members
import TinsModel.Ownership.Model
import TinsModel.Ownership.OptStore
/-
  C12 — the assumption under the ownership models, tied to the source.

  Ownership/Model.lean abstracts the member-wise copy / move of every class to one value per layer and knows exactly these
  pointers: `PDU::inner_pdu_` (owning), `PDU::parent_pdu_` (back link), `Packet::pdu_` (owning); Ownership/OptStore.lean adds
  the heap buffer of `PDUOption`.  `Gen/Members.lean` (translator/gen_members.py, clang AST of the current tree) lists every
  non-static data member of every class of the scope with what a member-wise copy of it does, the status of the special
  member functions, and the clone() override.  The theorems below are `decide`d over that finite table — the table IS the
  quantifier "every class / every member of the current source" — and fail when the source leaves the region the models cover:
  a new pointer member, a user-provided copy that forgets a member, a class without its own clone().
  checks/C12.py then searches with the `copyall` operations of harness/c12_ownership.cpp for a concrete failing input.
-/
namespace Tins.Props.Members.C12
open Tins.Own.Members Tins.Gen.Members

/-! ### the allow-list: every member that is not a deep value, with the model function that mirrors it -/

def optionPayload (k : Key) : Allowed :=
  ⟨k, .ownedPtr, "Tins.OptStore.Obj.payload_ (Payload.small / Payload.heap): copyCtor / moveCtor / copyAssign / moveAssign / destroy; " ++
                 "Props.C12.option_storage_inv, option_value_refines"⟩

def allow : List Allowed := [
  ⟨mk% "PDU::inner_pdu_", .ownedPtr, "Tins.Own.Node.inner: cloneNode (copy), moveCtor / moveAssignBase (steal), deleteNode (destructor), innerPduPtr; Props.C12.forest_inv"⟩,
  ⟨mk% "PDU::parent_pdu_", .nonOwningPtr, "Tins.Own.Node.parent: set by innerPduPtr / setParent only, never followed by delete; Props.C12.exactly_one_owner (parent link = owner)"⟩,
  ⟨mk% "Packet::pdu_", .ownedPtr, "Tins.Own.Handle.pkt: Op.pknew / pkcopy / pkassign (cloneOpt), pkmove / pkmassign (transfer), pkrelease, destroySlots"⟩,
  optionPayload (mk% "PDUOption<IP::option_identifier,IP>::payload_"),
  optionPayload (mk% "PDUOption<PPPoE::TagTypes,PPPoE>::payload_"),
  optionPayload (mk% "PDUOption<unsignedchar,DHCP>::payload_"),
  optionPayload (mk% "PDUOption<unsignedchar,Dot11>::payload_"),
  optionPayload (mk% "PDUOption<unsignedchar,ICMPv6>::payload_"),
  optionPayload (mk% "PDUOption<unsignedchar,IPv6>::payload_"),
  optionPayload (mk% "PDUOption<unsignedchar,TCP>::payload_"),
  optionPayload (mk% "PDUOption<unsignedshort,DHCPv6>::payload_"),
  ⟨mk% "PacketWrapper<PDU*,Timestamp>::pdu_", .nonOwningPtr, "PtrPacket: not copyable (private, undefined copy operations); Packet(const PtrPacket&) adopts the pointer = Tins.Own.Op.pkown (harness op pkptr)"⟩,
  ⟨mk% "PacketWrapper<PDU&,constTimestamp&>::pdu_", .reference, "RefPacket: not copyable; Packet(const RefPacket&) clones the referenced PDU = Tins.Own.Op.pknew"⟩,
  ⟨mk% "PacketWrapper<PDU&,constTimestamp&>::ts_", .reference, "RefPacket: timestamps are outside the forest"⟩,
  ⟨mk% "TCPStream::client_frags_", .ptrContainer, "owned RawPDU* fragments: the user-provided copy operations clone each (clone_fragments), the destructor deletes each (free_fragments); only the primitives clone / delete are modelled (Tins.Own.cloneNode / deleteNode); state machine = C06"⟩,
  ⟨mk% "TCPStream::server_frags_", .ptrContainer, "as client_frags_"⟩,
  ⟨mk% "TCPIP::Flow::on_data_callback_", .other, "std::function: copies the callable; no PDU reachable; outside the forest (C07)"⟩,
  ⟨mk% "TCPIP::Flow::on_out_of_order_callback_", .other, "std::function (C07)"⟩,
  ⟨mk% "TCPIP::Stream::on_stream_closed_", .other, "std::function (C07)"⟩,
  ⟨mk% "TCPIP::Stream::on_client_data_callback_", .other, "std::function (C07)"⟩,
  ⟨mk% "TCPIP::Stream::on_server_data_callback_", .other, "std::function (C07)"⟩,
  ⟨mk% "TCPIP::Stream::on_client_out_of_order_callback_", .other, "std::function (C07)"⟩,
  ⟨mk% "TCPIP::Stream::on_server_out_of_order_callback_", .other, "std::function (C07)"⟩,
  ⟨mk% "TCPIP::Stream::user_data_", .other, "boost::any: copies the held value; user data, outside the forest (C07)"⟩,
  ⟨mk% "TCPIP::StreamFollower::on_new_connection_", .other, "std::function (C07)"⟩,
  ⟨mk% "TCPIP::StreamFollower::on_stream_termination_", .other, "std::function (C07)"⟩
]

/-- members a user-provided copy / move may leave unmentioned, with the reason — none in the current tree (`PDU::operator=`
    reaches `parent_pdu_` through `inner_pdu(PDU*)` → `parent_pdu(PDU*)`; `TCPStream(const TCPStream&)` is `*this = rhs`) -/
def exempt : List Exempt := []

/-! ### theorems over the generated table -/

/-- the translator classified every type, found every user-declared special member's definition and every class of the scope -/
theorem members_scan_complete : unparsed = [] ∧ (classes.filter hasUnparsedSpecial).map (·.name) = [] := by decide +kernel

/-- **only_known_pointer_members** — in the current source every non-static data member of every class of the scope is a
    deep value (arithmetic / enum / POD / address, a container of those, or an object of a class that is itself a row), except
    the members named on `allow`, each with the kind recorded there and the model function that mirrors it.  A raw pointer, a
    smart pointer, a reference, a container of pointers or a type-erased holder added to any class falls outside and fails. -/
theorem only_known_pointer_members : badMembers classes allow = [] := by decide +kernel

/-- the allow-list names only members that exist (an entry whose member is gone is reported, not silently kept) -/
theorem allow_list_not_stale : (staleAllowed classes allow).map (·.member.s) = [] := by decide +kernel

/-- **every_concrete_class_overrides_clone** — every class derived from PDU of which objects can exist (not abstract, a public
    constructor) declares its own `clone()` and its body is `return new X(*this)` with X the class itself. -/
theorem every_concrete_class_overrides_clone : (missingClone classes).map (·.name) = [] := by decide +kernel

/-- **no_class_slices** — resolving `clone()` through the hierarchy as the virtual call does (own override, else the first
    base that has one): for every concrete PDU class the final overrider constructs that very class, so a clone / Packet copy /
    `operator/` of an object never yields an object of a base class. -/
theorem no_class_slices : (slicing classes).map (·.name) = [] := by decide +kernel

/-- **rule_of_three_consistent** — (a) a class that owns raw storage (an `ownedPtr` member or a container of raw pointers), or
    provides a copy constructor / copy assignment / non-empty destructor, user-declares all three, and none of its move
    operations is compiler-generated; (b) every user-provided copy / move constructor / assignment mentions every non-static
    data member of its class and every base (directly, through a constructor initialiser, or through member functions of the
    class it calls), except the pairs on `exempt`. -/
theorem rule_of_three_consistent :
    (ruleOfThreeBroken classes).map (·.name) = [] ∧ forgotten classes exempt = [] := by decide +kernel

/-! ### the checks are not vacuous: each rejects a table changed the way a source change would change it -/

def withMember (t : Table) (cls : Nat) (m : Member) : Table :=
  t.map (fun r => if r.key == cls then { r with members := r.members ++ [m] } else r)

def withClone (t : Table) (cls : Nat) (c : Clone) : Table :=
  t.map (fun r => if r.key == cls then { r with clone := c } else r)

/-- a `uint8_t* cache_` added to IP (defaulted copy) is rejected; so is turning `parent_pdu_` into an owning pointer -/
example : badMembers (withMember classes (mk% "IP").n ⟨"cache_", (mk% "IP::cache_").n, "uint8_t *", .nonOwningPtr, []⟩) allow ≠ [] := by
  decide +kernel
example : memberOK classes allow ⟨"parent_pdu_", (mk% "PDU::parent_pdu_").n, "Tins::PDU *", .ownedPtr, []⟩ = false := by decide +kernel
/-- an owning pointer in a class with compiler-generated copies breaks the rule of three -/
example : ruleOfThreeBroken (withMember classes (mk% "IP").n ⟨"cache_", (mk% "IP::cache_").n, "uint8_t *", .ownedPtr, []⟩) ≠ [] := by
  decide +kernel
/-- Dot11Ack without its own clone() inherits Dot11Control's: missing override, and the inherited one slices (KF-C04-wifi-1) -/
example : (missingClone (withClone classes (mk% "Dot11Ack").n .absent)).map (·.name) = ["Dot11Ack"] ∧
    (slicing (withClone classes (mk% "Dot11Ack").n .absent)).map (·.name) = ["Dot11Ack"] := by decide +kernel
/-- a copy constructor of Packet that forgets `ts_` is reported -/
example : forgotten (classes.map (fun r => if r.key == (mk% "Packet").n
    then { r with copyCtor := .userProvided [(mk% "Packet::pdu_").n] [] false } else r)) exempt = [("Packet", "copyCtor", "ts_")] := by
  decide +kernel
/-- the table is the real one: it has the rows the models are about -/
example : (findRow classes (mk% "PDU").n).isSome ∧ (findRow classes (mk% "Packet").n).isSome ∧
    30 < (classes.filter (fun r => r.isPdu && r.concrete)).length := by decide +kernel

/- Named by the check when a theorem above fails: elaborating this file then prints the offending rows. -/
def report : List String :=
  (unparsed.map (fun u => "members_scan_complete | unparsed | " ++ u)) ++
  ((classes.filter hasUnparsedSpecial).map (fun r => "members_scan_complete | " ++ r.name ++ " | special member not found")) ++
  ((badMembers classes allow).map (fun cm => "only_known_pointer_members | " ++ cm.1 ++ " | " ++ cm.2.name ++ " | " ++ reprStr cm.2.kind ++ " | " ++ cm.2.type)) ++
  ((staleAllowed classes allow).map (fun a => "allow_list_not_stale | " ++ a.member.s)) ++
  ((missingClone classes).map (fun r => "every_concrete_class_overrides_clone | " ++ r.name ++ " | clone")) ++
  ((slicing classes).map (fun r => "no_class_slices | " ++ r.name ++ " | clone")) ++
  ((ruleOfThreeBroken classes).map (fun r => "rule_of_three_consistent | " ++ r.name ++ " | " ++
      String.intercalate "," ((r.members.filter (fun m => m.kind == .ownedPtr || m.kind == .ptrContainer)).map (·.name)))) ++
  ((forgotten classes exempt).map (fun f => "rule_of_three_consistent | " ++ f.1 ++ " | " ++ f.2.2 ++ " | not mentioned by " ++ f.2.1))

#eval show IO Unit from
  if report.isEmpty then pure ()
  else throw (IO.userError ("MEMBER TABLE (lean/TinsModel/Gen/Members.lean) OUTSIDE THE MODELLED REGION:\n" ++
    String.intercalate "\n" (report.map (fun l => "MEMBERS-FAIL | " ++ l ++ " ;;END"))))

end Tins.Props.Members.C12
