import TinsModel.RadioTap.LemmasSafeWrite
/- Helper lemmas for C11, safety part 3: the observers of a `RadioTap` object (getters, `present()`,
   `trailer_size()`) and the parsing constructor never fault — on every options payload. -/
namespace Tins.RT

/-- `do_find_option` on any payload: the option's bytes (exactly the table size), `field_not_present`, or
    `malformed_packet` (broken chain / truncated field) -/
theorem doFindOption_spec (M : Meta) (buf : Bytes) (bit : Nat) :
    (∃ d, doFindOption M buf bit = .ok d ∧ d.length = M.size bit) ∨ doFindOption M buf bit = .throw .fieldNotPresent ∨
      doFindOption M buf bit = .throw .malformedPacket := by
  unfold doFindOption
  rcases mkC_spec M buf with ⟨hnil, c, _, hmk, _, hbm, _⟩ | ⟨_, hmk⟩ | ⟨_, c, k, _, hmk, hc, hg, _, _⟩
  · right; left
    simp only [hmk]
    have hnf : hasFields M c.p = false := hasFields_null hbm
    have : ∀ fuel, (skipToField M fuel c.p bit).2 = false := by
      intro fuel; cases fuel <;> simp [skipToField, hnf]
    simp [this]
  · right; right; simp [hmk]
  · simp only [hmk]
    obtain ⟨c', _, hg', hx, hall⟩ := skipToFieldC_spec hc bit (loopFuel M buf) c hg (loopFuel_gt_mu M buf k c.p)
    rw [hall (loopFuel M buf) (loopFuel_gt_mu M buf k c.p)]
    by_cases hh : hasFields M c'.p = true
    · simp only [hh, Bool.not_true, Bool.false_eq_true, if_false]
      obtain ⟨hlt, _⟩ := hasFields_lt hg' hh
      obtain ⟨heq, hr⟩ := currentOptionC_spec c'.p hlt
      rw [← heq]
      rcases hr with ⟨d, hd, hl, _⟩ | hd
      · left; exact ⟨d, hd, by rw [hl, hx hh]⟩
      · right; right; exact hd
    · right; left
      simp [hh]

/-- a typed getter never reads outside the option it was handed, provided it consumes at most the table size of its
    field (`accessors_paired` establishes this for every getter of `RadioTap`) -/
theorem getField_safe (M : Meta) (buf : Bytes) (bit width : Nat) (integral : Bool) (hw : width ≤ M.size bit) :
    (∃ d, getField M buf bit width integral = .ok d) ∨ (∃ e, getField M buf bit width integral = .throw e) := by
  unfold getField
  rcases doFindOption_spec M buf bit with ⟨d, hd, hl⟩ | hd | hd
  · rw [hd]
    simp only
    split
    · exact Or.inr ⟨_, rfl⟩
    · have : ¬ (d.length < width) := by omega
      simp only [this, if_false]
      exact Or.inl ⟨_, rfl⟩
  · rw [hd]; exact Or.inr ⟨_, rfl⟩
  · rw [hd]; exact Or.inr ⟨_, rfl⟩

/-- `RadioTap::RadioTap(buffer, total_sz)` on any bytes: a header state whose payload is the `it_len - 4` bytes after
    the fixed header (at least one present word), or `malformed_packet` -/
theorem parseCtor_spec (M : Meta) (hdr : Bytes) (total : Nat) (ht : total ≤ hdr.length) :
    (∃ st n, parseCtor M hdr total = .ok (st, n) ∧ 4 ≤ st.payload.length ∧
        st.payload = (hdr.drop 4).take (byteAt hdr 2 + 256 * byteAt hdr 3 - 4) ∧ n ≤ total) ∨
      parseCtor M hdr total = .throw .malformedPacket := by
  unfold parseCtor
  by_cases h1 : total < 4
  · right; simp [h1]
  · simp only [h1, if_false]
    by_cases h2 : byteAt hdr 2 + 256 * byteAt hdr 3 < 8
    · right; simp [h2]
    · simp only [h2, if_false]
      by_cases h3 : byteAt hdr 2 + 256 * byteAt hdr 3 - 4 + 4 > total - 4
      · right; simp [h3]
      · simp only [h3, if_false]
        have hpl : ((hdr.drop 4).take (byteAt hdr 2 + 256 * byteAt hdr 3 - 4)).length = byteAt hdr 2 + 256 * byteAt hdr 3 - 4 := by
          simp only [List.length_take, List.length_drop]; omega
        rcases mkC_spec M ((hdr.drop 4).take (byteAt hdr 2 + 256 * byteAt hdr 3 - 4)) with
          ⟨_, c, _, hmk, _⟩ | ⟨_, hmk⟩ | ⟨_, c, k, _, hmk, _⟩
        all_goals simp only [hmk]
        · split <;> (try split) <;> (try split) <;> (try split) <;>
            first
              | (right; rfl)
              | (left; exact ⟨_, _, rfl, by simp only; omega, rfl, by omega⟩)
        · right; trivial
        · split <;> (try split) <;> (try split) <;> (try split) <;>
            first
              | (right; rfl)
              | (left; exact ⟨_, _, rfl, by simp only; omega, rfl, by omega⟩)

/-- any sequence of `add_option` calls (any bits, any value lengths) from any state: never a fault; the payload keeps at
    least one present word -/
theorem applyWrites_safe {M : Meta} (hwf : M.wf) : ∀ (ws : List (Nat × Bytes)) (s : State), 4 ≤ s.payload.length →
    (∃ s', applyWrites M ws s = .ok s' ∧ 4 ≤ s'.payload.length ∧ s'.version = s.version ∧ s'.pad = s.pad) ∨
      applyWrites M ws s = .throw .malformedOption ∨ applyWrites M ws s = .throw .malformedPacket := by
  intro ws
  induction ws with
  | nil => intro s h; exact Or.inl ⟨s, rfl, h, rfl, rfl⟩
  | cons w r ih =>
    obtain ⟨b, d⟩ := w
    intro s h
    simp only [applyWrites, addOption]
    rcases writeOption_safe hwf s.payload b d with ⟨buf', hb, hl⟩ | hb | hb
    · simp only [hb]
      rcases ih { s with payload := buf' } hl with ⟨s', hs', h1, h2, h3⟩ | hs' | hs'
      · exact Or.inl ⟨s', hs', h1, h2, h3⟩
      · exact Or.inr (Or.inl hs')
      · exact Or.inr (Or.inr hs')
    · simp only [hb]; exact Or.inr (Or.inl trivial)
    · simp only [hb]; exact Or.inr (Or.inr trivial)

end Tins.RT
