import TinsModel.RadioTap.LemmasLive
import TinsModel.RadioTap.LemmasDecode
/- Helper lemmas for C11, part 10: headers in which the bytes behind the first present word's fields are the
   well-aligned fields `fsK` of the last present word (what libtins' parser reads next), followed by `rest`.
   `write_option` re-aligns them and keeps their values; the getters find them. -/
namespace Tins.RT

/-- the last present word announces exactly the fields `fsK` -/
structure LastWord (M : Meta) (F : Frame) (fsK : List (Nat × Bytes)) : Prop where
  kpos : 0 < F.k
  bits : ∀ c, c < M.max → F.lastWord.testBit c = (presentWord fsK).testBit c
  sorted : Sorted fsK
  sized : Sized M fsK

/-- parser positioned on the field `b` of the last present word that follows its fields `done` -/
def stK (M : Meta) (F : Frame) (fs0 fsK : List (Nat × Bytes)) (rest : Bytes) (done : List (Nat × Bytes)) (b : Nat) : Parser :=
  { buf := lay2 M F fs0 fsK rest, null := false,
    ptr := encEnd M done (encEnd M fs0 F.base) + padTo (M.align b) (encEnd M done (encEnd M fs0 F.base)) - 4,
    bit := b, flags := F.lastWord / 2 ^ b, ns := F.k }

def EndedK (M : Meta) (F : Frame) (fs0 fsK : List (Nat × Bytes)) (rest : Bytes) (p : Parser) : Prop :=
  p.buf = lay2 M F fs0 fsK rest ∧ p.null = false ∧ p.bit = M.max

def PAtK (M : Meta) (F : Frame) (fs0 fsK : List (Nat × Bytes)) (rest : Bytes) (done todo : List (Nat × Bytes)) (p : Parser) : Prop :=
  match todo with
  | [] => EndedK M F fs0 fsK rest p
  | (b, _) :: _ => p = stK M F fs0 fsK rest done b

theorem lay2_length (M : Meta) (F : Frame) (fs0 fsK : List (Nat × Bytes)) (rest : Bytes) :
    (lay2 M F fs0 fsK rest).length + 4 = encEnd M fsK (encEnd M fs0 F.base) + rest.length := by
  unfold lay2
  rw [layL_length']
  simp only [List.length_append, encEnd, Frame.base]
  omega

theorem hasFields_stK {M : Meta} (hwf : M.wf) (F : Frame) (fs0 : List (Nat × Bytes)) (rest : Bytes)
    {fsK done todo : List (Nat × Bytes)} {b : Nat} {v : Bytes}
    (hfs : fsK = done ++ (b, v) :: todo) (hsz : Sized M fsK) : hasFields M (stK M F fs0 fsK rest done b) = true := by
  obtain ⟨hb, hv⟩ := sized_mem hsz hfs
  have hpos := (hwf.2 b hb).1
  have hlen := lay2_length M F fs0 fsK rest
  have hend : encEnd M fsK (encEnd M fs0 F.base) = encEnd M todo (encEnd M done (encEnd M fs0 F.base) +
      padTo (M.align b) (encEnd M done (encEnd M fs0 F.base)) + v.length) := by
    rw [hfs, encEnd_append, encEnd_cons]
  have hle := le_encEnd M todo (encEnd M done (encEnd M fs0 F.base) + padTo (M.align b) (encEnd M done (encEnd M fs0 F.base)) + v.length)
  have h8 := le_encEnd M done (encEnd M fs0 F.base)
  have h0 := le_encEnd M fs0 F.base
  have hbase : 8 ≤ F.base := by simp [Frame.base]
  have h1 : (stK M F fs0 fsK rest done b).bit ≠ M.max := by simp only [stK]; omega
  have h2 : (stK M F fs0 fsK rest done b).ptr < (stK M F fs0 fsK rest done b).buf.length := by simp only [stK]; omega
  simp [hasFields, h1, h2]

theorem hasFields_endedK {M : Meta} {F : Frame} {fs0 fsK : List (Nat × Bytes)} {rest : Bytes} {p : Parser}
    (h : EndedK M F fs0 fsK rest p) : hasFields M p = false := by
  simp [hasFields, h.2.2]

theorem lastWord_testBit {M : Meta} {F : Frame} {fsK : List (Nat × Bytes)} (hL : LastWord M F fsK) (c : Nat) (hc : c < M.max) :
    F.lastWord.testBit c = (presentWord fsK).testBit c := hL.bits c hc

/-- the frame with the last word's fields as foreign bytes -/
def Frame.with2 (M : Meta) (F : Frame) (fs0 fsK : List (Nat × Bytes)) (rest : Bytes) : Frame :=
  { F with tail := enc M fsK (encEnd M fs0 F.base) ++ rest }

theorem lay2_eq (M : Meta) (F : Frame) (fs0 fsK : List (Nat × Bytes)) (rest : Bytes) :
    lay2 M F fs0 fsK rest = layL M (F.with2 M fs0 fsK rest) fs0 := rfl

theorem with2_ok {M : Meta} {F : Frame} (hF : F.ok M) (fs0 fsK : List (Nat × Bytes)) (rest : Bytes) :
    (F.with2 M fs0 fsK rest).ok M := hF

theorem with2_base (M : Meta) (F : Frame) (fs0 fsK : List (Nat × Bytes)) (rest : Bytes) : (F.with2 M fs0 fsK rest).base = F.base := rfl
theorem with2_k (M : Meta) (F : Frame) (fs0 fsK : List (Nat × Bytes)) (rest : Bytes) : (F.with2 M fs0 fsK rest).k = F.k := rfl
theorem with2_lastWord (M : Meta) (F : Frame) (fs0 fsK : List (Nat × Bytes)) (rest : Bytes) :
    (F.with2 M fs0 fsK rest).lastWord = F.lastWord := rfl
theorem with2_hb (M : Meta) (F : Frame) (fs0 fsK : List (Nat × Bytes)) (rest : Bytes) : (F.with2 M fs0 fsK rest).hb = F.hb := rfl

/-- the namespace switch after the last field of the first present word lands on the first field of the last word -/
theorem nextNamespaceField_toK {M : Meta} (hwf : M.wf) {F : Frame} (hF : F.ok M) {fs0 fsK : List (Nat × Bytes)} (rest : Bytes)
    (hsz0 : Sized M fs0) (hL : LastWord M F fsK) (flags : Nat) :
    PAtK M F fs0 fsK rest [] fsK
      (nextNamespaceField M { buf := lay2 M F fs0 fsK rest, null := false, ptr := encEnd M fs0 F.base - 4, bit := M.max,
                              flags := flags, ns := 0 }).1 := by
  have hF2 := with2_ok hF fs0 fsK rest
  have hc := chain_layL hwf hF2 hsz0
  rw [← lay2_eq, with2_k] at hc
  have hwalk : nsWalk ((lay2 M F fs0 fsK rest).length / 4 + 1) (lay2 M F fs0 fsK rest) 0 = F.k :=
    nsWalk_spec _ _ hc _ _ (Nat.zero_le _) (by have := hc.inb; omega)
  have hne : (F.k != 0) = true := by have := hL.kpos; simp; omega
  have hlast : read32 (lay2 M F fs0 fsK rest) (4 * F.k) = F.lastWord := by
    have := read32_layL_last hF2 fs0 (by rw [with2_k]; exact hL.kpos)
    rw [with2_k, with2_lastWord] at this
    exact this
  unfold nextNamespaceField advanceToNextNamespace
  simp only [hwalk, hne, Bool.not_true, Bool.false_eq_true, if_false, hlast]
  have h0 := le_encEnd M fs0 F.base
  have hbase : 8 ≤ F.base := by simp [Frame.base]
  cases hfs : fsK with
  | nil =>
    have hend := advanceToNextField_end M (lay2 M F fs0 [] rest) F.lastWord (encEnd M fs0 F.base - 4) 0 F.k (Nat.zero_le _)
      (fun c _ hcm => by rw [hL.bits c hcm, hfs]; simp [testBit_presentWord])
    simp only [Nat.pow_zero, Nat.div_one] at hend
    simp only [hend, Bool.not_false, if_true]
    exact ⟨rfl, rfl, rfl⟩
  | cons x todo =>
    obtain ⟨b, v⟩ := x
    have hfs' : fsK = [] ++ (b, v) :: todo := by simpa using hfs
    obtain ⟨hb, _⟩ := sized_mem hL.sized hfs'
    have hal := (hwf.2 b hb).2
    have hs' : Sorted ([] ++ (b, v) :: todo) := by rw [← hfs']; exact hL.sorted
    have hto := advanceToNextField_to M (lay2 M F fs0 ((b, v) :: todo) rest) F.lastWord (encEnd M fs0 F.base - 4) 0 b F.k
      (Nat.zero_le _) hb
      (by
        intro c _ hcb
        rw [hL.bits c (by omega), hfs, testBit_presentWord, Bool.eq_false_iff]
        intro hany
        rw [List.any_eq_true] at hany
        obtain ⟨f, hf, hfc⟩ := hany
        have hfc' : f.1 = c := by simpa using hfc
        rw [List.mem_cons] at hf
        rcases hf with hf | hf
        · subst hf; simp at hfc'; omega
        · have := (sorted_split hs').2.1 f hf; simp at this; omega)
      (by
        rw [hL.bits b hb, hfs]
        have : (b, v) :: todo = [] ++ (b, v) :: todo := rfl
        rw [this]; exact set_at)
    simp only [Nat.pow_zero, Nat.div_one] at hto
    simp only [hto, Bool.not_true, Bool.false_eq_true, if_false]
    simp only [PAtK, stK, encEnd_nil, alignBuffer_eq _ _ hal]
    congr 1
    have : encEnd M fs0 F.base - 4 + 4 = encEnd M fs0 F.base := by omega
    rw [this]
    omega

/-- `advance_field` from the last field of the first present word: the parser stands on the first field of the last
    present word, or has ended -/
theorem advanceField_last2 {M : Meta} (hwf : M.wf) {F : Frame} (hF : F.ok M) {fs0 fsK done : List (Nat × Bytes)} (rest : Bytes)
    {b : Nat} {v : Bytes} (hfs : fs0 = done ++ [(b, v)]) (hso : Sorted fs0) (hsz : Sized M fs0) (hL : LastWord M F fsK) :
    PAtK M F fs0 fsK rest [] fsK (advanceField M (stAt M (F.with2 M fs0 fsK rest) fs0 done b)).1 := by
  have hF2 := with2_ok hF fs0 fsK rest
  obtain ⟨hb, hv⟩ := sized_mem hsz hfs
  have hso' : Sorted (done ++ (b, v) :: []) := by rw [← hfs]; exact hso
  have hnb : (b == M.max) = false := by simp; omega
  have hshift : (presentWord fs0 ||| F.hb) / 2 ^ b / 2 = (presentWord fs0 ||| F.hb) / 2 ^ (b + 1) := by
    rw [Nat.div_div_eq_div_mul, Nat.pow_succ]
  rw [advanceField_eq]
  have hn : (stAt M (F.with2 M fs0 fsK rest) fs0 done b).null = false := rfl
  have hbit' : ((stAt M (F.with2 M fs0 fsK rest) fs0 done b).bit == M.max) = false := hnb
  simp only [hn, hbit', Bool.false_or, Bool.false_eq_true, if_false]
  have h8 := le_encEnd M done F.base
  have hbase : 8 ≤ F.base := by simp [Frame.base]
  have hendp : encEnd M done F.base + padTo (M.align b) (encEnd M done F.base) - 4 + M.size b = encEnd M fs0 F.base - 4 := by
    rw [hfs, encEnd_snoc, hv]; omega
  have hadv : skipCurrentField M (stAt M (F.with2 M fs0 fsK rest) fs0 done b)
      = ((⟨lay2 M F fs0 fsK rest, false, encEnd M fs0 F.base - 4, M.max, (presentWord fs0 ||| F.hb) / 2 ^ M.max, 0⟩ : Parser),
         false) := by
    unfold skipCurrentField
    simp only [stAt, hshift, with2_base, with2_hb, hendp, ← lay2_eq]
    apply advanceToNextField_end M _ _ _ _ _ (by omega)
    intro c hc' hcm
    have := W_testBit hF2 fs0 c hcm
    rw [with2_hb] at this
    rw [this, hfs]
    exact clear_between hso' c (by omega) (fun f hf => by simp at hf)
  simp only [hadv, Bool.false_eq_true, if_false]
  exact nextNamespaceField_toK hwf hF rest hsz hL _

/-- one `advance_field` among the fields of the last present word -/
theorem advanceField_stepK {M : Meta} (hwf : M.wf) {F : Frame} (hF : F.ok M) {fs0 fsK done todo : List (Nat × Bytes)} (rest : Bytes)
    {b : Nat} {v : Bytes} (hfs : fsK = done ++ (b, v) :: todo) (hsz0 : Sized M fs0) (hL : LastWord M F fsK) :
    PAtK M F fs0 fsK rest (done ++ [(b, v)]) todo (advanceField M (stK M F fs0 fsK rest done b)).1 := by
  obtain ⟨hb, hv⟩ := sized_mem hL.sized hfs
  have hso' : Sorted (done ++ (b, v) :: todo) := by rw [← hfs]; exact hL.sorted
  obtain ⟨hlo, hhi, hsr⟩ := sorted_split hso'
  have h8 := le_encEnd M done (encEnd M fs0 F.base)
  have h0 := le_encEnd M fs0 F.base
  have hbase : 8 ≤ F.base := by simp [Frame.base]
  have hnb : (b == M.max) = false := by simp; omega
  have hshift : F.lastWord / 2 ^ b / 2 = F.lastWord / 2 ^ (b + 1) := by
    rw [Nat.div_div_eq_div_mul, Nat.pow_succ]
  rw [advanceField_eq]
  have hn : (stK M F fs0 fsK rest done b).null = false := rfl
  have hbit : ((stK M F fs0 fsK rest done b).bit == M.max) = false := hnb
  simp only [hn, hbit, Bool.false_or, Bool.false_eq_true, if_false]
  cases todo with
  | nil =>
    have hadv : skipCurrentField M (stK M F fs0 fsK rest done b)
        = ((⟨lay2 M F fs0 fsK rest, false, (stK M F fs0 fsK rest done b).ptr + M.size b, M.max, F.lastWord / 2 ^ M.max, F.k⟩ : Parser),
           false) := by
      unfold skipCurrentField
      simp only [stK, hshift]
      apply advanceToNextField_end M _ _ _ _ _ (by omega)
      intro c hc hcm
      rw [hL.bits c hcm, hfs]
      exact clear_between hso' c (by omega) (fun f hf => by simp at hf)
    simp only [hadv, Bool.false_eq_true, if_false]
    -- no further namespace: the walk from the last word stays there
    have hF2 := with2_ok hF fs0 fsK rest
    have hc := chain_layL hwf hF2 hsz0
    rw [← lay2_eq, with2_k] at hc
    have hwalk : nsWalk ((lay2 M F fs0 fsK rest).length / 4 + 1) (lay2 M F fs0 fsK rest) F.k = F.k :=
      nsWalk_spec _ _ hc _ _ (Nat.le_refl _) (by omega)
    unfold nextNamespaceField advanceToNextNamespace
    simp only [hwalk, bne_self_eq_false, Bool.not_false, if_true]
    exact ⟨rfl, rfl, rfl⟩
  | cons x todo' =>
    obtain ⟨b', v'⟩ := x
    have hb' : b < b' := by have := hhi (b', v') (List.mem_cons_self ..); simpa using this
    have hfs2 : fsK = (done ++ [(b, v)]) ++ (b', v') :: todo' := by rw [hfs]; simp
    obtain ⟨hbm', _⟩ := sized_mem hL.sized hfs2
    have hal' := (hwf.2 b' hbm').2
    have hadv : skipCurrentField M (stK M F fs0 fsK rest done b) = (stK M F fs0 fsK rest (done ++ [(b, v)]) b', true) := by
      unfold skipCurrentField
      simp only [stK, hshift]
      rw [advanceToNextField_to M _ _ _ (b + 1) b' F.k (by omega) hbm']
      · simp only [alignBuffer_eq _ _ hal', encEnd_snoc, hv]
        have hE : encEnd M done (encEnd M fs0 F.base) + padTo (M.align b) (encEnd M done (encEnd M fs0 F.base)) - 4 + M.size b + 4
            = encEnd M done (encEnd M fs0 F.base) + padTo (M.align b) (encEnd M done (encEnd M fs0 F.base)) + M.size b := by omega
        rw [hE]
        congr 2
        omega
      · intro c hc hct
        rw [hL.bits c (by omega), hfs]
        apply clear_between hso' c (by omega)
        intro f hf
        rw [List.mem_cons] at hf
        rcases hf with hf | hf
        · subst hf; exact hct
        · have hso2 : Sorted ((done ++ [(b, v)]) ++ (b', v') :: todo') := by rw [← hfs2]; exact hL.sorted
          have := (sorted_split hso2).2.1 f hf
          simp at this; omega
      · rw [hL.bits b' hbm', hfs2]; exact set_at
    simp only [hadv, if_true]
    rfl

theorem descL_append (M : Meta) (xs ys : List (Nat × Bytes)) (off : Nat) :
    descL M (xs ++ ys) off = descL M xs off ++ descL M ys (encEnd M xs off) := by
  induction xs generalizing off with
  | nil => simp [descL, encEnd, enc]
  | cons x r ih =>
    obtain ⟨b, v⟩ := x
    simp only [List.cons_append, descL, ih, encEnd_cons, List.append_assoc]

/-- `build_padding_vector` over the remaining fields of the last present word -/
theorem buildPaddingVector_K {M : Meta} (hwf : M.wf) {F : Frame} (hF : F.ok M) {fs0 fsK : List (Nat × Bytes)} (rest : Bytes)
    (hsz0 : Sized M fs0) (hL : LastWord M F fsK) :
    ∀ (todo done : List (Nat × Bytes)) (p : Parser) (last fuel : Nat),
      fsK = done ++ todo → PAtK M F fs0 fsK rest done todo p → last + 4 = encEnd M done (encEnd M fs0 F.base) →
      fuel > todo.length →
      buildPaddingVector M fuel p last = descL M todo (encEnd M done (encEnd M fs0 F.base)) := by
  intro todo
  induction todo with
  | nil =>
    intro done p last fuel _ hp _ hf
    cases fuel with
    | zero => omega
    | succ f =>
      have := hasFields_endedK hp
      simp [buildPaddingVector, this, descL]
  | cons x todo' ih =>
    obtain ⟨b, v⟩ := x
    intro done p last fuel hfs hp hl hf
    cases fuel with
    | zero => simp at hf
    | succ f =>
      simp only [PAtK] at hp
      subst hp
      have hh := hasFields_stK hwf F fs0 rest hfs hL.sized
      obtain ⟨_, hv⟩ := sized_mem hL.sized hfs
      have h8 := le_encEnd M done (encEnd M fs0 F.base)
      have h0 := le_encEnd M fs0 F.base
      have hbase : 8 ≤ F.base := by simp [Frame.base]
      have hstep := advanceField_stepK hwf hF rest hfs hsz0 hL
      have hfs2 : fsK = (done ++ [(b, v)]) ++ todo' := by rw [hfs]; simp
      have hres := ih (done ++ [(b, v)]) (advanceField M (stK M F fs0 fsK rest done b)).1
        ((stK M F fs0 fsK rest done b).ptr + M.size b) f hfs2 hstep
        (by simp only [stK, encEnd_snoc, hv]; omega) (by simp at hf; omega)
      have hpad : (stK M F fs0 fsK rest done b).ptr - last = padTo (M.align b) (encEnd M done (encEnd M fs0 F.base)) := by
        simp only [stK]; omega
      have hbit : (stK M F fs0 fsK rest done b).bit = b := rfl
      unfold buildPaddingVector
      simp only [hh, if_true, descL]
      rw [hpad, hbit, hres, encEnd_snoc]

/-- parser state among the fields of the first present word of a header whose last word's fields follow -/
def PAt2 (M : Meta) (F : Frame) (fs0 fsK : List (Nat × Bytes)) (rest : Bytes) (done todo : List (Nat × Bytes)) (p : Parser) : Prop :=
  match todo with
  | [] => PAtK M F fs0 fsK rest [] fsK p
  | (b, _) :: _ => p = stAt M (F.with2 M fs0 fsK rest) fs0 done b

theorem advanceField_step2 {M : Meta} (hwf : M.wf) {F : Frame} (hF : F.ok M) {fs0 fsK done todo : List (Nat × Bytes)} (rest : Bytes)
    {b : Nat} {v : Bytes} (hfs : fs0 = done ++ (b, v) :: todo) (hso : Sorted fs0) (hsz : Sized M fs0) (hL : LastWord M F fsK) :
    PAt2 M F fs0 fsK rest (done ++ [(b, v)]) todo (advanceField M (stAt M (F.with2 M fs0 fsK rest) fs0 done b)).1 := by
  cases todo with
  | nil => exact advanceField_last2 hwf hF rest hfs hso hsz hL
  | cons x todo' =>
    have := advanceField_step hwf (with2_ok hF fs0 fsK rest) hfs hso hsz (fun h => by cases h)
    obtain ⟨b', v'⟩ := x
    exact this

theorem patK_exit {M : Meta} {F : Frame} {fs0 fsK : List (Nat × Bytes)} {rest : Bytes} (hk : 0 < F.k) {p : Parser}
    (h : PAtK M F fs0 fsK rest [] fsK p) : (hasFields M p && p.ns == 0) = false := by
  cases hfs : fsK with
  | nil =>
    rw [hfs] at h
    simp [hasFields_endedK h]
  | cons x r =>
    obtain ⟨b, v⟩ := x
    rw [hfs] at h
    simp only [PAtK] at h
    subst h
    have : ((stK M F fs0 ((b, v) :: r) rest [] b).ns == 0) = false := by
      simp only [stK]; simp; omega
    simp [this]

/-- `build_padding_vector` from a field of the first present word: the remaining fields of the first word, then all
    fields of the last word -/
theorem buildPaddingVector_2 {M : Meta} (hwf : M.wf) {F : Frame} (hF : F.ok M) {fs0 fsK : List (Nat × Bytes)} (rest : Bytes)
    (hso : Sorted fs0) (hsz : Sized M fs0) (hL : LastWord M F fsK) :
    ∀ (todo done : List (Nat × Bytes)) (p : Parser) (last fuel : Nat),
      fs0 = done ++ todo → PAt2 M F fs0 fsK rest done todo p → last + 4 = encEnd M done F.base →
      fuel > todo.length + fsK.length →
      buildPaddingVector M fuel p last = descL M (todo ++ fsK) (encEnd M done F.base) := by
  intro todo
  induction todo with
  | nil =>
    intro done p last fuel hfs hp hl hf
    simp only [List.append_nil] at hfs
    subst hfs
    simp only [List.nil_append]
    exact buildPaddingVector_K hwf hF rest hsz hL fsK [] p last fuel (by simp) hp (by rw [encEnd_nil]; exact hl) (by simpa using hf)
  | cons x todo' ih =>
    obtain ⟨b, v⟩ := x
    intro done p last fuel hfs hp hl hf
    cases fuel with
    | zero => simp at hf
    | succ f =>
      simp only [PAt2] at hp
      subst hp
      have hh := hasFields_stAt hwf (F.with2 M fs0 fsK rest) hfs hsz
      obtain ⟨_, hv⟩ := sized_mem hsz hfs
      have h8 := le_encEnd M done F.base
      have hbase : 8 ≤ F.base := by simp [Frame.base]
      have hstep := advanceField_step2 hwf hF rest hfs hso hsz hL
      have hfs2 : fs0 = (done ++ [(b, v)]) ++ todo' := by rw [hfs]; simp
      have hres := ih (done ++ [(b, v)]) (advanceField M (stAt M (F.with2 M fs0 fsK rest) fs0 done b)).1
        ((stAt M (F.with2 M fs0 fsK rest) fs0 done b).ptr + M.size b) f hfs2 hstep
        (by simp only [stAt, with2_base, encEnd_snoc, hv]; omega) (by simp at hf; omega)
      have hpad : (stAt M (F.with2 M fs0 fsK rest) fs0 done b).ptr - last = padTo (M.align b) (encEnd M done F.base) := by
        simp only [stAt, with2_base]; omega
      have hbit : (stAt M (F.with2 M fs0 fsK rest) fs0 done b).bit = b := rfl
      unfold buildPaddingVector
      simp only [hh, if_true, List.cons_append, descL]
      rw [hpad, hbit, hres, encEnd_snoc]

/-- the search loop on such a header: skips the lower fields of the first present word, stops in front of the higher
    ones or when it leaves the first present word -/
theorem searchLoop_insert2 {M : Meta} (hwf : M.wf) {F : Frame} (hF : F.ok M) {fs0 fsK : List (Nat × Bytes)} (rest : Bytes)
    (hso : Sorted fs0) (hsz : Sized M fs0) (hL : LastWord M F fsK)
    (bit dl : Nat) (hi : List (Nat × Bytes)) (hhi : ∀ f ∈ hi, bit < f.1) :
    ∀ (lo done : List (Nat × Bytes)) (p : Parser) (cand fuel : Nat),
      fs0 = done ++ (lo ++ hi) → (∀ f ∈ lo, f.1 < bit) → PAt2 M F fs0 fsK rest done (lo ++ hi) p →
      (lo = [] → cand + 4 = encEnd M done F.base) → fuel > lo.length →
      ∃ p', PAt2 M F fs0 fsK rest (done ++ lo) hi p' ∧
        searchLoop M fuel p bit dl cand = .insertAt p' (encEnd M (done ++ lo) F.base - 4) := by
  intro lo
  induction lo with
  | nil =>
    intro done p cand fuel hfs _ hp hc hf
    cases fuel with
    | zero => omega
    | succ f =>
      simp only [List.nil_append, List.append_nil] at hfs hp ⊢
      refine ⟨p, hp, ?_⟩
      have hcand : encEnd M done F.base - 4 = cand := by have := hc rfl; omega
      cases hi with
      | nil =>
        have := patK_exit hL.kpos hp
        simp [searchLoop, this, hcand]
      | cons x hi' =>
        obtain ⟨b', v'⟩ := x
        simp only [PAt2] at hp
        subst hp
        have hh := hasFields_stAt hwf (F.with2 M fs0 fsK rest) hfs hsz
        have hgt : bit < b' := by have := hhi (b', v') (List.mem_cons_self ..); simpa using this
        have hbit : (stAt M (F.with2 M fs0 fsK rest) fs0 done b').bit = b' := rfl
        have hns : (stAt M (F.with2 M fs0 fsK rest) fs0 done b').ns = 0 := rfl
        simp [searchLoop, hh, hbit, hns, hgt, hcand]
  | cons x lo' ih =>
    obtain ⟨b1, v1⟩ := x
    intro done p cand fuel hfs hlo hp hc hf
    cases fuel with
    | zero => simp at hf
    | succ f =>
      simp only [List.cons_append, PAt2] at hfs hp
      subst hp
      have hh := hasFields_stAt hwf (F.with2 M fs0 fsK rest) hfs hsz
      have hlt : b1 < bit := by have := hlo (b1, v1) (List.mem_cons_self ..); simpa using this
      have hbit : (stAt M (F.with2 M fs0 fsK rest) fs0 done b1).bit = b1 := rfl
      have hngt : ¬ (b1 > bit) := by omega
      have hne : ¬ (b1 = bit) := by omega
      obtain ⟨_, hv1⟩ := sized_mem hsz hfs
      have h8 := le_encEnd M done F.base
      have hbase : 8 ≤ F.base := by simp [Frame.base]
      have hstep := advanceField_step2 hwf hF rest hfs hso hsz hL
      have hfs2 : fs0 = (done ++ [(b1, v1)]) ++ (lo' ++ hi) := by rw [hfs]; simp
      obtain ⟨p', hp', hres⟩ := ih (done ++ [(b1, v1)]) (advanceField M (stAt M (F.with2 M fs0 fsK rest) fs0 done b1)).1
        ((stAt M (F.with2 M fs0 fsK rest) fs0 done b1).ptr + M.size b1) f hfs2
        (fun g hg => hlo g (List.mem_cons_of_mem _ hg)) hstep
        (fun _ => by simp only [stAt, with2_base, encEnd_snoc, hv1]; omega) (by simp at hf; omega)
      refine ⟨p', by simpa using hp', ?_⟩
      have hns : ((stAt M (F.with2 M fs0 fsK rest) fs0 done b1).ns == 0) = true := rfl
      unfold searchLoop
      simp only [hh, hns, Bool.and_self, hbit, hngt, hne, if_true, if_false]
      rw [hres]
      simp

theorem encEnd_congr_len (M : Meta) (lo hi : List (Nat × Bytes)) (b : Nat) (v w : Bytes) (h : v.length = w.length) (off : Nat) :
    encEnd M (lo ++ (b, v) :: hi) off = encEnd M (lo ++ (b, w) :: hi) off := by
  rw [encEnd_append, encEnd_cons, encEnd_append, encEnd_cons, h]

/-- `write_option` of a field the first present word does not have, on a header whose last word's fields follow: the
    field is inserted among the first word's fields, the last word's fields are re-aligned and keep their values, the
    bytes behind them are untouched -/
theorem writeOption_insert2 {M : Meta} (hwf : M.wf) (hla : M.lowAlign) {F : Frame} (hF : F.ok M)
    (lo hi fsK : List (Nat × Bytes)) (rest : Bytes) (bit : Nat) (data : Bytes)
    (hso : Sorted (lo ++ (bit, data) :: hi)) (hsz : Sized M (lo ++ (bit, data) :: hi)) (hne0 : lo ++ hi ≠ [])
    (hL : LastWord M F fsK) :
    writeOption M (lay2 M F (lo ++ hi) fsK rest) bit data = .ok (lay2 M F (lo ++ (bit, data) :: hi) fsK rest) := by
  obtain ⟨hlo, hhi, hshi⟩ := sorted_split hso
  simp only at hlo hhi
  obtain ⟨hbit, hdata⟩ := sized_mem hsz rfl
  have hal := (hwf.2 bit hbit).2
  have hapos : 0 < M.align bit := by omega
  have hso' : Sorted (lo ++ hi) := by
    unfold Sorted at hso ⊢
    rw [List.pairwise_append] at hso ⊢
    obtain ⟨h1, h2, h3⟩ := hso
    rw [List.pairwise_cons] at h2
    exact ⟨h1, h2.2, fun a ha b hb => h3 a ha b (List.mem_cons_of_mem _ hb)⟩
  have hsz' : Sized M (lo ++ hi) := by
    intro f hf
    apply hsz f
    rw [List.mem_append] at hf ⊢
    rcases hf with hf | hf
    · exact Or.inl hf
    · exact Or.inr (List.mem_cons_of_mem _ hf)
  have hszhi : Sized M hi := sized_append_right hsz'
  have hszall : Sized M (hi ++ fsK) := by
    intro f hf
    rw [List.mem_append] at hf
    rcases hf with hf | hf
    · exact hszhi f hf
    · exact hL.sized f hf
  have hF2 := with2_ok hF (lo ++ hi) fsK rest
  have hne := layL_nonempty M (F.with2 M (lo ++ hi) fsK rest) (lo ++ hi)
  rw [← lay2_eq] at hne
  have hbase : 8 ≤ F.base := by simp [Frame.base]
  -- the parser and the search loop
  obtain ⟨p0, hp0, hpat0, _, _⟩ := mk_layL hwf hF2 hso' hsz'
  rw [← lay2_eq] at hp0
  have hpat2 : PAt2 M F (lo ++ hi) fsK rest [] (lo ++ hi) p0 := by
    cases hfs : lo ++ hi with
    | nil => exact absurd hfs hne0
    | cons x r =>
      obtain ⟨b0, v0⟩ := x
      rw [hfs] at hpat0
      simpa [PAt2, PAt, hfs] using hpat0
  have hcand0 : lo = [] → p0.ptr + 4 = encEnd M [] F.base := by
    intro hlo0
    rw [encEnd_nil]
    cases hhi0 : hi with
    | nil => exact absurd (by rw [hlo0, hhi0]; rfl) hne0
    | cons x hi' =>
      obtain ⟨b', v'⟩ := x
      have hp : p0 = stAt M (F.with2 M (lo ++ hi) fsK rest) (lo ++ hi) [] b' := by
        have := hpat0
        rw [hlo0, hhi0] at this
        simpa [PAt, hlo0, hhi0] using this
      have hb'gt : bit < b' := by have := hhi (b', v') (by rw [hhi0]; exact List.mem_cons_self ..); simpa using this
      have hb'm : b' < M.max := (hszhi (b', v') (by rw [hhi0]; exact List.mem_cons_self ..)).1
      rw [hp]
      simp only [stAt, with2_base, encEnd_nil, padTo_base hla hF b' (by omega) hb'm]
      omega
  have hfuel_lo : (loopFuel M (lay2 M F (lo ++ hi) fsK rest)) > lo.length :=
    length_lt_loopFuel (sorted_append_left hso') (sized_append_left hsz') _
  have hfuel_all : (loopFuel M (lay2 M F (lo ++ hi) fsK rest)) > hi.length + fsK.length := by
    have h1 := sorted_length_le M.max hi 0 (Nat.zero_le _) (sorted_append_right hso') (fun f hf => ⟨Nat.zero_le _, (hszhi f hf).1⟩)
    have h2 := sorted_length_le M.max fsK 0 (Nat.zero_le _) hL.sorted (fun f hf => ⟨Nat.zero_le _, (hL.sized f hf).1⟩)
    unfold loopFuel
    have : (M.max + 1) * 2 ≤ (M.max + 1) * ((lay2 M F (lo ++ hi) fsK rest).length / 4 + 2) := Nat.mul_le_mul_left _ (by omega)
    omega
  obtain ⟨p1, hpat1, hsearch⟩ := searchLoop_insert2 hwf hF rest hso' hsz' hL bit data.length hi hhi lo [] p0 p0.ptr
    (loopFuel M (lay2 M F (lo ++ hi) fsK rest)) (by simp) hlo hpat2 hcand0 hfuel_lo
  simp only [List.nil_append] at hpat1 hsearch
  have h8 := le_encEnd M lo F.base
  have hbuild := buildPaddingVector_2 hwf hF rest hso' hsz' hL hi lo p1 (encEnd M lo F.base - 4)
    (loopFuel M (lay2 M F (lo ++ hi) fsK rest)) rfl hpat1 (by omega) hfuel_all
  -- the buffer, split at the insertion point
  have hW := W_lt hwf hF hsz'
  have hB : lay2 M F (lo ++ hi) fsK rest = (le32 (presentWord (lo ++ hi) ||| F.hb) ++ F.wsb ++ enc M lo F.base) ++
      (enc M (hi ++ fsK) (encEnd M lo F.base) ++ rest) := by
    simp [lay2, layL, Frame.base, enc_append, encEnd_append]
  have hPlen : (le32 (presentWord (lo ++ hi) ||| F.hb) ++ F.wsb ++ enc M lo F.base).length = encEnd M lo F.base - 4 := by
    simp [le32, encEnd, Frame.base]; omega
  have hpadding : calculatePadding (M.align bit) (encEnd M lo F.base - 4 + 4) = padTo (M.align bit) (encEnd M lo F.base) := by
    rw [calculatePadding_eq _ _ hapos]
    congr 1
    omega
  have hnot : ¬ (encEnd M lo F.base - 4 > (lay2 M F (lo ++ hi) fsK rest).length) := by
    rw [hB, List.length_append, hPlen]; omega
  have htake : (lay2 M F (lo ++ hi) fsK rest).take (encEnd M lo F.base - 4)
      = le32 (presentWord (lo ++ hi) ||| F.hb) ++ F.wsb ++ enc M lo F.base := by
    rw [hB]; exact List.take_left' hPlen
  have hdrop : (lay2 M F (lo ++ hi) fsK rest).drop (encEnd M lo F.base - 4) = enc M (hi ++ fsK) (encEnd M lo F.base) ++ rest := by
    rw [hB]; exact List.drop_left' hPlen
  let pre := le32 (presentWord (lo ++ hi) ||| F.hb) ++ F.wsb ++ enc M lo F.base ++
    zeros (padTo (M.align bit) (encEnd M lo F.base)) ++ data
  have hprelen : pre.length + 4 = encEnd M lo F.base + padTo (M.align bit) (encEnd M lo F.base) + data.length := by
    simp only [pre, List.length_append, zeros_length]
    have := hPlen
    simp only [List.length_append] at this
    omega
  have hupd := updatePaddings_spec M hwf rest (hi ++ fsK) (encEnd M lo F.base) 0 0
    ((encEnd M lo F.base - 4 + padTo (M.align bit) (encEnd M lo F.base) + data.length : Nat) : Int) pre
    ((descL M (hi ++ fsK) (encEnd M lo F.base)).length + 1) hszall (by omega)
    (by omega)
  simp only [List.replicate_zero, List.nil_append] at hupd
  -- run the code
  unfold writeOption
  have hbit' : ¬ (bit ≥ M.max) := by omega
  simp only [hbit', if_false, hp0, hsearch, hne, Bool.false_eq_true, hbuild, hpadding, hnot, htake, hdrop]
  have hbuf1 : le32 (presentWord (lo ++ hi) ||| F.hb) ++ F.wsb ++ enc M lo F.base ++
      zeros (padTo (M.align bit) (encEnd M lo F.base)) ++ data ++
      (enc M (hi ++ fsK) (encEnd M lo F.base) ++ rest) = pre ++ (enc M (hi ++ fsK) (encEnd M lo F.base) ++ rest) := rfl
  rw [hbuf1, hupd]
  simp only
  have hread : read32 (pre ++ (enc M (hi ++ fsK) (pre.length + 4) ++ rest)) 0 = presentWord (lo ++ hi) ||| F.hb := by
    simp only [pre, List.append_assoc]
    rw [read32_le32]; omega
  have hdrop4 : (pre ++ (enc M (hi ++ fsK) (pre.length + 4) ++ rest)).drop 4
      = F.wsb ++ (enc M lo F.base ++ (zeros (padTo (M.align bit) (encEnd M lo F.base)) ++
          (data ++ (enc M (hi ++ fsK) (pre.length + 4) ++ rest)))) := by
    simp only [pre, List.append_assoc]
    rw [drop4_le32]
  rw [hread, hdrop4, hprelen, or_right_comm']
  simp only [lay2, layL, Frame.base, presentWord_insert, enc_append, enc, encEnd_append, encEnd_cons, List.append_assoc]

/-- `write_option` of a field the first present word already has: in place, everything else untouched -/
theorem writeOption_overwrite2 {M : Meta} (hwf : M.wf) {F : Frame} (hF : F.ok M) (lo hi fsK : List (Nat × Bytes)) (rest : Bytes)
    (bit : Nat) (old data : Bytes) (hso : Sorted (lo ++ (bit, old) :: hi)) (hsz : Sized M (lo ++ (bit, old) :: hi))
    (hlen : data.length = old.length) :
    writeOption M (lay2 M F (lo ++ (bit, old) :: hi) fsK rest) bit data = .ok (lay2 M F (lo ++ (bit, data) :: hi) fsK rest) := by
  have h := writeOption_overwrite hwf (with2_ok hF (lo ++ (bit, old) :: hi) fsK rest) lo hi bit old data hso hsz hlen
  rw [← lay2_eq] at h
  rw [h]
  simp only [lay2, Frame.with2, encEnd_congr_len M lo hi bit old data hlen.symm]

/-- one valid write on the two-word-field header of the maps `m0` (first present word, not empty) and `fsK` -/
theorem writeOption_lay2 {M : Meta} (hwf : M.wf) (hla : M.lowAlign) {F : Frame} (hF : F.ok M) {m0 : FMap} (hm : sized M m0)
    (hne0 : fieldList M m0 ≠ []) (fsK : List (Nat × Bytes)) (rest : Bytes) (hL : LastWord M F fsK)
    (f : Nat) (v : Bytes) (hw : validWrite M (f, v)) :
    writeOption M (lay2 M F (fieldList M m0) fsK rest) f v = .ok (lay2 M F (fieldList M (upd m0 f v)) fsK rest) := by
  obtain ⟨hf, hv⟩ := hw
  simp only at hf hv
  have hso := fieldList_sorted M (upd m0 f v)
  have hsz := fieldList_sized (sized_upd hm (w := (f, v)) ⟨hf, hv⟩)
  simp only at hso hsz
  rw [fieldList_upd M m0 f v hf] at hso hsz ⊢
  have hsplit := fieldList_split M m0 f hf
  cases hmf : m0 f with
  | none =>
    simp only [optL, hmf, List.nil_append] at hsplit
    rw [hsplit]
    exact writeOption_insert2 hwf hla hF _ _ fsK rest f v hso hsz (by rw [← hsplit]; exact hne0) hL
  | some old =>
    simp only [optL, hmf, List.singleton_append] at hsplit
    rw [hsplit]
    have hold := (hm f old hmf).2
    have hso' : Sorted (fieldsFrom m0 f 0 ++ (f, old) :: fieldsFrom m0 (M.max - f - 1) (f + 1)) := by
      rw [← hsplit]; exact fieldList_sorted M m0
    have hsz' : Sized M (fieldsFrom m0 f 0 ++ (f, old) :: fieldsFrom m0 (M.max - f - 1) (f + 1)) := by
      rw [← hsplit]; exact fieldList_sized hm
    exact writeOption_overwrite2 hwf hF _ _ fsK rest f old v hso' hsz' (by omega)

/-! ### getters -/

/-- `skip_to_field` for a field the first present word does not have passes all its fields and enters the last word -/
theorem skipToField_pass0 {M : Meta} (hwf : M.wf) {F : Frame} (hF : F.ok M) {fs0 fsK : List (Nat × Bytes)} (rest : Bytes)
    (hso : Sorted fs0) (hsz : Sized M fs0) (hL : LastWord M F fsK) (g : Nat) :
    ∀ (todo done : List (Nat × Bytes)) (p : Parser), fs0 = done ++ todo → (∀ f ∈ todo, f.1 ≠ g) →
      PAt2 M F fs0 fsK rest done todo p →
      ∃ pK, PAtK M F fs0 fsK rest [] fsK pK ∧ ∀ n, skipToField M (n + todo.length) p g = skipToField M n pK g := by
  intro todo
  induction todo with
  | nil => intro done p _ _ hp; exact ⟨p, hp, fun n => rfl⟩
  | cons x todo' ih =>
    obtain ⟨b1, v1⟩ := x
    intro done p hfs hne hp
    simp only [PAt2] at hp
    subst hp
    have hh := hasFields_stAt hwf (F.with2 M fs0 fsK rest) hfs hsz
    have hbit : (stAt M (F.with2 M fs0 fsK rest) fs0 done b1).bit = b1 := rfl
    have hne1 : (b1 != g) = true := by
      have := hne (b1, v1) (List.mem_cons_self ..); simpa using this
    have hstep := advanceField_step2 hwf hF rest hfs hso hsz hL
    have hfs2 : fs0 = (done ++ [(b1, v1)]) ++ todo' := by rw [hfs]; simp
    obtain ⟨pK, hpK, hall⟩ := ih (done ++ [(b1, v1)]) (advanceField M (stAt M (F.with2 M fs0 fsK rest) fs0 done b1)).1 hfs2
      (fun f hf => hne f (List.mem_cons_of_mem _ hf)) hstep
    refine ⟨pK, hpK, fun n => ?_⟩
    have : n + ((b1, v1) :: todo').length = (n + todo'.length) + 1 := by simp; omega
    rw [this, skipToField]
    simp only [hh, hbit, hne1, Bool.and_self, if_true]
    exact hall n

theorem skipToField_K_found {M : Meta} (hwf : M.wf) {F : Frame} (hF : F.ok M) {fs0 fsK : List (Nat × Bytes)} (rest : Bytes)
    (hsz0 : Sized M fs0) (hL : LastWord M F fsK) (g : Nat) (v : Bytes) (hi : List (Nat × Bytes)) :
    ∀ (lo done : List (Nat × Bytes)) (p : Parser) (fuel : Nat),
      fsK = done ++ (lo ++ (g, v) :: hi) → (∀ f ∈ lo, f.1 ≠ g) → PAtK M F fs0 fsK rest done (lo ++ (g, v) :: hi) p →
      fuel > lo.length → skipToField M fuel p g = (stK M F fs0 fsK rest (done ++ lo) g, true) := by
  intro lo
  induction lo with
  | nil =>
    intro done p fuel hfs _ hp hf
    cases fuel with
    | zero => omega
    | succ f =>
      simp only [List.nil_append, List.append_nil, PAtK] at hfs hp ⊢
      subst hp
      have hh := hasFields_stK hwf F fs0 rest hfs hL.sized
      have hbit : (stK M F fs0 fsK rest done g).bit = g := rfl
      simp [skipToField, hh, hbit]
  | cons x lo' ih =>
    obtain ⟨b1, v1⟩ := x
    intro done p fuel hfs hlo hp hf
    cases fuel with
    | zero => simp at hf
    | succ f =>
      simp only [List.cons_append, PAtK] at hfs hp
      subst hp
      have hh := hasFields_stK hwf F fs0 rest hfs hL.sized
      have hbit : (stK M F fs0 fsK rest done b1).bit = b1 := rfl
      have hne : (b1 != g) = true := by have := hlo (b1, v1) (List.mem_cons_self ..); simpa using this
      have hstep := advanceField_stepK hwf hF rest hfs hsz0 hL
      have hfs2 : fsK = (done ++ [(b1, v1)]) ++ (lo' ++ (g, v) :: hi) := by rw [hfs]; simp
      have hres := ih (done ++ [(b1, v1)]) (advanceField M (stK M F fs0 fsK rest done b1)).1 f hfs2
        (fun f' hf' => hlo f' (List.mem_cons_of_mem _ hf')) hstep (by simp at hf; omega)
      unfold skipToField
      simp only [hh, hbit, hne, Bool.and_self, if_true]
      rw [hres]
      simp

theorem skipToField_K_absent {M : Meta} (hwf : M.wf) {F : Frame} (hF : F.ok M) {fs0 fsK : List (Nat × Bytes)} (rest : Bytes)
    (hsz0 : Sized M fs0) (hL : LastWord M F fsK) (g : Nat) :
    ∀ (todo done : List (Nat × Bytes)) (p : Parser) (fuel : Nat),
      fsK = done ++ todo → (∀ f ∈ todo, f.1 ≠ g) → PAtK M F fs0 fsK rest done todo p → fuel > todo.length →
      (skipToField M fuel p g).2 = false := by
  intro todo
  induction todo with
  | nil =>
    intro done p fuel _ _ hp hf
    have := hasFields_endedK hp
    cases fuel with
    | zero => omega
    | succ f => simp [skipToField, this]
  | cons x todo' ih =>
    obtain ⟨b1, v1⟩ := x
    intro done p fuel hfs hne hp hf
    cases fuel with
    | zero => simp at hf
    | succ f =>
      simp only [PAtK] at hp
      subst hp
      have hh := hasFields_stK hwf F fs0 rest hfs hL.sized
      have hbit : (stK M F fs0 fsK rest done b1).bit = b1 := rfl
      have hne1 : (b1 != g) = true := by
        have := hne (b1, v1) (List.mem_cons_self ..); simpa using this
      have hstep := advanceField_stepK hwf hF rest hfs hsz0 hL
      have hfs2 : fsK = (done ++ [(b1, v1)]) ++ todo' := by rw [hfs]; simp
      have hres := ih (done ++ [(b1, v1)]) (advanceField M (stK M F fs0 fsK rest done b1)).1 f hfs2
        (fun f' hf' => hne f' (List.mem_cons_of_mem _ hf')) hstep (by simp at hf; omega)
      unfold skipToField
      simp only [hh, hbit, hne1, Bool.and_self, if_true]
      exact hres

theorem lay2_splitK (M : Meta) (F : Frame) (fs0 lo hi : List (Nat × Bytes)) (rest : Bytes) (g : Nat) (v : Bytes) :
    lay2 M F fs0 (lo ++ (g, v) :: hi) rest
      = (le32 (presentWord fs0 ||| F.hb) ++ F.wsb ++ enc M fs0 F.base ++ enc M lo (encEnd M fs0 F.base) ++
          zeros (padTo (M.align g) (encEnd M lo (encEnd M fs0 F.base)))) ++
        (v ++ (enc M hi (encEnd M lo (encEnd M fs0 F.base) + padTo (M.align g) (encEnd M lo (encEnd M fs0 F.base)) + v.length) ++ rest)) := by
  simp [lay2, layL, Frame.base, enc_append, enc]

theorem lay2_splitK_len (M : Meta) (F : Frame) (fs0 lo : List (Nat × Bytes)) (g W : Nat) :
    (le32 W ++ F.wsb ++ enc M fs0 F.base ++ enc M lo (encEnd M fs0 F.base) ++
      zeros (padTo (M.align g) (encEnd M lo (encEnd M fs0 F.base)))).length
      = encEnd M lo (encEnd M fs0 F.base) + padTo (M.align g) (encEnd M lo (encEnd M fs0 F.base)) - 4 := by
  simp [le32, encEnd, zeros_length, Frame.base]; omega

theorem currentOption_stK {M : Meta} (F : Frame) (fs0 lo hi : List (Nat × Bytes)) (rest : Bytes) (g : Nat) (v : Bytes)
    (hv : v.length = M.size g) : currentOption M (stK M F fs0 (lo ++ (g, v) :: hi) rest lo g) = .ok v := by
  have hsplit := lay2_splitK M F fs0 lo hi rest g v
  have hplen := lay2_splitK_len M F fs0 lo g (presentWord fs0 ||| F.hb)
  unfold currentOption
  have hptr : (stK M F fs0 (lo ++ (g, v) :: hi) rest lo g).ptr
      = encEnd M lo (encEnd M fs0 F.base) + padTo (M.align g) (encEnd M lo (encEnd M fs0 F.base)) - 4 := rfl
  have hbuf : (stK M F fs0 (lo ++ (g, v) :: hi) rest lo g).buf = lay2 M F fs0 (lo ++ (g, v) :: hi) rest := rfl
  have hbit : (stK M F fs0 (lo ++ (g, v) :: hi) rest lo g).bit = g := rfl
  rw [hptr, hbuf, hbit, hsplit]
  have hnot : ¬ (encEnd M lo (encEnd M fs0 F.base) + padTo (M.align g) (encEnd M lo (encEnd M fs0 F.base)) - 4 + M.size g >
      (le32 (presentWord fs0 ||| F.hb) ++ F.wsb ++ enc M fs0 F.base ++ enc M lo (encEnd M fs0 F.base) ++
        zeros (padTo (M.align g) (encEnd M lo (encEnd M fs0 F.base))) ++
        (v ++ (enc M hi (encEnd M lo (encEnd M fs0 F.base) + padTo (M.align g) (encEnd M lo (encEnd M fs0 F.base)) + v.length) ++ rest))).length) := by
    rw [List.length_append, hplen]
    simp only [List.length_append]
    omega
  simp only [hnot, if_false]
  rw [List.drop_left' hplen, ← hv, List.take_left]

/-- `do_find_option` on the header of the maps `m0` (first present word, not empty) and `mK` (last present word): the
    first word's value, else the last word's, else `field_not_present` -/
theorem doFindOption_lay2 {M : Meta} (hwf : M.wf) {F : Frame} (hF : F.ok M) {m0 mK : FMap} (hm0 : sized M m0) (hmK : sized M mK)
    (hne0 : fieldList M m0 ≠ []) (rest : Bytes) (hL : LastWord M F (fieldList M mK)) (g : Nat) :
    doFindOption M (lay2 M F (fieldList M m0) (fieldList M mK) rest) g =
      match m0 g with
      | some v => .ok v
      | none => match mK g with
        | some v => .ok v
        | none => .throw .fieldNotPresent := by
  have hF2 := with2_ok hF (fieldList M m0) (fieldList M mK) rest
  cases hg0 : m0 g with
  | some v =>
    rw [lay2_eq]
    exact doFindOption_layout_present hwf hF2 hm0 g v hg0
  | none =>
    have hso0 := fieldList_sorted M m0
    have hsz0 := fieldList_sized hm0
    obtain ⟨p0, hp0, hpat0, _, _⟩ := mk_layL hwf hF2 hso0 hsz0
    rw [← lay2_eq] at hp0
    have hpat2 : PAt2 M F (fieldList M m0) (fieldList M mK) rest [] (fieldList M m0) p0 := by
      cases hfs : fieldList M m0 with
      | nil => exact absurd hfs hne0
      | cons x r =>
        obtain ⟨b0, v0⟩ := x
        rw [hfs] at hpat0
        simpa [PAt2, PAt, hfs] using hpat0
    have hne : ∀ f ∈ fieldList M m0, f.1 ≠ g := by
      intro f hf hfb
      have := (fieldsFrom_mem hf).2.2
      rw [hfb, hg0] at this
      cases this
    obtain ⟨pK, hpK, hall⟩ := skipToField_pass0 hwf hF rest hso0 hsz0 hL g (fieldList M m0) [] p0 (by simp) hne hpat2
    -- fuel: the loop budget covers both field lists
    have h1 := sorted_length_le M.max (fieldList M m0) 0 (Nat.zero_le _) hso0 (fun f hf => ⟨Nat.zero_le _, (hsz0 f hf).1⟩)
    have h2 := sorted_length_le M.max (fieldList M mK) 0 (Nat.zero_le _) hL.sorted (fun f hf => ⟨Nat.zero_le _, (hL.sized f hf).1⟩)
    have hfuel : (M.max + 1) * 2 ≤ loopFuel M (lay2 M F (fieldList M m0) (fieldList M mK) rest) := by
      unfold loopFuel
      exact Nat.mul_le_mul_left _ (by omega)
    have hsplitfuel : loopFuel M (lay2 M F (fieldList M m0) (fieldList M mK) rest)
        = (loopFuel M (lay2 M F (fieldList M m0) (fieldList M mK) rest) - (fieldList M m0).length) + (fieldList M m0).length := by
      omega
    unfold doFindOption
    simp only [hp0]
    rw [hsplitfuel, hall]
    cases hgK : mK g with
    | some v =>
      obtain ⟨hb, hv⟩ := hmK g v hgK
      have hsplit := fieldList_split M mK g hb
      simp only [optL, hgK, List.singleton_append] at hsplit
      have hloK : ∀ f ∈ fieldsFrom mK g 0, f.1 ≠ g := fun f hf => by have := fieldsFrom_mem hf; omega
      have hlolen : (fieldsFrom mK g 0).length ≤ (fieldList M mK).length := by rw [hsplit]; simp
      have hfound := skipToField_K_found hwf hF rest hsz0 hL g v (fieldsFrom mK (M.max - g - 1) (g + 1)) (fieldsFrom mK g 0) [] pK
        (loopFuel M (lay2 M F (fieldList M m0) (fieldList M mK) rest) - (fieldList M m0).length)
        (by simpa using hsplit) hloK (by rw [← hsplit]; exact hpK) (by omega)
      simp only [hfound, List.nil_append, Bool.not_true, Bool.false_eq_true, if_false]
      rw [hsplit]
      exact currentOption_stK F _ _ _ rest g v hv
    | none =>
      have hneK : ∀ f ∈ fieldList M mK, f.1 ≠ g := by
        intro f hf hfb
        have := (fieldsFrom_mem hf).2.2
        rw [hfb, hgK] at this
        cases this
      have habs := skipToField_K_absent hwf hF rest hsz0 hL g (fieldList M mK) [] pK
        (loopFuel M (lay2 M F (fieldList M m0) (fieldList M mK) rest) - (fieldList M m0).length) (by simp) hneK hpK (by omega)
      simp [habs]

/-- any finite sequence of valid writes on such a header: the first word's fields follow the last-write map, the last
    word's fields keep their values (re-aligned), the bytes behind them are untouched -/
theorem applyWrites_lay2 {M : Meta} (hwf : M.wf) (hla : M.lowAlign) {F : Frame} (hF : F.ok M) (fsK : List (Nat × Bytes)) (rest : Bytes)
    (hL : LastWord M F fsK) :
    ∀ (ws : List (Nat × Bytes)) (m0 : FMap) (ver pad : Nat), sized M m0 → fieldList M m0 ≠ [] → (∀ w ∈ ws, validWrite M w) →
    applyWrites M ws { version := ver, pad := pad, payload := lay2 M F (fieldList M m0) fsK rest }
      = .ok { version := ver, pad := pad, payload := lay2 M F (fieldList M (lastWrite m0 ws)) fsK rest } := by
  intro ws
  induction ws with
  | nil => intro m0 ver pad _ _ _; simp [applyWrites, lastWrite]
  | cons w r ih =>
    intro m0 ver pad hm hne hw
    obtain ⟨b, d⟩ := w
    have hwv := hw (b, d) (List.mem_cons_self ..)
    simp only [applyWrites, addOption, writeOption_lay2 hwf hla hF hm hne fsK rest hL b d hwv]
    have hne' : fieldList M (upd m0 b d) ≠ [] := by
      rw [fieldList_upd M m0 b d hwv.1]
      simp
    rw [ih (upd m0 b d) ver pad (sized_upd hm hwv) hne' (fun x hx => hw x (List.mem_cons_of_mem _ hx))]
    simp [lastWrite]

/-- what the decidable test `decodeLayout2` accepts -/
theorem decodeLayout2_sound (M : Meta) (buf : Bytes) (F : Frame) (fs0 fsK : List (Nat × Bytes)) (rest : Bytes)
    (h : decodeLayout2 M buf = some (F, fs0, fsK, rest)) :
    F.ok M ∧ sized M (mapOfList fs0) ∧ fieldList M (mapOfList fs0) = fs0 ∧ fs0 ≠ [] ∧
      sized M (mapOfList fsK) ∧ fieldList M (mapOfList fsK) = fsK ∧ LastWord M F fsK ∧
      buf = lay2 M F fs0 fsK rest := by
  unfold decodeLayout2 at h
  cases hd : decodeLayout M buf with
  | none => simp [hd] at h
  | some x =>
    obtain ⟨F', fs0'⟩ := x
    simp only [hd] at h
    split at h
    · cases h
    · rename_i hcond
      cases hk : decodeFields M buf F'.lastWord M.max 0 (encEnd M fs0' F'.base) with
      | none => simp [hk] at h
      | some fsK' =>
        simp only [hk] at h
        split at h
        · rename_i hc2
          simp only [Option.some.injEq, Prod.mk.injEq] at h
          obtain ⟨e1, e2, e3, e4⟩ := h
          subst e1 e2 e3
          obtain ⟨hF, hm0, hbuf, hfl0⟩ := decodeLayout_sound M buf F' fs0' hd
          obtain ⟨hs, hb⟩ := decodeFields_sound M buf _ _ _ _ _ hk
          obtain ⟨hmK, hflK⟩ := mapOfList_of_sorted M fsK' hs (fun f hf => by have := hb f hf; omega)
          have hk0 : 0 < F'.k := by
            have : ¬ (F'.k = 0) := fun h0 => hcond (Or.inl h0)
            omega
          have hne : fs0' ≠ [] := fun h0 => hcond (Or.inr h0)
          refine ⟨hF, hm0, hfl0, hne, hmK, hflK, ⟨hk0, hc2.2, hs, fun f hf => ⟨by have := hb f hf; omega, (hb f hf).2.2⟩⟩, ?_⟩
          rw [hbuf, hfl0]
          unfold lay2
          congr 1
          have htail : F'.tail = enc M fsK' (encEnd M fs0' F'.base) ++ rest := by
            have h1 := List.take_append_drop (enc M fsK' (encEnd M fs0' F'.base)).length F'.tail
            rw [hc2.1, e4] at h1
            exact h1.symm
          obtain ⟨hb', wsb', tail'⟩ := F'
          simp only [Frame.base] at htail ⊢
          subst htail
          rfl
        · cases h

end Tins.RT
