import TinsModel.RadioTap.Model
/-
  Fault-explicit model of `Utils::RadioTapParser` (src/utils/radiotap_parser.cpp).

  `Model.lean` reads present words with the total `read32` (bytes outside the buffer read as 0).  Here every
  raw access of the C++ — `load_current_flags` / `namespace_flags` (`memcpy` from `get_flags_ptr()`), `flags->ext`
  in `find_options_start` and `advance_to_next_namespace`, `(const RadioTapFlags*)ptr` in `has_field`, the index
  into `RADIOTAP_METADATA` — goes through `rd32` / an explicit index test and is a `fault` when it leaves the
  buffer (the table).  Loops carry explicit fuel; running out of fuel is reported as a fault of its own, so the
  safety theorems (`TinsModel/RadioTap/LemmasSafe.lean`, `Props/C11.lean`) are also the termination theorems.
  `current_namespace_` (radiotap / vendor / unknown), which `Model.lean` omits, is carried along.

  The theorems show that these functions never fault and agree with the total ones of `Model.lean`, which is what
  the writer, the getters and the serializer are modelled on.
-/
namespace Tins.RT

/-- raw 4-byte little-endian read at `buf[i ‥ i+4)`: a fault outside the buffer -/
def rd32 (site : String) (buf : Bytes) (i : Nat) : Out Nat :=
  if i + 4 ≤ buf.length then .ok (read32 buf i) else .fault site

/-- `RadioTapParser::NamespaceType` -/
inductive NsType | radiotap | vendor | unknown
deriving DecidableEq, Repr

/-- the namespace the present word after `w` belongs to: `is_field_set(1 << 29, flags)` → RADIOTAP_NS,
    `is_field_set(1 << 30, flags)` → VENDOR_NS, otherwise UNKNOWN_NS -/
def nsTypeOf (w : Nat) : NsType :=
  if w / 536870912 % 2 == 1 then .radiotap else if w / 1073741824 % 2 == 1 then .vendor else .unknown

/-- parser state with `current_namespace_` -/
structure PC where
  p : Parser
  nst : NsType := .radiotap
deriving Repr

/-- `find_options_start`: `total` = its `total_sz`, `idx` = present word `flags` points at -/
def findOptionsStartC : Nat → Bytes → Nat → Nat → Out Nat
  | 0, _, _, _ => .fault "find_options_start:fuel"
  | fuel + 1, buf, total, idx =>
    match rd32 "find_options_start:flags->ext" buf (4 * idx) with
    | .ok w =>
      if extSet w then
        if total - 4 < 4 then .throw .malformedPacket else findOptionsStartC fuel buf (total - 4) (idx + 1)
      else .ok (4 * idx + 4)
    | .throw e => .throw e
    | .fault s => .fault s

/-- `RadioTapParser::RadioTapParser(buffer)` -/
def mkC (M : Meta) (buf : Bytes) : Out PC :=
  if buf.isEmpty then .ok { p := { buf := buf, null := true, ptr := 0, bit := M.max, flags := 0, ns := 0 } }
  else if buf.length < 4 then .throw .malformedPacket
  else
    match rd32 "load_current_flags" buf 0 with
    | .ok fl =>
      match findOptionsStartC (buf.length / 4 + 1) buf buf.length 0 with
      | .ok start =>
        .ok { p := (advanceToNextField M { buf := buf, null := false, ptr := start, bit := 0, flags := fl, ns := 0 }).1 }
      | .throw e => .throw e
      | .fault s => .fault s
    | .throw e => .throw e
    | .fault s => .fault s

/-- the `while (flags->ext == 1)` walk of `advance_to_next_namespace` (no bounds check in the C++) -/
def nsWalkC : Nat → Bytes → Nat → NsType → Out (Nat × NsType)
  | 0, _, _, _ => .fault "advance_to_next_namespace:fuel"
  | fuel + 1, buf, idx, t =>
    match rd32 "advance_to_next_namespace:flags->ext" buf (4 * idx) with
    | .ok w => if extSet w then nsWalkC fuel buf (idx + 1) (nsTypeOf w) else .ok (idx, t)
    | .throw e => .throw e
    | .fault s => .fault s

/-- `advance_to_next_namespace()` -/
def advanceToNextNamespaceC (c : PC) : Out (PC × Bool) :=
  match nsWalkC (c.p.buf.length / 4 + 2) c.p.buf c.p.ns c.nst with
  | .ok (idx, t) =>
    match rd32 "load_current_flags" c.p.buf (4 * idx) with
    | .ok fl => .ok ({ p := { c.p with ns := idx, flags := fl }, nst := t }, idx != c.p.ns)
    | .throw e => .throw e
    | .fault s => .fault s
  | .throw e => .throw e
  | .fault s => .fault s

/-- second half of `advance_field()`: the current present word is exhausted, try the next namespace -/
def nextNamespaceFieldC (M : Meta) (c1 : PC) : Out (PC × Bool) :=
  match advanceToNextNamespaceC c1 with
  | .ok (c2, moved) =>
    if !moved then .ok ({ c2 with p := { c2.p with bit := M.max } }, false) else
    let r3 := advanceToNextField M { c2.p with bit := 0 }
    if !r3.2 then .ok ({ c2 with p := { r3.1 with bit := M.max } }, false) else .ok ({ c2 with p := r3.1 }, true)
  | .throw e => .throw e
  | .fault s => .fault s

/-- `advance_field()` -/
def advanceFieldC (M : Meta) (c : PC) : Out (PC × Bool) :=
  if c.p.null || c.p.bit == M.max then .ok (c, false) else
  if c.p.bit > M.max then .fault "skip_current_field:RADIOTAP_METADATA index" else
  let r1 := skipCurrentField M c.p
  if r1.2 then .ok ({ c with p := r1.1 }, true) else nextNamespaceFieldC M { c with p := r1.1 }

/-- `skip_to_field(1 << bit)`: the parser and `has_fields()` -/
def skipToFieldC (M : Meta) : Nat → PC → Nat → Out (PC × Bool)
  | 0, _, _ => .fault "skip_to_field:fuel"
  | fuel + 1, c, bit =>
    if hasFields M c.p && c.p.bit != bit then
      match advanceFieldC M c with
      | .ok r => skipToFieldC M fuel r.1 bit
      | .throw e => .throw e
      | .fault s => .fault s
    else .ok (c, hasFields M c.p)

/-- `current_option()`: the bytes of the option -/
def currentOptionC (M : Meta) (p : Parser) : Out Bytes :=
  if p.bit ≥ M.max then .fault "current_option:RADIOTAP_METADATA index"
  else if p.ptr + M.size p.bit > p.buf.length then .throw .malformedPacket
  else if p.ptr + M.size p.bit ≤ p.buf.length then .ok ((p.buf.drop p.ptr).take (M.size p.bit))
  else .fault "current_option:option copy"

/-- `has_field(flag)` with `flag = mask`: the `while (ptr + sizeof(uint32_t) < end_)` loop; `off` = `ptr - start_` -/
def hasFieldLoopC : Nat → Bytes → Nat → Nat → Out Bool
  | 0, _, _, _ => .fault "has_field:fuel"
  | fuel + 1, buf, off, mask =>
    if off + 4 < buf.length then
      match rd32 "has_field:flags" buf off with
      | .ok w =>
        if w &&& mask ≠ 0 then .ok true
        else if !extSet w then .ok false
        else hasFieldLoopC fuel buf (off + 4) mask
      | .throw e => .throw e
      | .fault s => .fault s
    else .ok false

def hasFieldC (buf : Bytes) (mask : Nat) : Out Bool := hasFieldLoopC (buf.length / 4 + 1) buf 0 mask

/-- `namespace_flags()` -/
def namespaceFlagsC (c : PC) : Out Nat :=
  if c.p.null then .fault "namespace_flags:null-parser" else rd32 "namespace_flags" c.p.buf (4 * c.p.ns)

/-- `RadioTap::present()`: `do output |= namespace_flags(); while (advance_namespace());` -/
def presentLoopC : Nat → PC → Nat → Out Nat
  | 0, _, _ => .fault "present:fuel"
  | fuel + 1, c, out =>
    match namespaceFlagsC c with
    | .ok w =>
      let out := out ||| w
      if c.p.buf.length < 4 then .ok out else
      match advanceToNextNamespaceC c with
      | .ok (c2, moved) => if moved then presentLoopC fuel c2 out else .ok out
      | .throw e => .throw e
      | .fault s => .fault s
    | .throw e => .throw e
    | .fault s => .fault s

def presentC (M : Meta) (buf : Bytes) : Out Nat :=
  match mkC M buf with
  | .ok c => presentLoopC (buf.length / 4 + 2) c 0
  | .throw e => .throw e
  | .fault s => .fault s

/-- one reported field of a full walk: namespace index / type, bit, offset of the option, `current_option()` -/
structure WalkItem where
  ns : Nat
  nst : NsType
  bit : Nat
  ptr : Nat
  opt : Out Bytes

/-- `while (parser.has_fields()) { report; parser.advance_field(); }` — returns the reported fields and the final
    parser -/
def walkLoopC (M : Meta) : Nat → PC → List WalkItem → Out (List WalkItem × PC)
  | 0, _, _ => .fault "walk:fuel"
  | fuel + 1, c, acc =>
    if hasFields M c.p then
      match advanceFieldC M c with
      | .ok r => walkLoopC M fuel r.1 ({ ns := c.p.ns, nst := c.nst, bit := c.p.bit, ptr := c.p.ptr, opt := currentOptionC M c.p } :: acc)
      | .throw e => .throw e
      | .fault s => .fault s
    else .ok (acc.reverse, c)

/-- iterations of any loop over `advance_field()`: the fields of the first present word, the switch, the fields of
    the last present word -/
def walkFuel (M : Meta) : Nat := 2 * M.max + 3

def walkC (M : Meta) (buf : Bytes) : Out (List WalkItem × PC) :=
  match mkC M buf with
  | .ok c => walkLoopC M (walkFuel M) c []
  | .throw e => .throw e
  | .fault s => .fault s

end Tins.RT
