import TinsModel.RadioTap.LemmasWriter
import TinsModel.RadioTap.LemmasLayout
/- Helper lemmas for C11, part 3: the parser walking the fields of the first present word of a well-aligned header
   `layL M F fs` (`F` = the present-word chain and the foreign bytes; `F = Frame.nil` is the canonical payload). -/
namespace Tins.RT

/-- parser positioned on the field with bit `b` that follows the fields `done` of the header `layL M F fs` -/
def stAt (M : Meta) (F : Frame) (fs done : List (Nat × Bytes)) (b : Nat) : Parser :=
  { buf := layL M F fs, null := false,
    ptr := encEnd M done F.base + padTo (M.align b) (encEnd M done F.base) - 4,
    bit := b, flags := (presentWord fs ||| F.hb) / 2 ^ b, ns := 0 }

/-- parser that has run out of fields on the header `layL M F fs` -/
def Ended (M : Meta) (F : Frame) (fs : List (Nat × Bytes)) (p : Parser) : Prop :=
  p.buf = layL M F fs ∧ p.null = false ∧ p.bit = M.max

/-- parser state after the fields `done`, with `rest` still ahead -/
def PAt (M : Meta) (F : Frame) (fs done rest : List (Nat × Bytes)) (p : Parser) : Prop :=
  match rest with
  | [] => Ended M F fs p
  | (b, _) :: _ => p = stAt M F fs done b

theorem skipUnset_spec (W max : Nat) :
    ∀ (fuel bit t : Nat), bit ≤ t → t ≤ max → (∀ c, bit ≤ c → c < t → W.testBit c = false) →
      (t < max → W.testBit t = true) → fuel ≥ t - bit + 1 →
      skipUnset fuel max (W / 2 ^ bit) bit = (W / 2 ^ t, t) := by
  intro fuel
  induction fuel with
  | zero => intro bit t _ _ _ _ hf; omega
  | succ f ih =>
    intro bit t hbt htm hclear hset hf
    unfold skipUnset
    by_cases heq : bit = t
    · subst heq
      by_cases hlt : bit < max
      · have := hset hlt
        have h1 : ¬ (W / 2 ^ bit % 2 = 0) := by
          rw [shifted_mod_two]; simp [this]
        simp [h1]
      · simp [hlt]
    · have hlt : bit < t := by omega
      have h0 : W / 2 ^ bit % 2 = 0 := by
        rw [shifted_mod_two]; exact hclear bit (Nat.le_refl _) hlt
      have hmax : bit < max := by omega
      simp only [h0, hmax, and_self, if_true]
      have : W / 2 ^ bit / 2 = W / 2 ^ (bit + 1) := by
        rw [Nat.div_div_eq_div_mul, Nat.pow_succ]
      rw [this]
      apply ih (bit + 1) t (by omega) htm
      · intro c hc hct; exact hclear c (by omega) hct
      · exact hset
      · omega

/-! ### facts about sorted field lists -/

theorem sorted_split {done todo : List (Nat × Bytes)} {x : Nat × Bytes} (h : Sorted (done ++ x :: todo)) :
    (∀ f ∈ done, f.1 < x.1) ∧ (∀ f ∈ todo, x.1 < f.1) ∧ Sorted todo := by
  unfold Sorted at h
  rw [List.pairwise_append] at h
  obtain ⟨_, h2, h3⟩ := h
  rw [List.pairwise_cons] at h2
  exact ⟨fun f hf => h3 f hf x (List.mem_cons_self ..), h2.1, h2.2⟩

theorem sized_mem {M : Meta} {fs : List (Nat × Bytes)} (h : Sized M fs) {done todo : List (Nat × Bytes)} {b : Nat} {v : Bytes}
    (hfs : fs = done ++ (b, v) :: todo) : b < M.max ∧ v.length = M.size b := by
  have := h (b, v) (by rw [hfs]; simp)
  simpa using this

/-- between the current field and the next one no present bit is set -/
theorem clear_between {done todo : List (Nat × Bytes)} {b : Nat} {v : Bytes}
    (hs : Sorted (done ++ (b, v) :: todo)) (c : Nat) (hbc : b < c) (hnext : ∀ f ∈ todo, c < f.1) :
    (presentWord (done ++ (b, v) :: todo)).testBit c = false := by
  rw [testBit_presentWord, Bool.eq_false_iff]
  intro hany
  rw [List.any_eq_true] at hany
  obtain ⟨f, hf, hfc⟩ := hany
  have hfc' : f.1 = c := by simpa using hfc
  obtain ⟨h1, _, _⟩ := sorted_split hs
  rw [List.mem_append, List.mem_cons] at hf
  rcases hf with hf | hf | hf
  · have := h1 f hf; simp at this; omega
  · subst hf; simp at hfc'; omega
  · have := hnext f hf; omega

theorem set_at {done todo : List (Nat × Bytes)} {b : Nat} {v : Bytes} :
    (presentWord (done ++ (b, v) :: todo)).testBit b = true := by
  rw [testBit_presentWord, List.any_eq_true]
  exact ⟨(b, v), by simp, by simp⟩

theorem canonL_length (M : Meta) (fs : List (Nat × Bytes)) : (canonL M fs).length + 4 = encEnd M fs 8 := by
  simp [canonL, le32, encEnd]; omega

theorem presentWord_small {M : Meta} (hwf : M.wf) {fs : List (Nat × Bytes)} (hsz : Sized M fs) :
    presentWord fs < 536870912 := presentWord_lt29 hwf hsz

/-! ### the parser on a well-aligned header -/

theorem hasFields_stAt {M : Meta} (hwf : M.wf) (F : Frame) {fs done todo : List (Nat × Bytes)} {b : Nat} {v : Bytes}
    (hfs : fs = done ++ (b, v) :: todo) (hsz : Sized M fs) : hasFields M (stAt M F fs done b) = true := by
  obtain ⟨hb, hv⟩ := sized_mem hsz hfs
  have hpos := (hwf.2 b hb).1
  have hlen := layL_length' M F fs
  have hend : encEnd M fs F.base = encEnd M todo (encEnd M done F.base + padTo (M.align b) (encEnd M done F.base) + v.length) := by
    rw [hfs, encEnd_append, encEnd_cons]
  have hle := le_encEnd M todo (encEnd M done F.base + padTo (M.align b) (encEnd M done F.base) + v.length)
  have h8 := le_encEnd M done F.base
  have hbase : 8 ≤ F.base := by simp [Frame.base]
  have h1 : (stAt M F fs done b).bit ≠ M.max := by simp only [stAt]; omega
  have h2 : (stAt M F fs done b).ptr < (stAt M F fs done b).buf.length := by simp only [stAt]; omega
  simp [hasFields, h1, h2]

theorem hasFields_ended {M : Meta} {F : Frame} {fs : List (Nat × Bytes)} {p : Parser} (h : Ended M F fs p) :
    hasFields M p = false := by
  simp [hasFields, h.2.2]

/-- `advance_to_next_field` from a state whose flags are the present word shifted by `bit`, when the next set
    bit is `t` -/
theorem advanceToNextField_to (M : Meta) (B : Bytes) (W ptr bit t ns : Nat) (hbt : bit ≤ t) (ht : t < M.max)
    (hclear : ∀ c, bit ≤ c → c < t → W.testBit c = false) (hset : W.testBit t = true) :
    advanceToNextField M { buf := B, null := false, ptr := ptr, bit := bit, flags := W / 2 ^ bit, ns := ns }
      = ({ buf := B, null := false, ptr := alignBuffer ptr (M.align t), bit := t, flags := W / 2 ^ t, ns := ns }, true) := by
  unfold advanceToNextField
  simp only
  rw [skipUnset_spec W M.max (M.max + 1) bit t hbt (by omega) hclear (fun _ => hset) (by omega)]
  simp [ht]

theorem advanceToNextField_end (M : Meta) (B : Bytes) (W ptr bit ns : Nat) (hb : bit ≤ M.max)
    (hclear : ∀ c, bit ≤ c → c < M.max → W.testBit c = false) :
    advanceToNextField M { buf := B, null := false, ptr := ptr, bit := bit, flags := W / 2 ^ bit, ns := ns }
      = ({ buf := B, null := false, ptr := ptr, bit := M.max, flags := W / 2 ^ M.max, ns := ns }, false) := by
  unfold advanceToNextField
  simp only
  rw [skipUnset_spec W M.max (M.max + 1) bit M.max hb (Nat.le_refl _) hclear (fun h => absurd h (Nat.lt_irrefl _)) (by omega)]
  simp

/-- `find_options_start` on a validated chain -/
theorem findOptionsStart_chain (buf : Bytes) (k : Nat) (hc : Chain buf k) : ∀ (fuel i total : Nat), i ≤ k →
    total + 4 * i = buf.length → k - i ≤ fuel → findOptionsStart (fuel + 1) buf total i = .ok (4 * k + 4) := by
  intro fuel
  induction fuel with
  | zero =>
    intro i total hi _ hf
    have : i = k := by omega
    subst this
    simp [findOptionsStart, hc.last]
  | succ fuel ih =>
    intro i total hi ht hf
    unfold findOptionsStart
    by_cases hik : i = k
    · subst hik
      simp [hc.last]
    · have hinb := hc.inb
      have h4 : ¬ (total - 4 < 4) := by omega
      simp only [hc.exts i (by omega), if_true, h4, if_false]
      exact ih (i + 1) (total - 4) (by omega) (by omega) (by omega)

theorem layL_nonempty (M : Meta) (F : Frame) (fs : List (Nat × Bytes)) : (layL M F fs).isEmpty = false := by
  simp [layL, le32]

/-- the fields of the first present word are exhausted and the last present word announces no field: the namespace
    switch of `advance_field()` ends the walk -/
theorem nextNamespaceField_inert {M : Meta} (hwf : M.wf) {F : Frame} (hF : F.ok M) (hin : F.inert M)
    {fs : List (Nat × Bytes)} (hsz : Sized M fs) (ptr flags : Nat) :
    (nextNamespaceField M { buf := layL M F fs, null := false, ptr := ptr, bit := M.max, flags := flags, ns := 0 }).2 = false ∧
    Ended M F fs (nextNamespaceField M { buf := layL M F fs, null := false, ptr := ptr, bit := M.max, flags := flags, ns := 0 }).1 := by
  have hc := chain_layL hwf hF hsz
  have hwalk : nsWalk ((layL M F fs).length / 4 + 1) (layL M F fs) 0 = F.k :=
    nsWalk_spec _ _ hc _ _ (Nat.zero_le _) (by have := hc.inb; omega)
  unfold nextNamespaceField advanceToNextNamespace
  simp only [hwalk]
  by_cases hk : F.k = 0
  · simp only [hk, bne_self_eq_false, Bool.not_false, if_true]
    exact ⟨trivial, rfl, rfl, rfl⟩
  · have hne : (F.k != 0) = true := by simp [hk]
    simp only [hne, Bool.not_true, Bool.false_eq_true, if_false]
    have hkpos : 0 < F.k := by omega
    rw [read32_layL_last hF fs hkpos]
    have hend := advanceToNextField_end M (layL M F fs) F.lastWord ptr 0 F.k (Nat.zero_le _)
      (fun c _ hc' => hin hkpos c hc')
    simp only [Nat.pow_zero, Nat.div_one] at hend
    simp only [hend, Bool.not_false, if_true]
    exact ⟨trivial, rfl, rfl, rfl⟩

/-- parser construction on a well-aligned header -/
theorem mk_layL {M : Meta} (hwf : M.wf) {F : Frame} (hF : F.ok M) {fs : List (Nat × Bytes)} (hso : Sorted fs) (hsz : Sized M fs) :
    ∃ p, Parser.mk' M (layL M F fs) = .ok p ∧ PAt M F fs [] fs p ∧ (fs = [] → p.ptr + 4 = F.base) ∧
      p.buf = layL M F fs ∧ p.null = false ∧ p.ns = 0 := by
  have hc := chain_layL hwf hF hsz
  have hw := wsb_length hF
  have hfos : findOptionsStart ((layL M F fs).length / 4 + 1) (layL M F fs) (layL M F fs).length 0 = .ok (4 * F.k + 4) :=
    findOptionsStart_chain _ _ hc _ 0 _ (Nat.zero_le _) (by omega) (by have := hc.inb; omega)
  have hl4 : ¬ (layL M F fs).length < 4 := by rw [layL_length]; omega
  unfold Parser.mk'
  simp only [layL_nonempty, hl4, hfos, if_false, Bool.false_eq_true]
  have hW : read32 (layL M F fs) 0 = (presentWord fs ||| F.hb) / 2 ^ 0 := by simp [read32_layL0 hwf hF hsz]
  rw [hW]
  cases hfs : fs with
  | nil =>
    rw [advanceToNextField_end M _ _ _ 0 0 (Nat.zero_le _)]
    · refine ⟨_, rfl, ⟨rfl, rfl, rfl⟩, fun _ => ?_, rfl, rfl, rfl⟩
      simp only [Frame.base]; omega
    · intro c _ hcm
      rw [W_testBit hF _ c hcm]
      simp [testBit_presentWord]
  | cons x todo =>
    obtain ⟨b, v⟩ := x
    have hfs' : fs = [] ++ (b, v) :: todo := by simpa using hfs
    obtain ⟨hb, hv⟩ := sized_mem hsz hfs'
    have hal := (hwf.2 b hb).2
    have hs' : Sorted ([] ++ (b, v) :: todo) := by rw [← hfs']; exact hso
    rw [advanceToNextField_to M _ _ _ 0 b 0 (Nat.zero_le _) hb]
    · refine ⟨_, rfl, ?_, fun h => by simp at h, rfl, rfl, rfl⟩
      simp only [PAt, stAt, encEnd_nil, alignBuffer_eq _ _ hal, Frame.base, hw]
      congr 1
      · have : 4 * F.k + 4 + 4 = 8 + 4 * F.k := by omega
        rw [this]; omega
    · intro c _ hcb
      rw [W_testBit hF _ c (by omega), testBit_presentWord, Bool.eq_false_iff]
      intro hany
      rw [List.any_eq_true] at hany
      obtain ⟨f, hf, hfc⟩ := hany
      have hfc' : f.1 = c := by simpa using hfc
      rw [List.mem_cons] at hf
      rcases hf with hf | hf
      · subst hf; simp at hfc'; omega
      · have := (sorted_split hs').2.1 f hf; simp at this; omega
    · rw [W_testBit hF _ b hb]
      have : (b, v) :: todo = [] ++ (b, v) :: todo := rfl
      rw [this]; exact set_at

/-- one `advance_field` on a well-aligned header moves from a field of the first present word to the next one, or —
    the last present word announcing no field — ends -/
theorem advanceField_step {M : Meta} (hwf : M.wf) {F : Frame} (hF : F.ok M) {fs done rest : List (Nat × Bytes)} {b : Nat} {v : Bytes}
    (hfs : fs = done ++ (b, v) :: rest) (hso : Sorted fs) (hsz : Sized M fs) (hin : rest = [] → F.inert M) :
    PAt M F fs (done ++ [(b, v)]) rest (advanceField M (stAt M F fs done b)).1 := by
  obtain ⟨hb, hv⟩ := sized_mem hsz hfs
  have hso' : Sorted (done ++ (b, v) :: rest) := by rw [← hfs]; exact hso
  obtain ⟨hlo, hhi, hsr⟩ := sorted_split hso'
  have h8 := le_encEnd M done F.base
  have hbase : 8 ≤ F.base := by simp [Frame.base]
  have hnb : (b == M.max) = false := by simp; omega
  have hshift : (presentWord fs ||| F.hb) / 2 ^ b / 2 = (presentWord fs ||| F.hb) / 2 ^ (b + 1) := by
    rw [Nat.div_div_eq_div_mul, Nat.pow_succ]
  rw [advanceField_eq]
  have hn : (stAt M F fs done b).null = false := rfl
  have hbit : ((stAt M F fs done b).bit == M.max) = false := hnb
  simp only [hn, hbit, Bool.false_or, Bool.false_eq_true, if_false]
  cases rest with
  | nil =>
    -- last field of the first present word
    have hadv : skipCurrentField M (stAt M F fs done b)
        = ((⟨layL M F fs, false, (stAt M F fs done b).ptr + M.size b, M.max, (presentWord fs ||| F.hb) / 2 ^ M.max, 0⟩ : Parser),
           false) := by
      unfold skipCurrentField
      simp only [stAt, hshift]
      apply advanceToNextField_end M _ _ _ _ _ (by omega)
      intro c hc hcm
      rw [hfs, W_testBit hF _ c hcm]
      exact clear_between hso' c (by omega) (fun f hf => by simp at hf)
    simp only [hadv, Bool.false_eq_true, if_false]
    exact (nextNamespaceField_inert hwf hF (hin rfl) hsz _ _).2
  | cons x rest' =>
    obtain ⟨b', v'⟩ := x
    have hb' : b < b' := by have := hhi (b', v') (List.mem_cons_self ..); simpa using this
    have hfs2 : fs = (done ++ [(b, v)]) ++ (b', v') :: rest' := by rw [hfs]; simp
    obtain ⟨hbm', _⟩ := sized_mem hsz hfs2
    have hal' := (hwf.2 b' hbm').2
    have hadv : skipCurrentField M (stAt M F fs done b) = (stAt M F fs (done ++ [(b, v)]) b', true) := by
      unfold skipCurrentField
      simp only [stAt, hshift]
      rw [advanceToNextField_to M _ _ _ (b + 1) b' 0 (by omega) hbm']
      · simp only [alignBuffer_eq _ _ hal', encEnd_snoc, hv]
        have hE : encEnd M done F.base + padTo (M.align b) (encEnd M done F.base) - 4 + M.size b + 4
            = encEnd M done F.base + padTo (M.align b) (encEnd M done F.base) + M.size b := by omega
        rw [hE]
        congr 2
        omega
      · intro c hc hct
        rw [hfs, W_testBit hF _ c (by omega)]
        apply clear_between hso' c (by omega)
        intro f hf
        rw [List.mem_cons] at hf
        rcases hf with hf | hf
        · subst hf; exact hct
        · have hso2 : Sorted ((done ++ [(b, v)]) ++ (b', v') :: rest') := by rw [← hfs2]; exact hso
          have := (sorted_split hso2).2.1 f hf
          simp at this; omega
      · rw [hfs2, W_testBit hF _ b' hbm']; exact set_at
    simp only [hadv, if_true]
    rfl

end Tins.RT
