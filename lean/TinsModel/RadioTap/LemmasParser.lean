import TinsModel.RadioTap.LemmasWriter
/- Helper lemmas for C11, part 3: the parser walking a canonical payload. -/
namespace Tins.RT

/-- parser positioned on the field with bit `b` that follows the fields `done` of the canonical payload of `fs` -/
def stAt (M : Meta) (fs done : List (Nat × Bytes)) (b : Nat) : Parser :=
  { buf := canonL M fs, null := false,
    ptr := encEnd M done 8 + padTo (M.align b) (encEnd M done 8) - 4,
    bit := b, flags := presentWord fs / 2 ^ b, ns := 0 }

/-- parser that has run out of fields on the canonical payload of `fs` -/
def Ended (M : Meta) (fs : List (Nat × Bytes)) (p : Parser) : Prop :=
  p.buf = canonL M fs ∧ p.null = false ∧ p.ns = 0 ∧ p.bit = M.max

/-- parser state after the fields `done`, with `rest` still ahead -/
def PAt (M : Meta) (fs done rest : List (Nat × Bytes)) (p : Parser) : Prop :=
  match rest with
  | [] => Ended M fs p
  | (b, _) :: _ => p = stAt M fs done b

theorem skipUnset_spec (W max : Nat) :
    ∀ (fuel bit t : Nat), bit ≤ t → t ≤ max → (∀ c, bit ≤ c → c < t → W.testBit c = false) →
      (t < max → W.testBit t = true) → fuel ≥ t - bit + 1 →
      skipUnset fuel max (W / 2 ^ bit) bit = (W / 2 ^ t, t) := by
  intro fuel
  induction fuel with
  | zero => intro bit t _ _ _ _ hf; omega
  | succ f ih =>
    intro bit t hbt htm hclear hset hf
    unfold skipUnset
    by_cases heq : bit = t
    · subst heq
      by_cases hlt : bit < max
      · have := hset hlt
        have h1 : ¬ (W / 2 ^ bit % 2 = 0) := by
          rw [shifted_mod_two]; simp [this]
        simp [h1]
      · simp [hlt]
    · have hlt : bit < t := by omega
      have h0 : W / 2 ^ bit % 2 = 0 := by
        rw [shifted_mod_two]; exact hclear bit (Nat.le_refl _) hlt
      have hmax : bit < max := by omega
      simp only [h0, hmax, and_self, if_true]
      have : W / 2 ^ bit / 2 = W / 2 ^ (bit + 1) := by
        rw [Nat.div_div_eq_div_mul, Nat.pow_succ]
      rw [this]
      apply ih (bit + 1) t (by omega) htm
      · intro c hc hct; exact hclear c (by omega) hct
      · exact hset
      · omega

/-! ### facts about sorted field lists -/

theorem sorted_split {done todo : List (Nat × Bytes)} {x : Nat × Bytes} (h : Sorted (done ++ x :: todo)) :
    (∀ f ∈ done, f.1 < x.1) ∧ (∀ f ∈ todo, x.1 < f.1) ∧ Sorted todo := by
  unfold Sorted at h
  rw [List.pairwise_append] at h
  obtain ⟨_, h2, h3⟩ := h
  rw [List.pairwise_cons] at h2
  exact ⟨fun f hf => h3 f hf x (List.mem_cons_self ..), h2.1, h2.2⟩

theorem sized_mem {M : Meta} {fs : List (Nat × Bytes)} (h : Sized M fs) {done todo : List (Nat × Bytes)} {b : Nat} {v : Bytes}
    (hfs : fs = done ++ (b, v) :: todo) : b < M.max ∧ v.length = M.size b := by
  have := h (b, v) (by rw [hfs]; simp)
  simpa using this

/-- between the current field and the next one no present bit is set -/
theorem clear_between {done todo : List (Nat × Bytes)} {b : Nat} {v : Bytes}
    (hs : Sorted (done ++ (b, v) :: todo)) (c : Nat) (hbc : b < c) (hnext : ∀ f ∈ todo, c < f.1) :
    (presentWord (done ++ (b, v) :: todo)).testBit c = false := by
  rw [testBit_presentWord, Bool.eq_false_iff]
  intro hany
  rw [List.any_eq_true] at hany
  obtain ⟨f, hf, hfc⟩ := hany
  have hfc' : f.1 = c := by simpa using hfc
  obtain ⟨h1, _, _⟩ := sorted_split hs
  rw [List.mem_append, List.mem_cons] at hf
  rcases hf with hf | hf | hf
  · have := h1 f hf; simp at this; omega
  · subst hf; simp at hfc'; omega
  · have := hnext f hf; omega

theorem set_at {done todo : List (Nat × Bytes)} {b : Nat} {v : Bytes} :
    (presentWord (done ++ (b, v) :: todo)).testBit b = true := by
  rw [testBit_presentWord, List.any_eq_true]
  exact ⟨(b, v), by simp, by simp⟩

theorem canonL_length (M : Meta) (fs : List (Nat × Bytes)) : (canonL M fs).length + 4 = encEnd M fs 8 := by
  simp [canonL, le32, encEnd]; omega

theorem presentWord_small {M : Meta} (hwf : M.wf) {fs : List (Nat × Bytes)} (hsz : Sized M fs) :
    presentWord fs < 536870912 := by
  have h1 : presentWord fs < 2 ^ M.max := presentWord_lt fs M.max (fun f hf => (hsz f hf).1)
  have h2 : 2 ^ M.max ≤ 2 ^ 29 := Nat.pow_le_pow_right (by omega) hwf.1
  have : (2 : Nat) ^ 29 = 536870912 := by decide
  omega

theorem read32_canonL {M : Meta} (hwf : M.wf) {fs : List (Nat × Bytes)} (hsz : Sized M fs) :
    read32 (canonL M fs) 0 = presentWord fs := by
  have := presentWord_small hwf hsz
  unfold canonL
  rw [read32_le32]
  omega

theorem ext_canonL {M : Meta} (hwf : M.wf) {fs : List (Nat × Bytes)} (hsz : Sized M fs) :
    extSet (read32 (canonL M fs) (4 * 0)) = false := by
  have := presentWord_small hwf hsz
  simp only [Nat.mul_zero, read32_canonL hwf hsz, extSet]
  have : presentWord fs / 2147483648 = 0 := by omega
  simp [this]

/-! ### the parser on a canonical payload -/

theorem hasFields_stAt {M : Meta} (hwf : M.wf) {fs done todo : List (Nat × Bytes)} {b : Nat} {v : Bytes}
    (hfs : fs = done ++ (b, v) :: todo) (hsz : Sized M fs) : hasFields M (stAt M fs done b) = true := by
  obtain ⟨hb, hv⟩ := sized_mem hsz hfs
  have hpos := (hwf.2 b hb).1
  have hlen := canonL_length M fs
  have hend : encEnd M fs 8 = encEnd M todo (encEnd M done 8 + padTo (M.align b) (encEnd M done 8) + v.length) := by
    rw [hfs, encEnd_append, encEnd_cons]
  have hle := le_encEnd M todo (encEnd M done 8 + padTo (M.align b) (encEnd M done 8) + v.length)
  have h8 := le_encEnd M done 8
  have h1 : (stAt M fs done b).bit ≠ M.max := by simp only [stAt]; omega
  have h2 : (stAt M fs done b).ptr < (stAt M fs done b).buf.length := by simp only [stAt]; omega
  simp [hasFields, h1, h2]

theorem hasFields_ended {M : Meta} {fs : List (Nat × Bytes)} {p : Parser} (h : Ended M fs p) : hasFields M p = false := by
  simp [hasFields, h.2.2.2]

/-- `advance_to_next_field` from a state whose flags are the present word shifted by `bit`, when the next set
    bit is `t` -/
theorem advanceToNextField_to (M : Meta) (B : Bytes) (W ptr bit t : Nat) (hbt : bit ≤ t) (ht : t < M.max)
    (hclear : ∀ c, bit ≤ c → c < t → W.testBit c = false) (hset : W.testBit t = true) :
    advanceToNextField M { buf := B, null := false, ptr := ptr, bit := bit, flags := W / 2 ^ bit, ns := 0 }
      = ({ buf := B, null := false, ptr := alignBuffer ptr (M.align t), bit := t, flags := W / 2 ^ t, ns := 0 }, true) := by
  unfold advanceToNextField
  simp only
  rw [skipUnset_spec W M.max (M.max + 1) bit t hbt (by omega) hclear (fun _ => hset) (by omega)]
  simp [ht]

theorem advanceToNextField_end (M : Meta) (B : Bytes) (W ptr bit : Nat) (hb : bit ≤ M.max)
    (hclear : ∀ c, bit ≤ c → c < M.max → W.testBit c = false) :
    advanceToNextField M { buf := B, null := false, ptr := ptr, bit := bit, flags := W / 2 ^ bit, ns := 0 }
      = ({ buf := B, null := false, ptr := ptr, bit := M.max, flags := W / 2 ^ M.max, ns := 0 }, false) := by
  unfold advanceToNextField
  simp only
  rw [skipUnset_spec W M.max (M.max + 1) bit M.max hb (Nat.le_refl _) hclear (fun h => absurd h (Nat.lt_irrefl _)) (by omega)]
  simp

theorem mk_nonempty {M : Meta} (hwf : M.wf) {fs todo : List (Nat × Bytes)} {b : Nat} {v : Bytes}
    (hfs : fs = (b, v) :: todo) (hso : Sorted fs) (hsz : Sized M fs) :
    Parser.mk' M (canonL M fs) = .ok (stAt M fs [] b) := by
  have hfs' : fs = [] ++ (b, v) :: todo := by simpa using hfs
  obtain ⟨hb, hv⟩ := sized_mem hsz hfs'
  have hal := (hwf.2 b hb).2
  have hlen := canonL_length M fs
  have h8 := le_encEnd M fs 8
  have hne : (canonL M fs).isEmpty = false := by
    cases h : canonL M fs with
    | nil => rw [h] at hlen; simp at hlen; omega
    | cons _ _ => rfl
  have hfos : findOptionsStart ((canonL M fs).length / 4 + 1) (canonL M fs) (canonL M fs).length 0 = .ok 4 := by
    unfold findOptionsStart
    simp [ext_canonL hwf hsz]
  unfold Parser.mk'
  have hl4 : ¬ (canonL M fs).length < 4 := by omega
  simp only [hne, hl4, hfos, if_false, Bool.false_eq_true]
  have hW : read32 (canonL M fs) 0 = presentWord fs / 2 ^ 0 := by simp [read32_canonL hwf hsz]
  rw [hW]
  have hs' : Sorted ([] ++ (b, v) :: todo) := by rw [← hfs']; exact hso
  rw [advanceToNextField_to M (canonL M fs) (presentWord fs) 4 0 b (Nat.zero_le _) hb]
  · simp only [stAt, encEnd_nil, alignBuffer_eq _ _ hal, padTo_eight _ hal]
  · intro c _ hc
    rw [testBit_presentWord, Bool.eq_false_iff]
    intro hany
    rw [List.any_eq_true] at hany
    obtain ⟨f, hf, hfc⟩ := hany
    have hfc' : f.1 = c := by simpa using hfc
    rw [hfs, List.mem_cons] at hf
    rcases hf with hf | hf
    · subst hf; simp at hfc'; omega
    · have := (sorted_split hs').2.1 f hf; simp at this; omega
  · rw [hfs']; exact set_at

theorem mk_empty {M : Meta} (hwf : M.wf) :
    ∃ p, Parser.mk' M (canonL M []) = .ok p ∧ Ended M [] p ∧ p.ptr = 4 := by
  have hsz : Sized M [] := fun f hf => by simp at hf
  have hfos : findOptionsStart ((canonL M []).length / 4 + 1) (canonL M []) (canonL M []).length 0 = .ok 4 := by
    unfold findOptionsStart
    simp [ext_canonL hwf hsz]
  have hlen : (canonL M []).length = 4 := by simp [canonL, le32, enc]
  have hne : (canonL M []).isEmpty = false := by
    cases h : canonL M [] with
    | nil => rw [h] at hlen; simp at hlen
    | cons _ _ => rfl
  unfold Parser.mk'
  have hl4 : ¬ (canonL M []).length < 4 := by omega
  simp only [hne, hl4, hfos, if_false, Bool.false_eq_true]
  have hW : read32 (canonL M []) 0 = presentWord [] / 2 ^ 0 := by simp [read32_canonL hwf hsz]
  rw [hW, advanceToNextField_end M (canonL M []) (presentWord []) 4 0 (Nat.zero_le _)]
  · exact ⟨_, rfl, ⟨rfl, rfl, rfl, rfl⟩, rfl⟩
  · intro c _ _
    simp [testBit_presentWord]

/-- one `advance_field` on a canonical payload moves from a field to the next one, or ends -/
theorem advanceField_step {M : Meta} (hwf : M.wf) {fs done rest : List (Nat × Bytes)} {b : Nat} {v : Bytes}
    (hfs : fs = done ++ (b, v) :: rest) (hso : Sorted fs) (hsz : Sized M fs) :
    PAt M fs (done ++ [(b, v)]) rest (advanceField M (stAt M fs done b)).1 := by
  obtain ⟨hb, hv⟩ := sized_mem hsz hfs
  have hso' : Sorted (done ++ (b, v) :: rest) := by rw [← hfs]; exact hso
  obtain ⟨hlo, hhi, hsr⟩ := sorted_split hso'
  have h8 := le_encEnd M done 8
  have hnb : (b == M.max) = false := by simp; omega
  have hshift : presentWord fs / 2 ^ b / 2 = presentWord fs / 2 ^ (b + 1) := by
    rw [Nat.div_div_eq_div_mul, Nat.pow_succ]
  cases rest with
  | nil =>
    -- last field: the present word is exhausted, there is no further namespace
    have hadv : skipCurrentField M (stAt M fs done b)
        = ((⟨canonL M fs, false, (stAt M fs done b).ptr + M.size b, M.max, presentWord fs / 2 ^ M.max, 0⟩ : Parser),
           false) := by
      unfold skipCurrentField
      simp only [stAt, hshift]
      apply advanceToNextField_end M _ _ _ _ (by omega)
      intro c hc _
      rw [hfs]
      exact clear_between hso' c (by omega) (fun f hf => by simp at hf)
    have hns : advanceToNextNamespace
        (⟨canonL M fs, false, (stAt M fs done b).ptr + M.size b, M.max, presentWord fs / 2 ^ M.max, 0⟩ : Parser)
        = ((⟨canonL M fs, false, (stAt M fs done b).ptr + M.size b, M.max, read32 (canonL M fs) (4 * 0), 0⟩ : Parser),
           false) := by
      unfold advanceToNextNamespace
      have hw : nsWalk ((canonL M fs).length / 4 + 1) (canonL M fs) 0 = 0 := by
        unfold nsWalk
        simp [ext_canonL hwf hsz]
      simp [hw]
    unfold advanceField
    simp only [stAt, hnb, Bool.false_or, Bool.false_eq_true, if_false] at hadv ⊢
    simp only [hadv, Bool.false_eq_true, if_false]
    simp only [stAt] at hns
    simp only [hns, Bool.not_false, if_true]
    exact ⟨rfl, rfl, rfl, rfl⟩
  | cons x rest' =>
    obtain ⟨b', v'⟩ := x
    have hb' : b < b' := by have := hhi (b', v') (List.mem_cons_self ..); simpa using this
    have hfs2 : fs = (done ++ [(b, v)]) ++ (b', v') :: rest' := by rw [hfs]; simp
    obtain ⟨hbm', _⟩ := sized_mem hsz hfs2
    have hal' := (hwf.2 b' hbm').2
    have hadv : skipCurrentField M (stAt M fs done b) = (stAt M fs (done ++ [(b, v)]) b', true) := by
      unfold skipCurrentField
      simp only [stAt, hshift]
      rw [advanceToNextField_to M _ _ _ (b + 1) b' (by omega) hbm']
      · simp only [alignBuffer_eq _ _ hal', encEnd_snoc, hv]
        have hE : encEnd M done 8 + padTo (M.align b) (encEnd M done 8) - 4 + M.size b + 4
            = encEnd M done 8 + padTo (M.align b) (encEnd M done 8) + M.size b := by omega
        rw [hE]
        congr 2
        omega
      · intro c hc hct
        rw [hfs]
        apply clear_between hso' c (by omega)
        intro f hf
        rw [List.mem_cons] at hf
        rcases hf with hf | hf
        · subst hf; exact hct
        · have hso2 : Sorted ((done ++ [(b, v)]) ++ (b', v') :: rest') := by rw [← hfs2]; exact hso
          have := (sorted_split hso2).2.1 f hf
          simp at this; omega
      · rw [hfs2]; exact set_at
    unfold advanceField
    have hn : (stAt M fs done b).null = false := rfl
    have hbit : ((stAt M fs done b).bit == M.max) = false := hnb
    simp only [hn, hbit, Bool.false_or, Bool.false_eq_true, if_false, hadv, if_true]
    rfl

end Tins.RT
