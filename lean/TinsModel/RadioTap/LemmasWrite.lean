import TinsModel.RadioTap.LemmasParser
/- Helper lemmas for C11, part 4: `write_option` on a canonical payload. -/
namespace Tins.RT

theorem PAt_has {M : Meta} (hwf : M.wf) {fs done rest : List (Nat × Bytes)} {b : Nat} {v : Bytes}
    (hfs : fs = done ++ (b, v) :: rest) (hsz : Sized M fs) : hasFields M (stAt M fs done b) = true :=
  hasFields_stAt hwf hfs hsz

/-- the search loop skips the lower fields `lo` and stops in front of the higher ones -/
theorem searchLoop_insert {M : Meta} (hwf : M.wf) {fs : List (Nat × Bytes)} (hso : Sorted fs) (hsz : Sized M fs)
    (bit dl : Nat) (hi : List (Nat × Bytes)) (hhi : ∀ f ∈ hi, bit < f.1) :
    ∀ (lo done : List (Nat × Bytes)) (p : Parser) (cand fuel : Nat),
      fs = done ++ (lo ++ hi) → (∀ f ∈ lo, f.1 < bit) → PAt M fs done (lo ++ hi) p → cand + 4 = encEnd M done 8 →
      fuel > lo.length →
      ∃ p', PAt M fs (done ++ lo) hi p' ∧
        searchLoop M fuel p bit dl cand = .insertAt p' (encEnd M (done ++ lo) 8 - 4) := by
  intro lo
  induction lo with
  | nil =>
    intro done p cand fuel hfs _ hp hc hf
    cases fuel with
    | zero => omega
    | succ f =>
      simp only [List.nil_append, List.append_nil] at hfs hp ⊢
      refine ⟨p, hp, ?_⟩
      have hcand : encEnd M done 8 - 4 = cand := by omega
      cases hi with
      | nil =>
        have := hasFields_ended hp
        simp [searchLoop, this, hcand]
      | cons x hi' =>
        obtain ⟨b', v'⟩ := x
        simp only [PAt] at hp
        subst hp
        have hh := hasFields_stAt hwf hfs hsz
        have hgt : bit < b' := by have := hhi (b', v') (List.mem_cons_self ..); simpa using this
        have hbit : (stAt M fs done b').bit = b' := rfl
        simp [searchLoop, hh, hbit, hgt, hcand]
  | cons x lo' ih =>
    obtain ⟨b1, v1⟩ := x
    intro done p cand fuel hfs hlo hp hc hf
    cases fuel with
    | zero => simp at hf
    | succ f =>
      simp only [List.cons_append, PAt] at hfs hp
      subst hp
      have hh := hasFields_stAt hwf hfs hsz
      have hlt : b1 < bit := by have := hlo (b1, v1) (List.mem_cons_self ..); simpa using this
      have hbit : (stAt M fs done b1).bit = b1 := rfl
      have hngt : ¬ (b1 > bit) := by omega
      have hne : ¬ (b1 = bit) := by omega
      obtain ⟨_, hv1⟩ := sized_mem hsz hfs
      have h8 := le_encEnd M done 8
      have hstep := advanceField_step hwf hfs hso hsz
      have hfs2 : fs = (done ++ [(b1, v1)]) ++ (lo' ++ hi) := by rw [hfs]; simp
      obtain ⟨p', hp', hres⟩ := ih (done ++ [(b1, v1)]) (advanceField M (stAt M fs done b1)).1
        ((stAt M fs done b1).ptr + M.size b1) f hfs2
        (fun g hg => hlo g (List.mem_cons_of_mem _ hg)) hstep
        (by simp only [stAt, encEnd_snoc, hv1]; omega) (by simp at hf; omega)
      refine ⟨p', by simpa using hp', ?_⟩
      unfold searchLoop
      simp only [hh, hbit, hngt, hne, if_true, if_false]
      rw [hres]
      simp

/-- the search loop finds a field that is present -/
theorem searchLoop_found {M : Meta} (hwf : M.wf) {fs : List (Nat × Bytes)} (hso : Sorted fs) (hsz : Sized M fs)
    (bit dl : Nat) (old : Bytes) (hi : List (Nat × Bytes)) (hdl : dl ≤ old.length) :
    ∀ (lo done : List (Nat × Bytes)) (p : Parser) (cand fuel : Nat),
      fs = done ++ (lo ++ (bit, old) :: hi) → (∀ f ∈ lo, f.1 < bit) → PAt M fs done (lo ++ (bit, old) :: hi) p →
      fuel > lo.length →
      searchLoop M fuel p bit dl cand = .found (stAt M fs (done ++ lo) bit) := by
  intro lo
  induction lo with
  | nil =>
    intro done p cand fuel hfs _ hp hf
    cases fuel with
    | zero => omega
    | succ f =>
      simp only [List.nil_append, List.append_nil, PAt] at hfs hp ⊢
      subst hp
      have hh := hasFields_stAt hwf hfs hsz
      have hbit : (stAt M fs done bit).bit = bit := rfl
      have hlen := canonL_length M fs
      have hend : encEnd M fs 8 = encEnd M hi (encEnd M done 8 + padTo (M.align bit) (encEnd M done 8) + old.length) := by
        rw [hfs, encEnd_append, encEnd_cons]
      have hle := le_encEnd M hi (encEnd M done 8 + padTo (M.align bit) (encEnd M done 8) + old.length)
      have h8 := le_encEnd M done 8
      have hav : ¬ (dl > (stAt M fs done bit).buf.length - (stAt M fs done bit).ptr) := by
        simp only [stAt]; omega
      unfold searchLoop
      simp [hh, hbit, hav]
  | cons x lo' ih =>
    obtain ⟨b1, v1⟩ := x
    intro done p cand fuel hfs hlo hp hf
    cases fuel with
    | zero => simp at hf
    | succ f =>
      simp only [List.cons_append, PAt] at hfs hp
      subst hp
      have hh := hasFields_stAt hwf hfs hsz
      have hlt : b1 < bit := by have := hlo (b1, v1) (List.mem_cons_self ..); simpa using this
      have hbit : (stAt M fs done b1).bit = b1 := rfl
      have hngt : ¬ (b1 > bit) := by omega
      have hne : ¬ (b1 = bit) := by omega
      have hstep := advanceField_step hwf hfs hso hsz
      have hfs2 : fs = (done ++ [(b1, v1)]) ++ (lo' ++ (bit, old) :: hi) := by rw [hfs]; simp
      have hres := ih (done ++ [(b1, v1)]) (advanceField M (stAt M fs done b1)).1
        ((stAt M fs done b1).ptr + M.size b1) f hfs2
        (fun g hg => hlo g (List.mem_cons_of_mem _ hg)) hstep (by simp at hf; omega)
      unfold searchLoop
      simp only [hh, hbit, hngt, hne, if_true, if_false]
      rw [hres]
      simp

/-- `build_padding_vector` describes exactly the remaining fields -/
theorem buildPaddingVector_spec {M : Meta} (hwf : M.wf) {fs : List (Nat × Bytes)} (hso : Sorted fs) (hsz : Sized M fs) :
    ∀ (rest done : List (Nat × Bytes)) (p : Parser) (last fuel : Nat),
      fs = done ++ rest → PAt M fs done rest p → last + 4 = encEnd M done 8 → fuel > rest.length →
      buildPaddingVector M fuel p last = descL M rest (encEnd M done 8) := by
  intro rest
  induction rest with
  | nil =>
    intro done p last fuel _ hp _ hf
    cases fuel with
    | zero => omega
    | succ f =>
      have := hasFields_ended hp
      simp [buildPaddingVector, this, descL]
  | cons x rest' ih =>
    obtain ⟨b, v⟩ := x
    intro done p last fuel hfs hp hl hf
    cases fuel with
    | zero => simp at hf
    | succ f =>
      simp only [PAt] at hp
      subst hp
      have hh := hasFields_stAt hwf hfs hsz
      obtain ⟨_, hv⟩ := sized_mem hsz hfs
      have h8 := le_encEnd M done 8
      have hstep := advanceField_step hwf hfs hso hsz
      have hfs2 : fs = (done ++ [(b, v)]) ++ rest' := by rw [hfs]; simp
      have hres := ih (done ++ [(b, v)]) (advanceField M (stAt M fs done b)).1
        ((stAt M fs done b).ptr + M.size b) f hfs2 hstep
        (by simp only [stAt, encEnd_snoc, hv]; omega) (by simp at hf; omega)
      have hpad : (stAt M fs done b).ptr - last = padTo (M.align b) (encEnd M done 8) := by
        simp only [stAt]; omega
      have hbit : (stAt M fs done b).bit = b := rfl
      unfold buildPaddingVector
      simp only [hh, if_true, descL]
      rw [hpad, hbit, hres, encEnd_snoc]

theorem sorted_length_le (n : Nat) : ∀ (fs : List (Nat × Bytes)) (a : Nat), a ≤ n → Sorted fs →
    (∀ f ∈ fs, a ≤ f.1 ∧ f.1 < n) → fs.length + a ≤ n := by
  intro fs
  induction fs with
  | nil => intro a ha _ _; simpa using ha
  | cons x r ih =>
    intro a ha hs hb
    have hx := hb x (List.mem_cons_self ..)
    unfold Sorted at hs
    rw [List.pairwise_cons] at hs
    have := ih (x.1 + 1) (by omega) hs.2 (fun f hf => ⟨by have := hs.1 f hf; omega, (hb f (List.mem_cons_of_mem _ hf)).2⟩)
    simp only [List.length_cons]
    omega

theorem length_lt_loopFuel {M : Meta} {fs : List (Nat × Bytes)} (hso : Sorted fs) (hsz : Sized M fs) (buf : Bytes) :
    fs.length < loopFuel M buf := by
  have h := sorted_length_le M.max fs 0 (Nat.zero_le _) hso (fun f hf => ⟨Nat.zero_le _, (hsz f hf).1⟩)
  unfold loopFuel
  have : (M.max + 1) * 1 ≤ (M.max + 1) * (buf.length / 4 + 2) := Nat.mul_le_mul_left _ (by omega)
  omega

theorem sorted_append_left {xs ys : List (Nat × Bytes)} (h : Sorted (xs ++ ys)) : Sorted xs := by
  unfold Sorted at h ⊢
  rw [List.pairwise_append] at h
  exact h.1

theorem sorted_append_right {xs ys : List (Nat × Bytes)} (h : Sorted (xs ++ ys)) : Sorted ys := by
  unfold Sorted at h ⊢
  rw [List.pairwise_append] at h
  exact h.2.1

theorem sized_append_left {M : Meta} {xs ys : List (Nat × Bytes)} (h : Sized M (xs ++ ys)) : Sized M xs :=
  fun f hf => h f (List.mem_append_left _ hf)

theorem sized_append_right {M : Meta} {xs ys : List (Nat × Bytes)} (h : Sized M (xs ++ ys)) : Sized M ys :=
  fun f hf => h f (List.mem_append_right _ hf)

theorem canonL_nonempty (M : Meta) (fs : List (Nat × Bytes)) : (canonL M fs).isEmpty = false := by
  simp [canonL, le32]

/-- `write_option` of a field that is not yet present, on the canonical payload of `lo ++ hi` -/
theorem writeOption_insert {M : Meta} (hwf : M.wf) (lo hi : List (Nat × Bytes)) (bit : Nat) (data : Bytes)
    (hso : Sorted (lo ++ (bit, data) :: hi)) (hsz : Sized M (lo ++ (bit, data) :: hi)) :
    writeOption M (canonL M (lo ++ hi)) bit data = .ok (canonL M (lo ++ (bit, data) :: hi)) := by
  obtain ⟨hlo, hhi, hshi⟩ := sorted_split hso
  simp only at hlo hhi
  obtain ⟨hbit, hdata⟩ := sized_mem hsz rfl
  have hal := (hwf.2 bit hbit).2
  have hapos : 0 < M.align bit := by omega
  have hso' : Sorted (lo ++ hi) := by
    unfold Sorted at hso ⊢
    rw [List.pairwise_append] at hso ⊢
    obtain ⟨h1, h2, h3⟩ := hso
    rw [List.pairwise_cons] at h2
    exact ⟨h1, h2.2, fun a ha b hb => h3 a ha b (List.mem_cons_of_mem _ hb)⟩
  have hsz' : Sized M (lo ++ hi) := by
    intro f hf
    apply hsz f
    rw [List.mem_append] at hf ⊢
    rcases hf with hf | hf
    · exact Or.inl hf
    · exact Or.inr (List.mem_cons_of_mem _ hf)
  have hszhi : Sized M hi := sized_append_right hsz'
  have hne := canonL_nonempty M (lo ++ hi)
  -- the parser and the search loop
  have hmk : ∃ p, Parser.mk' M (canonL M (lo ++ hi)) = .ok p ∧ PAt M (lo ++ hi) [] (lo ++ hi) p ∧ p.ptr = 4 := by
    cases hfs : lo ++ hi with
    | nil =>
      obtain ⟨p, h1, h2, h3⟩ := mk_empty (M := M) hwf
      exact ⟨p, h1, h2, h3⟩
    | cons x r =>
      obtain ⟨b0, v0⟩ := x
      have hb0 : b0 < M.max := by
        have := hsz' (b0, v0) (by rw [hfs]; exact List.mem_cons_self ..); exact this.1
      have hal0 := (hwf.2 b0 hb0).2
      refine ⟨stAt M ((b0, v0) :: r) [] b0, ?_, rfl, ?_⟩
      · exact mk_nonempty hwf rfl (hfs ▸ hso') (hfs ▸ hsz')
      · simp [stAt, encEnd_nil, padTo_eight _ hal0]
  obtain ⟨p0, hp0, hpat0, hptr0⟩ := hmk
  have hfuel_lo : (loopFuel M (canonL M (lo ++ hi))) > lo.length :=
    length_lt_loopFuel (sorted_append_left hso') (sized_append_left hsz') _
  have hfuel_hi : (loopFuel M (canonL M (lo ++ hi))) > hi.length :=
    length_lt_loopFuel (sorted_append_right hso') hszhi _
  obtain ⟨p1, hpat1, hsearch⟩ := searchLoop_insert hwf hso' hsz' bit data.length hi hhi lo [] p0 p0.ptr
    (loopFuel M (canonL M (lo ++ hi))) (by simp) hlo hpat0 (by rw [hptr0, encEnd_nil]) hfuel_lo
  simp only [List.nil_append] at hpat1 hsearch
  have h8 := le_encEnd M lo 8
  have hbuild := buildPaddingVector_spec hwf hso' hsz' hi lo p1 (encEnd M lo 8 - 4)
    (loopFuel M (canonL M (lo ++ hi))) rfl hpat1 (by omega) hfuel_hi
  -- the buffer, split at the insertion point
  have hW := presentWord_small hwf hsz'
  have hB : canonL M (lo ++ hi) = (le32 (presentWord (lo ++ hi)) ++ enc M lo 8) ++ enc M hi (encEnd M lo 8) := by
    simp [canonL, enc_append]
  have hPlen : (le32 (presentWord (lo ++ hi)) ++ enc M lo 8).length = encEnd M lo 8 - 4 := by
    simp [le32, encEnd]; omega
  have hpadding : calculatePadding (M.align bit) (encEnd M lo 8 - 4 + 4) = padTo (M.align bit) (encEnd M lo 8) := by
    rw [calculatePadding_eq _ _ hapos]
    congr 1
    omega
  have hnot : ¬ (encEnd M lo 8 - 4 > (canonL M (lo ++ hi)).length) := by
    rw [hB, List.length_append, hPlen]; omega
  have htake : (canonL M (lo ++ hi)).take (encEnd M lo 8 - 4) = le32 (presentWord (lo ++ hi)) ++ enc M lo 8 := by
    rw [hB]; exact List.take_left' hPlen
  have hdrop : (canonL M (lo ++ hi)).drop (encEnd M lo 8 - 4) = enc M hi (encEnd M lo 8) := by
    rw [hB]; exact List.drop_left' hPlen
  let pre := le32 (presentWord (lo ++ hi)) ++ enc M lo 8 ++ zeros (padTo (M.align bit) (encEnd M lo 8)) ++ data
  have hprelen : pre.length + 4 = encEnd M lo 8 + padTo (M.align bit) (encEnd M lo 8) + data.length := by
    simp only [pre, List.length_append, zeros_length, hPlen]
    have := hPlen
    simp only [List.length_append] at this
    omega
  have hupd := updatePaddings_spec M hwf hi (encEnd M lo 8) 0 0
    ((encEnd M lo 8 - 4 + padTo (M.align bit) (encEnd M lo 8) + data.length : Nat) : Int) pre
    ((descL M hi (encEnd M lo 8)).length + 1) hszhi (by omega)
    (by omega)
  simp only [List.replicate_zero, List.nil_append] at hupd
  -- run the code
  unfold writeOption
  have hbit' : ¬ (bit ≥ M.max) := by omega
  simp only [hbit', if_false, hp0, hsearch, hne, Bool.false_eq_true, hbuild, hpadding, hnot, htake, hdrop]
  have hbuf1 : le32 (presentWord (lo ++ hi)) ++ enc M lo 8 ++ zeros (padTo (M.align bit) (encEnd M lo 8)) ++ data ++
      enc M hi (encEnd M lo 8) = pre ++ enc M hi (encEnd M lo 8) := rfl
  rw [hbuf1, hupd]
  simp only
  have hread : read32 (pre ++ enc M hi (pre.length + 4)) 0 = presentWord (lo ++ hi) := by
    simp only [pre, List.append_assoc]
    rw [read32_le32]; omega
  have hdrop4 : (pre ++ enc M hi (pre.length + 4)).drop 4
      = enc M lo 8 ++ (zeros (padTo (M.align bit) (encEnd M lo 8)) ++ (data ++ enc M hi (pre.length + 4))) := by
    simp only [pre, List.append_assoc]
    rw [drop4_le32]
  rw [hread, hdrop4, hprelen]
  simp only [canonL, presentWord_insert, enc_append, enc, List.append_assoc]

/-- parser construction on any canonical payload -/
theorem mk_canonL {M : Meta} (hwf : M.wf) {fs : List (Nat × Bytes)} (hso : Sorted fs) (hsz : Sized M fs) :
    ∃ p, Parser.mk' M (canonL M fs) = .ok p ∧ PAt M fs [] fs p ∧ p.ptr = 4 ∧ p.buf = canonL M fs ∧ p.null = false ∧ p.ns = 0 := by
  cases hfs : fs with
  | nil =>
    obtain ⟨p, h1, h2, h3⟩ := mk_empty (M := M) hwf
    exact ⟨p, h1, h2, h3, h2.1, h2.2.1, h2.2.2.1⟩
  | cons x r =>
    obtain ⟨b0, v0⟩ := x
    have hb0 : b0 < M.max := by
      have := hsz (b0, v0) (by rw [hfs]; exact List.mem_cons_self ..); exact this.1
    have hal0 := (hwf.2 b0 hb0).2
    refine ⟨stAt M ((b0, v0) :: r) [] b0, ?_, rfl, ?_, rfl, rfl, rfl⟩
    · exact mk_nonempty hwf rfl (hfs ▸ hso) (hfs ▸ hsz)
    · simp [stAt, encEnd_nil, padTo_eight _ hal0]

/-- where a present field sits in the canonical payload -/
theorem canonL_split (M : Meta) (lo hi : List (Nat × Bytes)) (bit : Nat) (v : Bytes) :
    canonL M (lo ++ (bit, v) :: hi)
      = (le32 (presentWord (lo ++ (bit, v) :: hi)) ++ enc M lo 8 ++ zeros (padTo (M.align bit) (encEnd M lo 8))) ++
        (v ++ enc M hi (encEnd M lo 8 + padTo (M.align bit) (encEnd M lo 8) + v.length)) := by
  simp [canonL, enc_append, enc]

theorem canonL_split_len (M : Meta) (lo : List (Nat × Bytes)) (bit W : Nat) :
    (le32 W ++ enc M lo 8 ++ zeros (padTo (M.align bit) (encEnd M lo 8))).length
      = encEnd M lo 8 + padTo (M.align bit) (encEnd M lo 8) - 4 := by
  simp [le32, encEnd, zeros_length]; omega

/-- `write_option` of a field that is already present: overwritten in place -/
theorem writeOption_overwrite {M : Meta} (hwf : M.wf) (lo hi : List (Nat × Bytes)) (bit : Nat) (old data : Bytes)
    (hso : Sorted (lo ++ (bit, old) :: hi)) (hsz : Sized M (lo ++ (bit, old) :: hi)) (hlen : data.length = old.length) :
    writeOption M (canonL M (lo ++ (bit, old) :: hi)) bit data = .ok (canonL M (lo ++ (bit, data) :: hi)) := by
  obtain ⟨hlo, _, _⟩ := sorted_split hso
  simp only at hlo
  obtain ⟨hbit, hold⟩ := sized_mem hsz rfl
  obtain ⟨p0, hp0, hpat0, hptr0, _⟩ := mk_canonL hwf hso hsz
  have hfound := searchLoop_found hwf hso hsz bit data.length old hi (by omega) lo [] p0 p0.ptr
    (loopFuel M (canonL M (lo ++ (bit, old) :: hi))) (by simp) hlo hpat0
    (length_lt_loopFuel (sorted_append_left hso) (sized_append_left hsz) _)
  simp only [List.nil_append] at hfound
  have hsplit := canonL_split M lo hi bit old
  have hplen := canonL_split_len M lo bit (presentWord (lo ++ (bit, old) :: hi))
  have hptr : (stAt M (lo ++ (bit, old) :: hi) lo bit).ptr
      = encEnd M lo 8 + padTo (M.align bit) (encEnd M lo 8) - 4 := rfl
  have hnot : ¬ ((stAt M (lo ++ (bit, old) :: hi) lo bit).ptr + data.length > (canonL M (lo ++ (bit, old) :: hi)).length) := by
    rw [hptr, hsplit, List.length_append, hplen]
    simp only [List.length_append]
    omega
  unfold writeOption
  have hbit' : ¬ (bit ≥ M.max) := by omega
  simp only [hbit', if_false, hp0, hfound, hptr]
  rw [hsplit, List.take_left' hplen]
  have hd : (le32 (presentWord (lo ++ (bit, old) :: hi)) ++ enc M lo 8 ++ zeros (padTo (M.align bit) (encEnd M lo 8)) ++
      (old ++ enc M hi (encEnd M lo 8 + padTo (M.align bit) (encEnd M lo 8) + old.length))).drop
        (encEnd M lo 8 + padTo (M.align bit) (encEnd M lo 8) - 4 + data.length)
      = enc M hi (encEnd M lo 8 + padTo (M.align bit) (encEnd M lo 8) + old.length) := by
    rw [← hplen, List.drop_length_add_append, hlen]
    exact List.drop_left
  rw [hd, canonL_split M lo hi bit data, presentWord_replace lo hi bit old data, hlen]
  simp only [List.append_assoc]
  rw [if_neg]
  have := hplen
  simp only [List.length_append, le32_length, zeros_length] at this ⊢
  omega

end Tins.RT
